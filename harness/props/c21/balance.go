// C21 part D — states.NativeTokenBalance <-> StorageItem over the FULL representable range.
//
// A token balance is a non-negative integer x (9 decimals); whole = x div 10^9, frac = x mod 10^9.
// The real encoder has two forms:
//
//	StateVersion 0 ("compact")  frac == 0 : Value = 8-byte LE whole            (whole <= 2^64-1)
//	StateVersion 1              frac != 0 : Value = minimal LE two's complement of x
//
// so the representable values are: every integral balance with whole in [0, 2^64-1] and every
// fractional balance (no upper bound).  For an integral balance with whole >= 2^64 the encoder is
// documented to panic (Must...); if it ever returns an item instead, that item has to round-trip.
//
// Verdicts (only what the statement says):
//
//	lossless  decode(encode(x)) == x — never an error, never negative, for every representable x,
//	          through the in-memory item and through the item re-read from its serialized bytes
//	minimal   encode(x) is the reference form above (integral values use the compact form) and
//	          encode(decode(encode(x))) gives the very same bytes (one encoding per value)
//	items     an arbitrary item: a canonical one (v0 with 8 bytes; v1 minimal, non-negative, frac != 0)
//	          must decode to its reference value; a negative or truncated one must not decode to a
//	          balance; a non-canonical one (v1 with zero fraction, sign-padded v1, v0 with trailing
//	          bytes) may be rejected — if it is accepted (the unchanged tree accepts them) the value
//	          must be the one of its canonical normalisation and re-encoding must give exactly the
//	          canonical item of that value (observed as info_* counters, not judged beyond that)
package main

import (
	"bytes"
	"encoding/binary"
	"fmt"
	"math"
	"math/big"

	"github.com/laizy/bigint"
	"github.com/ontio/ontology/common"
	"github.com/ontio/ontology/core/states"
	"verifharness/lib/vf"
)

var (
	scale       = big.NewInt(1000000000)
	two64       = pow2(64)
	maxWhole    = new(big.Int).Sub(two64, big.NewInt(1))               // 2^64-1 whole tokens
	maxIntegral = new(big.Int).Mul(maxWhole, scale)                    // largest balance with a compact form
	maxU64Whole = new(big.Int).Add(maxIntegral, big.NewInt(999999999)) // largest balance whose whole part fits uint64
	ongSupply   = new(big.Int).Exp(big.NewInt(10), big.NewInt(27), nil)
)

// bandNames: magnitude bands of the whole-token part.
var bandNames = []string{"0", "lt2^31", "lt2^32", "lt2^53", "lt2^62", "lt2^63", "lt2^64", "ge2^64"}

var bandLimits = []int{31, 32, 53, 62, 63, 64} // band i+1 = [2^prev, 2^limit)

func bandOf(whole *big.Int) string {
	if whole.Sign() == 0 {
		return bandNames[0]
	}
	for i, l := range bandLimits {
		if whole.BitLen() <= l {
			return bandNames[i+1]
		}
	}
	return bandNames[7]
}

// anchorOf names the boundary value classes the task is built around ("" for any other whole part).
func anchorOf(whole *big.Int) string {
	if !whole.IsUint64() {
		return ""
	}
	switch whole.Uint64() {
	case 0:
		return "0"
	case 1 << 31:
		return "2^31"
	case 1 << 32:
		return "2^32"
	case 1 << 53:
		return "2^53"
	case 1 << 62:
		return "2^62"
	case 1<<63 - 1:
		return "2^63-1"
	case 1 << 63:
		return "2^63"
	case 1<<63 + 1:
		return "2^63+1"
	case math.MaxUint64:
		return "2^64-1"
	}
	return ""
}

var anchorNames = []string{"0", "2^31", "2^32", "2^53", "2^62", "2^63-1", "2^63", "2^63+1", "2^64-1"}

// refItem: the one storage item (version, value) of a representable balance.
func refItem(x *big.Int) (ver byte, val []byte, representable bool) {
	whole, frac := new(big.Int).QuoRem(x, scale, new(big.Int))
	if frac.Sign() != 0 {
		return 1, refNeo(x), true
	}
	if !whole.IsUint64() {
		return 0, nil, false
	}
	val = make([]byte, 8)
	binary.LittleEndian.PutUint64(val, whole.Uint64())
	return 0, val, true
}

func mkBalance(whole uint64, frac uint32) *big.Int {
	x := new(big.Int).SetUint64(whole)
	x.Mul(x, scale)
	return x.Add(x, big.NewInt(int64(frac)))
}

var fracEdges = []uint32{1, 2, 127, 128, 255, 256, 32767, 32768, 65535, 65536, 499999999, 500000000, 999999998, 999999999}

// genWholeInBand draws a whole-token count from band b (1..6: inside uint64; 7: 2^64 and above).
func genWholeInBand(rng *vf.RNG, b int) *big.Int {
	if b == 0 {
		return new(big.Int)
	}
	lo, hi := 0, 0 // bit lengths lo+1 .. hi
	if b <= 6 {
		hi = bandLimits[b-1]
		if b > 1 {
			lo = bandLimits[b-2]
		}
	} else {
		lo, hi = 64, 100
	}
	switch rng.Intn(4) {
	case 0: // just above the lower edge of the band
		base := big.NewInt(1)
		if lo > 0 {
			base = pow2(lo)
		}
		return base.Add(base, big.NewInt(int64(rng.Intn(4))))
	case 1: // just below the upper edge of the band
		top := pow2(hi)
		top.Sub(top, big.NewInt(int64(rng.Range(1, 4))))
		if top.BitLen() <= lo { // band too narrow for the offset
			return pow2(lo)
		}
		return top
	default: // seeded bit length inside the band, top bit forced
		bits := rng.Range(lo+1, hi)
		w := new(big.Int).SetBytes(rng.Bytes((bits + 7) / 8))
		w.Rsh(w, uint(8*((bits+7)/8)-bits))
		w.SetBit(w, bits-1, 1)
		return w
	}
}

func genFrac(rng *vf.RNG) uint32 {
	switch rng.Intn(5) {
	case 0, 1:
		return 0
	case 2:
		return fracEdges[rng.Intn(len(fracEdges))]
	default:
		return uint32(rng.Range(1, 999999999))
	}
}

func genBalance(rng *vf.RNG) (*big.Int, string) {
	switch rng.Intn(10) {
	case 0: // free-form: any bit length up to 100 bits
		x := randBig(rng, 100)
		return x.Abs(x), "random"
	case 1: // around the ONG supply 10^27 and the ends of the uint64-whole range
		d := new(big.Int).SetUint64(rng.U64() >> uint(rng.Intn(64)))
		switch rng.Intn(3) {
		case 0:
			return d.Sub(ongSupply, d).Abs(d), "near-10^27"
		case 1:
			return d.Sub(maxU64Whole, d).Abs(d), "near-max-uint64-whole"
		default:
			return d.Add(maxIntegral, d), "above-max-integral"
		}
	case 2: // a whole amount ± a few units (version flips between neighbours)
		w := genWholeInBand(rng, rng.Range(0, 6))
		x := w.Mul(w, scale)
		x.Add(x, big.NewInt(int64(rng.Range(-3, 3))))
		return x.Abs(x), "near-whole"
	default: // a magnitude band of the whole part, with or without fraction
		b := rng.Intn(8)
		w := genWholeInBand(rng, b)
		x := w.Mul(w, scale)
		x.Add(x, big.NewInt(int64(genFrac(rng))))
		return x, "band"
	}
}

func decodeBalance(it *states.StorageItem) (v *big.Int, err error, panicked interface{}) {
	panicked = vf.Catch(func() {
		var b states.NativeTokenBalance
		b, err = states.NativeTokenBalanceFromStorageItem(it)
		if err == nil {
			v = b.ToBigInt()
		}
	})
	return
}

func checkBalance(a *acc, rng *vf.RNG, x *big.Int, src string) {
	r := a.r
	a.eval(func() string { return "bal/" + x.String() })
	orig := new(big.Int).Set(x)
	wholeBig, fracBig := new(big.Int).QuoRem(orig, scale, new(big.Int))
	whole := fracBig.Sign() == 0
	kind := "fractional"
	if whole {
		kind = "integral"
	}
	band := bandOf(wholeBig)
	wantVer, wantVal, representable := refItem(orig)
	witness := func(extra map[string]interface{}) map[string]interface{} {
		m := map[string]interface{}{"balance": orig.String(), "whole_part": wholeBig.String(), "fraction": fracBig.String(), "src": src}
		for k, v := range extra {
			m[k] = v
		}
		return m
	}

	bal := states.NativeTokenBalance{Balance: bigint.New(x)}
	var item *states.StorageItem
	var raw []byte
	p := vf.Catch(func() { item = bal.MustToStorageItem(); raw = bal.MustToStorageItemBytes() })
	if !representable {
		// integral, whole part above uint64: no compact form exists.  The encoder must refuse (it is a
		// Must... function: panic) or hand out an item that reads back as the same value.
		if p != nil {
			a.count("balance_oversized_integral_refused")
			return
		}
		a.count("balance_oversized_integral_encoded")
		back, err, dp := decodeBalance(item)
		if dp != nil || err != nil || back.Cmp(orig) != 0 {
			r.Violation("balance:oversized-integral:lossy-encode", "MustToStorageItem returned an item for an integral balance above 2^64-1 whole tokens that does not read back as that balance",
				witness(map[string]interface{}{"raw": hx(raw), "decoded": fmt.Sprint(back), "err": fmt.Sprint(err), "panic": fmt.Sprint(dp)}))
		}
		return
	}
	if p != nil {
		r.Violation("balance:panic:encode:"+kind+":"+band, fmt.Sprint(p), witness(nil))
		return
	}
	a.count("balance_band_" + band + "_" + kind)
	if an := anchorOf(wholeBig); an != "" {
		a.count("balance_boundary_" + an + "_" + kind)
	}
	if orig.Cmp(maxIntegral) == 0 || orig.Cmp(maxU64Whole) == 0 {
		a.count("balance_max_representable_" + kind)
	}
	if x.Cmp(orig) != 0 {
		r.Violation("balance:encode-mutates-value", "MustToStorageItem changed the balance", witness(map[string]interface{}{"after": x.String()}))
	}
	if whole {
		a.count("balance_whole")
	} else {
		a.count("balance_fractional")
	}
	if item.StateVersion != wantVer {
		r.Violation(fmt.Sprintf("balance:version:whole=%v", whole), "storage item version must be 0 (compact form) exactly when the balance is a multiple of 10^9",
			witness(map[string]interface{}{"version": item.StateVersion}))
	}
	if !bytes.Equal(item.Value, wantVal) {
		r.Violation(fmt.Sprintf("balance:item-value:whole=%v", whole), "storage item value differs from the reference (v0: 8-byte LE token count, v1: minimal LE two's complement)",
			witness(map[string]interface{}{"real": hx(item.Value), "reference": hx(wantVal)}))
	}
	wantRaw := append([]byte{wantVer, byte(len(wantVal))}, wantVal...)
	if !bytes.Equal(raw, wantRaw) || !bytes.Equal(item.ToArray(), raw) {
		r.Violation("balance:item-bytes", "serialized storage item differs from [version][len][value]", witness(map[string]interface{}{"real": hx(raw), "reference": hx(wantRaw)}))
	}
	// the accessors that convert the balance to machine integers
	if wholeBig.IsUint64() {
		var gotWhole, gotFrac uint64
		var gotFloat bool
		var gotInt *big.Int
		if ap := vf.Catch(func() {
			gotWhole, gotFrac, gotFloat, gotInt = bal.MustToInteger64(), bal.FloatPart(), bal.IsFloat(), bal.ToInteger().BigInt()
		}); ap != nil {
			r.Violation("balance:panic:accessors:"+band, fmt.Sprint(ap), witness(nil))
		} else if gotWhole != wholeBig.Uint64() || gotFrac != fracBig.Uint64() || gotFloat == whole || gotInt.Cmp(wholeBig) != 0 {
			r.Violation("balance:accessors:"+kind+":"+band, "MustToInteger64 / FloatPart / IsFloat / ToInteger disagree with whole = x div 10^9, frac = x mod 10^9",
				witness(map[string]interface{}{"MustToInteger64": gotWhole, "FloatPart": gotFrac, "IsFloat": gotFloat, "ToInteger": gotInt.String()}))
		}
		if whole {
			a.count("balance_from_integer")
			var fi *big.Int
			if ap := vf.Catch(func() { fi = states.NativeTokenBalanceFromInteger(wholeBig.Uint64()).ToBigInt() }); ap != nil || fi.Cmp(orig) != 0 {
				r.Violation("balance:from-integer:"+band, "NativeTokenBalanceFromInteger(w) is not w * 10^9",
					witness(map[string]interface{}{"real": fmt.Sprint(fi), "panic": fmt.Sprint(ap)}))
			}
		}
	}
	// decode the in-memory item and the item re-read from its bytes
	for _, via := range []string{"item", "bytes"} {
		it := item
		if via == "bytes" {
			it = &states.StorageItem{}
			if err := it.Deserialization(common.NewZeroCopySource(raw)); err != nil {
				r.Violation("balance:item-bytes-unreadable", err.Error(), witness(map[string]interface{}{"raw": hx(raw)}))
				continue
			}
		}
		back, err, dp := decodeBalance(it)
		if dp != nil {
			r.Violation("balance:panic:decode", fmt.Sprint(dp), witness(map[string]interface{}{"raw": hx(raw)}))
			continue
		}
		if err != nil || back.Cmp(orig) != 0 {
			shape := "wrong-value"
			if err != nil {
				shape = "error"
			} else if back.Sign() < 0 {
				shape = "negative"
			}
			r.Violation(fmt.Sprintf("balance:roundtrip:%s:whole=%v:%s:%s", via, whole, band, shape), "NativeTokenBalanceFromStorageItem(MustToStorageItem(x)) != x",
				witness(map[string]interface{}{"raw": hx(raw), "decoded": fmt.Sprint(back), "err": fmt.Sprint(err)}))
			continue
		}
		// one encoding per value: the value read back encodes to the very same bytes
		var again []byte
		if ep := vf.Catch(func() { again = states.NativeTokenBalance{Balance: bigint.New(back)}.MustToStorageItemBytes() }); ep != nil || !bytes.Equal(again, raw) {
			r.Violation("balance:reencode:"+kind+":"+band, "encoding the decoded balance does not give the bytes it was decoded from",
				witness(map[string]interface{}{"raw": hx(raw), "reencoded": hx(again), "panic": fmt.Sprint(ep)}))
		}
	}
	// bytes are a function of the value only: the same value reached through other arithmetic
	// (different big.Int backing arrays / capacities) must give the same bytes
	d := new(big.Int).SetUint64(rng.U64() >> uint(rng.Intn(64)))
	var other states.NativeTokenBalance
	how := ""
	switch rng.Intn(3) {
	case 0: // (x+d)-d through the type's own Add/Sub
		t := bal.Add(states.NativeTokenBalance{Balance: bigint.New(d)})
		o, err := t.Sub(states.NativeTokenBalance{Balance: bigint.New(d)})
		if err != nil {
			r.Violation("balance:sub-underflow-spurious", err.Error(), witness(map[string]interface{}{"d": d.String()}))
			return
		}
		other, how = o, "add-sub"
	case 1: // a big.Int that once held a much larger number
		t := new(big.Int).Lsh(orig, 700)
		t.Rsh(t, 700)
		other, how = states.NativeTokenBalance{Balance: bigint.New(t)}, "shrunk-bigint"
	default: // parsed from decimal text
		t, _ := new(big.Int).SetString(orig.String(), 10)
		other, how = states.NativeTokenBalance{Balance: bigint.New(t)}, "parsed"
	}
	a.count("balance_same_value_" + how)
	var raw2 []byte
	if p := vf.Catch(func() { raw2 = other.MustToStorageItemBytes() }); p != nil {
		r.Violation("balance:panic:encode", fmt.Sprint(p), witness(map[string]interface{}{"how": how}))
		return
	}
	if !bytes.Equal(raw, raw2) {
		r.Violation("balance:bytes-depend-on-history:"+how, "two equal balances produced different storage item bytes",
			witness(map[string]interface{}{"first": hx(raw), "second": hx(raw2), "how": how}))
	}
	// the other stored forms of this value (never produced by the encoder) through the item oracle
	if whole {
		judgeItem(a, 1, refNeo(orig), "v1-form-of-integral")
	}
	if rng.Chance(25) {
		pad := append(append([]byte(nil), wantVal...), make([]byte, rng.Range(1, 3))...)
		judgeItem(a, wantVer, pad, "zero-padded-canonical")
	}
	if rng.Chance(15) && len(wantVal) > 0 {
		judgeItem(a, wantVer, wantVal[:rng.Intn(len(wantVal))], "truncated-canonical")
	}
}

// judgeItem runs the real decoder on an arbitrary storage item and compares with the reference
// reading of it (see the file comment for the verdicts).
func judgeItem(a *acc, ver byte, val []byte, src string) {
	r := a.r
	a.evals++
	it := &states.StorageItem{StateBase: states.StateBase{StateVersion: ver}, Value: append([]byte(nil), val...)}
	got, err, p := decodeBalance(it)
	w := func(extra map[string]interface{}) map[string]interface{} {
		m := map[string]interface{}{"version": ver, "value": hx(val), "src": src}
		for k, v := range extra {
			m[k] = v
		}
		return m
	}
	if p != nil {
		r.Violation(fmt.Sprintf("balance-item:panic:decode:v%d", ver), fmt.Sprint(p), w(nil))
		return
	}
	if !bytes.Equal(it.Value, val) {
		r.Violation("balance-item:decode-mutates-item", "NativeTokenBalanceFromStorageItem changed the item's bytes", w(map[string]interface{}{"after": hx(it.Value)}))
	}
	if err == nil && got.Sign() < 0 {
		a.count("balance_item_negative_result")
		r.Violation(fmt.Sprintf("balance-item:negative-balance:v%d:len%s", ver, lenClass(len(val))), "a storage item was decoded to a NEGATIVE token balance",
			w(map[string]interface{}{"decoded": got.String()}))
		return
	}
	// reference reading
	var want *big.Int
	class := ""
	switch ver {
	case 0:
		switch {
		case len(val) < 8:
			class = "v0-truncated"
		case len(val) == 8:
			class = "v0-canonical"
		default:
			class = "v0-trailing-bytes"
		}
		if len(val) >= 8 {
			want = new(big.Int).SetUint64(binary.LittleEndian.Uint64(val[:8]))
			want.Mul(want, scale)
		}
	case 1:
		want = refFromNeo(val)
		switch {
		case want.Sign() < 0:
			class, want = "v1-negative", nil
		case !bytes.Equal(refNeo(want), val):
			class = "v1-sign-padded"
		case new(big.Int).Mod(want, scale).Sign() == 0:
			class = "v1-zero-fraction"
		default:
			class = "v1-canonical"
		}
	default:
		// versions the encoder never writes: the statement says nothing about them.  Only the
		// generic clauses apply (no panic, never negative; a returned value must be re-encodable
		// to an item that reads back as the same value).
		class = "other-version"
		if err != nil {
			a.count("balance_item_other-version_rejected")
			return
		}
		a.count("info_balance_decoder_accepts_other_version")
		reencodeFixpoint(a, got, w)
		return
	}
	a.count("balance_item_" + class)
	switch class {
	case "v0-truncated", "v1-negative":
		if err == nil {
			r.Violation("balance-item:accepts-invalid:"+class, "a storage item that is no encoding of any balance was decoded to one", w(map[string]interface{}{"decoded": got.String()}))
		}
	case "v0-canonical", "v1-canonical":
		if err != nil {
			r.Violation("balance-item:rejects-canonical:"+class, "the canonical storage item of a balance was rejected: "+err.Error(), w(map[string]interface{}{"reference": want.String()}))
			return
		}
		if got.Cmp(want) != 0 {
			r.Violation("balance-item:wrong-value:"+class+":"+bandOf(new(big.Int).Div(want, scale)), "a canonical storage item was decoded to another balance than it encodes",
				w(map[string]interface{}{"decoded": got.String(), "reference": want.String()}))
			return
		}
		var again *states.StorageItem
		if ep := vf.Catch(func() { again = states.NativeTokenBalance{Balance: bigint.New(got)}.MustToStorageItem() }); ep != nil || again.StateVersion != ver || !bytes.Equal(again.Value, val) {
			r.Violation("balance-item:reencode:"+class, "re-encoding the balance read from a canonical item gives another item (two encodings of one value)",
				w(map[string]interface{}{"decoded": got.String(), "reencoded": fmt.Sprint(again), "panic": fmt.Sprint(ep)}))
		}
	default: // non-canonical forms of an in-range value: rejection is fine, acceptance must normalise
		if err != nil {
			a.count("balance_item_" + class + "_rejected")
			return
		}
		a.count("info_balance_decoder_accepts_" + class)
		if got.Cmp(want) != 0 {
			r.Violation("balance-item:noncanonical-form-wrong-value:"+class, "a non-canonical storage item was accepted with another value than that of its canonical normalisation",
				w(map[string]interface{}{"decoded": got.String(), "value_of_normalisation": want.String()}))
			return
		}
		reencodeFixpoint(a, got, w)
	}
}

// reencodeFixpoint: a value the decoder handed out must (when it has an encoding at all) encode
// to the reference item of that value, and that item must read back as the same value.
func reencodeFixpoint(a *acc, v *big.Int, w func(map[string]interface{}) map[string]interface{}) {
	r := a.r
	ver, val, representable := refItem(v)
	var again *states.StorageItem
	p := vf.Catch(func() { again = states.NativeTokenBalance{Balance: bigint.New(v)}.MustToStorageItem() })
	if !representable {
		if p != nil {
			a.count("info_balance_noncanonical_item_holds_value_without_encoding")
			return
		}
	} else if p != nil || again.StateVersion != ver || !bytes.Equal(again.Value, val) {
		r.Violation("balance-item:normalise", "re-encoding the balance read from a non-canonical item does not give the canonical item of that value",
			w(map[string]interface{}{"decoded": v.String(), "reencoded": fmt.Sprint(again), "reference_version": ver, "reference_value": hx(val), "panic": fmt.Sprint(p)}))
		return
	}
	back, err, dp := decodeBalance(again)
	if dp != nil || err != nil || back.Cmp(v) != 0 {
		r.Violation("balance-item:normalise-not-idempotent", "decoding the normalised item gives another value",
			w(map[string]interface{}{"decoded": v.String(), "normalised": fmt.Sprint(again), "redecoded": fmt.Sprint(back), "err": fmt.Sprint(err), "panic": fmt.Sprint(dp)}))
	}
}

func lenClass(n int) string {
	switch {
	case n < 8:
		return "<8"
	case n == 8:
		return "=8"
	default:
		return ">8"
	}
}

// genItem draws an arbitrary storage item (version, value bytes).
func genItem(rng *vf.RNG) (byte, []byte, string) {
	u64 := func(v uint64) []byte {
		b := make([]byte, 8)
		binary.LittleEndian.PutUint64(b, v)
		return b
	}
	switch rng.Intn(8) {
	case 0: // compact item, any 8 bytes (half of them with the top bit set)
		return 0, rng.Bytes(8), "v0-random"
	case 1: // compact item at a uint64 edge
		e := uint(rng.Range(0, 63))
		v := (uint64(1) << e) + uint64(rng.Range(-2, 2))
		if rng.Chance(20) {
			v = math.MaxUint64 - uint64(rng.Intn(3))
		}
		return 0, u64(v), "v0-edge"
	case 2: // compact item of the wrong length
		return 0, rng.Bytes(rng.Range(0, 20)), "v0-any-length"
	case 3: // version 1, random bytes (either sign)
		return 1, rng.Bytes(rng.Range(0, 20)), "v1-random"
	case 4: // version 1, the bytes of a compact item (8 bytes read as two's complement)
		return 1, u64(rng.U64() | uint64(rng.Intn(2))<<63), "v1-8-bytes"
	case 5: // version 1, minimal form of a balance, sometimes sign-padded
		x, _ := genBalance(rng)
		b := refNeo(x)
		if rng.Chance(30) {
			b = append(b, make([]byte, rng.Range(1, 3))...)
		}
		return 1, b, "v1-of-balance"
	case 6: // version 1, a negative number
		x, _ := genBalance(rng)
		x.Add(x, big.NewInt(1))
		return 1, refNeo(x.Neg(x)), "v1-negative"
	default: // a version the encoder never writes
		x, _ := genBalance(rng)
		_, val, ok := refItem(x)
		if !ok {
			val = refNeo(x)
		}
		return byte(rng.Range(2, 255)), val, "other-version"
	}
}

// balanceBoundaries: the deterministic boundary set of part D.
func balanceBoundaries() []*big.Int {
	var wholes []uint64
	seen := map[uint64]bool{}
	add := func(v uint64) {
		if !seen[v] {
			seen[v] = true
			wholes = append(wholes, v)
		}
	}
	for e := uint(0); e < 64; e++ {
		for d := int64(-2); d <= 2; d++ {
			add((uint64(1) << e) + uint64(d)) // e = 0, d = -1/-2 wrap to 2^64-1, 2^64-2 on purpose
		}
	}
	for _, v := range []uint64{0, 1000000000, 1000000000000000000, 1000000000000000000 - 1, 1000000000000000000 + 1, math.MaxUint64, math.MaxUint64 - 1, math.MaxUint64 - 2,
		math.MaxInt64, math.MaxInt64 - 1, math.MaxUint32, math.MaxInt32, 1<<53 - 1, 1<<53 + 1} {
		add(v)
	}
	for k := uint64(0); k <= 300; k++ {
		add(k)
	}
	var out []*big.Int
	for _, w := range wholes {
		out = append(out, mkBalance(w, 0))
		for _, f := range fracEdges {
			out = append(out, mkBalance(w, f))
		}
	}
	// byte-length edges of the VALUE (version-1 form) and of the whole part, as before
	for _, e := range edgeSet(13) {
		if e.Sign() >= 0 {
			out = append(out, e)
		}
	}
	// the ONG supply and both ends of what can be stored
	for _, v := range []*big.Int{ongSupply, new(big.Int).Sub(ongSupply, big.NewInt(1)), new(big.Int).Sub(ongSupply, scale), new(big.Int).Add(ongSupply, big.NewInt(1)),
		maxIntegral, maxU64Whole, new(big.Int).Sub(maxIntegral, big.NewInt(1)), new(big.Int).Add(maxU64Whole, big.NewInt(1)),
		new(big.Int).Add(maxU64Whole, big.NewInt(2)), new(big.Int).Mul(two64, new(big.Int).Mul(scale, big.NewInt(3))),
		new(big.Int).Add(new(big.Int).Mul(pow2(90), scale), big.NewInt(7))} {
		out = append(out, new(big.Int).Set(v))
	}
	return out
}

// itemBoundaries: deterministic storage items through judgeItem.
func itemBoundaries(a *acc) {
	u64 := func(v uint64) []byte {
		b := make([]byte, 8)
		binary.LittleEndian.PutUint64(b, v)
		return b
	}
	for e := uint(0); e < 64; e++ {
		for d := int64(-2); d <= 2; d++ {
			v := (uint64(1) << e) + uint64(d)
			judgeItem(a, 0, u64(v), "edge")
			judgeItem(a, 1, u64(v), "edge")                                         // 8 bytes read as two's complement: negative from 2^63 on
			judgeItem(a, 1, refNeo(mkBalance(v, 0)), "edge")                        // v1 form of an integral balance
			judgeItem(a, 1, append(refNeo(mkBalance(v, 1)), 0), "edge")             // sign-padded v1
			judgeItem(a, 1, refNeo(new(big.Int).Neg(mkBalance(v|1, 1))), "edge")    // negative
			judgeItem(a, 0, append(u64(v), 0), "edge")                              // compact + trailing byte
			judgeItem(a, 0, u64(v)[:7], "edge")                                     // compact, truncated
			judgeItem(a, 2, u64(v), "edge")                                         // unknown version
			judgeItem(a, 0xff, refNeo(new(big.Int).Neg(mkBalance(v|1, 0))), "edge") // unknown version, negative body
		}
	}
	for n := 0; n <= 12; n++ {
		judgeItem(a, 0, bytes.Repeat([]byte{0xff}, n), "ff-run")
		judgeItem(a, 1, bytes.Repeat([]byte{0xff}, n), "ff-run")
		judgeItem(a, 0, make([]byte, n), "00-run")
		judgeItem(a, 1, make([]byte, n), "00-run")
	}
}
