// C21 part D, end to end: the token balance storage item on a real solo ledger.
//
// ONT / ONG allowances are stored as NativeTokenBalance storage items.  Boundary and seeded amounts
// are approved through real transactions ("approve": uint64 whole tokens, "approveV2": 9-decimal
// big integer), committed, and then read back three ways: the raw storage item (must be the one
// reference item of the amount), "allowanceV2" (must be the amount) and "allowance" (must be its
// whole part) through PreExecuteContract.  Keys are approved a second and third time with other
// amounts, so that items of one form are overwritten by items of the other.  The oracle is
// general — a transaction that succeeded must leave exactly its amount, one that failed (the
// contracts cap approvals at the total supply) must leave what was there before.
package main

import (
	"bytes"
	"crypto/sha256"
	"encoding/hex"
	"fmt"
	"math"
	"math/big"
	"os"

	"github.com/ontio/ontology/common"
	"github.com/ontio/ontology/core/states"
	"github.com/ontio/ontology/core/types"
	"github.com/ontio/ontology/smartcontract/service/native/ont"
	nutils "github.com/ontio/ontology/smartcontract/service/native/utils"
	"verifharness/lib/chain"
	"verifharness/lib/vf"
)

type alwCase struct {
	asset  string
	to     common.Address
	amount *big.Int // approved in this round (9 decimals)
	method string
	tx     *types.Transaction
	prev   *big.Int // model: what the key holds (nil = never written)
}

func assetAddr(asset string) common.Address {
	if asset == "ong" {
		return nutils.OngContractAddress
	}
	return nutils.OntContractAddress
}

func e2eAmounts(rng *vf.RNG, asset string) []*big.Int {
	var wholes []uint64
	var over []uint64
	if asset == "ong" { // approvals up to 10^18 whole tokens
		wholes = []uint64{0, 1, 2, 255, 256, 1<<31 - 1, 1 << 31, 1<<31 + 1, 1<<32 - 1, 1 << 32, 1<<32 + 1, 1<<53 - 1, 1 << 53, 1<<53 + 1, 1000000000000000000 - 1}
		over = []uint64{1000000000000000000, 1000000000000000000 + 1, 1 << 62, 1<<63 - 1, 1 << 63, 1<<63 + 1, math.MaxUint64 - 1, math.MaxUint64}
	} else { // ONT: up to 10^9 whole tokens
		wholes = []uint64{0, 1, 2, 127, 128, 255, 256, 65535, 65536, 1 << 24, 1000000000 - 1}
		over = []uint64{1000000000, 1000000000 + 1, 1 << 31, 1 << 32, 1 << 53, 1 << 63, math.MaxUint64}
	}
	var out []*big.Int
	for _, w := range wholes {
		for _, f := range []uint32{0, 1, 128, 999999999} {
			out = append(out, mkBalance(w, f))
		}
	}
	for _, w := range over { // the first one with fraction 0 is exactly the cap, everything else is above it
		for _, f := range []uint32{0, 1} {
			out = append(out, mkBalance(w, f))
		}
	}
	maxBand := 4 // ONG: whole parts up to the lt2^62 band
	if asset == "ont" {
		maxBand = 1
	}
	for b := 1; b <= maxBand; b++ {
		for k := 0; k < 4; k++ {
			w := genWholeInBand(rng, b)
			x := w.Mul(w, scale)
			out = append(out, x.Add(x, big.NewInt(int64(genFrac(rng)))))
		}
	}
	return out
}

func allowanceEndToEnd(r *vf.Run, rng *vf.RNG) {
	dir := vf.Scratch("c21")
	defer os.RemoveAll(dir)
	w := chain.NewWorld("c21", 1)
	c, err := chain.NewSolo(dir, w.BK)
	if err != nil {
		r.Inconclusive("end-to-end: cannot create the solo ledger: " + err.Error())
		return
	}
	defer c.Close()
	owner := w.BK

	var cases []*alwCase
	for _, asset := range []string{"ong", "ont"} {
		for i, amt := range e2eAmounts(rng.Sub(uint64(len(asset))), asset) {
			h := sha256.Sum256([]byte(fmt.Sprintf("c21/spender/%s/%d", asset, i)))
			var to common.Address
			copy(to[:], h[:20])
			cases = append(cases, &alwCase{asset: asset, to: to, amount: amt})
		}
	}

	read := func(cs *alwCase, method string) (*big.Int, string) {
		mt, err := w.TB.Native(0, 0, assetAddr(cs.asset), method, []interface{}{&struct{ From, To common.Address }{owner.Address, cs.to}})
		if err != nil {
			return nil, "build: " + err.Error()
		}
		var res interface{}
		var state byte
		var perr error
		if p := vf.Catch(func() {
			pr, e := c.Ledger.PreExecuteContract(chain.Immutable(mt))
			perr = e
			if e == nil {
				res, state = pr.Result, pr.State
			}
		}); p != nil {
			return nil, "panic: " + fmt.Sprint(p)
		}
		if perr != nil {
			return nil, "error: " + perr.Error()
		}
		s, ok := res.(string)
		if state != 1 || !ok {
			return nil, fmt.Sprintf("state=%d result=%v", state, res)
		}
		b, err := hex.DecodeString(s)
		if err != nil {
			return nil, "result is not hex: " + s
		}
		return refFromNeo(b), ""
	}

	for round := 0; round < 3; round++ {
		rr := rng.Sub(uint64(100 + round))
		// rounds 1 and 2 give every key the amount of another case of the same asset
		if round > 0 {
			for _, asset := range []string{"ong", "ont"} {
				var idx []int
				for i, cs := range cases {
					if cs.asset == asset {
						idx = append(idx, i)
					}
				}
				amts := make([]*big.Int, len(idx))
				for k, p := range rr.Perm(len(idx)) {
					amts[k] = cases[idx[p]].amount
				}
				for k, i := range idx {
					cases[i].amount = amts[k]
				}
			}
		}
		var txs []*types.Transaction
		for _, cs := range cases {
			whole, frac := new(big.Int).QuoRem(cs.amount, scale, new(big.Int))
			cs.method = "approveV2"
			if frac.Sign() == 0 && whole.IsUint64() && rr.Bool() {
				cs.method = "approve"
			}
			var param interface{}
			if cs.method == "approve" {
				param = &ont.TransferState{From: owner.Address, To: cs.to, Value: whole.Uint64()}
			} else {
				param = &struct {
					From, To common.Address
					Value    *big.Int
				}{owner.Address, cs.to, new(big.Int).Set(cs.amount)}
			}
			mt, err := w.TB.Native(0, 20000, assetAddr(cs.asset), cs.method, []interface{}{param})
			if err == nil {
				err = chain.Sign(mt, owner)
			}
			if err != nil {
				r.Inconclusive("end-to-end: cannot build an approve transaction: " + err.Error())
				return
			}
			cs.tx = chain.Immutable(mt)
			txs = append(txs, cs.tx)
		}
		blk, err := c.MakeBlock(txs, 0)
		if err == nil {
			_, err = c.CommitExec(blk)
		}
		if err != nil {
			r.Inconclusive(fmt.Sprintf("end-to-end: block of approve transactions (round %d) was not committed: %v", round, err))
			return
		}
		for _, cs := range cases {
			whole, frac := new(big.Int).QuoRem(cs.amount, scale, new(big.Int))
			kind := "fractional"
			if frac.Sign() == 0 {
				kind = "integral"
			}
			wit := func(extra map[string]interface{}) map[string]interface{} {
				m := map[string]interface{}{"asset": cs.asset, "method": cs.method, "owner": owner.Address.ToHexString(), "spender": cs.to.ToHexString(),
					"amount": cs.amount.String(), "round": round, "held_before": fmt.Sprint(cs.prev)}
				for k, v := range extra {
					m[k] = v
				}
				return m
			}
			ev, err := c.Ledger.GetEventNotifyByTx(cs.tx.Hash())
			if err != nil || ev == nil {
				r.Inconclusive(fmt.Sprintf("end-to-end: no execution record of an approve transaction: %v", err))
				return
			}
			r.Eval(fmt.Sprintf("e2e/%s/%s/%s/%d", cs.asset, cs.method, cs.amount, round))
			want := cs.prev
			if ev.State == 1 {
				r.Count("e2e_approve_ok_" + cs.asset + "_" + cs.method + "_" + kind)
				r.Count("e2e_band_" + bandOf(whole) + "_" + kind)
				if cs.prev != nil {
					pk := "fractional"
					if new(big.Int).Mod(cs.prev, scale).Sign() == 0 {
						pk = "integral"
					}
					r.Count("e2e_overwrite_" + pk + "_by_" + kind)
				}
				want = cs.amount
			} else {
				r.Count("info_e2e_approve_refused_" + cs.asset)
			}
			cs.prev = want
			// (1) the raw item in the committed state
			key := ont.GenApproveKey(assetAddr(cs.asset), owner.Address, cs.to)
			var item *states.StorageItem
			if p := vf.Catch(func() { item, err = nutils.GetStorageItem(c.Store().GetCacheDB(), key) }); p != nil || err != nil {
				r.Violation("e2e:stored-item-unreadable", fmt.Sprintf("the stored allowance item cannot be read: %v %v", err, p), wit(nil))
				continue
			}
			if want == nil {
				if item != nil {
					r.Violation("e2e:failed-approve-wrote-item", "an approve transaction that failed left an allowance item behind", wit(map[string]interface{}{"item": hx(item.ToArray())}))
				}
			} else {
				ver, val, _ := refItem(want)
				if item == nil || item.StateVersion != ver || !bytes.Equal(item.Value, val) {
					r.Violation("e2e:stored-item:"+kind, "the stored allowance item is not the reference item of the amount the key must hold",
						wit(map[string]interface{}{"item": fmt.Sprint(item), "reference_version": ver, "reference_value": hx(val), "must_hold": want.String()}))
				}
				r.Count("e2e_stored_item_checked")
			}
			// (2) (3) through the contract
			mustHold := new(big.Int)
			if want != nil {
				mustHold.Set(want)
			}
			for _, m := range []string{"allowanceV2", "allowance"} {
				expect := mustHold
				if m == "allowance" {
					expect = new(big.Int).Div(mustHold, scale)
				}
				got, why := read(cs, m)
				r.Count("e2e_read_" + m)
				if why != "" {
					r.Violation("e2e:"+m+":read-fails:"+kind, "reading an allowance through the native contract failed: "+why, wit(map[string]interface{}{"must_hold": mustHold.String()}))
					continue
				}
				if got.Cmp(expect) != 0 {
					shape := "wrong-value"
					if got.Sign() < 0 {
						shape = "negative"
					}
					r.Violation("e2e:"+m+":"+shape+":"+kind, "the allowance read through the native contract is not the approved amount",
						wit(map[string]interface{}{"read": got.String(), "expected": expect.String()}))
				}
			}
		}
	}
	r.Sample(map[string]interface{}{"part": "D/e2e", "cases_per_round": len(cases), "rounds": 3})
}
