// C21 — Numeric encodings round-trip exactly.
//
// The real conversion functions are executed on boundary and seeded random values and
// compared with reference encoders/decoders written here, which share no code with them:
//
//	A  common.BigIntToNeoBytes / BigIntFromNeoBytes   vs  refNeo / refFromNeo (bit-length arithmetic)
//	B  common.I128FromBigInt / ToBigInt / ToNumString / I128FromUint64 / I128FromInt64 / U128
//	C  native/utils EncodeVarUint / DecodeVarUint      vs  refNativeVarUint (uint64 arithmetic only)
//	   + soundness of the decoder on byte strings no uint64 encodes to (negative, >64 bit, truncated);
//	     non-canonical forms accepted with the right value are counted, not judged (see judgeNative)
//	D  states.NativeTokenBalance <-> StorageItem over the full representable range (balance.go), and ONT/ONG
//	   approve -> allowance on a solo ledger (e2e.go)
package main

import (
	"bytes"
	"encoding/binary"
	"encoding/hex"
	"fmt"
	"math"
	"math/big"
	"runtime"
	"sync"

	"github.com/laizy/bigint"
	"github.com/ontio/ontology/common"
	"github.com/ontio/ontology/core/states"
	nutils "github.com/ontio/ontology/smartcontract/service/native/utils"
	"verifharness/lib/vf"
)

// ---------------------------------------------------------------- reference implementations

func pow2(n int) *big.Int { return new(big.Int).Lsh(big.NewInt(1), uint(n)) }

func leBytes(x *big.Int, n int) []byte { // x >= 0, fits n bytes
	b := make([]byte, n)
	x.FillBytes(b)
	for i, j := 0, n-1; i < j; i, j = i+1, j-1 {
		b[i], b[j] = b[j], b[i]
	}
	return b
}

// refNeo: the shortest little-endian two's-complement byte string whose value is x
// (0 -> empty).  n bytes hold [-2^(8n-1), 2^(8n-1)).
func refNeo(x *big.Int) []byte {
	switch x.Sign() {
	case 0:
		return []byte{}
	case 1:
		n := x.BitLen()/8 + 1 // BitLen value bits + 1 sign bit, rounded up
		return leBytes(x, n)
	default:
		m := new(big.Int).Neg(x)
		m.Sub(m, big.NewInt(1)) // -x-1 >= 0 ; x >= -2^(8n-1)  <=>  m < 2^(8n-1)
		n := m.BitLen()/8 + 1
		return leBytes(new(big.Int).Add(pow2(8*n), x), n)
	}
}

// refFromNeo: value of a little-endian two's-complement byte string of any length.
func refFromNeo(b []byte) *big.Int {
	n := len(b)
	if n == 0 {
		return new(big.Int)
	}
	be := make([]byte, n)
	for i := range b {
		be[n-1-i] = b[i]
	}
	v := new(big.Int).SetBytes(be)
	if b[n-1]&0x80 != 0 {
		v.Sub(v, pow2(8*n))
	}
	return v
}

// refNativeVarUint: the one encoding of v in the native-contract argument format:
// one length byte L followed by the L-byte minimal LE two's complement of v (v >= 0).
func refNativeVarUint(v uint64) []byte {
	var body []byte
	for t := v; t != 0; t >>= 8 {
		body = append(body, byte(t))
	}
	if len(body) > 0 && body[len(body)-1]&0x80 != 0 {
		body = append(body, 0)
	}
	return append([]byte{byte(len(body))}, body...)
}

// refNativeDecode parses a native-format integer at the start of b with the reference rules.
// why == "" (ok): b starts with THE encoding (refNativeVarUint) of the uint64 v, n bytes long.
// Otherwise why names the first thing that is wrong:
//
//	truncated                 header or body overruns b
//	negative / over-64-bit    the body is the two's complement of a number outside uint64
//	nonminimal-length-prefix  } a non-canonical byte form of the in-range value v (n bytes long):
//	nonminimal-body           } the long 0xFD/0xFE/0xFF length form, or a zero-padded body
func refNativeDecode(b []byte) (v uint64, n int, ok bool, why string) {
	cnt, hdr64, prefixMinimal, complete := func() (cnt, hdr uint64, minimal, complete bool) {
		if len(b) == 0 {
			return
		}
		w := 0
		switch b[0] {
		case 0xFD:
			w = 2
		case 0xFE:
			w = 4
		case 0xFF:
			w = 8
		default:
			return uint64(b[0]), 1, true, true
		}
		if len(b) < 1+w {
			return
		}
		for i := w; i >= 1; i-- {
			cnt = cnt<<8 | uint64(b[i])
		}
		lowest := map[int]uint64{2: 0xFD, 4: 0x10000, 8: 0x100000000}[w]
		return cnt, uint64(1 + w), cnt >= lowest, true
	}()
	if !complete || cnt > uint64(len(b))-hdr64 {
		return 0, 0, false, "truncated"
	}
	hdr, L := int(hdr64), int(cnt)
	body := b[hdr : hdr+L]
	n = hdr + L
	if L > 0 && body[L-1]&0x80 != 0 {
		return 0, 0, false, "negative"
	}
	k := L // significant bytes: the body without its trailing zero bytes
	for k > 0 && body[k-1] == 0 {
		k--
	}
	if k > 8 {
		return 0, 0, false, "over-64-bit"
	}
	for i := k - 1; i >= 0; i-- {
		v = v<<8 | uint64(body[i])
	}
	minimalLen := k
	if k > 0 && body[k-1]&0x80 != 0 {
		minimalLen = k + 1 // one zero byte keeps the number non-negative
	}
	switch {
	case !prefixMinimal:
		return v, n, false, "nonminimal-length-prefix"
	case L != minimalLen:
		return v, n, false, "nonminimal-body"
	}
	return v, n, true, ""
}

// ---------------------------------------------------------------- plumbing

type acc struct {
	r      *vf.Run
	counts map[string]int64
	evals  int
	stride int
	seen   int
	fps    []string
}

func (a *acc) count(k string) { a.counts[k]++ }

// eval accounts one case; the fingerprint is registered for every stride-th case only
// (registering 5*10^7 strings would cost more than the checks themselves).
func (a *acc) eval(fp func() string) {
	a.seen++
	if a.seen%a.stride == 0 {
		a.fps = append(a.fps, fp())
	} else {
		a.evals++
	}
}

var flushMu sync.Mutex // one flusher at a time keeps vf's own lock uncontended

func (a *acc) flush() {
	flushMu.Lock()
	defer flushMu.Unlock()
	for _, fp := range a.fps {
		a.r.Eval(fp)
	}
	a.fps = nil
	a.r.Evals(a.evals)
	for k, v := range a.counts {
		a.r.Add(k, v)
	}
}

func chunks(r *vf.Run, rng *vf.RNG, stream uint64, total, per int, fn func(a *acc, rng *vf.RNG, i int)) {
	n := (total + per - 1) / per
	stride := 8 // fingerprints are registered for a sample of the cases (see acc.eval)
	if vf.Thorough() {
		stride = 64
	}
	vf.Parallel(n, runtime.NumCPU(), func(c int) {
		a := &acc{r: r, counts: map[string]int64{}, stride: stride}
		defer a.flush()
		for i := c * per; i < (c+1)*per && i < total; i++ {
			fn(a, rng.Sub(stream<<48|uint64(i)), i)
		}
	})
}

func hx(b []byte) string { return hex.EncodeToString(b) }

// randBig draws an integer with a seeded random bit length up to maxBits, either sign.
func randBig(rng *vf.RNG, maxBits int) *big.Int {
	bits := rng.Range(0, maxBits)
	if rng.Chance(30) { // land near a byte-length edge
		bits = 8*rng.Range(0, maxBits/8) + rng.Range(-1, 1)
		if bits < 0 {
			bits = 0
		}
	}
	x := new(big.Int).SetBytes(rng.Bytes((bits + 7) / 8))
	if bits%8 != 0 {
		x.Rsh(x, uint(8-bits%8))
	}
	if rng.Chance(25) && bits > 0 { // force the top bit: exactly `bits` long
		x.SetBit(x, bits-1, 1)
	}
	if rng.Bool() {
		x.Neg(x)
	}
	return x
}

// edgeSet: ±(2^(8k-1)+d), ±(2^(8k)+d), d in -2..2, k<=maxK, plus 0.
func edgeSet(maxK int) []*big.Int {
	out := []*big.Int{new(big.Int)}
	for k := 0; k <= maxK; k++ {
		for _, e := range []int{8*k - 1, 8 * k} {
			if e < 0 {
				continue
			}
			for d := int64(-2); d <= 2; d++ {
				v := new(big.Int).Add(pow2(e), big.NewInt(d))
				out = append(out, v, new(big.Int).Neg(v))
			}
		}
	}
	return out
}

// ---------------------------------------------------------------- A: big.Int <-> neo bytes

func classOfBig(x *big.Int) string {
	s := "pos"
	if x.Sign() < 0 {
		s = "neg"
	} else if x.Sign() == 0 {
		return "zero"
	}
	m := new(big.Int).Abs(x)
	if m.BitLen()%8 == 0 {
		s += "/top-bit-set"
	}
	if new(big.Int).And(m, new(big.Int).Sub(m, big.NewInt(1))).Sign() == 0 {
		s += "/power-of-two"
	}
	return s
}

func checkBig(a *acc, x *big.Int, src string) {
	r := a.r
	a.eval(func() string { return "neo/" + x.Text(16) })
	orig := new(big.Int).Set(x)
	var enc []byte
	if p := vf.Catch(func() { enc = common.BigIntToNeoBytes(x) }); p != nil {
		r.Violation("neo:panic:encode", fmt.Sprint(p), map[string]interface{}{"x": orig.String()})
		return
	}
	if x.Cmp(orig) != 0 {
		r.Violation("neo:encode-mutates-argument", "BigIntToNeoBytes changed its argument", map[string]interface{}{"x": orig.String(), "after": x.String()})
	}
	want := refNeo(orig)
	cl := classOfBig(orig)
	a.count("neo_enc_" + cl)
	if !bytes.Equal(enc, want) {
		shape := "wrong-value"
		if refFromNeo(enc).Cmp(orig) == 0 {
			shape = "not-minimal"
		}
		r.Violation("neo:encode:"+shape+":"+cl, "BigIntToNeoBytes(x) is not the shortest two's-complement LE form of x",
			map[string]interface{}{"x": orig.String(), "real": hx(enc), "reference": hx(want), "src": src})
	}
	var back *big.Int
	if p := vf.Catch(func() { back = common.BigIntFromNeoBytes(enc) }); p != nil {
		r.Violation("neo:panic:decode", fmt.Sprint(p), map[string]interface{}{"bytes": hx(enc)})
		return
	}
	if back.Cmp(orig) != 0 {
		r.Violation("neo:roundtrip:"+cl, "BigIntFromNeoBytes(BigIntToNeoBytes(x)) != x",
			map[string]interface{}{"x": orig.String(), "encoded": hx(enc), "decoded": back.String(), "src": src})
	}
}

func checkNeoBytes(a *acc, b []byte, src string) {
	r := a.r
	a.eval(func() string { return "neobytes/" + hx(b) })
	orig := append([]byte(nil), b...)
	var v *big.Int
	if p := vf.Catch(func() { v = common.BigIntFromNeoBytes(b) }); p != nil {
		r.Violation("neo:panic:decode", fmt.Sprint(p), map[string]interface{}{"bytes": hx(orig)})
		return
	}
	if !bytes.Equal(b, orig) {
		r.Violation("neo:decode-mutates-argument", "BigIntFromNeoBytes changed its input slice", map[string]interface{}{"bytes": hx(orig), "after": hx(b)})
	}
	want := refFromNeo(orig)
	min := refNeo(want)
	shape := "minimal"
	if len(orig) > len(min) {
		shape = "padded"
	}
	if want.Sign() < 0 {
		shape += "/neg"
	} else if want.Sign() == 0 {
		shape += "/zero"
	} else {
		shape += "/pos"
	}
	a.count("neo_dec_" + shape)
	if v.Cmp(want) != 0 {
		r.Violation("neo:decode:wrong-value:"+shape, "BigIntFromNeoBytes(b) is not the two's-complement value of b",
			map[string]interface{}{"bytes": hx(orig), "real": v.String(), "reference": want.String(), "src": src})
		return
	}
	var norm []byte
	if p := vf.Catch(func() { norm = common.BigIntToNeoBytes(v) }); p != nil {
		r.Violation("neo:panic:encode", fmt.Sprint(p), map[string]interface{}{"x": v.String()})
		return
	}
	if !bytes.Equal(norm, min) {
		r.Violation("neo:normalise:"+shape, "BigIntToNeoBytes(BigIntFromNeoBytes(b)) is not the minimal form of the value of b",
			map[string]interface{}{"bytes": hx(orig), "value": want.String(), "real": hx(norm), "reference": hx(min), "src": src})
	}
	if v2 := common.BigIntFromNeoBytes(norm); v2.Cmp(want) != 0 {
		r.Violation("neo:normalise-not-idempotent:"+shape, "decoding the normalised form gives another value",
			map[string]interface{}{"bytes": hx(orig), "normalised": hx(norm), "value": want.String(), "redecoded": v2.String()})
	}
}

func genNeoBytes(rng *vf.RNG) ([]byte, string) {
	switch rng.Intn(7) {
	case 0:
		return rng.Bytes(rng.Range(0, 40)), "random"
	case 1: // minimal form + sign extension padding
		x := randBig(rng, 264)
		b := refNeo(x)
		pad := byte(0)
		if x.Sign() < 0 {
			pad = 0xff
		}
		for k := rng.Range(0, 5); k > 0; k-- {
			b = append(b, pad)
		}
		return b, "padded"
	case 2:
		return bytes.Repeat([]byte{0}, rng.Range(1, 40)), "zeros"
	case 3:
		return bytes.Repeat([]byte{0xff}, rng.Range(1, 40)), "ones"
	case 4: // 00..00 80  (most negative of that length), optionally 00..00 80 00
		b := append(bytes.Repeat([]byte{0}, rng.Range(0, 35)), 0x80)
		if rng.Bool() {
			b = append(b, 0)
		}
		return b, "min-of-length"
	case 5: // ff..ff 7f  (largest of that length), optionally followed by ff
		b := append(bytes.Repeat([]byte{0xff}, rng.Range(0, 35)), 0x7f)
		if rng.Bool() {
			b = append(b, 0xff)
		}
		return b, "max-of-length"
	default: // random body with a chosen top byte
		b := rng.Bytes(rng.Range(1, 34))
		b[len(b)-1] = []byte{0x00, 0x7f, 0x80, 0xff, 0x01, 0xfe}[rng.Intn(6)]
		return b, "top-byte"
	}
}

// ---------------------------------------------------------------- B: I128

var (
	minI128 = new(big.Int).Neg(pow2(127))
	maxI128 = new(big.Int).Sub(pow2(127), big.NewInt(1))
)

func ref16(x *big.Int) (out [16]byte) { // x in range
	t := x
	if x.Sign() < 0 {
		t = new(big.Int).Add(pow2(128), x)
	}
	copy(out[:], leBytes(t, 16))
	return
}

func checkI128(a *acc, x *big.Int, src string) {
	r := a.r
	a.eval(func() string { return "i128/" + x.Text(16) })
	orig := new(big.Int).Set(x)
	inRange := x.Cmp(minI128) >= 0 && x.Cmp(maxI128) <= 0
	var got common.I128
	var err error
	if p := vf.Catch(func() { got, err = common.I128FromBigInt(x) }); p != nil {
		r.Violation("i128:panic:FromBigInt", fmt.Sprint(p), map[string]interface{}{"x": orig.String()})
		return
	}
	if x.Cmp(orig) != 0 {
		r.Violation("i128:mutates-argument", "I128FromBigInt changed its argument", map[string]interface{}{"x": orig.String(), "after": x.String()})
	}
	sign := "pos"
	if orig.Sign() < 0 {
		sign = "neg"
	}
	if !inRange {
		a.count("i128_out_of_range_" + sign)
		if err == nil {
			r.Violation("i128:accepts-out-of-range:"+sign, "I128FromBigInt accepted a value outside [-2^127, 2^127)",
				map[string]interface{}{"x": orig.String(), "returned": hx(got[:]), "src": src})
		}
		return
	}
	a.count("i128_in_range_" + sign)
	if err != nil {
		r.Violation("i128:rejects-in-range:"+sign, "I128FromBigInt rejected a value inside [-2^127, 2^127): "+err.Error(), map[string]interface{}{"x": orig.String(), "src": src})
		return
	}
	want := ref16(orig)
	if got != common.I128(want) {
		r.Violation("i128:encode:"+sign, "I128FromBigInt(x) is not the 16-byte LE two's complement of x",
			map[string]interface{}{"x": orig.String(), "real": hx(got[:]), "reference": hx(want[:]), "src": src})
	}
	var back *big.Int
	var num string
	if p := vf.Catch(func() { back = got.ToBigInt(); num = got.ToNumString() }); p != nil {
		r.Violation("i128:panic:ToBigInt", fmt.Sprint(p), map[string]interface{}{"i128": hx(got[:])})
		return
	}
	if back.Cmp(orig) != 0 {
		r.Violation("i128:roundtrip:"+sign, "I128FromBigInt(x).ToBigInt() != x", map[string]interface{}{"x": orig.String(), "i128": hx(got[:]), "decoded": back.String(), "src": src})
	}
	if num != orig.String() {
		r.Violation("i128:ToNumString:"+sign, "ToNumString is not the decimal rendering of x", map[string]interface{}{"x": orig.String(), "real": num})
	}
	if orig.IsInt64() {
		a.count("i128_int64")
		if g := common.I128FromInt64(orig.Int64()); g != common.I128(want) {
			r.Violation("i128:FromInt64:"+sign, "I128FromInt64(v) is not the sign-extended LE form", map[string]interface{}{"v": orig.String(), "real": hx(g[:]), "reference": hx(want[:])})
		}
	}
	if orig.IsUint64() {
		a.count("i128_uint64")
		if g := common.I128FromUint64(orig.Uint64()); g != common.I128(want) {
			r.Violation("i128:FromUint64", "I128FromUint64(v) is not the zero-extended LE form", map[string]interface{}{"v": orig.String(), "real": hx(g[:]), "reference": hx(want[:])})
		}
	}
}

func checkI128Bytes(a *acc, b [16]byte) {
	r := a.r
	a.eval(func() string { return "i128bytes/" + hx(b[:]) })
	i := common.I128(b)
	want := refFromNeo(b[:])
	var v, u *big.Int
	if p := vf.Catch(func() { v = i.ToBigInt(); u = common.U128(b).ToBigInt() }); p != nil {
		r.Violation("i128:panic:ToBigInt", fmt.Sprint(p), map[string]interface{}{"i128": hx(b[:])})
		return
	}
	a.count("i128_bytes")
	if v.Cmp(want) != 0 {
		r.Violation("i128:decode", "I128.ToBigInt() is not the two's-complement value of the 16 bytes", map[string]interface{}{"i128": hx(b[:]), "real": v.String(), "reference": want.String()})
		return
	}
	uw := new(big.Int).Set(want)
	if uw.Sign() < 0 {
		uw.Add(uw, pow2(128))
	}
	if u.Cmp(uw) != 0 {
		r.Violation("u128:decode", "U128.ToBigInt() is not the unsigned value of the 16 bytes", map[string]interface{}{"u128": hx(b[:]), "real": u.String(), "reference": uw.String()})
	}
	if common.U128(b).ToI128() != i {
		r.Violation("u128:ToI128", "U128.ToI128 changed the bytes", map[string]interface{}{"u128": hx(b[:])})
	}
	back, err := common.I128FromBigInt(v)
	if err != nil || back != i {
		r.Violation("i128:bytes-roundtrip", "I128FromBigInt(i.ToBigInt()) != i", map[string]interface{}{"i128": hx(b[:]), "value": v.String(), "back": hx(back[:]), "err": fmt.Sprint(err)})
	}
	rev := make([]byte, 16)
	for k := range rev {
		rev[k] = b[15-k]
	}
	if i.ToLEHex() != hx(b[:]) || i.ToBEHex() != hx(rev) {
		r.Violation("i128:hex", "ToLEHex/ToBEHex are not the hex of the (reversed) bytes", map[string]interface{}{"i128": hx(b[:]), "le": i.ToLEHex(), "be": i.ToBEHex()})
	}
}

// ---------------------------------------------------------------- C: native varuint

func genU64(rng *vf.RNG) uint64 {
	switch rng.Intn(5) {
	case 0:
		return rng.U64()
	case 1:
		return rng.U64() >> uint(rng.Intn(64))
	case 2: // byte-length / sign-bit edges
		e := uint(rng.Range(0, 63))
		return (uint64(1) << e) + uint64(rng.Range(-2, 2))
	case 3:
		return math.MaxUint64 - uint64(rng.Intn(3))
	default:
		return uint64(rng.Intn(70000))
	}
}

// decodeBoth runs the real decoder on b.
func decodeNative(b []byte) (v uint64, n uint64, err error, panicked interface{}) {
	panicked = vf.Catch(func() {
		src := common.NewZeroCopySource(b)
		v, err = nutils.DecodeVarUint(src)
		n = src.Pos()
	})
	return
}

// judgeNative runs the real decoder on an arbitrary byte string and compares with the
// reference.  Verdicts (triage decision recorded in the run's notes): the property ranges over
// integers and constrains what the ENCODER emits, so
//   - a byte string no uint64 encodes to because its number is negative or above 2^64, or that
//     is truncated, must not decode to some uint64                                  -> violation
//   - a non-canonical byte form (long length prefix / zero-padded body) that the decoder
//     accepts WITH THE VALUE OF ITS CANONICAL NORMALISATION is only counted (info_*), exactly
//     like BigIntFromNeoBytes accepting sign-padded forms; with any other value    -> violation
func judgeNative(a *acc, b []byte, src string) {
	r := a.r
	a.evals++
	got, n, err, p := decodeNative(b)
	if p != nil {
		r.Violation("native-varuint:panic:decode:"+src, fmt.Sprint(p), map[string]interface{}{"bytes": hx(b)})
		return
	}
	want, wn, ok, why := refNativeDecode(b)
	noncanonical := why == "nonminimal-body" || why == "nonminimal-length-prefix"
	switch {
	case err == nil && !ok && noncanonical:
		if got == want && n == uint64(wn) {
			if why == "nonminimal-body" {
				a.count("info_native_varuint_decoder_accepts_padded_body")
			} else {
				a.count("info_native_varuint_decoder_accepts_long_length_prefix")
			}
			return
		}
		a.count("native_real_accept/ref_reject")
		r.Violation("native-varuint:noncanonical-form-wrong-value:"+why, "DecodeVarUint accepted a non-canonical byte form with a value (or length) other than that of its canonical normalisation",
			map[string]interface{}{"bytes": hx(b), "returned": got, "consumed": n, "value_of_normalisation": want, "length": wn, "src": src})
	case err == nil && !ok:
		a.count("native_real_accept/ref_reject")
		r.Violation("native-varuint:accepts-invalid:"+why, fmt.Sprintf("DecodeVarUint returned a uint64 for a byte string that is %s (no uint64 encodes to it)", why),
			map[string]interface{}{"bytes": hx(b), "returned": got, "consumed": n, "src": src})
	case err != nil && ok:
		a.count("native_real_reject/ref_accept")
		r.Violation("native-varuint:rejects-canonical", "DecodeVarUint rejected the canonical encoding of a uint64: "+err.Error(),
			map[string]interface{}{"bytes": hx(b), "value": want, "src": src})
	case err == nil && ok:
		a.count("native_accept")
		if got != want || n != uint64(wn) {
			r.Violation("native-varuint:wrong-value", "DecodeVarUint returned another value / consumed another length than the reference",
				map[string]interface{}{"bytes": hx(b), "real": got, "reference": want, "consumed": n, "reference_consumed": wn, "src": src})
		}
	default:
		a.count("native_reject:" + why)
	}
}

func withLenPrefix(form byte, body []byte) []byte {
	L := uint64(len(body))
	var p []byte
	switch form {
	case 0xFD:
		p = []byte{0xFD, byte(L), byte(L >> 8)}
	case 0xFE:
		p = []byte{0xFE, byte(L), byte(L >> 8), byte(L >> 16), byte(L >> 24)}
	case 0xFF:
		p = make([]byte, 9)
		p[0] = 0xFF
		binary.LittleEndian.PutUint64(p[1:], L)
	default: // the minimal prefix form
		switch {
		case L < 0xFD:
			p = []byte{byte(L)}
		case L <= 0xFFFF:
			p = []byte{0xFD, byte(L), byte(L >> 8)}
		default:
			p = []byte{0xFE, byte(L), byte(L >> 8), byte(L >> 16), byte(L >> 24)}
		}
	}
	return append(p, body...)
}

func checkNative(a *acc, rng *vf.RNG, v uint64, src string) {
	r := a.r
	a.eval(func() string { return fmt.Sprintf("nvu/%d", v) })
	want := refNativeVarUint(v)
	sink := common.NewZeroCopySink(nil)
	var size uint64
	if p := vf.Catch(func() { size = nutils.EncodeVarUint(sink, v) }); p != nil {
		r.Violation("native-varuint:panic:encode", fmt.Sprint(p), map[string]interface{}{"v": v})
		return
	}
	enc := sink.Bytes()
	a.count(fmt.Sprintf("native_enc_len%d", len(want)))
	if !bytes.Equal(enc, want) || size != uint64(len(want)) {
		r.Violation("native-varuint:encode", "EncodeVarUint(v) is not [len][minimal LE two's complement of v], or the reported size is wrong",
			map[string]interface{}{"v": v, "real": hx(enc), "size": size, "reference": hx(want), "src": src})
	}
	// round trip on the real encoder's own output
	got, n, err, p := decodeNative(enc)
	if p != nil || err != nil || got != v || n != uint64(len(enc)) {
		r.Violation("native-varuint:roundtrip", "DecodeVarUint(EncodeVarUint(v)) != v",
			map[string]interface{}{"v": v, "encoded": hx(enc), "decoded": got, "consumed": n, "err": fmt.Sprint(err), "panic": fmt.Sprint(p)})
	}
	if w, werr := nutils.DecodeVarUintWrapping(common.NewZeroCopySource(enc)); werr != nil || w != v {
		r.Violation("native-varuint:roundtrip-wrapping", "DecodeVarUintWrapping(EncodeVarUint(v)) != v", map[string]interface{}{"v": v, "encoded": hx(enc), "decoded": w, "err": fmt.Sprint(werr)})
	}
	// canonical encoding followed by junk: value and consumed length unchanged
	judgeNative(a, append(append([]byte(nil), want...), rng.Bytes(rng.Intn(4))...), "canonical+junk")
	// alternative byte forms of the same value: each must be rejected
	body := want[1:]
	for _, form := range []byte{0xFD, 0xFE, 0xFF} {
		a.count("native_alt_long_prefix")
		judgeNative(a, withLenPrefix(form, body), "long-length-prefix")
	}
	for _, k := range []int{1, 2, rng.Range(3, 8), rng.Range(9, 250)} {
		a.count("native_alt_padded_body")
		padded := append(append([]byte(nil), body...), make([]byte, k)...)
		judgeNative(a, withLenPrefix(0, padded), "padded-body")
	}
	// truncations
	for k := 0; k < len(want); k++ {
		a.count("native_truncated")
		judgeNative(a, want[:k], "truncated")
	}
	// bodies that are not a uint64
	switch rng.Intn(3) {
	case 0: // negative numbers
		x := new(big.Int).Neg(new(big.Int).SetUint64(v | 1))
		a.count("native_alt_negative")
		judgeNative(a, withLenPrefix(0, refNeo(x)), "negative")
	case 1: // v + 2^64 * t
		x := new(big.Int).SetUint64(v)
		x.Add(x, new(big.Int).Lsh(big.NewInt(int64(rng.Range(1, 1000))), 64))
		a.count("native_alt_over64")
		judgeNative(a, withLenPrefix(0, refNeo(x)), "over-64-bit")
		// the wrapping decoder is lossy by its declared purpose (legacy ONT transfer): observed, not judged
		if w, werr := nutils.DecodeVarUintWrapping(common.NewZeroCopySource(withLenPrefix(0, refNeo(x)))); werr == nil && w == v {
			a.count("info_wrapping_decoder_wraps")
		}
	default: // random bytes
		a.count("native_random_bytes")
		b := rng.Bytes(rng.Range(0, 14))
		if len(b) > 0 && rng.Bool() {
			b[0] = byte(rng.Intn(12))
		}
		judgeNative(a, b, "random")
	}
}

// ---------------------------------------------------------------- main

func main() {
	r := vf.NewRun("C21", "exploration",
		"A: integers ±(2^(8k-1)+d), ±(2^(8k)+d), |d|<=2, k<=33, all of [-70000,70000], seeded random integers up to 272 bits (bit length uniform, 30% at byte edges) and byte strings of length 0..40 (random, sign-padded minimal forms, 00.., ff.., 00..80, ff..7f, chosen top byte); B: the same edge family up to 2^136 in and out of the I128 range, random 16-byte patterns, uint64/int64 edges; C: uint64 edges (2^e±2, max), 0..70000 exhaustive, random magnitudes, each with all alternative byte forms (long length prefixes, zero-padded bodies, truncations, negative / >64-bit bodies, random bytes); D: token balances over the full range of the storage item: whole part w in {2^e+d, e<64, |d|<=2} + 0..300 + 10^9, 10^18±1, 2^64-1.. x fraction {0,1,2,127..65536,499999999,500000000,999999998,999999999}, value byte-length edges up to 2^104, 10^27±, the largest integral / largest uint64-whole balance and the first ones above, seeded random balances in every magnitude band of w (0, <2^31, <2^32, <2^53, <2^62, <2^63, <2^64, >=2^64) with and without fraction; arbitrary storage items (version 0/1/other; 8 random bytes, uint64 edges, wrong lengths, sign-padded, negative, zero-fraction version-1 forms); ONT/ONG approve/approveV2 of boundary and seeded amounts on a solo ledger, three rounds over the same keys, read back as raw item, allowanceV2 and allowance.  Distinct by value / byte string / (asset, method, amount, round)")
	rng := vf.NewRNG(vf.Seed())
	one := func(_ uint64) *acc { return &acc{r: r, counts: map[string]int64{}, stride: 1} }

	// ---------------- A
	{
		a := one(0)
		for _, x := range edgeSet(33) {
			checkBig(a, x, "edge")
			checkNeoBytes(a, refNeo(x), "edge-minimal")
			pad := byte(0)
			if x.Sign() < 0 {
				pad = 0xff
			}
			checkNeoBytes(a, append(refNeo(x), pad), "edge-padded")
			a.count("neo_edge_values")
		}
		checkNeoBytes(a, []byte{}, "short-exhaustive")
		a.flush()
	}
	chunks(r, rng, 8, 140001, 4000, func(a *acc, _ *vf.RNG, i int) {
		checkBig(a, big.NewInt(int64(i)-70000), "small-exhaustive")
	})
	// every byte string of length <= 2, and length 3 with every (low,top) byte pair
	chunks(r, rng, 9, 256, 8, func(a *acc, _ *vf.RNG, i int) {
		checkNeoBytes(a, []byte{byte(i)}, "short-exhaustive")
		for j := 0; j < 256; j++ {
			checkNeoBytes(a, []byte{byte(i), byte(j)}, "short-exhaustive")
			checkNeoBytes(a, []byte{byte(i), 0x80, byte(j)}, "short-exhaustive")
			checkNeoBytes(a, []byte{byte(i), 0x7f, byte(j)}, "short-exhaustive")
		}
	})
	chunks(r, rng, 1, vf.N(300000, 15000000), 5000, func(a *acc, rng *vf.RNG, i int) {
		x := randBig(rng, 272)
		checkBig(a, x, "random")
		if i < 3 {
			r.Sample(map[string]interface{}{"part": "A", "x": x.String(), "neo_bytes": hx(refNeo(x))})
		}
	})
	chunks(r, rng, 2, vf.N(250000, 12000000), 5000, func(a *acc, rng *vf.RNG, i int) {
		b, src := genNeoBytes(rng)
		checkNeoBytes(a, b, src)
	})

	// ---------------- B
	{
		a := one(0)
		for _, x := range edgeSet(17) {
			checkI128(a, x, "edge")
		}
		for _, v := range []int64{math.MinInt64, math.MinInt64 + 1, -1, 0, 1, math.MaxInt64 - 1, math.MaxInt64, math.MinInt32, math.MaxInt32, math.MaxUint32} {
			checkI128(a, big.NewInt(v), "int64-edge")
		}
		for _, v := range []uint64{math.MaxUint64, math.MaxUint64 - 1, 1 << 63, 1<<63 - 1, 1<<63 + 1} {
			checkI128(a, new(big.Int).SetUint64(v), "uint64-edge")
		}
		for _, pat := range [][2]byte{{0, 0}, {0xff, 0xff}, {0, 0x80}, {0xff, 0x7f}, {0x01, 0}, {0, 0x7f}, {0xff, 0x80}} {
			var b [16]byte
			for k := range b {
				b[k] = pat[0]
			}
			b[15] = pat[1]
			checkI128Bytes(a, b)
		}
		a.flush()
	}
	chunks(r, rng, 3, vf.N(150000, 7000000), 5000, func(a *acc, rng *vf.RNG, i int) {
		switch rng.Intn(3) {
		case 0:
			checkI128(a, randBig(rng, 127), "random-in-range")
		case 1:
			checkI128(a, randBig(rng, 200), "random-wide")
		default:
			var b [16]byte
			copy(b[:], rng.Bytes(16))
			if rng.Chance(30) {
				for k := rng.Range(1, 15); k < 16; k++ { // sign-extension run
					b[k] = []byte{0, 0xff}[i&1]
				}
			}
			checkI128Bytes(a, b)
		}
	})

	// ---------------- C
	{
		a := one(0)
		sub := rng.Sub(4 << 48)
		for e := uint(0); e < 64; e++ {
			for d := int64(-2); d <= 2; d++ {
				checkNative(a, sub, (uint64(1)<<e)+uint64(d), "edge")
			}
		}
		a.flush()
	}
	chunks(r, rng, 10, 70001, 2000, func(a *acc, rng *vf.RNG, i int) {
		checkNative(a, rng, uint64(i), "small-exhaustive")
	})
	// every 1- and 2-byte string and a grid of 3-byte strings through the one-encoding clause
	chunks(r, rng, 11, 256, 8, func(a *acc, _ *vf.RNG, i int) {
		judgeNative(a, []byte{byte(i)}, "short-exhaustive")
		for j := 0; j < 256; j++ {
			judgeNative(a, []byte{byte(i), byte(j)}, "short-exhaustive")
			judgeNative(a, []byte{2, byte(i), byte(j)}, "short-exhaustive")
		}
	})
	chunks(r, rng, 5, vf.N(150000, 8000000), 5000, func(a *acc, rng *vf.RNG, i int) {
		v := genU64(rng)
		checkNative(a, rng, v, "random")
		if i < 2 {
			r.Sample(map[string]interface{}{"part": "C", "v": v, "encoding": hx(refNativeVarUint(v))})
		}
	})

	// ---------------- D (balance.go, e2e.go)
	{
		a := one(0)
		sub := rng.Sub(6 << 48)
		for _, e := range balanceBoundaries() {
			checkBalance(a, sub, e, "edge")
			a.count("balance_edge_values")
		}
		itemBoundaries(a)
		a.flush()
	}
	chunks(r, rng, 7, vf.N(150000, 8000000), 5000, func(a *acc, rng *vf.RNG, i int) {
		x, src := genBalance(rng)
		checkBalance(a, rng, x, src)
		if i < 2 {
			if _, _, ok := refItem(x); ok {
				r.Sample(map[string]interface{}{"part": "D", "balance": x.String(), "item": hx(states.NativeTokenBalance{Balance: bigint.New(x)}.MustToStorageItemBytes())})
			}
		}
	})
	chunks(r, rng, 12, vf.N(100000, 5000000), 5000, func(a *acc, rng *vf.RNG, i int) {
		ver, val, src := genItem(rng)
		judgeItem(a, ver, val, src)
	})
	allowanceEndToEnd(r, rng.Sub(13<<48))

	for _, k := range []string{
		"neo_enc_zero", "neo_enc_pos", "neo_enc_neg", "neo_enc_pos/top-bit-set", "neo_enc_neg/top-bit-set", "neo_enc_pos/top-bit-set/power-of-two", "neo_enc_neg/top-bit-set/power-of-two",
		"neo_dec_minimal/pos", "neo_dec_minimal/neg", "neo_dec_minimal/zero", "neo_dec_padded/pos", "neo_dec_padded/neg", "neo_dec_padded/zero",
		"i128_in_range_pos", "i128_in_range_neg", "i128_out_of_range_pos", "i128_out_of_range_neg", "i128_int64", "i128_uint64", "i128_bytes",
		"native_accept", "native_alt_long_prefix", "native_alt_padded_body", "native_truncated", "native_alt_negative", "native_alt_over64", "native_random_bytes",
		"native_reject:truncated", "native_reject:negative", "native_reject:over-64-bit",
		"native_enc_len1", "native_enc_len2", "native_enc_len9", "native_enc_len10",
		"balance_whole", "balance_fractional", "balance_edge_values", "balance_same_value_add-sub", "balance_same_value_shrunk-bigint", "balance_same_value_parsed",
		"balance_from_integer", "balance_max_representable_integral", "balance_max_representable_fractional", "balance_oversized_integral_refused", "balance_band_ge2^64_fractional",
		"balance_item_v0-canonical", "balance_item_v0-truncated", "balance_item_v0-trailing-bytes", "balance_item_v1-canonical", "balance_item_v1-negative", "balance_item_v1-sign-padded", "balance_item_v1-zero-fraction",
		"e2e_stored_item_checked", "e2e_read_allowance", "e2e_read_allowanceV2",
		"e2e_approve_ok_ong_approve_integral", "e2e_approve_ok_ong_approveV2_integral", "e2e_approve_ok_ong_approveV2_fractional",
		"e2e_approve_ok_ont_approve_integral", "e2e_approve_ok_ont_approveV2_integral", "e2e_approve_ok_ont_approveV2_fractional",
		"e2e_overwrite_integral_by_fractional", "e2e_overwrite_fractional_by_integral",
	} {
		r.Require(k, 1)
	}
	for _, kind := range []string{"_integral", "_fractional"} {
		for _, b := range bandNames[:7] { // whole part inside uint64: both forms exist in every band
			r.Require("balance_band_"+b+kind, int64(vf.N(50, 500)))
		}
		for _, an := range anchorNames {
			r.Require("balance_boundary_"+an+kind, 1)
		}
		for _, b := range bandNames[:5] { // approvals are capped at the total supply (10^18 whole ONG < 2^62)
			r.Require("e2e_band_"+b+kind, 1)
		}
	}
	r.Assume("token balances are non-negative; an integral balance above 2^64-1 whole tokens has no storage form (MustToStorageItem is documented to panic) and is only required not to be encoded lossily")
	r.Extra("note_balance_item_decoder", "NativeTokenBalanceFromStorageItem accepts stored forms the encoder never writes (version-1 item of an integral balance, sign-padded version-1 bytes, version-0 item with bytes after the 8th, versions other than 0/1 read as version 1): counters info_balance_decoder_accepts_*. Same triage as for DecodeVarUint: the encoder side (compact form for integral values, minimal bytes, function of the value, round trip, re-encoding gives the same bytes) is a verdict; an accepted non-canonical item must carry the value of its canonical normalisation and re-encode to the canonical item, a negative or truncated item must be rejected")
	r.Extra("note_e2e", "ONT/ONG approvals are capped at the total supply by the contracts (10^9 / 10^18 whole tokens), so whole parts from 2^62 on are refused end to end (info_e2e_approve_refused_*); the full uint64 range of the storage item is covered at the NativeTokenBalance API")
	r.Extra("note_native_varuint_decoder", "DecodeVarUint accepts zero-padded bodies (e.g. 01 00 -> 0, canonical 00) because its body goes through BigIntFromNeoBytes, which normalises sign-padded forms by design; counter info_native_varuint_decoder_accepts_padded_body. Triage: C21 quantifies over integers and requires the ENCODERS to be minimal and a function of the value; decoder leniency with the correct value is observed, not judged. A non-canonical form decoded to any other value, and negative / >64-bit / truncated forms decoded to a uint64, remain violations")
	r.Assume("DecodeVarUintWrapping is lossy above 2^64 by its declared purpose and is judged only on canonical encodings")
	r.Finish()
}
