// C22 — Base58 and hex addresses round-trip and reject corruption.
//
// The real common.Address codec (ToBase58 / AddressFromBase58 / ToHexString /
// AddressFromHexString) is driven with generated addresses, with *every* single-character
// edit of their base58 strings and with arbitrary strings.  The oracle is an independent
// reference implementation of the Ontology address format written here (byte-array base-58
// conversion without math/big, version byte 23, 4-byte double-SHA256 checksum):
//
//	real accepts s  <=>  reference accepts s      (and then both give the same address)
//	real accepts s   =>  result.ToBase58() == s   (the clause of DESIGN §5/C22)
//
// so "rejected" is decided for each string by an implementation that shares no code with
// the one under test.
package main

import (
	"bytes"
	"crypto/sha256"
	"encoding/hex"
	"fmt"
	"runtime"
	"strings"
	"sync"

	"github.com/ontio/ontology/common"
	"verifharness/lib/vf"
)

const alphabet = "123456789ABCDEFGHJKLMNPQRSTUVWXYZabcdefghijkmnopqrstuvwxyz"

// characters that are not base58 symbols: the four look-alikes the alphabet leaves out, a
// blank, and a non-ASCII byte.
var nonAlphabet = []byte{'0', 'O', 'I', 'l', ' ', 0xc3}

var decodeMap = func() (m [256]int) {
	for i := range m {
		m[i] = -1
	}
	for i := 0; i < len(alphabet); i++ {
		m[alphabet[i]] = i
	}
	return
}()

// ---------------------------------------------------------------- reference codec

func checksum(payload []byte) []byte {
	a := sha256.Sum256(payload)
	b := sha256.Sum256(a[:])
	return b[:4]
}

// refEncodeInt renders the unsigned big-endian integer `data` in base 58 (no leading-zero
// convention: the Ontology format encodes the *number*, it never emits a leading '1').
func refEncodeInt(data []byte) string {
	num := append([]byte(nil), data...)
	var out []byte
	start := 0
	for start < len(num) {
		if num[start] == 0 {
			start++
			continue
		}
		rem := 0
		for i := start; i < len(num); i++ {
			acc := rem*256 + int(num[i])
			num[i] = byte(acc / 58)
			rem = acc % 58
		}
		out = append(out, alphabet[rem])
	}
	for i, j := 0, len(out)-1; i < j; i, j = i+1, j-1 {
		out[i], out[j] = out[j], out[i]
	}
	return string(out)
}

func refPayload(version byte, body []byte) []byte {
	p := append([]byte{version}, body...)
	return append(p, checksum(p)...)
}

func refEncode(a common.Address) string { return refEncodeInt(refPayload(23, a[:])) }

// refDecode: the set of valid address strings is exactly { refEncode(a) }.
func refDecode(s string) (addr common.Address, ok bool, why string) {
	if len(s) == 0 {
		return addr, false, "empty"
	}
	if len(s) > 2048 {
		return addr, false, "too-long"
	}
	if s[0] == '1' {
		return addr, false, "leading-one" // not the canonical rendering of any number > 0
	}
	// base-58 digits -> big-endian bytes
	num := make([]byte, 0, len(s))
	for i := 0; i < len(s); i++ {
		d := decodeMap[s[i]]
		if d < 0 {
			return addr, false, "bad-char"
		}
		carry := d
		for j := len(num) - 1; j >= 0; j-- {
			acc := int(num[j])*58 + carry
			num[j] = byte(acc)
			carry = acc >> 8
		}
		for carry > 0 {
			num = append([]byte{byte(carry)}, num...)
			carry >>= 8
		}
	}
	if len(num) != 25 {
		return addr, false, "length"
	}
	if num[0] != 23 {
		return addr, false, "version"
	}
	if !bytes.Equal(checksum(num[:21]), num[21:]) {
		return addr, false, "checksum"
	}
	copy(addr[:], num[1:21])
	return addr, true, ""
}

// ---------------------------------------------------------------- per-worker accounting

type local struct {
	counts map[string]int64
	evals  int
}

func (l *local) count(k string) { l.counts[k]++ }

type checker struct {
	r  *vf.Run
	mu sync.Mutex
}

// judge runs the real decoder on s and compares with the reference.  class is the
// structural description of how s was produced (edit kind / generator) and becomes part of
// the violation key.
func (c *checker) judge(l *local, class, s string, origin interface{}) {
	l.evals++
	var got common.Address
	var err error
	if p := vf.Catch(func() { got, err = common.AddressFromBase58(s) }); p != nil {
		c.r.Violation("panic:AddressFromBase58:"+class, fmt.Sprint(p), map[string]interface{}{"string": s, "string_hex": hex.EncodeToString([]byte(s)), "origin": origin})
		return
	}
	want, ok, why := refDecode(s)
	switch {
	case err == nil && !ok:
		l.count("real_accept/ref_reject")
		c.r.Violation("accepts-invalid:"+class+":"+why, fmt.Sprintf("AddressFromBase58 accepted a string that is not the encoding of any address (reference: %s)", why),
			map[string]interface{}{"string": s, "string_hex": hex.EncodeToString([]byte(s)), "returned": hex.EncodeToString(got[:]), "origin": origin})
	case err != nil && ok:
		l.count("real_reject/ref_accept")
		c.r.Violation("rejects-valid:"+class, "AddressFromBase58 rejected the canonical encoding of an address: "+err.Error(),
			map[string]interface{}{"string": s, "address": hex.EncodeToString(want[:]), "origin": origin})
	case err == nil && ok:
		l.count("accepted")
		if got != want {
			c.r.Violation("wrong-address:"+class, "decoded address differs from the reference decoding",
				map[string]interface{}{"string": s, "returned": hex.EncodeToString(got[:]), "expected": hex.EncodeToString(want[:]), "origin": origin})
		}
	default:
		l.count("rejected:" + why)
	}
	if err == nil {
		// DESIGN clause: an accepted string must be what the returned address encodes to.
		if re := got.ToBase58(); re != s {
			c.r.Violation("accepted-not-reencodable:"+class, "accepted string differs from ToBase58() of the returned address",
				map[string]interface{}{"string": s, "returned": hex.EncodeToString(got[:]), "reencoded": re, "origin": origin})
		}
	} else if got != common.ADDRESS_EMPTY {
		c.r.Violation("error-with-nonempty-address:"+class, "an error was returned together with a non-empty address",
			map[string]interface{}{"string": s, "returned": hex.EncodeToString(got[:])})
	}
}

func genAddress(rng *vf.RNG, i int) common.Address {
	var a common.Address
	switch {
	case i == 0: // 0x00…00
	case i == 1:
		for k := range a {
			a[k] = 0xff
		}
	case i >= 2 && i < 2+160: // one bit set
		b := i - 2
		a[b/8] = 1 << uint(b%8)
	case i >= 162 && i < 162+20: // one byte clear in all-ones
		for k := range a {
			a[k] = 0xff
		}
		a[i-162] = 0
	default:
		copy(a[:], rng.Bytes(20))
		switch rng.Intn(8) {
		case 0: // leading zero bytes
			for k := 0; k < rng.Range(1, 19); k++ {
				a[k] = 0
			}
		case 1: // trailing zero bytes
			for k := 0; k < rng.Range(1, 19); k++ {
				a[19-k] = 0
			}
		case 2: // few distinct byte values
			v := byte(rng.U64())
			for k := range a {
				if rng.Bool() {
					a[k] = v
				}
			}
		}
	}
	return a
}

func main() {
	r := vf.NewRun("C22", "exploration",
		"addresses: 0x00..00, 0xff..ff, every one-bit address, all-ones with one zero byte, then seeded random 20-byte values (some with zero runs / repeated bytes); per address its base58 string and ALL single-character edits (substitution by each of the 57 other symbols and 6 non-symbols at every position, deletion at every position, insertion of each of 58 symbols and 6 non-symbols at every gap, adjacent transposition), hex round trip and all single-character hex edits; plus arbitrary strings (empty, random symbol strings of length 1..2048 and >2048, leading '1's, other version bytes and payload lengths with a valid checksum, wrong checksums, random bytes). Distinct by address / by string; an edit that equals the original string is skipped")
	rng := vf.NewRNG(vf.Seed())
	c := &checker{r: r}
	nAddr := vf.N(500, 20000)
	workers := runtime.NumCPU()

	merge := func(l *local) {
		r.Evals(l.evals)
		for k, v := range l.counts {
			r.Add(k, v)
		}
	}

	// ------------------------------------------------------------ addresses × single edits
	vf.Parallel(nAddr, workers, func(i int) {
		l := &local{counts: map[string]int64{}}
		defer merge(l)
		sub := rng.Sub(uint64(i))
		a := genAddress(sub, i)
		ahex := hex.EncodeToString(a[:])
		r.Eval("addr/" + ahex)

		// --- base58 round trip
		var s string
		if p := vf.Catch(func() { s = a.ToBase58() }); p != nil {
			r.Violation("panic:ToBase58", fmt.Sprint(p), map[string]interface{}{"address": ahex})
			return
		}
		if ref := refEncode(a); s != ref {
			r.Violation("encode-differs-from-reference", "ToBase58 is not base58(23 || address || sha256d(23||address)[:4])",
				map[string]interface{}{"address": ahex, "real": s, "reference": ref})
		}
		back, err := common.AddressFromBase58(s)
		l.evals++
		if err != nil || back != a {
			r.Violation("roundtrip-base58", fmt.Sprintf("AddressFromBase58(ToBase58(a)) = %x, %v", back[:], err), map[string]interface{}{"address": ahex, "string": s})
		} else {
			l.count("roundtrip_base58_ok")
		}
		if i < 3 {
			r.Sample(map[string]interface{}{"address": ahex, "base58": s, "hex": a.ToHexString()})
		}
		origin := map[string]interface{}{"address": ahex, "base58": s}

		// --- every single-character edit
		bs := []byte(s)
		buf := make([]byte, 0, len(bs)+1)
		for pos := 0; pos < len(bs); pos++ {
			for k := 0; k < len(alphabet); k++ { // substitution, other symbols
				if alphabet[k] == bs[pos] {
					continue
				}
				buf = append(buf[:0], bs...)
				buf[pos] = alphabet[k]
				l.count("edit_subst_symbol")
				c.judge(l, "subst-symbol", string(buf), origin)
			}
			for _, ch := range nonAlphabet { // substitution, non-symbols
				buf = append(buf[:0], bs...)
				buf[pos] = ch
				l.count("edit_subst_nonsymbol")
				c.judge(l, "subst-nonsymbol", string(buf), origin)
			}
			// deletion
			buf = append(buf[:0], bs[:pos]...)
			buf = append(buf, bs[pos+1:]...)
			l.count("edit_delete")
			c.judge(l, "delete", string(buf), origin)
			// adjacent transposition
			if pos+1 < len(bs) {
				if bs[pos] == bs[pos+1] {
					l.count("edit_transpose_identity_skipped")
				} else {
					buf = append(buf[:0], bs...)
					buf[pos], buf[pos+1] = buf[pos+1], buf[pos]
					l.count("edit_transpose")
					c.judge(l, "transpose", string(buf), origin)
				}
			}
		}
		for gap := 0; gap <= len(bs); gap++ { // insertion
			ins := func(ch byte, class string) {
				buf = append(buf[:0], bs[:gap]...)
				buf = append(buf, ch)
				buf = append(buf, bs[gap:]...)
				c.judge(l, class, string(buf), origin)
			}
			for k := 0; k < len(alphabet); k++ {
				class := "insert-symbol"
				if gap == 0 && alphabet[k] == '1' {
					class = "insert-leading-one"
					l.count("edit_insert_leading_one")
				} else {
					l.count("edit_insert_symbol")
				}
				ins(alphabet[k], class)
			}
			for _, ch := range nonAlphabet {
				l.count("edit_insert_nonsymbol")
				ins(ch, "insert-nonsymbol")
			}
		}

		// --- hex
		var hs string
		if p := vf.Catch(func() { hs = a.ToHexString() }); p != nil {
			r.Violation("panic:ToHexString", fmt.Sprint(p), map[string]interface{}{"address": ahex})
			return
		}
		rev := make([]byte, 20)
		for k := range rev {
			rev[k] = a[19-k]
		}
		if hs != hex.EncodeToString(rev) {
			r.Violation("hex-encode-differs-from-reference", "ToHexString is not the hex of the reversed address bytes", map[string]interface{}{"address": ahex, "real": hs})
		}
		hb, herr := common.AddressFromHexString(hs)
		l.evals++
		if herr != nil || hb != a {
			r.Violation("roundtrip-hex", fmt.Sprintf("AddressFromHexString(ToHexString(a)) = %x, %v", hb[:], herr), map[string]interface{}{"address": ahex, "string": hs})
		} else {
			l.count("roundtrip_hex_ok")
		}
		if pb, perr := common.AddressParseFromBytes(a[:]); perr != nil || pb != a {
			r.Violation("roundtrip-bytes", "AddressParseFromBytes(a[:]) != a", map[string]interface{}{"address": ahex})
		}
		// single edits of the hex string: whatever is accepted must re-encode to the (lower-cased) input
		hexJudge := func(class, hsE string) {
			l.evals++
			var g common.Address
			var e error
			if p := vf.Catch(func() { g, e = common.AddressFromHexString(hsE) }); p != nil {
				r.Violation("panic:AddressFromHexString:"+class, fmt.Sprint(p), map[string]interface{}{"string": hsE})
				return
			}
			if e != nil {
				l.count("hex_edit_rejected")
				return
			}
			l.count("hex_edit_accepted")
			if g.ToHexString() != strings.ToLower(hsE) {
				r.Violation("hex-accepted-not-reencodable:"+class, "accepted hex string differs from ToHexString() of the returned address",
					map[string]interface{}{"string": hsE, "returned": hex.EncodeToString(g[:]), "origin": origin})
			}
		}
		hbs := []byte(hs)
		for pos := 0; pos < len(hbs); pos++ {
			for _, ch := range []byte("0123456789abcdefABCDEFgG xZ") {
				if ch == hbs[pos] {
					continue
				}
				buf = append(buf[:0], hbs...)
				buf[pos] = ch
				hexJudge("subst", string(buf))
			}
			buf = append(buf[:0], hbs[:pos]...)
			buf = append(buf, hbs[pos+1:]...)
			hexJudge("delete", string(buf))
			buf = append(buf[:0], hbs[:pos]...)
			buf = append(buf, 'a')
			buf = append(buf, hbs[pos:]...)
			hexJudge("insert", string(buf))
		}
		hexJudge("delete-byte", hs[2:])
		hexJudge("insert-byte", hs+"00")
		hexJudge("insert-byte", "00"+hs)
		hexJudge("upper", strings.ToUpper(hs))
		hexJudge("0x-prefix", "0x"+hs)
		hexJudge("empty", "")
	})

	// ------------------------------------------------------------ arbitrary / constructed strings
	nArb := vf.N(4000, 150000)
	vf.Parallel(nArb, workers, func(i int) {
		l := &local{counts: map[string]int64{}}
		defer merge(l)
		sub := rng.Sub(1<<40 + uint64(i))
		var a common.Address
		copy(a[:], sub.Bytes(20))
		valid := refEncode(a)
		var s, class string
		randSyms := func(n int) string {
			b := make([]byte, n)
			for k := range b {
				b[k] = alphabet[sub.Intn(58)]
			}
			return string(b)
		}
		switch i % 16 {
		case 0:
			class, s = "random-symbols-short", randSyms(sub.Range(1, 60))
		case 1:
			class, s = "random-symbols-34", "A"+randSyms(33)
		case 2:
			n := sub.Range(61, 2048)
			if sub.Chance(10) {
				n = 2048
			}
			class, s = "random-symbols-long", randSyms(n)
		case 3:
			class, s = "over-2048", randSyms(sub.Range(2049, 6000))
		case 4: // canonical string made longer than 2048 by leading '1's
			class, s = "over-2048-leading-ones", strings.Repeat("1", 2049-len(valid)+sub.Intn(50))+valid
		case 5:
			k := sub.Range(1, 2048-len(valid))
			if sub.Chance(30) {
				k = sub.Range(1, 4)
			}
			if sub.Chance(10) {
				k = 2048 - len(valid)
			}
			class, s = "leading-ones", strings.Repeat("1", k)+valid
		case 6: // other version byte, checksum valid for that version
			v := byte(sub.Intn(256))
			if v == 23 {
				v = 24
			}
			class, s = "other-version", refEncodeInt(refPayload(v, a[:]))
		case 7: // wrong checksum
			p := refPayload(23, a[:])
			p[21+sub.Intn(4)] ^= 1 << uint(sub.Intn(8))
			class, s = "wrong-checksum", refEncodeInt(p)
		case 8: // checksum taken over the address without the version byte, or single sha256
			p := append([]byte{23}, a[:]...)
			if sub.Bool() {
				p = append(p, checksum(a[:])...)
			} else {
				h := sha256.Sum256(p)
				p = append(p, h[:4]...)
			}
			class, s = "checksum-wrong-range", refEncodeInt(p)
		case 9: // payload of another length with a valid checksum
			n := sub.Range(0, 40)
			if n == 20 {
				n = 21
			}
			class, s = "other-payload-length", refEncodeInt(refPayload(23, sub.Bytes(n)))
		case 10:
			class, s = "random-bytes", string(sub.Bytes(sub.Range(1, 80)))
		case 11: // valid string with appended / prepended junk
			junk := []string{" ", "\n", "\x00", "=", "A", "1", "z", "\t"}[sub.Intn(8)]
			if sub.Bool() {
				class, s = "appended", valid+junk
			} else {
				class, s = "prepended", junk+valid
			}
		case 12: // decimal digits / look-alike characters
			class, s = "digits", fmt.Sprintf("%d%d", sub.U64(), sub.U64())
		case 13: // valid string in another case / look-alike replacement
			if sub.Bool() {
				class, s = "uppercased", strings.ToUpper(valid)
			} else {
				class, s = "lowercased", strings.ToLower(valid)
			}
		case 14: // two valid strings concatenated, or half a string
			if sub.Bool() {
				class, s = "concatenated", valid+valid
			} else {
				class, s = "truncated", valid[:sub.Range(1, len(valid)-1)]
			}
		default: // a genuinely valid string, so the accept branch of the differential is exercised here too
			class, s = "valid", valid
		}
		if i == 0 {
			class, s = "empty", ""
		}
		r.Eval("str/" + class + "/" + vf.HexTrunc([]byte(s), 48))
		l.count("arb_" + class)
		c.judge(l, class, s, nil)
		l.evals-- // counted by r.Eval above
		if i < 40 && i%16 >= 5 && i%16 <= 7 {
			r.Sample(map[string]interface{}{"class": class, "string": vf.HexTrunc([]byte(s), 40)})
		}
	})

	// ------------------------------------------------------------ coverage that must have been reached
	for _, k := range []string{"edit_subst_symbol", "edit_subst_nonsymbol", "edit_delete", "edit_transpose", "edit_insert_symbol",
		"edit_insert_nonsymbol", "edit_insert_leading_one", "roundtrip_base58_ok", "roundtrip_hex_ok", "accepted",
		"rejected:checksum", "rejected:length", "rejected:version", "rejected:bad-char", "rejected:leading-one", "rejected:too-long", "rejected:empty",
		"hex_edit_rejected", "hex_edit_accepted",
		"arb_over-2048", "arb_over-2048-leading-ones", "arb_leading-ones", "arb_other-version", "arb_wrong-checksum", "arb_checksum-wrong-range",
		"arb_other-payload-length", "arb_random-bytes", "arb_valid", "arb_empty"} {
		r.Require(k, 1)
	}
	r.Require("roundtrip_base58_ok", int64(nAddr))
	r.Extra("checksum_collisions_among_edits", r.Counter("accepted")-r.Counter("arb_valid"))
	r.Assume("the reference decoder written in this file (byte-array base-58 conversion, version 23, sha256d[:4] checksum, no leading '1') defines which strings are encodings of an address")
	r.Finish()
}
