// C23 — Signature scripts parse back to their keys and give order-free addresses.
//
// Oracle (all on the real core/program + core/types code):
//   - key sets of size 1..16 over every supported key type (mixed), every threshold m in
//     [1,n], several orderings: ProgramFromMultiPubKey(perm, m) is byte-identical for every
//     ordering, GetProgramInfo returns threshold m and exactly the key set in the documented
//     sort order (own comparator), AddressFromMultiPubKeys is the same for every ordering,
//     differs between thresholds and differs when a key is replaced/removed/added
//     (plus a run-wide collision table address -> (set, m));
//   - single key: ProgramFromPubKey round-trips through GetProgramInfo (M=1, same key);
//   - invalid parameters (m=0, m<0, m>n, n=0, n=1 multi-sig, n>16) are rejected by the
//     encoder / AddressFromMultiPubKeys and, hand-assembled, by the parser;
//   - random and mutated byte strings never panic the parser and whatever it accepts has
//     1 <= M <= len(PubKeys) <= 16 (single: exactly one key, multi: at least two) and, when
//     the script tokenizes, len(PubKeys) equals the key count declared in the script;
//   - a script returned by the encoder is still the same bytes after later scripts were built;
//   - operands.go: threshold and key count pushed in every operand form (opcodes, PUSHBYTES,
//     PUSHDATA1/2/4, 0..9 bytes) with honest, wrapped, negative, padded and byte-reversed
//     values: a script is acceptable only when the VM-integer values of both operands are a
//     valid (m, n) and n is the number of keys; accepted scripts report exactly (m, keys).
package main

import (
	"bytes"
	"fmt"
	"math/big"
	"runtime"
	"sort"
	"strings"
	"sync"

	"github.com/ontio/ontology-crypto/ec"
	"github.com/ontio/ontology-crypto/keypair"
	"github.com/ontio/ontology/common"
	"github.com/ontio/ontology/common/constants"
	"github.com/ontio/ontology/core/program"
	"github.com/ontio/ontology/core/types"
	"golang.org/x/crypto/ed25519"
	"verifharness/lib/txgen"
	"verifharness/lib/vf"
)

const (
	opPUSH0         = 0x00
	opPUSHDATA1     = 0x4c
	opPUSHDATA2     = 0x4d
	opPUSHDATA4     = 0x4e
	opPUSH1         = 0x51
	opCHECKSIG      = 0xac
	opCHECKMULTISIG = 0xae
)

var r *vf.Run

// ---------------------------------------------------------------- reference pieces

// less implements the documented ordering of keypair.SortPublicKeys independently:
// key type, then curve, then X, then Y (EdDSA: raw bytes).  txgen.Kind is ordered like
// (key type, curve label).
func less(a, b *txgen.Key) bool {
	if a.Kind != b.Kind {
		return a.Kind < b.Kind
	}
	xy := func(k *txgen.Key) (*big.Int, *big.Int) {
		switch p := k.Pub.(type) {
		case *ec.PublicKey:
			return p.X, p.Y
		case *ec.EthereumPublicKey:
			return p.X, p.Y
		}
		return nil, nil
	}
	if a.Kind == txgen.Ed25519 {
		return bytes.Compare(a.Pub.(ed25519.PublicKey), b.Pub.(ed25519.PublicKey)) < 0
	}
	ax, ay := xy(a)
	bx, by := xy(b)
	if c := ax.Cmp(bx); c != 0 {
		return c < 0
	}
	return ay.Cmp(by) < 0
}

func refSorted(keys []*txgen.Key) []*txgen.Key {
	out := append([]*txgen.Key(nil), keys...)
	sort.SliceStable(out, func(i, j int) bool { return less(out[i], out[j]) })
	return out
}

func pushData(b *bytes.Buffer, d []byte) {
	switch {
	case len(d) >= 1 && len(d) <= 75:
		b.WriteByte(byte(len(d)))
	case len(d) < 0x100:
		b.WriteByte(opPUSHDATA1)
		b.WriteByte(byte(len(d)))
	default:
		b.WriteByte(opPUSHDATA2)
		b.WriteByte(byte(len(d)))
		b.WriteByte(byte(len(d) >> 8))
	}
	b.Write(d)
}

func pushNum(b *bytes.Buffer, n int) {
	switch {
	case n == 0:
		b.WriteByte(opPUSH0)
	case n >= 1 && n <= 16:
		b.WriteByte(byte(opPUSH1 + n - 1))
	default: // minimal little-endian two's complement
		v := n
		var d []byte
		for v > 0 {
			d = append(d, byte(v))
			v >>= 8
		}
		if d[len(d)-1]&0x80 != 0 {
			d = append(d, 0)
		}
		pushData(b, d)
	}
}

// assemble builds a multi-signature script by hand: m, keys in the given order, declared n.
func assemble(m int, keys [][]byte, declN int, withN bool) []byte {
	var b bytes.Buffer
	pushNum(&b, m)
	for _, k := range keys {
		pushData(&b, k)
	}
	if withN {
		pushNum(&b, declN)
	}
	b.WriteByte(opCHECKMULTISIG)
	return b.Bytes()
}

type token struct {
	op   byte
	data []byte // for pushes
	num  int    // for PUSH0..PUSH16: value, else -1
}

// tokenize is an independent reader of push-only scripts; ok=false when it does not scan.
func tokenize(s []byte) (toks []token, ok bool) {
	for i := 0; i < len(s); {
		op := s[i]
		i++
		t := token{op: op, num: -1}
		var n int
		switch {
		case op == opPUSH0:
			t.num = 0
			toks = append(toks, t)
			continue
		case op >= opPUSH1 && op <= opPUSH1+15:
			t.num = int(op-opPUSH1) + 1
			toks = append(toks, t)
			continue
		case op >= 1 && op <= 75:
			n = int(op)
		case op == opPUSHDATA1:
			if i+1 > len(s) {
				return nil, false
			}
			n = int(s[i])
			i++
		case op == opPUSHDATA2:
			if i+2 > len(s) {
				return nil, false
			}
			n = int(s[i]) | int(s[i+1])<<8
			i += 2
		case op == opPUSHDATA4:
			if i+4 > len(s) {
				return nil, false
			}
			n = int(s[i]) | int(s[i+1])<<8 | int(s[i+2])<<16 | int(s[i+3])<<24
			i += 4
			if n < 0 {
				return nil, false
			}
		default:
			toks = append(toks, t)
			continue
		}
		if i+n > len(s) || i+n < i {
			return nil, false
		}
		t.data = s[i : i+n]
		i += n
		toks = append(toks, t)
	}
	return toks, true
}

func keyID(k *txgen.Key) string { return fmt.Sprintf("%d.%d", int(k.Kind), k.Index) }

func setID(keys []*txgen.Key) string {
	ids := make([]string, len(keys))
	for i, k := range keys {
		ids[i] = keyID(k)
	}
	sort.Strings(ids)
	return strings.Join(ids, ",")
}

func hexKeys(keys []*txgen.Key) []string {
	out := make([]string, len(keys))
	for i, k := range keys {
		out[i] = vf.Hex(k.PubBytes())
	}
	return out
}

// kindsOf is the structural part of a violation key: the single key type of the set, or "mixed-kinds".
func kindsOf(keys []*txgen.Key) string {
	for _, k := range keys {
		if k.Kind != keys[0].Kind {
			return "mixed-kinds"
		}
	}
	return keys[0].Kind.String()
}

// samePub compares a parsed key with a generated one on the canonical serialization and
// through the library's own comparison.
func samePub(got keypair.PublicKey, want *txgen.Key) bool {
	var gb []byte
	if p := vf.Catch(func() { gb = keypair.SerializePublicKey(got) }); p != nil {
		return false
	}
	return bytes.Equal(gb, want.PubBytes()) && keypair.ComparePublicKey(got, want.Pub)
}

// ---------------------------------------------------------------- collision table

var (
	addrMu  sync.Mutex
	addrTab = map[common.Address]string{}
)

func noteAddr(a common.Address, what string, wit func() interface{}) {
	addrMu.Lock()
	prev, ok := addrTab[a]
	if !ok {
		addrTab[a] = what
	}
	addrMu.Unlock()
	if ok && prev != what {
		r.Violation("address-collision", "two different (key set, m) map to one address", map[string]interface{}{"addr": a.ToHexString(), "first": prev, "second": what, "detail": wit()})
	}
}

// ---------------------------------------------------------------- key set cases

func pickKeys(rng *vf.RNG, n int) []*txgen.Key {
	switch rng.Intn(5) {
	case 0: // one kind only (exercises the in-kind ordering)
		kind := txgen.PickLight(rng).Kind
		pool := txgen.Pool(kind)
		p := rng.Perm(len(pool))
		out := make([]*txgen.Key, n)
		for i := range out {
			out[i] = pool[p[i]]
		}
		return out
	default:
		return txgen.PickSetLight(rng, n)
	}
}

func permuted(keys []*txgen.Key, p []int) []*txgen.Key {
	out := make([]*txgen.Key, len(keys))
	for i, j := range p {
		out[i] = keys[j]
	}
	return out
}

func singleCase(k *txgen.Key) {
	r.Eval("single/" + keyID(k))
	r.Count("single_key_" + k.Kind.String())
	var prog []byte
	var info program.ProgramInfo
	var err error
	if p := vf.Catch(func() { prog = program.ProgramFromPubKey(k.Pub); info, err = program.GetProgramInfo(prog) }); p != nil {
		r.Violation("panic:single:"+k.Kind.String(), fmt.Sprint(p), map[string]interface{}{"key": vf.Hex(k.PubBytes())})
		return
	}
	wit := map[string]interface{}{"key": vf.Hex(k.PubBytes()), "script": vf.Hex(prog)}
	if err != nil {
		r.Violation("single:rejected:"+k.Kind.String(), "single-key script does not parse: "+err.Error(), wit)
		return
	}
	if info.M != 1 || len(info.PubKeys) != 1 || !samePub(info.PubKeys[0], k) {
		wit["M"] = info.M
		wit["nkeys"] = len(info.PubKeys)
		r.Violation("single:mismatch:"+k.Kind.String(), "single-key script parses to a different (keys, m)", wit)
	}
	var want bytes.Buffer
	pushData(&want, k.PubBytes())
	want.WriteByte(opCHECKSIG)
	if bytes.Equal(want.Bytes(), prog) {
		r.Count("assembler_matches_encoder")
	} else {
		r.Count("assembler_differs_from_encoder")
	}
}

func multiCase(rng *vf.RNG, keys []*txgen.Key) {
	n := len(keys)
	sorted := refSorted(keys)
	sid := setID(keys)
	r.Count(fmt.Sprintf("multi_n=%02d", n))
	for _, k := range keys {
		r.Count("multi_key_" + k.Kind.String())
	}
	perms := [][]int{make([]int, n), make([]int, n), rng.Perm(n), rng.Perm(n)}
	for i := 0; i < n; i++ {
		perms[0][i] = i
		perms[1][i] = n - 1 - i
	}
	addrOfM := map[common.Address]int{}
	var addr1 common.Address
	// a script handed out earlier stays what it was while later scripts are built
	var held, heldCopy []byte
	heldM := 0
	for m := 1; m <= n+1; m++ {
		if held != nil {
			r.Count("held_script_rechecked")
			if !bytes.Equal(held, heldCopy) {
				r.Violation("multi:returned-script-changed-later", "a script returned by ProgramFromMultiPubKey changed after later scripts were built",
					map[string]interface{}{"keys": hexKeys(keys), "m": heldM, "script_when_returned": vf.Hex(heldCopy), "script_now": vf.Hex(held), "built_since": "the scripts of the same keys in other orders and for the next threshold"})
			}
		}
		if m > n {
			break
		}
		r.Eval(fmt.Sprintf("multi/%s/%d", sid, m))
		var prog0 []byte
		var addr0 common.Address
		for pi, p := range perms {
			ks := permuted(keys, p)
			var prog []byte
			var info program.ProgramInfo
			var addr common.Address
			var e1, e2, e3 error
			parsed := false
			if pn := vf.Catch(func() {
				prog, e1 = program.ProgramFromMultiPubKey(txgen.Pubs(ks), m)
				// a byte-identical script is not parsed again (P-224 decompression is ~8 ms per key)
				if e1 == nil && (pi == 0 || !bytes.Equal(prog, prog0)) {
					info, e2 = program.GetProgramInfo(prog)
					parsed = true
				}
				addr, e3 = types.AddressFromMultiPubKeys(txgen.Pubs(ks), m)
			}); pn != nil {
				r.Violation("panic:multi", fmt.Sprint(pn), map[string]interface{}{"keys": hexKeys(ks), "m": m})
				return
			}
			wit := map[string]interface{}{"keys_in_order": hexKeys(ks), "m": m, "n": n, "script": vf.Hex(prog), "kinds": kindsOf(keys)}
			if e1 != nil || e3 != nil {
				r.Violation("multi:valid-rejected-by-encoder", fmt.Sprintf("valid (n=%d,m=%d) rejected: %v / %v", n, m, e1, e3), wit)
				return
			}
			if e2 != nil {
				r.Violation("multi:valid-rejected-by-parser", fmt.Sprintf("script of valid (n=%d,m=%d) does not parse: %v", n, m, e2), wit)
				return
			}
			if parsed {
				r.Count("multi_roundtrip_checked")
			}
			if parsed && int(info.M) != m {
				wit["parsed_m"] = info.M
				r.Violation("multi:threshold-mismatch", "parsed threshold differs from the encoded one", wit)
			}
			if !parsed {
			} else if len(info.PubKeys) != n {
				wit["parsed_n"] = len(info.PubKeys)
				r.Violation("multi:keycount-mismatch", "parsed key count differs", wit)
			} else {
				for i := range sorted {
					if !samePub(info.PubKeys[i], sorted[i]) {
						wit["position"] = i
						wit["want_sorted"] = hexKeys(sorted)
						r.Violation("multi:keys-not-sorted-set:"+kindsOf(keys), "parsed keys are not the sorted key set", wit)
						break
					}
				}
			}
			if addr != common.AddressFromVmCode(prog) {
				r.Violation("multi:address-not-script-hash", "AddressFromMultiPubKeys differs from the hash of ProgramFromMultiPubKey", wit)
			}
			if pi == 0 {
				prog0, addr0 = prog, addr
				held, heldCopy, heldM = prog, append([]byte(nil), prog...), m
				want := assemble(m, rawKeys(sorted), n, true)
				if bytes.Equal(want, prog) {
					r.Count("assembler_matches_encoder")
				} else {
					r.Count("assembler_differs_from_encoder")
				}
				continue
			}
			r.Count("permutation_compared")
			if !bytes.Equal(prog, prog0) {
				wit["first_order_script"] = vf.Hex(prog0)
				r.Violation("multi:script-order-dependent:"+kindsOf(keys), "script depends on the order of the keys", wit)
			}
			if addr != addr0 {
				wit["first_order_addr"] = addr0.ToHexString()
				wit["addr"] = addr.ToHexString()
				r.Violation("multi:address-order-dependent:"+kindsOf(keys), "address depends on the order of the keys", wit)
			}
		}
		if m == 1 {
			addr1 = addr0
		}
		if pm, dup := addrOfM[addr0]; dup {
			r.Violation("multi:address-same-for-thresholds", fmt.Sprintf("m=%d and m=%d give the same address", pm, m), map[string]interface{}{"keys": hexKeys(keys), "m1": pm, "m2": m, "addr": addr0.ToHexString()})
		}
		addrOfM[addr0] = m
		if n >= 2 && m < n {
			r.Count("threshold_distinct_checked")
		}
		what := fmt.Sprintf("%s|m=%d", sid, m)
		noteAddr(addr0, what, func() interface{} { return hexKeys(keys) })
	}
	_ = addr1
	// changing the set changes the address (same m)
	m := rng.Range(1, n)
	base, _ := types.AddressFromMultiPubKeys(txgen.Pubs(keys), m)
	variant := func(kind string, ks []*txgen.Key, mm int) {
		a, err := types.AddressFromMultiPubKeys(txgen.Pubs(ks), mm)
		if err != nil {
			r.Violation("multi:valid-rejected-by-encoder", "variant set rejected: "+err.Error(), map[string]interface{}{"keys": hexKeys(ks), "m": mm})
			return
		}
		r.Count("set_change_" + kind)
		if a == base {
			r.Violation("multi:address-same-for-different-set:"+kind, "a different key set has the same address", map[string]interface{}{"keys": hexKeys(keys), "variant": hexKeys(ks), "m": mm, "addr": a.ToHexString()})
		}
	}
	other := func() *txgen.Key {
		for {
			k := txgen.PickLight(rng)
			dup := false
			for _, q := range keys {
				if q == k {
					dup = true
				}
			}
			if !dup {
				return k
			}
		}
	}
	rep := append([]*txgen.Key(nil), keys...)
	rep[rng.Intn(n)] = other()
	variant("replace", rep, m)
	if n >= 3 {
		i := rng.Intn(n)
		drop := append(append([]*txgen.Key(nil), keys[:i]...), keys[i+1:]...)
		mm := m
		if mm > n-1 {
			mm = n - 1
		}
		if mm == m {
			variant("drop", drop, mm)
		}
	}
	if n < constants.MULTI_SIG_MAX_PUBKEY_SIZE {
		variant("add", append(append([]*txgen.Key(nil), keys...), other()), m)
	}
}

func rawKeys(keys []*txgen.Key) [][]byte {
	out := make([][]byte, len(keys))
	for i, k := range keys {
		out[i] = k.PubBytes()
	}
	return out
}

// ---------------------------------------------------------------- invalid parameters

func invalidByEncoder(rng *vf.RNG) {
	type c struct {
		fam  string
		n, m int
	}
	var cases []c
	for n := 2; n <= 16; n++ {
		cases = append(cases, c{"m=0", n, 0}, c{"m<0", n, -1 - rng.Intn(5)}, c{"m>n", n, n + 1}, c{"m>n", n, n + 1 + rng.Intn(300)})
	}
	cases = append(cases, c{"n=0", 0, 0}, c{"n=0", 0, 1}, c{"n=1", 1, 1}, c{"n=1", 1, 0}, c{"n>16", 17, 1}, c{"n>16", 17, 17}, c{"n>16", 17, 12}, c{"n>16", 20, 3}, c{"n>16", 40, 40},
		c{"m=65536+1", 5, 65537}, c{"m=65536+1", 16, 65536 + 16})
	for _, cs := range cases {
		keys := txgen.PickSetLight(rng, cs.n)
		var e1, e3 error
		var prog []byte
		if p := vf.Catch(func() {
			prog, e1 = program.ProgramFromMultiPubKey(txgen.Pubs(keys), cs.m)
			_, e3 = types.AddressFromMultiPubKeys(txgen.Pubs(keys), cs.m)
		}); p != nil {
			r.Violation("panic:encoder-invalid:"+cs.fam, fmt.Sprint(p), map[string]interface{}{"n": cs.n, "m": cs.m})
			continue
		}
		r.Eval(fmt.Sprintf("enc-invalid/%s/%d/%d", cs.fam, cs.n, cs.m))
		r.Count("encoder_invalid_" + cs.fam)
		if e1 == nil {
			r.Violation("encoder-accepts-invalid:"+cs.fam, fmt.Sprintf("ProgramFromMultiPubKey accepted n=%d m=%d", cs.n, cs.m), map[string]interface{}{"n": cs.n, "m": cs.m, "keys": hexKeys(keys), "script": vf.Hex(prog)})
		}
		if e3 == nil {
			r.Violation("address-accepts-invalid:"+cs.fam, fmt.Sprintf("AddressFromMultiPubKeys accepted n=%d m=%d", cs.n, cs.m), map[string]interface{}{"n": cs.n, "m": cs.m, "keys": hexKeys(keys)})
		}
	}
}

func parserMustReject(fam string, script []byte, detail map[string]interface{}) {
	var info program.ProgramInfo
	var err error
	if p := vf.Catch(func() { info, err = program.GetProgramInfo(script) }); p != nil {
		r.Violation("panic:parser:"+fam, fmt.Sprint(p), map[string]interface{}{"script": vf.Hex(script)})
		return
	}
	r.Eval("parse-invalid/" + fam + "/" + vf.HexTrunc(script, 24))
	r.Count("parser_invalid_" + fam)
	if err == nil {
		detail["script"] = vf.Hex(script)
		detail["parsed_m"] = info.M
		detail["parsed_n"] = len(info.PubKeys)
		r.Violation("parser-accepts-invalid:"+fam, "hand-assembled invalid script accepted", detail)
	}
}

func invalidByParser(rng *vf.RNG) {
	for rep := 0; rep < vf.N(40, 400); rep++ {
		sub := rng.Sub(uint64(rep))
		n := sub.Range(2, 16)
		keys := refSorted(txgen.PickSetLight(sub, n))
		raw := rawKeys(keys)
		d := func(m, decl int) map[string]interface{} {
			return map[string]interface{}{"m": m, "declared_n": decl, "keys": len(raw)}
		}
		// control: the hand-assembled valid script is accepted (otherwise the rejections below prove nothing)
		m := sub.Range(1, n)
		if info, err := program.GetProgramInfo(assemble(m, raw, n, true)); err == nil && int(info.M) == m && len(info.PubKeys) == n {
			r.Count("parser_control_valid_accepted")
		} else {
			r.Count("parser_control_valid_rejected")
		}
		parserMustReject("m=0", assemble(0, raw, n, true), d(0, n))
		parserMustReject("m>n", assemble(n+1, raw, n, true), d(n+1, n))
		parserMustReject("m>n", assemble(n+1+sub.Intn(40), raw, n, true), d(-1, n))
		parserMustReject("declared-n-too-small", assemble(m, raw, n-1, true), d(m, n-1))
		parserMustReject("declared-n-too-large", assemble(m, raw, n+1, true), d(m, n+1))
		parserMustReject("declared-n=0", assemble(m, raw, 0, true), d(m, 0))
		parserMustReject("missing-n", assemble(m, raw, 0, false), d(m, -1))
		parserMustReject("n=1", assemble(1, raw[:1], 1, true), d(1, 1))
		parserMustReject("n=0", assemble(1, nil, 0, true), d(1, 0))
		parserMustReject("n=0", assemble(0, nil, 0, true), d(0, 0))
		big17 := rawKeys(refSorted(txgen.PickSetLight(sub, 17+sub.Intn(4))))
		parserMustReject("n>16", assemble(sub.Range(1, 16), big17, len(big17), true), d(-1, len(big17)))
		parserMustReject("n>16", assemble(len(big17), big17, len(big17), true), d(len(big17), len(big17)))
		// trailing garbage after the terminator that still ends in the terminator
		good := assemble(m, raw, n, true)
		parserMustReject("trailing-bytes", append(append([]byte(nil), good...), opCHECKMULTISIG), d(m, n))
		parserMustReject("trailing-bytes", append(append(append([]byte(nil), good...), sub.Bytes(1+sub.Intn(5))...), opCHECKMULTISIG), d(m, n))
		// single-key script with trailing data / two keys
		k := txgen.PickLight(sub)
		var b bytes.Buffer
		pushData(&b, k.PubBytes())
		pushData(&b, txgen.PickLight(sub).PubBytes())
		b.WriteByte(opCHECKSIG)
		parserMustReject("single-two-keys", b.Bytes(), map[string]interface{}{})
		b.Reset()
		pushData(&b, k.PubBytes()[:len(k.PubBytes())-1])
		b.WriteByte(opCHECKSIG)
		parserMustReject("single-truncated-key", b.Bytes(), map[string]interface{}{"kind": k.Kind.String()})
	}
}

// ---------------------------------------------------------------- byte strings

func altEncoding(rng *vf.RNG, k *txgen.Key) []byte {
	p, ok := k.Pub.(*ec.PublicKey)
	if !ok {
		return append(k.PubBytes(), rng.Bytes(1)...)
	}
	un := ec.EncodePublicKey(p.PublicKey, false)
	if k.Kind == txgen.ECDSAP256 {
		switch rng.Intn(3) {
		case 0:
			return un // bare uncompressed
		case 1:
			return append([]byte{byte(keypair.PK_ECDSA), keypair.P256}, ec.EncodePublicKey(p.PublicKey, true)...)
		}
	}
	cano := k.PubBytes()
	return append(append([]byte(nil), cano[:2]...), un...)
}

func checkAccepted(script []byte, info program.ProgramInfo, fam string) {
	n := len(info.PubKeys)
	wit := map[string]interface{}{"script": vf.Hex(script), "M": info.M, "nkeys": n, "family": fam}
	end := script[len(script)-1]
	switch end {
	case opCHECKSIG:
		r.Count("bytes_accepted_single")
		if info.M != 1 || n != 1 {
			r.Violation("accepted:single-bad-shape", "accepted single-key script with M!=1 or keys!=1", wit)
		}
	case opCHECKMULTISIG:
		r.Count("bytes_accepted_multi")
		if !(1 <= info.M && int(info.M) <= n && n >= 2 && n <= constants.MULTI_SIG_MAX_PUBKEY_SIZE) {
			r.Violation("accepted:multi-bad-params", "accepted multi-sig script violates 1<=m<=n, 2<=n<=16", wit)
		}
		if toks, ok := tokenize(script[:len(script)-1]); ok && len(toks) >= 2 {
			last := toks[len(toks)-1]
			// byte strings: either byte order of a 1..2 byte count is let through here; the
			// operand family (operands.go) holds data pushes to their VM-integer value
			decl, declVM := -1, -1
			if last.num >= 0 {
				decl, declVM = last.num, last.num
			} else if last.data != nil && len(last.data) <= 2 {
				decl = int(new(big.Int).SetBytes(last.data).Int64())
				declVM = int(neoInt(last.data).Int64())
			}
			if decl >= 0 {
				r.Count("bytes_accepted_declared_n_checked")
				if decl != n && declVM != n {
					wit["declared_n"] = decl
					r.Violation("accepted:declared-n-mismatch", "len(PubKeys) differs from the key count declared in the script", wit)
				}
			}
			first := toks[0]
			if first.num >= 0 && first.num != int(info.M) {
				wit["declared_m"] = first.num
				r.Violation("accepted:declared-m-mismatch", "M differs from the threshold in the script", wit)
			}
		}
	default:
		r.Violation("accepted:unknown-terminator", "accepted a script that ends in neither CHECKSIG nor CHECKMULTISIG", wit)
	}
	for _, k := range info.PubKeys {
		if k == nil {
			r.Violation("accepted:nil-key", "accepted script yields a nil public key", wit)
		}
	}
}

func byteStringCase(rng *vf.RNG) {
	var script []byte
	var fam string
	valid := func() []byte {
		if rng.Chance(25) {
			return program.ProgramFromPubKey(txgen.PickLight(rng).Pub)
		}
		n := rng.Range(2, 6)
		if rng.Chance(15) {
			n = rng.Range(7, 16)
		}
		s, err := program.ProgramFromMultiPubKey(txgen.Pubs(txgen.PickSetLight(rng, n)), rng.Range(1, n))
		if err != nil {
			panic(err)
		}
		return s
	}
	switch rng.Intn(10) {
	case 0:
		fam = "random"
		script = rng.Bytes(3 + rng.Intn(120))
		if rng.Bool() {
			script[len(script)-1] = opCHECKSIG
		} else {
			script[len(script)-1] = opCHECKMULTISIG
		}
	case 1:
		fam = "random-pushes"
		var b bytes.Buffer
		if rng.Bool() {
			pushNum(&b, rng.Intn(20))
		}
		for i := rng.Intn(6); i > 0; i-- {
			switch rng.Intn(4) {
			case 0:
				pushNum(&b, rng.Intn(300))
			case 1:
				pushData(&b, txgen.PickLight(rng).PubBytes())
			default:
				pushData(&b, rng.Bytes(1+rng.Intn(70)))
			}
		}
		if rng.Bool() {
			b.WriteByte(opCHECKSIG)
		} else {
			b.WriteByte(opCHECKMULTISIG)
		}
		script = b.Bytes()
	case 2, 3, 4:
		fam = "flip"
		script = append([]byte(nil), valid()...)
		for i := 1 + rng.Intn(2); i > 0; i-- {
			script[rng.Intn(len(script))] ^= byte(1 << uint(rng.Intn(8)))
		}
	case 5:
		fam = "set-byte"
		script = append([]byte(nil), valid()...)
		vals := []byte{0, 1, 0x10, 0x11, 0x4b, 0x4c, 0x4d, 0x4e, 0x4f, 0x50, 0x51, 0x60, 0x61, 0xac, 0xae, 0xff}
		script[rng.Intn(len(script))] = vals[rng.Intn(len(vals))]
	case 6:
		fam = "truncate"
		s := valid()
		cut := rng.Intn(len(s))
		script = append([]byte(nil), s[:cut]...)
		if rng.Bool() && len(script) > 0 {
			script = append(script, s[len(s)-1])
		}
	case 7:
		fam = "insert-delete"
		s := valid()
		i := rng.Intn(len(s))
		if rng.Bool() {
			script = append(append(append([]byte(nil), s[:i]...), rng.Bytes(1+rng.Intn(3))...), s[i:]...)
		} else {
			script = append(append([]byte(nil), s[:i]...), s[i+1:]...)
		}
	case 8:
		fam = "length-prefix-forms"
		// same keys pushed with PUSHDATA1/2/4 instead of the direct form, thresholds as data pushes
		n := rng.Range(2, 5)
		keys := refSorted(txgen.PickSetLight(rng, n))
		var b bytes.Buffer
		m := rng.Range(1, n)
		if rng.Bool() {
			pushNum(&b, m)
		} else {
			b.Write([]byte{1, byte(m)})
		}
		for _, k := range keys {
			d := k.PubBytes()
			switch rng.Intn(4) {
			case 0:
				b.WriteByte(opPUSHDATA1)
				b.WriteByte(byte(len(d)))
			case 1:
				b.Write([]byte{opPUSHDATA2, byte(len(d)), 0})
			case 2:
				b.Write([]byte{opPUSHDATA4, byte(len(d)), 0, 0, 0})
			default:
				b.WriteByte(byte(len(d)))
			}
			b.Write(d)
		}
		switch rng.Intn(3) {
		case 0:
			pushNum(&b, n)
		case 1:
			b.Write([]byte{1, byte(n)})
		default:
			b.Write([]byte{2, 0, byte(n)})
		}
		b.WriteByte(opCHECKMULTISIG)
		script = b.Bytes()
	default:
		fam = "alt-key-encoding"
		n := rng.Range(1, 5)
		keys := refSorted(txgen.PickSetLight(rng, n))
		var b bytes.Buffer
		if n == 1 {
			pushData(&b, altEncoding(rng, keys[0]))
			b.WriteByte(opCHECKSIG)
		} else {
			raw := rawKeys(keys)
			raw[rng.Intn(n)] = altEncoding(rng, keys[rng.Intn(n)])
			b.Write(assemble(rng.Range(1, n), raw, n, true))
		}
		script = b.Bytes()
	}
	var info program.ProgramInfo
	var err error
	if p := vf.Catch(func() { info, err = program.GetProgramInfo(script) }); p != nil {
		r.Violation("panic:parser:"+fam, fmt.Sprint(p), map[string]interface{}{"script": vf.Hex(script), "family": fam})
		return
	}
	fp := ""
	if len(script) > 2 {
		fp = "b/" + vf.Hex(script[:min(len(script), 20)]) + fmt.Sprint(len(script))
	}
	r.Eval(fp)
	r.Count("bytes_" + fam)
	if err != nil {
		r.Count("bytes_rejected")
		return
	}
	r.Count("bytes_accepted_" + fam)
	checkAccepted(script, info, fam)
}

func min(a, b int) int {
	if a < b {
		return a
	}
	return b
}

// ----------------------------------------------------------------

func main() {
	r = vf.NewRun("C23", "exploration",
		"key sets of size 1..16 drawn from a 7x32 pool of deterministic keys (ECDSA P-224/256/384/521, SM2, Ed25519, Ethereum secp256k1; mixed or single-kind), every threshold 1..n, identity/reverse/2 random orderings; invalid (n,m) through encoder and hand-assembled scripts through parser; random, mutated and alternatively-encoded scripts as byte strings; hand-assembled m-of-n scripts whose threshold / key-count operands take every push form (PUSHM1, PUSH0..16, PUSHBYTES1..9, PUSHDATA1/2/4 with 0..9 bytes) and the values b, b+k*2^8s, b+65536j, negatives, paddings, byte-reversed, 0, K+-1, 17..65537, 2^31..2^64, with 0, 1, 2..16, 17..1025 and (quick: 65537; thorough: 65535..131075) keys; distinct by (key set, m) / script bytes / (key count, operand bytes)")
	rng := vf.NewRNG(vf.Seed())
	workers := runtime.NumCPU()
	for k := txgen.Kind(0); k < txgen.NumKinds; k++ {
		txgen.Pool(k)
	}

	// single keys: the whole pool
	var all []*txgen.Key
	for k := txgen.Kind(0); k < txgen.NumKinds; k++ {
		all = append(all, txgen.Pool(k)...)
	}
	vf.Parallel(len(all), workers, func(i int) { singleCase(all[i]) })

	nsets := vf.N(2000, 50000)
	vf.Parallel(nsets, workers, func(i int) {
		sub := rng.Sub(uint64(i))
		n := 2 + i%15 // every size 2..16 equally often
		keys := pickKeys(sub, n)
		if i < 3 {
			r.Sample(map[string]interface{}{"case": i, "n": n, "keys": hexKeys(keys)})
		}
		multiCase(sub, keys)
	})

	invalidByEncoder(rng.Sub(1 << 40))
	invalidByParser(rng.Sub(2 << 40))

	nb := vf.N(100000, 4000000)
	base := rng.Sub(3 << 40)
	const chunk = 1000
	vf.Parallel(nb/chunk, workers, func(c int) {
		for j := 0; j < chunk; j++ {
			byteStringCase(base.Sub(uint64(c*chunk + j)))
		}
	})

	operandFamily(rng.Sub(4<<40), workers)
	operandRequirements()

	for k := txgen.Kind(0); k < txgen.NumKinds; k++ {
		r.Require("single_key_"+k.String(), txgen.PoolSize)
		r.Require("multi_key_"+k.String(), 100)
	}
	for n := 2; n <= 16; n++ {
		r.Require(fmt.Sprintf("multi_n=%02d", n), 50)
	}
	r.Require("multi_roundtrip_checked", 10000)
	r.Require("held_script_rechecked", 10000)
	r.Require("permutation_compared", 10000)
	r.Require("threshold_distinct_checked", 1000)
	for _, f := range []string{"replace", "drop", "add"} {
		r.Require("set_change_"+f, 100)
	}
	for _, f := range []string{"m=0", "m<0", "m>n", "n=0", "n=1", "n>16"} {
		r.Require("encoder_invalid_"+f, 2)
	}
	for _, f := range []string{"m=0", "m>n", "declared-n-too-small", "declared-n-too-large", "declared-n=0", "missing-n", "n=1", "n=0", "n>16", "trailing-bytes", "single-two-keys", "single-truncated-key"} {
		r.Require("parser_invalid_"+f, 10)
	}
	r.Require("parser_control_valid_accepted", 10)
	if r.Counter("parser_control_valid_rejected") > 0 || r.Counter("assembler_differs_from_encoder") > 0 {
		r.Inconclusive("the monitor's hand assembler does not produce the script format of the encoder: invalid-script cases are not meaningful")
	}
	r.Require("assembler_matches_encoder", 1000)
	for _, f := range []string{"random", "random-pushes", "flip", "set-byte", "truncate", "insert-delete", "length-prefix-forms", "alt-key-encoding"} {
		r.Require("bytes_"+f, 1000)
	}
	r.Require("bytes_rejected", 1000)
	r.Require("bytes_accepted_single", 10)
	r.Require("bytes_accepted_multi", 100)
	r.Require("bytes_accepted_declared_n_checked", 100)
	r.Assume("keys come from a fixed pool of 32 deterministic keys per type (224 keys); key sets contain distinct keys")
	r.Assume("the documented order of keypair.SortPublicKeys (key type, curve, X, Y / raw bytes) is the meaning of 'sorted'")
	r.Finish()
}
