// C23 — operand forms of the threshold and of the key count in hand-assembled m-of-n scripts.
//
// A multi-signature verification script is  <push m> <push key>*K <push n> CHECKMULTISIG.
// The two numbers are pushed here in every operand form a script reader might meet:
//
//	PUSHM1, PUSH0, PUSH1..PUSH16, PUSHBYTES1..PUSHBYTES9, PUSHDATA1/2/4 with 0..9 data bytes
//
// and with data bytes that spell, as a NeoVM integer (little-endian two's complement, the
// way the virtual machine itself reads a pushed number), the values  b, b+k*2^8s,
// b+65536*j, negative numbers whose low bytes are b, sign-extended (non-minimal) paddings
// of all of them, zero-extended negatives, byte-reversed spellings, b<<8s, and the fixed
// values 0, K-1, K+1, 17, 255, 256, 1024, 1025, 65535, 65536, 65537, 2^31, 2^32, 2^63, 2^64
// (b = the intended threshold / key count, K = number of keys actually in the script).
//
// Oracle (computed here, from the bytes of the assembled script only):
//
//	vm, vn := NeoVM integer value of the first / last operand
//	valid  := 1 <= vm <= vn, 2 <= vn <= 16, vn == K            (keys are canonical encodings)
//	!valid               => GetProgramInfo must reject
//	valid and accepted   => M == vm, PubKeys == the K keys of the script (in script order)
//	valid, both operands in the encoder's own form (PUSH1..PUSH16) => must be accepted (control)
//	valid, another operand form => accepted or rejected, both are fine (only counted)
//
// types.RawSig.GetSig, the other reader of verification scripts, must agree with
// GetProgramInfo on acceptance and on (M, keys).
package main

import (
	"bytes"
	"fmt"
	"math/big"
	"sort"
	"strings"

	"github.com/ontio/ontology-crypto/keypair"
	"github.com/ontio/ontology/common/constants"
	"github.com/ontio/ontology/core/program"
	"github.com/ontio/ontology/core/types"
	"verifharness/lib/txgen"
	"verifharness/lib/vf"
)

const opPUSHM1 = 0x4f

// ---------------------------------------------------------------- NeoVM integers (own reader / writer)

// neoInt reads data as the virtual machine reads a pushed number: little-endian two's complement.
func neoInt(d []byte) *big.Int {
	v := new(big.Int)
	if len(d) == 0 {
		return v
	}
	be := make([]byte, len(d))
	for i, b := range d {
		be[len(d)-1-i] = b
	}
	v.SetBytes(be)
	if d[len(d)-1]&0x80 != 0 {
		v.Sub(v, new(big.Int).Lsh(big.NewInt(1), uint(8*len(d))))
	}
	return v
}

// neoBytes is the minimal little-endian two's complement spelling of v (0 => empty).
func neoBytes(v *big.Int) []byte {
	if v.Sign() == 0 {
		return nil
	}
	for l := 1; ; l++ {
		lim := new(big.Int).Lsh(big.NewInt(1), uint(8*l-1)) // 2^(8l-1)
		if v.Cmp(lim) >= 0 || v.Cmp(new(big.Int).Neg(lim)) < 0 {
			continue
		}
		u := new(big.Int).Set(v)
		if u.Sign() < 0 {
			u.Add(u, new(big.Int).Lsh(big.NewInt(1), uint(8*l)))
		}
		be := u.Bytes()
		out := make([]byte, l)
		for i, b := range be {
			out[len(be)-1-i] = b
		}
		return out
	}
}

func reversed(d []byte) []byte {
	out := make([]byte, len(d))
	for i, b := range d {
		out[len(d)-1-i] = b
	}
	return out
}

// ---------------------------------------------------------------- operands

type operand struct {
	form string   // PUSHM1, PUSH0, PUSHn, PUSHBYTES<l>, PUSHDATA1/<l>, PUSHDATA2/<l>, PUSHDATA4/<l>
	cls  string   // how the value was made (coverage only, never part of the oracle)
	enc  []byte   // bytes in the script
	data []byte   // pushed data (nil for the one-byte opcode forms)
	val  *big.Int // NeoVM integer value of what the operand pushes
}

// canonical: the form the encoder itself emits for 1..16.
func (o operand) canonical() bool { return o.form == "PUSHn" }

func opcodeOperand(v int, cls string) operand {
	switch {
	case v == -1:
		return operand{form: "PUSHM1", cls: cls, enc: []byte{opPUSHM1}, val: big.NewInt(-1)}
	case v == 0:
		return operand{form: "PUSH0", cls: cls, enc: []byte{opPUSH0}, val: big.NewInt(0)}
	}
	return operand{form: "PUSHn", cls: cls, enc: []byte{byte(opPUSH1 + v - 1)}, val: big.NewInt(int64(v))}
}

var dataForms = []string{"PUSHBYTES", "PUSHDATA1", "PUSHDATA2", "PUSHDATA4"}

func dataOperand(kind string, d []byte, cls string) operand {
	var b bytes.Buffer
	l := len(d)
	form := fmt.Sprintf("%s/%d", kind, l)
	switch kind {
	case "PUSHBYTES":
		b.WriteByte(byte(l)) // 1..75
		form = fmt.Sprintf("PUSHBYTES%d", l)
	case "PUSHDATA1":
		b.Write([]byte{opPUSHDATA1, byte(l)})
	case "PUSHDATA2":
		b.Write([]byte{opPUSHDATA2, byte(l), byte(l >> 8)})
	case "PUSHDATA4":
		b.Write([]byte{opPUSHDATA4, byte(l), byte(l >> 8), byte(l >> 16), byte(l >> 24)})
	}
	b.Write(d)
	return operand{form: form, cls: cls, enc: b.Bytes(), data: append([]byte{}, d...), val: neoInt(d)}
}

const maxOperandLen = 9

type spelled struct {
	cls  string
	data []byte
}

// spellings of one intended value: minimal, every sign-extended padding up to 9 bytes,
// zero-extended (changes the value of a negative number), and the byte-reversed forms.
func spellings(cls string, v *big.Int) []spelled {
	var out []spelled
	min := neoBytes(v)
	if len(min) > maxOperandLen {
		return nil
	}
	out = append(out, spelled{cls, min})
	ext := byte(0)
	if v.Sign() < 0 {
		ext = 0xff
	}
	for l := len(min) + 1; l <= maxOperandLen; l++ {
		p := append([]byte{}, min...)
		for len(p) < l {
			p = append(p, ext)
		}
		out = append(out, spelled{cls + "|padded", p})
		if len(min) >= 1 {
			out = append(out, spelled{cls + "|padded|reversed", reversed(p)})
		}
		if ext != 0 {
			z := append([]byte{}, min...)
			for len(z) < l {
				z = append(z, 0)
			}
			out = append(out, spelled{cls + "|zero-extended", z})
		}
	}
	if len(min) >= 2 {
		out = append(out, spelled{cls + "|reversed", reversed(min)})
	}
	return out
}

type intended struct {
	cls string
	v   *big.Int
}

func pow2(n uint) *big.Int { return new(big.Int).Lsh(big.NewInt(1), n) }

// intendedValues lists the numbers tried for an operand whose honest value would be b in a
// script with K keys.
func intendedValues(rng *vf.RNG, b, K int) []intended {
	B := big.NewInt(int64(b))
	add := func(x *big.Int) *big.Int { return new(big.Int).Add(B, x) }
	mul := func(k int64, s uint) *big.Int { return new(big.Int).Mul(big.NewInt(k), pow2(s)) }
	out := []intended{{"b", B}}
	for _, f := range []int64{0, int64(K - 1), int64(K + 1), 17, 255, 256, 1024, 1025, 65535, 65536, 65537} {
		if f >= 0 && f != int64(b) {
			out = append(out, intended{"fixed", big.NewInt(f)})
		}
	}
	for _, s := range []uint{31, 32, 63, 64} {
		out = append(out, intended{"fixed-2^k", pow2(s)})
	}
	// b + k*2^(8s): the low byte(s) still spell b
	for s := uint(8); s <= 64; s += 8 {
		ks := []int64{1, int64(1 + rng.Intn(255))}
		if s <= 16 {
			ks = append(ks, 0x7f, 0x80, 0xff)
		}
		for _, k := range ks {
			out = append(out, intended{fmt.Sprintf("b+k*2^%d", s), add(mul(k, s))})
		}
	}
	// b + 65536*j
	for _, j := range []int64{2, 3, 0x100, 0xffff, 0x10000, int64(2 + rng.Intn(0x7ffe)), int64(0x8000 + rng.Intn(0x7fff))} {
		out = append(out, intended{"b+65536*j", add(mul(j, 16))})
	}
	// negative numbers
	out = append(out, intended{"negative", big.NewInt(-1)})
	if b > 0 {
		out = append(out, intended{"negative", big.NewInt(int64(-b))})
	}
	for _, s := range []uint{8, 16, 24, 32, 56, 64} {
		out = append(out, intended{"negative-low-bytes-b", add(new(big.Int).Neg(pow2(s)))})
	}
	// b shifted up by whole bytes (what a big-endian reader of b's padded spelling would mean)
	if b > 0 {
		for s := uint(8); s <= 64; s += 8 {
			out = append(out, intended{"b<<8s", mul(int64(b), s)})
		}
	}
	return out
}

// operandsFor expands the intended values of base b into every operand form.
func operandsFor(rng *vf.RNG, b, K int) []operand {
	var out []operand
	seen := map[string]bool{}
	put := func(o operand) {
		if !seen[string(o.enc)] {
			seen[string(o.enc)] = true
			out = append(out, o)
		}
	}
	for _, iv := range intendedValues(rng, b, K) {
		if iv.v.IsInt64() && iv.v.Int64() >= -1 && iv.v.Int64() <= 16 {
			put(opcodeOperand(int(iv.v.Int64()), iv.cls))
		}
		for _, sp := range spellings(iv.cls, iv.v) {
			for _, f := range dataForms {
				if f == "PUSHBYTES" && len(sp.data) == 0 {
					continue // PUSHBYTES0 is PUSH0
				}
				put(dataOperand(f, sp.data, sp.cls))
			}
		}
	}
	return out
}

// ---------------------------------------------------------------- scripts and the oracle

func assembleOperands(m operand, keys [][]byte, n operand) []byte {
	var b bytes.Buffer
	b.Write(m.enc)
	for _, k := range keys {
		pushData(&b, k)
	}
	b.Write(n.enc)
	b.WriteByte(opCHECKMULTISIG)
	return b.Bytes()
}

func validParams(vm, vn *big.Int, K int) bool {
	if !vm.IsInt64() || !vn.IsInt64() {
		return false
	}
	m, n := vm.Int64(), vn.Int64()
	return 1 <= m && m <= n && 2 <= n && n <= constants.MULTI_SIG_MAX_PUBKEY_SIZE && n == int64(K)
}

// reading names, for the structural key of a violation, which wrong reading of an operand's
// bytes gives the number the parser reported.
func reading(o operand, reported int64) string {
	rep := big.NewInt(reported)
	switch {
	case o.val.Cmp(rep) == 0:
		return "value"
	case o.data != nil && new(big.Int).SetBytes(o.data).Cmp(rep) == 0:
		return "big-endian-unsigned"
	case o.data != nil && new(big.Int).SetBytes(reversed(o.data)).Cmp(rep) == 0:
		return "little-endian-unsigned"
	case o.data != nil && new(big.Int).Mod(new(big.Int).SetBytes(o.data), pow2(64)).Cmp(rep) == 0:
		return "big-endian-unsigned-mod-2^64"
	case new(big.Int).Mod(o.val, pow2(16)).Cmp(rep) == 0:
		return "value-mod-2^16"
	case new(big.Int).Mod(o.val, pow2(8)).Cmp(rep) == 0:
		return "value-mod-2^8"
	case new(big.Int).Mod(o.val, pow2(64)).Cmp(rep) == 0 || new(big.Int).Mod(o.val, pow2(32)).Cmp(rep) == 0:
		return "value-mod-2^32/64"
	case new(big.Int).Abs(o.val).Cmp(rep) == 0:
		return "absolute-value"
	}
	return "other"
}

// formFamily is the part of an operand's form that goes into a violation key.
func formFamily(o operand) string {
	if o.data != nil {
		return "data-push"
	}
	return "opcode-" + o.form
}

type operandCase struct {
	fam    string
	m, n   operand
	keys   []*txgen.Key // in script order
	sorted bool
	raw    [][]byte // overrides keys when the script has too many keys to keep *txgen.Key lists apart
}

func operandCheck(c operandCase) {
	raw := c.raw
	if raw == nil {
		raw = rawKeys(c.keys)
	}
	K := len(raw)
	script := assembleOperands(c.m, raw, c.n)
	// The property does not fix the byte order of the key-count operand, and the tree reads it as a
	// big-endian unsigned number (the threshold as a VM integer): a data-push operand is the count K
	// if it is K under either reading.  An operand that is K under neither is an invalid key count.
	nval := c.n.val
	nIsK := nval.Cmp(big.NewInt(int64(K))) == 0
	if !nIsK && c.n.data != nil && new(big.Int).SetBytes(c.n.data).Cmp(big.NewInt(int64(K))) == 0 {
		nIsK = true
		nval = big.NewInt(int64(K))
		r.Count("operand_n_is_key_count_only_as_big_endian_unsigned")
	}
	valid := validParams(c.m.val, nval, K)
	wit := func() map[string]interface{} {
		w := map[string]interface{}{
			"family": c.fam, "keys_in_script": K,
			"m_operand": vf.Hex(c.m.enc), "m_form": c.m.form, "m_value_as_vm_integer": c.m.val.String(),
			"n_operand": vf.Hex(c.n.enc), "n_form": c.n.form, "n_value_as_vm_integer": c.n.val.String(),
			"valid_by_oracle": valid,
		}
		if len(script) <= 4096 {
			w["script"] = vf.Hex(script)
		} else {
			w["script_prefix"] = vf.Hex(script[:256])
			w["script_len"] = len(script)
			w["script_rule"] = "m_operand, then the pushes of script_prefix's key pattern repeated keys_in_script times (pool keys cycled), n_operand, ae"
		}
		return w
	}
	var info program.ProgramInfo
	var err error
	if p := vf.Catch(func() { info, err = program.GetProgramInfo(script) }); p != nil {
		r.Violation("panic:parser:operand-forms", fmt.Sprint(p), wit())
		return
	}
	fp := ""
	if K <= 16 {
		fp = fmt.Sprintf("op/%d/%x/%x/%s", K, c.m.enc, c.n.enc, vf.HexTrunc(raw0(raw), 6))
	} else {
		fp = fmt.Sprintf("op/%d/%x/%x", K, c.m.enc, c.n.enc)
	}
	r.Eval(fp)
	r.Count("operand_family_" + c.fam)
	r.Count("operand_m_form_" + c.m.form)
	r.Count("operand_n_form_" + c.n.form)
	r.Count("operand_m_class_" + c.m.cls)
	r.Count("operand_n_class_" + c.n.cls)

	// the other reader of verification scripts must agree
	checkGetSig := err == nil || len(script)%4 == 0
	if checkGetSig {
		var sig types.Sig
		var serr error
		if p := vf.Catch(func() { sig, serr = (&types.RawSig{Verify: script}).GetSig() }); p != nil {
			r.Violation("panic:getsig:operand-forms", fmt.Sprint(p), wit())
			return
		}
		r.Count("operand_getsig_compared")
		same := (serr == nil) == (err == nil)
		if same && err == nil {
			same = sig.M == info.M && len(sig.PubKeys) == len(info.PubKeys)
			for i := 0; same && i < len(sig.PubKeys); i++ {
				same = bytes.Equal(serial(sig.PubKeys[i]), serial(info.PubKeys[i]))
			}
		}
		if !same {
			w := wit()
			w["getsig_err"] = fmt.Sprint(serr)
			w["getprograminfo_err"] = fmt.Sprint(err)
			r.Violation("operand:getsig-disagrees-with-getprograminfo", "RawSig.GetSig and GetProgramInfo read the same verification script differently", w)
		}
	}

	if err != nil {
		switch {
		case !valid:
			r.Count("operand_invalid_rejected")
			if !validParams(c.m.val, big.NewInt(int64(K)), K) {
				r.Count("operand_invalid_m_rejected")
			}
			if !nIsK || K < 2 || K > constants.MULTI_SIG_MAX_PUBKEY_SIZE {
				r.Count("operand_invalid_n_rejected")
			}
		case c.m.canonical() && c.n.canonical():
			w := wit()
			w["error"] = err.Error()
			r.Violation("operand:canonical-valid-rejected", "valid m-of-n script in the encoder's own operand form is rejected", w)
		default:
			r.Count("operand_valid_alternative_form_rejected")
		}
		return
	}

	if !valid {
		var bad []string
		var how []string
		if !validParams(c.m.val, big.NewInt(int64(K)), K) && K >= 2 && K <= constants.MULTI_SIG_MAX_PUBKEY_SIZE {
			bad = append(bad, "m")
			how = append(how, "m-reported="+reading(c.m, int64(info.M))+":"+formFamily(c.m))
		}
		if !nIsK {
			bad = append(bad, "n")
			how = append(how, "n-reported="+reading(c.n, int64(len(info.PubKeys)))+":"+formFamily(c.n))
		}
		if len(bad) == 0 {
			bad = append(bad, "key-count")
			how = append(how, fmt.Sprintf("keys=%s", countClass(K)))
		}
		w := wit()
		w["reported_m"] = info.M
		w["reported_keys"] = len(info.PubKeys)
		r.Violation("operand:accepted-invalid:"+strings.Join(bad, "+")+":"+strings.Join(how, ":"),
			fmt.Sprintf("script whose threshold operand is %s and whose key-count operand is %s (as VM integers) over %d keys is accepted as %d-of-%d",
				c.m.val, c.n.val, K, info.M, len(info.PubKeys)), w)
		return
	}

	r.Count("operand_valid_accepted")
	if c.m.canonical() && c.n.canonical() {
		r.Count("operand_control_canonical_accepted")
	} else {
		r.Count("operand_valid_alternative_form_accepted")
		r.Count("operand_valid_alternative_form_accepted_m=" + c.m.form + "_n=" + c.n.form)
	}
	if big.NewInt(int64(info.M)).Cmp(c.m.val) != 0 {
		w := wit()
		w["reported_m"] = info.M
		r.Violation("operand:accepted-valid:threshold-misreported:"+formFamily(c.m), "accepted script reports a threshold different from the value of its operand", w)
	}
	if len(info.PubKeys) != K {
		w := wit()
		w["reported_keys"] = len(info.PubKeys)
		r.Violation("operand:accepted-valid:keycount-misreported:"+formFamily(c.n), "accepted script reports a different number of keys", w)
		return
	}
	if c.keys == nil {
		return
	}
	// exactly the keys of the script: as a multiset always, position by position when the
	// script lists them in sorted order
	left := map[string]int{}
	for _, k := range c.keys {
		left[string(k.PubBytes())]++
	}
	for i, pk := range info.PubKeys {
		s := serial(pk)
		if left[string(s)] == 0 {
			w := wit()
			w["position"] = i
			w["reported_key"] = vf.Hex(s)
			r.Violation("operand:accepted-valid:keys-misreported", "accepted script reports a key that is not in the script (or reports one twice)", w)
			return
		}
		left[string(s)]--
		if c.sorted && !samePub(pk, c.keys[i]) {
			w := wit()
			w["position"] = i
			r.Violation("operand:accepted-valid:keys-not-in-sorted-order", "script lists its keys sorted but the reported keys are in another order", w)
			return
		}
	}
	r.Count("operand_valid_accepted_keys_compared")
}

func raw0(raw [][]byte) []byte {
	if len(raw) == 0 {
		return nil
	}
	return raw[0][len(raw[0])-6:]
}

func countClass(K int) string {
	switch {
	case K < 2:
		return fmt.Sprint(K)
	case K <= constants.MULTI_SIG_MAX_PUBKEY_SIZE:
		return "2..16"
	case K <= 1024:
		return "17..1024"
	}
	return ">1024"
}

// ---------------------------------------------------------------- case lists

// operandKeys draws K distinct keys; the kinds that deserialize fastest are preferred and
// P-224 (8 ms per key) is left out: the key types are not what this family is about.
func operandKeys(rng *vf.RNG, K int) []*txgen.Key {
	seen := map[*txgen.Key]bool{}
	var out []*txgen.Key
	for len(out) < K {
		kind := txgen.Kind(1 + rng.Intn(int(txgen.NumKinds)-1))
		if rng.Chance(60) {
			kind = []txgen.Kind{txgen.Ed25519, txgen.ECDSAP256}[rng.Intn(2)]
		}
		k := txgen.PickKind(rng, kind)
		if !seen[k] {
			seen[k] = true
			out = append(out, k)
		}
	}
	return out
}

func scriptKeys(rng *vf.RNG, K int) (keys []*txgen.Key, sorted bool) {
	keys = operandKeys(rng, K)
	if rng.Chance(75) {
		return refSorted(keys), true
	}
	s := refSorted(keys)
	for i := range s {
		if s[i] != keys[i] {
			return keys, false
		}
	}
	return keys, true
}

type operandJob struct {
	fam  string
	K    int
	base int    // intended threshold (sweep-m) / unused
	sub  uint64 // rng stream
}

// operandFamily runs the sweeps; every job is a pure function of (seed, tier, job index).
func operandFamily(rng *vf.RNG, workers int) {
	var jobs []operandJob
	var ks []int
	if vf.Thorough() {
		for K := 2; K <= 16; K++ {
			ks = append(ks, K)
		}
	} else {
		ks = []int{2, 3, 16, 4 + rng.Intn(6), 10 + rng.Intn(6)}
	}
	for _, K := range ks {
		ms := map[int]bool{1: true, K: true, 1 + rng.Intn(K): true}
		if vf.Thorough() {
			for m := 1; m <= K; m++ {
				ms[m] = true
			}
		}
		for m := 1; m <= K; m++ {
			if ms[m] {
				jobs = append(jobs, operandJob{fam: "sweep-m", K: K, base: m})
			}
		}
		jobs = append(jobs, operandJob{fam: "sweep-n", K: K}, operandJob{fam: "sweep-n", K: K})
	}
	for i := 0; i < vf.N(40, 600); i++ {
		jobs = append(jobs, operandJob{fam: "pairs", K: 2 + i%15})
	}
	for _, K := range []int{0, 1, 17, 18 + rng.Intn(20), 255, 256, 257, 1024} {
		jobs = append(jobs, operandJob{fam: "key-count-out-of-range", K: K})
	}
	big := []int{1025, 65537}
	if vf.Thorough() {
		big = []int{1025, 1026 + rng.Intn(3000), 65535, 65536, 65537, 65538, 65536 + 2 + rng.Intn(15), 2*65536 + 3}
	}
	for _, K := range big {
		jobs = append(jobs, operandJob{fam: "more-than-1024-keys", K: K})
	}
	for i := range jobs {
		jobs[i].sub = uint64(i)
	}
	// the long scripts first, so that they do not end up as the serial tail of the parallel run
	sort.SliceStable(jobs, func(a, b int) bool { return jobs[a].K > 200 && jobs[b].K <= 200 })
	vf.Parallel(len(jobs), workers, func(i int) {
		j := jobs[i]
		sub := rng.Sub(j.sub)
		switch j.fam {
		case "sweep-m":
			// threshold operand in every form, key count in the encoder's form
			keys, sorted := scriptKeys(sub, j.K)
			n := opcodeOperand(j.K, "b")
			operandCheck(operandCase{fam: "control", m: opcodeOperand(j.base, "b"), n: n, keys: keys, sorted: sorted})
			for _, m := range operandsFor(sub, j.base, j.K) {
				operandCheck(operandCase{fam: j.fam, m: m, n: n, keys: keys, sorted: sorted})
			}
		case "sweep-n":
			// key-count operand in every form, threshold in the encoder's form
			keys, sorted := scriptKeys(sub, j.K)
			m := opcodeOperand(1+sub.Intn(j.K), "b")
			operandCheck(operandCase{fam: "control", m: m, n: opcodeOperand(j.K, "b"), keys: keys, sorted: sorted})
			for _, n := range operandsFor(sub, j.K, j.K) {
				operandCheck(operandCase{fam: j.fam, m: m, n: n, keys: keys, sorted: sorted})
			}
		case "pairs":
			// both operands in arbitrary forms; half of the draws keep one side honest in value
			keys, sorted := scriptKeys(sub, j.K)
			base := 1 + sub.Intn(j.K)
			msAll := operandsFor(sub, base, j.K)
			nsAll := operandsFor(sub, j.K, j.K)
			honest := func(all []operand, v int) (out []operand) {
				for _, o := range all {
					if o.val.IsInt64() && o.val.Int64() == int64(v) {
						out = append(out, o)
					}
				}
				return
			}
			msOK, nsOK := honest(msAll, base), honest(nsAll, j.K)
			for t := 0; t < 400; t++ {
				m, n := msAll[sub.Intn(len(msAll))], nsAll[sub.Intn(len(nsAll))]
				switch sub.Intn(4) {
				case 0:
					m = msOK[sub.Intn(len(msOK))]
				case 1:
					n = nsOK[sub.Intn(len(nsOK))]
				case 2:
					m, n = msOK[sub.Intn(len(msOK))], nsOK[sub.Intn(len(nsOK))]
				}
				operandCheck(operandCase{fam: j.fam, m: m, n: n, keys: keys, sorted: sorted})
			}
		default:
			bigKeyCount(sub, j.fam, j.K)
		}
	})
}

// bigKeyCount: K keys with K outside 2..16; the operands spell K itself, K reduced modulo
// 2^8 / 2^16 / 16, and small valid-looking numbers.  Every such script is invalid.
func bigKeyCount(rng *vf.RNG, fam string, K int) {
	var keys []*txgen.Key
	var raw [][]byte
	if K <= 200 {
		keys = refSorted(operandKeys(rng, K))
	} else {
		pool := append([]*txgen.Key{}, txgen.Pool(txgen.Ed25519)...) // deserializes without curve arithmetic
		if K <= 2000 {
			pool = append(pool, txgen.Pool(txgen.ECDSAP256)...)
		}
		raw = make([][]byte, K)
		off := rng.Intn(len(pool))
		for i := range raw {
			raw[i] = pool[(off+i)%len(pool)].PubBytes()
		}
	}
	var ms, ns []operand
	seenM, seenN := map[string]bool{}, map[string]bool{}
	num := func(v int, cls string, dst *[]operand, seen map[string]bool) {
		var os []operand
		if v >= 0 && v <= 16 {
			os = append(os, opcodeOperand(v, cls))
		}
		d := neoBytes(big.NewInt(int64(v)))
		if len(d) > 0 {
			os = append(os, dataOperand("PUSHBYTES", d, cls), dataOperand(dataForms[1+rng.Intn(3)], d, cls))
			if len(d) > 1 {
				os = append(os, dataOperand("PUSHBYTES", reversed(d), cls+"|reversed"))
			}
			os = append(os, dataOperand("PUSHBYTES", append(append([]byte{}, d...), 0), cls+"|padded"))
		}
		for _, o := range os {
			if !seen[string(o.enc)] {
				seen[string(o.enc)] = true
				*dst = append(*dst, o)
			}
		}
	}
	for _, v := range []int{K, K % 65536, K % 256, K % 16, 1, 2, 16} {
		num(v, "count-derived", &ms, seenM)
	}
	for _, v := range []int{K, K % 65536, K % 256, K % 16, 2, 16} {
		num(v, "count-derived", &ns, seenN)
	}
	type pair struct{ m, n operand }
	var pairs []pair
	for _, m := range ms {
		for _, n := range ns {
			pairs = append(pairs, pair{m, n})
		}
	}
	if K > 200 { // long scripts: K spelled out minimally on both sides, and a fixed number of other pairs
		limit := vf.N(24, 80)
		if K > 20000 {
			limit = vf.N(10, 16)
		}
		p := rng.Perm(len(pairs) - 1)
		sel := []pair{pairs[0]}
		for i := 0; i < len(p) && len(sel) < limit; i++ {
			sel = append(sel, pairs[1+p[i]])
		}
		pairs = sel
	}
	for _, p := range pairs {
		operandCheck(operandCase{fam: fam, m: p.m, n: p.n, keys: keys, sorted: true, raw: raw})
	}
}

// operandRequirements: a run that did not exercise every operand form, value class and
// verdict branch is inconclusive.
func operandRequirements() {
	forms := []string{"PUSH0", "PUSHM1", "PUSHn"}
	for l := 1; l <= maxOperandLen; l++ {
		forms = append(forms, fmt.Sprintf("PUSHBYTES%d", l))
	}
	for _, f := range dataForms[1:] {
		for l := 0; l <= maxOperandLen; l++ {
			forms = append(forms, fmt.Sprintf("%s/%d", f, l))
		}
	}
	for _, f := range forms {
		r.Require("operand_m_form_"+f, 5)
		r.Require("operand_n_form_"+f, 5)
	}
	classes := []string{"b", "fixed", "fixed-2^k", "b+65536*j", "negative", "negative-low-bytes-b", "b<<8s"}
	for s := 8; s <= 64; s += 8 {
		classes = append(classes, fmt.Sprintf("b+k*2^%d", s))
	}
	for _, c := range classes {
		suffixes := []string{"", "|padded", "|padded|reversed"}
		switch c {
		case "b+k*2^64": // already 9 bytes long
			suffixes = suffixes[:1]
		case "b<<8s": // its minimal spelling is the reversed padded spelling of b
			suffixes = suffixes[1:]
		}
		for _, suffix := range suffixes {
			r.Require("operand_m_class_"+c+suffix, 10)
			r.Require("operand_n_class_"+c+suffix, 10)
		}
	}
	for _, c := range []string{"negative", "negative-low-bytes-b"} {
		r.Require("operand_m_class_"+c+"|zero-extended", 10)
		r.Require("operand_n_class_"+c+"|zero-extended", 10)
	}
	for _, f := range []string{"control", "sweep-m", "sweep-n", "pairs", "key-count-out-of-range", "more-than-1024-keys"} {
		r.Require("operand_family_"+f, 10)
	}
	r.Require("operand_control_canonical_accepted", 10)
	r.Require("operand_invalid_rejected", 5000)
	r.Require("operand_invalid_m_rejected", 2000)
	r.Require("operand_invalid_n_rejected", 2000)
	r.Require("operand_valid_accepted", 10)
	r.Require("operand_valid_accepted_keys_compared", 10)
	r.Require("operand_getsig_compared", 1000)
}

func serial(pk keypair.PublicKey) []byte {
	var out []byte
	vf.Catch(func() { out = keypair.SerializePublicKey(pk) })
	return out
}
