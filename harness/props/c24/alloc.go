package main

// Allocation-volume oracle ("never allocates beyond ..."), one child batch per message type.
//
// For every message type a set of WELL-FORMED base payloads is built with the real
// serializers: lists with n identical elements, one blob of n bytes, or a fixed-size body
// followed by ignored trailing bytes, scaled so that the payload has 48 KiB … several MiB
// (thorough: up to MAX_PAYLOAD_LEN).  Every count in a base is truthful.  The bytes
// ReadMessage allocates while decoding the base are measured in this process
// (runtime.MemStats: TotalAlloc, and the part of it in objects above the largest reported
// size class) — that is the calibration, taken from the tree under test itself.
//
// Hostile cases overwrite one position of the base — every position of its head, the
// positions of the fields that size it (found by comparing the serialization of n and n+1
// elements), and its tail — as u16/u32/u64/var-uint with values near the payload length L
// (L, remaining bytes, L/2 … L/128) and the classic 2^31, 2^32-1, 2^63, 2^64-1: the field
// then claims (far) more elements or bytes than the payload holds.  Such a frame has a valid
// magic, length and checksum.  Oracle: no panic, and
//
//	allocated(hostile) <= 4 * max(allocated(base it was derived from),
//	                              L * densest well-formed payload of that type, per byte) + c0
//	allocated(hostile) <= 16 * MAX_PAYLOAD_LEN
//
// for the total and for the large-object bytes, where c0 = 64 KiB + 4 * (bytes allocated
// by decoding one public key, measured in this run).  An excess is re-measured twice and the
// minimum of the three measurements decides.

import (
	"bytes"
	"crypto/sha256"
	"encoding/binary"
	"fmt"
	"runtime"
	"runtime/debug"
	"sort"

	"github.com/ontio/ontology-crypto/keypair"
	"github.com/ontio/ontology/common"
	"github.com/ontio/ontology/common/config"
	vconfig "github.com/ontio/ontology/consensus/vbft/config"
	"github.com/ontio/ontology/core/payload"
	ctypes "github.com/ontio/ontology/core/types"
	pc "github.com/ontio/ontology/p2pserver/common"
	mt "github.com/ontio/ontology/p2pserver/message/types"
	"verifharness/lib/vf"
)

// ---------------------------------------------------------------- measurement

type ameas struct{ total, large uint64 }

func smallBytes(m *runtime.MemStats) uint64 {
	var s uint64
	for i := range m.BySize {
		s += m.BySize[i].Mallocs * uint64(m.BySize[i].Size)
	}
	return s
}

// measure returns the bytes allocated by f.  ReadMemStats stops the world and flushes the
// per-P allocation caches, so the figures are exact; the child runs with GOMAXPROCS=1 and
// one goroutine.
func measure(f func()) ameas {
	var a, b runtime.MemStats
	runtime.ReadMemStats(&a)
	f()
	runtime.ReadMemStats(&b)
	t := b.TotalAlloc - a.TotalAlloc
	s := smallBytes(&b) - smallBytes(&a)
	if s > t {
		s = t
	}
	return ameas{total: t, large: t - s}
}

const (
	allocHeadroom  = 4
	allocCeilingK  = 16
	allocC0        = 64 << 10
	allocFullBytes = 64 << 10 // payloads up to this size are logged / reported in full
)

// ---------------------------------------------------------------- base shapes

// ashape builds a well-formed message whose payload length grows linearly with n.
type ashape struct {
	name  string
	build func(g *gen, n int) mt.Message
	maxL  int  // largest payload this shape is scaled to (0 = MAX_PAYLOAD_LEN)
	pad   bool // fixed-size body followed by ignored trailing bytes (n is ignored)
}

// filler is a deterministic pseudo-random byte string without zero bytes (a zero-filled
// region would parse as a dense list of empty elements).
func filler(seed uint64, n int) []byte {
	b := make([]byte, n)
	x := seed*0x9e3779b97f4a7c15 + 0x632be59bd9b4e019
	for i := 0; i < n; i += 8 {
		x ^= x << 13
		x ^= x >> 7
		x ^= x << 17
		for j := 0; j < 8 && i+j < n; j++ {
			v := byte(x >> (8 * uint(j)))
			if v == 0 {
				v = 0x5a
			}
			b[i+j] = v
		}
	}
	return b
}

func fillerStr(seed uint64, n int) string {
	b := filler(seed, n)
	const al = "abcdefghijklmnopqrstuvwxyz0123456789.:-_/"
	for i := range b {
		b[i] = al[int(b[i])%len(al)]
	}
	return string(b)
}

func lightTx(g *gen, nonce uint32, code []byte) *ctypes.Transaction {
	m := &ctypes.MutableTransaction{Nonce: nonce, GasPrice: 500, GasLimit: 20000, Payer: g.addr(),
		TxType: ctypes.InvokeNeo, Payload: &payload.InvokeCode{Code: code}}
	tx, err := m.IntoImmutable()
	if err != nil {
		panic(err)
	}
	return tx
}

func padShape() ashape {
	return ashape{name: "pad", pad: true}
}

func shapesOf(cmd string) []ashape {
	switch cmd {
	case pc.VERSION_TYPE:
		return []ashape{{name: "blob", build: func(g *gen, n int) mt.Message {
			v := genVersion(g, 1).(*mt.Version)
			v.P.SoftVersion = fillerStr(1, n)
			return v
		}}}
	case pc.ADDR_TYPE:
		return []ashape{{name: "list", build: func(g *gen, n int) mt.Message {
			a := genAddr(g, 1).(*mt.Addr)
			e := a.NodeAddrs[0]
			a.NodeAddrs = make([]pc.PeerAddr, n)
			for i := range a.NodeAddrs {
				a.NodeAddrs[i] = e
			}
			return a
		}}}
	case pc.INV_TYPE:
		return []ashape{{name: "list", build: func(g *gen, n int) mt.Message {
			v := genInv(g, 1).(*mt.Inv)
			h := v.P.Blk[0]
			v.P.Blk = make([]common.Uint256, n)
			for i := range v.P.Blk {
				v.P.Blk[i] = h
			}
			return v
		}}}
	case pc.HEADERS_TYPE:
		return []ashape{
			{name: "list", maxL: 4 << 20, build: func(g *gen, n int) mt.Message {
				h := g.header(0)
				m := &mt.BlkHeader{BlkHdr: make([]*ctypes.Header, n)}
				for i := range m.BlkHdr {
					m.BlkHdr[i] = h
				}
				return m
			}},
			{name: "blob", build: func(g *gen, n int) mt.Message {
				h := g.header(1)
				h.ConsensusPayload = filler(2, n)
				return &mt.BlkHeader{BlkHdr: []*ctypes.Header{h}}
			}},
			{name: "sigs", maxL: 1 << 20, build: func(g *gen, n int) mt.Message {
				h := g.header(0)
				h.SigData = make([][]byte, n)
				for i := range h.SigData {
					h.SigData[i] = []byte{7}
				}
				return &mt.BlkHeader{BlkHdr: []*ctypes.Header{h}}
			}},
		}
	case pc.BLOCK_TYPE:
		mk := func(g *gen, txs []*ctypes.Transaction, cc *ctypes.CrossChainMsg) mt.Message {
			b := &ctypes.Block{Header: g.header(1), Transactions: txs}
			b.RebuildMerkleRoot()
			return &mt.Block{Blk: b, MerkleRoot: g.hash(), CCMsg: cc}
		}
		return []ashape{
			{name: "list", maxL: 1 << 20, build: func(g *gen, n int) mt.Message {
				txs := make([]*ctypes.Transaction, n)
				for i := range txs {
					txs[i] = lightTx(g, uint32(i), nil)
				}
				return mk(g, txs, nil)
			}},
			{name: "blob", maxL: 1 << 20, build: func(g *gen, n int) mt.Message {
				return mk(g, []*ctypes.Transaction{lightTx(g, 1, filler(3, n))}, nil)
			}},
			{name: "hsigs", maxL: 1 << 20, build: func(g *gen, n int) mt.Message {
				b := &ctypes.Block{Header: g.header(0), Transactions: []*ctypes.Transaction{lightTx(g, 1, []byte{0x51})}}
				b.Header.SigData = make([][]byte, n)
				for i := range b.Header.SigData {
					b.Header.SigData[i] = []byte{7}
				}
				b.RebuildMerkleRoot()
				return &mt.Block{Blk: b, MerkleRoot: g.hash()}
			}},
			{name: "ccsigs", maxL: 1 << 20, build: func(g *gen, n int) mt.Message {
				cc := &ctypes.CrossChainMsg{Version: 1, Height: 9, StatesRoot: g.hash(), SigData: make([][]byte, n)}
				for i := range cc.SigData {
					cc.SigData[i] = []byte{7}
				}
				return mk(g, []*ctypes.Transaction{lightTx(g, 1, []byte{0x51})}, cc)
			}},
		}
	case pc.TX_TYPE:
		return []ashape{{name: "blob", maxL: 1 << 20, build: func(g *gen, n int) mt.Message {
			return &mt.Trn{Txn: lightTx(g, 1, filler(4, n))}
		}}}
	case pc.CONSENSUS_TYPE:
		return []ashape{
			{name: "blob", build: func(g *gen, n int) mt.Message {
				m := genConsensus(g, 1).(*mt.Consensus)
				m.Cons.Data = filler(5, n)
				return m
			}},
			{name: "sig", build: func(g *gen, n int) mt.Message {
				m := genConsensus(g, 1).(*mt.Consensus)
				m.Cons.Signature = filler(6, n)
				return m
			}},
		}
	case pc.FINDNODE_RESP_TYPE:
		list := func(addrLen int) func(g *gen, n int) mt.Message {
			return func(g *gen, n int) mt.Message {
				m := &mt.FindNodeResp{TargetID: g.peerID(), Success: true, Address: "10.0.0.1:20338"}
				e := pc.PeerIDAddressPair{ID: g.peerID(), Address: fillerStr(7, addrLen)}
				m.CloserPeers = make([]pc.PeerIDAddressPair, n)
				for i := range m.CloserPeers {
					m.CloserPeers[i] = e
				}
				return m
			}
		}
		return []ashape{
			{name: "list", build: list(21)},
			{name: "dense", maxL: 1 << 20, build: list(0)},
			{name: "blob", build: func(g *gen, n int) mt.Message {
				return &mt.FindNodeResp{TargetID: g.peerID(), Success: true, Address: fillerStr(8, n)}
			}},
		}
	case pc.SUBNET_MEMBERS_TYPE:
		list := func(l int) func(g *gen, n int) mt.Message {
			return func(g *gen, n int) mt.Message {
				e := mt.MemberInfo{PubKey: fillerStr(9, l*3), Addr: fillerStr(10, l)}
				m := &mt.SubnetMembers{Members: make([]mt.MemberInfo, n)}
				for i := range m.Members {
					m.Members[i] = e
				}
				return m
			}
		}
		return []ashape{{name: "list", build: list(22)}, {name: "dense", maxL: 1 << 20, build: list(0)}}
	case pc.SUBNET_OFFLINE_TYPE:
		return []ashape{padShape(), {name: "keys", maxL: 1 << 16, build: func(g *gen, n int) mt.Message {
			// at most 255 node keys are legal: the strings grow instead
			m := genOffline(g, 1).(*mt.OfflineWitnessMsg)
			m.NodePubKeys = append(m.NodePubKeys, fillerStr(11, n))
			m.Proposer = vconfig.PubkeyID(accounts[0].PublicKey)
			m.Voters = nil
			if err := m.AddProposeSig(accounts[0]); err != nil {
				panic(err)
			}
			return m
		}}}
	}
	return []ashape{padShape()}
}

// abase is one calibrated well-formed payload.
type abase struct {
	shape   string
	n       int
	payload []byte
	valid   int   // pad shape: length of the body in front of the trailing bytes
	hot     []int // offsets of the fields that size the payload
	per     int   // payload bytes per element (list shapes) / per blob byte (1)
	m       ameas // what decoding it allocates (maximum of the calibration runs)
}

// buildBase scales a shape to a payload of about L bytes.
func buildBase(sp *spec, sh ashape, L int, seed *vf.RNG) (b abase, ok bool) {
	defer func() {
		// a serializer-side limit (e.g. IntoImmutable refuses transactions above 1 MiB): no base of this size
		if e := recover(); e != nil {
			ok = false
		}
	}()
	mk := func(n int) []byte {
		g := &gen{rng: seed.Sub(77)} // the same stream for every n: common elements are identical
		if sh.pad {
			return payloadOf(sp.gen(g, 1))
		}
		return payloadOf(sh.build(g, n))
	}
	b.shape = sh.name
	if sh.pad {
		p := mk(0)
		b.valid = len(p)
		if L > len(p) {
			p = append(p, filler(uint64(L), L-len(p))...)
		}
		b.payload = p
		return b, true
	}
	p1, p2 := mk(1), mk(2)
	per := len(p2) - len(p1)
	if per <= 0 {
		return b, false
	}
	n := (L - len(p1)) / per
	if n < 3 {
		n = 3
	}
	// keep clear of the var-uint width boundaries so that n and n+1 encode alike
	for _, edge := range []int{0xfc, 0xfd, 0xffff, 0x10000} {
		if n == edge || n+1 == edge {
			n += 2
		}
	}
	b.n, b.per = n, per
	b.payload = mk(n)
	next := mk(n + 1)
	d := firstDiffOff(b.payload, next)
	if d >= 0 && d < len(b.payload) {
		b.hot = append(b.hot, d)
		if d > 0 && b.payload[d-1] >= 0xfd {
			b.hot = append(b.hot, d-1) // a var-uint prefix in front of the first differing byte
		}
	}
	b.valid = len(b.payload)
	return b, true
}

// ---------------------------------------------------------------- values / offsets

type amut struct {
	off   int
	width string // u16 | u32 | u64 | var
	val   uint64
}

func (m amut) apply(p []byte) []byte {
	switch m.width {
	case "u16":
		q := append([]byte(nil), p...)
		binary.LittleEndian.PutUint16(q[m.off:], uint16(m.val))
		return q
	case "u32":
		q := append([]byte(nil), p...)
		binary.LittleEndian.PutUint32(q[m.off:], uint32(m.val))
		return q
	case "u64":
		q := append([]byte(nil), p...)
		binary.LittleEndian.PutUint64(q[m.off:], m.val)
		return q
	}
	w := varWidth(p[m.off])
	enc := varuint(m.val)
	q := make([]byte, 0, len(p)+9)
	q = append(q, p[:m.off]...)
	q = append(q, enc...)
	return append(q, p[m.off+w:]...)
}

// claims lists the values written into a field at offset o of a payload of length L.
func claims(L, o int, full bool) []uint64 {
	rem := uint64(L - o)
	l := uint64(L)
	vs := []uint64{l, rem, rem - 1, rem - 8, l / 2, l / 4, l / 8, l / 16, l / 32, l / 64, 1 << 31, 1<<32 - 1, 1 << 63}
	if full {
		vs = append(vs, rem-4, l/3, l/44, l/128, 1<<31-1, 1<<32, 1<<40, 1<<63-1, ^uint64(0))
	}
	seen := map[uint64]bool{}
	out := vs[:0]
	for _, v := range vs {
		if !seen[v] {
			seen[v] = true
			out = append(out, v)
		}
	}
	return out
}

// allocMutants lists the hostile overwrites of a base: those of the fields that size it
// (always run) and those of the other positions (sampled down to the byte budget).
func (c *child) allocMutants(b *abase, full bool, rng *vf.RNG) (hotMs, ms []amut) {
	L := len(b.payload)
	offs := map[int]bool{}
	head := 112
	if full {
		head = 240
	}
	lim := b.valid
	for o := 0; o < lim && o < head; o++ {
		offs[o] = true
	}
	for o := lim - 24; o < lim; o++ {
		if o >= 0 {
			offs[o] = true
		}
	}
	for k := 0; k < 12 && lim > head; k++ {
		offs[head+rng.Intn(lim-head)] = true
	}
	if L > 256<<10 {
		// large payloads: only the fields that size them, and the very first bytes
		offs = map[int]bool{}
		first := vf.N(1, 6)
		if L > 8<<20 {
			first = 1
		}
		for o := 0; o < first && o < lim; o++ {
			offs[o] = true
		}
	}
	for _, o := range b.hot {
		offs[o] = true
	}
	var os []int
	for o := range offs {
		os = append(os, o)
	}
	sort.Ints(os)
	for _, o := range os {
		hot := false
		for _, h := range b.hot {
			hot = hot || h == o
		}
		var l []amut
		vs := claims(L, o, full || (hot && L <= vf.N(256<<10, 4<<20)))
		if hot && b.per > 0 {
			// around what the payload can really hold
			for _, v := range []uint64{uint64(b.n + 1), uint64(2 * b.n), uint64(L/b.per + 1), uint64(8 * b.n)} {
				dup := false
				for _, w := range vs {
					dup = dup || w == v
				}
				if !dup {
					vs = append(vs, v)
				}
			}
		}
		for _, v := range vs {
			if o+2 <= L && v <= 0xffff && v > 64 && L <= 64<<10 {
				l = append(l, amut{o, "u16", v})
			}
			if o+4 <= L && v <= 0xffffffff {
				l = append(l, amut{o, "u32", v})
			}
			if o+8 <= L {
				l = append(l, amut{o, "u64", v})
			}
			if o+varWidth(b.payload[o]) <= L {
				l = append(l, amut{o, "var", v})
			}
		}
		if hot {
			hotMs = append(hotMs, l...)
		} else {
			ms = append(ms, l...)
		}
	}
	return
}

// ---------------------------------------------------------------- the batch

type calibRow struct {
	Cmd     string  `json:"cmd"`
	Shape   string  `json:"shape"`
	N       int     `json:"n"`
	L       int     `json:"payload_len"`
	Total   uint64  `json:"allocated"`
	Large   uint64  `json:"allocated_large"`
	Ratio   float64 `json:"allocated_per_byte"`
	Dens    float64 `json:"densest_wellformed_of_type_per_byte"`
	Mutants int     `json:"hostile_cases"`
	MaxHost uint64  `json:"max_hostile_allocated"`
}

func allocLadder() []int {
	if vf.Thorough() {
		return []int{2 << 10, 48 << 10, 256 << 10, 1 << 20, 3<<20 + 12345, 8 << 20, pc.MAX_PAYLOAD_LEN}
	}
	return []int{48 << 10, 1 << 20, 3<<20 + 12345}
}

func (c *child) decodeOnce(fr []byte) (msg mt.Message, err error, p interface{}) {
	p = vf.Catch(func() { msg, _, err = mt.ReadMessage(bytes.NewReader(fr)) })
	return
}

func (c *child) allocBatch(rng *vf.RNG) {
	// The collector stays on (a cumulative allocation counter does not care, and a heap that
	// is recycled stays in the cache); it never runs concurrently with a measured call in a
	// way that matters: its own bookkeeping is not heap allocation.
	debug.SetGCPercent(100)
	sp := specOf(c.batch.Cmd)
	magic := config.DefConfig.P2PNode.NetworkMagic
	// warm-up: lazily initialised tables (curves, hash pools) are not part of any decode
	for k := 0; k < 3; k++ {
		g := &gen{rng: rng.Sub(uint64(900 + k))}
		c.decodeOnce(frame(magic, sp.cmd, payloadOf(sp.gen(g, 1+k%2))))
	}
	raw := keypair.SerializePublicKey(accounts[1].PublicKey)
	keypair.DeserializePublicKey(raw)
	keyCost := measure(func() { keypair.DeserializePublicKey(raw) }).total
	c0 := uint64(allocC0) + 4*keyCost
	ceiling := uint64(allocCeilingK) * pc.MAX_PAYLOAD_LEN

	// -- pass 1: the densest well-formed payloads of this type.  A hostile count can make a
	// decoder read the rest of a payload as another (denser) list of the same type — e.g. the
	// signature list of a block's cross-chain message read as the signature list of its
	// header — so the reference is the maximum over all well-formed shapes, per payload byte.
	var densT, densL float64
	for si, sh := range shapesOf(sp.cmd) {
		for _, L := range []int{48 << 10, 512 << 10} {
			if sh.maxL > 0 && L > sh.maxL {
				continue
			}
			b, ok := buildBase(sp, sh, L, rng.Sub(uint64(5000+si)))
			if !ok || len(b.payload) > pc.MAX_PAYLOAD_LEN {
				continue
			}
			fr := frame(magic, sp.cmd, b.payload)
			if !c.beginAlloc(fmt.Sprintf("alloc-density:%s/n=%d/L=%d", sh.name, b.n, len(b.payload)), sp.cmd, b.payload) {
				continue
			}
			var err error
			var p interface{}
			m := measure(func() { _, err, p = c.decodeOnce(fr) })
			if p != nil || err != nil {
				continue // reported by pass 2
			}
			c.count("alloc_density_probe")
			if r := float64(m.total) / float64(len(b.payload)); r > densT {
				densT = r
			}
			if r := float64(m.large) / float64(len(b.payload)); r > densL {
				densL = r
			}
		}
	}

	for si, sh := range shapesOf(sp.cmd) {
		for li, L := range allocLadder() {
			if L > pc.MAX_PAYLOAD_LEN {
				L = pc.MAX_PAYLOAD_LEN
			}
			if sh.maxL > 0 && L > sh.maxL {
				continue
			}
			if sh.pad && L > 48<<10 && L < pc.MAX_PAYLOAD_LEN && !(vf.Thorough() && L == 1<<20) {
				continue // trailing bytes are never looked at: two or three sizes say it all
			}
			if c.batch.Round > 0 {
				L += 1 + rng.Sub(uint64(si*16+li)).Intn(L/8)
				if L > pc.MAX_PAYLOAD_LEN {
					L = pc.MAX_PAYLOAD_LEN - rng.Intn(4096)
				}
			}
			b, ok := buildBase(sp, sh, L, rng.Sub(uint64(c.batch.Round)))
			if !ok {
				c.count("alloc_base_unbuildable")
				continue
			}
			if len(b.payload) > pc.MAX_PAYLOAD_LEN {
				b.payload = nil
				continue
			}
			L = len(b.payload)
			label := fmt.Sprintf("%s/n=%d/L=%d", sh.name, b.n, L)
			// -- calibration on the well-formed base
			fr := frame(magic, sp.cmd, b.payload)
			if !c.beginAlloc("alloc-base:"+label, sp.cmd, b.payload) {
				continue
			}
			var accepted bool
			for k := 0; k < 2; k++ {
				var err error
				var p interface{}
				m := measure(func() { _, err, p = c.decodeOnce(fr) })
				if p != nil {
					c.violation("panic:"+sp.cmd+":"+panicClass(p), fmt.Sprintf("ReadMessage panicked on a well-formed %s payload (%s): %v", sp.cmd, label, p), map[string]interface{}{"panic": fmt.Sprint(p)})
					break
				}
				accepted = err == nil
				if !accepted {
					break
				}
				if m.total > b.m.total {
					b.m.total = m.total
				}
				if m.large > b.m.large {
					b.m.large = m.large
				}
			}
			if !accepted {
				// the serializer produces what the decoder refuses at this size (e.g. the 1 MiB
				// transaction limit): no calibration, no hostile cases from this base
				c.count("alloc_base_rejected:" + sp.cmd)
				continue
			}
			c.count("alloc_base:" + sp.cmd)
			c.count("alloc_base_shape:" + sh.name)
			c.count(sizeClass("alloc_base_size:", L))
			row := calibRow{Cmd: sp.cmd, Shape: sh.name, N: b.n, L: L, Total: b.m.total, Large: b.m.large, Ratio: float64(b.m.total) / float64(L), Dens: densT}
			refT, refL := b.m.total, b.m.large
			if d := uint64(densT * float64(L)); d > refT {
				refT = d
			}
			if d := uint64(densL * float64(L)); d > refL {
				refL = d
			}
			limT, limL := allocHeadroom*refT+c0, allocHeadroom*refL+c0
			// -- hostile claims
			// every case costs about what the base costs (the decoder walks the elements that are
			// present before it finds out): the positions that do not size the base are sampled
			// down to a byte budget
			mrng := rng.Sub(uint64(1000 + si*16 + li))
			muts, rest := c.allocMutants(&b, L <= 64<<10 && (vf.Thorough() || sh.pad), mrng)
			budget := uint64(vf.N(64<<20, 2<<30))
			if keep := int(budget / (b.m.total + 3*uint64(L))); len(rest) > keep {
				if keep < 24 {
					keep = 24
				}
				for _, k := range mrng.Perm(len(rest))[:min(keep, len(rest))] {
					muts = append(muts, rest[k])
				}
				c.count("alloc_positions_sampled")
			} else {
				muts = append(muts, rest...)
			}
			for _, mu := range muts {
				q := mu.apply(b.payload)
				tag := fmt.Sprintf("alloc:%s@%d:%s=%d", label, mu.off, mu.width, mu.val)
				if !c.beginAlloc(tag, sp.cmd, q) {
					continue
				}
				fq := frame(magic, sp.cmd, q)
				var err error
				var p interface{}
				m := measure(func() { _, err, p = c.decodeOnce(fq) })
				c.count("hostile:" + sp.cmd)
				c.count("alloc_case:" + sp.cmd)
				c.count("alloc_width:" + mu.width)
				c.count(sizeClass("alloc_case_size:", L))
				switch {
				case mu.val >= 1<<31:
					c.count("alloc_claim:huge")
				case mu.val >= uint64(L)/2:
					c.count("alloc_claim:near-length")
				default:
					c.count("alloc_claim:fraction-of-length")
				}
				row.Mutants++
				if p != nil {
					c.count("panic_caught")
					c.violation("panic:"+sp.cmd+":"+panicClass(p), fmt.Sprintf("ReadMessage panicked on a %s payload with a valid header: %v", sp.cmd, p), map[string]interface{}{"panic": fmt.Sprint(p), "mutation": mu.String()})
					continue
				}
				if err != nil {
					c.count("alloc_rejected")
				} else {
					c.count("alloc_accepted")
				}
				over := func(m ameas) string {
					switch {
					case m.total > limT:
						return "total"
					case m.large > limL:
						return "large"
					case m.total > ceiling:
						return "ceiling"
					}
					return ""
				}
				if over(m) != "" {
					// repeat: the minimum of three measurements decides
					for k := 0; k < 2 && over(m) != ""; k++ {
						runtime.GC()
						m2 := measure(func() { c.decodeOnce(fq) })
						if m2.total < m.total {
							m.total = m2.total
						}
						if m2.large < m.large {
							m.large = m2.large
						}
					}
					runtime.GC()
					if cl := over(m); cl != "" {
						c.count("alloc_excess")
						c.violation("alloc:volume:"+cl+":"+sp.cmd,
							fmt.Sprintf("decoding a %d-byte %s payload whose field at offset %d claims %d allocated %d bytes (%d in large objects); the well-formed %s payload of the same length allocates %d (%d), the densest well-formed %s payloads %.1f (%.1f) per byte; allowance %d×max(those)+%d = %d (%d), ceiling %d",
								len(q), sp.cmd, mu.off, mu.val, m.total, m.large, sh.name, b.m.total, b.m.large, sp.cmd, densT, densL, allocHeadroom, c0, limT, limL, ceiling),
							map[string]interface{}{"allocated": m.total, "allocated_large": m.large, "base_allocated": b.m.total, "base_allocated_large": b.m.large,
								"allowance_total": limT, "allowance_large": limL, "densest_wellformed_per_byte": densT, "densest_wellformed_large_per_byte": densL, "ceiling": ceiling, "mutation": mu.String(), "base": label, "rejected": err != nil,
								"payload_sha256": fmt.Sprintf("%x", sha256.Sum256(q)), "payload_tail_hex": vf.Hex(q[len(q)-min(len(q), 128):])})
						if m.total > 256<<20 {
							c.costly()
						}
					} else {
						c.count("alloc_excess_not_confirmed")
					}
				}
				if m.total > row.MaxHost {
					row.MaxHost = m.total
				}
			}
			c.calib(row)
			b.payload = nil
			runtime.GC()
		}
	}
}

func (m amut) String() string { return fmt.Sprintf("offset %d, %s := %d", m.off, m.width, m.val) }

func sizeClass(prefix string, L int) string {
	switch {
	case L >= pc.MAX_PAYLOAD_LEN-8192:
		return prefix + "max"
	case L >= 2<<20:
		return prefix + "MiBs"
	case L >= 256<<10:
		return prefix + "256KiB-2MiB"
	}
	return prefix + "under-256KiB"
}

func min(a, b int) int {
	if a < b {
		return a
	}
	return b
}

// beginAlloc logs the case (in full up to 64 KiB, otherwise its head: the tag names the
// base recipe and the mutation) and does the per-case bookkeeping of child.run.
func (c *child) beginAlloc(tag, cmd string, p []byte) bool {
	i := c.idx
	c.idx++
	if i < c.start {
		return false
	}
	if len(tag) > 250 {
		tag = tag[:250]
	}
	hc := hcase{kind: 'A', tag: tag, cmd: cmd, data: p, declLen: uint64(len(p))}
	if len(p) > allocFullBytes {
		hc.data = p[:4096]
	}
	c.cur = &hc
	c.log.Begin(i, hc.record())
	var b [8]byte
	h := fnvSum([]byte(tag + "\x00" + cmd)) // the tag names the base recipe and the mutation
	hv := binary.LittleEndian.Uint64(h)
	if _, dup := c.seen[hv]; !dup {
		c.seen[hv] = struct{}{}
		binary.LittleEndian.PutUint64(b[:], hv)
		c.fp.Write(b[:])
	} else {
		c.count("duplicate_case")
	}
	c.evals++
	if c.evals%2000 == 0 {
		c.flush(false)
	}
	return true
}
