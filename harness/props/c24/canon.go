package main

import (
	"fmt"
	"reflect"
	"sort"
	"strings"

	ethtypes "github.com/ethereum/go-ethereum/core/types"
	"github.com/ontio/ontology-crypto/keypair"
	"github.com/ontio/ontology/common"
	ctypes "github.com/ontio/ontology/core/types"
)

// canon renders a message value as a canonical multi-line text in which two values are
// equal iff they are "deep-equal" in the sense the property needs:
//   - every field (exported or not) of every struct is walked, so a field added to a
//     message later is compared automatically;
//   - nil and empty slices are the same (a decoder may return either);
//   - public keys are compared by their canonical serialization (the concrete structs hold
//     big.Int internals whose representation is not unique);
//   - a *types.Transaction is compared by its scalar fields, its raw bytes and its hashes
//     (its payload may hold an Ethereum transaction with a first-seen wall-clock time);
//   - pure caches (a `hash *Uint256` field filled lazily by Hash()) are skipped.
//
// It only reads the values (reflect without Interface() on unexported fields).
func canon(v interface{}) string {
	var sb strings.Builder
	walk(&sb, reflect.ValueOf(v), "", 0)
	return sb.String()
}

var (
	tPubKey  = reflect.TypeOf((*keypair.PublicKey)(nil)).Elem()
	tTxPtr   = reflect.TypeOf((*ctypes.Transaction)(nil))
	tEthTx   = reflect.TypeOf((*ethtypes.Transaction)(nil))
	tHashPtr = reflect.TypeOf((*common.Uint256)(nil))
)

func walk(sb *strings.Builder, v reflect.Value, path string, depth int) {
	if depth > 40 {
		fmt.Fprintf(sb, "%s: <too deep>\n", path)
		return
	}
	if !v.IsValid() {
		fmt.Fprintf(sb, "%s: nil\n", path)
		return
	}
	t := v.Type()
	if t == tTxPtr {
		if v.IsNil() {
			fmt.Fprintf(sb, "%s: nil-tx\n", path)
			return
		}
		e := v.Elem()
		fmt.Fprintf(sb, "%s: tx{v=%d type=%d nonce=%d price=%d limit=%d payer=%x sigs=%d raw=%x hash=%x hashU=%x}\n", path,
			e.FieldByName("Version").Uint(), e.FieldByName("TxType").Uint(), e.FieldByName("Nonce").Uint(),
			e.FieldByName("GasPrice").Uint(), e.FieldByName("GasLimit").Uint(), arrBytes(e.FieldByName("Payer")),
			e.FieldByName("Sigs").Len(), e.FieldByName("Raw").Bytes(), arrBytes(e.FieldByName("hash")), arrBytes(e.FieldByName("hashUnsigned")))
		walk(sb, e.FieldByName("Sigs"), path+".Sigs", depth+1)
		pl := e.FieldByName("Payload")
		if !pl.IsNil() && pl.Elem().Type().String() != "*payload.EIP155Code" {
			walk(sb, pl, path+".Payload", depth+1)
		}
		return
	}
	if t == tEthTx {
		fmt.Fprintf(sb, "%s: <ethtx>\n", path)
		return
	}
	switch v.Kind() {
	case reflect.Interface:
		if v.IsNil() {
			fmt.Fprintf(sb, "%s: nil\n", path)
			return
		}
		if t == tPubKey {
			if v.CanInterface() {
				pk := v.Interface().(keypair.PublicKey)
				fmt.Fprintf(sb, "%s: pubkey %x\n", path, keypair.SerializePublicKey(pk))
				return
			}
		}
		walk(sb, v.Elem(), path+"("+v.Elem().Type().String()+")", depth+1)
	case reflect.Ptr:
		if v.IsNil() {
			fmt.Fprintf(sb, "%s: nil\n", path)
			return
		}
		walk(sb, v.Elem(), path, depth+1)
	case reflect.Struct:
		for i := 0; i < v.NumField(); i++ {
			f := t.Field(i)
			if f.Name == "hash" && f.Type == tHashPtr {
				continue // lazily filled cache
			}
			walk(sb, v.Field(i), path+"."+f.Name, depth+1)
		}
		if v.NumField() == 0 {
			fmt.Fprintf(sb, "%s: {}\n", path)
		}
	case reflect.Slice:
		if t.Elem().Kind() == reflect.Uint8 {
			fmt.Fprintf(sb, "%s: bytes %x\n", path, v.Bytes())
			return
		}
		fmt.Fprintf(sb, "%s: len %d\n", path, v.Len())
		for i := 0; i < v.Len(); i++ {
			walk(sb, v.Index(i), fmt.Sprintf("%s[%d]", path, i), depth+1)
		}
	case reflect.Array:
		if t.Elem().Kind() == reflect.Uint8 {
			fmt.Fprintf(sb, "%s: %x\n", path, arrBytes(v))
			return
		}
		for i := 0; i < v.Len(); i++ {
			walk(sb, v.Index(i), fmt.Sprintf("%s[%d]", path, i), depth+1)
		}
	case reflect.Map:
		keys := v.MapKeys()
		ks := make([]string, len(keys))
		for i, k := range keys {
			ks[i] = fmt.Sprint(k)
		}
		sort.Strings(ks)
		fmt.Fprintf(sb, "%s: map %v\n", path, ks)
	case reflect.String:
		fmt.Fprintf(sb, "%s: %q\n", path, v.String())
	case reflect.Bool:
		fmt.Fprintf(sb, "%s: %v\n", path, v.Bool())
	case reflect.Int, reflect.Int8, reflect.Int16, reflect.Int32, reflect.Int64:
		fmt.Fprintf(sb, "%s: %d\n", path, v.Int())
	case reflect.Uint, reflect.Uint8, reflect.Uint16, reflect.Uint32, reflect.Uint64, reflect.Uintptr:
		fmt.Fprintf(sb, "%s: %d\n", path, v.Uint())
	default:
		fmt.Fprintf(sb, "%s: <%s>\n", path, v.Kind())
	}
}

func arrBytes(v reflect.Value) []byte {
	b := make([]byte, v.Len())
	for i := range b {
		b[i] = byte(v.Index(i).Uint())
	}
	return b
}

// firstDiff returns the first line at which two canonical texts differ.
func firstDiff(a, b string) string {
	la, lb := strings.Split(a, "\n"), strings.Split(b, "\n")
	for i := 0; i < len(la) || i < len(lb); i++ {
		var x, y string
		if i < len(la) {
			x = la[i]
		}
		if i < len(lb) {
			y = lb[i]
		}
		if x != y {
			return fmt.Sprintf("original %q / decoded %q", trunc(x, 200), trunc(y, 200))
		}
	}
	return ""
}

func trunc(s string, n int) string {
	if len(s) > n {
		return s[:n] + "…"
	}
	return s
}

// fieldOfDiff extracts the field path of a diff line (for structural violation keys).
func fieldOfDiff(d string) string {
	// d looks like: original ".P.SoftVersion: \"x\"" / decoded ...
	i := strings.Index(d, "\"")
	if i < 0 {
		return "?"
	}
	rest := d[i+1:]
	j := strings.Index(rest, ":")
	if j < 0 {
		return "?"
	}
	f := rest[:j]
	// drop indices
	var sb strings.Builder
	skip := false
	for _, c := range f {
		if c == '[' {
			skip = true
			sb.WriteString("[]")
			continue
		}
		if c == ']' {
			skip = false
			continue
		}
		if !skip {
			sb.WriteRune(c)
		}
	}
	return sb.String()
}
