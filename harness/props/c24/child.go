package main

import (
	"bufio"
	"bytes"
	"encoding/binary"
	"encoding/json"
	"fmt"
	"hash/fnv"
	"math"
	"os"
	"reflect"
	"runtime"
	"runtime/debug"
	"runtime/metrics"
	"runtime/pprof"
	"strconv"
	"strings"
	"syscall"
	"testing/iotest"
	"time"

	"github.com/ontio/ontology/common"
	"github.com/ontio/ontology/common/config"
	ctypes "github.com/ontio/ontology/core/types"
	pc "github.com/ontio/ontology/p2pserver/common"
	mt "github.com/ontio/ontology/p2pserver/message/types"
	"verifharness/lib/proc"
	"verifharness/lib/vf"
)

// ---------------------------------------------------------------- hostile cases

// A hostile case is either a message body for one command, framed by the harness with a
// valid header ('P'), or a raw byte stream ('S') with an expectation:
//
//	E  ReadMessage must fail and must not have allocated the declared payload
//	e  ReadMessage must fail; it may allocate up to the declared length (≤ MAX)
//	a  anything but a panic; an accepted message goes through the payload oracle
type hcase struct {
	kind    byte // 'P' | 'S'
	tag     string
	cmd     string // 'P': command; 'S': expectation
	data    []byte // 'P': payload; 'S': stream
	declLen uint64 // 'S': length declared by the header (for the allocation bound)
}

func (c *hcase) record() []byte {
	b := make([]byte, 0, 16+len(c.tag)+len(c.cmd)+len(c.data))
	b = append(b, c.kind, byte(len(c.tag)))
	b = append(b, c.tag...)
	b = append(b, byte(len(c.cmd)))
	b = append(b, c.cmd...)
	var d [8]byte
	binary.LittleEndian.PutUint64(d[:], c.declLen)
	b = append(b, d[:]...)
	return append(b, c.data...)
}

func parseRecord(b []byte) (c hcase, ok bool) {
	if len(b) < 3 {
		return
	}
	c.kind = b[0]
	tl := int(b[1])
	if len(b) < 2+tl+1 {
		return
	}
	c.tag = string(b[2 : 2+tl])
	b = b[2+tl:]
	cl := int(b[0])
	if len(b) < 1+cl+8 {
		return
	}
	c.cmd = string(b[1 : 1+cl])
	b = b[1+cl:]
	c.declLen = binary.LittleEndian.Uint64(b)
	c.data = b[8:]
	return c, true
}

func (c *hcase) witness(magic uint32) map[string]interface{} {
	w := map[string]interface{}{"tag": c.tag, "bytes": len(c.data)}
	hexs := vf.Hex(c.data)
	if len(c.data) > 4096 {
		hexs = vf.Hex(c.data[:4096]) + fmt.Sprintf("…(%d bytes, all-zero tail unless stated)", len(c.data))
	}
	if c.kind == 'L' {
		// data = u32 length ‖ schedule (JSON) ‖ the frames the remote side sends
		w["kind"] = "link schedule"
		if len(c.data) >= 4 {
			if n := int(binary.LittleEndian.Uint32(c.data)); 4+n <= len(c.data) {
				w["schedule"] = json.RawMessage(c.data[4 : 4+n])
				w["stream_hex"] = vf.HexTrunc(c.data[4+n:], 8192)
				w["bytes"] = len(c.data) - 4 - n
			}
		}
		return w
	}
	if c.kind == 'A' && uint64(len(c.data)) < c.declLen {
		// a large allocation-oracle payload: the tag names the base recipe (shape, n, length) and the mutation
		hexs = vf.Hex(c.data) + fmt.Sprintf("…(first %d of %d bytes; the rest continues the well-formed base named in the tag)", len(c.data), c.declLen)
		w["bytes"] = c.declLen
	}
	if c.kind == 'P' || c.kind == 'A' {
		w["kind"], w["cmd"], w["payload_hex"] = "payload with valid header", c.cmd, hexs
		if len(c.data) <= 4096 && c.kind == 'P' {
			w["frame_hex"] = vf.Hex(frame(magic, c.cmd, c.data))
		}
		w["magic"] = magic
	} else {
		w["kind"], w["expect"], w["stream_hex"], w["declared_len"] = "raw stream", c.cmd, hexs, c.declLen
		w["magic"] = magic
	}
	return w
}

// frame builds header+payload independently of WriteMessage.
func frame(magic uint32, cmd string, payload []byte) []byte {
	return frameRaw(magic, cmd, uint32(len(payload)), pc.Checksum(payload), payload)
}

func frameRaw(magic uint32, cmd string, length uint32, sum [pc.CHECKSUM_LEN]byte, body []byte) []byte {
	b := make([]byte, pc.MSG_HDR_LEN, pc.MSG_HDR_LEN+len(body))
	binary.LittleEndian.PutUint32(b[0:], magic)
	copy(b[4:4+pc.MSG_CMD_LEN], cmd)
	binary.LittleEndian.PutUint32(b[16:], length)
	copy(b[20:], sum[:])
	return append(b, body...)
}

// ---------------------------------------------------------------- allocation measurement

var msample = []metrics.Sample{{Name: "/gc/heap/allocs:bytes"}, {Name: "/gc/heap/allocs-by-size:bytes"}}

// allocNow returns the cumulative bytes allocated and the part of it that went into large
// objects (> 32 KiB, the runtime's largest size class).
//
// The large-object figure is exact and immediate (the runtime counts large allocations
// when they happen) and it is the quantity the property is about: memory obtained because
// a *declared* count or length said so is one big make()/growslice, whereas the garbage of
// honest work on bytes that are present (big.Int arithmetic while decompressing a public
// key allocates ~0.5 MB of 100-byte objects) is many small objects.  The total lags by up
// to one span per size class for small objects; it is used for the "rejected before the
// payload buffer exists" clause only, and every excess there is confirmed with exactAlloc.
func allocNow() (total, large uint64) {
	metrics.Read(msample)
	total = msample[0].Value.Uint64()
	h := msample[1].Value.Float64Histogram()
	var small uint64
	for i, c := range h.Counts {
		hi := h.Buckets[i+1]
		if math.IsInf(hi, 1) {
			continue
		}
		small += c * uint64(hi-1) // bucket i holds the objects of the size class hi-1
	}
	return total, total - small
}

// largeAllocOf re-measures one call (confirmation of an excess).
func largeAllocOf(f func()) uint64 {
	_, a := allocNow()
	f()
	_, b := allocNow()
	return b - a
}

func exactAlloc(f func()) uint64 {
	var a, b runtime.MemStats
	runtime.ReadMemStats(&a)
	f()
	runtime.ReadMemStats(&b)
	return b.TotalAlloc - a.TotalAlloc
}

const (
	// Allocation allowance for decoding L payload bytes: ReadMessage's own buffer (L) plus
	// ampK·L for the decoded representation plus slack.  The worst legitimate amplification
	// in the wire formats is an empty var-bytes (1 byte on the wire → a 24-byte slice header,
	// ×5 for append growth); anything driven by a *declared* count instead of by bytes that
	// are present exceeds this by orders of magnitude.
	ampK       = 256
	allocSlack = 64 << 10
	smallAlloc = 4096 // header + error value
)

// ---------------------------------------------------------------- child state

type child struct {
	batch      batch
	log        *proc.CaseLog
	out        *os.File
	fp         *bufio.Writer
	fpFile     *os.File
	idx        uint64 // next case index
	start      uint64 // skip cases below (restart after a death)
	inc        int
	ctr        map[string]int64
	evals      int64
	maxAlloc   uint64
	maxAmp     float64
	violSeen   map[string]int
	seen       map[uint64]struct{}
	cur        *hcase
	secs       float64
	scanStride int
	nCostly    int
}

func (c *child) count(k string) { c.ctr[k]++ }

// costly notes a violation whose reproduction is expensive (the code under test obtained
// hundreds of megabytes): after a few of them the batch stops early — the verdict is
// already "violation", and zeroing gigabytes per case would take the run far beyond its
// budget.  Cheap violations never stop a batch, so a known finding does not reduce coverage.
func (c *child) costly() {
	c.nCostly++
	c.flush(false) // the count survives a later death (childMain reads it back)
	if c.nCostly >= 8 {
		c.count("batch_stopped_after_costly_violations")
		c.flush(true)
		os.Exit(0)
	}
}

func (c *child) violation(key, what string, extra map[string]interface{}) {
	c.violSeen[key]++
	if c.violSeen[key] > 3 {
		return
	}
	w := c.cur.witness(c.batch.Magic)
	for k, v := range extra {
		w[k] = v
	}
	w["case_index"] = c.idx - 1
	w["batch"] = c.batch
	proc.AppendJSONLine(c.out, map[string]interface{}{"t": "viol", "key": key, "what": what, "witness": w})
}

func (c *child) calib(row calibRow) {
	proc.AppendJSONLine(c.out, map[string]interface{}{"t": "calib", "calib": row})
}

// inconclusive reports an infrastructure problem of one case (never a verdict).
func (c *child) inconclusive(what string) {
	proc.AppendJSONLine(c.out, map[string]interface{}{"t": "incon", "what": what})
}

func (c *child) flush(final bool) {
	c.fp.Flush()
	proc.AppendJSONLine(c.out, map[string]interface{}{"t": "ctr", "inc": c.inc, "final": final, "evals": c.evals, "counters": c.ctr,
		"max_alloc": c.maxAlloc, "max_amp": c.maxAmp, "viol_counts": c.violSeen, "next": c.idx, "secs": c.secs, "costly": c.nCostly})
}

// run is the single entry point for a hostile case: log first, then execute.
func (c *child) run(hc hcase) {
	i := c.idx
	c.idx++
	if i < c.start {
		return
	}
	c.cur = &hc
	c.log.Begin(i, hc.record())
	h := fnv.New64a()
	h.Write([]byte{hc.kind})
	h.Write([]byte(hc.cmd))
	h.Write([]byte{0})
	h.Write(hc.data)
	hv := h.Sum64()
	if _, dup := c.seen[hv]; !dup {
		c.seen[hv] = struct{}{}
		var b [8]byte
		binary.LittleEndian.PutUint64(b[:], hv)
		c.fp.Write(b[:])
	} else {
		c.count("duplicate_case")
	}
	c.evals++
	if hc.kind == 'P' {
		c.checkPayload(hc.cmd, hc.data, hc.tag, i%16 == 0)
	} else {
		c.checkStream(&hc)
	}
	if c.evals%10000 == 0 {
		c.flush(false)
	}
}

func tagClass(tag string) string {
	if i := strings.IndexByte(tag, ':'); i >= 0 {
		return tag[:i]
	}
	return tag
}

func panicClass(p interface{}) string { return proc.MessageClass(fmt.Sprint(p)) }

// ---------------------------------------------------------------- payload oracle

func (c *child) checkPayload(cmd string, payload []byte, tag string, oneByte bool) {
	fr := frame(config.DefConfig.P2PNode.NetworkMagic, cmd, payload)
	cmd = string(bytes.TrimRight(fr[4:4+pc.MSG_CMD_LEN], "\x00")) // the command as the wire carries it
	sp := specOf(cmd)
	name := cmd
	if sp == nil {
		name = "unknown"
	}
	var msg mt.Message
	var n uint32
	var err error
	rd := bytes.NewReader(fr)
	var stack []byte
	_, a0 := allocNow()
	p := vf.Catch(func() {
		defer func() {
			if e := recover(); e != nil {
				stack = debug.Stack()
				panic(e)
			}
		}()
		msg, n, err = mt.ReadMessage(rd)
	})
	_, a1 := allocNow()
	alloc := a1 - a0
	c.count("hostile:" + name)
	c.count("mut:" + tagClass(tag))
	if p != nil {
		c.count("panic_caught")
		c.violation("panic:"+name+":"+panicClass(p), fmt.Sprintf("ReadMessage panicked on a %s payload with a valid header: %v", name, p),
			map[string]interface{}{"panic": fmt.Sprint(p), "stack": trimStack(stack)})
		return
	}
	// allocation bound
	bound := uint64(pc.MSG_HDR_LEN) + uint64(len(payload))*(1+ampK) + allocSlack
	if alloc > bound {
		ex := largeAllocOf(func() { vf.Catch(func() { mt.ReadMessage(bytes.NewReader(fr)) }) })
		if ex > bound {
			c.count("alloc_excess")
			c.violation("alloc:decode:"+name, fmt.Sprintf("decoding a %d-byte %s payload allocated %d bytes in large objects (allowance %d = header + L + %d·L + %d)", len(payload), name, ex, bound, ampK, allocSlack),
				map[string]interface{}{"allocated": ex, "allowance": bound})
			if ex > 256<<20 {
				c.costly()
			}
		} else {
			c.count("alloc_excess_not_confirmed")
		}
	}
	if alloc > c.maxAlloc {
		c.maxAlloc = alloc
	}
	if len(payload) >= 64 {
		if amp := float64(alloc) / float64(len(payload)); amp > c.maxAmp {
			c.maxAmp = amp
		}
	}
	if err != nil {
		c.count("reject:" + name)
		if msg != nil || n != 0 {
			c.violation("result:"+name+":error-with-message", "ReadMessage returned an error together with a message/length", nil)
		}
		return
	}
	c.count("accept:" + name)
	if msg == nil {
		c.violation("result:"+name+":nil-message", "ReadMessage returned (nil, _, nil)", nil)
		return
	}
	if int(n) != len(payload) || rd.Len() != 0 {
		c.violation("result:"+name+":length", fmt.Sprintf("returned length %d, reader left %d, payload %d", n, rd.Len(), len(payload)), nil)
	}
	// type switch
	if sp != nil {
		if typeName(msg) != typeName(sp.newEmpty()) {
			c.violation("type:"+name, fmt.Sprintf("cmd %q decoded to %s, want %s", cmd, typeName(msg), typeName(sp.newEmpty())), nil)
			return
		}
	} else {
		u, ok := msg.(*mt.UnknownMessage)
		if !ok {
			// a command the harness does not know: the type switch has grown
			c.count("unlisted_type:" + typeName(msg))
			return
		}
		if u.Cmd != cmd || !bytes.Equal(u.Payload, payload) {
			c.violation("unknown:mismatch", "UnknownMessage does not carry the command/payload it was read from", map[string]interface{}{"got_cmd": u.Cmd})
		}
		return
	}
	var reser []byte
	if p := vf.Catch(func() { reser = payloadOf(msg) }); p != nil {
		c.violation("panic:"+name+":serialize:"+panicClass(p), fmt.Sprintf("Serialization of an accepted %s message panicked: %v", name, p), nil)
		return
	}
	identical := bytes.Equal(reser, payload)
	if identical {
		// the strongest form: the whole payload is reproduced (then the consumed prefix is the
		// payload, and decoding the re-serialization is decoding the same bytes again)
		c.count("reserialize_identical")
	} else {
		// consumed prefix: the type's decoder called directly on the same payload
		m2 := sp.newEmpty()
		src := common.NewZeroCopySource(payload)
		var err2 error
		if p := vf.Catch(func() { err2 = m2.Deserialization(src) }); p != nil {
			c.violation("panic:"+name+":direct:"+panicClass(p), "direct Deserialization panicked where ReadMessage did not", nil)
			return
		}
		if err2 != nil {
			c.violation("nondeterministic:"+name, fmt.Sprintf("ReadMessage accepted the payload, a direct Deserialization rejected it: %v", err2), nil)
			return
		}
		consumed := int(src.Pos())
		if consumed > len(payload) {
			c.violation("consumed:"+name, fmt.Sprintf("decoder position %d beyond payload length %d", consumed, len(payload)), nil)
			return
		}
		if consumed < len(payload) {
			c.count("accept_with_trailing_bytes")
		}
		if bytes.Equal(reser, payload[:consumed]) {
			c.count("reserialize_identical_prefix")
		} else if ex := exempt(cmd, payload, consumed, msg, reser); ex != "" {
			c.count("exempt:" + ex)
		} else {
			cls := diffClass(payload[:consumed], reser)
			if strings.HasPrefix(tag, "altkey") {
				cls = "noncanonical-pubkey"
			}
			c.count("reserialize_mismatch")
			c.violation("reserialize:"+cls+":"+name, fmt.Sprintf("accepted %s payload re-serializes to different bytes (%s): consumed %d bytes, re-serialization %d bytes", name, cls, consumed, len(reser)),
				map[string]interface{}{"consumed": consumed, "consumed_hex": vf.HexTrunc(payload[:consumed], 2048), "reserialized_hex": vf.HexTrunc(reser, 2048), "first_diff_offset": firstDiffOff(payload[:consumed], reser)})
		}
	}
	if identical && (oneByte || len(payload) < 256) {
		// whole-frame identity through WriteMessage
		sink := common.NewZeroCopySink(nil)
		if p := vf.Catch(func() { mt.WriteMessage(sink, msg) }); p != nil {
			c.violation("panic:"+name+":WriteMessage:"+panicClass(p), "WriteMessage panicked on an accepted message", nil)
		} else if !bytes.Equal(sink.Bytes(), fr) {
			c.violation("frame:"+name, "WriteMessage(ReadMessage(frame)) != frame although the payload re-serializes identically",
				map[string]interface{}{"rewritten_hex": vf.HexTrunc(sink.Bytes(), 256)})
		} else {
			c.count("frame_identical")
		}
	}
	// the re-serialization must decode to the same value again (when it is the payload itself
	// this is the same computation as above, so it is only sampled there)
	if !identical || oneByte {
		m3 := sp.newEmpty()
		var err3 error
		if p := vf.Catch(func() { err3 = m3.Deserialization(common.NewZeroCopySource(reser)) }); p != nil {
			c.violation("panic:"+name+":redecode:"+panicClass(p), "decoding the re-serialization panicked", nil)
		} else if err3 != nil {
			c.violation("redecode:"+name+":rejected", fmt.Sprintf("the re-serialization of an accepted message is rejected: %v", err3), map[string]interface{}{"reserialized_hex": vf.HexTrunc(reser, 2048)})
		} else if a, b := canon(msg), canon(m3); a != b {
			c.violation("redecode:"+name+":differs", "decode(serialize(m)) != m for an accepted message: "+firstDiff(a, b), nil)
		} else {
			c.count("redecode_equal")
		}
	}
	// delivery in 1-byte reads must not change the outcome
	if oneByte {
		var msgB mt.Message
		var errB error
		if p := vf.Catch(func() { msgB, _, errB = mt.ReadMessage(iotest.OneByteReader(bytes.NewReader(fr))) }); p != nil {
			c.violation("panic:"+name+":onebyte:"+panicClass(p), "ReadMessage panicked with a 1-byte-at-a-time reader", nil)
		} else if errB != nil || canon(msgB) != canon(msg) {
			c.violation("fragmentation:"+name, fmt.Sprintf("1-byte-at-a-time delivery changed the result (err=%v)", errB), nil)
		} else {
			c.count("fragmented_equal")
		}
	}
}

func trimStack(s []byte) string {
	// keep the frames of the code under test
	lines := strings.Split(string(s), "\n")
	var out []string
	for i := 0; i < len(lines) && len(out) < 14; i++ {
		if strings.Contains(lines[i], "ontio/ontology") && !strings.Contains(lines[i], "verifharness") {
			out = append(out, strings.TrimSpace(lines[i]))
		}
	}
	return strings.Join(out, " | ")
}

func firstDiffOff(a, b []byte) int {
	for i := 0; i < len(a) && i < len(b); i++ {
		if a[i] != b[i] {
			return i
		}
	}
	if len(a) != len(b) {
		if len(a) < len(b) {
			return len(a)
		}
		return len(b)
	}
	return -1
}

// diffClass names the shape of the first difference between the bytes a decoder consumed
// and the bytes the decoded message serializes to.
func diffClass(consumed, reser []byte) string {
	d := firstDiffOff(consumed, reser)
	if d < 0 {
		return "none"
	}
	if d >= len(consumed) {
		return "longer"
	}
	if d >= len(reser) {
		return "shorter"
	}
	pb, rb := consumed[d], reser[d]
	switch {
	case len(consumed) == len(reser) && rb <= 1 && pb >= 2:
		return "noncanonical-bool"
	case pb >= 0xfd && len(reser) < len(consumed):
		// read the bytes at d as a var-uint
		w := varWidth(pb)
		if d+w <= len(consumed) {
			var v uint64
			for i := w - 1; i >= 1; i-- {
				v = v<<8 | uint64(consumed[d+i])
			}
			switch {
			case w == 9 && v >= 1<<63:
				return "count-over-int63" // a count ≥ 2^63 was taken for something else (int conversion)
			case len(varuint(v)) != w:
				return "noncanonical-varuint"
			}
		}
		return "resized"
	case len(consumed) != len(reser):
		return "resized"
	}
	return "other"
}

// exempt implements the domain notes (DESIGN §5 C24, §8): documented, intentional
// leniencies of the decoders for which the byte identity is replaced by a weaker check.
// It returns "" when no exemption applies (⇒ violation).
func exempt(cmd string, payload []byte, consumed int, msg mt.Message, reser []byte) string {
	switch m := msg.(type) {
	case *mt.Addr:
		// counts above MAX_ADDR_NODE_CNT are clamped by design: ≤ MAX kept, and the kept
		// entries are the first MAX entries of the payload
		if len(payload) < 8 {
			return ""
		}
		cnt := binary.LittleEndian.Uint64(payload)
		const es = 8 + 8 + 16 + 2 + 2 + 8
		if cnt > pc.MAX_ADDR_NODE_CNT && len(m.NodeAddrs) == pc.MAX_ADDR_NODE_CNT && len(reser) == 8+es*pc.MAX_ADDR_NODE_CNT &&
			binary.LittleEndian.Uint64(reser) == pc.MAX_ADDR_NODE_CNT && bytes.Equal(reser[8:], payload[8:8+es*pc.MAX_ADDR_NODE_CNT]) {
			return "addr-clamped"
		}
	case *mt.Inv:
		if len(payload) < 5 {
			return ""
		}
		cnt := binary.LittleEndian.Uint32(payload[1:])
		if cnt > pc.MAX_INV_BLK_CNT && len(m.P.Blk) == pc.MAX_INV_BLK_CNT && len(reser) == 5+32*pc.MAX_INV_BLK_CNT && reser[0] == payload[0] &&
			binary.LittleEndian.Uint32(reser[1:]) == pc.MAX_INV_BLK_CNT && bytes.Equal(reser[5:], payload[5:5+32*pc.MAX_INV_BLK_CNT]) {
			return "inv-clamped"
		}
	case *mt.Version:
		// nodes older than SoftVersion send no (or an unreadable) trailing string: accepted as ""
		const fixed = 4 + 8 + 8 + 2 + 2 + 2 + 32 + 8 + 8 + 1 + 1
		if m.P.SoftVersion == "" && len(reser) == fixed+1 && consumed >= fixed && bytes.Equal(reser[:fixed], payload[:fixed]) {
			return "version-legacy-tail"
		}
	case *mt.Block:
		// "to accept old node's block": a body that ends before/inside MerkleRoot‖hasCCMsg (or has
		// an unreadable flag) is accepted with the missing parts defaulted
		var blk ctypes.Block
		src := common.NewZeroCopySource(payload)
		if blk.Deserialization(src) != nil {
			return ""
		}
		b := int(src.Pos())
		tail := payload[b:]
		if m.CCMsg == nil && len(reser) == b+33 && bytes.Equal(reser[:b], payload[:b]) && (len(tail) < 33 || tail[32] > 1) {
			if len(tail) >= 32 && !bytes.Equal(reser[b:b+32], tail[:32]) {
				return ""
			}
			return "block-legacy-tail"
		}
	}
	return ""
}

// ---------------------------------------------------------------- stream oracle

func (c *child) checkStream(hc *hcase) {
	stream := hc.data
	rd := bytes.NewReader(stream)
	var msg mt.Message
	var n uint32
	var err error
	t0, l0 := allocNow()
	p := vf.Catch(func() { msg, n, err = mt.ReadMessage(rd) })
	t1, l1 := allocNow()
	alloc, large := t1-t0, l1-l0
	cls := tagClass(hc.tag)
	c.count("stream:" + cls)
	if p != nil {
		c.violation("panic:"+streamName(stream, cls)+":"+panicClass(p), fmt.Sprintf("ReadMessage panicked on a hostile stream: %v", p), map[string]interface{}{"panic": fmt.Sprint(p)})
		return
	}
	confirm := func(bound uint64) (uint64, bool) {
		if alloc <= bound {
			return alloc, true
		}
		ex := exactAlloc(func() { vf.Catch(func() { mt.ReadMessage(bytes.NewReader(stream)) }) })
		return ex, ex <= bound
	}
	switch hc.cmd {
	case "E":
		if err == nil {
			c.violation("accept:stream:"+cls, "ReadMessage accepted a stream it must reject ("+hc.tag+")", map[string]interface{}{"returned_len": n})
			return
		}
		c.count("stream_rejected:" + cls)
		if ex, ok := confirm(smallAlloc); !ok {
			c.violation("alloc:stream:"+cls, fmt.Sprintf("rejected only after allocating %d bytes (declared length %d): the check does not come before the payload buffer", ex, hc.declLen), map[string]interface{}{"allocated": ex})
			if ex > 256<<20 {
				c.costly()
			}
		} else {
			c.count("stream_rejected_before_alloc:" + cls)
		}
	case "e":
		if err == nil {
			c.violation("accept:stream:"+cls, "ReadMessage accepted a stream it must reject ("+hc.tag+")", map[string]interface{}{"returned_len": n})
			return
		}
		c.count("stream_rejected:" + cls)
		d := hc.declLen
		if d > pc.MAX_PAYLOAD_LEN {
			d = 0
		}
		if ex, ok := confirm(d + smallAlloc); !ok {
			c.violation("alloc:stream:"+cls, fmt.Sprintf("allocated %d bytes for a declared length of %d", ex, hc.declLen), map[string]interface{}{"allocated": ex})
			if ex > 256<<20 {
				c.costly()
			}
		}
	default:
		if err != nil {
			c.count("stream_any_rejected")
			// whatever the stream: never more than the maximum payload size
			if large > pc.MAX_PAYLOAD_LEN+allocSlack {
				c.violation("alloc:stream:"+cls, fmt.Sprintf("allocated %d bytes in large objects for a rejected stream (maximum payload size %d)", large, pc.MAX_PAYLOAD_LEN), map[string]interface{}{"allocated": large})
				if large > 256<<20 {
					c.costly()
				}
			}
			return
		}
		c.count("stream_any_accepted")
		if len(stream) < pc.MSG_HDR_LEN || int(n) > len(stream)-pc.MSG_HDR_LEN || rd.Len() != len(stream)-pc.MSG_HDR_LEN-int(n) {
			c.violation("result:stream:length", fmt.Sprintf("returned length %d, reader left %d of %d", n, rd.Len(), len(stream)), nil)
			return
		}
		if binary.LittleEndian.Uint32(stream) != config.DefConfig.P2PNode.NetworkMagic {
			c.violation("accept:stream:wrong-magic", "message accepted with a foreign magic", nil)
		}
		if binary.LittleEndian.Uint32(stream[16:]) != n {
			c.violation("result:stream:length", "returned length differs from the header's", nil)
		}
		body := stream[pc.MSG_HDR_LEN : pc.MSG_HDR_LEN+int(n)]
		var sum [4]byte
		copy(sum[:], stream[20:24])
		if pc.Checksum(body) != sum {
			c.violation("accept:stream:bad-checksum", "message accepted although the checksum does not match the body", nil)
		}
		if bound := uint64(pc.MSG_HDR_LEN) + uint64(n)*(1+ampK) + allocSlack; large > bound {
			if ex := largeAllocOf(func() { vf.Catch(func() { mt.ReadMessage(bytes.NewReader(stream)) }) }); ex > bound {
				c.violation("alloc:stream:"+cls, fmt.Sprintf("allocated %d bytes in large objects for a %d-byte body", ex, n), nil)
			}
		}
		cmd := string(bytes.TrimRight(stream[4:16], "\x00"))
		_ = msg
		if len(body) <= 1<<20 {
			c.checkPayload(cmd, body, hc.tag, false)
		}
	}
}

// streamName attributes a stream to a message type when its header is intact (own magic,
// declared length present, checksum matches): then the body reached that type's decoder.
func streamName(stream []byte, cls string) string {
	if len(stream) >= pc.MSG_HDR_LEN && binary.LittleEndian.Uint32(stream) == config.DefConfig.P2PNode.NetworkMagic {
		n := int(binary.LittleEndian.Uint32(stream[16:]))
		if n <= len(stream)-pc.MSG_HDR_LEN {
			var sum [4]byte
			copy(sum[:], stream[20:24])
			if pc.Checksum(stream[pc.MSG_HDR_LEN:pc.MSG_HDR_LEN+n]) == sum {
				cmd := string(bytes.TrimRight(stream[4:16], "\x00"))
				if specOf(cmd) != nil {
					return cmd
				}
				return "unknown"
			}
		}
	}
	return "stream:" + cls
}

// checkSequence reads k frames back to back from one reader.
func (c *child) checkSequence(tag string, frames [][]byte, cmds []string) {
	var all []byte
	for _, f := range frames {
		all = append(all, f...)
	}
	hc := hcase{kind: 'S', tag: tag, cmd: "a", data: all}
	i := c.idx
	c.idx++
	if i < c.start {
		return
	}
	c.cur = &hc
	c.log.Begin(i, hc.record())
	c.evals++
	c.count("stream:seq")
	rd := bytes.NewReader(all)
	for k, f := range frames {
		var msg mt.Message
		var n uint32
		var err error
		before := rd.Len()
		if p := vf.Catch(func() { msg, n, err = mt.ReadMessage(rd) }); p != nil {
			c.violation("panic:stream:seq:"+panicClass(p), "panic while reading consecutive frames", nil)
			return
		}
		if err != nil || int(n) != len(f)-pc.MSG_HDR_LEN || before-rd.Len() != len(f) {
			// convict the framing only when the frame is readable on its own (a valid frame
			// that is rejected alone is the round-trip clause's finding, reported there)
			var e2 error
			if p2 := vf.Catch(func() { _, _, e2 = mt.ReadMessage(bytes.NewReader(f)) }); p2 != nil || e2 != nil {
				c.count("sequence_skipped_frame_unreadable_alone")
				return
			}
			c.violation("sequence:framing", fmt.Sprintf("frame %d of %d (%s): err=%v len=%d consumed=%d want %d", k, len(frames), cmds[k], err, n, before-rd.Len(), len(f)), nil)
			return
		}
		if sp := specOf(cmds[k]); sp != nil && reflect.TypeOf(msg) != reflect.TypeOf(sp.newEmpty()) {
			c.violation("type:"+cmds[k], "wrong type in a sequence of frames", nil)
		}
	}
	var err error
	vf.Catch(func() { _, _, err = mt.ReadMessage(rd) })
	if err == nil {
		c.violation("sequence:eof", "ReadMessage succeeded on an exhausted reader", nil)
	} else {
		c.count("sequence_ok")
	}
}

// ---------------------------------------------------------------- child main

func childMain(specStr string) {
	// spec: dir|batchIndex|start|incarnation
	parts := strings.Split(specStr, "|")
	if len(parts) != 4 {
		fmt.Fprintln(os.Stderr, "bad child spec", specStr)
		os.Exit(96)
	}
	dir := parts[0]
	bi, _ := strconv.Atoi(parts[1])
	start, _ := strconv.ParseUint(parts[2], 10, 64)
	inc, _ := strconv.Atoi(parts[3])
	// A decoder that allocates from a declared count must fail here and now, not depend on
	// the machine's overcommit policy: cap the address space.
	lim := syscall.Rlimit{Cur: 6 << 30, Max: 6 << 30}
	syscall.Setrlimit(syscall.RLIMIT_AS, &lim)
	// the live heap is tiny and the workload is millions of short-lived objects: let the
	// heap cycle inside the CPU cache instead of faulting in fresh pages
	debug.SetGCPercent(400)

	initKeys()
	bs := batches()
	if bi < 0 || bi >= len(bs) {
		fmt.Fprintln(os.Stderr, "bad batch index")
		os.Exit(96)
	}
	b := bs[bi]
	config.DefConfig.P2PNode.NetworkMagic = b.Magic
	lg, err := proc.OpenCaseLog(fmt.Sprintf("%s/b%d.log", dir, bi))
	if err != nil {
		fmt.Fprintln(os.Stderr, err)
		os.Exit(96)
	}
	// costly violations of earlier incarnations of this batch count towards the early stop
	prevCostly := 0
	proc.ReadJSONLines(fmt.Sprintf("%s/b%d.out", dir, bi), func(raw json.RawMessage) {
		var ln struct {
			T      string `json:"t"`
			Costly int    `json:"costly"`
		}
		if json.Unmarshal(raw, &ln) == nil && ln.T == "ctr" && ln.Costly > prevCostly {
			prevCostly = ln.Costly
		}
	})
	out, err := os.OpenFile(fmt.Sprintf("%s/b%d.out", dir, bi), os.O_CREATE|os.O_WRONLY|os.O_APPEND, 0o644)
	if err != nil {
		fmt.Fprintln(os.Stderr, err)
		os.Exit(96)
	}
	fpf, err := os.OpenFile(fmt.Sprintf("%s/b%d.fp", dir, bi), os.O_CREATE|os.O_WRONLY|os.O_APPEND, 0o644)
	if err != nil {
		fmt.Fprintln(os.Stderr, err)
		os.Exit(96)
	}
	c := &child{batch: b, log: lg, out: out, fpFile: fpf, fp: bufio.NewWriterSize(fpf, 1<<16), start: start, inc: inc,
		ctr: map[string]int64{}, violSeen: map[string]int{}, seen: map[uint64]struct{}{}, nCostly: prevCostly}
	// the parts of one (type, round) must build the same seed values: their position scans
	// partition the positions of one payload
	rng := vf.NewRNG(vf.Seed()).Sub(0xC24000 + uint64(bi))
	if b.Kind == "payload" {
		ti := 0
		for i := range specs {
			if specs[i].cmd == b.Cmd {
				ti = i
			}
		}
		rng = vf.NewRNG(vf.Seed()).Sub(0xC25000 + uint64(b.Round)*64 + uint64(ti))
	}
	if c.nCostly >= 8 {
		c.count("batch_stopped_after_costly_violations")
		c.flush(true)
		os.Exit(0)
	}
	t0 := time.Now()
	if pf := os.Getenv("C24_PROF"); pf != "" {
		f, _ := os.Create(fmt.Sprintf("%s.%d", pf, bi))
		pprof.StartCPUProfile(f)
	}
	func() {
		// every call into the code under test sits in vf.Catch, so a panic that reaches this
		// frame comes from the harness (generator, mutator): infrastructure failure, exit 95
		defer func() {
			if e := recover(); e != nil {
				fmt.Fprintf(os.Stderr, "HARNESS-PANIC: %v\n%s\n", e, debug.Stack())
				os.Exit(95)
			}
		}()
		switch b.Kind {
		case "payload":
			c.payloadBatch(rng)
		case "stream":
			c.streamBatch(rng)
		case "cross":
			c.crossBatch(rng)
		case "alloc":
			c.allocBatch(rng)
		case "link":
			c.linkBatch(rng)
		}
	}()
	c.secs = time.Since(t0).Seconds() // reported for tuning only, never part of a verdict
	c.flush(true)
	fpf.Close()
	out.Close()
	lg.Close()
	pprof.StopCPUProfile()
	os.Exit(0)
}
