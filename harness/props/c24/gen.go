package main

import (
	"crypto/ecdsa"
	"crypto/ed25519"
	"crypto/elliptic"
	"encoding/hex"
	"fmt"
	"math/big"
	"reflect"

	ethcommon "github.com/ethereum/go-ethereum/common"
	ethtypes "github.com/ethereum/go-ethereum/core/types"
	ethcrypto "github.com/ethereum/go-ethereum/crypto"
	"github.com/ontio/ontology-crypto/ec"
	"github.com/ontio/ontology-crypto/keypair"
	s "github.com/ontio/ontology-crypto/signature"
	"github.com/ontio/ontology/account"
	"github.com/ontio/ontology/common"
	"github.com/ontio/ontology/common/constants"
	vconfig "github.com/ontio/ontology/consensus/vbft/config"
	"github.com/ontio/ontology/core/payload"
	"github.com/ontio/ontology/core/signature"
	ctypes "github.com/ontio/ontology/core/types"
	pc "github.com/ontio/ontology/p2pserver/common"
	mt "github.com/ontio/ontology/p2pserver/message/types"
	"verifharness/lib/vf"
)

// ---------------------------------------------------------------- message table

// spec describes one entry of the type switch in message.go:makeEmptyMessage.
type spec struct {
	cmd      string
	newEmpty func() mt.Message
	// gen builds a valid value.  size 0: every list empty / optional part absent;
	// size 1: exactly one element in every list and every optional part present (the
	// smallest payload that contains every count/length field); size 2: random moderate;
	// size 3: boundary sizes (lists at their documented maximum).
	gen func(g *gen, size int) mt.Message
}

var specs = []spec{
	{pc.VERSION_TYPE, func() mt.Message { return &mt.Version{} }, genVersion},
	{pc.VERACK_TYPE, func() mt.Message { return &mt.VerACK{} }, genVerACK},
	{pc.GetADDR_TYPE, func() mt.Message { return &mt.AddrReq{} }, func(*gen, int) mt.Message { return &mt.AddrReq{} }},
	{pc.ADDR_TYPE, func() mt.Message { return &mt.Addr{} }, genAddr},
	{pc.PING_TYPE, func() mt.Message { return &mt.Ping{} }, func(g *gen, _ int) mt.Message { return &mt.Ping{Height: g.u64()} }},
	{pc.PONG_TYPE, func() mt.Message { return &mt.Pong{} }, func(g *gen, _ int) mt.Message { return &mt.Pong{Height: g.u64()} }},
	{pc.GET_HEADERS_TYPE, func() mt.Message { return &mt.HeadersReq{} }, func(g *gen, _ int) mt.Message {
		return &mt.HeadersReq{Len: uint8(g.u64()), HashStart: g.hash(), HashEnd: g.hash()}
	}},
	{pc.HEADERS_TYPE, func() mt.Message { return &mt.BlkHeader{} }, genHeaders},
	{pc.INV_TYPE, func() mt.Message { return &mt.Inv{} }, genInv},
	{pc.GET_DATA_TYPE, func() mt.Message { return &mt.DataReq{} }, func(g *gen, _ int) mt.Message {
		return &mt.DataReq{DataType: common.InventoryType(g.u64()), Hash: g.hash()}
	}},
	{pc.BLOCK_TYPE, func() mt.Message { return &mt.Block{} }, genBlock},
	{pc.TX_TYPE, func() mt.Message { return &mt.Trn{} }, func(g *gen, size int) mt.Message { return &mt.Trn{Txn: g.tx(size, g.rng.Intn(4))} }},
	{pc.CONSENSUS_TYPE, func() mt.Message { return &mt.Consensus{} }, genConsensus},
	{pc.NOT_FOUND_TYPE, func() mt.Message { return &mt.NotFound{} }, func(g *gen, _ int) mt.Message { return &mt.NotFound{Hash: g.hash()} }},
	{pc.GET_BLOCKS_TYPE, func() mt.Message { return &mt.BlocksReq{} }, func(g *gen, _ int) mt.Message {
		return &mt.BlocksReq{HeaderHashCount: uint8(g.u64()), HashStart: g.hash(), HashStop: g.hash()}
	}},
	{pc.FINDNODE_TYPE, func() mt.Message { return &mt.FindNodeReq{} }, func(g *gen, _ int) mt.Message { return &mt.FindNodeReq{TargetID: g.peerID()} }},
	{pc.FINDNODE_RESP_TYPE, func() mt.Message { return &mt.FindNodeResp{} }, genFindNodeResp},
	{pc.UPDATE_KADID_TYPE, func() mt.Message { return &mt.UpdatePeerKeyId{} }, genUpdateKadID},
	{pc.GET_SUBNET_MEMBERS_TYPE, func() mt.Message { return &mt.SubnetMembersRequest{} }, genMembersReq},
	{pc.SUBNET_MEMBERS_TYPE, func() mt.Message { return &mt.SubnetMembers{} }, genMembers},
	{pc.SUBNET_OFFLINE_TYPE, func() mt.Message { return &mt.OfflineWitnessMsg{} }, genOffline},
}

func specOf(cmd string) *spec {
	for i := range specs {
		if specs[i].cmd == cmd {
			return &specs[i]
		}
	}
	return nil
}

func typeName(m mt.Message) string { return reflect.TypeOf(m).String() }

// ---------------------------------------------------------------- keys (deterministic)

// Key material is derived from fixed scalars, not from crypto/rand, so that a case index
// names the same shape of input in every process (parent, child, restarted child).
var accounts []*account.Account

func initKeys() {
	if accounts != nil {
		return
	}
	mk := func(curve elliptic.Curve, alg ec.ECAlgorithm, scheme s.SignatureScheme, i int) *account.Account {
		d := new(big.Int).SetBytes(vf.NewRNG(0xC24).Sub(uint64(i)).Bytes(31))
		d.Add(d, big.NewInt(1))
		x, y := curve.ScalarBaseMult(d.Bytes())
		pri := &ec.PrivateKey{Algorithm: alg, PrivateKey: &ecdsa.PrivateKey{D: d, PublicKey: ecdsa.PublicKey{Curve: curve, X: x, Y: y}}}
		pub := &ec.PublicKey{Algorithm: alg, PublicKey: &pri.PublicKey}
		return &account.Account{PrivateKey: pri, PublicKey: pub, Address: ctypes.AddressFromPubKey(pub), SigScheme: scheme}
	}
	for i := 0; i < 8; i++ {
		accounts = append(accounts, mk(elliptic.P256(), ec.ECDSA, s.SHA256withECDSA, i))
	}
	sm2c, err := keypair.GetCurve(keypair.SM2P256V1)
	if err != nil {
		panic(err)
	}
	for i := 8; i < 10; i++ {
		accounts = append(accounts, mk(sm2c, ec.SM2, s.SM3withSM2, i))
	}
	for i := 10; i < 12; i++ {
		pri := ed25519.NewKeyFromSeed(vf.NewRNG(0xC24).Sub(uint64(i)).Bytes(32))
		pub := pri.Public().(ed25519.PublicKey)
		accounts = append(accounts, &account.Account{PrivateKey: pri, PublicKey: pub, Address: ctypes.AddressFromPubKey(pub), SigScheme: s.SHA512withEDDSA})
	}
}

// Public keys that satisfy p2pserver/common.validatePublicKey at Difficulty 18 (found once
// with common.RandPeerKeyId; searching costs 2^18 key generations, too slow per run).
// When the repository changes the difficulty rule these are rejected by the decoder and
// the run is INCONCLUSIVE (required counter roundtrip:updatekadid stays 0), not wrong.
var kadKeys = []string{
	"02da756cc887bc329befa1ecddfd0f2a1c239383e50c28064f23a71fa97cfc671b",
	"03d194e2ebaffad0532179120c0851c45b5ae05a1501bb0cb1bb023150513d9544",
	"02f58c3626db0f2c9e28b77c95202ba9e6945a526cce9d231ccf0834b0e61d1f24",
	"033bf08da2a7eec536bb38bb4a34b810bff6de68493612cbb75754dee9e37bfe6b",
	"020fa4c735785b9ed0a40401a6d284a812abdcc1eb29f416f5697fd890207288a4",
	"038fc08f6a619a6d1d3f1c883d1b10d1db03f1c8df71f5ede25c5642b6bb3c2c83",
}

// ---------------------------------------------------------------- primitive generators

type gen struct{ rng *vf.RNG }

var edgeU64 = []uint64{0, 1, 0xfc, 0xfd, 0xffff, 0x10000, 1 << 31, 1<<32 - 1, 1 << 32, 1<<63 - 1, 1 << 63, ^uint64(0)}

func (g *gen) u64() uint64 {
	if g.rng.Chance(30) {
		return edgeU64[g.rng.Intn(len(edgeU64))]
	}
	return g.rng.U64()
}
func (g *gen) u32() uint32 { return uint32(g.u64()) }
func (g *gen) hash() (h common.Uint256) {
	if g.rng.Chance(10) {
		return
	}
	copy(h[:], g.rng.Bytes(32))
	return
}
func (g *gen) addr() (a common.Address) { copy(a[:], g.rng.Bytes(20)); return }
func (g *gen) peerID() pc.PeerId {
	var id pc.PeerId
	if err := id.Deserialization(common.NewZeroCopySource(g.rng.Bytes(20))); err != nil {
		panic(err)
	}
	return id
}
func (g *gen) acct() *account.Account { return accounts[g.rng.Intn(len(accounts))] }

// blob returns a byte string whose length exercises the varuint boundaries.
func (g *gen) blob(size int) []byte {
	switch size {
	case 0:
		return nil
	case 1:
		return g.rng.Bytes(1 + g.rng.Intn(3))
	case 3:
		return g.rng.Bytes([]int{0xfc, 0xfd, 0xfe, 0xffff, 0x10000, 70000}[g.rng.Intn(6)])
	}
	if g.rng.Chance(8) {
		return g.rng.Bytes([]int{0xfc, 0xfd, 300}[g.rng.Intn(3)])
	}
	return g.rng.Bytes(g.rng.Intn(48))
}

func (g *gen) str(size int) string {
	b := g.blob(size)
	if len(b) > 252 { // payload.validateDeployCode limits names to 252 bytes
		b = b[:252]
	}
	const al = "abcdefghijklmnopqrstuvwxyz0123456789.:-_/ "
	for i := range b {
		if g.rng.Chance(95) {
			b[i] = al[int(b[i])%len(al)]
		}
	}
	return string(b)
}

// count picks a list length for the size class.
func (g *gen) count(size, max int) int {
	switch size {
	case 0:
		return 0
	case 1:
		return 1
	case 3:
		return max - g.rng.Intn(2)
	}
	n := g.rng.Intn(6)
	if n > max {
		n = max
	}
	return n
}

// ---------------------------------------------------------------- per-type generators

func genVersion(g *gen, size int) mt.Message {
	v := &mt.Version{}
	v.P.Version, v.P.Services, v.P.TimeStamp = g.u32(), g.u64(), int64(g.u64())
	v.P.SyncPort, v.P.HttpInfoPort, v.P.ConsPort = uint16(g.u64()), uint16(g.u64()), uint16(g.u64())
	copy(v.P.Cap[:], g.rng.Bytes(32))
	v.P.Nonce, v.P.StartHeight, v.P.Relay, v.P.IsConsensus = g.u64(), g.u64(), uint8(g.u64()), g.rng.Bool()
	v.P.SoftVersion = g.str(size)
	return v
}

func genVerACK(g *gen, size int) mt.Message {
	// the only field is unexported: the value is built through the decoder
	v := &mt.VerACK{}
	b := byte(0)
	if size > 0 && g.rng.Bool() || size == 1 {
		b = 1
	}
	if err := v.Deserialization(common.NewZeroCopySource([]byte{b})); err != nil {
		panic(err)
	}
	return v
}

func genAddr(g *gen, size int) mt.Message {
	a := &mt.Addr{}
	n := g.count(size, pc.MAX_ADDR_NODE_CNT)
	if size == 2 && g.rng.Chance(20) {
		n = g.rng.Intn(pc.MAX_ADDR_NODE_CNT + 1)
	}
	for i := 0; i < n; i++ {
		var p pc.PeerAddr
		p.Time, p.Services, p.Port, p.ConsensusPort = int64(g.u64()), g.u64(), uint16(g.u64()), uint16(g.u64())
		copy(p.IpAddr[:], g.rng.Bytes(16))
		p.ID = pc.PseudoPeerIdFromUint64(g.u64()) // the wire format carries 64 bits of the id only
		a.NodeAddrs = append(a.NodeAddrs, p)
	}
	return a
}

func (g *gen) header(size int) *ctypes.Header {
	h := &ctypes.Header{Version: g.u32(), PrevBlockHash: g.hash(), TransactionsRoot: g.hash(), BlockRoot: g.hash(),
		Timestamp: g.u32(), Height: g.u32(), ConsensusData: g.u64(), ConsensusPayload: g.blob(size), NextBookkeeper: g.addr()}
	if size == 3 {
		size = 2
	}
	nb := g.count(size, 7)
	if nb > 3 {
		nb = 3 // every key costs the decoder a modular square root (≈0.1 ms)
	}
	for i := 0; i < nb; i++ {
		h.Bookkeepers = append(h.Bookkeepers, g.acct().PublicKey)
	}
	ns := g.count(size, 7)
	for i := 0; i < ns; i++ {
		h.SigData = append(h.SigData, g.rng.Bytes([]int{0, 1, 64, 65}[g.rng.Intn(4)]+boolInt(size == 1)))
	}
	return h
}

func boolInt(b bool) int {
	if b {
		return 1
	}
	return 0
}

func genHeaders(g *gen, size int) mt.Message {
	m := &mt.BlkHeader{}
	n := g.count(size, 8)
	if n > 3 {
		n = 3
	}
	hs := size
	if size == 3 {
		n = pc.MAX_BLK_HDR_CNT - g.rng.Intn(2)
		hs = 0
	}
	for i := 0; i < n; i++ {
		m.BlkHdr = append(m.BlkHdr, g.header(hs))
	}
	return m
}

func genInv(g *gen, size int) mt.Message {
	m := &mt.Inv{}
	m.P.InvType = common.InventoryType(g.u64())
	n := g.count(size, pc.MAX_INV_BLK_CNT)
	for i := 0; i < n; i++ {
		m.P.Blk = append(m.P.Blk, g.hash())
	}
	return m
}

// tx builds an immutable transaction the way the node does (MutableTransaction →
// IntoImmutable, or TransactionFromEIP155).  kind: 0 invoke-neo, 1 invoke-wasm, 2 deploy, 3 EIP155.
func (g *gen) tx(size, kind int) *ctypes.Transaction {
	if kind == 3 {
		key, err := ethcrypto.ToECDSA(append([]byte{1}, g.rng.Bytes(31)...))
		if err != nil {
			panic(err)
		}
		var to ethcommon.Address
		copy(to[:], g.rng.Bytes(20))
		price := new(big.Int).Mul(big.NewInt(int64(g.rng.Intn(5000))), big.NewInt(constants.GWei))
		et := ethtypes.NewTransaction(uint64(g.u32()), to, new(big.Int).SetUint64(g.rng.U64()>>8), g.rng.U64()>>20, price, g.blob(size))
		signed, err := ethtypes.SignTx(et, ethtypes.NewEIP155Signer(big.NewInt(int64(1+g.rng.Intn(9000)))), key)
		if err != nil {
			panic(err)
		}
		tx, err := ctypes.TransactionFromEIP155(signed)
		if err != nil {
			panic(err)
		}
		return tx
	}
	m := &ctypes.MutableTransaction{Nonce: g.u32(), GasPrice: g.u64(), GasLimit: g.u64(), Payer: g.addr()}
	switch kind {
	case 0:
		m.TxType, m.Payload = ctypes.InvokeNeo, &payload.InvokeCode{Code: g.blob(size)}
	case 1:
		m.TxType, m.Payload = ctypes.InvokeWasm, &payload.InvokeCode{Code: g.blob(size)}
	default:
		vm := []payload.VmType{payload.NEOVM_TYPE, payload.WASMVM_TYPE}[g.rng.Intn(2)]
		dc, err := payload.NewDeployCode(g.blob(size), vm, g.str(size), g.str(size), g.str(size), g.str(size), g.str(size))
		if err != nil {
			panic(err)
		}
		m.TxType, m.Payload = ctypes.Deploy, dc
	}
	ss := size
	if ss == 3 {
		ss = 2
	}
	ns := g.count(ss, constants.TX_MAX_SIG_SIZE)
	if size == 3 {
		ns = constants.TX_MAX_SIG_SIZE
	}
	for i := 0; i < ns; i++ {
		sg := ctypes.Sig{M: 1}
		nk := 1
		if g.rng.Chance(30) && size >= 2 {
			nk = 2 + g.rng.Intn(3)
			sg.M = uint16(1 + g.rng.Intn(nk))
		}
		seen := map[int]bool{}
		for len(sg.PubKeys) < nk {
			k := g.rng.Intn(8) // P-256 keys
			if seen[k] {
				continue
			}
			seen[k] = true
			sg.PubKeys = append(sg.PubKeys, accounts[k].PublicKey)
		}
		for j := 0; j < int(sg.M); j++ {
			sg.SigData = append(sg.SigData, g.rng.Bytes(64))
		}
		m.Sigs = append(m.Sigs, sg)
	}
	tx, err := m.IntoImmutable()
	if err != nil {
		panic(fmt.Sprintf("IntoImmutable: %v", err))
	}
	return tx
}

func genBlock(g *gen, size int) mt.Message {
	hs := size
	if size == 3 {
		hs = 2
	}
	b := &ctypes.Block{Header: g.header(hs)}
	nt := g.count(hs, 6)
	seen := map[common.Uint256]bool{}
	for len(b.Transactions) < nt {
		kind := g.rng.Intn(4)
		if size == 1 {
			kind = 0
		}
		tx := g.tx(hs, kind)
		if seen[tx.Hash()] {
			continue
		}
		seen[tx.Hash()] = true
		b.Transactions = append(b.Transactions, tx)
	}
	b.RebuildMerkleRoot()
	m := &mt.Block{Blk: b, MerkleRoot: g.hash()}
	if size == 1 || size >= 2 && g.rng.Bool() {
		cc := &ctypes.CrossChainMsg{Version: byte(g.u64()), Height: g.u32(), StatesRoot: g.hash()}
		for i, n := 0, g.count(hs, 7); i < n; i++ {
			cc.SigData = append(cc.SigData, g.rng.Bytes(1+g.rng.Intn(66)))
		}
		m.CCMsg = cc
	}
	return m
}

func genConsensus(g *gen, size int) mt.Message {
	m := &mt.Consensus{}
	c := &m.Cons
	c.Version, c.PrevHash, c.Height, c.BookkeeperIndex, c.Timestamp = g.u32(), g.hash(), g.u32(), uint16(g.u64()), g.u32()
	c.Data = g.blob(size)
	c.Owner = g.acct().PublicKey
	c.Signature = g.blob(size)
	// PeerId is not a wire field (it is filled in by the receiver), it stays zero
	return m
}

func genFindNodeResp(g *gen, size int) mt.Message {
	m := &mt.FindNodeResp{TargetID: g.peerID(), Success: g.rng.Bool() || size == 1, Address: g.str(size)}
	for i, n := 0, g.count(size, 20); i < n; i++ {
		m.CloserPeers = append(m.CloserPeers, pc.PeerIDAddressPair{ID: g.peerID(), Address: g.str(size)})
	}
	return m
}

func genUpdateKadID(g *gen, size int) mt.Message {
	raw, _ := hex.DecodeString(kadKeys[g.rng.Intn(len(kadKeys))])
	pk, err := keypair.DeserializePublicKey(raw)
	if err != nil {
		panic(err)
	}
	a := ctypes.AddressFromPubKey(pk)
	var id pc.PeerId
	if err := id.Deserialization(common.NewZeroCopySource(a[:])); err != nil {
		panic(err)
	}
	return &mt.UpdatePeerKeyId{KadKeyId: &pc.PeerKeyId{PublicKey: pk, Id: id}}
}

func genMembersReq(g *gen, size int) mt.Message {
	m := &mt.SubnetMembersRequest{From: g.peerID(), To: g.peerID()}
	if size == 0 || size >= 2 && g.rng.Chance(30) {
		return m // request from a seed node: Timestamp 0, no key, no signature
	}
	// The decoder rejects requests older than one hour (wall clock).  Timestamps are drawn
	// from the top of the uint32 range (year 2100+) so the verdict never depends on the clock.
	m.Timestamp = 0xF0000000 + uint32(g.rng.Intn(0x0FFFFFFF))
	acc := g.acct()
	m.PubKey = acc.PublicKey
	sink := common.NewZeroCopySink(nil) // = SubnetMembersRequest.sigdata()
	m.From.Serialization(sink)
	m.To.Serialization(sink)
	sink.WriteUint32(m.Timestamp)
	sig, err := signature.Sign(acc, sink.Bytes())
	if err != nil {
		panic(err)
	}
	m.Sig = sig
	return m
}

func genMembers(g *gen, size int) mt.Message {
	m := &mt.SubnetMembers{}
	for i, n := 0, g.count(size, 40); i < n; i++ {
		m.Members = append(m.Members, mt.MemberInfo{PubKey: g.str(size), Addr: g.str(size)})
	}
	return m
}

func genOffline(g *gen, size int) mt.Message {
	m := &mt.OfflineWitnessMsg{Timestamp: g.u32(), View: g.u32()}
	nk := 1 + g.count(size, 254)
	if size == 2 {
		nk = 1 + g.rng.Intn(8)
	}
	for i := 0; i < nk; i++ {
		m.NodePubKeys = append(m.NodePubKeys, vconfig.PubkeyID(accounts[i%len(accounts)].PublicKey))
	}
	prop := g.acct()
	m.Proposer = vconfig.PubkeyID(prop.PublicKey)
	if err := m.AddProposeSig(prop); err != nil {
		panic(err)
	}
	nv := g.count(size, 4)
	if size == 3 {
		nv = 3
	}
	for i := 0; i < nv; i++ {
		var idx []uint8
		for j, n := 0, g.count(size, 5); j < n; j++ {
			idx = append(idx, uint8(g.rng.Intn(nk)))
		}
		if err := m.VoteFor(g.acct(), idx); err != nil {
			panic(err)
		}
	}
	return m
}

// payloadOf serializes a message body with the code under test.
func payloadOf(m mt.Message) []byte {
	sink := common.NewZeroCopySink(nil)
	m.Serialization(sink)
	return sink.Bytes()
}
