package main

import (
	"bytes"
	"encoding/binary"
	"fmt"

	"github.com/ontio/ontology-crypto/ec"
	"github.com/ontio/ontology-crypto/keypair"
	"github.com/ontio/ontology/common/config"
	"github.com/ontio/ontology/common/constants"
	pc "github.com/ontio/ontology/p2pserver/common"
	mt "github.com/ontio/ontology/p2pserver/message/types"
	"verifharness/lib/vf"
)

// ---------------------------------------------------------------- batches

// batch is the unit of work of one child process.  The list is a pure function of the tier.
type batch struct {
	Kind  string `json:"kind"` // payload | stream | cross | alloc | link
	Cmd   string `json:"cmd,omitempty"`
	Round int    `json:"round"`
	Part  int    `json:"part"`  // payload batches of expensive types are split: part k of Parts
	Parts int    `json:"parts"` // scans the positions o with o%Parts==k
	Magic uint32 `json:"magic"`
}

// partsOf: decoding one public key costs ≈0.1 ms (modular square root), so the types that
// carry keys or signatures get their position scan split over several children.
func partsOf(cmd string) int {
	switch cmd {
	case pc.HEADERS_TYPE, pc.BLOCK_TYPE, pc.TX_TYPE, pc.CONSENSUS_TYPE, pc.SUBNET_OFFLINE_TYPE, pc.GET_SUBNET_MEMBERS_TYPE:
		return 6
	case pc.UPDATE_KADID_TYPE, pc.FINDNODE_RESP_TYPE, pc.SUBNET_MEMBERS_TYPE, pc.ADDR_TYPE, pc.VERSION_TYPE, pc.INV_TYPE:
		return 2
	}
	return 1
}

func magicFor(i int) uint32 {
	switch i % 3 {
	case 0:
		return constants.NETWORK_MAGIC_MAINNET
	case 1:
		return constants.NETWORK_MAGIC_POLARIS
	}
	return uint32(vf.NewRNG(vf.Seed()).Sub(0x3a61c).U64()) | 1
}

func batches() []batch {
	var bs []batch
	rounds := vf.N(1, 12)
	for r := 0; r < rounds; r++ {
		for i, sp := range specs {
			for k, n := 0, partsOf(sp.cmd); k < n; k++ {
				bs = append(bs, batch{Kind: "payload", Cmd: sp.cmd, Round: r, Part: k, Parts: n, Magic: magicFor(i + r + k)})
			}
		}
	}
	for r := 0; r < vf.N(2, 10); r++ {
		bs = append(bs, batch{Kind: "stream", Round: r, Parts: 1, Magic: magicFor(r)})
	}
	for r := 0; r < vf.N(1, 8); r++ {
		bs = append(bs, batch{Kind: "cross", Round: r, Parts: 1, Magic: magicFor(r + 1)})
	}
	// appended (never inserted): the seeds of the batches above depend on their index
	for r := 0; r < vf.N(1, 2); r++ {
		for i, sp := range specs {
			bs = append(bs, batch{Kind: "alloc", Cmd: sp.cmd, Round: r, Parts: 1, Magic: magicFor(i + r)})
		}
	}
	for r := 0; r < vf.N(4, 16); r++ {
		bs = append(bs, batch{Kind: "link", Round: r, Parts: 1, Magic: magicFor(r)})
	}
	return bs
}

// ---------------------------------------------------------------- the count/length grid

// Values written into every position of a valid payload, in every width a count or length
// field can have on the wire.  The mandatory grid {0,1,MAX,MAX+1,2^31,2^32-1,2^63,2^64-1} is
// a subset (MAX ∈ {16 tx sigs, 64 addr/inv, 255 offline keys, 500 headers}); 2^16..2^24 are
// added because an unchecked make([]T, count) of that size succeeds silently and is only
// visible through the allocation bound.
var (
	gridU8  = []uint64{0, 1, 2, 16, 17, 64, 65, 0x7f, 0x80, 0xfc, 0xfd, 0xfe, 0xff}
	gridU16 = []uint64{0, 1, 64, 65, 255, 256, 500, 501, 0x7fff, 0x8000, 0xffff}
	gridU32 = []uint64{0, 1, 16, 17, 64, 65, 255, 256, 500, 501, 1 << 16, 1 << 20, 1 << 24, 1<<31 - 1, 1 << 31, 1<<32 - 1}
	gridU64 = []uint64{0, 1, 64, 65, 500, 501, 1 << 16, 1 << 20, 1 << 24, 1 << 31, 1<<32 - 1, 1 << 32, 1 << 40, 1 << 59, 1 << 62, 1<<63 - 1, 1 << 63, 1<<63 + 1, ^uint64(0) - 1, ^uint64(0)}
	gridVar = []uint64{0, 1, 16, 17, 64, 65, 0xfc, 0xfd, 255, 256, 500, 501, 0xffff, 0x10000, 1 << 20, 1 << 24, 1 << 31, 1<<32 - 1, 1 << 32, 1 << 40, 1 << 59, 1 << 62, 1<<63 - 1, 1 << 63, ^uint64(0)}
	// non-canonical var-uint encodings (value fits a shorter form)
	irregularVar = [][]byte{{0xfd, 0, 0}, {0xfd, 1, 0}, {0xfd, 0xfc, 0}, {0xfe, 0, 0, 0, 0}, {0xfe, 1, 0, 0, 0}, {0xfe, 0xff, 0xff, 0, 0},
		{0xff, 0, 0, 0, 0, 0, 0, 0, 0}, {0xff, 1, 0, 0, 0, 0, 0, 0, 0}, {0xff, 0xff, 0xff, 0xff, 0xff, 0, 0, 0, 0}}
)

func varuint(v uint64) []byte {
	switch {
	case v < 0xfd:
		return []byte{byte(v)}
	case v <= 0xffff:
		return []byte{0xfd, byte(v), byte(v >> 8)}
	case v <= 0xffffffff:
		b := []byte{0xfe, 0, 0, 0, 0}
		binary.LittleEndian.PutUint32(b[1:], uint32(v))
		return b
	}
	b := make([]byte, 9)
	b[0] = 0xff
	binary.LittleEndian.PutUint64(b[1:], v)
	return b
}

func varWidth(first byte) int {
	switch first {
	case 0xfd:
		return 3
	case 0xfe:
		return 5
	case 0xff:
		return 9
	}
	return 1
}

// scanOffsets lists the positions of a payload that get the full grid.
func scanOffsets(rng *vf.RNG, n int) []int {
	const all = 420
	var o []int
	for i := 0; i < n && i < all; i++ {
		o = append(o, i)
	}
	if n > all {
		// the tail of a long payload holds the last sections (e.g. a block's CrossChainMsg)
		for i := n - 160; i < n; i++ {
			if i >= all {
				o = append(o, i)
			}
		}
		for k := 0; k < 160; k++ {
			o = append(o, all+rng.Intn(n-all))
		}
	}
	return o
}

// gridScan overwrites every scanned position with every grid value in every width.
func (c *child) gridScan(rng *vf.RNG, cmd string, p []byte, label string) {
	put := func(tag string, q []byte) { c.run(hcase{kind: 'P', tag: tag, cmd: cmd, data: q}) }
	for _, o := range scanOffsets(rng, len(p)) {
		if o%c.batch.Parts != c.batch.Part || (o/c.batch.Parts)%c.scanStride != 0 {
			continue
		}
		for _, v := range gridU8 {
			if byte(v) == p[o] {
				continue
			}
			q := append([]byte(nil), p...)
			q[o] = byte(v)
			put(fmt.Sprintf("grid-u8:%s@%d=%d", label, o, v), q)
		}
		if o+2 <= len(p) {
			for _, v := range gridU16 {
				q := append([]byte(nil), p...)
				binary.LittleEndian.PutUint16(q[o:], uint16(v))
				put(fmt.Sprintf("grid-u16:%s@%d=%d", label, o, v), q)
			}
		}
		if o+4 <= len(p) {
			for _, v := range gridU32 {
				q := append([]byte(nil), p...)
				binary.LittleEndian.PutUint32(q[o:], uint32(v))
				put(fmt.Sprintf("grid-u32:%s@%d=%d", label, o, v), q)
			}
		}
		if o+8 <= len(p) {
			for _, v := range gridU64 {
				q := append([]byte(nil), p...)
				binary.LittleEndian.PutUint64(q[o:], v)
				put(fmt.Sprintf("grid-u64:%s@%d=%d", label, o, v), q)
			}
		}
		// the position read as a var-uint: replace it (tail kept) by another var-uint
		w := varWidth(p[o])
		if o+w <= len(p) {
			for _, v := range gridVar {
				q := append(append(append([]byte(nil), p[:o]...), varuint(v)...), p[o+w:]...)
				put(fmt.Sprintf("grid-var:%s@%d=%d", label, o, v), q)
			}
			for k, enc := range irregularVar {
				q := append(append(append([]byte(nil), p[:o]...), enc...), p[o+w:]...)
				put(fmt.Sprintf("grid-irr:%s@%d#%d", label, o, k), q)
			}
		}
	}
}

func (c *child) truncations(rng *vf.RNG, cmd string, p []byte, label string) {
	step := 1
	if len(p) > 4096 {
		step = len(p) / 2048
	}
	for l := 0; l < len(p); l += step {
		c.run(hcase{kind: 'P', tag: fmt.Sprintf("trunc:%s@%d", label, l), cmd: cmd, data: append([]byte(nil), p[:l]...)})
		if step > 1 && l > 512 {
			l += rng.Intn(step)
		}
	}
	// extensions: trailing garbage
	for _, extra := range []int{1, 2, 33, 100} {
		c.run(hcase{kind: 'P', tag: fmt.Sprintf("extend:%s+%d", label, extra), cmd: cmd, data: append(append([]byte(nil), p...), rng.Bytes(extra)...)})
	}
}

func (c *child) randomMutations(rng *vf.RNG, cmd string, p []byte, label string, n int) {
	if len(p) == 0 {
		return
	}
	for i := 0; i < n; i++ {
		q := append([]byte(nil), p...)
		for k, m := 0, 1+rng.Intn(3); k < m; k++ {
			o := rng.Intn(len(q))
			switch rng.Intn(6) {
			case 0:
				q[o] ^= 1 << uint(rng.Intn(8))
			case 1:
				q[o] = byte(rng.U64())
			case 2:
				q[o] = []byte{0, 1, 0x7f, 0x80, 0xfd, 0xfe, 0xff}[rng.Intn(7)]
			case 3: // delete a run
				e := o + 1 + rng.Intn(8)
				if e > len(q) {
					e = len(q)
				}
				q = append(q[:o], q[e:]...)
			case 4: // insert a run
				ins := rng.Bytes(1 + rng.Intn(8))
				q = append(q[:o], append(ins, q[o:]...)...)
			case 5: // duplicate a run
				e := o + 1 + rng.Intn(40)
				if e > len(q) {
					e = len(q)
				}
				q = append(q[:e], append(append([]byte(nil), q[o:e]...), q[e:]...)...)
			}
			if len(q) == 0 {
				break
			}
		}
		c.run(hcase{kind: 'P', tag: "mutate:" + label, cmd: cmd, data: q})
	}
}

// altKeys re-encodes every P-256 public key of a payload in the two alternative encodings
// keypair.DeserializePublicKey accepts (uncompressed 0x04‖X‖Y; 0x12‖curve‖compressed).
func (c *child) altKeys(cmd string, p []byte, label string) {
	for i := 0; i < 8; i++ {
		pk := accounts[i].PublicKey.(*ec.PublicKey)
		comp := keypair.SerializePublicKey(pk)
		needle := append([]byte{byte(len(comp))}, comp...)
		o := bytes.Index(p, needle)
		if o < 0 {
			continue
		}
		unc := ec.EncodePublicKey(pk.PublicKey, false)
		lab := append([]byte{byte(keypair.PK_ECDSA), keypair.P256}, comp...)
		alts := [][]byte{append([]byte{byte(len(unc))}, unc...), append([]byte{byte(len(lab))}, lab...)}
		for k, alt := range alts {
			q := append(append(append([]byte(nil), p[:o]...), alt...), p[o+len(needle):]...)
			c.run(hcase{kind: 'P', tag: fmt.Sprintf("altkey:%s#%d@%d", label, k, o), cmd: cmd, data: q})
		}
	}
}

// ---------------------------------------------------------------- payload batch

func (c *child) payloadBatch(rng *vf.RNG) {
	sp := specOf(c.batch.Cmd)
	g := &gen{rng: rng.Sub(1)}
	nMut := vf.N(300, 1500)
	part := func(k int) bool { return k%c.batch.Parts == c.batch.Part }
	type seedv struct {
		label string
		size  int
		scan  bool
	}
	seeds := []seedv{{"rich", 1, true}, {"empty", 0, false}, {"random", 2, true}, {"random2", 2, false}}
	if c.batch.Round > 0 {
		seeds = []seedv{{"random", 2, true}, {"random2", 2, true}, {"random3", 2, false}}
	}
	if c.batch.Round%4 == 0 {
		seeds = append(seeds, seedv{"boundary", 3, false})
	}
	for _, sd := range seeds {
		m := sp.gen(g, sd.size)
		p := payloadOf(m)
		// the unmodified payload first: it must be accepted (otherwise the mutants exercise nothing)
		before := c.ctr["accept:"+sp.cmd]
		c.run(hcase{kind: 'P', tag: "valid:" + sd.label, cmd: sp.cmd, data: p})
		if c.ctr["accept:"+sp.cmd] > before {
			c.count("seed_accepted:" + sp.cmd)
		}
		if part(0) {
			c.truncations(rng.Sub(2), sp.cmd, p, sd.label)
		}
		if sd.scan {
			// quick tier: the second scanned value of the key-carrying types (≈0.1 ms per key
			// and decode) gets every second position; the thorough tier scans all of them
			c.scanStride = 1
			if !vf.Thorough() && sd.label != "rich" && c.batch.Parts >= 6 {
				c.scanStride = 2
			}
			c.gridScan(rng.Sub(3), sp.cmd, p, sd.label)
		}
		c.randomMutations(rng.Sub(uint64(4+sd.size)*64+uint64(c.batch.Part)), sp.cmd, p, sd.label, nMut/c.batch.Parts+1)
		if part(1) {
			c.altKeys(sp.cmd, p, sd.label)
		}
	}
	if part(2) {
		c.overMax(g)
	}
	// pure noise, and noise behind a plausible prefix
	rr := rng.Sub(9 + uint64(c.batch.Part))
	for i, n := 0, vf.N(400, 2000)/c.batch.Parts; i < n; i++ {
		l := rr.Intn(200)
		if rr.Chance(5) {
			l = rr.Intn(5000)
		}
		q := rr.Bytes(l)
		if rr.Bool() && l > 12 {
			// small leading counts make a decoder enter its loops
			for k := 0; k < 12; k++ {
				if rr.Chance(60) {
					q[k] = byte(rr.Intn(4))
				}
			}
		}
		c.run(hcase{kind: 'P', tag: "noise", cmd: sp.cmd, data: q})
	}
}

// overMax builds lists longer than the documented maxima with the real serializers: the
// decoder must clamp (addr, inv) or accept, never panic.
func (c *child) overMax(g *gen) {
	switch c.batch.Cmd {
	case pc.ADDR_TYPE:
		for _, n := range []int{pc.MAX_ADDR_NODE_CNT, pc.MAX_ADDR_NODE_CNT + 1, 100, 1000} {
			a := genAddr(g, 3).(*mt.Addr)
			for len(a.NodeAddrs) < n {
				a.NodeAddrs = append(a.NodeAddrs, a.NodeAddrs[g.rng.Intn(len(a.NodeAddrs))])
			}
			before := c.ctr["exempt:addr-clamped"]
			c.run(hcase{kind: 'P', tag: fmt.Sprintf("overmax:%d", n), cmd: c.batch.Cmd, data: payloadOf(a)})
			if n > pc.MAX_ADDR_NODE_CNT && c.ctr["exempt:addr-clamped"] > before {
				c.count("clamp_checked:addr")
			}
		}
	case pc.INV_TYPE:
		for _, n := range []int{pc.MAX_INV_BLK_CNT, pc.MAX_INV_BLK_CNT + 1, 100, 1000} {
			v := genInv(g, 3).(*mt.Inv)
			for len(v.P.Blk) < n {
				v.P.Blk = append(v.P.Blk, g.hash())
			}
			before := c.ctr["exempt:inv-clamped"]
			c.run(hcase{kind: 'P', tag: fmt.Sprintf("overmax:%d", n), cmd: c.batch.Cmd, data: payloadOf(v)})
			if n > pc.MAX_INV_BLK_CNT && c.ctr["exempt:inv-clamped"] > before {
				c.count("clamp_checked:inv")
			}
		}
	case pc.HEADERS_TYPE:
		h := genHeaders(g, 3).(*mt.BlkHeader)
		for len(h.BlkHdr) < pc.MAX_BLK_HDR_CNT+1 {
			h.BlkHdr = append(h.BlkHdr, h.BlkHdr[0])
		}
		c.run(hcase{kind: 'P', tag: "overmax:501", cmd: c.batch.Cmd, data: payloadOf(h)})
	}
}

// ---------------------------------------------------------------- cross batch

// crossBatch delivers the body of one message type under the command of another, and
// bodies under unknown / malformed commands.
func (c *child) crossBatch(rng *vf.RNG) {
	g := &gen{rng: rng.Sub(1)}
	var bodies [][]byte
	for _, sp := range specs {
		bodies = append(bodies, payloadOf(sp.gen(g, 1)), payloadOf(sp.gen(g, 2)))
	}
	for i, sp := range specs {
		for j, b := range bodies {
			if j/2 == i {
				continue
			}
			c.run(hcase{kind: 'P', tag: "cross:" + specs[j/2].cmd, cmd: sp.cmd, data: b})
		}
	}
	cmds := []string{"", "x", "PING", "ping ", " ping", "pingx", "versio", "versionn", "abcdefghijkl", "ping\x00x", "\x00ping", "tx\x00\x00tx", "block\xff", "\xff\xff\xff\xff\xff\xff\xff\xff\xff\xff\xff\xff"}
	for i := 0; i < 40; i++ {
		cmds = append(cmds, string(rng.Bytes(1+rng.Intn(12))))
	}
	for _, cmd := range cmds {
		for k := 0; k < 4; k++ {
			c.run(hcase{kind: 'P', tag: "unknown-cmd", cmd: cmd, data: bodies[rng.Intn(len(bodies))]})
		}
		c.run(hcase{kind: 'P', tag: "unknown-cmd", cmd: cmd, data: nil})
	}
}

// ---------------------------------------------------------------- stream batch

func (c *child) streamBatch(rng *vf.RNG) {
	g := &gen{rng: rng.Sub(1)}
	magic := config.DefConfig.P2PNode.NetworkMagic
	S := func(tag, expect string, decl uint64, s []byte) {
		c.run(hcase{kind: 'S', tag: tag, cmd: expect, declLen: decl, data: s})
	}
	hdrOnly := func(mg uint32, cmd string, l uint32, sum [4]byte) []byte { return frameRaw(mg, cmd, l, sum, nil) }
	foreign := []uint32{magic ^ 1, magic ^ 0x80000000, magic ^ 0x00010000, magic + 1, magic - 1, 0, ^uint32(0),
		magic<<8 | magic>>24, magic>>8 | magic<<24, constants.NETWORK_MAGIC_MAINNET, constants.NETWORK_MAGIC_POLARIS, uint32(rng.U64())}
	over := []uint32{pc.MAX_PAYLOAD_LEN + 1, pc.MAX_PAYLOAD_LEN + 2, pc.MAX_MSG_LEN, pc.MAX_MSG_LEN + 1, 1 << 25, 1 << 30, 1<<31 - 1, 1 << 31, 1<<31 + 1, 1<<32 - 2, 1<<32 - 1}

	var frames [][]byte
	var fcmds []string
	for i, sp := range specs {
		size := 1 + (i+c.batch.Round)%2
		p := payloadOf(sp.gen(g, size))
		fr := frame(magic, sp.cmd, p)
		frames = append(frames, fr)
		fcmds = append(fcmds, sp.cmd)
		sum := pc.Checksum(p)

		S("valid:"+sp.cmd, "a", uint64(len(p)), fr)
		// -- wrong magic: body intact / huge declared length, no body
		for _, mg := range foreign {
			if mg == magic {
				continue
			}
			q := append([]byte(nil), fr...)
			binary.LittleEndian.PutUint32(q, mg)
			S("wrong-magic:body", "E", uint64(len(p)), q)
			S("wrong-magic:declmax", "E", pc.MAX_PAYLOAD_LEN, hdrOnly(mg, sp.cmd, pc.MAX_PAYLOAD_LEN, sum))
		}
		// -- oversized length: header only, and header + original body
		for _, l := range over {
			S("oversized-length:hdr", "E", uint64(l), hdrOnly(magic, sp.cmd, l, sum))
			S("oversized-length:body", "E", uint64(l), frameRaw(magic, sp.cmd, l, sum, p))
		}
		// -- the largest legal declaration with a short body: rejected (eof), may allocate ≤ MAX
		if i%7 == c.batch.Round%7 {
			S("truncated:declmax", "e", pc.MAX_PAYLOAD_LEN, frameRaw(magic, sp.cmd, pc.MAX_PAYLOAD_LEN, sum, p))
		}
		// -- bad checksum
		for k := 0; k < 4; k++ {
			for _, x := range []byte{0x01, 0x80, 0xff} {
				q := append([]byte(nil), fr...)
				q[20+k] ^= x
				S("bad-checksum:sum", "e", uint64(len(p)), q)
			}
		}
		S("bad-checksum:zero", okUnless(sum == [4]byte{}), uint64(len(p)), frameRaw(magic, sp.cmd, uint32(len(p)), [4]byte{}, p))
		for k := 0; k < 24 && len(p) > 0; k++ {
			q := append([]byte(nil), fr...)
			o := rng.Intn(len(p))
			q[24+o] ^= 1 << uint(rng.Intn(8))
			S("bad-checksum:body", okUnless(pc.Checksum(q[24:]) == sum), uint64(len(p)), q)
		}
		// -- the length field lies (checksum of the original body)
		if len(p) > 0 {
			S("bad-checksum:len-1", okUnless(pc.Checksum(p[:len(p)-1]) == sum), uint64(len(p)-1), frameRaw(magic, sp.cmd, uint32(len(p)-1), sum, p))
			S("bad-checksum:len0", okUnless(pc.Checksum(nil) == sum), 0, frameRaw(magic, sp.cmd, 0, sum, p))
		}
		S("truncated:len+1", "e", uint64(len(p)+1), frameRaw(magic, sp.cmd, uint32(len(p)+1), sum, p))
		S("truncated:len+1pad", okUnless(pc.Checksum(append(append([]byte(nil), p...), 0)) == sum), uint64(len(p)+1), frameRaw(magic, sp.cmd, uint32(len(p)+1), sum, append(append([]byte(nil), p...), 0)))
		// -- truncation at every offset of the frame
		step := 1
		if len(fr) > 1500 {
			step = len(fr) / 750
		}
		for l := 0; l < len(fr); l += step {
			S("truncated:frame", "e", uint64(len(p)), append([]byte(nil), fr[:l]...))
			if l < 24 {
				step = 1
			} else if len(fr) > 1500 {
				step = len(fr) / 750
			}
		}
	}
	// -- consecutive frames on one connection
	for k := 0; k < 12; k++ {
		var fs [][]byte
		var cs []string
		for j, n := 0, 2+rng.Intn(5); j < n; j++ {
			x := rng.Intn(len(frames))
			fs, cs = append(fs, frames[x]), append(cs, fcmds[x])
		}
		c.checkSequence("seq", fs, cs)
	}
	// -- the largest legal message (unknown command, MAX_PAYLOAD_LEN bytes): accepted; with a
	//    damaged checksum: rejected; one byte more: rejected before the buffer exists
	if c.batch.Round == 0 {
		big := make([]byte, pc.MAX_PAYLOAD_LEN)
		copy(big, rng.Bytes(4096))
		fr := frame(magic, "bigblob", big)
		S("max-length:valid", "a", pc.MAX_PAYLOAD_LEN, fr)
		fr[20] ^= 0x55
		S("bad-checksum:max-length", "e", pc.MAX_PAYLOAD_LEN, fr)
		fr[20] ^= 0x55
		binary.LittleEndian.PutUint32(fr[16:], pc.MAX_PAYLOAD_LEN+1)
		S("oversized-length:max+1-with-body", "E", pc.MAX_PAYLOAD_LEN+1, append(fr, 0))
	}
	// -- noise
	rr := rng.Sub(7)
	for i, n := 0, vf.N(3000, 30000); i < n; i++ {
		l := rr.Intn(120)
		q := rr.Bytes(l)
		switch rr.Intn(4) {
		case 0: // pure noise
		case 1: // right magic, random rest
			if l >= 4 {
				binary.LittleEndian.PutUint32(q, magic)
			}
		case 2: // right magic, known command, small declared length, random checksum
			if l >= 24 {
				copy(q, frameRaw(magic, specs[rr.Intn(len(specs))].cmd, uint32(rr.Intn(l-23)), [4]byte{q[20], q[21], q[22], q[23]}, nil))
			}
		case 3: // fully valid header over a random body
			body := rr.Bytes(rr.Intn(100))
			q = frame(magic, specs[rr.Intn(len(specs))].cmd, body)
		}
		decl := uint64(0)
		if len(q) >= 20 {
			decl = uint64(binary.LittleEndian.Uint32(q[16:]))
		}
		S("noise", "a", decl, q)
	}
}

// okUnless: a damaged frame must be rejected unless the damage happens to keep the checksum valid.
func okUnless(stillValid bool) string {
	if stillValid {
		return "a"
	}
	return "e"
}
