package main

// Real-connection family: p2pserver/link.Link reading from a net.Pipe or a loopback TCP
// connection, the way netserver uses it (NewLink, go Link.Rx(), messages taken from the
// receive channel, CloseConn from another goroutine, Send failing on a dead connection).
//
// One schedule = a list of well-formed frames (every message type, many getdata / ping /
// addr / inv / getheaders requests, unknown commands), written by the remote side in one or
// a few writes so that several messages sit in the link's read buffer together; a consumer
// that takes messages from the channel with seeded pauses; and a closer that closes the link
// at a seeded point: before Rx starts, racing with its start, when the k-th message has been
// delivered (the consumer optionally holds still until CloseConn has returned, so that Rx is
// parked on the channel with decoded-but-undelivered messages behind it), after the remote
// has finished, after Rx has returned, or through a failing Send.
//
// Oracle: no panic in any goroutine (Rx runs under recover so the stack is reported; a fatal
// error ends the child and is reported by the supervisor with the schedule that was logged
// before it ran); every delivered message, re-serialized after the whole schedule has ended,
// is byte-identical to a frame that was sent, and the delivered frames appear in the order
// in which they were sent (a subsequence: Rx drops unknown commands and repeated getdata,
// and a closed link delivers a prefix).  Timing decides interleavings only, never a verdict;
// a schedule that does not end within 30 s is reported as inconclusive.

import (
	"bytes"
	"encoding/binary"
	"encoding/json"
	"fmt"
	"net"
	"runtime"
	"runtime/debug"
	"sync"
	"time"

	"github.com/ontio/ontology/common"
	"github.com/ontio/ontology/common/config"
	"github.com/ontio/ontology/common/log"
	pc "github.com/ontio/ontology/p2pserver/common"
	"github.com/ontio/ontology/p2pserver/link"
	mt "github.com/ontio/ontology/p2pserver/message/types"
	"verifharness/lib/vf"
)

type linkSched struct {
	Idx       int      `json:"schedule"`
	Transport string   `json:"transport"` // pipe | tcp
	Cmds      []string `json:"cmds"`
	Lens      []int    `json:"frame_lens"`
	Writes    []int    `json:"write_sizes"` // the remote writes the stream in pieces of these sizes
	ChanCap   int      `json:"chan_cap"`
	CloseAt   string   `json:"close_at"`
	CloseK    int      `json:"close_after_delivery,omitempty"`
	Hold      bool     `json:"consumer_waits_for_close,omitempty"`
	Spin      int      `json:"closer_delay,omitempty"`
	Pauses    []int    `json:"consumer_pauses"`
	Linger    bool     `json:"remote_keeps_open_until_closed,omitempty"`
	SetConn   bool     `json:"set_conn_again,omitempty"`
}

var closeModes = []string{"before-rx", "racing-start", "on-delivery", "on-delivery", "on-delivery", "timer", "after-write", "after-exit", "send-fail", "remote-only"}

func pause(p int) {
	switch {
	case p <= 0:
	case p <= 4:
		for i := 0; i < p; i++ {
			runtime.Gosched()
		}
	default:
		time.Sleep(time.Duration(p) * time.Microsecond)
	}
}

// linkMessages picks the messages of one schedule.
func linkMessages(g *gen) (frames [][]byte, cmds []string) {
	n := 3 + g.rng.Intn(14)
	if g.rng.Chance(15) {
		n = 20 + g.rng.Intn(40)
	}
	requests := []string{pc.GET_DATA_TYPE, pc.GET_DATA_TYPE, pc.GET_DATA_TYPE, pc.PING_TYPE, pc.PONG_TYPE, pc.ADDR_TYPE, pc.INV_TYPE, pc.GET_HEADERS_TYPE,
		pc.GetADDR_TYPE, pc.GET_BLOCKS_TYPE, pc.NOT_FOUND_TYPE, pc.FINDNODE_TYPE, pc.CONSENSUS_TYPE, pc.TX_TYPE, pc.HEADERS_TYPE, pc.VERSION_TYPE, pc.VERACK_TYPE}
	var lastReq *mt.DataReq
	for i := 0; i < n; i++ {
		var m mt.Message
		var cmd string
		switch r := g.rng.Intn(100); {
		case r < 6:
			cmd = []string{"bogus", "PING", "xyz12"}[g.rng.Intn(3)]
			frames, cmds = append(frames, frame(config.DefConfig.P2PNode.NetworkMagic, cmd, g.rng.Bytes(g.rng.Intn(40)))), append(cmds, "unknown:"+cmd)
			continue
		case r < 70:
			cmd = requests[g.rng.Intn(len(requests))]
		default:
			cmd = specs[g.rng.Intn(len(specs))].cmd
		}
		sp := specOf(cmd)
		size := 1 + g.rng.Intn(2)
		m = sp.gen(g, size)
		if dr, ok := m.(*mt.DataReq); ok {
			if lastReq != nil && g.rng.Chance(25) {
				m = &mt.DataReq{DataType: lastReq.DataType, Hash: lastReq.Hash} // a repeated request: Rx drops it
			} else {
				lastReq = dr
			}
		}
		sink := common.NewZeroCopySink(nil)
		mt.WriteMessage(sink, m)
		frames, cmds = append(frames, append([]byte(nil), sink.Bytes()...)), append(cmds, cmd)
	}
	return
}

func makeSched(idx int, rng *vf.RNG, frames [][]byte, cmds []string) linkSched {
	s := linkSched{Idx: idx, Cmds: cmds, Transport: "pipe"}
	if rng.Chance(25) {
		s.Transport = "tcp"
	}
	total := 0
	deliverable := 0
	seenReq := map[string]bool{}
	for i, f := range frames {
		s.Lens = append(s.Lens, len(f))
		total += len(f)
		switch {
		case len(cmds[i]) > 8 && cmds[i][:8] == "unknown:":
		case cmds[i] == pc.GET_DATA_TYPE && seenReq[string(f)]:
		default:
			deliverable++
		}
		seenReq[string(f)] = true
	}
	switch rng.Intn(4) {
	case 0, 1: // everything in one write: buffered together
		s.Writes = []int{total}
	case 2:
		a := 1 + rng.Intn(total)
		s.Writes = []int{a, total - a}
	default:
		rest := total
		for rest > 0 {
			a := 1 + rng.Intn(rest)
			if len(s.Writes) >= 5 {
				a = rest
			}
			s.Writes = append(s.Writes, a)
			rest -= a
		}
	}
	s.ChanCap = []int{0, 0, 1, 2, 8, 10000}[rng.Intn(6)]
	s.CloseAt = closeModes[rng.Intn(len(closeModes))]
	if s.CloseAt == "on-delivery" {
		if deliverable == 0 {
			s.CloseAt = "after-write"
		} else {
			s.CloseK = 1 + rng.Intn(deliverable)
			if rng.Chance(60) {
				s.CloseK = 1 + rng.Intn(1+deliverable/3)
			}
			s.Hold = rng.Chance(60)
		}
	}
	if s.CloseAt == "timer" || s.CloseAt == "racing-start" {
		s.Spin = []int{0, 1, 3, 10, 50, 200, 800}[rng.Intn(7)]
	}
	for i := 0; i <= len(frames); i++ {
		p := 0
		if rng.Chance(35) {
			p = []int{1, 2, 4, 10, 40, 150}[rng.Intn(6)]
		}
		s.Pauses = append(s.Pauses, p)
	}
	s.Linger = rng.Chance(30) && s.CloseAt != "remote-only" && s.CloseAt != "after-exit" && s.CloseAt != "send-fail"
	s.SetConn = rng.Chance(20)
	return s
}

func connPair(transport string) (local, remote net.Conn, err error) {
	if transport == "pipe" {
		local, remote = net.Pipe()
		return
	}
	ln, err := net.Listen("tcp", "127.0.0.1:0")
	if err != nil {
		return nil, nil, err
	}
	defer ln.Close()
	type acc struct {
		c   net.Conn
		err error
	}
	ch := make(chan acc, 1)
	go func() {
		c, err := ln.Accept()
		ch <- acc{c, err}
	}()
	remote, err = net.DialTimeout("tcp", ln.Addr().String(), 10*time.Second)
	if err != nil {
		return nil, nil, err
	}
	a := <-ch
	if a.err != nil {
		remote.Close()
		return nil, nil, a.err
	}
	return a.c, remote, nil
}

func (c *child) linkBatch(rng *vf.RNG) {
	log.InitLog(log.FatalLog) // Rx logs every read error; discard
	n := vf.N(160, 700)
	for i := 0; i < n; i++ {
		r := rng.Sub(uint64(i))
		g := &gen{rng: r.Sub(1)}
		frames, cmds := linkMessages(g)
		s := makeSched(i, r.Sub(2), frames, cmds)
		c.runLink(s, frames)
	}
}

func (c *child) runLink(s linkSched, frames [][]byte) {
	i := c.idx
	c.idx++
	if i < c.start {
		return
	}
	var stream []byte
	for _, f := range frames {
		stream = append(stream, f...)
	}
	js, _ := json.Marshal(s)
	data := make([]byte, 4, 4+len(js)+len(stream))
	binary.LittleEndian.PutUint32(data, uint32(len(js)))
	data = append(append(data, js...), stream...)
	hc := hcase{kind: 'L', tag: fmt.Sprintf("link:%s:%s", s.Transport, s.CloseAt), data: data}
	c.cur = &hc
	c.log.Begin(i, hc.record())
	hv := binary.LittleEndian.Uint64(fnvSum(data))
	if _, dup := c.seen[hv]; !dup {
		c.seen[hv] = struct{}{}
		var b [8]byte
		binary.LittleEndian.PutUint64(b[:], hv)
		c.fp.Write(b[:])
	} else {
		c.count("duplicate_case")
	}
	c.evals++

	local, remote, err := connPair(s.Transport)
	if err != nil {
		c.count("link_transport_unavailable:" + s.Transport)
		return
	}
	id := pc.PseudoPeerIdFromUint64(uint64(0x1000 + s.Idx))
	recv := make(chan *mt.MsgPayload, s.ChanCap)
	lk := link.NewLink(id, local, recv)
	if s.SetConn {
		lk.SetConn(local)
	}

	var mu sync.Mutex
	var panics, wheres, stacks []string
	guard := func(where string, f func()) {
		defer func() {
			if e := recover(); e != nil {
				mu.Lock()
				panics = append(panics, fmt.Sprint(e))
				wheres = append(wheres, where)
				stacks = append(stacks, trimStack(debug.Stack()))
				mu.Unlock()
			}
		}()
		f()
	}
	var wg sync.WaitGroup
	closed := make(chan struct{}) // closed once the closer has acted
	var closeOnce sync.Once
	var closeDone bool // CloseConn had returned (read under mu)
	doClose := func() {
		guard("CloseConn", lk.CloseConn)
		mu.Lock()
		closeDone = true
		mu.Unlock()
		closeOnce.Do(func() { close(closed) })
	}
	spawnClose := func(delay int) {
		wg.Add(1)
		go func() {
			defer wg.Done()
			pause(delay)
			doClose()
		}()
	}

	if s.CloseAt == "before-rx" {
		wg.Add(1)
		go func() { defer wg.Done(); doClose() }()
		wg.Wait()
	}
	rxDone := make(chan struct{})
	go func() {
		defer close(rxDone)
		guard("Rx", lk.Rx)
	}()
	if s.CloseAt == "racing-start" {
		spawnClose(s.Spin)
	}
	if s.CloseAt == "timer" {
		spawnClose(5 + s.Spin)
	}
	// -- the remote peer
	written := make(chan struct{})
	wg.Add(1)
	go func() {
		defer wg.Done()
		rest := stream
		for _, w := range s.Writes {
			if w > len(rest) {
				w = len(rest)
			}
			if _, err := remote.Write(rest[:w]); err != nil {
				break
			}
			rest = rest[w:]
		}
		close(written)
		if s.Linger {
			select {
			case <-closed:
			case <-rxDone:
			}
		}
		remote.Close()
	}()
	if s.CloseAt == "after-write" {
		wg.Add(1)
		go func() {
			defer wg.Done()
			<-written
			pause(s.Spin)
			doClose()
		}()
	}
	if s.CloseAt == "send-fail" {
		wg.Add(1)
		go func() {
			defer wg.Done()
			<-written
			pause(20)
			var err error
			guard("Send", func() { err = lk.Send(&mt.Ping{Height: 1}) }) // the remote has closed: Send fails and closes the link
			if err == nil {
				doClose()
			} else {
				mu.Lock()
				closeDone = true
				mu.Unlock()
				closeOnce.Do(func() { close(closed) })
			}
		}()
	}

	// -- the consumer
	type got struct {
		mp         *mt.MsgPayload
		afterClose bool
	}
	var delivered []got
	watchdog := time.NewTimer(30 * time.Second)
	defer watchdog.Stop()
	hung := false
	take := func(mp *mt.MsgPayload) {
		mu.Lock()
		ac := closeDone
		mu.Unlock()
		delivered = append(delivered, got{mp, ac})
		k := len(delivered)
		if s.CloseAt == "on-delivery" && k == s.CloseK {
			if s.Hold {
				wg.Add(1)
				go func() { defer wg.Done(); doClose() }()
				<-closed
			} else {
				spawnClose(s.Spin)
			}
		}
		if k < len(s.Pauses) {
			pause(s.Pauses[k])
		}
	}
	pause(s.Pauses[0])
loop:
	for {
		select {
		case mp := <-recv:
			take(mp)
		case <-rxDone:
			for {
				select {
				case mp := <-recv:
					take(mp)
					continue
				default:
				}
				break
			}
			break loop
		case <-watchdog.C:
			hung = true
			break loop
		}
	}
	if s.CloseAt == "after-exit" && !hung {
		doClose()
		doClose()
	}
	remote.Close()
	local.Close()
	closeOnce.Do(func() { close(closed) })
	if hung {
		// Rx may be parked on the channel: keep draining so that it can leave
		for drained := false; !drained; {
			select {
			case <-recv:
			case <-rxDone:
				drained = true
			case <-time.After(30 * time.Second):
				drained = true
			}
		}
		c.count("link_watchdog")
		c.inconclusive(fmt.Sprintf("link schedule %d did not end within 30 s: %s", s.Idx, js))
		return
	}
	wg.Wait()

	// -- verdicts
	c.count("link:schedules")
	c.count("link_transport:" + s.Transport)
	c.count("link_close:" + s.CloseAt)
	if len(s.Writes) == 1 {
		c.count("link_single_write")
	}
	if s.Hold {
		c.count("link_close_while_rx_parked")
	}
	wit := func(extra map[string]interface{}) map[string]interface{} {
		w := map[string]interface{}{"schedule": s}
		for k, v := range extra {
			w[k] = v
		}
		return w
	}
	for k, p := range panics {
		c.count("panic_caught")
		c.violation("panic:link:"+wheres[k]+":"+panicClass(p), fmt.Sprintf("Link.%s panicked (%s) — %d of %d messages had been delivered, close mode %s", wheres[k], p, len(delivered), len(frames), s.CloseAt),
			wit(map[string]interface{}{"panic": p, "in": "Link." + wheres[k], "stack": stacks[k], "delivered": len(delivered)}))
	}
	next := 0 // sent frames before this index are matched or skipped
	for k, d := range delivered {
		mp := d.mp
		if mp == nil || mp.Payload == nil {
			c.violation("link:nil-message", "a nil message was delivered on the receive channel", wit(map[string]interface{}{"delivery": k}))
			break
		}
		var out []byte
		if p := vf.Catch(func() {
			sink := common.NewZeroCopySink(nil)
			mt.WriteMessage(sink, mp.Payload)
			out = sink.Bytes()
		}); p != nil {
			c.violation("panic:link:WriteMessage:"+panicClass(p), fmt.Sprintf("WriteMessage panicked on a delivered %s: %v", mp.Payload.CmdType(), p), wit(map[string]interface{}{"delivery": k}))
			break
		}
		j := next
		for j < len(frames) && !bytes.Equal(frames[j], out) {
			j++
		}
		if j == len(frames) {
			earlier := -1
			for e := 0; e < next; e++ {
				if bytes.Equal(frames[e], out) {
					earlier = e
				}
			}
			if earlier >= 0 {
				c.violation("link:order", fmt.Sprintf("delivery %d (%s) re-serializes to frame %d, which was sent before an already delivered frame (%d): not in sending order, or delivered twice", k, mp.Payload.CmdType(), earlier, next-1),
					wit(map[string]interface{}{"delivery": k, "delivered_hex": vf.HexTrunc(out, 2048)}))
			} else {
				c.violation("link:reserialize:"+mp.Payload.CmdType(), fmt.Sprintf("delivery %d (%s) re-serializes, after the schedule has ended, to bytes that were never sent", k, mp.Payload.CmdType()),
					wit(map[string]interface{}{"delivery": k, "delivered_hex": vf.HexTrunc(out, 2048)}))
			}
			break
		}
		if int(mp.PayloadSize) != len(frames[j])-pc.MSG_HDR_LEN || mp.Addr != lk.GetAddr() || mp.Id.ToUint64() != id.ToUint64() {
			c.violation("link:envelope", fmt.Sprintf("delivery %d: payload size %d (frame %d), addr %q, id %d", k, mp.PayloadSize, len(frames[j])-pc.MSG_HDR_LEN, mp.Addr, mp.Id.ToUint64()), wit(map[string]interface{}{"delivery": k}))
		}
		for e := next; e < j; e++ {
			c.count("link_skipped_between_deliveries")
		}
		next = j + 1
		c.count("link_delivered")
		if d.afterClose {
			c.count("link_delivered_after_close")
			if mp.Payload.CmdType() == pc.GET_DATA_TYPE {
				c.count("link_getdata_delivered_after_close")
			}
		}
	}
	if len(delivered) == 0 {
		c.count("link_nothing_delivered")
	}
	if next == len(frames) {
		c.count("link_all_delivered")
	}
}
