// C24 — P2P message decoding never panics and round-trips every message.
//
// Oracle (runtime monitoring of the real p2pserver/message/types code):
//
//  1. Structured (in this process): for generated values of every message type of
//     message.go's type switch, WriteMessage → ReadMessage → WriteMessage is byte-identical,
//     the decoded value is deep-equal to the original, the header fields are what the
//     protocol says (magic, NUL-padded command, length, double-SHA256 checksum), the reader
//     is consumed exactly, and consecutive frames on one reader are separated correctly.
//
//  2. Hostile streams and 3. hostile payloads behind a valid header (in child processes,
//     one per batch, every case written to a case log before it runs; see child.go /
//     hostile.go / lib/proc): no panic, no fatal error, rejected-before-allocation for
//     wrong magic and oversized length, rejection of bad checksums and truncations,
//     allocation proportional to the bytes received, and for every accepted message:
//     re-serialization == the bytes its decoder consumed (modulo the documented domain
//     notes), whole-frame identity, decode(serialize(m)) == m, and independence of how the
//     bytes are fragmented by the reader.
package main

import (
	"bytes"
	"encoding/binary"
	"encoding/json"
	"fmt"
	"os"
	"runtime"
	"sort"
	"strings"
	"sync"
	"time"

	"github.com/ontio/ontology/common"
	"github.com/ontio/ontology/common/config"
	pc "github.com/ontio/ontology/p2pserver/common"
	mt "github.com/ontio/ontology/p2pserver/message/types"
	"verifharness/lib/proc"
	"verifharness/lib/vf"
)

func main() {
	if spec, ok := proc.ChildSpec(); ok {
		childMain(spec)
		return
	}
	r := vf.NewRun("C24", "exploration",
		"(1) structured: seeded values of each of the 21 message types in 4 size classes (empty lists / one of everything / random / lists at their documented maximum), distinct by frame bytes; "+
			"(2,3) hostile, in supervised child processes: for valid payloads of every type — every prefix, every position overwritten with the count grid {0,1,MAX,MAX+1,2^16..2^24,2^31,2^32-1,2^63,2^64-1,…} as u8/u16/u32/u64/var-uint (canonical and non-canonical), random byte edits, alternative public-key encodings, lists beyond the maxima, noise, bodies under foreign/unknown commands; "+
			"streams with foreign magic, oversized/lying length, damaged checksum, truncation at every offset, the largest legal frame, consecutive frames, noise; a hostile case is distinct by (kind, command, bytes); "+
			"(4) allocation volume: well-formed list/blob/padded payloads of every type scaled to 48 KiB … several MiB (thorough: to the maximum payload size), one position overwritten (u16/u32/u64/var-uint) with a claim near the payload length, a fraction of it, 2^31, 2^32-1, 2^63, 2^64-1 — distinct by (base recipe, position, width, value); "+
			"(5) real connections: seeded schedules of pipelined well-formed frames over net.Pipe / loopback TCP into link.Link.Rx with a pausing consumer and a concurrent closer (8 close modes) — distinct by (schedule, frames)")
	initKeys()
	if only := os.Getenv("C24_ONLY"); only == "" || strings.Contains(only, "structured") {
		structured(r)
	}
	hostile(r)

	for _, sp := range specs {
		r.Require("roundtrip:"+sp.cmd, int64(vf.N(40, 1000)))
		r.Require("hostile:"+sp.cmd, 300)
		r.Require("seed_accepted:"+sp.cmd, 2)
	}
	for _, sp := range specs {
		switch sp.cmd {
		case pc.GetADDR_TYPE: // the decoder reads nothing and cannot reject
		default:
			r.Require("reject:"+sp.cmd, 10)
		}
		r.Require("accept:"+sp.cmd, 10)
	}
	for _, k := range []string{"stream_rejected_before_alloc:wrong-magic", "stream_rejected_before_alloc:oversized-length", "stream_rejected:bad-checksum",
		"stream_rejected:truncated", "stream:noise", "sequence_ok", "frame_identical", "redecode_equal", "fragmented_equal", "clamp_checked:addr", "clamp_checked:inv",
		"mut:trunc", "mut:grid-u8", "mut:grid-u16", "mut:grid-u32", "mut:grid-u64", "mut:grid-var", "mut:grid-irr", "mut:mutate", "mut:altkey", "mut:noise", "mut:cross", "mut:unknown-cmd",
		"hostile:unknown", "structured:multi-frame", "structured:sink-offset", "children_completed"} {
		r.Require(k, 1)
	}
	r.Require("stream:max-length", 1)
	// allocation-volume oracle
	for _, sp := range specs {
		r.Require("alloc_base:"+sp.cmd, 1)
		if sp.cmd != pc.GetADDR_TYPE { // an empty body has no position to overwrite
			r.Require("alloc_case:"+sp.cmd, 40)
		}
	}
	for _, k := range []string{"alloc_base_shape:list", "alloc_base_shape:blob", "alloc_base_shape:dense", "alloc_base_shape:pad"} {
		r.Require(k, 4)
	}
	r.Require("alloc_claim:near-length", 2000)
	r.Require("alloc_claim:fraction-of-length", 2000)
	r.Require("alloc_claim:huge", 1000)
	for _, k := range []string{"alloc_width:u16", "alloc_width:u32", "alloc_width:u64", "alloc_width:var"} {
		r.Require(k, 800)
	}
	r.Require("alloc_case_size:under-256KiB", 4000)
	r.Require("alloc_case_size:256KiB-2MiB", 500)
	r.Require("alloc_case_size:MiBs", 300)
	r.Require("alloc_rejected", 1000)
	r.Require("alloc_accepted", 1000)
	if vf.Thorough() {
		r.Require("alloc_case_size:max", 300)
	}
	// real-connection family
	r.Require("link:schedules", int64(vf.N(500, 8000)))
	r.Require("link_transport:pipe", 200)
	r.Require("link_transport:tcp", 60)
	seenMode := map[string]bool{}
	for _, m := range closeModes {
		if !seenMode[m] {
			seenMode[m] = true
			r.Require("link_close:"+m, 15)
		}
	}
	r.Require("link_single_write", 150)
	r.Require("link_close_while_rx_parked", 40)
	r.Require("link_delivered", 2000)
	r.Require("link_delivered_after_close", 300)
	r.Require("link_getdata_delivered_after_close", 30)
	r.Require("link_skipped_between_deliveries", 30)
	r.Require("link_all_delivered", 100)
	r.Assume("'allocates' is measured as bytes obtained in large objects (> 32 KiB: one make/growslice sized by a count) during one ReadMessage; allowance for L payload bytes = header + L + 256·L + 64 KiB; the small-object garbage of honest work on bytes that are present (big.Int arithmetic of public-key decompression) is not counted; for the rejected-before-the-buffer clause (wrong magic, oversized length) the total is measured instead and must stay ≤ 4 KiB")
	r.Assume("allocation-volume oracle: the bytes one ReadMessage allocates (runtime.MemStats.TotalAlloc, and its part in objects above the largest reported size class; GOMAXPROCS=1, one goroutine) for a payload whose count/length field claims more than the payload holds must stay ≤ 4 × what the same tree allocates for the well-formed payload it was derived from or for the densest well-formed payload of that type scaled to the same length, whichever is larger (every count truthful; measured in the same process) + 64 KiB + 4 × one public-key decode, and ≤ 16 × MAX_PAYLOAD_LEN; an excess is re-measured twice and the minimum decides")
	r.Assume("link family: Link.Rx, CloseConn and Send run in goroutines of a child process over net.Pipe / loopback TCP; sleeps and yields shape the interleaving only; Rx may drop unknown commands and repeated getdata requests, and a closed link delivers a prefix, so the delivered frames are required to be a subsequence (in sending order) of the sent frames, each byte-identical when re-serialized after the schedule has ended")
	r.Assume("domain notes (documented decoder leniencies, checked with a weaker clause and counted as exempt:*): addr/inv clamp to 64 entries; version without/with unreadable SoftVersion; block body that ends before MerkleRoot‖hasCCMsg or has an unreadable flag (\"to accept old node's block\")")
	r.Assume("'reproduces the payload' is read as: re-serialization equals the prefix of the payload the type's decoder consumed (trailing bytes are ignored by ReadMessage by design)")
	r.Assume("getmembers timestamps are drawn from year 2097+ so the decoder's wall-clock expiry check never decides a verdict")
	r.Assume("child processes run with RLIMIT_AS = 6 GiB so that an allocation sized by a hostile count fails deterministically instead of depending on the overcommit policy")
	r.Finish()
}

// ---------------------------------------------------------------- (1) structured

func structured(r *vf.Run) {
	total := vf.N(5000, 200000)
	magics := []uint32{magicFor(0), magicFor(1), magicFor(2)}
	per := total / len(magics)
	rng := vf.NewRNG(vf.Seed()).Sub(0x5700)
	for mi, magic := range magics {
		config.DefConfig.P2PNode.NetworkMagic = magic
		vf.Parallel(per, runtime.NumCPU(), func(i int) {
			ci := mi*per + i
			g := &gen{rng: rng.Sub(uint64(ci))}
			sp := &specs[ci%len(specs)]
			size := []int{2, 2, 2, 1, 0, 2, 2, 3}[(ci/len(specs))%8]
			if size == 3 && (ci/len(specs))%64 != 7 && (sp.cmd == pc.HEADERS_TYPE || sp.cmd == pc.SUBNET_OFFLINE_TYPE) {
				size = 2 // 500 headers / 255 keys only once in a while
			}
			oneStructured(r, g, sp, size, magic, ci)
		})
		// consecutive frames of different types on one reader
		for k := 0; k < vf.N(30, 300); k++ {
			g := &gen{rng: rng.Sub(uint64(1<<40 + mi*1000 + k))}
			multiFrame(r, g, magic)
		}
	}
}

func oneStructured(r *vf.Run, g *gen, sp *spec, size int, magic uint32, ci int) {
	var m mt.Message
	if p := vf.Catch(func() { m = sp.gen(g, size) }); p != nil {
		r.Inconclusive(fmt.Sprintf("generator for %s failed: %v", sp.cmd, p))
		return
	}
	wit := func(extra map[string]interface{}) map[string]interface{} {
		w := map[string]interface{}{"cmd": sp.cmd, "size_class": size, "case": ci, "magic": magic, "value": trunc(canon(m), 6000)}
		for k, v := range extra {
			w[k] = v
		}
		return w
	}
	sink := common.NewZeroCopySink(nil)
	if p := vf.Catch(func() { mt.WriteMessage(sink, m) }); p != nil {
		r.Violation("panic:"+sp.cmd+":WriteMessage:"+proc.MessageClass(fmt.Sprint(p)), fmt.Sprintf("WriteMessage panicked on a valid %s: %v", sp.cmd, p), wit(nil))
		return
	}
	f1 := append([]byte(nil), sink.Bytes()...)
	r.Eval(sp.cmd + "/" + string(fnvSum(f1)))
	wit2 := func(extra map[string]interface{}) map[string]interface{} {
		w := wit(extra)
		w["frame_hex"] = vf.HexTrunc(f1, 4096)
		return w
	}
	// header fields
	if len(f1) < pc.MSG_HDR_LEN {
		r.Violation("header:"+sp.cmd+":short", "frame shorter than a header", wit2(nil))
		return
	}
	body := f1[pc.MSG_HDR_LEN:]
	var cmdField [pc.MSG_CMD_LEN]byte
	copy(cmdField[:], sp.cmd)
	sum := pc.Checksum(body)
	switch {
	case binary.LittleEndian.Uint32(f1) != magic:
		r.Violation("header:"+sp.cmd+":magic", "WriteMessage wrote a foreign magic", wit2(nil))
	case !bytes.Equal(f1[4:16], cmdField[:]):
		r.Violation("header:"+sp.cmd+":cmd", "command field is not the NUL-padded command", wit2(nil))
	case int(binary.LittleEndian.Uint32(f1[16:])) != len(body):
		r.Violation("header:"+sp.cmd+":length", "length field differs from the body length", wit2(nil))
	case !bytes.Equal(f1[20:24], sum[:]):
		r.Violation("header:"+sp.cmd+":checksum", "checksum field is not the first 4 bytes of SHA256(SHA256(body))", wit2(nil))
	}
	if !bytes.Equal(body, payloadOf(m)) {
		r.Violation("header:"+sp.cmd+":body", "WriteMessage's body differs from Serialization", wit2(nil))
	}
	// read back
	rd := bytes.NewReader(f1)
	var m2 mt.Message
	var n uint32
	var err error
	if p := vf.Catch(func() { m2, n, err = mt.ReadMessage(rd) }); p != nil {
		r.Violation("panic:"+sp.cmd+":"+proc.MessageClass(fmt.Sprint(p)), fmt.Sprintf("ReadMessage panicked on a frame written by WriteMessage: %v", p), wit2(nil))
		return
	}
	if err != nil {
		r.Violation("roundtrip:"+sp.cmd+":rejected", fmt.Sprintf("ReadMessage rejects what WriteMessage wrote: %v", err), wit2(nil))
		return
	}
	if int(n) != len(body) || rd.Len() != 0 {
		r.Violation("roundtrip:"+sp.cmd+":length", fmt.Sprintf("returned length %d (body %d), %d bytes left unread", n, len(body), rd.Len()), wit2(nil))
	}
	if typeName(m2) != typeName(sp.newEmpty()) {
		r.Violation("type:"+sp.cmd, fmt.Sprintf("decoded to %s, want %s", typeName(m2), typeName(sp.newEmpty())), wit2(nil))
		return
	}
	if a, b := canon(m), canon(m2); a != b {
		d := firstDiff(a, b)
		r.Violation("roundtrip:"+sp.cmd+":value:"+fieldOfDiff(d), "decoded value differs from the original: "+d, wit2(nil))
	}
	sink2 := common.NewZeroCopySink(nil)
	if p := vf.Catch(func() { mt.WriteMessage(sink2, m2) }); p != nil {
		r.Violation("panic:"+sp.cmd+":WriteMessage2:"+proc.MessageClass(fmt.Sprint(p)), fmt.Sprintf("WriteMessage panicked on a decoded %s: %v", sp.cmd, p), wit2(nil))
		return
	}
	if !bytes.Equal(sink2.Bytes(), f1) {
		r.Violation("roundtrip:"+sp.cmd+":bytes", fmt.Sprintf("Write→Read→Write is not byte-identical (first difference at offset %d)", firstDiffOff(f1, sink2.Bytes())),
			wit2(map[string]interface{}{"rewritten_hex": vf.HexTrunc(sink2.Bytes(), 4096)}))
	}
	// WriteMessage appends to a sink that already holds data (Link.Send batches nothing, but
	// the function computes offsets from sink.Size())
	if ci%4 == 0 {
		pre := g.rng.Bytes(1 + g.rng.Intn(600))
		s3 := common.NewZeroCopySink(append([]byte(nil), pre...))
		if p := vf.Catch(func() { mt.WriteMessage(s3, m) }); p != nil {
			r.Violation("panic:"+sp.cmd+":WriteMessage-offset:"+proc.MessageClass(fmt.Sprint(p)), "WriteMessage panicked on a non-empty sink", wit2(nil))
		} else if b := s3.Bytes(); len(b) != len(pre)+len(f1) || !bytes.Equal(b[:len(pre)], pre) || !bytes.Equal(b[len(pre):], f1) {
			r.Violation("sink-offset:"+sp.cmd, "WriteMessage on a non-empty sink damages the sink or writes a different frame", wit2(map[string]interface{}{"prefix_len": len(pre)}))
		}
		r.Count("structured:sink-offset")
	}
	r.Count("roundtrip:" + sp.cmd)
	r.Count(fmt.Sprintf("structured:size%d", size))
	if ci < 2*len(specs) && ci%5 == 0 {
		r.Sample(map[string]interface{}{"kind": "structured", "cmd": sp.cmd, "size_class": size, "frame_hex": vf.HexTrunc(f1, 120)})
	}
}

func multiFrame(r *vf.Run, g *gen, magic uint32) {
	var all []byte
	var cmds []string
	var lens []int
	for j, n := 0, 2+g.rng.Intn(6); j < n; j++ {
		sp := &specs[g.rng.Intn(len(specs))]
		s := common.NewZeroCopySink(nil)
		mt.WriteMessage(s, sp.gen(g, 1+g.rng.Intn(2)))
		all = append(all, s.Bytes()...)
		cmds = append(cmds, sp.cmd)
		lens = append(lens, len(s.Bytes()))
	}
	r.Eval("multi/" + string(fnvSum(all)))
	rd := bytes.NewReader(all)
	for k := range cmds {
		before := rd.Len()
		var m mt.Message
		var err error
		if p := vf.Catch(func() { m, _, err = mt.ReadMessage(rd) }); p != nil || err != nil || before-rd.Len() != lens[k] || m.CmdType() != cmds[k] {
			// convict the framing only when the frame is readable on its own (a frame that is
			// rejected alone is the round-trip clause's finding, reported there)
			off := len(all) - before
			var e2 error
			if p2 := vf.Catch(func() { _, _, e2 = mt.ReadMessage(bytes.NewReader(all[off : off+lens[k]])) }); p2 != nil || e2 != nil {
				r.Count("sequence_skipped_frame_unreadable_alone")
				return
			}
			r.Violation("sequence:framing", fmt.Sprintf("frame %d (%s) of a %d-frame stream: panic=%v err=%v consumed=%d want %d", k, cmds[k], len(cmds), p, err, before-rd.Len(), lens[k]),
				map[string]interface{}{"stream_hex": vf.HexTrunc(all, 8192), "cmds": cmds, "magic": magic})
			return
		}
	}
	r.Count("structured:multi-frame")
}

func fnvSum(b []byte) []byte {
	h := uint64(14695981039346656037)
	for _, c := range b {
		h ^= uint64(c)
		h *= 1099511628211
	}
	var o [8]byte
	binary.LittleEndian.PutUint64(o[:], h)
	return o[:]
}

// ---------------------------------------------------------------- (2,3) hostile: supervisor

type childLine struct {
	T        string                 `json:"t"`
	Key      string                 `json:"key"`
	What     string                 `json:"what"`
	Witness  map[string]interface{} `json:"witness"`
	Inc      int                    `json:"inc"`
	Evals    int64                  `json:"evals"`
	Counters map[string]int64       `json:"counters"`
	Calib    *calibRow              `json:"calib"`
	MaxAlloc uint64                 `json:"max_alloc"`
	MaxAmp   float64                `json:"max_amp"`
	Secs     float64                `json:"secs"`
	VCounts  map[string]int         `json:"viol_counts"`
}

func hostile(r *vf.Run) {
	dir := vf.Scratch("c24")
	defer os.RemoveAll(dir)
	bs := batches()
	workers := runtime.NumCPU()
	if workers > 16 {
		workers = 16
	}
	var mu sync.Mutex
	var maxAlloc uint64
	var maxAmp float64
	distinct := map[uint64]struct{}{}
	deaths := 0
	const maxRestarts = 40
	sampled := 0
	vkeys := map[string]int{}
	firstWit := map[string]interface{}{}
	secs := map[string]float64{}
	// the longest batches first (a batch keeps its index: the index seeds it)
	var order []int
	for _, kind := range []string{"alloc", "link", "payload", "stream", "cross"} {
		for bi := range bs {
			if bs[bi].Kind == kind {
				order = append(order, bi)
			}
		}
	}
	if only := os.Getenv("C24_ONLY"); only != "" { // development: run some batch kinds only (the run is then inconclusive)
		var o2 []int
		for _, bi := range order {
			if strings.Contains(only, bs[bi].Kind) {
				o2 = append(o2, bi)
			}
		}
		order = o2
	}
	var calib []calibRow
	vf.Parallel(len(order), workers, func(oi int) {
		bi := order[oi]
		// the decoders are measured in a single-threaded process; a link needs real concurrency
		procs := "GOMAXPROCS=1"
		if bs[bi].Kind == "link" {
			procs = "GOMAXPROCS=4"
		}
		start := uint64(0)
		for inc := 0; ; inc++ {
			logPath := fmt.Sprintf("%s/b%d.log", dir, bi)
			d, err := proc.Run(proc.Cmd{Spec: fmt.Sprintf("%s|%d|%d|%d", dir, bi, start, inc), LogPath: logPath,
				Env: []string{procs}, StallTimeout: 120 * time.Second})
			if err != nil {
				r.Inconclusive(fmt.Sprintf("cannot start child for batch %d: %v", bi, err))
				return
			}
			if d == nil {
				r.Count("children_completed")
				break
			}
			mu.Lock()
			deaths++
			mu.Unlock()
			r.Count("child_deaths")
			if d.ExitCode == 95 || d.ExitCode == 96 || d.ExitCode == 97 {
				r.Inconclusive(fmt.Sprintf("harness failure in the child for batch %d (%v): %s", bi, bs[bi], d.StderrTail))
				return
			}
			if !d.HaveCase {
				r.Inconclusive(fmt.Sprintf("child for batch %d (%v) died before logging a case: %s %s\n%s", bi, bs[bi], d.Class, d.Message, d.StderrTail))
				return
			}
			hc, ok := parseRecord(d.LastCase)
			if !ok {
				r.Inconclusive(fmt.Sprintf("child for batch %d died; case log unreadable", bi))
				return
			}
			if d.Class == "hang" {
				// no wall-clock verdicts: report, do not convict
				r.Inconclusive(fmt.Sprintf("child for batch %d made no progress for 120 s on case %d (%s); witness kept in evidence", bi, d.LastIndex, hc.tag))
				r.Extra(fmt.Sprintf("hang_b%d", bi), hc.witness(bs[bi].Magic))
			} else {
				name := "stream"
				if hc.kind == 'L' {
					name = "link"
				} else if hc.kind == 'P' || hc.kind == 'A' {
					name = hc.cmd
					if specOf(strings.TrimRight(name, "\x00")) == nil {
						name = "unknown"
					}
				} else {
					mu.Lock()
					config.DefConfig.P2PNode.NetworkMagic = bs[bi].Magic
					name = streamName(hc.data, tagClass(hc.tag))
					mu.Unlock()
				}
				w := hc.witness(bs[bi].Magic)
				w["case_index"], w["batch"], w["death"], w["exit_code"], w["signal"], w["stderr_tail"] = d.LastIndex, bs[bi], d.Class+": "+d.Message, d.ExitCode, d.Signal, d.StderrTail
				mu.Lock()
				vkeys[d.Class+":"+name+":"+d.MessageClass]++
				mu.Unlock()
				r.Violation(d.Class+":"+name+":"+d.MessageClass,
					fmt.Sprintf("the process died (%s: %s) while the code under test handled the last logged case (%s)", d.Class, d.Message, hc.tag), w)
			}
			start = d.LastIndex + 1
			if inc+1 >= maxRestarts {
				r.Count("batches_abandoned_after_restarts")
				if r.Violations() == 0 {
					r.Inconclusive(fmt.Sprintf("batch %d abandoned after %d child deaths", bi, maxRestarts))
				}
				break
			}
		}
		// merge the child's report (all incarnations)
		last := map[int]childLine{}
		proc.ReadJSONLines(fmt.Sprintf("%s/b%d.out", dir, bi), func(raw json.RawMessage) {
			var ln childLine
			if json.Unmarshal(raw, &ln) != nil {
				return
			}
			switch ln.T {
			case "viol":
				r.Violation(ln.Key, ln.What, ln.Witness)
				mu.Lock()
				if _, ok := firstWit[ln.Key]; !ok && len(firstWit) < 40 {
					// vf keeps replay files for the first 10 keys only: keep one compact witness per key
					w := map[string]interface{}{"what": ln.What}
					for _, k := range []string{"tag", "cmd", "magic", "payload_hex", "stream_hex", "consumed", "reserialized_hex", "panic", "stack", "allocated"} {
						if v, ok := ln.Witness[k]; ok {
							if sv, ok := v.(string); ok && len(sv) > 1400 {
								v = sv[:1400] + "…"
							}
							w[k] = v
						}
					}
					firstWit[ln.Key] = w
				}
				vkeys[ln.Key]++
				mu.Unlock()
			case "ctr":
				last[ln.Inc] = ln
			case "incon":
				r.Inconclusive(ln.What)
			case "calib":
				if ln.Calib != nil {
					mu.Lock()
					calib = append(calib, *ln.Calib)
					mu.Unlock()
				}
			}
		})
		for _, ln := range last {
			for k, v := range ln.Counters {
				r.Add(k, v)
			}
			// violations beyond the first three per key and child were only counted
			for k, v := range ln.VCounts {
				if v > 3 {
					r.Add("suppressed_repeats:"+k, int64(v-3))
				}
			}
			mu.Lock()
			secs[fmt.Sprintf("%s/%s/%d/%d", bs[bi].Kind, bs[bi].Cmd, bs[bi].Round, bs[bi].Part)] += ln.Secs
			if ln.MaxAlloc > maxAlloc {
				maxAlloc = ln.MaxAlloc
			}
			if ln.MaxAmp > maxAmp {
				maxAmp = ln.MaxAmp
			}
			mu.Unlock()
		}
		if b, err := os.ReadFile(fmt.Sprintf("%s/b%d.fp", dir, bi)); err == nil {
			mu.Lock()
			for o := 0; o+8 <= len(b); o += 8 {
				h := binary.LittleEndian.Uint64(b[o:])
				if _, dup := distinct[h]; dup {
					r.Eval("")
				} else {
					distinct[h] = struct{}{}
					r.Eval("h" + string(b[o:o+8]))
				}
			}
			if sampled < 3 {
				if _, rec, ok := proc.ReadLastCase(fmt.Sprintf("%s/b%d.log", dir, bi)); ok {
					if hc, ok := parseRecord(rec); ok && len(hc.data) < 600 {
						sampled++
						r.Sample(map[string]interface{}{"kind": "hostile", "batch": bs[bi], "tag": hc.tag, "cmd_or_expect": hc.cmd, "hex": vf.Hex(hc.data)})
					}
				}
			}
			mu.Unlock()
		}
		os.Remove(fmt.Sprintf("%s/b%d.log", dir, bi))
		os.Remove(fmt.Sprintf("%s/b%d.fp", dir, bi))
	})
	// duplicate cases were logged by the children; count them as trivial evaluations
	r.Evals(int(r.Counter("duplicate_case")))
	r.Extra("hostile_violation_keys", vkeys)
	if len(firstWit) > 0 {
		r.Extra("hostile_first_witness_per_key", firstWit)
	}
	if os.Getenv("C24_TIMING") != "" {
		r.Extra("batch_seconds", secs)
	}
	sort.Slice(calib, func(i, j int) bool {
		a, b := calib[i], calib[j]
		if a.Cmd != b.Cmd {
			return a.Cmd < b.Cmd
		}
		if a.Shape != b.Shape {
			return a.Shape < b.Shape
		}
		return a.L < b.L
	})
	r.Extra("alloc_calibration(well-formed base, hostile cases derived from it)", calib)
	r.Extra("hostile_batches", len(bs))
	r.Extra("child_deaths", deaths)
	r.Extra("max_alloc_single_decode_bytes", maxAlloc)
	r.Extra("max_alloc_per_payload_byte(payload>=64B)", maxAmp)
	kinds := map[string]int{}
	for _, b := range bs {
		kinds[b.Kind]++
	}
	ks := []string{}
	for k, v := range kinds {
		ks = append(ks, fmt.Sprintf("%s=%d", k, v))
	}
	sort.Strings(ks)
	r.Extra("batch_kinds", ks)
}
