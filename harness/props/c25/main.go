// C25 — Cross-VM parameter codec round-trips and rejects malformed input.
//
// Part A (in-process): generated nested values (lists <= depth 6 of bytes, string, address,
// bool, 128-bit integers, H256) go through the real EncodeValue / DecodeValue /
// DeserializeCallParam / DeserializeNotify; the decoded value must deep-equal the source
// value, every byte must be consumed, and integers outside the i128 range must be refused
// by the encoder wherever they sit in the value.
//
// Part B (child processes): hostile byte strings (exhaustive for length <= 2, mutated valid
// encodings, forged length fields, deep list nesting up to the 10 MiB wasm memory limit,
// wide lists) are fed to the three decoding entry points.  Verdict per input: no panic, no
// fatal runtime error (the child dying is observed by the parent, which regenerates the
// case from its index), allocation linear in the input length, and every accepted value
// re-encodes to exactly the consumed bytes.
package main

import (
	"bytes"
	"crypto/sha256"
	"encoding/binary"
	"encoding/hex"
	"encoding/json"
	"fmt"
	"math/big"
	"os"
	"os/exec"
	"path/filepath"
	"runtime"
	"runtime/metrics"
	"strconv"
	"strings"
	"sync"
	"syscall"
	"time"

	"github.com/ontio/ontology/common"
	cc "github.com/ontio/ontology/vm/crossvm_codec"
	"verifharness/lib/vf"
)

const (
	maxDepth     = 6
	exhaustiveN  = 256 + 65536 // every input of length 1 and 2
	allocPerByte = 128         // allowed allocation: allocPerByte*len(input) + allocSlack
	allocSlack   = 4 << 20
	// realistic upper bounds of the inputs that reach the codec in production
	notifyLimit = 64 * 1024        // neotypes.MAX_NOTIFY_LENGTH (wasm notify)
	neoLimit    = 1024 * 1024      // MAX_BYTEARRAY_SIZE (neovm -> wasm call parameter)
	wasmLimit   = 10 * 1024 * 1024 // WASM_MEM_LIMITATION (wasm -> neovm call parameter)
)

// ------------------------------------------------------------------ value generator

type genStats struct {
	kinds    map[string]int64
	maxDepth int
}

func newStats() *genStats { return &genStats{kinds: map[string]int64{}} }

var (
	two127 = new(big.Int).Lsh(big.NewInt(1), 127)
	two128 = new(big.Int).Lsh(big.NewInt(1), 128)
)

func genBig(g *vf.RNG, st *genStats) *big.Int {
	switch g.Intn(8) {
	case 0:
		b := []*big.Int{
			big.NewInt(0), big.NewInt(1), big.NewInt(-1), big.NewInt(255), big.NewInt(256), big.NewInt(-256),
			new(big.Int).SetUint64(1 << 63), new(big.Int).Neg(new(big.Int).SetUint64(1 << 63)),
			new(big.Int).SetUint64(^uint64(0)), new(big.Int).Lsh(big.NewInt(1), 64),
			new(big.Int).Sub(two127, big.NewInt(1)), new(big.Int).Neg(two127),
			new(big.Int).Sub(two127, big.NewInt(2)), new(big.Int).Add(new(big.Int).Neg(two127), big.NewInt(1)),
			new(big.Int).Lsh(big.NewInt(1), 126), new(big.Int).Neg(new(big.Int).Lsh(big.NewInt(1), 120)),
		}
		v := b[g.Intn(len(b))]
		if v.CmpAbs(two127) == 0 || new(big.Int).Add(v, big.NewInt(1)).Cmp(two127) == 0 {
			st.kinds["int_at_i128_limit"]++
		}
		return new(big.Int).Set(v)
	default:
		bits := g.Intn(128) // 0..127 bits of magnitude
		v := new(big.Int).SetBytes(g.Bytes(16))
		v.Rsh(v, uint(128-bits))
		if g.Bool() {
			v.Neg(v)
			st.kinds["int_negative"]++
		}
		return v
	}
}

func genScalar(g *vf.RNG, top bool, st *genStats) interface{} {
	switch g.Intn(9) {
	case 0:
		st.kinds["bytes"]++
		var n int
		switch g.Intn(6) {
		case 0:
			n = 0
			st.kinds["bytes_empty"]++
		case 1:
			n = 1
		case 2:
			n = g.Range(250, 260)
		case 3:
			if g.Chance(5) {
				n = g.Range(65530, 70000)
			} else {
				n = g.Range(2, 40)
			}
		default:
			n = g.Range(2, 64)
		}
		return g.Bytes(n)
	case 1:
		st.kinds["string"]++
		switch g.Intn(4) {
		case 0:
			st.kinds["string_empty"]++
			return ""
		case 1:
			st.kinds["string_non_utf8"]++
			return string(append([]byte{0xff, 0xfe, 0x00}, g.Bytes(g.Intn(20))...))
		default:
			const al = "abcdefghijklmnopqrstuvwxyz_ABC 0123456789é世"
			n := g.Intn(30)
			rs := []rune(al)
			out := make([]rune, n)
			for i := range out {
				out[i] = rs[g.Intn(len(rs))]
			}
			return string(out)
		}
	case 2:
		st.kinds["address"]++
		var a common.Address
		if !g.Chance(10) {
			copy(a[:], g.Bytes(20))
		}
		return a
	case 3:
		st.kinds["bool"]++
		return g.Bool()
	case 4:
		st.kinds["bigint"]++
		return genBig(g, st)
	case 5:
		st.kinds["h256"]++
		var h common.Uint256
		if !g.Chance(10) {
			copy(h[:], g.Bytes(32))
		}
		return h
	case 6:
		st.kinds["int"]++
		switch g.Intn(3) {
		case 0:
			return int(int64(g.U64()))
		case 1:
			return -g.Intn(1000)
		default:
			return g.Intn(1000)
		}
	case 7:
		st.kinds["int64"]++
		switch g.Intn(4) {
		case 0:
			return int64(-1 << 63)
		case 1:
			return int64(1<<63 - 1)
		default:
			return int64(g.U64())
		}
	default:
		if top { // int32/uint32 are accepted by EncodeList only
			st.kinds["bigint"]++
			return genBig(g, st)
		}
		if g.Bool() {
			st.kinds["int32"]++
			return int32(g.U64())
		}
		st.kinds["uint32"]++
		return uint32(g.U64())
	}
}

// genValue: depth is the number of enclosing lists; a list may be created while depth < maxDepth.
func genValue(g *vf.RNG, depth int, st *genStats, budget *int) interface{} {
	if depth < maxDepth && *budget > 0 && g.Intn(10) < 4 {
		return genList(g, depth, st, budget)
	}
	return genScalar(g, depth == 0, st)
}

func genList(g *vf.RNG, depth int, st *genStats, budget *int) interface{} {
	st.kinds["list"]++
	if depth+1 > st.maxDepth {
		st.maxDepth = depth + 1
	}
	n := g.Intn(6)
	if g.Chance(3) {
		n = g.Range(20, 60)
	}
	if n == 0 {
		st.kinds["list_empty"]++
	}
	l := make([]interface{}, 0, n)
	for i := 0; i < n && *budget > 0; i++ {
		*budget--
		l = append(l, genValue(g, depth+1, st, budget))
	}
	return l
}

// genSpine forces a chain of nested lists down to the maximal depth.
func genSpine(g *vf.RNG, depth int, st *genStats, budget *int) interface{} {
	if depth >= maxDepth {
		return genScalar(g, false, st)
	}
	st.kinds["list"]++
	if depth+1 > st.maxDepth {
		st.maxDepth = depth + 1
	}
	l := []interface{}{}
	for i, n := 0, g.Intn(3); i < n; i++ {
		l = append(l, genValue(g, depth+1, st, budget))
	}
	l = append(l, genSpine(g, depth+1, st, budget))
	for i, n := 0, g.Intn(2); i < n; i++ {
		l = append(l, genValue(g, depth+1, st, budget))
	}
	return l
}

func genCase(g *vf.RNG, st *genStats) interface{} {
	budget := 200
	switch g.Intn(10) {
	case 0:
		return genSpine(g, 0, st, &budget)
	case 1, 2, 3:
		return genList(g, 0, st, &budget)
	default:
		return genValue(g, 0, st, &budget)
	}
}

// ------------------------------------------------------------------ reference layout (harness' own)

func i128le(v *big.Int) [16]byte {
	t := new(big.Int).Set(v)
	if t.Sign() < 0 {
		t.Add(t, two128)
	}
	var be [16]byte
	t.FillBytes(be[:])
	var le [16]byte
	for i := range be {
		le[i] = be[15-i]
	}
	return le
}

func asBig(v interface{}) (*big.Int, bool) {
	switch x := v.(type) {
	case *big.Int:
		return x, true
	case int:
		return big.NewInt(int64(x)), true
	case int64:
		return big.NewInt(x), true
	case int32:
		return big.NewInt(int64(x)), true
	case uint32:
		return big.NewInt(int64(x)), true
	}
	return nil, false
}

// refEnc writes the documented layout: tag, u32le length for bytes/string/list, fixed payloads.
// lenOffs collects the offsets of the length fields (used by the forged-length family).
func refEnc(buf *bytes.Buffer, v interface{}, lenOffs *[]int) {
	u32 := func(n int) {
		if lenOffs != nil {
			*lenOffs = append(*lenOffs, buf.Len())
		}
		var b [4]byte
		binary.LittleEndian.PutUint32(b[:], uint32(n))
		buf.Write(b[:])
	}
	if b, ok := asBig(v); ok {
		buf.WriteByte(cc.IntType)
		le := i128le(b)
		buf.Write(le[:])
		return
	}
	switch x := v.(type) {
	case []byte:
		buf.WriteByte(cc.ByteArrayType)
		u32(len(x))
		buf.Write(x)
	case string:
		buf.WriteByte(cc.StringType)
		u32(len(x))
		buf.WriteString(x)
	case common.Address:
		buf.WriteByte(cc.AddressType)
		buf.Write(x[:])
	case bool:
		buf.WriteByte(cc.BooleanType)
		if x {
			buf.WriteByte(1)
		} else {
			buf.WriteByte(0)
		}
	case common.Uint256:
		buf.WriteByte(cc.H256Type)
		buf.Write(x[:])
	case []interface{}:
		buf.WriteByte(cc.ListType)
		u32(len(x))
		for _, e := range x {
			refEnc(buf, e, lenOffs)
		}
	default:
		panic(fmt.Sprintf("refEnc: %T", v))
	}
}

// equalVal: got (a decoded value) equals want (a source value); integers compare numerically,
// the decoded side must use exactly the decoder's documented Go types.
func equalVal(want, got interface{}) bool {
	if b, ok := asBig(want); ok {
		g, ok := got.(*big.Int)
		return ok && g != nil && g.Cmp(b) == 0
	}
	switch w := want.(type) {
	case []byte:
		g, ok := got.([]byte)
		return ok && bytes.Equal(w, g)
	case string:
		g, ok := got.(string)
		return ok && g == w
	case common.Address:
		g, ok := got.(common.Address)
		return ok && g == w
	case bool:
		g, ok := got.(bool)
		return ok && g == w
	case common.Uint256:
		g, ok := got.(common.Uint256)
		return ok && g == w
	case []interface{}:
		g, ok := got.([]interface{})
		if !ok || len(g) != len(w) {
			return false
		}
		for i := range w {
			if !equalVal(w[i], g[i]) {
				return false
			}
		}
		return true
	}
	return false
}

// refStringify is what notify_codec documents for a decoded value.
func refStringify(v interface{}) interface{} {
	if b, ok := asBig(v); ok {
		return b.String()
	}
	switch x := v.(type) {
	case []byte:
		return hex.EncodeToString(x)
	case common.Address:
		return x.ToBase58()
	case bool, string:
		return x
	case common.Uint256:
		r := make([]byte, 32)
		for i := range x {
			r[i] = x[31-i]
		}
		return hex.EncodeToString(r)
	case []interface{}:
		l := make([]interface{}, 0, len(x))
		for _, e := range x {
			l = append(l, refStringify(e))
		}
		return l
	}
	return fmt.Sprintf("<foreign %T>", v)
}

func equalStr(want, got interface{}) bool {
	switch w := want.(type) {
	case string:
		g, ok := got.(string)
		return ok && g == w
	case bool:
		g, ok := got.(bool)
		return ok && g == w
	case []interface{}:
		g, ok := got.([]interface{})
		if !ok || len(g) != len(w) {
			return false
		}
		for i := range w {
			if !equalStr(w[i], g[i]) {
				return false
			}
		}
		return true
	}
	return false
}

// kindOf: structural name of a value for violation keys.
func kindOf(v interface{}) string {
	switch x := v.(type) {
	case nil:
		return "nil"
	case []byte:
		if len(x) == 0 {
			return "bytes0"
		}
		return "bytes"
	case string:
		return "string"
	case common.Address:
		return "address"
	case bool:
		return "bool"
	case *big.Int:
		if x.Sign() < 0 {
			return "int-"
		}
		return "int+"
	case int, int64, int32, uint32:
		return fmt.Sprintf("%T", v)
	case common.Uint256:
		return "h256"
	case []interface{}:
		if len(x) == 0 {
			return "list0"
		}
		return "list"
	}
	return fmt.Sprintf("foreign(%T)", v)
}

func describe(v interface{}) interface{} {
	if b, ok := asBig(v); ok {
		return fmt.Sprintf("%T:%s", v, b.String())
	}
	switch x := v.(type) {
	case []byte:
		return "bytes:" + vf.HexTrunc(x, 48)
	case string:
		return fmt.Sprintf("string:%q", x)
	case common.Address:
		return "address:" + hex.EncodeToString(x[:])
	case bool:
		return x
	case common.Uint256:
		return "h256:" + hex.EncodeToString(x[:])
	case []interface{}:
		l := make([]interface{}, 0, len(x))
		for _, e := range x {
			l = append(l, describe(e))
		}
		return l
	}
	return fmt.Sprintf("%T", v)
}

func fp64(b []byte) uint64 {
	h := sha256.Sum256(b)
	return binary.LittleEndian.Uint64(h[:8])
}

// ------------------------------------------------------------------ part A: round trips

func partA(r *vf.Run, rng *vf.RNG) {
	n := vf.N(10000, 600000)
	const chunk = 500
	nch := (n + chunk - 1) / chunk
	var mu sync.Mutex
	total := newStats()
	vf.Parallel(nch, runtime.NumCPU(), func(ci int) {
		st := newStats()
		for i := ci * chunk; i < (ci+1)*chunk && i < n; i++ {
			g := rng.Sub(uint64(i))
			v := genCase(g, st)
			roundTrip(r, i, v)
			if i < 3 {
				r.Sample(map[string]interface{}{"part": "roundtrip", "value": describe(v)})
			}
		}
		mu.Lock()
		for k, c := range st.kinds {
			total.kinds[k] += c
		}
		if st.maxDepth > total.maxDepth {
			total.maxDepth = st.maxDepth
		}
		mu.Unlock()
	})
	for k, c := range total.kinds {
		r.Add("gen_"+k, c)
	}
	r.Extra("max_list_depth_generated", total.maxDepth)
	if total.maxDepth >= maxDepth {
		r.Count("gen_depth6_reached")
	}

	// integers outside the i128 range: the encoder must refuse them at the top level and at every depth
	m := vf.N(2000, 100000)
	sub := rng.Sub(0xA11CE)
	vf.Parallel(m, runtime.NumCPU(), func(i int) {
		g := sub.Sub(uint64(i))
		var bad *big.Int
		switch g.Intn(6) {
		case 0:
			bad = new(big.Int).Set(two127)
		case 1:
			bad = new(big.Int).Sub(new(big.Int).Neg(two127), big.NewInt(1))
		case 2:
			bad = new(big.Int).Set(two128)
		case 3:
			bad = new(big.Int).Neg(two128)
		default:
			bad = new(big.Int).SetBytes(g.Bytes(g.Range(17, 40)))
			bad.SetBit(bad, 127+g.Intn(60), 1)
			if g.Bool() {
				bad.Neg(bad)
			}
		}
		depth := g.Intn(maxDepth + 1)
		st := newStats()
		var v interface{} = bad
		for d := depth; d > 0; d-- {
			budget := 10
			l := []interface{}{}
			for k, c := 0, g.Intn(3); k < c; k++ {
				l = append(l, genValue(g, d, st, &budget))
			}
			l = append(l, v)
			for k, c := 0, g.Intn(3); k < c; k++ {
				l = append(l, genValue(g, d, st, &budget))
			}
			v = l
		}
		var enc []byte
		var err error
		if p := vf.Catch(func() { enc, err = cc.EncodeValue(v) }); p != nil {
			r.Violation(fmt.Sprintf("panic:EncodeValue:out-of-range:depth%d", depth), fmt.Sprint(p), map[string]interface{}{"value": describe(v)})
			return
		}
		r.Eval(fmt.Sprintf("oor/%d/%s", depth, bad.String()))
		if depth == 0 {
			r.Count("out_of_range_top")
		} else {
			r.Count("out_of_range_nested")
		}
		if err == nil {
			where := "nested"
			if depth == 0 {
				where = "top"
			}
			r.Violation("encode:out-of-range-accepted:"+where, fmt.Sprintf("EncodeValue accepted an integer outside [-2^127, 2^127-1] at list depth %d", depth),
				map[string]interface{}{"value": describe(v), "encoded": vf.HexTrunc(enc, 256)})
		} else {
			r.Count("out_of_range_refused")
		}
	})
}

func roundTrip(r *vf.Run, i int, v interface{}) {
	kind := kindOf(v)
	wit := func(extra map[string]interface{}) map[string]interface{} {
		w := map[string]interface{}{"case": i, "value": describe(v)}
		for k, x := range extra {
			w[k] = x
		}
		return w
	}
	var enc []byte
	var err error
	if p := vf.Catch(func() { enc, err = cc.EncodeValue(v) }); p != nil {
		r.Violation("panic:EncodeValue:"+kind, fmt.Sprint(p), wit(nil))
		return
	}
	fp := ""
	if len(enc) > 2 {
		fp = fmt.Sprintf("rt/%016x", fp64(enc))
	}
	r.Eval(fp)
	if err != nil {
		r.Violation("encode:refused-valid:"+kind, "EncodeValue refused an in-domain value: "+err.Error(), wit(nil))
		return
	}
	// the bytes a wasm contract (which follows the documented layout) would produce for the same value
	var ref bytes.Buffer
	refEnc(&ref, v, nil)
	if !bytes.Equal(ref.Bytes(), enc) {
		r.Violation("layout:encode-differs:"+kind, "EncodeValue output differs from the documented tag/u32le-length/payload layout",
			wit(map[string]interface{}{"encoded": vf.HexTrunc(enc, 512), "layout": vf.HexTrunc(ref.Bytes(), 512)}))
	}
	src := common.NewZeroCopySource(enc)
	var got interface{}
	if p := vf.Catch(func() { got, err = cc.DecodeValue(src) }); p != nil {
		r.Violation("panic:DecodeValue:roundtrip:"+kind, fmt.Sprint(p), wit(map[string]interface{}{"encoded": vf.HexTrunc(enc, 512)}))
		return
	}
	if err != nil {
		r.Violation("roundtrip:decode-error:"+kind, "DecodeValue rejected EncodeValue output: "+err.Error(), wit(map[string]interface{}{"encoded": vf.HexTrunc(enc, 512)}))
		return
	}
	if !equalVal(v, got) {
		r.Violation("roundtrip:value-differs:"+kind, "DecodeValue(EncodeValue(v)) != v", wit(map[string]interface{}{"encoded": vf.HexTrunc(enc, 512), "decoded": describe(got)}))
	}
	if src.Len() != 0 {
		r.Violation("roundtrip:bytes-left:"+kind, fmt.Sprintf("%d bytes not consumed", src.Len()), wit(map[string]interface{}{"encoded": vf.HexTrunc(enc, 512)}))
	}
	r.Count("roundtrip_ok_" + strings.TrimRight(kind, "+-0"))

	// call-parameter framing: version byte + value
	var cp interface{}
	in := append([]byte{cc.VERSION}, enc...)
	if p := vf.Catch(func() { cp, err = cc.DeserializeCallParam(in) }); p != nil {
		r.Violation("panic:DeserializeCallParam:roundtrip:"+kind, fmt.Sprint(p), wit(nil))
	} else if err != nil || !equalVal(v, cp) {
		r.Violation("roundtrip:callparam:"+kind, fmt.Sprintf("DeserializeCallParam(version||EncodeValue(v)) err=%v value=%v", err, describe(cp)), wit(nil))
	} else {
		r.Count("callparam_ok")
	}
	// notify framing: "evt\0" + value, stringified
	var nv interface{}
	in = append([]byte("evt\x00"), enc...)
	if p := vf.Catch(func() { nv = cc.DeserializeNotify(in) }); p != nil {
		r.Violation("panic:DeserializeNotify:roundtrip:"+kind, fmt.Sprint(p), wit(nil))
	} else if !equalStr(refStringify(v), nv) {
		r.Violation("roundtrip:notify:"+kind, fmt.Sprintf("DeserializeNotify(evt||EncodeValue(v)) = %v, want %v", nv, refStringify(v)), wit(nil))
	} else {
		r.Count("notify_ok")
	}
}

// ------------------------------------------------------------------ part B: hostile inputs

// compactBytes is a concrete, replayable description of a (possibly huge) input.
func compactBytes(b []byte) map[string]interface{} {
	m := map[string]interface{}{"len": len(b), "sha256": hex.EncodeToString(func() []byte { h := sha256.Sum256(b); return h[:] }())}
	if len(b) <= 4096 {
		m["hex"] = hex.EncodeToString(b)
		return m
	}
	// run-length description over 5-byte and 2-byte periods (the giant inputs are periodic)
	for _, p := range []int{5, 2, 1} {
		k := 0
		for k+2*p <= len(b) && bytes.Equal(b[k:k+p], b[k+p:k+2*p]) {
			k += p
		}
		reps := k/p + 1
		if reps > 16 {
			m["head_unit_hex"] = hex.EncodeToString(b[:p])
			m["head_unit_repeats"] = reps
			m["tail_hex"] = vf.HexTrunc(b[reps*p:], 512)
			return m
		}
	}
	m["head_hex"] = hex.EncodeToString(b[:2048])
	return m
}

func putU32(b []byte, v uint32) { binary.LittleEndian.PutUint32(b, v) }

func nestBytes(k int, count uint32, terminal []byte) []byte {
	out := make([]byte, 0, 5*k+len(terminal))
	unit := []byte{cc.ListType, 0, 0, 0, 0}
	putU32(unit[1:], count)
	for i := 0; i < k; i++ {
		out = append(out, unit...)
	}
	return append(out, terminal...)
}

// hostileCase: pure function of (seed, idx).
func hostileCase(seed uint64, idx uint64) (fam string, data []byte) {
	if idx < 256 {
		return "exh1", []byte{byte(idx)}
	}
	if idx < exhaustiveN {
		j := idx - 256
		return "exh2", []byte{byte(j >> 8), byte(j)}
	}
	g := vf.NewRNG(seed).Sub(0xB0B0<<40 | idx)
	tags := []byte{cc.ByteArrayType, cc.StringType, cc.AddressType, cc.BooleanType, cc.IntType, cc.H256Type, cc.ListType}
	st := newStats()
	valid := func(lo *[]int) []byte {
		var b bytes.Buffer
		refEnc(&b, genCase(g, st), lo)
		return b.Bytes()
	}
	specialLen := func(orig uint32) uint32 {
		switch g.Intn(9) {
		case 0:
			return 0xffffffff
		case 1:
			return 0x7fffffff
		case 2:
			return 0x80000000
		case 3:
			return orig + 1
		case 4:
			return orig - 1
		case 5:
			return orig + 256
		case 6:
			return 0
		case 7:
			return orig << 8
		default:
			return uint32(g.U64())
		}
	}
	switch g.Intn(10) {
	case 0:
		return "rand", g.Bytes(g.Intn(49))
	case 1:
		b := g.Bytes(g.Range(1, 64))
		b[0] = tags[g.Intn(len(tags))]
		if len(b) >= 5 && g.Bool() {
			putU32(b[1:], uint32(g.Intn(len(b))))
		}
		return "randtag", b
	case 2, 3, 4:
		b := valid(nil)
		for m, k := 0, g.Range(1, 3); m < k; m++ {
			switch g.Intn(7) {
			case 0:
				if len(b) > 0 {
					b[g.Intn(len(b))] ^= 1 << uint(g.Intn(8))
				}
			case 1:
				if len(b) > 0 {
					b[g.Intn(len(b))] = tags[g.Intn(len(tags))]
				}
			case 2:
				p := g.Intn(len(b) + 1)
				ins := g.Bytes(g.Range(1, 4))
				b = append(b[:p:p], append(ins, b[p:]...)...)
			case 3:
				if len(b) > 0 {
					p := g.Intn(len(b))
					q := p + g.Range(1, 4)
					if q > len(b) {
						q = len(b)
					}
					b = append(b[:p:p], b[q:]...)
				}
			case 4:
				b = b[:g.Intn(len(b)+1)]
			case 5:
				b = append(b[:len(b):len(b)], g.Bytes(g.Range(1, 20))...)
			default:
				if len(b) > 0 {
					b[g.Intn(len(b))] = byte(g.U64())
				}
			}
		}
		return "mutvalid", b
	case 5:
		var lo []int
		b := valid(&lo)
		if len(lo) == 0 {
			b = append([]byte{cc.ListType, 1, 0, 0, 0}, b...)
			lo = []int{1}
		}
		o := lo[g.Intn(len(lo))]
		putU32(b[o:], specialLen(binary.LittleEndian.Uint32(b[o:])))
		return "lenfield", b
	case 6:
		var k int
		switch q := g.Intn(200); {
		case q < 120:
			k = g.Range(1, 40)
		case q < 170:
			k = g.Range(41, 200)
		case q < 197:
			k = 1000
		case q < 199:
			k = 5000
		default:
			k = 20000 // deeper nesting is covered by the dedicated giant cases
		}
		counts := []uint32{1, 1, 2, 0xffffffff, uint32(g.U64())}
		terms := [][]byte{{cc.BooleanType, 1}, {cc.ListType, 0, 0, 0, 0}, {}, {0x77}, {cc.ByteArrayType, 2, 0, 0, 0, 9, 9}, {cc.ListType, 0, 0}}
		return "nest", nestBytes(k, counts[g.Intn(len(counts))], terms[g.Intn(len(terms))])
	case 7:
		n := g.Range(10, 300)
		if g.Chance(5) {
			n = g.Range(1000, 3000)
		}
		elems := [][]byte{{cc.BooleanType, 0}, {cc.ListType, 0, 0, 0, 0}, {cc.ByteArrayType, 0, 0, 0, 0}, append([]byte{cc.IntType}, g.Bytes(16)...)}
		e := elems[g.Intn(len(elems))]
		cnt := []uint32{uint32(n), uint32(n), uint32(n + 1), uint32(n - 1), 0xffffffff}[g.Intn(5)]
		b := make([]byte, 5, 5+n*len(e))
		b[0] = cc.ListType
		putU32(b[1:], cnt)
		for i := 0; i < n; i++ {
			b = append(b, e...)
		}
		return "wide", b
	case 8:
		n := g.Range(1, 8)
		b := []byte{cc.ListType, byte(n), 0, 0, 0}
		for i := 0; i < n; i++ {
			b = append(b, cc.BooleanType, []byte{0, 1, 2, 0xff, byte(g.U64())}[g.Intn(5)])
		}
		return "boolirr", b
	default:
		b := valid(nil)
		return "validtrail", append(b[:len(b):len(b)], g.Bytes(g.Range(1, 12))...)
	}
}

// giant inputs at the production size limits; executed one per child process.
type giant struct {
	Name  string
	Limit string
	Build func() []byte `json:"-"`
}

func giants() []giant {
	all := allGiants()
	if vf.Thorough() {
		// a 512 MiB stack costs ~35 s of first-touch page faults here: of the three 10 MiB nesting shapes only the closed one is
		// kept (the truncated shapes recurse identically and are run at 64 KiB and 1 MiB)
		var gs []giant
		for _, g := range all {
			if g.Limit == "wasm10M" && (strings.HasPrefix(g.Name, "nest1-truncated/") || strings.HasPrefix(g.Name, "nestMax-truncated/")) {
				continue
			}
			gs = append(gs, g)
		}
		return gs
	}
	// quick tier: the 10 MiB inputs cost ~10 s each (fresh memory is slow in this sandbox); keep the deepest nesting and the forged length
	var gs []giant
	for _, g := range all {
		if (g.Limit != "wasm10M" && g.Limit != "beyond32M") || strings.HasPrefix(g.Name, "nest1-closed/wasm10M") || strings.HasPrefix(g.Name, "bytes-lenMax/") {
			gs = append(gs, g)
		}
	}
	return gs
}

func allGiants() []giant {
	var gs []giant
	for _, lim := range []struct {
		name string
		size int
	}{{"notify64K", notifyLimit - 5}, {"neovm1M", neoLimit - 1}, {"wasm10M", wasmLimit - 1}} {
		size := lim.size
		k := size / 5
		gs = append(gs,
			giant{"nest1-closed/" + lim.name, lim.name, func() []byte { return nestBytes(k-1, 1, []byte{cc.ListType, 0, 0, 0, 0}) }},
			giant{"nest1-truncated/" + lim.name, lim.name, func() []byte { return nestBytes(k, 1, nil) }},
			giant{"nestMax-truncated/" + lim.name, lim.name, func() []byte { return nestBytes(k, 0xffffffff, []byte{cc.BooleanType}) }},
			giant{"wide-bools/" + lim.name, lim.name, func() []byte {
				n := (size - 5) / 2
				b := make([]byte, 5, size)
				b[0] = cc.ListType
				putU32(b[1:], uint32(n))
				for i := 0; i < n; i++ {
					b = append(b, cc.BooleanType, byte(i&1))
				}
				return b
			}},
			giant{"wide-emptylists-countMax/" + lim.name, lim.name, func() []byte {
				n := (size - 5) / 5
				b := make([]byte, 5, size)
				b[0] = cc.ListType
				putU32(b[1:], 0xffffffff)
				for i := 0; i < n; i++ {
					b = append(b, cc.ListType, 0, 0, 0, 0)
				}
				return b
			}},
			giant{"bytes-lenMax/" + lim.name, lim.name, func() []byte {
				b := make([]byte, size)
				b[0] = cc.ByteArrayType
				putU32(b[1:], 0xffffffff)
				return b
			}},
		)
	}
	// beyond every production limit: the statement quantifies over all byte strings, and the stack needed by the 10 MiB
	// case sits within a few frames of Go's 512 MiB stack size class, so this case keeps the verdict independent of the
	// compiler's frame size
	k32 := 32 * 1024 * 1024 / 5
	gs = append(gs, giant{"nest1-closed/beyond32M", "beyond32M", func() []byte { return nestBytes(k32-1, 1, []byte{cc.ListType, 0, 0, 0, 0}) }})
	return gs
}

// ---- child side

type childViolation struct {
	Key     string      `json:"key"`
	What    string      `json:"what"`
	Witness interface{} `json:"witness"`
}

type childResult struct {
	Evals      int64            `json:"evals"`
	Counters   map[string]int64 `json:"counters"`
	Fps        []uint64         `json:"fps"`
	Distinct   int              `json:"distinct"`
	Violations []childViolation `json:"violations"`
	Samples    []interface{}    `json:"samples"`
	Done       bool             `json:"done"`
}

type child struct {
	res      childResult
	seen     map[uint64]struct{}
	progress []byte // mmap: [0:8] case index, [8:16] stage
	sample   [1]metrics.Sample
}

const (
	stDecode = iota + 1
	stReencode
	stCallParam
	stNotify
	stDone
)

func (c *child) stage(s uint64) { binary.LittleEndian.PutUint64(c.progress[8:], s) }

func (c *child) allocs() uint64 {
	metrics.Read(c.sample[:])
	return c.sample[0].Value.Uint64()
}

func (c *child) violation(key, what string, fam string, idx uint64, entry string, input []byte, extra map[string]interface{}) {
	if len(c.res.Violations) >= 50 {
		return
	}
	w := map[string]interface{}{"family": fam, "case_index": idx, "entry": entry, "input": compactBytes(input)}
	for k, v := range extra {
		w[k] = v
	}
	c.res.Violations = append(c.res.Violations, childViolation{key, what, w})
}

// measured runs f and checks the allocation bound against the input length.  The runtime counts small
// allocations when a span is handed back (in bursts of up to a few MiB at a GC cycle), so an excess is only
// believed when it repeats: f (which must be idempotent) is re-run and the smallest delta is judged.
func (c *child) measured(entry, fam string, idx uint64, input []byte, f func()) (panicked interface{}) {
	bound := uint64(allocPerByte*len(input) + allocSlack)
	a0 := c.allocs()
	panicked = vf.Catch(f)
	d := c.allocs() - a0
	if d > bound && panicked == nil {
		c.res.Counters["alloc_excess_remeasured"]++
		for i := 0; i < 4 && d > bound; i++ {
			a0 = c.allocs()
			vf.Catch(f)
			if d2 := c.allocs() - a0; d2 < d {
				d = d2
			}
		}
	}
	if d > bound {
		c.violation("alloc:"+entry+":"+fam, fmt.Sprintf("%s allocated %d bytes for a %d-byte input (bound %d*len+%d, smallest of 5 measurements)", entry, d, len(input), allocPerByte, allocSlack),
			fam, idx, entry, input, map[string]interface{}{"allocated": d})
	}
	if len(input) >= 4096 {
		c.res.Counters["alloc_measured_large_input"]++
	}
	return
}

// reencodes checks that an accepted value re-encodes to exactly the consumed bytes.
func (c *child) reencodes(entry, fam string, idx uint64, input []byte, v interface{}, consumed []byte) {
	if !foreignFree(v) {
		c.violation("decode:foreign-type:"+entry, "decoder returned a Go type outside its documented set", fam, idx, entry, input, map[string]interface{}{"decoded": describe(v)})
		return
	}
	var enc []byte
	var err error
	if p := vf.Catch(func() { enc, err = cc.EncodeValue(v) }); p != nil {
		c.violation("panic:EncodeValue:reencode:"+kindOf(v), fmt.Sprint(p), fam, idx, entry, input, map[string]interface{}{"decoded": describe(v)})
		return
	}
	if err != nil || !bytes.Equal(enc, consumed) {
		c.violation("reencode:"+entry+":"+kindOf(v), fmt.Sprintf("accepted value does not re-encode to the consumed bytes (err=%v)", err), fam, idx, entry, input,
			map[string]interface{}{"decoded": describe(v), "consumed": vf.HexTrunc(consumed, 256), "reencoded": vf.HexTrunc(enc, 256)})
		return
	}
	c.res.Counters["reencode_ok"]++
}

func foreignFree(v interface{}) bool {
	switch x := v.(type) {
	case []byte, string, common.Address, bool, common.Uint256:
		return true
	case *big.Int:
		return x != nil
	case []interface{}:
		for _, e := range x {
			if !foreignFree(e) {
				return false
			}
		}
		return true
	}
	return false
}

func (c *child) one(idx uint64, fam string, data []byte, giantCase bool) {
	binary.LittleEndian.PutUint64(c.progress[0:], idx)
	cnt := c.res.Counters
	c.res.Evals++
	cnt["fam_"+fam]++
	if len(data) > 2 || giantCase {
		h := fp64(data)
		if _, ok := c.seen[h]; !ok {
			c.seen[h] = struct{}{}
			if len(c.res.Fps) < 20000 {
				c.res.Fps = append(c.res.Fps, h)
			}
		}
	}

	// 1. DecodeValue on the raw bytes
	c.stage(stDecode)
	var src *common.ZeroCopySource
	var v interface{}
	var err error
	if p := c.measured("DecodeValue", fam, idx, data, func() { src = common.NewZeroCopySource(data); v, err = cc.DecodeValue(src) }); p != nil {
		c.violation("panic:DecodeValue:"+fam, fmt.Sprint(p), fam, idx, "DecodeValue", data, nil)
	} else if err == nil {
		cnt["decode_accepted"]++
		cnt["decode_accepted_"+strings.TrimRight(kindOf(v), "+-0")]++
		consumed := data[:src.Pos()]
		if len(consumed) < len(data) {
			cnt["decode_accepted_with_trailing_bytes"]++
		}
		c.stage(stReencode)
		c.reencodes("DecodeValue", fam, idx, data, v, consumed)
		if len(c.res.Samples) < 2 && len(data) > 8 && len(data) < 200 {
			c.res.Samples = append(c.res.Samples, map[string]interface{}{"part": "hostile-accepted", "family": fam, "input": hex.EncodeToString(data), "decoded": describe(v)})
		}
	} else {
		cnt["decode_rejected"]++
		if err == cc.ERROR_PARAM_NOT_SUPPORTED_TYPE {
			cnt["decode_rejected_unsupported_tag"]++
		}
		if len(c.res.Samples) < 4 && len(data) > 8 && len(data) < 200 && fam != "rand" {
			c.res.Samples = append(c.res.Samples, map[string]interface{}{"part": "hostile-rejected", "family": fam, "input": hex.EncodeToString(data), "error": err.Error()})
		}
	}
	decodeOK := err == nil
	if fam == "boolirr" && !decodeOK {
		cnt["irregular_bool_list_rejected"]++
	}
	if fam == "lenfield" && !decodeOK {
		cnt["forged_length_rejected"]++
	}
	if fam == "nest" && len(data) >= 5*1000 {
		cnt["deep_nesting_ge_1000_survived"]++
	}

	// 2. DeserializeCallParam: version||bytes and the raw bytes
	c.stage(stCallParam)
	for vi, in := range [][]byte{append([]byte{cc.VERSION}, data...), data} {
		if giantCase && vi == 1 {
			break
		}
		var cp interface{}
		if p := c.measured("DeserializeCallParam", fam, idx, in, func() { cp, err = cc.DeserializeCallParam(in) }); p != nil {
			c.violation("panic:DeserializeCallParam:"+fam, fmt.Sprint(p), fam, idx, "DeserializeCallParam", in, nil)
			continue
		}
		if err != nil {
			cnt["callparam_rejected"]++
			continue
		}
		cnt["callparam_accepted"]++
		if len(in) == 0 || in[0] != cc.VERSION {
			c.violation("callparam:accepted-without-version", "accepted an input that does not start with the version byte", fam, idx, "DeserializeCallParam", in, nil)
			continue
		}
		if vi == 0 && decodeOK && equalDecoded(v, cp) {
			continue // same value as DecodeValue's, whose re-encoding was checked against the same bytes
		}
		var ref bytes.Buffer
		if !foreignFree(cp) {
			c.violation("decode:foreign-type:DeserializeCallParam", "foreign type", fam, idx, "DeserializeCallParam", in, nil)
			continue
		}
		refEnc(&ref, cp, nil)
		n := ref.Len()
		if n > len(in)-1 {
			n = len(in) - 1
		}
		c.reencodes("DeserializeCallParam", fam, idx, in, cp, in[1:1+n])
	}

	// 3. DeserializeNotify: evt\0||bytes and the raw bytes
	c.stage(stNotify)
	for vi, in := range [][]byte{append([]byte("evt\x00"), data...), data} {
		if giantCase && (vi == 1 || len(in) >= notifyLimit+4096) {
			break
		}
		var out interface{}
		if p := c.measured("DeserializeNotify", fam, idx, in, func() { out = cc.DeserializeNotify(in) }); p != nil {
			c.violation("panic:DeserializeNotify:"+fam, fmt.Sprint(p), fam, idx, "DeserializeNotify", in, nil)
			continue
		}
		if b, ok := out.([]byte); ok {
			cnt["notify_passthrough"]++
			if !bytes.Equal(b, in) {
				c.violation("notify:passthrough-altered", "a rejected notify payload must be returned unchanged", fam, idx, "DeserializeNotify", in, map[string]interface{}{"returned": vf.HexTrunc(b, 256)})
			}
			continue
		}
		cnt["notify_stringified"]++
		if !bytes.HasPrefix(in, []byte("evt\x00")) {
			c.violation("notify:accepted-without-magic", "stringified an input without the evt\\0 prefix", fam, idx, "DeserializeNotify", in, nil)
			continue
		}
		// the value the (already judged) decoder yields for the payload, stringified by the harness
		w, werr := cc.DecodeValue(common.NewZeroCopySource(in[4:]))
		if werr != nil || !equalStr(refStringify(w), out) {
			c.violation("notify:stringify-differs:"+kindOf(w), fmt.Sprintf("DeserializeNotify output is not the stringified decoded value (decode err=%v)", werr), fam, idx, "DeserializeNotify", in,
				map[string]interface{}{"returned": fmt.Sprint(out), "expected": fmt.Sprint(refStringify(w))})
		}
	}
	c.stage(stDone)
}

// equalDecoded compares two decoder outputs (same Go types on both sides).
func equalDecoded(a, b interface{}) bool {
	if !foreignFree(a) {
		return false
	}
	return equalVal(a, b)
}

func childMain() {
	lo, _ := strconv.ParseUint(os.Getenv("C25_LO"), 10, 64)
	hi, _ := strconv.ParseUint(os.Getenv("C25_HI"), 10, 64)
	out := os.Getenv("C25_OUT")
	giantIdx := -1
	if s := os.Getenv("C25_GIANT"); s != "" {
		giantIdx, _ = strconv.Atoi(s)
	}
	f, err := os.OpenFile(os.Getenv("C25_PROGRESS"), os.O_RDWR|os.O_CREATE, 0o644)
	if err != nil {
		fmt.Fprintln(os.Stderr, "child: progress file:", err)
		os.Exit(90)
	}
	f.Truncate(16)
	mm, err := syscall.Mmap(int(f.Fd()), 0, 16, syscall.PROT_READ|syscall.PROT_WRITE, syscall.MAP_SHARED)
	if err != nil {
		fmt.Fprintln(os.Stderr, "child: mmap:", err)
		os.Exit(90)
	}
	c := &child{seen: map[uint64]struct{}{}, progress: mm}
	c.res.Counters = map[string]int64{}
	c.sample[0].Name = "/gc/heap/allocs:bytes"
	seed := vf.Seed()
	if giantIdx >= 0 {
		g := giants()[giantIdx]
		data := g.Build()
		c.one(uint64(giantIdx), "giant:"+g.Name, data, true)
	} else {
		for idx := lo; idx < hi; idx++ {
			fam, data := hostileCase(seed, idx)
			c.one(idx, fam, data, false)
		}
	}
	c.res.Distinct = len(c.seen)
	c.res.Done = true
	b, _ := json.Marshal(&c.res)
	if err := os.WriteFile(out, b, 0o644); err != nil {
		fmt.Fprintln(os.Stderr, "child: result:", err)
		os.Exit(90)
	}
	os.Exit(0)
}

// ---- parent side

type job struct {
	lo, hi uint64
	giant  int // -1: index range
}

func stageName(s uint64) string {
	switch s {
	case stDecode:
		return "DecodeValue"
	case stReencode:
		return "EncodeValue(re-encode of the accepted value)"
	case stCallParam:
		return "DeserializeCallParam"
	case stNotify:
		return "DeserializeNotify"
	}
	return fmt.Sprintf("stage%d", s)
}

func classifyCrash(stderr string) string {
	switch {
	case strings.Contains(stderr, "stack overflow") || strings.Contains(stderr, "stack exceeds"):
		return "stack-overflow"
	case strings.Contains(stderr, "out of memory") || strings.Contains(stderr, "cannot allocate memory"):
		return "out-of-memory"
	case strings.Contains(stderr, "fatal error"):
		return "fatal-error"
	}
	return "died"
}

func partB(r *vf.Run, scratch string) {
	seed := vf.Seed()
	total := uint64(vf.N(100000, 6000000))
	workers := runtime.NumCPU() - 2
	if workers < 2 {
		workers = 2
	}
	if workers > 14 {
		workers = 14
	}
	// one long-lived child per worker and contiguous index range (a fresh process pays for every page it touches
	// first; a crash restarts the range after the fatal case)
	chunk := (total + uint64(workers) - 1) / uint64(workers)
	var jobs []job
	gs := giants()
	for i := range gs { // giants first: they are the long poles
		jobs = append(jobs, job{giant: i})
	}
	for lo := uint64(0); lo < total; lo += chunk {
		hi := lo + chunk
		if hi > total {
			hi = total
		}
		jobs = append(jobs, job{lo: lo, hi: hi, giant: -1})
	}
	var mu sync.Mutex
	childDistinct := 0
	merge := func(res *childResult) {
		mu.Lock()
		defer mu.Unlock()
		childDistinct += res.Distinct
		for _, fp := range res.Fps {
			r.Eval(fmt.Sprintf("h/%016x", fp))
		}
		if rest := res.Evals - int64(len(res.Fps)); rest > 0 {
			r.Evals(int(rest))
		}
		for k, v := range res.Counters {
			r.Add(k, v)
		}
		for _, v := range res.Violations {
			r.Violation(v.Key, v.What, v.Witness)
		}
		for _, s := range res.Samples {
			r.Sample(s)
		}
	}
	// first-touch page faults are very slow in this sandbox (~0.25 ms per 4 KiB page): the two cases that need a
	// 512 MiB stack run one after the other so that the second reuses the pages the first one gave back
	hugeSem := make(chan struct{}, 1)
	giantSem := make(chan struct{}, 6)
	vf.Parallel(len(jobs), workers+6, func(ji int) {
		j := jobs[ji]
		if j.giant >= 0 {
			if l := gs[j.giant].Limit; (l == "wasm10M" || l == "beyond32M") && strings.HasPrefix(gs[j.giant].Name, "nest") {
				hugeSem <- struct{}{}
				defer func() { <-hugeSem }()
			} else {
				giantSem <- struct{}{}
				defer func() { <-giantSem }()
			}
		}
		lo := j.lo
		for attempt := 0; attempt < 20; attempt++ {
			tag := fmt.Sprintf("j%d-%d", ji, attempt)
			outPath := filepath.Join(scratch, tag+".json")
			progPath := filepath.Join(scratch, tag+".progress")
			errPath := filepath.Join(scratch, tag+".stderr")
			errF, _ := os.Create(errPath)
			cmd := exec.Command(os.Args[0])
			cmd.Env = append(os.Environ(), "C25_CHILD=1",
				"C25_LO="+strconv.FormatUint(lo, 10), "C25_HI="+strconv.FormatUint(j.hi, 10),
				"C25_OUT="+outPath, "C25_PROGRESS="+progPath, "GOMAXPROCS=2", "GOTRACEBACK=single",
				// runtime tuning only (stack shrinking and frequent GC cycles make deep-nesting cases re-copy their stacks)
				"GODEBUG=gcshrinkstackoff=1", "GOGC=400")
			if j.giant >= 0 {
				cmd.Env = append(cmd.Env, "C25_GIANT="+strconv.Itoa(j.giant), "GOGC=off")
			}
			cmd.Stdout = errF
			cmd.Stderr = errF
			if err := cmd.Start(); err != nil {
				r.Inconclusive("cannot start child: " + err.Error())
				return
			}
			done := make(chan error, 1)
			go func() { done <- cmd.Wait() }()
			var werr error
			timedOut := false
			select {
			case werr = <-done:
			case <-time.After(8 * time.Minute):
				cmd.Process.Kill()
				werr = <-done
				timedOut = true
			}
			errF.Close()
			var res childResult
			if b, err := os.ReadFile(outPath); err == nil {
				json.Unmarshal(b, &res)
			}
			if werr == nil && res.Done {
				merge(&res)
				if j.giant >= 0 {
					r.Count("giant_case_survived")
					r.Count("giant_survived_" + gs[j.giant].Limit)
				}
				return
			}
			// the child died: find the case it was executing
			pb, _ := os.ReadFile(progPath)
			var idx, stage uint64
			if len(pb) >= 16 {
				idx = binary.LittleEndian.Uint64(pb[0:])
				stage = binary.LittleEndian.Uint64(pb[8:])
			}
			if timedOut {
				r.Inconclusive(fmt.Sprintf("child for job %d timed out at case %d (%s)", ji, idx, stageName(stage)))
				return
			}
			eb, _ := os.ReadFile(errPath)
			stderr := string(eb)
			if len(stderr) > 1500 {
				stderr = stderr[:1500]
			}
			if stage == 0 || strings.Contains(stderr, "child:") {
				r.Inconclusive(fmt.Sprintf("child for job %d failed before running a case: %v %s", ji, werr, stderr))
				return
			}
			var fam string
			var data []byte
			if j.giant >= 0 {
				fam, data = "giant:"+gs[j.giant].Name, gs[j.giant].Build()
			} else {
				fam, data = hostileCase(seed, idx)
			}
			famKey := fam
			if j.giant >= 0 {
				famKey = "giant:" + strings.SplitN(gs[j.giant].Name, "/", 2)[0] + ":" + gs[j.giant].Limit
			}
			kind := classifyCrash(stderr)
			r.Evals(1)
			r.Count("child_fatal_" + kind)
			r.Violation(fmt.Sprintf("fatal:%s:%s:%s", kind, strings.Fields(stageName(stage))[0], famKey),
				fmt.Sprintf("the process running %s on this input died (%s, %v); a fatal runtime error cannot be recovered by the node", stageName(stage), kind, werr),
				map[string]interface{}{"family": fam, "case_index": idx, "stage": stageName(stage), "input": compactBytes(data), "stderr_head": stderr})
			if j.giant >= 0 {
				return
			}
			lo = idx + 1 // continue after the fatal case
			if lo >= j.hi {
				return
			}
		}
		r.Inconclusive(fmt.Sprintf("job %d: too many child crashes", ji))
	})
	r.Extra("hostile_inputs_total", total)
	r.Extra("hostile_distinct_counted_in_children", childDistinct)
	r.Extra("enumerated_completely", map[string]interface{}{"hostile_inputs_of_length_1_and_2": true, "bound": "all 256 + 65536 byte strings of length 1 and 2 through DecodeValue, DeserializeCallParam (with and without version byte) and DeserializeNotify (with and without evt\\0)"})
	r.Extra("giant_cases", len(gs))
}

func main() {
	if os.Getenv("C25_CHILD") != "" {
		childMain()
		return
	}
	r := vf.NewRun("C25", "exploration",
		"(A) seeded nested values: lists (depth <= 6, forced depth-6 spines) of bytes/string/address/bool/i128-range big.Int/H256/int/int64 (+int32/uint32 in lists); distinct by encoded bytes, non-trivial when the encoding is longer than 2 bytes; out-of-range integers at every depth. "+
			"(B) hostile byte strings, case i a pure function of (seed,i): all strings of length 1 and 2, random, random with a valid tag, 1-3 byte-level mutations of valid encodings, forged length fields, nested list tags (to 20000 levels, and to the 64 KiB/1 MiB/10 MiB production limits in dedicated children), wide lists, irregular booleans, valid encodings with trailing bytes; each through DecodeValue, DeserializeCallParam and DeserializeNotify in supervised child processes; distinct by sha256 of the input")
	rng := vf.NewRNG(vf.Seed())
	scratch := vf.Scratch("c25")
	defer os.RemoveAll(scratch)

	t0 := time.Now()
	partA(r, rng.Sub(1))
	t1 := time.Now()
	partB(r, scratch)
	r.Extra("phase_seconds", map[string]float64{"roundtrip": t1.Sub(t0).Seconds(), "hostile": time.Since(t1).Seconds()})
	os.RemoveAll(scratch)

	for _, k := range []string{"bytes", "bytes_empty", "string", "string_empty", "string_non_utf8", "address", "bool", "bigint", "int_negative", "int_at_i128_limit", "h256", "int", "int64", "int32", "uint32", "list", "list_empty"} {
		r.Require("gen_"+k, 10)
	}
	r.Require("gen_depth6_reached", 1)
	for _, k := range []string{"bytes", "string", "address", "bool", "int", "h256", "list"} {
		r.Require("roundtrip_ok_"+k, 10)
	}
	r.Require("callparam_ok", 1000)
	r.Require("notify_ok", 1000)
	r.Require("out_of_range_top", 50)
	r.Require("out_of_range_nested", 50)
	if r.Violations() == 0 {
		r.Require("out_of_range_refused", 100)
	}
	for _, k := range []string{"exh1", "exh2", "rand", "randtag", "mutvalid", "lenfield", "nest", "wide", "boolirr", "validtrail"} {
		r.Require("fam_"+k, 100)
	}
	r.Require("decode_accepted", 1000)
	r.Require("decode_rejected", 1000)
	r.Require("decode_rejected_unsupported_tag", 100)
	r.Require("decode_accepted_with_trailing_bytes", 100)
	r.Require("decode_accepted_list", 100)
	r.Require("reencode_ok", 1000)
	r.Require("irregular_bool_list_rejected", 10)
	r.Require("forged_length_rejected", 100)
	r.Require("deep_nesting_ge_1000_survived", 10)
	r.Require("callparam_accepted", 1000)
	r.Require("callparam_rejected", 1000)
	r.Require("notify_passthrough", 1000)
	r.Require("notify_stringified", 1000)
	r.Require("alloc_measured_large_input", 100)
	if r.Violations() == 0 {
		r.Require("giant_case_survived", int64(len(giants())))
	}
	r.Assume("inputs reaching the codec in production are bounded by MAX_NOTIFY_LENGTH (64 KiB, notify), MAX_BYTEARRAY_SIZE (1 MiB, neovm->wasm) and WASM_MEM_LIMITATION (10 MiB, wasm->neovm); deep-nesting inputs are generated up to these limits, not beyond")
	r.Assume("'bounded allocation' is read as: heap bytes allocated by one decoding call <= 128*len(input)+4 MiB, smallest of up to 5 repetitions (runtime/metrics /gc/heap/allocs:bytes inside a single-threaded child)")
	r.Assume("integers given as int/int64/int32/uint32 are compared numerically with the *big.Int the decoder returns; the documented layout (tag, u32le length, payload) is what a wasm contract produces")
	r.Finish()
}
