// C26 — Block-root merkle tree gives verifiable inclusion and consistency proofs.
//
// The real CompactMerkleTree / MerkleVerifier / fileHashStore are driven through every tree
// size up to a bound; the oracle is the harness' own RFC 6962 reference (lib/rfc6962: tree
// head, PATH, PROOF from the recursive definitions; RFC 9162 verification algorithms).
//
//   - after every AppendHash: Root() == reference head == TreeHasher.HashFullTreeWithLeafHash;
//     the returned audit path is the reference PATH of the new leaf; GetRootWithNewLeaf /
//     GetRootWithNewLeaves give the head of the extended list and leave tree and store untouched;
//   - for all 0 <= m < n <= N: InclusionProof(m, n) is the reference PATH and verifies;
//     for all 1 <= m <= n <= N: ConsistencyProof(m, n) is the reference PROOF and verifies;
//   - every single mutation of a verified tuple must be rejected.  Leaf, index, root and proof
//     element mutations can never be valid.  A tree-size mutation is judged by the reference
//     verifier, because an RFC 6962 head does not commit to the size: (leaf 0, size 3) and
//     (leaf 0, size 4) have the same path shape, and no verifier can tell them apart;
//   - persistence: tree over a fileHashStore, closed and reloaded at every size (exact file,
//     file with trailing hashes / torn bytes, Marshal/UnMarshal), then extended: same heads and
//     proofs; a file shorter than the size needs is refused.
package main

import (
	"bytes"
	"fmt"
	"os"
	"path/filepath"
	"runtime"
	"sort"
	"strings"
	"sync"

	"github.com/ontio/ontology/common"
	"github.com/ontio/ontology/merkle"
	"verifharness/lib/rfc6962"
	"verifharness/lib/vf"
)

type H = common.Uint256

// ---------------------------------------------------------------- store wrapper (observes writes)

type recStore struct {
	inner   merkle.HashStore
	mu      sync.Mutex
	appends int
	hashes  int
}

func (s *recStore) Append(h []H) error {
	s.mu.Lock()
	s.appends++
	s.hashes += len(h)
	s.mu.Unlock()
	return s.inner.Append(h)
}
func (s *recStore) Flush() error                  { return s.inner.Flush() }
func (s *recStore) Close()                        { s.inner.Close() }
func (s *recStore) GetHash(pos uint32) (H, error) { return s.inner.GetHash(pos) }
func (s *recStore) written() (appends, hashes int) {
	s.mu.Lock()
	defer s.mu.Unlock()
	return s.appends, s.hashes
}

// ---------------------------------------------------------------- helpers

func sizeClass(n int) string {
	switch {
	case n == 0:
		return "n=0"
	case n == 1:
		return "n=1"
	case n&(n-1) == 0:
		return "n=2^k"
	case (n-1)&(n-2) == 0:
		return "n=2^k+1"
	case (n+1)&n == 0:
		return "n=2^k-1"
	}
	return "n=other"
}

func posClass(m, n int) string {
	switch {
	case m == 0:
		return "first"
	case m == n-1:
		return "last"
	}
	return "inner"
}

func toRef(hs []H) []rfc6962.Hash {
	out := make([]rfc6962.Hash, len(hs))
	for i := range hs {
		out[i] = rfc6962.Hash(hs[i])
	}
	return out
}

func sameProof(a []H, b []rfc6962.Hash) bool {
	if len(a) != len(b) {
		return false
	}
	for i := range a {
		if rfc6962.Hash(a[i]) != b[i] {
			return false
		}
	}
	return true
}

func hexes(hs []H) []string {
	out := make([]string, len(hs))
	for i := range hs {
		out[i] = vf.Hex(hs[i][:])
	}
	return out
}

func hx(h [32]byte) string { return vf.Hex(h[:]) }

func cloneH(hs []H) []H { return append([]H(nil), hs...) }

func flip(h H, bit int) H {
	h[(bit/8)%32] ^= 1 << uint(bit%8)
	return h
}

type ctx struct {
	r      *vf.Run
	leaves []H
	ver    *merkle.MerkleVerifier
}

// leavesWitness: the concrete leaf hashes needed to rebuild the tree of size n.
func (c *ctx) leavesWitness(n int) []string {
	if n > 80 {
		return append(hexes(c.leaves[:4]), fmt.Sprintf("… %d leaves, leaf i = rng(seed).Sub(0x1eaf).Sub(i).Bytes(32)", n))
	}
	return hexes(c.leaves[:n])
}

// ---------------------------------------------------------------- mutation families

type incTuple struct {
	leaf  H
	index uint32
	proof []H
	root  H
	size  uint32
}

type mutant struct {
	family string
	hard   bool // can never be a valid tuple: must be rejected whatever any reference says
	t      incTuple
}

func proofMutants(p []H, g *vf.RNG, emit func(family string, q []H)) {
	for i := range p {
		q := cloneH(p)
		q[i] = flip(q[i], g.Intn(256))
		emit("proof-flip", q)
		q = append(cloneH(p[:i]), p[i+1:]...)
		emit("proof-drop", q)
		q = append(cloneH(p[:i+1]), p[i:]...)
		emit("proof-dup", q)
		if i+1 < len(p) && p[i] != p[i+1] {
			q = cloneH(p)
			q[i], q[i+1] = q[i+1], q[i]
			emit("proof-swap", q)
		}
	}
	var extra H
	copy(extra[:], g.Bytes(32))
	emit("proof-append", append(cloneH(p), extra))
	emit("proof-prepend", append([]H{extra}, p...))
}

// checkInclusionMutants: t is a tuple the real verifier accepted.
func (c *ctx) checkInclusionMutants(t incTuple, rootsNear map[uint32]H, otherLeaf *H, g *vf.RNG, src string) {
	r := c.r
	var ms []mutant
	add := func(f string, hard bool, u incTuple) { ms = append(ms, mutant{f, hard, u}) }
	u := t
	u.leaf = flip(t.leaf, g.Intn(256))
	add("leaf-flip", true, u)
	if otherLeaf != nil {
		u = t
		u.leaf = *otherLeaf
		add("leaf-other", true, u)
	}
	u = t
	u.index = t.index + 1
	add("index+1", true, u)
	if t.index > 0 {
		u = t
		u.index = t.index - 1
		add("index-1", true, u)
	}
	u = t
	u.size = t.size + 1
	add("size+1", false, u)
	if t.size > 1 {
		u = t
		u.size = t.size - 1
		add("size-1", false, u)
	}
	u = t
	u.root = flip(t.root, g.Intn(256))
	add("root-flip", true, u)
	for _, d := range []uint32{t.size - 1, t.size + 1} {
		if rt, ok := rootsNear[d]; ok && rt != t.root {
			u = t
			u.root = rt
			add("root-of-other-size", true, u)
		}
	}
	proofMutants(t.proof, g, func(f string, q []H) {
		u := t
		u.proof = q
		add(f, true, u)
	})
	for _, m := range ms {
		var err error
		if p := vf.Catch(func() { err = c.ver.VerifyLeafHashInclusion(m.t.leaf, m.t.index, m.t.proof, m.t.root, m.t.size) }); p != nil {
			r.Violation("panic:VerifyLeafHashInclusion:"+m.family, fmt.Sprint(p), c.incWitness(t, m, src))
			continue
		}
		r.Evals(1)
		r.Count("inc_mut_" + m.family)
		refOK := rfc6962.VerifyInclusion(rfc6962.Hash(m.t.leaf), uint64(m.t.index), uint64(m.t.size), toRef(m.t.proof), rfc6962.Hash(m.t.root))
		if m.hard && refOK {
			r.Inconclusive("harness: reference inclusion verifier accepted a " + m.family + " mutant")
		}
		if err != nil {
			r.Count("inc_mut_rejected")
			continue
		}
		switch {
		case m.hard:
			r.Violation("inclusion:accepts:"+m.family+":"+sizeClass(int(t.size)), "VerifyLeafHashInclusion accepted a mutated tuple ("+m.family+")", c.incWitness(t, m, src))
		case !refOK:
			r.Violation("inclusion:accepts:"+m.family+":ref-rejects:"+sizeClass(int(t.size)), "VerifyLeafHashInclusion accepted a tree-size mutant that the RFC 9162 verification algorithm rejects", c.incWitness(t, m, src))
		default:
			r.Count("inc_size_mutant_indistinguishable_by_rfc")
		}
	}
}

func (c *ctx) incWitness(t incTuple, m mutant, src string) map[string]interface{} {
	return map[string]interface{}{"source": src, "family": m.family,
		"valid":  map[string]interface{}{"leaf": vf.Hex(t.leaf[:]), "index": t.index, "size": t.size, "root": vf.Hex(t.root[:]), "proof": hexes(t.proof)},
		"mutant": map[string]interface{}{"leaf": vf.Hex(m.t.leaf[:]), "index": m.t.index, "size": m.t.size, "root": vf.Hex(m.t.root[:]), "proof": hexes(m.t.proof)},
		"call":   "MerkleVerifier.VerifyLeafHashInclusion(leaf, index, proof, root, size)"}
}

type conTuple struct {
	m, n         uint32
	rootM, rootN H
	proof        []H
}

func (c *ctx) checkConsistencyMutants(t conTuple, g *vf.RNG, src string) {
	r := c.r
	type cm struct {
		family string
		hard   bool
		t      conTuple
	}
	var ms []cm
	add := func(f string, hard bool, u conTuple) { ms = append(ms, cm{f, hard, u}) }
	u := t
	u.rootM = flip(t.rootM, g.Intn(256))
	add("oldroot-flip", true, u)
	u = t
	u.rootN = flip(t.rootN, g.Intn(256))
	add("newroot-flip", true, u)
	if t.m < t.n {
		u = t
		u.rootM, u.rootN = t.rootN, t.rootM
		add("roots-swapped", true, u)
		// a head replaced by the other size's head (claiming the old tree already had the new head, and vice versa)
		u = t
		u.rootM = t.rootN
		add("oldroot-replaced-by-newroot", true, u)
		u = t
		u.rootN = t.rootM
		add("newroot-replaced-by-oldroot", true, u)
		proofMutants(t.proof, g, func(f string, q []H) {
			u := t
			u.proof = q
			add(f, true, u)
		})
	}
	for _, d := range []int{-1, 1} {
		if nm := int(t.m) + d; nm >= 1 {
			u = t
			u.m = uint32(nm)
			add(fmt.Sprintf("oldsize%+d", d), false, u)
		} else {
			r.Count("con_mut_oldsize_to_zero_not_judged")
		}
		if nn := int(t.n) + d; nn >= 1 {
			u = t
			u.n = uint32(nn)
			add(fmt.Sprintf("newsize%+d", d), false, u)
		}
	}
	for _, m := range ms {
		var err error
		wit := func() map[string]interface{} {
			return map[string]interface{}{"source": src, "family": m.family,
				"valid":  map[string]interface{}{"old_size": t.m, "new_size": t.n, "old_root": vf.Hex(t.rootM[:]), "new_root": vf.Hex(t.rootN[:]), "proof": hexes(t.proof)},
				"mutant": map[string]interface{}{"old_size": m.t.m, "new_size": m.t.n, "old_root": vf.Hex(m.t.rootM[:]), "new_root": vf.Hex(m.t.rootN[:]), "proof": hexes(m.t.proof)},
				"call":   "MerkleVerifier.VerifyConsistency(old_size, new_size, old_root, new_root, proof)"}
		}
		if p := vf.Catch(func() { err = c.ver.VerifyConsistency(m.t.m, m.t.n, m.t.rootM, m.t.rootN, m.t.proof) }); p != nil {
			r.Violation("panic:VerifyConsistency:"+m.family, fmt.Sprint(p), wit())
			continue
		}
		r.Evals(1)
		r.Count("con_mut_" + m.family)
		refOK := rfc6962.VerifyConsistency(uint64(m.t.m), uint64(m.t.n), rfc6962.Hash(m.t.rootM), rfc6962.Hash(m.t.rootN), toRef(m.t.proof))
		if m.hard && refOK {
			r.Inconclusive("harness: reference consistency verifier accepted a " + m.family + " mutant")
		}
		if err != nil {
			r.Count("con_mut_rejected")
			continue
		}
		shape := "distinct-roots"
		if m.t.rootM == m.t.rootN {
			shape = "equal-roots"
		}
		switch {
		case m.hard:
			r.Violation("consistency:accepts:"+shape+":"+m.family, "VerifyConsistency accepted a mutated tuple ("+m.family+")", wit())
		case !refOK:
			r.Violation("consistency:accepts:"+shape+":"+m.family+":ref-rejects", "VerifyConsistency accepted a tree-size mutant that the RFC 9162 verification algorithm rejects", wit())
		default:
			r.Count("con_size_mutant_indistinguishable_by_rfc")
		}
	}
}

// ---------------------------------------------------------------- proofs of one (tree, size) against the reference

// checkProofs: all inclusion proofs (m, n) and consistency proofs (m, n) for the given n, served by tree t
// (whose size is >= n).  ms lists the m to check (zero-based leaf indices; consistency uses m+1).
func (c *ctx) checkProofs(t *merkle.CompactMerkleTree, ref *rfc6962.Tree, n int, ms []int, mutate bool, g *vf.RNG, src string) {
	r := c.r
	rootN := H(ref.Root(n))
	near := map[uint32]H{}
	if n > 1 {
		near[uint32(n-1)] = H(ref.Root(n - 1))
	}
	if n+1 <= len(c.leaves) {
		near[uint32(n+1)] = H(ref.Root(n + 1))
	}
	for _, m := range ms {
		// ---- inclusion of leaf m in the tree of size n
		var proof []H
		var err error
		if p := vf.Catch(func() { proof, err = t.InclusionProof(uint32(m), uint32(n)) }); p != nil {
			r.Violation("panic:InclusionProof:"+sizeClass(n), fmt.Sprint(p), map[string]interface{}{"source": src, "m": m, "n": n, "leaves": c.leavesWitness(n)})
			continue
		}
		r.Eval(fmt.Sprintf("%s/inc/%d/%d", src, m, n))
		r.Count("inclusion_pairs")
		if err != nil {
			r.Violation(srcKey(src)+"inclusion:generate-error:"+sizeClass(n), "InclusionProof failed for a leaf of the tree: "+err.Error(), map[string]interface{}{"source": src, "m": m, "n": n, "tree_size": t.TreeSize(), "leaves": c.leavesWitness(n)})
			continue
		}
		want := ref.Path(m, n)
		if !sameProof(proof, want) {
			r.Violation(srcKey(src)+"inclusion:differs-from-rfc:"+sizeClass(n)+":"+posClass(m, n), "InclusionProof(m,n) is not PATH(m, D[0:n]) of RFC 6962",
				map[string]interface{}{"source": src, "m": m, "n": n, "got": hexes(proof), "leaves": c.leavesWitness(n)})
		}
		if p := vf.Catch(func() { err = c.ver.VerifyLeafHashInclusion(c.leaves[m], uint32(m), proof, rootN, uint32(n)) }); p != nil {
			r.Violation("panic:VerifyLeafHashInclusion:valid", fmt.Sprint(p), map[string]interface{}{"source": src, "m": m, "n": n, "proof": hexes(proof), "leaves": c.leavesWitness(n)})
			continue
		}
		if err != nil {
			r.Violation(srcKey(src)+"inclusion:verify-rejects-valid:"+sizeClass(n)+":"+posClass(m, n), "the tree's own inclusion proof does not verify against the head of size n: "+err.Error(),
				map[string]interface{}{"source": src, "m": m, "n": n, "root": vf.Hex(rootN[:]), "proof": hexes(proof), "leaves": c.leavesWitness(n)})
			continue
		}
		r.Count("inclusion_verified")
		if uint32(n) < t.TreeSize() {
			r.Count("inclusion_verified_against_older_head")
		}
		if mutate {
			var other *H
			if n > 1 {
				other = &c.leaves[(m+1)%n]
			}
			c.checkInclusionMutants(incTuple{c.leaves[m], uint32(m), proof, rootN, uint32(n)}, near, other, g, src)
		}

		// ---- consistency between sizes m+1 and n
		om := m + 1
		var cp []H
		if p := vf.Catch(func() { cp = t.ConsistencyProof(uint32(om), uint32(n)) }); p != nil {
			r.Violation("panic:ConsistencyProof:"+sizeClass(n), fmt.Sprint(p), map[string]interface{}{"source": src, "m": om, "n": n, "leaves": c.leavesWitness(n)})
			continue
		}
		r.Eval(fmt.Sprintf("%s/con/%d/%d", src, om, n))
		r.Count("consistency_pairs")
		if om == n {
			r.Count("consistency_equal_sizes")
		}
		if om&(om-1) == 0 {
			r.Count("consistency_old_size_power_of_two")
		}
		wantC := ref.Proof(om, n)
		if !sameProof(cp, wantC) {
			r.Violation(srcKey(src)+"consistency:differs-from-rfc:"+sizeClass(om)+":"+sizeClass(n), "ConsistencyProof(m,n) is not PROOF(m, D[0:n]) of RFC 6962",
				map[string]interface{}{"source": src, "m": om, "n": n, "got": hexes(cp), "leaves": c.leavesWitness(n)})
		}
		rootM := H(ref.Root(om))
		if p := vf.Catch(func() { err = c.ver.VerifyConsistency(uint32(om), uint32(n), rootM, rootN, cp) }); p != nil {
			r.Violation("panic:VerifyConsistency:valid", fmt.Sprint(p), map[string]interface{}{"source": src, "m": om, "n": n, "proof": hexes(cp), "leaves": c.leavesWitness(n)})
			continue
		}
		if err != nil {
			r.Violation(srcKey(src)+"consistency:verify-rejects-valid:"+sizeClass(om)+":"+sizeClass(n), "the tree's own consistency proof does not verify: "+err.Error(),
				map[string]interface{}{"source": src, "m": om, "n": n, "old_root": vf.Hex(rootM[:]), "new_root": vf.Hex(rootN[:]), "proof": hexes(cp), "leaves": c.leavesWitness(n)})
			continue
		}
		r.Count("consistency_verified")
		if mutate {
			c.checkConsistencyMutants(conTuple{uint32(om), uint32(n), rootM, rootN, cp}, g, src)
		}
	}
}

// srcKey: violations seen on a reloaded / file-backed tree carry the persistence shape in their key.
func srcKey(src string) string {
	if strings.HasPrefix(src, "reload:") || strings.HasPrefix(src, "file-") {
		return "persist:" + strings.TrimSuffix(strings.TrimPrefix(src, "reload:"), ":grow") + ":"
	}
	return ""
}

func allM(n int) []int {
	ms := make([]int, n)
	for i := range ms {
		ms[i] = i
	}
	return ms
}

// ---------------------------------------------------------------- phase 1: incremental build, exhaustive pairs

func (c *ctx) appendChecked(t *merkle.CompactMerkleTree, ref *rfc6962.Tree, st *recStore, n int, g *vf.RNG, src string) bool {
	r := c.r
	// n = size after the append; leaf = c.leaves[n-1]
	leaf := c.leaves[n-1]
	hasher := merkle.TreeHasher{}

	// look-ahead heads must not change the tree or its store
	before := struct {
		root   H
		size   uint32
		hashes []H
		ap, hs int
	}{size: t.TreeSize(), hashes: cloneH(t.Hashes())}
	before.root = t.Root()
	if st != nil {
		before.ap, before.hs = st.written()
	}
	var got H
	if p := vf.Catch(func() { got = t.GetRootWithNewLeaf(leaf) }); p != nil {
		r.Violation("panic:GetRootWithNewLeaf:"+sizeClass(n), fmt.Sprint(p), map[string]interface{}{"source": src, "n": n, "leaves": c.leavesWitness(n)})
	} else {
		r.Eval(fmt.Sprintf("%s/newleaf/%d", src, n))
		r.Count("root_with_new_leaf")
		if got != H(ref.Root(n)) {
			r.Violation(srcKey(src)+"root:with-new-leaf:"+sizeClass(n), "GetRootWithNewLeaf differs from the head of the extended list", map[string]interface{}{"source": src, "n": n, "got": vf.Hex(got[:]), "want": hx(ref.Root(n)), "leaves": c.leavesWitness(n)})
		}
	}
	for _, k := range []int{0, 1, 2, 3, 5, 8} {
		if n-1+k > len(c.leaves) {
			break
		}
		ext := cloneH(c.leaves[n-1 : n-1+k])
		if p := vf.Catch(func() { got = t.GetRootWithNewLeaves(ext) }); p != nil {
			r.Violation("panic:GetRootWithNewLeaves:"+sizeClass(n-1), fmt.Sprint(p), map[string]interface{}{"source": src, "size": n - 1, "k": k, "leaves": c.leavesWitness(n - 1 + k)})
			continue
		}
		r.Eval(fmt.Sprintf("%s/newleaves/%d/%d", src, n-1, k))
		r.Count("root_with_new_leaves")
		if k == 0 {
			r.Count("root_with_zero_new_leaves")
		}
		if got != H(ref.Root(n-1+k)) {
			r.Violation(fmt.Sprintf("root:with-new-leaves:%s:k=%d", sizeClass(n-1), k), "GetRootWithNewLeaves differs from the head of the extended list",
				map[string]interface{}{"source": src, "size": n - 1, "k": k, "got": vf.Hex(got[:]), "want": hx(ref.Root(n - 1 + k)), "leaves": c.leavesWitness(n - 1 + k)})
		}
	}
	mutated := ""
	if t.TreeSize() != before.size {
		mutated = "TreeSize"
	} else if t.Root() != before.root {
		mutated = "Root"
	} else if !bytes.Equal(flat(t.Hashes()), flat(before.hashes)) {
		mutated = "Hashes"
	} else if st != nil {
		if a, h := st.written(); a != before.ap || h != before.hs {
			mutated = "hash-store"
		}
	}
	if mutated != "" {
		r.Violation(srcKey(src)+"lookahead-mutates:"+mutated, "GetRootWithNewLeaf/GetRootWithNewLeaves changed the tree's "+mutated, map[string]interface{}{"source": src, "size": n - 1, "leaves": c.leavesWitness(n)})
	} else {
		r.Count("lookahead_left_tree_untouched")
	}

	// the append itself
	var audit []H
	if p := vf.Catch(func() { audit = t.AppendHash(leaf) }); p != nil {
		r.Violation("panic:AppendHash:"+sizeClass(n), fmt.Sprint(p), map[string]interface{}{"source": src, "n": n, "leaves": c.leavesWitness(n)})
		return false
	}
	r.Eval(fmt.Sprintf("%s/append/%d", src, n))
	r.Count("appends")
	r.Count("append_" + sizeClass(n))
	root := t.Root()
	want := H(ref.Root(n))
	full := hasher.HashFullTreeWithLeafHash(c.leaves[:n])
	if full != want {
		r.Violation(srcKey(src)+"root:fulltree-differs-from-rfc:"+sizeClass(n), "TreeHasher.HashFullTreeWithLeafHash differs from MTH of RFC 6962", map[string]interface{}{"n": n, "got": vf.Hex(full[:]), "want": vf.Hex(want[:]), "leaves": c.leavesWitness(n)})
	}
	if t.TreeSize() != uint32(n) {
		r.Violation(srcKey(src)+"append:tree-size", "TreeSize after append", map[string]interface{}{"source": src, "n": n, "got": t.TreeSize()})
	}
	if root != want {
		r.Violation(srcKey(src)+"root:incremental:"+sizeClass(n), "Root() after AppendHash differs from the head of the full tree", map[string]interface{}{"source": src, "n": n, "got": vf.Hex(root[:]), "want": vf.Hex(want[:]), "leaves": c.leavesWitness(n)})
		return false
	}
	if !sameProof(audit, ref.Path(n-1, n)) {
		r.Violation(srcKey(src)+"audit-path:differs-from-rfc:"+sizeClass(n), "audit path returned by AppendHash is not PATH(n-1, D[0:n])", map[string]interface{}{"source": src, "n": n, "got": hexes(audit), "leaves": c.leavesWitness(n)})
	} else if err := c.ver.VerifyLeafHashInclusion(leaf, uint32(n-1), audit, root, uint32(n)); err != nil {
		r.Violation(srcKey(src)+"audit-path:verify-rejects:"+sizeClass(n), "audit path returned by AppendHash does not verify: "+err.Error(), map[string]interface{}{"source": src, "n": n, "audit": hexes(audit), "leaves": c.leavesWitness(n)})
	} else {
		r.Count("audit_path_verified")
	}
	return true
}

func flat(hs []H) []byte {
	b := make([]byte, 0, 32*len(hs))
	for i := range hs {
		b = append(b, hs[i][:]...)
	}
	return b
}

func (c *ctx) phaseExhaustive(N int, g *vf.RNG) {
	r := c.r
	st := &recStore{inner: merkle.NewMemHashStore()}
	t := merkle.NewTree(0, nil, st)
	ref := rfc6962.New(toRef(c.leaves))
	if t.Root() != H(rfc6962.EmptyRoot()) {
		r.Violation("root:empty-tree", "Root() of the empty tree is not SHA-256(\"\")", nil)
	}
	r.Count("empty_tree_root")
	for n := 1; n <= N; n++ {
		if !c.appendChecked(t, ref, st, n, g.Sub(uint64(n)), "grow") {
			return
		}
		// proofs served by the tree when its size is exactly n (the usual production call)
		c.checkProofs(t, ref, n, allM(n), false, g.Sub(uint64(n)<<20), "at-size")
		// sizes the tree has not reached are refused
		if _, err := t.InclusionProof(0, uint32(n+1)); err == nil {
			r.Violation("inclusion:proof-for-future-size", "InclusionProof answered for a size larger than the tree", map[string]interface{}{"tree_size": n, "asked": n + 1})
		} else {
			r.Count("future_size_refused")
		}
		if cp := t.ConsistencyProof(uint32(n), uint32(n+1)); cp != nil {
			r.Violation("consistency:proof-for-future-size", "ConsistencyProof answered for a size larger than the tree", map[string]interface{}{"tree_size": n, "asked": n + 1})
		}
		if _, err := t.InclusionProof(uint32(n), uint32(n)); err == nil {
			r.Violation("inclusion:proof-for-index-out-of-range", "InclusionProof(n, n) answered", map[string]interface{}{"n": n})
		}
	}
	// the final tree serves every older size; all pairs, all single mutations; the tree is only read from here on
	t.Root()
	vf.Parallel(N, runtime.NumCPU(), func(i int) {
		n := i + 1
		lref := rfc6962.New(toRef(c.leaves)) // private memo per task
		c.checkProofs(t, lref, n, allM(n), true, g.Sub(uint64(n)<<32), "final")
	})
	if a, h := st.written(); a != N || h != 2*N-popcount(N) {
		r.Violation("store:append-count", fmt.Sprintf("hash store received %d appends / %d hashes for %d leaves, expected %d / %d", a, h, N, N, 2*N-popcount(N)), nil)
	}
}

func popcount(n int) int {
	c := 0
	for ; n != 0; n &= n - 1 {
		c++
	}
	return c
}

// ---------------------------------------------------------------- phase 2: raw-leaf API (Append / VerifyLeafInclusion / HashFullTree)

func (c *ctx) phaseRawLeaves(g *vf.RNG) {
	r := c.r
	n := vf.N(24, 80)
	data := make([][]byte, n)
	lh := make([]rfc6962.Hash, n)
	for i := range data {
		switch i % 5 {
		case 0:
			data[i] = []byte{}
		case 1:
			data[i] = g.Bytes(64) // same length as an interior node preimage
		default:
			data[i] = g.Bytes(g.Range(1, 100))
		}
		if i > 0 && i%5 == 0 {
			data[i] = append([]byte{byte(i)}, data[i]...)
		}
		lh[i] = rfc6962.LeafHash(data[i])
	}
	ref := rfc6962.New(lh)
	t := merkle.NewTree(0, nil, merkle.NewMemHashStore())
	hasher := merkle.TreeHasher{}
	for k := 1; k <= n; k++ {
		t.Append(data[k-1])
		r.Eval(fmt.Sprintf("raw/append/%d", k))
		if t.Root() != H(ref.Root(k)) || hasher.HashFullTree(data[:k]) != H(ref.Root(k)) {
			r.Violation("raw:root:"+sizeClass(k), "Append(data)/HashFullTree(data) do not give MTH with leaf hash SHA-256(0x00||data)", map[string]interface{}{"n": k, "data": hexData(data[:k])})
			return
		}
		r.Count("raw_root_checked")
	}
	for m := 0; m < n; m++ {
		proof, err := t.InclusionProof(uint32(m), uint32(n))
		if err != nil {
			r.Violation("raw:inclusion:generate-error", err.Error(), map[string]interface{}{"m": m, "n": n})
			continue
		}
		root := t.Root()
		if err := c.ver.VerifyLeafInclusion(data[m], uint32(m), proof, root, uint32(n)); err != nil {
			r.Violation("raw:inclusion:verify-rejects-valid", err.Error(), map[string]interface{}{"m": m, "n": n, "data": hexData(data)})
			continue
		}
		r.Eval(fmt.Sprintf("raw/inc/%d", m))
		r.Count("raw_inclusion_verified")
		// altered leaf data: one bit, one byte appended, and an interior node preimage in place of the leaf
		alts := [][]byte{append(append([]byte{}, data[m]...), 0)}
		if len(data[m]) > 0 {
			a := append([]byte{}, data[m]...)
			a[g.Intn(len(a))] ^= 1 << uint(g.Intn(8))
			alts = append(alts, a)
		}
		if len(proof) > 0 {
			// left||right of the node above the leaf: accepted only if leaf and node hashing were not domain separated
			lhm := lh[m]
			var pre []byte
			if rfc6962.Directions(m, n)[0] {
				pre = append(append([]byte{}, lhm[:]...), proof[0][:]...)
			} else {
				pre = append(append([]byte{}, proof[0][:]...), lhm[:]...)
			}
			if err := c.ver.VerifyLeafInclusion(pre, uint32(m/2), proof[1:], root, uint32((n+1)/2)); err == nil {
				r.Violation("raw:inclusion:accepts:interior-node-preimage", "an interior node preimage was accepted as leaf data", map[string]interface{}{"m": m, "n": n, "data": hexData(data), "preimage": vf.Hex(pre)})
			}
			r.Count("raw_interior_preimage_rejected")
			r.Evals(1)
		}
		for _, a := range alts {
			r.Evals(1)
			if err := c.ver.VerifyLeafInclusion(a, uint32(m), proof, root, uint32(n)); err == nil {
				r.Violation("raw:inclusion:accepts:altered-data", "altered leaf data accepted", map[string]interface{}{"m": m, "n": n, "data": hexData(data), "altered": vf.Hex(a)})
			} else {
				r.Count("raw_altered_data_rejected")
			}
		}
	}
}

func hexData(d [][]byte) []string {
	out := make([]string, len(d))
	for i := range d {
		out[i] = vf.Hex(d[i])
	}
	return out
}

// ---------------------------------------------------------------- phase 3: persistence

func storedBytes(n int) int64 { return int64(2*n-popcount(n)) * 32 }

func (c *ctx) phasePersistence(N int, dir string, g *vf.RNG) {
	r := c.r
	ref := rfc6962.New(toRef(c.leaves))
	master := filepath.Join(dir, "master.db")
	st, err := merkle.NewFileHashStore(master, 0)
	if err != nil {
		r.Violation("persist:create", "NewFileHashStore on a fresh path failed: "+err.Error(), nil)
		return
	}
	t := merkle.NewTree(0, nil, st)
	hashesAt := make([][]H, N+1)
	marshalAt := make([][]byte, N+1)
	hashesAt[0] = nil
	marshalAt[0], _ = t.Marshal()
	for n := 1; n <= N; n++ {
		if !c.appendChecked(t, ref, nil, n, g.Sub(uint64(n)), "file-grow") {
			return
		}
		hashesAt[n] = cloneH(t.Hashes())
		marshalAt[n], _ = t.Marshal()
	}
	// proofs straight from the file-backed tree
	for _, n := range []int{N, N - 1, N / 2} {
		if n >= 1 {
			c.checkProofs(t, ref, n, allM(n), false, g.Sub(7777), "file-live")
		}
	}
	st.Close()
	full, err := os.ReadFile(master)
	if err != nil || int64(len(full)) != storedBytes(N) {
		r.Violation("persist:file-length", fmt.Sprintf("hash file holds %d bytes after %d appends, expected %d (err=%v)", len(full), N, storedBytes(N), err), nil)
		return
	}

	type variant struct {
		name    string
		content func(s int) []byte
	}
	garbage := func(k int) []byte { return g.Bytes(k) }
	variants := []variant{
		{"exact", func(s int) []byte { return full[:storedBytes(s)] }},
		{"trailing-later-hashes", func(s int) []byte { // the file is ahead of the recorded size (crash between file append and state commit)
			ahead := s + 1 + g.Intn(3)
			if ahead > N {
				ahead = N
			}
			return full[:storedBytes(ahead)]
		}},
		{"trailing-other-fork-hashes", func(s int) []byte { // the file is ahead with the hashes of a block that will be replaced by a different one
			ahead := s + 1 + g.Intn(3)
			if ahead > N {
				ahead = N
			}
			b := append([]byte{}, full[:storedBytes(ahead)]...)
			for i := storedBytes(s); i < int64(len(b)); i++ {
				b[i] ^= 0xff
			}
			return b
		}},
		{"trailing-torn-bytes", func(s int) []byte { // a torn append: a partial hash after the valid prefix
			return append(append([]byte{}, full[:storedBytes(s)]...), garbage(1+g.Intn(95))...)
		}},
	}
	sizes := allM(N + 1) // 0..N
	longRun := map[int]bool{0: true, 1: true, N / 2: true, N - 1: true}
	for k := 1; k <= N; k <<= 1 {
		longRun[k] = true
		longRun[k-1] = true
		if k+1 <= N {
			longRun[k+1] = true
		}
	}
	for _, s := range sizes {
		for vi, v := range variants {
			path := filepath.Join(dir, fmt.Sprintf("r-%d-%d.db", s, vi))
			if err := os.WriteFile(path, v.content(s), 0o644); err != nil {
				r.Inconclusive("scratch write failed: " + err.Error())
				return
			}
			src := "reload:" + v.name
			var store merkle.HashStore
			var err error
			if p := vf.Catch(func() { store, err = merkle.NewFileHashStore(path, uint32(s)) }); p != nil {
				r.Violation("panic:NewFileHashStore:"+v.name, fmt.Sprint(p), map[string]interface{}{"size": s, "file_bytes": len(v.content(s))})
				continue
			}
			r.Eval(fmt.Sprintf("%s/%d", src, s))
			if err != nil {
				r.Violation("persist:reload-refused:"+v.name+":"+sizeClass(s), "NewFileHashStore refused a file that holds every hash of the recorded size: "+err.Error(), map[string]interface{}{"size": s, "needed_bytes": storedBytes(s)})
				continue
			}
			var t2 *merkle.CompactMerkleTree
			if vi == 0 && s%2 == 1 {
				// the Marshal/UnMarshal route
				t2 = merkle.NewTree(0, nil, store)
				if p := vf.Catch(func() { err = t2.UnMarshal(marshalAt[s]) }); p != nil || err != nil {
					r.Violation("persist:unmarshal", fmt.Sprintf("UnMarshal(Marshal()) failed: %v %v", p, err), map[string]interface{}{"size": s, "marshal": vf.Hex(marshalAt[s])})
					store.Close()
					continue
				}
				r.Count("reload_via_unmarshal")
			} else {
				t2 = merkle.NewTree(uint32(s), cloneH(hashesAt[s]), store)
				r.Count("reload_via_newtree")
			}
			r.Count("reload_" + v.name)
			ok := true
			if t2.TreeSize() != uint32(s) || t2.Root() != H(ref.Root(s)) {
				r.Violation("persist:root:"+v.name+":"+sizeClass(s), "reloaded tree has a different head", map[string]interface{}{"size": s, "got": hx(t2.Root()), "want": hx(ref.Root(s)), "leaves": c.leavesWitness(s)})
				ok = false
			}
			if ok && s >= 2 {
				// UnMarshal into an object that has ALREADY answered Root() (seeded C26/F: a cached head
				// surviving the reload): load another recorded size into t2, then the original one back.
				for _, o := range []int{s / 2, s} {
					var uerr error
					if p := vf.Catch(func() { uerr = t2.UnMarshal(marshalAt[o]) }); p != nil || uerr != nil {
						r.Violation("persist:unmarshal-live", fmt.Sprintf("UnMarshal(Marshal()) into a live tree failed: %v %v", p, uerr), map[string]interface{}{"size": o, "marshal": vf.Hex(marshalAt[o])})
						ok = false
						break
					}
					r.Eval(fmt.Sprintf("%s/unmarshal-live/%d->%d", src, s, o))
					r.Count("unmarshal_into_live_tree")
					if t2.TreeSize() != uint32(o) || t2.Root() != H(ref.Root(o)) {
						r.Violation("persist:root-after-unmarshal-into-live-tree:"+sizeClass(o), "a tree that had answered Root() reports a different head after UnMarshal of a recorded state", map[string]interface{}{"size_before": s, "size": o, "got": hx(t2.Root()), "want": hx(ref.Root(o)), "leaves": c.leavesWitness(o)})
						ok = false
						break
					}
				}
			}
			if ok && s >= 1 {
				// same proofs as before the reload: for the reloaded size (all m) and a few older sizes
				c.checkProofs(t2, ref, s, allM(s), false, g.Sub(uint64(s)), src)
				for _, older := range []int{s - 1, s / 2, 1} {
					if older >= 1 && older < s {
						c.checkProofs(t2, ref, older, sampleM(older, 6, g), false, g.Sub(uint64(s)), src)
					}
				}
			}
			// keep appending after the reload
			upto := s + 3
			if longRun[s] {
				upto = s + 40
			}
			if upto > N {
				upto = N
			}
			for n := s + 1; ok && n <= upto; n++ {
				if !c.appendChecked(t2, ref, nil, n, g.Sub(uint64(n)), src+":grow") {
					ok = false
					break
				}
				r.Count("append_after_reload")
				ms := sampleM(n, 5, g)
				if n == upto {
					ms = allM(n)
				}
				c.checkProofs(t2, ref, n, ms, false, g.Sub(uint64(n)), src+":grow")
				if n-s >= 2 {
					// an older size whose hashes were written partly before and partly after the reload
					c.checkProofs(t2, ref, n-1, sampleM(n-1, 4, g), false, g.Sub(uint64(n)), src+":grow")
				}
			}
			store.Close()
			if ok && upto > s {
				// what the file holds now must again be a loadable state of size upto
				if b, err := os.ReadFile(path); err != nil || int64(len(b)) < storedBytes(upto) || !bytes.Equal(b[:storedBytes(upto)], full[:storedBytes(upto)]) {
					r.Violation("persist:file-content-after-reload:"+v.name, "the hash file written after a reload differs from the file of an uninterrupted run", map[string]interface{}{"reloaded_at": s, "extended_to": upto})
				} else {
					r.Count("file_identical_to_uninterrupted_run")
				}
			}
			os.Remove(path)
		}
		// too-short files must be refused (the descriptor of a refused store is not handed out: sample sizes to bound leaked descriptors)
		if s >= 1 && (s <= 64 || s%7 == 0 || s == N) {
			need := storedBytes(s)
			for ci, cut := range []int64{1, 32, need} {
				if cut > need {
					continue
				}
				path := filepath.Join(dir, fmt.Sprintf("s-%d-%d.db", s, ci))
				os.WriteFile(path, full[:need-cut], 0o644)
				var store merkle.HashStore
				var err error
				if p := vf.Catch(func() { store, err = merkle.NewFileHashStore(path, uint32(s)) }); p != nil {
					r.Violation("panic:NewFileHashStore:short", fmt.Sprint(p), map[string]interface{}{"size": s, "file_bytes": need - cut})
				} else if err == nil {
					r.Violation("persist:short-file-accepted:"+sizeClass(s), fmt.Sprintf("a hash file %d bytes shorter than size %d needs was accepted", cut, s), map[string]interface{}{"size": s, "needed_bytes": need, "file_bytes": need - cut})
					store.Close()
				} else {
					r.Count("short_file_refused")
				}
				r.Eval(fmt.Sprintf("short/%d/%d", s, cut))
				os.Remove(path)
			}
		}
	}
}

func sampleM(n, k int, g *vf.RNG) []int {
	if n <= k {
		return allM(n)
	}
	set := map[int]bool{0: true, n - 1: true}
	for len(set) < k {
		set[g.Intn(n)] = true
	}
	out := make([]int, 0, k)
	for m := range set {
		out = append(out, m)
	}
	sort.Ints(out)
	return out
}

// ---------------------------------------------------------------- phase 4: sizes around powers of two, sampled

func (c *ctx) phaseLarge(maxK int, g *vf.RNG) {
	r := c.r
	top := 1<<uint(maxK) + 1
	sizes := map[int]bool{}
	for k := 7; k <= maxK; k++ {
		for _, d := range []int{-1, 0, 1} {
			sizes[1<<uint(k)+d] = true
		}
	}
	for i := 0; i < 6; i++ {
		sizes[g.Range(300, top-1)] = true
	}
	var sl []int
	for s := range sizes {
		sl = append(sl, s)
	}
	sort.Ints(sl)
	ref := rfc6962.New(toRef(c.leaves))
	t := merkle.NewTree(0, nil, merkle.NewMemHashStore())
	for n := 1; n <= top; n++ {
		t.AppendHash(c.leaves[n-1])
		if sizes[n] || sizes[n+1] || n%977 == 0 {
			r.Eval(fmt.Sprintf("large/root/%d", n))
			r.Count("large_root_checked")
			if t.Root() != H(ref.Root(n)) {
				r.Violation("root:incremental:"+sizeClass(n)+":large", "Root() after AppendHash differs from the head of the full tree", map[string]interface{}{"n": n, "leaves": c.leavesWitness(n)})
				return
			}
			for _, k := range []int{1, 2, 9} {
				if n+k <= len(c.leaves) {
					if got := t.GetRootWithNewLeaves(cloneH(c.leaves[n : n+k])); got != H(ref.Root(n+k)) {
						r.Violation(fmt.Sprintf("root:with-new-leaves:%s:k=%d:large", sizeClass(n), k), "GetRootWithNewLeaves differs from the head of the extended list", map[string]interface{}{"size": n, "k": k, "leaves": c.leavesWitness(n + k)})
					}
				}
			}
		}
	}
	t.Root()
	vf.Parallel(len(sl), runtime.NumCPU(), func(i int) {
		n := sl[i]
		lref := rfc6962.New(toRef(c.leaves))
		gi := g.Sub(uint64(n))
		// leaf positions: edges, around every power of two below n, and a few random ones
		set := map[int]bool{0: true, 1: true, n - 1: true, n - 2: true}
		for k := 1; k < n; k <<= 1 {
			set[k] = true
			set[k-1] = true
		}
		// old sizes that are sampled sizes themselves (consistency between the 2^k±1 sizes)
		for _, s := range sl {
			if s <= n {
				set[s-1] = true
			}
		}
		for j := 0; j < 12; j++ {
			set[gi.Intn(n)] = true
		}
		var ms []int
		for m := range set {
			if m >= 0 && m < n {
				ms = append(ms, m)
			}
		}
		sort.Ints(ms)
		c.checkProofs(t, lref, n, ms, true, gi, "large")
		r.Count("large_sizes_checked")
	})
	r.Extra("large_sizes", sl)
}

// ----------------------------------------------------------------

func main() {
	r := vf.NewRun("C26", "exploration",
		"trees over seeded random distinct leaf hashes. Exhaustive part: every size n<=N built incrementally, every (leaf m, size n) inclusion pair and every (old m, new n) consistency pair, each checked against the harness' RFC 6962 reference and under every single mutation of the families {leaf flip/other leaf, index±1, size±1, root flip/other size's head/heads swapped, per proof element: flip, drop, duplicate, swap with neighbour; append, prepend}. "+
			"Persistence part: file-backed tree reloaded at every size 0..N in three file shapes and extended. Sampled part: sizes 2^k-1, 2^k, 2^k+1 (k from 7) and random sizes, leaf positions at the edges and around powers of two. A case is distinct by (phase, m, n)")
	rng := vf.NewRNG(vf.Seed())
	N := vf.N(64, 300)
	maxK := vf.N(11, 16)
	total := 1<<uint(maxK) + 16
	leaves := make([]H, total)
	seen := map[H]bool{}
	lg := rng.Sub(0x1eaf)
	for i := range leaves {
		copy(leaves[i][:], lg.Sub(uint64(i)).Bytes(32))
		if seen[leaves[i]] {
			r.Inconclusive("duplicate leaf generated")
		}
		seen[leaves[i]] = true
	}
	c := &ctx{r: r, leaves: leaves, ver: merkle.NewMerkleVerifier()}
	r.Sample(map[string]interface{}{"leaves_first_3": hexes(leaves[:3]), "N": N, "rule": "leaf i = rng(seed).Sub(0x1eaf).Sub(i).Bytes(32)"})

	c.phaseExhaustive(N, rng.Sub(1))
	c.phaseRawLeaves(rng.Sub(2))
	dir := vf.Scratch("c26")
	c.phasePersistence(N, dir, rng.Sub(3))
	os.RemoveAll(dir)
	c.phaseLarge(maxK, rng.Sub(4))

	// exhaustive=true refers to the finite space described under exhaustive_scope (all tree shapes up to the bound);
	// the sampled part above the bound and the leaf values are not part of that claim
	r.Extra("exhaustive", true)
	r.Extra("exhaustive_scope", map[string]interface{}{
		"bound_N":           N,
		"tree_sizes":        fmt.Sprintf("every size 0..%d reached by incremental AppendHash", N),
		"inclusion_pairs":   fmt.Sprintf("all (m,n) with 0<=m<n<=%d: %d pairs, served by the tree of size n and by the tree of size N", N, N*(N+1)/2),
		"consistency_pairs": fmt.Sprintf("all (m,n) with 1<=m<=n<=%d: %d pairs", N, N*(N+1)/2),
		"mutations":         "every position of every listed single-mutation family for every pair (bit positions of flips are seeded, not enumerated)",
		"reload_sizes":      fmt.Sprintf("every size 0..%d x {exact file, trailing later hashes, trailing hashes of another fork, trailing torn bytes}", N),
		"not_exhaustive":    "sizes above N (sampled), leaf values (seeded random), flipped bit positions",
	})
	pairs := int64(N * (N + 1) / 2)
	r.Require("appends", int64(N))
	r.Require("append_n=2^k", 5)
	r.Require("append_n=2^k+1", 5)
	r.Require("append_n=2^k-1", 5)
	r.Require("root_with_new_leaf", int64(N))
	r.Require("root_with_new_leaves", int64(N))
	r.Require("root_with_zero_new_leaves", 10)
	r.Require("lookahead_left_tree_untouched", int64(N))
	r.Require("audit_path_verified", int64(N))
	r.Require("inclusion_pairs", 2*pairs)
	r.Require("consistency_pairs", 2*pairs)
	r.Require("inclusion_verified_against_older_head", pairs-int64(N))
	r.Require("consistency_equal_sizes", int64(N))
	r.Require("consistency_old_size_power_of_two", 100)
	r.Require("future_size_refused", int64(N))
	if r.Violations() == 0 {
		r.Require("inclusion_verified", 2*pairs)
		r.Require("consistency_verified", 2*pairs)
	}
	for _, f := range []string{"leaf-flip", "leaf-other", "index+1", "index-1", "size+1", "size-1", "root-flip", "root-of-other-size", "proof-flip", "proof-drop", "proof-dup", "proof-swap", "proof-append", "proof-prepend"} {
		r.Require("inc_mut_"+f, 100)
	}
	for _, f := range []string{"oldroot-flip", "newroot-flip", "roots-swapped", "oldroot-replaced-by-newroot", "newroot-replaced-by-oldroot", "oldsize-1", "oldsize+1", "newsize-1", "newsize+1", "proof-flip", "proof-drop", "proof-dup", "proof-swap", "proof-append", "proof-prepend"} {
		r.Require("con_mut_"+f, 100)
	}
	r.Require("inc_mut_rejected", 1000)
	r.Require("con_mut_rejected", 1000)
	r.Require("inc_size_mutant_indistinguishable_by_rfc", 10)
	r.Require("con_size_mutant_indistinguishable_by_rfc", 10)
	r.Require("raw_root_checked", 20)
	r.Require("raw_inclusion_verified", 20)
	r.Require("raw_altered_data_rejected", 20)
	r.Require("raw_interior_preimage_rejected", 10)
	r.Require("reload_exact", int64(N))
	r.Require("reload_trailing-later-hashes", int64(N))
	r.Require("reload_trailing-torn-bytes", int64(N))
	r.Require("reload_trailing-other-fork-hashes", int64(N))
	r.Require("reload_via_unmarshal", 10)
	r.Require("reload_via_newtree", int64(N))
	r.Require("append_after_reload", int64(N))
	r.Require("file_identical_to_uninterrupted_run", int64(N))
	r.Require("short_file_refused", 100)
	r.Require("large_root_checked", 10)
	r.Require("large_sizes_checked", 10)
	r.Assume("leaf hashes are distinct random 32-byte values; SHA-256 collisions are not expected, so 'must be rejected' is judged on the hashes actually computed")
	r.Assume("tree-size mutants are judged by the RFC 9162 verification algorithms written in the harness: an RFC 6962 head does not commit to the tree size, so a size change that keeps the audit-path shape cannot be detected by any verifier (counted as *_indistinguishable_by_rfc, not as a violation)")
	r.Assume("old size 0 is outside the consistency-proof definition (RFC 6962: 0 < m < n); mutants that reach it are counted, not judged")
	r.Finish()
}
