// C27 — Cross-chain merkle paths prove exactly the included values.
//
// Real code under observation: merkle.MerkleLeafPath / merkle.MerkleProve / merkle.HashLeaf
// (and TreeHasher.HashFullTreeWithLeafHash, which production uses for the cross-states root).
// Oracle, written in the harness (lib/rfc6962):
//
//	positive: for every member v_i of every list, MerkleLeafPath succeeds and
//	          MerkleProve(path, root) returns exactly v_i;
//	negative: whatever bytes are handed to MerkleProve together with the list's root, a
//	          successful result must be a value whose RFC 6962 leaf hash is in the list
//	          (computed by the harness, not by merkle.HashLeaf); mutants that still prove a
//	          member (e.g. ignored trailing bytes) are counted, not flagged;
//	          a path never proves anything against a root with a flipped bit;
//	          the genuine steps of a member behind a value altered in any region (regions.go: head, tail, hash
//	          block borders, power-of-two offsets, segments; tail cut/grown/replaced), for members of every
//	          length class up to several KiB, prove nothing that is not in the list;
//	no panic on any input; a panic that escapes the per-call guards in a worker is itself recorded as a
//	violation (exit 1), it never crashes the monitor (a Go crash exits 2, which would read as inconclusive).
package main

import (
	"bytes"
	"encoding/binary"
	"fmt"
	"runtime"

	"github.com/ontio/ontology/common"
	"github.com/ontio/ontology/merkle"
	"verifharness/lib/rfc6962"
	"verifharness/lib/vf"
)

type H = common.Uint256

func sizeClass(n int) string {
	switch {
	case n == 1:
		return "n=1"
	case n&(n-1) == 0:
		return "n=2^k"
	case (n-1)&(n-2) == 0:
		return "n=2^k+1"
	case (n+1)&n == 0:
		return "n=2^k-1"
	}
	return "n=other"
}

func posClass(i, n int) string {
	switch {
	case i == 0:
		return "first"
	case i == n-1:
		return "last"
	}
	return "inner"
}

func varIntPrefix(n uint64) []byte {
	var out []byte
	switch {
	case n < 0xfd:
		out = []byte{byte(n)}
	case n <= 0xffff:
		out = []byte{0xfd, byte(n), byte(n >> 8)}
	case n <= 0xffffffff:
		out = []byte{0xfe, 0, 0, 0, 0}
		binary.LittleEndian.PutUint32(out[1:], uint32(n))
	default:
		out = []byte{0xff, 0, 0, 0, 0, 0, 0, 0, 0}
		binary.LittleEndian.PutUint64(out[1:], n)
	}
	return out
}

func varBytes(v []byte) []byte { return append(varIntPrefix(uint64(len(v))), v...) }

type list struct {
	id     string
	values [][]byte
	hashes []H // leaf hashes as production stores them (merkle.HashLeaf)
	refLH  []rfc6962.Hash
	member map[rfc6962.Hash]bool
	root   H
	ref    *rfc6962.Tree
}

var valueLens = []int{0, 1, 2, 20, 31, 32, 33, 63, 64, 65, 100, 252, 253, 254, 300}

func genValue(g *vf.RNG, profile, i int) []byte {
	var n int
	switch profile {
	case 0: // cross-chain sized records
		n = g.Range(40, 200)
	case 1: // boundary lengths (var-int prefix switches at 253; 32/64 are hash and node-preimage sized)
		n = valueLens[g.Intn(len(valueLens))]
	default:
		n = g.Range(0, 70)
	}
	v := g.Bytes(n)
	// keep the values of one list distinct: stamp the index where there is room
	if n >= 4 {
		binary.LittleEndian.PutUint32(v, uint32(i)|0x5a000000)
	}
	return v
}

func buildList(r *vf.Run, g *vf.RNG, n, profile int, id string, dups bool) *list {
	seen := map[string]bool{}
	var values [][]byte
	for i := 0; i < n; i++ {
		var v []byte
		for tries := 0; ; tries++ {
			v = genValue(g, profile, i)
			if dups && i > 0 && i%3 == 2 {
				v = append([]byte{}, values[g.Intn(i)]...)
				break
			}
			if !seen[string(v)] {
				break
			}
			if tries > 50 {
				v = append(g.Bytes(8), byte(i), byte(i>>8))
			}
		}
		seen[string(v)] = true
		values = append(values, v)
	}
	return listOf(r, id, values)
}

// listOf builds the production view (merkle.HashLeaf, HashFullTreeWithLeafHash) and the harness' reference view of
// a list of values.  It returns nil when the production code panicked (reported as a violation).
func listOf(r *vf.Run, id string, values [][]byte) *list {
	n := len(values)
	l := &list{id: id, values: values, member: map[rfc6962.Hash]bool{}}
	for _, v := range values {
		lh := rfc6962.LeafHash(v)
		l.refLH = append(l.refLH, lh)
		l.member[lh] = true
	}
	l.ref = rfc6962.New(l.refLH)
	if p := vf.Catch(func() {
		for _, v := range values {
			l.hashes = append(l.hashes, merkle.HashLeaf(v))
		}
		l.root = merkle.TreeHasher{}.HashFullTreeWithLeafHash(l.hashes)
	}); p != nil {
		r.Violation("panic:build-list:"+sizeClass(n), fmt.Sprint(p), l.witness(nil))
		return nil
	}
	for i := range l.hashes {
		if rfc6962.Hash(l.hashes[i]) != l.refLH[i] {
			r.Violation("leafhash:differs-from-rfc:"+lenClass(len(values[i])), "merkle.HashLeaf(v) is not SHA-256(0x00||v)", map[string]interface{}{"value": vf.Hex(l.values[i])})
			break
		}
	}
	if rfc6962.Hash(l.root) != l.ref.Root(n) {
		r.Violation("root:fulltree-differs-from-rfc:"+sizeClass(n), "HashFullTreeWithLeafHash differs from the RFC 6962 head of the leaf hashes", l.witness(nil))
	}
	return l
}

// withChanged is the list l with value k replaced.
func (l *list) withChanged(r *vf.Run, id string, k int, nv []byte) *list {
	values := append([][]byte{}, l.values...)
	values[k] = nv
	return listOf(r, id, values)
}

func (l *list) witness(extra map[string]interface{}) map[string]interface{} {
	vals := make([]string, len(l.values))
	for i := range vals {
		vals[i] = vf.Hex(l.values[i])
	}
	w := map[string]interface{}{"list": l.id, "values": vals, "root": vf.Hex(l.root[:])}
	for k, v := range extra {
		w[k] = v
	}
	return w
}

// refPath: the path bytes the reference predicts for member i.
func (l *list) refPath(i int) []byte {
	n := len(l.values)
	out := varBytes(l.values[i])
	sib := l.ref.Path(i, n)
	dir := rfc6962.Directions(i, n)
	for k := range sib {
		if dir[k] {
			out = append(out, merkle.RIGHT)
		} else {
			out = append(out, merkle.LEFT)
		}
		out = append(out, sib[k][:]...)
	}
	return out
}

type checker struct {
	r *vf.Run
}

// prove calls the real MerkleProve; judge applies the negative oracle to a successful result.
func (c *checker) prove(l *list, path []byte, root H, family string, wit func() map[string]interface{}) (val []byte, ok bool) {
	var err error
	if p := vf.Catch(func() { val, err = merkle.MerkleProve(path, root) }); p != nil {
		c.r.Violation("panic:MerkleProve:"+family, fmt.Sprint(p), wit())
		return nil, false
	}
	return val, err == nil
}

func (c *checker) negative(l *list, path []byte, family string, base map[string]interface{}) {
	r := c.r
	wit := func() map[string]interface{} {
		w := l.witness(base)
		w["family"] = family
		w["path"] = vf.Hex(path)
		return w
	}
	r.Evals(1)
	r.Count("mut_" + family)
	val, ok := c.prove(l, path, l.root, family, wit)
	if !ok {
		r.Count("mutant_rejected")
		return
	}
	if l.member[rfc6962.LeafHash(val)] {
		r.Count("mutant_still_proves_a_member")
		r.Count("still_member_" + family)
		return
	}
	w := wit()
	w["proved_value"] = vf.Hex(val)
	r.Violation("negative:proves-nonmember:"+family, "MerkleProve returned a value whose leaf hash is not in the list, against the list's root", w)
}

func (c *checker) memberCase(l *list, i int, g *vf.RNG, others []*list) {
	r := c.r
	n := len(l.values)
	v := l.values[i]
	base := map[string]interface{}{"member_index": i}
	var path []byte
	var err error
	if p := vf.Catch(func() { path, err = merkle.MerkleLeafPath(v, l.hashes) }); p != nil {
		r.Violation("panic:MerkleLeafPath:"+sizeClass(n), fmt.Sprint(p), l.witness(base))
		return
	}
	r.Eval(fmt.Sprintf("%s/%d", l.id, i))
	r.Count("members")
	r.Count("member_" + sizeClass(n))
	if err != nil {
		r.Violation("positive:path-error:"+sizeClass(n)+":"+posClass(i, n), "MerkleLeafPath failed for a member: "+err.Error(), l.witness(base))
		return
	}
	wit := func() map[string]interface{} {
		w := l.witness(base)
		w["path"] = vf.Hex(path)
		return w
	}
	val, ok := c.prove(l, path, l.root, "valid", wit)
	if !ok {
		r.Violation("positive:prove-fails:"+sizeClass(n)+":"+posClass(i, n), "MerkleProve rejects the path MerkleLeafPath generated for a member", wit())
		return
	}
	if !bytes.Equal(val, v) {
		w := wit()
		w["returned"] = vf.Hex(val)
		r.Violation("positive:wrong-value:"+sizeClass(n), "MerkleProve returned a value different from the member the path was generated for", w)
		return
	}
	r.Count("member_proved")
	want := l.refPath(i)
	if bytes.Equal(path, want) {
		r.Count("path_equals_reference")
	} else {
		r.Count("path_differs_from_reference_but_proves")
	}
	// the mutants are cut from the path the real code produced (layout: var-bytes value, then 33-byte steps)
	prefix := len(varBytes(v))
	if len(path) < prefix || !bytes.Equal(path[:prefix], varBytes(v)) || (len(path)-prefix)%33 != 0 {
		r.Count("path_layout_not_understood")
		return
	}
	steps := (len(path) - prefix) / 33
	if steps == 0 {
		r.Count("member_with_empty_path")
	}
	mut := func(f func(p []byte) []byte) []byte { return f(append([]byte{}, path...)) }

	// ---- root with one bit flipped: nothing may be proved against it
	{
		rt := l.root
		rt[g.Intn(32)] ^= 1 << uint(g.Intn(8))
		r.Evals(1)
		r.Count("mut_root-flip")
		if _, ok := c.prove(l, path, rt, "root-flip", wit); ok {
			w := wit()
			w["root_used"] = vf.Hex(rt[:])
			r.Violation("negative:root-flip-accepted", "a valid path was accepted against a root that differs in one bit", w)
		}
	}
	// ---- value bytes
	hdr := prefix - len(v)
	idxs := []int{}
	if len(v) <= 40 {
		for k := range v {
			idxs = append(idxs, k)
		}
	} else {
		idxs = append(idxs, 0, len(v)-1)
		for k := 0; k < 24; k++ {
			idxs = append(idxs, g.Intn(len(v)))
		}
	}
	for _, k := range idxs {
		c.negative(l, mut(func(p []byte) []byte { p[hdr+k] ^= 1 << uint(g.Intn(8)); return p }), "value-flip", base)
	}
	// the declared length moves the border between value and steps (any header width; the body stays as it is)
	for _, d := range []int{-1, 1, 33, -33} {
		if nl := len(v) + d; nl >= 0 {
			c.negative(l, append(varIntPrefix(uint64(nl)), path[hdr:]...), "value-length", base)
		}
	}
	// the same length in a wider (non-canonical) encoding
	for _, w := range [][]byte{{0xfd, 0, 0}, {0xfe, 0, 0, 0, 0}, {0xff, 0, 0, 0, 0, 0, 0, 0, 0}} {
		if len(w) > hdr {
			enc := append([]byte{}, w...)
			for k, L := 1, uint64(len(v)); k < len(enc); k, L = k+1, L>>8 {
				enc[k] = byte(L)
			}
			c.negative(l, append(enc, path[hdr:]...), "value-length-wide-encoding", base)
		}
	}
	// every region of the value: head, tail, hash-block borders, power-of-two borders, one offset per segment;
	// the tail replaced, cut off, grown; blocks swapped
	c.valueRegions(l, v, path[prefix:], g.Sub(0x7e610), base)
	// a different value in front of the same steps
	for k := 0; k < 2; k++ {
		other := g.Bytes(len(v) + k)
		c.negative(l, append(varBytes(other), path[prefix:]...), "value-replaced-random", base)
	}
	if n > 1 {
		// another member's value in front of this member's steps
		j := (i + 1 + g.Intn(n-1)) % n
		if !bytes.Equal(l.values[j], v) {
			c.negative(l, append(varBytes(l.values[j]), path[prefix:]...), "value-replaced-other-member", base)
		}
	}
	// ---- interior-node preimages: left||right of the node k levels above the leaf, with the remaining steps
	{
		// built the way an attacker would: from the production leaf hash, the siblings in the real path and the
		// real node hash function (the verdict stays with the harness' own leaf hash of whatever gets proved)
		cur := l.hashes[i]
		for k := 0; k < steps && k < 4; k++ {
			var sib H
			copy(sib[:], path[prefix+33*k+1:])
			var pre []byte
			left := path[prefix+33*k] == merkle.LEFT
			if !left {
				pre = append(append([]byte{}, cur[:]...), sib[:]...)
			} else {
				pre = append(append([]byte{}, sib[:]...), cur[:]...)
			}
			if p := vf.Catch(func() {
				if !left {
					cur = merkle.HashChildren(cur, sib)
				} else {
					cur = merkle.HashChildren(sib, cur)
				}
			}); p != nil {
				r.Violation("panic:HashChildren", fmt.Sprint(p), wit())
				break
			}
			c.negative(l, append(varBytes(pre), path[prefix+33*(k+1):]...), "interior-node-preimage", base)
			// and with the node-hash prefix byte written out (in case the value were hashed without a prefix)
			c.negative(l, append(varBytes(append([]byte{1}, pre...)), path[prefix+33*(k+1):]...), "interior-node-preimage-with-prefix", base)
		}
		// the leaf hash itself as a value (double hashing)
		c.negative(l, append(varBytes(l.hashes[i][:]), path[prefix:]...), "leafhash-as-value", base)
	}
	// ---- steps
	for s := 0; s < steps; s++ {
		o := prefix + 33*s
		c.negative(l, mut(func(p []byte) []byte { p[o] ^= 1; return p }), "flag-flip", base)
		c.negative(l, mut(func(p []byte) []byte { p[o] = byte(2 + g.Intn(254)); return p }), "flag-other-byte", base)
		for k := 0; k < 3; k++ {
			c.negative(l, mut(func(p []byte) []byte { p[o+1+g.Intn(32)] ^= 1 << uint(g.Intn(8)); return p }), "sibling-flip", base)
		}
		c.negative(l, mut(func(p []byte) []byte { return append(p[:o], p[o+33:]...) }), "step-drop", base)
		c.negative(l, mut(func(p []byte) []byte { return append(p[:o+33:o+33], path[o:]...) }), "step-dup", base)
		if s+1 < steps {
			c.negative(l, mut(func(p []byte) []byte {
				a := append([]byte{}, p[o:o+33]...)
				copy(p[o:], p[o+33:o+66])
				copy(p[o+33:], a)
				return p
			}), "step-swap", base)
		}
	}
	// ---- truncation / extension by k bytes: covers every remainder of (remaining bytes) mod 32 and mod 33
	for k := 1; k <= 70 && k <= len(path); k++ {
		c.negative(l, path[:len(path)-k], "truncate", base)
	}
	for k := 1; k <= 70; k++ {
		c.negative(l, append(append([]byte{}, path...), g.Bytes(k)...), "extend-random", base)
		if k%3 == 0 {
			c.negative(l, append(append([]byte{}, path...), make([]byte, k)...), "extend-zero", base)
		}
	}
	// ---- a step of a valid-looking shape appended: sibling = some hash of this tree
	for k := 0; k < 2; k++ {
		extra := append([]byte{byte(g.Intn(2))}, l.hashes[g.Intn(n)][:]...)
		c.negative(l, append(append([]byte{}, path...), extra...), "extend-step", base)
	}
	// ---- this path against the root of another list, and another list's member path against this root
	for _, o := range others {
		r.Evals(1)
		r.Count("mut_other-list-root")
		if val, ok := c.prove(l, path, o.root, "other-list-root", wit); ok && !o.member[rfc6962.LeafHash(val)] {
			w := wit()
			w["root_used"] = vf.Hex(o.root[:])
			w["other_list"] = o.witness(nil)
			r.Violation("negative:proves-nonmember:other-list-root", "a member path of list A was accepted against the root of list B, which does not contain the value", w)
		}
		if len(o.values) > 0 {
			j := g.Intn(len(o.values))
			var op []byte
			var err error
			if p := vf.Catch(func() { op, err = merkle.MerkleLeafPath(o.values[j], o.hashes) }); p != nil {
				r.Violation("panic:MerkleLeafPath:"+sizeClass(len(o.values)), fmt.Sprint(p), o.witness(map[string]interface{}{"member_index": j}))
			} else if err == nil {
				c.negative(l, op, "other-list-path", map[string]interface{}{"member_index": i, "other_list": o.id, "other_member": j})
			}
		}
	}
}

func (c *checker) listCase(l *list, g *vf.RNG, others []*list) {
	r := c.r
	n := len(l.values)
	for i := 0; i < n; i++ {
		c.memberCase(l, i, g.Sub(uint64(i)), others)
	}
	// values that are not in the list get no path (and nothing that proves)
	for k := 0; k < 4; k++ {
		var v []byte
		switch k {
		case 0:
			v = g.Bytes(g.Range(0, 80))
		case 1: // a member with one more byte
			v = append(append([]byte{}, l.values[g.Intn(n)]...), 0)
		case 2: // a leaf hash of the list used as a value
			v = append([]byte{}, l.hashes[g.Intn(n)][:]...)
		default: // left||right of the first node
			if n >= 2 {
				v = append(append([]byte{}, l.hashes[0][:]...), l.hashes[1][:]...)
			} else {
				v = g.Bytes(64)
			}
		}
		if l.member[rfc6962.LeafHash(v)] {
			continue
		}
		var path []byte
		var err error
		if p := vf.Catch(func() { path, err = merkle.MerkleLeafPath(v, l.hashes) }); p != nil {
			r.Violation("panic:MerkleLeafPath:nonmember", fmt.Sprint(p), l.witness(map[string]interface{}{"value": vf.Hex(v)}))
			continue
		}
		r.Eval(fmt.Sprintf("%s/non/%d", l.id, k))
		if err != nil {
			r.Count("nonmember_gets_no_path")
			continue
		}
		r.Count("nonmember_got_a_path")
		c.negative(l, path, "leafpath-for-nonmember", map[string]interface{}{"value": vf.Hex(v)})
	}
}

// arbitrary bytes: no panic, and nothing is proved
func (c *checker) arbitrary(l *list, g *vf.RNG, count int) {
	for k := 0; k < count; k++ {
		var p []byte
		switch g.Intn(6) {
		case 0:
			p = g.Bytes(g.Intn(120))
		case 1: // plausible: short value + whole steps
			p = append(varBytes(g.Bytes(g.Intn(40))), g.Bytes(33*g.Intn(8))...)
		case 2: // var-int prefixes with wide encodings / huge counts
			pre := [][]byte{{0xfd}, {0xfd, 1, 0}, {0xfd, 0xff, 0xff}, {0xfe, 1, 0, 0, 0}, {0xfe, 0xff, 0xff, 0xff, 0xff}, {0xff}, {0xff, 1, 0, 0, 0, 0, 0, 0, 0}, {0xff, 0xff, 0xff, 0xff, 0xff, 0xff, 0xff, 0xff, 0xff}, {0xfc}}
			p = append(append([]byte{}, pre[g.Intn(len(pre))]...), g.Bytes(g.Intn(300))...)
		case 3: // a real path of the list with a random slice overwritten
			i := g.Intn(len(l.values))
			p = l.refPath(i)
			a := g.Intn(len(p))
			b := a + g.Intn(len(p)-a)
			copy(p[a:b], g.Bytes(b-a))
		case 4: // a real member value followed by random steps
			p = append(varBytes(l.values[g.Intn(len(l.values))]), g.Bytes(33*g.Intn(6)+g.Intn(3))...)
		default:
			p = nil
		}
		c.negative(l, p, "arbitrary-bytes", nil)
		c.r.Count("arbitrary_inputs")
	}
}

func main() {
	r := vf.NewRun("C27", "exploration",
		"lists of n values for every n in 1..N, three value-length profiles per n (record-sized, boundary lengths 0/1/31..33/63..65/252..254/300, short) plus lists with repeated values; every member of every list is a positive case (distinct by list id and index); every positive case spawns the mutation families value-flip, value-length, value-replaced, interior-node-preimage, flag flip/other byte, sibling flip, step drop/dup/swap, truncate and extend by 1..70 bytes, foreign step appended, other list's root/path, root bit flip; value-region family behind the genuine steps (one bit flipped in the first and last 72 bytes, at the borders of the 64-byte hash blocks, at power-of-two offsets and once in each of 32 segments; tail replaced, zeroed, cut, grown; head grown; chunks swapped/repeated; wider length encodings); lists whose members run through the length classes 0,1,31..33,55,56,63..65,119,120,127..129,252..257,511..513,1000,1023..1025,1500,2047..2049,3000,4095..4097,5000,8191..8193,10000,65535..65537 (thorough: up to 262144) at seeded positions of lists of 1..16 values; plus seeded arbitrary byte strings")
	rng := vf.NewRNG(vf.Seed())
	N := vf.N(33, 257)
	profiles := 3
	c := &checker{r: r}

	type task struct {
		n, profile int
		dups       bool
	}
	var tasks []task
	for n := 1; n <= N; n++ {
		for p := 0; p < profiles; p++ {
			if vf.Thorough() && n > 64 && p != n%profiles {
				continue // above 64 one profile per size (the profile rotates with n)
			}
			tasks = append(tasks, task{n, p, false})
		}
		if n >= 3 && (n <= 40 || n%16 == 1) {
			tasks = append(tasks, task{n, 2, true})
		}
	}
	// guarded: a panic of the code under test that escapes the per-call guards is a violation of its own, never
	// a crash of the monitor (a crashed Go program exits with status 2, which would read as "inconclusive")
	guarded := func(what string, f func()) {
		if p := vf.Catch(f); p != nil {
			r.Violation("panic:escaped:"+what, fmt.Sprint(p), map[string]interface{}{"task": what})
		}
	}
	vf.Parallel(len(tasks), runtime.NumCPU(), func(ti int) {
		t := tasks[ti]
		guarded("list", func() {
			g := rng.Sub(uint64(ti) + 1)
			id := fmt.Sprintf("n%d-p%d", t.n, t.profile)
			if t.dups {
				id += "-dups"
			}
			l := buildList(r, g.Sub(1), t.n, t.profile, id, t.dups)
			if l == nil {
				return
			}
			if t.dups {
				r.Count("lists_with_repeated_values")
			}
			// two other lists: same size with other values, and a list sharing all but one value
			var others []*list
			if o1 := buildList(r, g.Sub(2), t.n, t.profile, id+"-other", false); o1 != nil {
				others = append(others, o1)
			}
			k := g.Intn(t.n)
			if o2 := l.withChanged(r, id+"-one-changed", k, append(append([]byte{}, l.values[k]...), 0x77)); o2 != nil {
				others = append(others, o2)
			}
			c.listCase(l, g.Sub(3), others)
			c.arbitrary(l, g.Sub(4), vf.N(40, 1200))
			if ti < 2 {
				r.Sample(map[string]interface{}{"list": l.witness(nil), "path_of_member_0": vf.Hex(l.refPath(0))})
			}
		})
	})

	// lists whose members run through every length class up to several KiB (and the var-int borders at 253 and 65536)
	lt := longTasks()
	vf.Parallel(len(lt), runtime.NumCPU(), func(ti int) {
		guarded("long-value-list", func() { c.longList(lt[ti], rng.Sub(0x10e6).Sub(uint64(ti))) })
	})

	// the documented size limit of MerkleLeafPath: a path is generated up to MAX_SIZE and it proves
	guarded("max-size", func() {
		g := rng.Sub(0xb16)
		for _, n := range []int{1, 5} {
			for _, over := range []int{0, 1} {
				vals := [][]byte{}
				for i := 0; i < n; i++ {
					vals = append(vals, g.Bytes(20+i))
				}
				big := merkle.MAX_SIZE - n*(common.UINT256_SIZE+1) - 8 + over
				vals[n-1] = g.Bytes(big)
				var hs []H
				for _, v := range vals {
					hs = append(hs, merkle.HashLeaf(v))
				}
				root := merkle.TreeHasher{}.HashFullTreeWithLeafHash(hs)
				var path []byte
				var err error
				if p := vf.Catch(func() { path, err = merkle.MerkleLeafPath(vals[n-1], hs) }); p != nil {
					r.Violation("panic:MerkleLeafPath:max-size", fmt.Sprint(p), map[string]interface{}{"n": n, "value_len": big})
					continue
				}
				r.Eval(fmt.Sprintf("maxsize/%d/%d", n, over))
				if over == 1 {
					if err != nil {
						r.Count("oversize_value_refused_as_documented")
					} else {
						r.Count("oversize_value_got_a_path")
					}
					continue
				}
				if err != nil {
					r.Violation("positive:path-error:at-max-size", "MerkleLeafPath refused a member whose path is exactly MAX_SIZE: "+err.Error(), map[string]interface{}{"n": n, "value_len": big})
					continue
				}
				val, err := merkle.MerkleProve(path, root)
				if err != nil || !bytes.Equal(val, vals[n-1]) {
					r.Violation("positive:prove-fails:at-max-size", fmt.Sprintf("path at the size limit does not prove: %v", err), map[string]interface{}{"n": n, "value_len": big})
				} else {
					r.Count("max_size_member_proved")
					// the same path with the last byte of the value altered
					mp := append([]byte{}, path...)
					mp[len(varIntPrefix(uint64(big)))+big-1] ^= 0x10
					r.Evals(1)
					r.Count("max_size_tail_flip")
					if fv, err := merkle.MerkleProve(mp, root); err == nil {
						isMember := false
						for _, v := range vals {
							isMember = isMember || rfc6962.LeafHash(v) == rfc6962.LeafHash(fv)
						}
						if !isMember {
							r.Violation("negative:proves-nonmember:value-region-flip:tail:"+lenClass(big), "MerkleProve returned a value whose leaf hash is not in the list, against the list's root", map[string]interface{}{"n": n, "value_len": big, "values": hexAll(vals), "root": vf.Hex(root[:]), "path": vf.Hex(mp)})
						}
					}
				}
			}
		}
	})

	r.Extra("enumerated_completely", map[string]interface{}{
		"bound_N":        N,
		"members":        fmt.Sprintf("every member of every generated list, list sizes 1..%d all present", N),
		"truncation":     "every truncation and extension length 1..70 for every member path (all remainders mod 32 and mod 33)",
		"per_step":       "flag flip, flag other byte, sibling flip, drop, duplicate, swap at every step of every member path",
		"value_regions":  "for every member longer than 40 bytes: each of the first 72 and last 72 bytes, every power of two -2..+1, every 64-byte block border (all when at most 48 blocks), one offset per 1/32 segment; up to 40 bytes: every byte",
		"length_classes": fmt.Sprint(allLongLens()),
		"not_exhaustive": "list contents, flipped bit positions, extension bytes (seeded)",
	})
	for _, k := range []string{"n=1", "n=2^k", "n=2^k+1", "n=2^k-1", "n=other"} {
		r.Require("member_"+k, 3)
	}
	r.Require("members", int64(N*(N+1)/2))
	if r.Violations() == 0 {
		r.Require("member_proved", int64(N*(N+1)/2))
		r.Require("path_equals_reference", int64(N*(N+1)/2))
	}
	r.Require("member_with_empty_path", 1)
	r.Require("lists_with_repeated_values", 5)
	for _, f := range []string{"value-flip", "value-length", "value-replaced-random", "value-replaced-other-member", "interior-node-preimage", "interior-node-preimage-with-prefix", "leafhash-as-value",
		"flag-flip", "flag-other-byte", "sibling-flip", "step-drop", "step-dup", "step-swap", "truncate", "extend-random", "extend-zero", "extend-step", "other-list-root", "other-list-path", "root-flip", "arbitrary-bytes"} {
		r.Require("mut_"+f, 100)
	}
	for _, f := range []string{"value-length-wide-encoding", "value-region-flip:head", "value-region-flip:tail", "value-region-flip:pow2-border", "value-region-flip:block-border", "value-region-flip:segment",
		"value-tail-replaced", "value-tail-zeroed", "value-tail-cut", "value-tail-grown", "value-head-grown", "value-chunk-swap", "value-chunk-repeated"} {
		r.Require("mut_"+f, 30)
	}
	r.Require("mut_other-list-changed-member-path", 10)
	for _, lc := range []string{"len=0", "len<32", "len<=64", "len<253", "len<=1KiB", "len<=4KiB", "len<64KiB", "len>=64KiB"} {
		r.Require("tailmut_"+lc, 10) // the tail of a value of every length class was altered behind genuine steps
	}
	for _, n := range allLongLens() {
		r.Require(fmt.Sprintf("long_member_len=%d", n), 2)
	}
	r.Require("long_lists", 10)
	r.Require("long_other_list_tail_changed", 10)
	r.Require("max_size_tail_flip", 2)
	r.Require("mutant_rejected", 10000)
	r.Require("mutant_still_proves_a_member", 100) // ignored trailing bytes: shows the oracle's 'still a member' branch is live
	r.Require("nonmember_gets_no_path", 50)
	r.Require("arbitrary_inputs", 1000)
	r.Require("max_size_member_proved", 2)
	r.Assume("the list's root is TreeHasher.HashFullTreeWithLeafHash over HashLeaf(v_i), as ledgerstore computes CrossStatesRoot; it is also compared with the harness' RFC 6962 head")
	r.Assume("SHA-256 collisions are not expected: membership of a proved value is decided on the leaf hash the harness computes for the returned value")
	r.Assume("a mutated path that still proves a member of the list (MerkleProve ignores up to 31-k trailing bytes after k steps) does not contradict the statement and is only counted")
	r.Finish()
}
