package main

import (
	"bytes"
	"fmt"
	"sort"
	"strings"

	"github.com/ontio/ontology/merkle"
	"verifharness/lib/vf"
)

// Value-region family.  The leaf hash has to commit to every byte of the value, however long the value is: a
// member's genuine steps behind a value that differs from the member anywhere (head, middle, tail, at the borders of
// the 64-byte blocks of the hashed stream, at power-of-two sizes, cut short or grown) must not prove anything
// that is not in the list.

func hexAll(vs [][]byte) []string {
	out := make([]string, len(vs))
	for i := range vs {
		out[i] = vf.Hex(vs[i])
	}
	return out
}

// lenClass names the length class of a value (used in violation keys and counters).
func lenClass(n int) string {
	switch {
	case n == 0:
		return "len=0"
	case n < 32:
		return "len<32"
	case n <= 64:
		return "len<=64"
	case n < 253:
		return "len<253"
	case n <= 1024:
		return "len<=1KiB"
	case n <= 4096:
		return "len<=4KiB"
	case n <= 65535:
		return "len<64KiB"
	}
	return "len>=64KiB"
}

type regionPos struct {
	off    int
	region string
}

// regionOffsets: the offsets of a value of length L at which one bit is flipped.
func regionOffsets(L int, g *vf.RNG) []regionPos {
	seen := map[int]bool{}
	var out []regionPos
	add := func(off int, region string) {
		if off < 0 || off >= L || seen[off] {
			return
		}
		seen[off] = true
		out = append(out, regionPos{off, region})
	}
	// the last and the first 72 bytes entirely (a SHA-256 block plus the length padding)
	for k := 0; k < 72; k++ {
		add(L-1-k, "tail")
	}
	for k := 0; k < 72; k++ {
		add(k, "head")
	}
	// powers of two: the sizes a fixed buffer would have (with and without the leaf prefix byte)
	for p := 32; p-2 < L; p <<= 1 {
		for d := -2; d <= 1; d++ {
			add(p+d, "pow2-border")
		}
	}
	// borders of the 64-byte blocks of the hashed stream 0x00||v: stream offset 64b is value offset 64b-1
	nb := (L + 1) / 64
	var blocks []int
	if nb <= 48 {
		for b := 1; b <= nb; b++ {
			blocks = append(blocks, b)
		}
	} else {
		for b := 1; b <= 16; b++ {
			blocks = append(blocks, b, nb-b+1)
		}
		for k := 0; k < 16; k++ {
			blocks = append(blocks, 17+g.Intn(nb-32))
		}
	}
	for _, b := range blocks {
		for d := -2; d <= 0; d++ {
			add(64*b+d, "block-border")
		}
	}
	// one seeded offset in each of 32 equal segments: no stretch of the value goes unvisited
	for s := 0; s < 32; s++ {
		lo, hi := L*s/32, L*(s+1)/32
		if hi > lo {
			add(lo+g.Intn(hi-lo), "segment")
		}
	}
	return out
}

// valueRegions: steps are the genuine steps of member v of list l.
func (c *checker) valueRegions(l *list, v []byte, steps []byte, g *vf.RNG, base map[string]interface{}) {
	r := c.r
	L := len(v)
	lc := lenClass(L)
	try := func(nv []byte, family string) {
		if bytes.Equal(nv, v) {
			return
		}
		if strings.Contains(family, "tail") {
			r.Count("tailmut_" + lc)
		}
		c.negative(l, append(varBytes(nv), steps...), family, base)
	}
	clone := func() []byte { return append([]byte{}, v...) }

	// ---- one bit flipped, region by region (values up to 40 bytes have every byte flipped by the caller)
	if L > 40 {
		for _, p := range regionOffsets(L, g.Sub(1)) {
			nv := clone()
			nv[p.off] ^= 1 << uint(g.Intn(8))
			try(nv, "value-region-flip:"+p.region)
		}
	}
	// ---- cut points: borders that matter for buffers and for the hash
	cuts := map[int]bool{0: true, L / 2: true, L - 1: true, L - 32: true, L - 33: true, L - 64: true}
	for p := 32; p <= L; p <<= 1 {
		cuts[p-1], cuts[p] = true, true
	}
	var order []int
	for t := range cuts {
		if t >= 0 && t < L {
			order = append(order, t)
		}
	}
	sort.Ints(order) // ascending: the seeded bytes stay a function of (seed, case)
	for _, t := range order {
		// the tail from t on replaced by other bytes
		nv := clone()
		copy(nv[t:], g.Bytes(L-t))
		if bytes.Equal(nv, v) {
			nv[L-1] ^= 1
		}
		try(nv, "value-tail-replaced")
		// the tail from t on zeroed
		nv = clone()
		for k := t; k < L; k++ {
			nv[k] = 0
		}
		try(nv, "value-tail-zeroed")
		// the value cut at t
		try(append([]byte{}, v[:t]...), "value-tail-cut")
	}
	// ---- the value grown at its end
	for _, k := range []int{1, 31, 32, 33, 64, g.Range(2, 200)} {
		try(append(clone(), g.Bytes(k)...), "value-tail-grown")
	}
	try(append(clone(), 0), "value-tail-grown")
	// ---- the value grown at its front (the member is the tail of the forged value)
	try(append([]byte{0}, v...), "value-head-grown")
	try(append(g.Bytes(32), v...), "value-head-grown")
	// ---- two aligned 32-byte chunks exchanged, a chunk repeated over its neighbour: a hash that forgets the order
	// or the position of the blocks would not notice
	if L >= 64 {
		nc := L / 32
		a := g.Intn(nc)
		b := (a + 1 + g.Intn(nc-1)) % nc
		nv := clone()
		copy(nv[32*a:32*a+32], v[32*b:32*b+32])
		copy(nv[32*b:32*b+32], v[32*a:32*a+32])
		try(nv, "value-chunk-swap")
		nv = clone()
		copy(nv[32*a:32*a+32], v[32*b:32*b+32])
		try(nv, "value-chunk-repeated")
	}
}

// ---------------------------------------------------------------- lists of long values

// the length classes: around the SHA-256 block and padding borders (55/56, 63/64/65, 119/120), the var-int borders
// (252..254, 65535..65537), powers of two up to several KiB and lengths that are none of these
var longLens = []int{0, 1, 31, 32, 33, 55, 56, 63, 64, 65, 119, 120, 127, 128, 129, 252, 253, 254, 255, 256, 257, 511, 512, 513,
	1000, 1023, 1024, 1025, 1500, 2047, 2048, 2049, 3000, 4095, 4096, 4097, 5000, 8191, 8192, 8193, 10000, 65535, 65536, 65537}

var longLensThorough = []int{16383, 16384, 16385, 32768, 100000, 262144}

type longTask struct {
	id   string
	lens []int
}

func allLongLens() []int {
	ls := append([]int{}, longLens...)
	if vf.Thorough() {
		ls = append(ls, longLensThorough...)
	}
	return ls
}

// longTasks: the table of length classes is dealt out over lists of sizes 1,2,3,5,8,4,7,9,16,6; several rounds, each
// round starting at another list size, so that a class turns up at different positions of differently sized lists.
func longTasks() []longTask {
	ls := allLongLens()
	sizes := []int{1, 2, 3, 5, 8, 4, 7, 9, 16, 6}
	var out []longTask
	for round := 0; round < vf.N(2, 8); round++ {
		at := 0
		for k := 0; at < len(ls); k++ {
			n := sizes[(k+3*round)%len(sizes)]
			t := longTask{id: fmt.Sprintf("long-r%d-k%d-n%d", round, k, n)}
			for j := 0; j < n; j++ {
				t.lens = append(t.lens, ls[(at+j)%len(ls)]) // n <= len(ls): the lengths of one list are distinct
			}
			at += n
			out = append(out, t)
		}
	}
	return out
}

func (c *checker) longList(t longTask, g *vf.RNG) {
	r := c.r
	n := len(t.lens)
	values := make([][]byte, n)
	// distinct lengths make the values distinct; the order is seeded so that long values sit at any position
	for j, at := range g.Perm(n) {
		values[at] = g.Sub(uint64(j) + 100).Bytes(t.lens[j])
	}
	l := listOf(r, t.id, values)
	if l == nil {
		return
	}
	r.Count("long_lists")
	// the other list: this one with the tail of its longest value altered (its root must differ; this list's paths
	// must not prove against it what it does not contain)
	var others []*list
	big := 0
	for i := range values {
		if len(values[i]) > len(values[big]) {
			big = i
		}
	}
	if L := len(values[big]); L > 0 {
		nv := append([]byte{}, values[big]...)
		nv[L-1] ^= 0x80
		if o := l.withChanged(r, t.id+"-tail-changed", big, nv); o != nil {
			others = append(others, o)
			r.Count("long_other_list_tail_changed")
			// the path the other list generates for the altered value, against this list's root
			var op []byte
			var err error
			if p := vf.Catch(func() { op, err = merkle.MerkleLeafPath(nv, o.hashes) }); p != nil {
				r.Violation("panic:MerkleLeafPath:"+sizeClass(n), fmt.Sprint(p), o.witness(map[string]interface{}{"member_index": big}))
			} else if err == nil {
				c.negative(l, op, "other-list-changed-member-path", map[string]interface{}{"other_list": o.id, "other_member": big})
			}
		}
	}
	c.listCase(l, g.Sub(3), others)
	for _, v := range values {
		r.Count(fmt.Sprintf("long_member_len=%d", len(v)))
		r.Count("long_members")
	}
}
