// C28 — BFT quorum thresholds always intersect in an honest peer.
//
// The thresholds are MEASURED from the running code: for every configuration (N, C) the
// real acceptance functions are probed with growing sets of distinct signers and the
// smallest accepted signer set is recorded.  The oracle is the intersection inequality
// t_a + t_b - N >= C+1 over every pair of quorum-type thresholds, and t_endorse >= C+1.
//
// A "signer set" of a VBFT commit declaration for proposer p is {p} ∪ committers ∪ endorser
// indices named in the commit messages (p signed the proposal that is being committed; its
// signature travels in every commit message as ProposerSig and is the first signature of the
// sealed header).  Several probe shapes are used per function; the threshold of a function
// is the minimum signer-set size over its shapes.
package main

import (
	"fmt"
	"math"
	"os"
	"path/filepath"
	"runtime"
	"runtime/debug"
	"sort"
	"strings"
	"sync"

	"github.com/ontio/ontology-crypto/keypair"
	"github.com/ontio/ontology/account"
	"github.com/ontio/ontology/common"
	"github.com/ontio/ontology/common/config"
	"github.com/ontio/ontology/common/constants"
	vbft "github.com/ontio/ontology/consensus/vbft"
	vconfig "github.com/ontio/ontology/consensus/vbft/config"
	"github.com/ontio/ontology/core/genesis"
	"github.com/ontio/ontology/core/ledger"
	"github.com/ontio/ontology/core/program"
	"github.com/ontio/ontology/core/signature"
	"github.com/ontio/ontology/core/types"
	"github.com/ontio/ontology/core/validation"
	"verifharness/lib/bftkit"
	"verifharness/lib/vf"
)

const maxN = 400

// measurement of one probe shape
type meas struct {
	Fn    string `json:"fn"`    // acceptance function
	Shape string `json:"shape"` // probe shape
	T     int    `json:"t"`     // smallest accepted signer-set size (-1: never accepted)
	K     int    `json:"k"`     // scan parameter at which it was accepted
	Wit   string `json:"witness,omitempty"`
}

var blockHash = common.Uint256{0xC2, 0x8}

// ------------------------------------------------------------------ getCommitConsensus probes

type gccShape struct {
	name string
	kmax func(n int) int
	// build returns the message list for scan parameter k and the size of the signer set
	build func(n, k int) ([]*vbft.VerifCommit, int)
}

// peer indices are 1..n, the proposer is 1
func commitFrom(c uint32, empty bool, endorsers map[uint32][]byte) *vbft.VerifCommit {
	return &vbft.VerifCommit{Committer: c, BlockProposer: 1, BlockNum: 9, CommitBlockHash: blockHash, CommitForEmpty: empty, EndorsersSig: endorsers, CommitterSig: []byte{1}}
}

var gccShapes = []gccShape{
	{"committers-other-than-proposer", func(n int) int { return n - 1 }, func(n, k int) ([]*vbft.VerifCommit, int) {
		var l []*vbft.VerifCommit
		for i := 0; i < k; i++ {
			l = append(l, commitFrom(uint32(2+i), false, nil))
		}
		return l, k + 1
	}},
	{"proposer-also-commits", func(n int) int { return n }, func(n, k int) ([]*vbft.VerifCommit, int) {
		var l []*vbft.VerifCommit
		for i := 0; i < k; i++ {
			l = append(l, commitFrom(uint32(1+i), false, nil))
		}
		if k == 0 {
			return l, 1
		}
		return l, k
	}},
	{"one-commit-naming-endorsers", func(n int) int { return n - 2 }, func(n, k int) ([]*vbft.VerifCommit, int) {
		m := map[uint32][]byte{}
		for i := 0; i < k; i++ {
			m[uint32(3+i)] = []byte{2}
		}
		return []*vbft.VerifCommit{commitFrom(2, false, m)}, k + 2
	}},
	{"one-commit-naming-itself-and-proposer", func(n int) int { return n - 2 }, func(n, k int) ([]*vbft.VerifCommit, int) {
		m := map[uint32][]byte{1: {2}, 2: {2}}
		for i := 0; i < k; i++ {
			m[uint32(3+i)] = []byte{2}
		}
		return []*vbft.VerifCommit{commitFrom(2, false, m)}, k + 2
	}},
	{"empty-commits-other-than-proposer", func(n int) int { return n - 1 }, func(n, k int) ([]*vbft.VerifCommit, int) {
		var l []*vbft.VerifCommit
		for i := 0; i < k; i++ {
			l = append(l, commitFrom(uint32(2+i), true, nil))
		}
		return l, k + 1
	}},
	{"alternating-empty-and-block-commits", func(n int) int { return n - 1 }, func(n, k int) ([]*vbft.VerifCommit, int) {
		var l []*vbft.VerifCommit
		for i := 0; i < k; i++ {
			l = append(l, commitFrom(uint32(2+i), i%2 == 0, nil))
		}
		return l, k + 1
	}},
	{"repeated-commits-of-one-committer", func(n int) int { return n }, func(n, k int) ([]*vbft.VerifCommit, int) {
		var l []*vbft.VerifCommit
		for i := 0; i < k; i++ {
			l = append(l, commitFrom(2, false, nil))
		}
		if k == 0 {
			return l, 1
		}
		return l, 2
	}},
}

func gccAccept(n, c int, sh *gccShape, k int) (bool, int, []*vbft.VerifCommit) {
	msgs, s := sh.build(n, k)
	var p uint32 = math.MaxUint32
	if pn := vf.Catch(func() { p, _ = vbft.VerifGetCommitConsensus(msgs, c, n) }); pn != nil {
		return false, s, msgs
	}
	return p == 1, s, msgs
}

// scan finds the smallest accepted scan parameter.  linear: every k in 0..kmax is probed;
// otherwise bisection, a window around the boundary and fixed spot checks, with a linear
// rescan when these disagree with monotonicity.
func gccScan(r *vf.Run, n, c int, sh *gccShape, linear bool) meas {
	kmax := sh.kmax(n)
	acc := func(k int) bool { a, _, _ := gccAccept(n, c, sh, k); r.Add("probes_getCommitConsensus", 1); return a }
	first := -1
	lin := func() {
		first = -1
		for k := 0; k <= kmax; k++ {
			a := acc(k)
			if a && first < 0 {
				first = k
			}
			if !a && first >= 0 {
				r.Count("obs_non_monotone_acceptance")
			}
		}
	}
	if linear {
		lin()
	} else if !acc(kmax) {
		first = -1
		for _, k := range []int{0, kmax / 2, kmax - 1} {
			if k >= 0 && acc(k) {
				lin()
				break
			}
		}
	} else {
		lo, hi := -1, kmax // acc(hi) true; lo rejected (virtual)
		for hi-lo > 1 {
			mid := (lo + hi) / 2
			if acc(mid) {
				hi = mid
			} else {
				lo = mid
			}
		}
		first = hi
		ok := true
		for d := -3; d <= 3 && ok; d++ {
			k := first + d
			if k < 0 || k > kmax {
				continue
			}
			if acc(k) != (k >= first) {
				ok = false
			}
		}
		for _, k := range []int{0, 1, first / 2, (first + kmax) / 2, kmax - 1} {
			if k >= 0 && k <= kmax && acc(k) != (k >= first) {
				ok = false
			}
		}
		if !ok {
			lin()
		}
	}
	m := meas{Fn: "getCommitConsensus", Shape: sh.name, T: -1, K: first}
	if first >= 0 {
		_, s, msgs := gccAccept(n, c, sh, first)
		m.T = s
		m.Wit = describe(msgs)
	}
	return m
}

func describe(msgs []*vbft.VerifCommit) string {
	var sb strings.Builder
	fmt.Fprintf(&sb, "proposer=1; %d commit msg(s): ", len(msgs))
	for i, m := range msgs {
		if i >= 6 {
			fmt.Fprintf(&sb, "… ")
			break
		}
		var e []int
		for k := range m.EndorsersSig {
			e = append(e, int(k))
		}
		sort.Ints(e)
		fmt.Fprintf(&sb, "{committer=%d empty=%v endorsersSig=%v} ", m.Committer, m.CommitForEmpty, e)
	}
	return sb.String()
}

// ------------------------------------------------------------------ BlockPool probes

var (
	sigMu    sync.Mutex
	sigCache = map[int][]byte{}
)

// sigOf returns peer key i's signature over blockHash (valid, cached).
func sigOf(i int) []byte {
	sigMu.Lock()
	defer sigMu.Unlock()
	if s, ok := sigCache[i]; ok {
		return s
	}
	s, err := signature.Sign(bftkit.Key(i), blockHash[:])
	if err != nil {
		panic(err)
	}
	sigCache[i] = s
	return s
}

var (
	cfgMu    sync.Mutex
	cfgCache = map[int]*vconfig.ChainConfig{}
)

// chainCfg: real GenesisChainConfig over n equal-stake peers; peer index i <-> key i-1.
func chainCfg(n, c int) *vconfig.ChainConfig {
	cfgMu.Lock()
	defer cfgMu.Unlock()
	base, ok := cfgCache[n]
	if !ok {
		keys := make([]int, n)
		idx := make([]uint32, n)
		st := make([]uint64, n)
		for i := 0; i < n; i++ {
			keys[i], idx[i], st[i] = i, uint32(i+1), 1000
		}
		var err error
		base, err = bftkit.Genesis(uint32(n), uint32(2*n), 1, bftkit.PeerSet(keys, idx, st), common.Uint256{1}, 1)
		if err != nil {
			panic(err)
		}
		cfgCache[n] = base
	}
	cp := *base
	cp.C = uint32(c)
	return &cp
}

func poolProbes(r *vf.Run, n, c int) []meas {
	cfg := chainCfg(n, c)
	var vrf vconfig.VRFValue
	vrf[0], vrf[1], vrf[2] = byte(n), byte(c), 7
	const b0 = 100
	vp, err := vbft.NewVerifPool(cfg, 1, b0, vrf)
	if err != nil {
		r.Inconclusive("NewVerifPool: " + err.Error())
		return nil
	}
	var out []meas
	mkCommit := func(blk uint32, committer int) *vbft.VerifCommit {
		return &vbft.VerifCommit{Committer: uint32(committer), BlockProposer: 1, BlockNum: blk, CommitBlockHash: blockHash, CommitterSig: sigOf(committer - 1)}
	}
	// commit messages, fed one at a time
	for si, sh := range []struct {
		name       string
		firstPeer  int
		creditProp bool
	}{{"commits-from-committers-other-than-proposer", 2, true}, {"commits-including-the-proposer's", 1, false}} {
		blk := uint32(b0 + si)
		m := meas{Fn: "BlockPool.commitDone", Shape: sh.name, T: -1, K: -1}
		fed := 0
		for peer := sh.firstPeer; peer <= n; peer++ {
			cm := mkCommit(blk, peer)
			if err := vp.VerifyCommit(cm); err != nil {
				r.Inconclusive("harness: honest commit message fails VerifyCommit: " + err.Error())
				return out
			}
			if err := vp.AddCommit(cm); err != nil {
				r.Inconclusive("harness: AddCommit: " + err.Error())
				return out
			}
			fed++
			r.Add("probes_pool_commitDone", 1)
			p, _, done := vp.CommitDone(blk, uint32(c), uint32(n))
			if done && p == 1 && m.T < 0 {
				m.K = fed
				m.T = fed
				if sh.creditProp {
					m.T = fed + 1
				}
				m.Wit = fmt.Sprintf("proposer=1; commit msgs (valid committer signatures, no endorser sigs) from peers %d..%d", sh.firstPeer, peer)
			}
			if m.T >= 0 && !(done && p == 1) {
				r.Count("obs_non_monotone_acceptance")
			}
		}
		out = append(out, m)
	}
	// every signer first endorses and later commits (what a peer that is endorser and committer does):
	// the signer set grows by ONE peer per two messages
	{
		blk := uint32(b0 + 5)
		m := meas{Fn: "BlockPool.commitDone", Shape: "each-peer-endorses-then-commits", T: -1, K: -1}
		for peer := 2; peer <= n && m.T < 0; peer++ {
			for step := 0; step < 2 && m.T < 0; step++ {
				if step == 0 {
					vp.AddEndorse(uint32(peer), 1, blk, blockHash, false, sigOf(peer-1))
				} else if err := vp.AddCommit(mkCommit(blk, peer)); err != nil {
					r.Inconclusive("harness: AddCommit: " + err.Error())
					return out
				}
				r.Add("probes_pool_commitDone", 1)
				if p, _, done := vp.CommitDone(blk, uint32(c), uint32(n)); done && p == 1 {
					m.K = peer - 1
					m.T = peer // peers 2..peer plus the credited proposer
					m.Wit = fmt.Sprintf("proposer=1; peers 2..%d each sent an endorse message and then a commit message without endorser sigs (declared after the %s of peer %d)", peer, []string{"endorsement", "commit"}[step], peer)
				}
			}
		}
		out = append(out, m)
	}
	// fallback path of commitDone: endorsement signatures only
	for si, sh := range []struct {
		name       string
		firstPeer  int
		creditProp bool
	}{{"endorse-msgs-from-peers-other-than-proposer", 2, true}, {"endorse-msgs-including-the-proposer's", 1, false}} {
		blk := uint32(b0 + 10 + si)
		m := meas{Fn: "BlockPool.commitDone(endorse-sig fallback)", Shape: sh.name, T: -1, K: -1}
		fed := 0
		for peer := sh.firstPeer; peer <= n; peer++ {
			vp.AddEndorse(uint32(peer), 1, blk, blockHash, false, sigOf(peer-1))
			fed++
			r.Add("probes_pool_commitDone", 1)
			p, _, done := vp.CommitDone(blk, uint32(c), uint32(n))
			if done && p == 1 && m.T < 0 {
				m.K = fed
				m.T = fed
				if sh.creditProp {
					m.T = fed + 1
				}
				m.Wit = fmt.Sprintf("proposer=1; endorse msgs (valid signatures) from peers %d..%d, no commit msg", sh.firstPeer, peer)
			}
		}
		out = append(out, m)
	}
	// endorseDone: the number of endorsements for the proposer it declares
	for si, sh := range []struct {
		name   string
		filler bool
		empty  bool
	}{{"endorse-msgs-from-distinct-peers", false, false}, {"one-endorsement-for-another-proposer-first", true, false}, {"empty-endorse-msgs-from-distinct-peers", false, true}, {"empty-endorse-msgs-after-one-endorsement-for-another-proposer", true, true}} {
		blk := uint32(b0 + 20 + si)
		m := meas{Fn: "BlockPool.endorseDone", Shape: sh.name, T: -1, K: -1}
		forP := map[uint32]int{}
		last := n
		if sh.filler {
			vp.AddEndorse(uint32(n), 2, blk, blockHash, false, sigOf(n-1))
			forP[2]++
			last = n - 1
		}
		for peer := 3; peer <= last; peer++ {
			vp.AddEndorse(uint32(peer), 1, blk, blockHash, sh.empty, sigOf(peer-1))
			forP[1]++
			r.Add("probes_pool_endorseDone", 1)
			p, _, done := vp.EndorseDone(blk, uint32(c))
			if done {
				m.K, m.T = forP[p], forP[p]
				m.Wit = fmt.Sprintf("endorseDone declared proposer %d after %d endorsement(s) for it (endorse msgs for proposer 1 from peers 3..%d, forEmpty=%v, filler for proposer 2 from peer %d: %v)", p, forP[p], peer, sh.empty, n, sh.filler)
				break
			}
		}
		out = append(out, m)
	}
	return out
}

// ------------------------------------------------------------------ signature based probes

type sigThresholds struct {
	N        int
	Validate meas // validation.VerifyBlock (full acceptance on a real ledger for N <= 16, signature stage beyond)
	Header   meas // ledger verifyHeader, non-VBFT branch, through AddHeaders
	Addr     meas // m of the multisig program AddressFromBookkeepers commits to
	HaveHdr  bool
	HaveAddr bool
}

func sortedKeys(n int) (accts []*account.Account, pubs []keypair.PublicKey) {
	for i := 0; i < n; i++ {
		accts = append(accts, bftkit.Key(i))
	}
	sort.Slice(accts, func(i, j int) bool {
		return string(keypair.SerializePublicKey(accts[i].PublicKey)) < string(keypair.SerializePublicKey(accts[j].PublicKey))
	})
	for _, a := range accts {
		pubs = append(pubs, a.PublicKey)
	}
	return
}

type signedHeader struct {
	hd   *types.Header
	sigs [][]byte // sigs[i] by accts[i]
}

func mkHeader(accts []*account.Account, pubs []keypair.PublicKey, prev common.Uint256, height uint32, next common.Address) *signedHeader {
	hd := &types.Header{Version: 0, PrevBlockHash: prev, Timestamp: constants.GENESIS_BLOCK_TIMESTAMP + 10*height, Height: height,
		ConsensusData: uint64(height) + 77, NextBookkeeper: next, Bookkeepers: pubs}
	h := hd.Hash()
	sh := &signedHeader{hd: hd}
	for _, a := range accts {
		s, err := signature.Sign(a, h[:])
		if err != nil {
			panic(err)
		}
		sh.sigs = append(sh.sigs, s)
	}
	return sh
}

// with returns a copy of the header carrying signatures of k distinct bookkeepers (a rotated
// subset in shuffled order); padDup appends repeated copies of the first signature up to n.
func (sh *signedHeader) with(rng *vf.RNG, k int, padDup bool) *types.Header {
	n := len(sh.sigs)
	cp := *sh.hd
	off := rng.Intn(n)
	var sd [][]byte
	for _, j := range rng.Perm(k) {
		sd = append(sd, sh.sigs[(off+j)%n])
	}
	if padDup && k > 0 {
		for len(sd) < n {
			sd = append(sd, sd[0])
		}
	}
	cp.SigData = sd
	return &cp
}

func setNonVbftConfig(pubs []keypair.PublicKey) {
	config.DefConfig.Genesis.ConsensusType = config.CONSENSUS_TYPE_SOLO
	var bk []string
	for _, p := range pubs {
		bk = append(bk, vf.Hex(keypair.SerializePublicKey(p)))
	}
	config.DefConfig.Genesis.SOLO.Bookkeepers = bk
	config.DefConfig.P2PNode.NetworkId = config.NETWORK_ID_SOLO_NET
}

func sigProbes(r *vf.Run, rng *vf.RNG, n int, dir string, keep **ledger.Ledger) (st sigThresholds) {
	st.N = n
	accts, pubs := sortedKeys(n)
	st.Validate = meas{Fn: "validation.VerifyBlock", T: -1, K: -1}
	st.Header = meas{Fn: "LedgerStore.verifyHeader(non-VBFT) via AddHeaders", T: -1, K: -1}
	st.Addr = meas{Fn: "types.AddressFromBookkeepers", Shape: "m of the multisig program whose address it returns", T: -1, K: -1}

	addr, aerr := types.AddressFromBookkeepers(pubs)
	if aerr == nil {
		// --- which m does the address commit to?
		if n == 1 {
			if addr == types.AddressFromPubKey(pubs[0]) {
				st.Addr.T, st.HaveAddr = 1, true
			}
		} else {
			for m := 1; m <= n; m++ {
				prog, err := program.ProgramFromMultiPubKey(pubs, m)
				if err != nil {
					continue
				}
				r.Add("probes_address_m", 1)
				if common.AddressFromVmCode(prog) == addr {
					info, err := program.GetProgramInfo(prog)
					if err != nil || int(info.M) != m || len(info.PubKeys) != n {
						r.Inconclusive(fmt.Sprintf("harness: GetProgramInfo disagrees with the constructed program (n=%d m=%d): %v", n, m, err))
						continue
					}
					if st.HaveAddr {
						r.Inconclusive("harness: two different m give the bookkeeper address")
					}
					st.Addr.T, st.Addr.K, st.HaveAddr = int(info.M), m, true
				}
			}
		}
	} else {
		r.Count("obs_AddressFromBookkeepers_rejects_N_above_multisig_limit")
	}

	if aerr == nil {
		// --- real ledger whose genesis hands over to these n bookkeepers
		setNonVbftConfig(pubs)
		gb, err := genesis.BuildGenesisBlock(pubs, config.DefConfig.Genesis)
		if err != nil {
			r.Inconclusive("harness: BuildGenesisBlock: " + err.Error())
			return
		}
		ld, err := ledger.InitLedger(filepath.Join(dir, fmt.Sprintf("n%d", n)), 0, pubs, gb)
		if err != nil {
			r.Inconclusive("harness: InitLedger: " + err.Error())
			return
		}
		if *keep != nil {
			(*keep).Close()
		}
		*keep = ld
		h1 := mkHeader(accts, pubs, gb.Hash(), 1, addr)
		// VerifyBlock: side-effect free, every k, two shapes
		for _, pad := range []bool{false, true} {
			first := -1
			for k := 0; k <= n; k++ {
				blk := &types.Block{Header: h1.with(rng, k, pad)}
				err := validation.VerifyBlock(blk, ld, false)
				r.Add("probes_VerifyBlock", 1)
				if err == nil && first < 0 {
					first = k
				}
				if err != nil && first >= 0 {
					r.Count("obs_non_monotone_acceptance")
				}
			}
			if first >= 0 && (st.Validate.T < 0 || first < st.Validate.T) {
				st.Validate.T, st.Validate.K = first, first
				st.Validate.Shape = map[bool]string{false: "k-distinct-bookkeeper-signatures", true: "k-distinct-signatures-padded-with-duplicates"}[pad]
				st.Validate.Wit = fmt.Sprintf("header height 1 listing %d bookkeepers with %d distinct valid signatures: accepted (nil error)", n, first)
			}
		}
		// ledger verifyHeader: an accepted header advances the header chain, so the scan
		// continues on the next height
		st.HaveHdr = true
		cur := h1
		height := uint32(1)
		first := -1
		for k := 0; k <= n; k++ {
			pad := k%2 == 1
			err := ld.AddHeaders([]*types.Header{cur.with(rng, k, pad)})
			r.Add("probes_ledger_verifyHeader", 1)
			if err == nil {
				if first < 0 {
					first = k
					// one below the threshold must still be rejected on the new height
				}
				prev := cur.hd.Hash()
				height++
				cur = mkHeader(accts, pubs, prev, height, addr)
				if k == first && k > 0 {
					if e2 := ld.AddHeaders([]*types.Header{cur.with(rng, k-1, true)}); e2 == nil {
						r.Count("obs_non_monotone_acceptance")
						prev = cur.hd.Hash()
						height++
						cur = mkHeader(accts, pubs, prev, height, addr)
					}
				}
			} else if first >= 0 {
				r.Count("obs_non_monotone_acceptance")
			}
		}
		if first >= 0 {
			st.Header.T, st.Header.K = first, first
			st.Header.Shape = "k-distinct-bookkeeper-signatures (odd k padded with duplicates)"
			st.Header.Wit = fmt.Sprintf("header listing %d bookkeepers with %d distinct valid signatures: AddHeaders accepted", n, first)
		}
		return
	}
	// --- N above the multisig limit: no bookkeeper address exists, so no non-VBFT header can
	// be fully accepted; only the signature stage of VerifyBlock is observable.
	if *keep == nil {
		r.Inconclusive("harness: no ledger for signature-stage probes")
		return
	}
	var prev common.Uint256
	copy(prev[:], rng.Bytes(32))
	h1 := mkHeader(accts, pubs, prev, 1, common.Address{})
	first := -1
	for k := 0; k <= n; k++ {
		blk := &types.Block{Header: h1.with(rng, k, k%2 == 1)}
		err := validation.VerifyBlock(blk, *keep, false)
		r.Add("probes_VerifyBlock_signature_stage", 1)
		passed := err != nil && strings.Contains(err.Error(), "can not find prevHeader")
		if err == nil {
			r.Inconclusive("harness: VerifyBlock accepted a header with an unknown predecessor")
		}
		if passed && first < 0 {
			first = k
		}
		if !passed && first >= 0 {
			r.Count("obs_non_monotone_acceptance")
		}
	}
	if first >= 0 {
		st.Validate.T, st.Validate.K = first, first
		st.Validate.Shape = "signature-stage-only (k distinct signatures; passing = error moves on to the predecessor lookup)"
		st.Validate.Wit = fmt.Sprintf("header listing %d bookkeepers with %d distinct valid signatures passes VerifyMultiSignature inside VerifyBlock", n, first)
	}
	return
}

// ------------------------------------------------------------------ oracle

type named struct {
	name string
	m    meas
}

// checkPairs evaluates t_a + t_b - N >= C+1 over all pairs.  All pairs hold iff the pair
// (min, min) holds, and every failing pair contains a threshold that fails when paired with
// itself; a violation is therefore reported once per threshold that fails against itself
// (the culprit), and pairs that fail only because of an already reported partner are counted.
func checkPairs(r *vf.Run, n, c int, q []named) {
	for i := 0; i < len(q); i++ {
		a := q[i]
		if a.m.T < 0 {
			continue
		}
		for j := i; j < len(q); j++ {
			b := q[j]
			if b.m.T < 0 {
				continue
			}
			r.Add("oracle_pairs_checked", 1)
			if a.m.T+b.m.T-n >= c+1 {
				continue
			}
			if i != j {
				r.Add("oracle_cross_pairs_failing_through_a_reported_threshold", 1)
				continue
			}
			key := fmt.Sprintf("quorum-intersection:%s[%s]", a.m.Fn, a.m.Shape)
			r.Violation(key, fmt.Sprintf("N=%d C=%d: a set of %d signers satisfies %s; two such sets can share as few as %d peers, fewer than C+1=%d",
				n, c, a.m.T, a.m.Fn, maxInt(0, 2*a.m.T-n), c+1),
				map[string]interface{}{"N": n, "C": c, "threshold": a.m, "all_thresholds_of_this_configuration": q2m(q)})
		}
	}
}

func q2m(q []named) []meas {
	var o []meas
	for _, x := range q {
		o = append(o, x.m)
	}
	return o
}

func maxInt(a, b int) int {
	if a > b {
		return a
	}
	return b
}

func main() {
	debug.SetGCPercent(400) // allocation-heavy code under test (JSON hashing); fewer GC cycles
	r := vf.NewRun("C28", "exploration",
		"every (N,C) with 4<=N<=400, 1<=C<=(N-1)/3: smallest signer set accepted by the real getCommitConsensus (7 probe shapes), BlockPool.commitDone / its endorse-signature fallback / endorseDone on a real pool (sampled N above a bound, see explored_bound); every N<=16 (quick) / <=40 (thorough): smallest number of distinct valid bookkeeper signatures accepted by validation.VerifyBlock, by the ledger's non-VBFT verifyHeader (AddHeaders on a real ledger) and the m of AddressFromBookkeepers; a case is one (function, shape, N, C) measurement")
	rng := vf.NewRNG(vf.Seed())
	scratch := vf.Scratch("c28")

	linearN := vf.N(64, 160) // k enumerated completely up to here, bisection + window beyond
	poolAllN := vf.N(40, 100)
	poolSample := map[int]bool{}
	for _, n := range []int{64, 100, 127, 128, 129, 200, 255, 256, 257, 300, 399, 400} {
		poolSample[n] = true
	}
	sigN := vf.N(16, 40)

	// ---- signature-based thresholds (serial: one global config / ledger at a time)
	sig := map[int]sigThresholds{}
	var keep *ledger.Ledger
	for n := 1; n <= sigN; n++ {
		st := sigProbes(r, rng.Sub(uint64(9000+n)), n, scratch, &keep)
		sig[n] = st
		for _, m := range []meas{st.Validate, st.Header, st.Addr} {
			if m.T >= 0 {
				r.Eval(fmt.Sprintf("%s/%s/N=%d/t=%d", m.Fn, m.Shape, n, m.T))
			}
		}
		if st.Validate.T >= 0 {
			r.Count("measured_VerifyBlock")
		}
		if st.HaveHdr && st.Header.T >= 0 {
			r.Count("measured_ledger_verifyHeader")
		}
		if st.HaveAddr {
			r.Count("measured_address_m")
		}
		// N-only thresholds: every C with N >= 3C+1, including C=0
		var q []named
		q = append(q, named{"validate", st.Validate})
		if st.HaveHdr {
			q = append(q, named{"header", st.Header})
		}
		if st.HaveAddr {
			q = append(q, named{"addr", st.Addr})
		}
		for c := 0; 3*c+1 <= n; c++ {
			checkPairs(r, n, c, q)
		}
	}
	if keep != nil {
		keep.Close()
	}

	// ---- commit counting, all (N, C)
	var mu sync.Mutex
	table := map[[2]int][]meas{}
	var pairs [][2]int
	for n := 4; n <= maxN; n++ {
		for c := 1; 3*c+1 <= n; c++ {
			pairs = append(pairs, [2]int{n, c})
		}
	}
	quickFull := func(n, c int) bool { // quick tier: all shapes only for C in {1, mid, max}; boundary check otherwise
		mc := (n - 1) / 3
		return c == 1 || c == mc || c == (mc+1)/2
	}
	// one work item per N (largest first); C=1 is measured first and serves as the reference
	// for the quick tier's boundary checks of the other C
	ns := []int{}
	for n := maxN; n >= 4; n-- {
		ns = append(ns, n)
	}
	vf.Parallel(len(ns), runtime.NumCPU(), func(i int) {
		n := ns[i]
		ref := map[string]meas{}
		for c := 1; 3*c+1 <= n; c++ {
			var ms []meas
			full := vf.Thorough() || quickFull(n, c) || n <= linearN
			for si := range gccShapes {
				sh := &gccShapes[si]
				var m meas
				if full {
					m = gccScan(r, n, c, sh, n <= linearN)
					if c == 1 {
						ref[sh.name] = m
					}
				} else {
					if si > 1 {
						continue
					}
					// boundary check against the C=1 measurement of the same N
					rm := ref[sh.name]
					same := rm.K >= 0
					if same {
						a, _, _ := gccAccept(n, c, sh, rm.K)
						same = a
						r.Add("probes_getCommitConsensus", 1)
					}
					if same && rm.K > 0 {
						a, _, _ := gccAccept(n, c, sh, rm.K-1)
						same = !a
						r.Add("probes_getCommitConsensus", 1)
					}
					if same {
						m = rm
						r.Count("boundary_check_confirms_reference")
					} else {
						m = gccScan(r, n, c, sh, false)
						r.Count("boundary_check_differs_rescanned")
					}
				}
				ms = append(ms, m)
				r.Eval(fmt.Sprintf("gcc/%s/N=%d/C=%d/t=%d", sh.name, n, c, m.T))
				if m.T >= 0 {
					r.Count("measured_getCommitConsensus:" + sh.name)
				} else {
					r.Count("never_accepted_getCommitConsensus:" + sh.name)
				}
			}
			if n <= poolAllN || (poolSample[n] && (quickFull(n, c) || (vf.Thorough() && c%8 == 0))) {
				for _, m := range poolProbes(r, n, c) {
					ms = append(ms, m)
					r.Eval(fmt.Sprintf("pool/%s/%s/N=%d/C=%d/t=%d", m.Fn, m.Shape, n, c, m.T))
					if m.T >= 0 {
						r.Count("measured_" + m.Fn)
					} else {
						r.Count("never_accepted_" + m.Fn)
					}
				}
			}
			mu.Lock()
			table[[2]int{n, c}] = ms
			mu.Unlock()
		}
	})

	// ---- oracle over every (N, C)
	type tabRow struct {
		N, C       int
		Thresholds map[string]int
	}
	var shown []tabRow
	showSet := map[[2]int]bool{{4, 1}: true, {5, 1}: true, {6, 1}: true, {7, 2}: true, {10, 3}: true, {13, 4}: true, {16, 5}: true, {40, 13}: true, {100, 33}: true, {256, 85}: true, {400, 133}: true, {400, 1}: true}
	for _, pc := range pairs {
		n, c := pc[0], pc[1]
		ms := table[pc]
		var q []named
		for _, m := range ms {
			if m.Fn == "BlockPool.endorseDone" {
				r.Add("oracle_endorse_checked", 1)
				if m.T >= 0 && m.T < c+1 {
					r.Violation("endorse-threshold-below-C+1:"+m.Shape, fmt.Sprintf("N=%d C=%d: endorseDone after %d endorsements", n, c, m.T), map[string]interface{}{"N": n, "C": c, "m": m})
				}
				continue
			}
			if m.T >= 0 {
				q = append(q, named{m.Fn, m})
			}
		}
		if st, ok := sig[n]; ok {
			q = append(q, named{"validate", st.Validate})
			if st.HaveHdr {
				q = append(q, named{"header", st.Header})
			}
			if st.HaveAddr {
				q = append(q, named{"addr", st.Addr})
			}
			r.Add("oracle_configs_with_signature_thresholds", 1)
		}
		checkPairs(r, n, c, q)
		r.Add("oracle_configs_checked", 1)
		if showSet[pc] {
			tr := tabRow{N: n, C: c, Thresholds: map[string]int{}}
			for _, m := range ms {
				tr.Thresholds[m.Fn+" ["+m.Shape+"]"] = m.T
			}
			if st, ok := sig[n]; ok {
				tr.Thresholds[st.Validate.Fn+" ["+st.Validate.Shape+"]"] = st.Validate.T
				if st.HaveHdr {
					tr.Thresholds[st.Header.Fn] = st.Header.T
				}
				if st.HaveAddr {
					tr.Thresholds[st.Addr.Fn+" m"] = st.Addr.T
				}
			}
			shown = append(shown, tr)
			r.Sample(tr)
		}
	}
	r.Extra("measured_thresholds_table", shown)
	sigRows := []map[string]int{}
	for n := 1; n <= sigN; n++ {
		st := sig[n]
		sigRows = append(sigRows, map[string]int{"N": n, "VerifyBlock": st.Validate.T, "ledger_verifyHeader_nonVBFT": st.Header.T, "AddressFromBookkeepers_m": st.Addr.T})
	}
	r.Extra("measured_signature_thresholds_by_N", sigRows)
	r.Extra("explored_bound", map[string]interface{}{
		"getCommitConsensus":   fmt.Sprintf("all (N,C) with 4<=N<=%d, 1<=C<=(N-1)/3 (%d configurations); scan parameter k enumerated completely for N<=%d, located by bisection and checked on a +-3 window and 5 spot values for larger N; %s", maxN, len(pairs), linearN, map[bool]string{true: "all 7 shapes for every C", false: "all 7 shapes for C in {1, mid, max} and for N<=64, the two committer shapes for every other C"}[vf.Thorough()]),
		"BlockPool":            fmt.Sprintf("every (N,C) with N<=%d, and N in {64,100,127,128,129,200,255,256,257,300,399,400} with C in {1, mid, max}%s; messages fed one at a time, commitDone/endorseDone read after each", poolAllN, map[bool]string{true: " and every 8th C", false: ""}[vf.Thorough()]),
		"signature_thresholds": fmt.Sprintf("N=1..%d; full acceptance (real ledger) for N<=16 = MULTI_SIG_MAX_PUBKEY_SIZE, VerifyBlock signature stage only for larger N (no bookkeeper address exists there)", sigN),
		"not_covered":          "N > 400 (N > 40 for signature thresholds); the VBFT branch of the ledger's verifyHeader (its minimum m = n - 6n/7 is measured by C32)",
	})
	r.Extra("exhaustive", fmt.Sprintf("(N,C) enumerated completely for 4<=N<=%d; per configuration the signer count k is enumerated completely only for N<=%d (getCommitConsensus) / N<=%d and the sampled N (BlockPool) / N<=%d (signatures)", maxN, linearN, poolAllN, sigN))
	os.RemoveAll(scratch)

	for _, sh := range gccShapes {
		if sh.name == "repeated-commits-of-one-committer" {
			r.Require("never_accepted_getCommitConsensus:"+sh.name, 100)
			continue
		}
		r.Require("measured_getCommitConsensus:"+sh.name, 1000)
	}
	r.Require("measured_BlockPool.commitDone", 200)
	r.Require("measured_BlockPool.commitDone(endorse-sig fallback)", 200)
	r.Require("measured_BlockPool.endorseDone", 100)
	r.Require("measured_VerifyBlock", int64(sigN))
	r.Require("measured_ledger_verifyHeader", 16)
	r.Require("measured_address_m", 16)
	r.Require("oracle_configs_checked", int64(len(pairs)))
	r.Require("oracle_configs_with_signature_thresholds", 20)
	r.Require("oracle_endorse_checked", 100)
	r.Assume("signer set of a commit declaration = {proposer} ∪ committers ∪ endorser indices named in the commit messages (the proposer signed the proposal; when it is not otherwise among the signers it is credited as one)")
	r.Assume("endorsement threshold is checked as 'contains an honest peer' (t >= C+1), not as an intersection bound (DESIGN §8)")
	r.Assume("the ledger's VBFT verifyHeader minimum is not measured here (C32 does); thresholds beyond N=400 are not covered")
	r.Finish()
}
