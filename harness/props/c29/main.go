// C29 — Each round selects well-formed proposer, endorser and committer sets.
// Invariant monitor on the real calcParticipantPeers (verif export) over chain
// configurations produced by the real vconfig.GenesisChainConfig plus hand-made
// degenerate-but-valid position tables.
package main

import (
	"crypto/sha256"
	"encoding/json"
	"fmt"
	"os"
	"os/exec"
	"path/filepath"
	"reflect"
	"runtime"
	"runtime/debug"

	"github.com/ontio/ontology/common"
	vbft "github.com/ontio/ontology/consensus/vbft"
	vconfig "github.com/ontio/ontology/consensus/vbft/config"
	"github.com/ontio/ontology/core/types"
	"verifharness/lib/bftkit"
	"verifharness/lib/vf"
)

type cfgCase struct {
	Kind     string               `json:"kind"`
	K, L, C  uint32               `json:"-"`
	Stakes   []uint64             `json:"stakes,omitempty"`
	Indices  []uint32             `json:"indices,omitempty"`
	Cfg      *vconfig.ChainConfig `json:"cfg"`
	distinct int
}

type selection struct {
	P, E, C []uint32
}

func sel(vrf vconfig.VRFValue, cfg *vconfig.ChainConfig) (s selection, panicked interface{}) {
	panicked = vf.Catch(func() { s.P, s.E, s.C = vbft.VerifCalcParticipantPeers(vrf, cfg) })
	return
}

func distinctCount(l []uint32) int {
	m := map[uint32]bool{}
	for _, v := range l {
		m[v] = true
	}
	return len(m)
}

func overlaps(a, b []uint32) bool {
	m := map[uint32]bool{}
	for _, v := range a {
		m[v] = true
	}
	for _, v := range b {
		if m[v] {
			return true
		}
	}
	return false
}

// genConfig builds config number i (pure function of rng).
func genConfig(rng *vf.RNG, i int) (*cfgCase, error) {
	handmade := i%8 == 7
	n := rng.Range(4, 40)
	switch rng.Intn(6) {
	case 0:
		n = rng.Range(4, 7)
	case 1:
		n = []int{4, 7, 10, 13, 16, 19, 22, 31, 40}[rng.Intn(9)] // N = 3C+1 exactly for max C
	}
	maxC := (n - 1) / 3
	c := rng.Range(1, maxC)
	if rng.Chance(50) {
		c = maxC
	}
	idx := bftkit.Indices(rng, n, rng.Chance(30))
	keyNos := rng.Perm(64)[:n]
	if handmade {
		cfg := &vconfig.ChainConfig{Version: 1, View: 1, N: uint32(n), C: uint32(c)}
		for j := 0; j < n; j++ {
			cfg.Peers = append(cfg.Peers, &vconfig.PeerConfig{Index: idx[j], ID: bftkit.KeyID(keyNos[j])})
		}
		kind := ""
		var tl int
		switch rng.Intn(5) {
		case 0: // a single peer fills the table
			kind = "hand_single"
			tl = []int{1, 2, 7, 64, 600}[rng.Intn(5)]
			who := idx[rng.Intn(n)]
			for j := 0; j < tl; j++ {
				cfg.PosTable = append(cfg.PosTable, who)
			}
		case 1: // two peers
			kind = "hand_two"
			tl = rng.Range(2, 200)
			a, b := idx[rng.Intn(n)], idx[rng.Intn(n)]
			for j := 0; j < tl; j++ {
				if rng.Bool() {
					cfg.PosTable = append(cfg.PosTable, a)
				} else {
					cfg.PosTable = append(cfg.PosTable, b)
				}
			}
		case 2: // exactly 3C distinct peers in the table (one short of the fill limit)
			kind = "hand_3c"
			tl = rng.Range(3*c, 300)
			for j := 0; j < tl; j++ {
				cfg.PosTable = append(cfg.PosTable, idx[j%(3*c)])
			}
		case 3: // very short table over all peers
			kind = "hand_short"
			tl = rng.Range(1, 5)
			for j := 0; j < tl; j++ {
				cfg.PosTable = append(cfg.PosTable, idx[rng.Intn(n)])
			}
		default: // long table (> 512 entries: the k>=512 cut-off of calcParticipant)
			kind = "hand_long"
			tl = rng.Range(513, 900)
			m := rng.Range(1, n)
			for j := 0; j < tl; j++ {
				cfg.PosTable = append(cfg.PosTable, idx[rng.Intn(m)])
			}
		}
		return &cfgCase{Kind: kind, Cfg: cfg, distinct: distinctCount(cfg.PosTable)}, nil
	}
	mult := rng.Range(2, 16)
	k := uint32(n)
	l := k * uint32(mult)
	shape := rng.Intn(bftkit.NShapes)
	stakes := bftkit.Stakes(rng, n, shape, uint64(mult-1)*uint64(k))
	peers := bftkit.PeerSet(keyNos, idx, stakes)
	var txh common.Uint256
	copy(txh[:], rng.Bytes(32))
	cfg, err := bftkit.Genesis(k, l, uint32(c), peers, txh, uint32(rng.Intn(1000000)))
	if err != nil {
		return nil, err
	}
	return &cfgCase{Kind: "gen_" + bftkit.ShapeNames[shape], K: k, L: l, C: uint32(c), Stakes: stakes, Indices: idx, Cfg: cfg, distinct: distinctCount(cfg.PosTable)}, nil
}

func genVrf(rng *vf.RNG, j int) vconfig.VRFValue {
	var v vconfig.VRFValue
	switch {
	case j == 0: // all zero
	case j == 1:
		for i := range v {
			v[i] = 0xff
		}
	case j == 2: // the way the server derives it: hashed seed of a block
		blk := mkBlock(uint32(rng.Intn(1<<30)), uint32(rng.Intn(64)), rng.Bytes(64), rng)
		v = vbft.VerifParticipantSelectionSeed(blk)
	case j%16 == 3: // sparse
		v[rng.Intn(64)] = byte(rng.Intn(256))
	default:
		copy(v[:], rng.Bytes(64))
	}
	return v
}

// mkBlock builds a vbft.Block whose (height, proposer, vrf) are given and whose other
// fields are filled from rng (they must not influence the selection seed).
func mkBlock(height, proposer uint32, vrf []byte, rng *vf.RNG) *vbft.Block {
	h := &types.Header{Height: height, Timestamp: uint32(rng.U64()), ConsensusData: rng.U64()}
	copy(h.PrevBlockHash[:], rng.Bytes(32))
	copy(h.TransactionsRoot[:], rng.Bytes(32))
	copy(h.BlockRoot[:], rng.Bytes(32))
	b := &vbft.Block{Block: &types.Block{Header: h}, Info: &vconfig.VbftBlockInfo{Proposer: proposer, VrfValue: vrf, VrfProof: rng.Bytes(rng.Intn(80)), LastConfigBlockNum: uint32(rng.U64())}}
	copy(b.PrevExecMerkleRoot[:], rng.Bytes(32))
	return b
}

type childCase struct {
	Cfg *vconfig.ChainConfig `json:"cfg"`
	Vrf []byte               `json:"vrf"`
}

func digestSel(s selection) string {
	h := sha256.Sum256([]byte(fmt.Sprint(s.P, "|", s.E, "|", s.C)))
	return fmt.Sprintf("%x", h[:12])
}

// child mode: recompute the selections of a case file in a fresh process.
func childMain(path string) {
	b, err := os.ReadFile(path)
	if err != nil {
		fmt.Fprintln(os.Stderr, err)
		os.Exit(3)
	}
	var cases []childCase
	if err := json.Unmarshal(b, &cases); err != nil {
		fmt.Fprintln(os.Stderr, err)
		os.Exit(3)
	}
	out := make([]string, len(cases))
	for i, c := range cases {
		var v vconfig.VRFValue
		copy(v[:], c.Vrf)
		s, p := sel(v, c.Cfg)
		if p != nil {
			out[i] = "panic"
		} else {
			out[i] = digestSel(s)
		}
	}
	ob, _ := json.Marshal(out)
	os.WriteFile(path+".out", ob, 0o644)
}

func main() {
	if p := os.Getenv("VERIF_C29_CHILD"); p != "" {
		childMain(p)
		return
	}
	debug.SetGCPercent(400) // allocation-heavy code under test (JSON hashing); fewer GC cycles
	r := vf.NewRun("C29", "exploration",
		"chain configs from the real GenesisChainConfig (N 4..40, C 1..(N-1)/3, K=N, L=K*2..16, 8 stake shapes, contiguous/scattered peer indices) plus hand-made valid tables (single peer, two peers, exactly 3C distinct, very short, >512 entries); per config a list of VRF seeds (zero, all-ones, block-derived, sparse, random); distinct by (config digest, vrf); plus rounds started on a real Server (startNewRound) around a block carrying a NewChainConfig: old view / successor view pairs from the real GenesisChainConfig (7 kinds of change: view only, stakes, C, peers replaced, grown, shrunk, turnover), 4-5 (node configuration, previous block) stages per pair and seed, distinct by (stage, both config digests, height, vrf)")
	rng := vf.NewRNG(vf.Seed())
	nCfg := vf.N(500, 25000)
	nVrf := vf.N(40, 80)
	scratch := vf.Scratch("c29")

	type childRec struct {
		cc  childCase
		dig string
	}
	var childCases []childRec
	childEvery := nCfg / 200
	if childEvery == 0 {
		childEvery = 1
	}
	results := make([][]childRec, nCfg)

	vf.Parallel(nCfg, runtime.NumCPU(), func(i int) {
		sub := rng.Sub(uint64(i))
		cc, err := genConfig(sub, i)
		if err != nil {
			r.Violation("genesis-config-error", err.Error(), map[string]interface{}{"case": i})
			return
		}
		cfg := cc.Cfg
		r.Count("cfg_" + cc.Kind)
		c := int(cfg.C)
		if cc.distinct <= 3*c {
			r.Count("cfg_table_distinct_le_3C")
		}
		if len(cfg.PosTable) > 512 {
			r.Count("cfg_table_longer_than_512")
		}
		member := map[uint32]bool{}
		for _, p := range cfg.Peers {
			member[p.Index] = true
		}
		cd := bftkit.CfgDigest(cfg)
		if i < 3 {
			r.Sample(map[string]interface{}{"kind": cc.Kind, "N": cfg.N, "C": cfg.C, "stakes": cc.Stakes, "indices": cc.Indices, "posTableLen": len(cfg.PosTable), "posTableHead": head(cfg.PosTable, 24)})
		}
		for j := 0; j < nVrf; j++ {
			vs := sub.Sub(uint64(1000 + j))
			vrf := genVrf(vs, j)
			s, pn := sel(vrf, cfg)
			r.Eval(cd + "/" + vf.Hex(vrf[:10]))
			wit := func() map[string]interface{} {
				return map[string]interface{}{"kind": cc.Kind, "cfg": cfg, "vrf": vf.Hex(vrf[:]), "proposers": s.P, "endorsers": s.E, "committers": s.C}
			}
			shape := cc.Kind
			if cc.distinct <= 3*c {
				shape += ":fill-from-peers"
			}
			if pn != nil {
				r.Violation("panic:"+shape, fmt.Sprint(pn), wit())
				continue
			}
			if len(s.P) != c+1 || distinctCount(s.P) != c+1 {
				r.Violation("proposers-not-C+1:"+shape, fmt.Sprintf("%d proposers (%d distinct), want %d", len(s.P), distinctCount(s.P), c+1), wit())
			}
			de, dc := distinctCount(s.E), distinctCount(s.C)
			if de < 2*c+1 {
				r.Violation("endorsers-fewer-than-2C+1-distinct:"+shape, fmt.Sprintf("%d distinct of %d, want >= %d", de, len(s.E), 2*c+1), wit())
			}
			if dc < 2*c+1 {
				r.Violation("committers-fewer-than-2C+1-distinct:"+shape, fmt.Sprintf("%d distinct of %d, want >= %d", dc, len(s.C), 2*c+1), wit())
			}
			for _, l := range [][]uint32{s.P, s.E, s.C} {
				for _, id := range l {
					if !member[id] {
						r.Violation("non-member-selected:"+shape, fmt.Sprintf("id %d not in config", id), wit())
					}
				}
			}
			// which fill branches the real code took (inferred from role overlap)
			if de != len(s.E) || dc != len(s.C) {
				r.Count("obs_duplicate_entries_in_a_role_list") // allowed by the statement as long as distinct >= 2C+1
			}
			if overlaps(s.E, s.P) { // the endorser fill starts with the last proposer
				r.Count("branch_endorser_fill")
			}
			if overlaps(s.C, s.P) { // the committer fill starts with the 2nd proposer
				r.Count("branch_committer_fill")
			}
			if !overlaps(s.E, s.P) && !overlaps(s.E, s.C) && !overlaps(s.C, s.P) {
				r.Count("branch_disjoint_roles")
			}
			// determinism in-process: twice always, 100 times on a sub-sample
			reps := 1
			if j%20 == 5 {
				reps = 100
				r.Count("determinism_100_reps")
			}
			for q := 0; q < reps; q++ {
				s2, pn2 := sel(vrf, cfg)
				if pn2 != nil || !reflect.DeepEqual(s, s2) {
					r.Violation("nondeterministic:"+shape, "same (vrf, config) gave a different selection", map[string]interface{}{"first": s, "second": s2, "w": wit()})
					break
				}
			}
			// a structurally equal but separately allocated config must give the same answer
			if j == 4 {
				var cp vconfig.ChainConfig
				b, _ := json.Marshal(cfg)
				json.Unmarshal(b, &cp)
				s3, _ := sel(vrf, &cp)
				r.Count("determinism_config_copy")
				if !reflect.DeepEqual(s, s3) {
					r.Violation("nondeterministic:config-copy:"+shape, "equal config (JSON round trip) gave a different selection", wit())
				}
			}
			if i%childEvery == 0 && j < 6 {
				results[i] = append(results[i], childRec{childCase{cfg, append([]byte{}, vrf[:]...)}, digestSel(s)})
			}
		}
	})
	for _, l := range results {
		childCases = append(childCases, l...)
	}

	// across processes
	nChild := vf.N(2, 6)
	for k := 0; k < nChild && len(childCases) > 0; k++ {
		path := filepath.Join(scratch, fmt.Sprintf("cases-%d.json", k))
		in := make([]childCase, len(childCases))
		for i := range childCases {
			in[i] = childCases[i].cc
		}
		b, _ := json.Marshal(in)
		os.WriteFile(path, b, 0o644)
		cmd := exec.Command(os.Args[0])
		cmd.Env = append(os.Environ(), "VERIF_C29_CHILD="+path)
		if out, err := cmd.CombinedOutput(); err != nil {
			r.Inconclusive(fmt.Sprintf("child process failed: %v %s", err, string(out)))
			break
		}
		ob, err := os.ReadFile(path + ".out")
		var got []string
		if err != nil || json.Unmarshal(ob, &got) != nil || len(got) != len(childCases) {
			r.Inconclusive("child output unreadable")
			break
		}
		for i := range got {
			r.Count("determinism_child_process_cases")
			if got[i] != childCases[i].dig {
				r.Violation("nondeterministic:across-processes", "a fresh process computed a different selection", map[string]interface{}{"cfg": childCases[i].cc.Cfg, "vrf": vf.Hex(childCases[i].cc.Vrf), "parent": childCases[i].dig, "child": got[i]})
			}
		}
	}

	// selection seed is a function of (block num, prev proposer, vrf value) only
	nSeed := vf.N(3000, 100000)
	for i := 0; i < nSeed; i++ {
		sub := rng.Sub(uint64(1<<40) + uint64(i))
		height, proposer := uint32(sub.U64()), uint32(sub.Intn(300))
		if sub.Chance(20) {
			height = ^uint32(0) - uint32(sub.Intn(2)) // blockNum+1 wraps: still a function of the triple
		}
		vrfv := sub.Bytes([]int{0, 1, 32, 64, 64, 64, 100}[sub.Intn(7)])
		a := vbft.VerifParticipantSelectionSeed(mkBlock(height, proposer, vrfv, sub))
		b := vbft.VerifParticipantSelectionSeed(mkBlock(height, proposer, append([]byte{}, vrfv...), sub))
		r.Eval(fmt.Sprintf("seed/%d/%d/%s", height, proposer, vf.HexTrunc(vrfv, 8)))
		r.Count("seed_same_triple")
		if a != b {
			r.Violation("seed-depends-on-other-block-fields", "blocks agreeing on (height, proposer, vrf) gave different seeds", map[string]interface{}{"height": height, "proposer": proposer, "vrf": vf.Hex(vrfv)})
		}
		if a.IsNil() {
			r.Count("obs_seed_nil")
		}
		// sensitivity is observed, not demanded (the statement only says "function of")
		var c vconfig.VRFValue
		switch i % 3 {
		case 0:
			c = vbft.VerifParticipantSelectionSeed(mkBlock(height+1, proposer, vrfv, sub))
		case 1:
			c = vbft.VerifParticipantSelectionSeed(mkBlock(height, proposer+1, vrfv, sub))
		default:
			c = vbft.VerifParticipantSelectionSeed(mkBlock(height, proposer, append(append([]byte{}, vrfv...), 1), sub))
		}
		if c != a {
			r.Count("obs_seed_changes_with_triple")
		}
	}

	// rounds around a block that announces a new chain configuration (round.go)
	runConfigChange(r, rng)

	for _, k := range []string{"cfg_gen_equal", "cfg_gen_zero", "cfg_gen_dominant", "cfg_gen_random", "cfg_gen_fewlarge", "cfg_gen_ties", "cfg_gen_roundedge", "cfg_gen_max",
		"cfg_hand_single", "cfg_hand_two", "cfg_hand_3c", "cfg_hand_short", "cfg_hand_long"} {
		r.Require(k, 1)
	}
	r.Require("cfg_table_distinct_le_3C", 5)
	r.Require("cfg_table_longer_than_512", 1)
	r.Require("branch_endorser_fill", 100)
	r.Require("branch_committer_fill", 100)
	r.Require("branch_disjoint_roles", 100)
	r.Require("determinism_100_reps", 100)
	r.Require("determinism_config_copy", 100)
	r.Require("determinism_child_process_cases", 100)
	r.Require("seed_same_triple", 1000)
	r.Require("obs_seed_changes_with_triple", 1000)
	os.RemoveAll(scratch)
	r.Assume("valid configuration = N >= 3C+1, C >= 1, len(Peers) = N with distinct indices, non-empty PosTable over peer indices; duplicate entries inside a role list are tolerated as long as the distinct count reaches 2C+1 (the statement speaks of distinct members)")
	r.Finish()
}

func head(t []uint32, n int) []uint32 {
	if len(t) < n {
		return t
	}
	return t[:n]
}
