// C29, round level: the participant sets a real Server builds when a round starts
// (startNewRound -> updateParticipantConfig) around a block that carries a NewChainConfig.
//
// The configuration in force for round h+1 is the one the sealed block h announces
// (Info.NewChainConfig), otherwise the configuration of the current view.  The server learns
// about "block h persisted" asynchronously (its own copy of the chain configuration is replaced
// only then), so a round after a config-change block can start before or after that
// notification: both nodes must select the same, well-formed sets over the NEW configuration.
package main

import (
	"encoding/json"
	"fmt"
	"reflect"
	"runtime"

	"github.com/ontio/ontology/account"
	"github.com/ontio/ontology/common"
	vbft "github.com/ontio/ontology/consensus/vbft"
	vconfig "github.com/ontio/ontology/consensus/vbft/config"
	"github.com/ontio/ontology/core/types"
	"verifharness/lib/bftkit"
	"verifharness/lib/vf"
)

var changeKinds = []string{"view_only", "stakes", "c_changed", "replace", "grow", "shrink", "turnover"}

type viewCase struct {
	Kind     string
	Old, New *vconfig.ChainConfig
	keyOf    map[uint32]int // peer index -> bftkit key number (both views)
}

func maxC(n int) int { return (n - 1) / 3 }

func pickC(rng *vf.RNG, n int) int {
	if rng.Chance(50) {
		return maxC(n)
	}
	return rng.Range(1, maxC(n))
}

func buildView(rng *vf.RNG, keyNos []int, idx []uint32, c int, view uint32) (*vconfig.ChainConfig, error) {
	n := len(keyNos)
	mult := rng.Range(2, 12)
	k := uint32(n)
	stakes := bftkit.Stakes(rng, n, rng.Intn(bftkit.NShapes), uint64(mult-1)*uint64(k))
	var txh common.Uint256
	copy(txh[:], rng.Bytes(32))
	cfg, err := bftkit.Genesis(k, k*uint32(mult), uint32(c), bftkit.PeerSet(keyNos, idx, stakes), txh, uint32(rng.Intn(1000000)))
	if err != nil {
		return nil, err
	}
	cfg.View = view
	return cfg, nil
}

// genViewCase: an old view and its successor, both from the real GenesisChainConfig.  Peer
// indices stay attached to their keys across views; joining peers get fresh, larger indices
// (what governance does).
func genViewCase(rng *vf.RNG, i int) (*viewCase, error) {
	kind := changeKinds[i%len(changeKinds)]
	n := rng.Range(4, 16)
	if kind == "c_changed" || kind == "shrink" {
		n = rng.Range(7, 16) // two legal values of C / room to lose peers
	}
	keys := rng.Perm(64)
	oldKeys := append([]int{}, keys[:n]...)
	spare := keys[n:]
	oldIdx := bftkit.Indices(rng, n, rng.Chance(40))
	top := uint32(0)
	for _, v := range oldIdx {
		if v > top {
			top = v
		}
	}
	join := func(m int) ([]int, []uint32) {
		ks := append([]int{}, spare[:m]...)
		spare = spare[m:]
		ix := make([]uint32, m)
		for j := range ix {
			top += uint32(1 + rng.Intn(3))
			ix[j] = top
		}
		return ks, ix
	}
	cOld := pickC(rng, n)
	view := uint32(1 + rng.Intn(50))
	old, err := buildView(rng.Sub(1), oldKeys, oldIdx, cOld, view)
	if err != nil {
		return nil, err
	}
	newKeys, newIdx, cNew := append([]int{}, oldKeys...), append([]uint32{}, oldIdx...), cOld
	sub := rng.Sub(2)
	switch kind {
	case "view_only": // same stake set, same parameters: only the view number moves
		sub = rng.Sub(1)
	case "stakes": // same peers and C, another stake distribution (another position table)
	case "c_changed":
		for cNew == cOld {
			cNew = rng.Range(1, maxC(n))
		}
	case "replace": // some peers leave, as many join: N and C stay
		m := rng.Range(1, n-1)
		keep := rng.Perm(n)[:n-m]
		newKeys, newIdx = nil, nil
		for _, p := range keep {
			newKeys, newIdx = append(newKeys, oldKeys[p]), append(newIdx, oldIdx[p])
		}
		jk, ji := join(m)
		newKeys, newIdx = append(newKeys, jk...), append(newIdx, ji...)
	case "grow":
		jk, ji := join(rng.Range(1, 9))
		newKeys, newIdx = append(newKeys, jk...), append(newIdx, ji...)
		cNew = pickC(rng, len(newKeys))
	case "shrink":
		m := rng.Range(4, n-1)
		keep := rng.Perm(n)[:m]
		newKeys, newIdx = nil, nil
		for _, p := range keep {
			newKeys, newIdx = append(newKeys, oldKeys[p]), append(newIdx, oldIdx[p])
		}
		cNew = pickC(rng, m)
	default: // turnover: a single peer survives, everything else (N, C, stakes) is new
		p := rng.Intn(n)
		newKeys, newIdx = []int{oldKeys[p]}, []uint32{oldIdx[p]}
		jk, ji := join(rng.Range(3, 15))
		newKeys, newIdx = append(newKeys, jk...), append(newIdx, ji...)
		cNew = pickC(rng, len(newKeys))
	}
	nw, err := buildView(sub, newKeys, newIdx, cNew, view+1)
	if err != nil {
		return nil, err
	}
	vc := &viewCase{Kind: kind, Old: old, New: nw, keyOf: map[uint32]int{}}
	for j, ix := range oldIdx {
		vc.keyOf[ix] = oldKeys[j]
	}
	for j, ix := range newIdx {
		vc.keyOf[ix] = newKeys[j]
	}
	return vc, nil
}

// sealedBlock is a sealed consensus block as the block pool holds it: header with the
// consensus payload, decoded block info.
func sealedBlock(rng *vf.RNG, height, proposer uint32, vrf []byte, lastCfg uint32, newCfg *vconfig.ChainConfig) *vbft.Block {
	info := &vconfig.VbftBlockInfo{Proposer: proposer, VrfValue: vrf, VrfProof: rng.Bytes(64), LastConfigBlockNum: lastCfg, NewChainConfig: newCfg}
	payload, _ := json.Marshal(info)
	h := &types.Header{Height: height, Timestamp: 1600000000 + height, ConsensusData: rng.U64(), ConsensusPayload: payload,
		TransactionsRoot: common.ComputeMerkleRoot(nil), SigData: [][]byte{{}}}
	copy(h.PrevBlockHash[:], rng.Bytes(32))
	copy(h.BlockRoot[:], rng.Bytes(32))
	return &vbft.Block{Block: &types.Block{Header: h}, Info: info}
}

// roundSelection starts the round after `prev` on a real Server whose own chain configuration
// is `own`, and returns the participant sets the server works with.
func roundSelection(self uint32, acc *account.Account, own *vconfig.ChainConfig, prev *vbft.Block, root common.Uint256) (s selection, err error, panicked interface{}) {
	panicked = vf.Catch(func() {
		n, e := vbft.NewVerifSimNode(self, acc, own, prev, root)
		if e != nil {
			err = e
			return
		}
		defer n.Close()
		if e := n.Start(); e != nil {
			err = e
			return
		}
		p, en, c := n.Participants()
		s = selection{append([]uint32{}, p...), append([]uint32{}, en...), append([]uint32{}, c...)}
	})
	return
}

func memberSet(cfg *vconfig.ChainConfig) map[uint32]bool {
	m := map[uint32]bool{}
	for _, p := range cfg.Peers {
		m[p.Index] = true
	}
	return m
}

func sameMembers(a, b *vconfig.ChainConfig) bool {
	return reflect.DeepEqual(memberSet(a), memberSet(b))
}

func anyNonMember(s selection, m map[uint32]bool) bool {
	for _, l := range [][]uint32{s.P, s.E, s.C} {
		for _, id := range l {
			if !m[id] {
				return true
			}
		}
	}
	return false
}

type stage struct {
	name    string
	own     *vconfig.ChainConfig // the server's own copy of the chain configuration
	prev    *vbft.Block          // sealed block the round builds on
	inForce *vconfig.ChainConfig // configuration the round must be selected from
	self    uint32
}

func runConfigChange(r *vf.Run, rng *vf.RNG) {
	vbft.VerifSimSetup()
	nCases := vf.N(420, 4000)
	nSeeds := vf.N(3, 4)
	vf.Parallel(nCases, runtime.NumCPU(), func(i int) {
		sub := rng.Sub(uint64(1<<41) + uint64(i))
		vc, err := genViewCase(sub, i)
		if err != nil {
			r.Violation("genesis-config-error:view-change", err.Error(), map[string]interface{}{"case": i})
			return
		}
		r.Count("rnd_change_" + vc.Kind)
		trivial := bftkit.CfgDigest(vc.Old) == bftkit.CfgDigest(vc.New)
		if vc.Old.C != vc.New.C {
			r.Count("rnd_new_view_C_differs")
		}
		if vc.Old.N != vc.New.N {
			r.Count("rnd_new_view_N_differs")
		}
		if !sameMembers(vc.Old, vc.New) {
			r.Count("rnd_new_view_members_differ")
		}
		if !reflect.DeepEqual(vc.Old.PosTable, vc.New.PosTable) {
			r.Count("rnd_new_view_table_differs")
		}
		if i < 2 {
			r.Sample(map[string]interface{}{"family": "round-after-config-block", "change": vc.Kind,
				"old": map[string]interface{}{"view": vc.Old.View, "N": vc.Old.N, "C": vc.Old.C, "members": bftkit.DistinctSorted(peerIdx(vc.Old)), "posTableLen": len(vc.Old.PosTable)},
				"new": map[string]interface{}{"view": vc.New.View, "N": vc.New.N, "C": vc.New.C, "members": bftkit.DistinctSorted(peerIdx(vc.New)), "posTableLen": len(vc.New.PosTable)}})
		}
		newM := memberSet(vc.New)
		var stay, oldOnly []uint32
		for _, p := range vc.Old.Peers {
			if newM[p.Index] {
				stay = append(stay, p.Index)
			} else {
				oldOnly = append(oldOnly, p.Index)
			}
		}
		for q := 0; q < nSeeds; q++ {
			qs := sub.Sub(uint64(100 + q))
			h := uint32(qs.Range(2, 1<<20))
			if qs.Chance(5) {
				h = ^uint32(0) - 3
			}
			vrfOf := func() []byte { return qs.Bytes([]int{32, 64, 64, 64, 80}[qs.Intn(5)]) }
			someOld := func() uint32 { return vc.Old.Peers[qs.Intn(len(vc.Old.Peers))].Index }
			someNew := func() uint32 { return vc.New.Peers[qs.Intn(len(vc.New.Peers))].Index }
			lastOld := uint32(qs.Intn(int(h%1000) + 1))
			blkBefore := sealedBlock(qs, h-1, someOld(), vrfOf(), lastOld, nil) // ordinary block of the old view
			blkChange := sealedBlock(qs, h, someOld(), vrfOf(), h, vc.New)      // announces the new view
			blkAfter := sealedBlock(qs, h+1, someNew(), vrfOf(), h, nil)        // ordinary block of the new view
			var root common.Uint256
			copy(root[:], qs.Bytes(32))
			// the observing node: a peer of both views; before the persist notification also one that leaves
			self := stay[qs.Intn(len(stay))]
			stages := []stage{
				{"old-view-round", vc.Old, blkBefore, vc.Old, self},
				{"after-config-block:persist-pending", vc.Old, blkChange, vc.New, self},
				{"after-config-block:persist-done", vc.New, blkChange, vc.New, self},
				{"new-view-round", vc.New, blkAfter, vc.New, self},
			}
			if len(oldOnly) > 0 {
				stages = append(stages, stage{"after-config-block:persist-pending:leaving-node", vc.Old, blkChange, vc.New, oldOnly[qs.Intn(len(oldOnly))]})
				r.Count("rnd_observer_leaves_the_configuration")
			}
			got := map[string]selection{}
			for _, st := range stages {
				fp := ""
				if !trivial {
					fp = fmt.Sprintf("round/%s/%s/%s/%d/%s", st.name, bftkit.CfgDigest(vc.Old), bftkit.CfgDigest(vc.New), st.prev.Block.Header.Height, vf.HexTrunc(st.prev.Info.VrfValue, 8))
				}
				r.Eval(fp)
				r.Count("rnd_stage_" + st.name)
				s, err, pn := roundSelection(st.self, bftkit.Key(vc.keyOf[st.self]), st.own, st.prev, root)
				seed := vbft.VerifParticipantSelectionSeed(st.prev)
				want, _ := sel(seed, st.inForce)
				shape := st.name + ":" + vc.Kind
				wit := func() map[string]interface{} {
					return map[string]interface{}{"change": vc.Kind, "stage": st.name, "node": st.self, "node_own_config": st.own, "config_in_force": st.inForce,
						"prev_block": map[string]interface{}{"height": st.prev.Block.Header.Height, "proposer": st.prev.Info.Proposer, "vrf": vf.Hex(st.prev.Info.VrfValue),
							"lastConfigBlockNum": st.prev.Info.LastConfigBlockNum, "newChainConfig": st.prev.Info.NewChainConfig},
						"seed": vf.Hex(seed[:]), "proposers": s.P, "endorsers": s.E, "committers": s.C,
						"selection_for_seed_and_config_in_force": want}
				}
				if pn != nil {
					r.Violation("round:panic:"+shape, fmt.Sprint(pn), wit())
					continue
				}
				if err != nil {
					r.Violation("round:no-participant-sets:"+shape, "the round did not start: "+err.Error(), wit())
					continue
				}
				got[st.name] = s
				c := int(st.inForce.C)
				if len(s.P) != c+1 || distinctCount(s.P) != c+1 {
					r.Violation("round:proposers-not-C+1:"+shape, fmt.Sprintf("%d proposers (%d distinct), configuration in force has C=%d", len(s.P), distinctCount(s.P), c), wit())
				}
				if de := distinctCount(s.E); de < 2*c+1 {
					r.Violation("round:endorsers-fewer-than-2C+1-distinct:"+shape, fmt.Sprintf("%d distinct of %d, want >= %d", de, len(s.E), 2*c+1), wit())
				}
				if dc := distinctCount(s.C); dc < 2*c+1 {
					r.Violation("round:committers-fewer-than-2C+1-distinct:"+shape, fmt.Sprintf("%d distinct of %d, want >= %d", dc, len(s.C), 2*c+1), wit())
				}
				if anyNonMember(s, memberSet(st.inForce)) {
					r.Violation("round:non-member-selected:"+shape, "a participant is not a peer of the configuration in force", wit())
				}
				if !reflect.DeepEqual(s, want) {
					r.Violation("round:not-the-selection-for-seed-and-config:"+shape, "the round's sets differ from the selection for (seed of the previous block, configuration in force)", wit())
				}
			}
			// the same (seed, configuration) on nodes that differ only in what they were already told
			a, okA := got["after-config-block:persist-pending"]
			for _, other := range []string{"after-config-block:persist-done", "after-config-block:persist-pending:leaving-node"} {
				if b, ok := got[other]; ok && okA {
					r.Count("rnd_nodes_compared_across_persist_notification")
					if !reflect.DeepEqual(a, b) {
						r.Violation("round:nodes-disagree:"+vc.Kind, "two nodes starting the round after the same config-change block selected different sets", map[string]interface{}{
							"change": vc.Kind, "old": vc.Old, "new": vc.New, "block_height": h, "vrf": vf.Hex(blkChange.Info.VrfValue), "persist-pending": a, other: b})
					}
				}
			}
			// how telling the case is: what a selection over the superseded configuration would have been
			stale, pn := sel(vbft.VerifParticipantSelectionSeed(blkChange), vc.Old)
			fresh, _ := sel(vbft.VerifParticipantSelectionSeed(blkChange), vc.New)
			if pn == nil {
				if !reflect.DeepEqual(stale, fresh) {
					r.Count("rnd_superseded_config_would_select_differently")
				}
				if anyNonMember(stale, newM) {
					r.Count("rnd_superseded_config_would_select_a_departed_peer")
				}
				if len(stale.P) != len(fresh.P) {
					r.Count("rnd_superseded_config_would_give_another_proposer_count")
				}
			}
		}
	})
	for _, k := range changeKinds {
		r.Require("rnd_change_"+k, 10)
	}
	for _, k := range []string{"old-view-round", "after-config-block:persist-pending", "after-config-block:persist-done", "new-view-round", "after-config-block:persist-pending:leaving-node"} {
		r.Require("rnd_stage_"+k, 100)
	}
	r.Require("rnd_new_view_C_differs", 30)
	r.Require("rnd_new_view_N_differs", 30)
	r.Require("rnd_new_view_members_differ", 30)
	r.Require("rnd_new_view_table_differs", 100)
	r.Require("rnd_nodes_compared_across_persist_notification", 300)
	r.Require("rnd_superseded_config_would_select_differently", 300)
	r.Require("rnd_superseded_config_would_select_a_departed_peer", 30)
	r.Require("rnd_superseded_config_would_give_another_proposer_count", 30)
	r.Assume("the configuration in force for the round after block h is the NewChainConfig block h carries, otherwise the configuration of the current view; a server that has and one that has not yet handled the 'block h persisted' notification are modelled by the server's own configuration copy (what updateChainConfig replaces) being the new resp. the old view's")
}

func peerIdx(cfg *vconfig.ChainConfig) []uint32 {
	out := make([]uint32, 0, len(cfg.Peers))
	for _, p := range cfg.Peers {
		out = append(out, p.Index)
	}
	return out
}
