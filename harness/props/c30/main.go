// C30 — Chain configuration is a deterministic function of the stake set.
// Metamorphic monitor on the real vconfig.GenesisChainConfig: the same peer set under
// many input orders (explicit permutations, real Go map iteration, and the production
// peer-list source vbft.GetPeersConfig reading a governance peer pool, in this process and
// in fresh child processes) must give one configuration, whose content is checked against
// the statement (top-K by stake then key, >=1 slot each, slot counts non-increasing).
package main

import (
	"bytes"
	"encoding/json"
	"fmt"
	"os"
	"os/exec"
	"path/filepath"
	"runtime"
	"runtime/debug"
	"sort"

	"github.com/ontio/ontology/common"
	"github.com/ontio/ontology/common/config"
	vbft "github.com/ontio/ontology/consensus/vbft"
	vconfig "github.com/ontio/ontology/consensus/vbft/config"
	"github.com/ontio/ontology/core/states"
	scommon "github.com/ontio/ontology/core/store/common"
	"github.com/ontio/ontology/core/store/overlaydb"
	gov "github.com/ontio/ontology/smartcontract/service/native/governance"
	nutils "github.com/ontio/ontology/smartcontract/service/native/utils"
	"verifharness/lib/bftkit"
	"verifharness/lib/vf"
)

const keyPool = 96

type peerIn struct {
	Index  uint32 `json:"index"`
	KeyNo  int    `json:"keyNo"`
	Stake  uint64 `json:"stake"`
	Split  uint64 `json:"split"` // part of the stake held as TotalPos in the governance pool item
	Status uint8  `json:"status"`
}

type setCase struct {
	Shape  string         `json:"shape"`
	K      uint32         `json:"K"`
	L      uint32         `json:"L"`
	C      uint32         `json:"C"`
	TxHash common.Uint256 `json:"txhash"`
	Height uint32         `json:"height"`
	Peers  []peerIn       `json:"peers"`
}

func (sc *setCase) infos(order []int) []*config.VBFTPeerStakeInfo {
	out := make([]*config.VBFTPeerStakeInfo, len(order))
	for i, o := range order {
		p := sc.Peers[o]
		out[i] = &config.VBFTPeerStakeInfo{Index: p.Index, PeerPubkey: bftkit.KeyID(p.KeyNo), InitPos: p.Stake}
	}
	return out
}

func (sc *setCase) conf() *config.VBFTConfig {
	return &config.VBFTConfig{N: sc.K, C: sc.C, K: sc.K, L: sc.L, BlockMsgDelay: 10000, HashMsgDelay: 10000, PeerHandshakeTimeout: 10, MaxBlockChangeView: 1000}
}

func (sc *setCase) run(list []*config.VBFTPeerStakeInfo) (cfg *vconfig.ChainConfig, err error, pn interface{}) {
	pn = vf.Catch(func() { cfg, err = vconfig.GenesisChainConfig(sc.conf(), list, sc.TxHash, sc.Height) })
	return
}

// govMemDB stores a governance view and the peer pool of the case in an overlay MemDB
// exactly where the production readers (vbft.GetGovernanceView / GetPeersConfig) look.
func (sc *setCase) govMemDB() (*overlaydb.MemDB, error) {
	memdb := overlaydb.NewMemDB(16*1024, 16)
	put := func(key, val []byte) {
		raw := append([]byte{byte(scommon.ST_STORAGE)}, nutils.GovernanceContractAddress[:]...)
		raw = append(raw, key...)
		memdb.Put(raw, states.GenRawStorageItem(val))
	}
	view := &gov.GovernanceView{View: 3, Height: sc.Height, TxHash: sc.TxHash}
	buf := new(bytes.Buffer)
	if err := view.Serialize(buf); err != nil {
		return nil, err
	}
	put([]byte(gov.GOVERNANCE_VIEW), buf.Bytes())
	pm := &gov.PeerPoolMap{PeerPoolMap: map[string]*gov.PeerPoolItem{}}
	for _, p := range sc.Peers {
		id := bftkit.KeyID(p.KeyNo)
		pm.PeerPoolMap[id] = &gov.PeerPoolItem{Index: p.Index, PeerPubkey: id, Status: gov.Status(p.Status), InitPos: p.Stake - p.Split, TotalPos: p.Split}
	}
	sink := common.NewZeroCopySink(nil)
	if err := pm.Serialization(sink); err != nil {
		return nil, err
	}
	put(append([]byte(gov.PEER_POOL), gov.GetUint32Bytes(3)...), sink.Bytes())
	return memdb, nil
}

// viaGetPeersConfig: the production path (peer list in Go map iteration order).
func (sc *setCase) viaGetPeersConfig() (digest string, order []uint32, err error) {
	memdb, err := sc.govMemDB()
	if err != nil {
		return "", nil, err
	}
	var list []*config.VBFTPeerStakeInfo
	if pn := vf.Catch(func() { list, err = vbft.GetPeersConfig(memdb) }); pn != nil {
		return "", nil, fmt.Errorf("panic in GetPeersConfig: %v", pn)
	}
	if err != nil {
		return "", nil, err
	}
	for _, p := range list {
		order = append(order, p.Index)
	}
	cfg, err, pn := sc.run(list)
	if pn != nil {
		return "", order, fmt.Errorf("panic: %v", pn)
	}
	if err != nil {
		return "", order, err
	}
	return bftkit.CfgDigest(cfg), order, nil
}

func genCase(rng *vf.RNG, i int) *setCase {
	n := rng.Range(4, 60)
	if rng.Chance(30) {
		n = rng.Range(4, 12)
	}
	k := n
	if rng.Chance(50) {
		k = rng.Range(4, n)
	}
	maxC := (k - 1) / 3
	c := rng.Range(1, maxC)
	mult := rng.Range(2, 16)
	shape := i % bftkit.NShapes
	stakes := bftkit.Stakes(rng, n, shape, uint64(mult-1)*uint64(k))
	idx := bftkit.Indices(rng, n, rng.Chance(40))
	keys := rng.Perm(keyPool)[:n]
	sc := &setCase{Shape: bftkit.ShapeNames[shape], K: uint32(k), L: uint32(k * mult), C: uint32(c), Height: uint32(rng.Intn(5000000))}
	copy(sc.TxHash[:], rng.Bytes(32))
	for j := 0; j < n; j++ {
		p := peerIn{Index: idx[j], KeyNo: keys[j], Stake: stakes[j], Status: uint8(gov.ConsensusStatus)}
		if rng.Bool() {
			p.Status = uint8(gov.CandidateStatus)
		}
		if p.Stake > 0 && rng.Bool() {
			p.Split = rng.U64() % (p.Stake + 1)
		}
		sc.Peers = append(sc.Peers, p)
	}
	return sc
}

type orderSpec struct {
	kind  string
	order []int
}

func orders(rng *vf.RNG, sc *setCase) []orderSpec {
	n := len(sc.Peers)
	id := make([]int, n)
	for i := range id {
		id[i] = i
	}
	rev := make([]int, n)
	for i := range rev {
		rev[i] = n - 1 - i
	}
	by := func(less func(a, b peerIn) bool) []int {
		o := append([]int{}, id...)
		sort.SliceStable(o, func(x, y int) bool { return less(sc.Peers[o[x]], sc.Peers[o[y]]) })
		return o
	}
	out := []orderSpec{
		{"reverse", rev},
		{"stake-asc", by(func(a, b peerIn) bool { return a.Stake < b.Stake })},
		{"stake-desc-key-asc", by(func(a, b peerIn) bool {
			if a.Stake != b.Stake {
				return a.Stake > b.Stake
			}
			return bftkit.KeyID(a.KeyNo) < bftkit.KeyID(b.KeyNo)
		})},
		{"key-asc", by(func(a, b peerIn) bool { return bftkit.KeyID(a.KeyNo) < bftkit.KeyID(b.KeyNo) })},
		{"index-asc", by(func(a, b peerIn) bool { return a.Index < b.Index })},
		{"rotate", append(append([]int{}, id[n/2:]...), id[:n/2]...)},
	}
	// adjacent swap of two equal-stake peers (the case an unstable / partial order trips on)
	for a := 0; a+1 < n; a++ {
		if sc.Peers[a].Stake == sc.Peers[a+1].Stake {
			o := append([]int{}, id...)
			o[a], o[a+1] = o[a+1], o[a]
			out = append(out, orderSpec{"swap-equal-stake", o})
			break
		}
	}
	// real Go map iteration orders
	m := map[string]int{}
	for i, p := range sc.Peers {
		m[bftkit.KeyID(p.KeyNo)] = i
	}
	for q := 0; q < 4; q++ {
		var o []int
		for _, v := range m {
			o = append(o, v)
		}
		out = append(out, orderSpec{"go-map", o})
	}
	for len(out) < 20 {
		out = append(out, orderSpec{"random", rng.Perm(n)})
	}
	return out
}

// child mode: for every case of the file, derive the configuration through the
// production peer-list source in this fresh process.
func childMain(path string) {
	b, err := os.ReadFile(path)
	if err != nil {
		os.Exit(3)
	}
	var cases []*setCase
	if json.Unmarshal(b, &cases) != nil {
		os.Exit(3)
	}
	type res struct {
		Digest string   `json:"d"`
		Order  []uint32 `json:"o"`
		Err    string   `json:"e,omitempty"`
	}
	out := make([]res, len(cases))
	for i, sc := range cases {
		d, o, err := sc.viaGetPeersConfig()
		out[i] = res{Digest: d, Order: o}
		if err != nil {
			out[i].Err = err.Error()
		}
	}
	ob, _ := json.Marshal(out)
	os.WriteFile(path+".out", ob, 0o644)
}

func main() {
	if p := os.Getenv("VERIF_C30_CHILD"); p != "" {
		childMain(p)
		return
	}
	debug.SetGCPercent(400) // allocation-heavy code under test (JSON hashing); fewer GC cycles
	r := vf.NewRun("C30", "exploration",
		"peer sets of 4..60 peers (8 stake shapes cycled: equal, zero, dominant, random, few-large, ties, float-rounding edges, total = ONT supply), K in 4..n, C in 1..(K-1)/3, L=K*2..16, contiguous/scattered indices; each set under 20 input orders + the production GetPeersConfig map-iteration path; distinct by (set digest, order kind, order)")
	rng := vf.NewRNG(vf.Seed())
	nSets := vf.N(5000, 200000)
	nChildProcs := vf.N(3, 50)
	scratch := vf.Scratch("c30")
	childEvery := nSets / 400
	if childEvery < 1 {
		childEvery = 1
	}
	type childRec struct {
		sc   *setCase
		base string
	}
	childSlots := make([]*childRec, nSets)

	vf.Parallel(nSets, runtime.NumCPU(), func(i int) {
		sub := rng.Sub(uint64(i))
		sc := genCase(sub, i)
		n := len(sc.Peers)
		id := make([]int, n)
		for j := range id {
			id[j] = j
		}
		shape := sc.Shape
		if int(sc.K) < n {
			shape += ":K<n"
			r.Count("shape_K_less_than_n")
		} else {
			r.Count("shape_K_equals_n")
		}
		r.Count("shape_" + sc.Shape)
		wit := func(extra map[string]interface{}) map[string]interface{} {
			w := map[string]interface{}{"case": sc, "peers_in_given_order": sc.infos(id)}
			for k, v := range extra {
				w[k] = v
			}
			return w
		}
		base, err, pn := sc.run(sc.infos(id))
		if pn != nil {
			r.Eval("")
			r.Violation("panic:"+shape, fmt.Sprint(pn), wit(nil))
			return
		}
		if err != nil {
			r.Eval("")
			r.Violation("error-on-valid-input:"+shape, err.Error(), wit(nil))
			return
		}
		bd := bftkit.CfgDigest(base)
		setFp := fmt.Sprintf("%d/%s", i, bd[:10])
		r.Eval(setFp + "/given")
		if i < 3 {
			r.Sample(map[string]interface{}{"case": sc, "N": base.N, "C": base.C, "peers": base.Peers, "posTableLen": len(base.PosTable)})
		}

		// ---- content oracle (independent of the code's own sort)
		if base.N != sc.K || base.C != sc.C || len(base.Peers) != int(sc.K) {
			r.Violation("wrong-N-or-C:"+shape, fmt.Sprintf("N=%d C=%d len(Peers)=%d want K=%d C=%d", base.N, base.C, len(base.Peers), sc.K, sc.C), wit(map[string]interface{}{"got": base}))
			return
		}
		byIndex := map[uint32]int{}
		for j, p := range sc.Peers {
			byIndex[p.Index] = j
		}
		selected := map[int]bool{}
		var selList []int // positions in sc.Peers, in the order of base.Peers
		okPeers := true
		for _, p := range base.Peers {
			j, ok := byIndex[p.Index]
			if !ok || selected[j] || p.ID != bftkit.KeyID(sc.Peers[j].KeyNo) {
				okPeers = false
				break
			}
			selected[j] = true
			selList = append(selList, j)
		}
		if !okPeers {
			r.Violation("peers-not-a-K-subset-of-the-input:"+shape, "Peers has a duplicate, an unknown index or a wrong node id", wit(map[string]interface{}{"got": base.Peers}))
			return
		}
		// "exactly the K highest-staked": no unselected peer may out-stake a selected one
		// (which of several equal-stake peers at the boundary is taken is not fixed by the statement)
		minSel, maxUnsel, anyUnsel := ^uint64(0), uint64(0), false
		for j, p := range sc.Peers {
			if selected[j] {
				if p.Stake < minSel {
					minSel = p.Stake
				}
			} else {
				anyUnsel = true
				if p.Stake > maxUnsel {
					maxUnsel = p.Stake
				}
			}
		}
		if anyUnsel && maxUnsel > minSel {
			r.Violation("peers-not-the-K-highest-staked:"+shape, fmt.Sprintf("an unselected peer has stake %d, a selected one only %d", maxUnsel, minSel), wit(map[string]interface{}{"got": base.Peers}))
		}
		if anyUnsel && maxUnsel == minSel {
			r.Count("oracle_tie_at_K_boundary")
		}
		// observation only: the order/tie-break DESIGN.md expects (stake desc, pubkey desc)
		exp := append([]int{}, id...)
		sort.SliceStable(exp, func(x, y int) bool {
			a, b := sc.Peers[exp[x]], sc.Peers[exp[y]]
			if a.Stake != b.Stake {
				return a.Stake > b.Stake
			}
			return bftkit.KeyID(a.KeyNo) > bftkit.KeyID(b.KeyNo)
		})
		for j := range selList {
			if selList[j] != exp[j] {
				r.Count("obs_peers_order_differs_from_stake_desc_pubkey_desc")
				break
			}
		}
		cnt := map[uint32]int{}
		for _, v := range base.PosTable {
			cnt[v]++
		}
		for v := range cnt {
			if j, ok := byIndex[v]; !ok || !selected[j] {
				r.Violation("postable-has-unselected-index:"+shape, fmt.Sprintf("index %d", v), wit(map[string]interface{}{"posTable": base.PosTable}))
				break
			}
		}
		byStake := append([]int{}, selList...)
		sort.SliceStable(byStake, func(x, y int) bool { return sc.Peers[byStake[x]].Stake > sc.Peers[byStake[y]].Stake })
		for j, e := range byStake {
			ci := cnt[sc.Peers[e].Index]
			if ci < 1 {
				r.Violation("selected-peer-without-slot:"+shape, fmt.Sprintf("peer index %d (stake %d) has no slot", sc.Peers[e].Index, sc.Peers[e].Stake), wit(map[string]interface{}{"posTable": base.PosTable}))
				break
			}
			if j > 0 {
				prev := sc.Peers[byStake[j-1]]
				cp := cnt[prev.Index]
				if prev.Stake == sc.Peers[e].Stake {
					r.Count("oracle_equal_stake_pair")
					if cp != ci {
						r.Violation("equal-stakes-different-slots:"+shape, fmt.Sprintf("stake %d: %d vs %d slots", prev.Stake, cp, ci), wit(map[string]interface{}{"posTable": base.PosTable}))
						break
					}
				} else {
					if cp < ci {
						r.Violation("slots-increase-as-stake-decreases:"+shape, fmt.Sprintf("stake %d has %d slots but lower stake %d has %d", prev.Stake, cp, sc.Peers[e].Stake, ci), wit(map[string]interface{}{"posTable": base.PosTable}))
						break
					}
					if cp > ci {
						r.Count("oracle_strictly_fewer_slots")
					}
				}
			}
		}

		// ---- order independence
		for _, o := range orders(sub.Sub(77), sc) {
			cfg, err, pn := sc.run(sc.infos(o.order))
			r.Eval(fmt.Sprintf("%s/%s/%v", setFp, o.kind, o.order[:3]))
			r.Count("order_" + o.kind)
			if pn != nil || err != nil {
				r.Violation("order-dependent-failure:"+o.kind+":"+shape, fmt.Sprint(pn, err), wit(map[string]interface{}{"order": o.order}))
				continue
			}
			if d := bftkit.CfgDigest(cfg); d != bd {
				what := "PosTable"
				for j := range cfg.Peers {
					if j >= len(base.Peers) || *cfg.Peers[j] != *base.Peers[j] {
						what = "Peers"
					}
				}
				r.Violation("order-dependent:"+what+":"+o.kind+":"+shape, "a permutation of the same peer set gave a different configuration", wit(map[string]interface{}{"order": o.order, "base": base, "got": cfg}))
			}
		}
		// production source: governance peer pool -> GetPeersConfig (map iteration) -> GenesisChainConfig
		for q := 0; q < 2; q++ {
			d, ord, err := sc.viaGetPeersConfig()
			r.Eval(fmt.Sprintf("%s/getpeersconfig/%v", setFp, head(ord, 3)))
			r.Count("order_GetPeersConfig_in_process")
			if err != nil {
				r.Violation("order-dependent-failure:GetPeersConfig:"+shape, err.Error(), wit(map[string]interface{}{"order_indices": ord}))
			} else if d != bd {
				r.Violation("order-dependent:GetPeersConfig:"+shape, "peer list from the governance pool map gave a different configuration", wit(map[string]interface{}{"order_indices": ord, "base": base}))
			}
		}
		if i%childEvery == 0 {
			childSlots[i] = &childRec{sc, bd}
		}
	})

	var recs []*childRec
	for _, c := range childSlots {
		if c != nil {
			recs = append(recs, c)
		}
	}
	in := make([]*setCase, len(recs))
	for i, c := range recs {
		in[i] = c.sc
	}
	inb, _ := json.Marshal(in)
	seenOrders := map[string]bool{}
	vf.Parallel(nChildProcs, 8, func(k int) {
		path := filepath.Join(scratch, fmt.Sprintf("cases-%d.json", k))
		os.WriteFile(path, inb, 0o644)
		cmd := exec.Command(os.Args[0])
		cmd.Env = append(os.Environ(), "VERIF_C30_CHILD="+path)
		if out, err := cmd.CombinedOutput(); err != nil {
			r.Inconclusive(fmt.Sprintf("child process failed: %v %s", err, string(out)))
			return
		}
		var got []struct {
			Digest string   `json:"d"`
			Order  []uint32 `json:"o"`
			Err    string   `json:"e"`
		}
		ob, err := os.ReadFile(path + ".out")
		if err != nil || json.Unmarshal(ob, &got) != nil || len(got) != len(recs) {
			r.Inconclusive("child output unreadable")
			return
		}
		r.Count("child_processes")
		for i, g := range got {
			r.Eval(fmt.Sprintf("child/%d/%d/%v", k, i, head(g.Order, 4)))
			r.Count("order_GetPeersConfig_child_process")
			if g.Err != "" {
				r.Violation("order-dependent-failure:GetPeersConfig:child", g.Err, map[string]interface{}{"case": recs[i].sc, "order_indices": g.Order})
			} else if g.Digest != recs[i].base {
				r.Violation("order-dependent:GetPeersConfig:child", "a fresh process (its own map iteration order) derived a different configuration", map[string]interface{}{"case": recs[i].sc, "order_indices": g.Order, "base": recs[i].base, "child": g.Digest})
			}
		}
		if len(got) > 0 {
			childOrderMu(func() { seenOrders[fmt.Sprint(got[0].Order)] = true })
		}
	})
	r.Extra("distinct_map_orders_of_first_child_case", len(seenOrders))
	os.RemoveAll(scratch)

	for s := 0; s < bftkit.NShapes; s++ {
		r.Require("shape_"+bftkit.ShapeNames[s], 50)
	}
	r.Require("shape_K_less_than_n", 100)
	r.Require("shape_K_equals_n", 100)
	r.Require("oracle_tie_at_K_boundary", 20)
	r.Require("oracle_equal_stake_pair", 1000)
	r.Require("oracle_strictly_fewer_slots", 1000)
	for _, k := range []string{"reverse", "stake-asc", "stake-desc-key-asc", "key-asc", "index-asc", "rotate", "swap-equal-stake", "go-map", "random", "GetPeersConfig_in_process"} {
		r.Require("order_"+k, 1000)
	}
	r.Require("child_processes", int64(nChildProcs))
	r.Require("order_GetPeersConfig_child_process", 100)
	r.Assume("valid input = distinct public keys and indices, K <= number of peers, K >= 3C+1, C >= 1, L = K*m with m >= 2, stakes <= ONT total supply (10^9) so that the uint64 stake sum and the float->uint64 rank conversion cannot overflow")
	r.Assume("'exactly the K highest-staked peers' is checked at set level (no unselected peer out-stakes a selected one); which of several equal-stake peers at the K boundary is taken, and the order of Peers, are only required to be the same for every input order (the (stake desc, pubkey desc) order expected by DESIGN.md is reported as an observation counter)")
	r.Assume("'slot counts non-increasing in stake' is read as: higher stake => at least as many slots, equal stake => equally many")
	r.Finish()
}

var childMu = make(chan struct{}, 1)

func childOrderMu(f func()) {
	childMu <- struct{}{}
	f()
	<-childMu
}

func head(t []uint32, n int) []uint32 {
	if len(t) < n {
		return t
	}
	return t[:n]
}
