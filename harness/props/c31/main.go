// C31 — Commit is declared only with a verifiable two-thirds signer quorum.
//
// Adversarial-message monitor on a real vbft.BlockPool (verif export VerifPool): message
// sets made of honest commit/endorse messages and of messages a single faulty committer can
// produce (they pass the message-level verification of the server's receive loop, but name
// endorser indices with garbage / replicated / mismatching signatures) are fed through
// newBlockCommitment / newBlockEndorsement; commitDone is read after every message.
//
// Oracle: whenever commitDone reports (p, done) the monitor computes, with
// core/signature.Verify and the peers' real public keys, the set V(p) of peers for which a
// fed message carries a signature over p's proposal (block hash or empty-block hash) that
// verifies under that peer's key, and requires |V(p) ∪ {p}| >= N-(N-1)/3.
package main

import (
	"crypto/sha256"
	"fmt"
	"runtime"
	"sort"
	"strings"
	"sync"

	"github.com/ontio/ontology/common"
	vbft "github.com/ontio/ontology/consensus/vbft"
	vconfig "github.com/ontio/ontology/consensus/vbft/config"
	"github.com/ontio/ontology/core/signature"
	"verifharness/lib/bftkit"
	"verifharness/lib/vf"
)

// ------------------------------------------------------------------ case description

type sigSpec struct {
	Signer uint32 `json:"signed_by_peer,omitempty"` // peer index whose private key signs
	Over   string `json:"over_hash,omitempty"`      // hash tag the signature is made over
	Trunc  int    `json:"truncated_to,omitempty"`
	Fresh  int    `json:"fresh_signature_no,omitempty"` // n > 0: the n-th further, freshly made (ECDSA is randomised) signature of the same key over the same hash
	Raw    string `json:"raw_hex,omitempty"`            // literal bytes when no key signs
	IsRaw  bool   `json:"is_raw,omitempty"`
}

type msgSpec struct {
	Kind      string             `json:"kind"` // commit | endorse
	From      uint32             `json:"from"`
	Proposer  uint32             `json:"proposer"`
	Empty     bool               `json:"for_empty"`
	Hash      string             `json:"declared_hash"`
	Sig       sigSpec            `json:"sig"`
	Endorsers map[uint32]sigSpec `json:"endorsers_sig,omitempty"`
	Role      string             `json:"role"` // honest | faulty:<kind>
}

type caseSpec struct {
	Scenario string    `json:"scenario"`
	N        int       `json:"N"`
	C        int       `json:"C"`
	Indices  []uint32  `json:"peer_indices"` // peer i (position) has key bft-peer-<i> (bftkit.Key)
	Stakes   []uint64  `json:"stakes"`
	L        uint32    `json:"L"`
	TxHash   string    `json:"txhash"`
	Vrf      string    `json:"vrf"`
	Self     uint32    `json:"self_index"`
	Blk      uint32    `json:"block_num"`
	Faulty   []uint32  `json:"faulty_peers"`
	Msgs     []msgSpec `json:"messages_in_delivery_order"`
}

func hashOf(tag string) common.Uint256 {
	return common.Uint256(sha256.Sum256([]byte("c31-hash:" + tag)))
}
func tagH(p uint32, empty bool) string {
	if empty {
		return fmt.Sprintf("EMPTY-BLOCK-OF-PROPOSER-%d", p)
	}
	return fmt.Sprintf("BLOCK-OF-PROPOSER-%d", p)
}

var (
	sigCache sync.Map // "keyNo/tag" -> []byte
	verCache sync.Map // "keyNo/tag/sighex" -> bool
)

func signCached(keyNo int, tag string, fresh int) []byte {
	k := fmt.Sprintf("%d/%s/%d", keyNo, tag, fresh)
	if v, ok := sigCache.Load(k); ok {
		return v.([]byte)
	}
	h := hashOf(tag)
	s, err := signature.Sign(bftkit.Key(keyNo), h[:])
	if err != nil {
		panic(err)
	}
	v, _ := sigCache.LoadOrStore(k, s)
	return v.([]byte)
}

func verifies(keyNo int, tag string, sig []byte) bool {
	k := fmt.Sprintf("%d/%s/%x", keyNo, tag, sig)
	if v, ok := verCache.Load(k); ok {
		return v.(bool)
	}
	h := hashOf(tag)
	ok := false
	vf.Catch(func() { ok = signature.Verify(bftkit.Key(keyNo).PublicKey, h[:], sig) == nil })
	verCache.Store(k, ok)
	return ok
}

func (cs *caseSpec) keyNo(idx uint32) int {
	for i, v := range cs.Indices {
		if v == idx {
			return i
		}
	}
	return -1
}

func (cs *caseSpec) sigBytes(s sigSpec) []byte {
	if s.IsRaw {
		b, _ := common.HexToBytes(s.Raw)
		return b
	}
	k := cs.keyNo(s.Signer)
	if k < 0 {
		return nil
	}
	b := signCached(k, s.Over, s.Fresh)
	if s.Trunc > 0 && s.Trunc < len(b) {
		b = b[:s.Trunc]
	}
	return b
}

// ------------------------------------------------------------------ evaluation of a case on a fresh real pool

type finding struct {
	Key  string
	What string
	Step int
	Info map[string]interface{}
}

type evalStats struct {
	counts map[string]int
}

func (e *evalStats) c(k string) { e.counts[k]++ }

func quorum(n int) int { return n - (n-1)/3 }

func evaluate(cs *caseSpec) (fs []finding, st *evalStats, harnessErr string) {
	st = &evalStats{counts: map[string]int{}}
	keys := make([]int, cs.N)
	for i := range keys {
		keys[i] = i
	}
	var txh common.Uint256
	if b, err := common.HexToBytes(cs.TxHash); err == nil {
		copy(txh[:], b)
	}
	cfg, err := bftkit.Genesis(uint32(cs.N), cs.L, uint32(cs.C), bftkit.PeerSet(keys, cs.Indices, cs.Stakes), txh, 1)
	if err != nil {
		return nil, st, "GenesisChainConfig: " + err.Error()
	}
	var vrf vconfig.VRFValue
	if b, err := common.HexToBytes(cs.Vrf); err == nil {
		copy(vrf[:], b)
	}
	vp, err := vbft.NewVerifPool(cfg, cs.Self, cs.Blk, vrf)
	if err != nil {
		return nil, st, "NewVerifPool: " + err.Error()
	}
	Q := quorum(cs.N)

	type fedMsg struct {
		m        *msgSpec
		sig      []byte
		esigs    map[uint32][]byte
		inPool   bool
		asCommit *vbft.VerifCommit
	}
	var fed []*fedMsg
	reported := false
	for step := range cs.Msgs {
		m := &cs.Msgs[step]
		fm := &fedMsg{m: m, sig: cs.sigBytes(m.Sig)}
		declared := hashOf(m.Hash)
		switch m.Kind {
		case "commit":
			fm.esigs = map[uint32][]byte{}
			for j, s := range m.Endorsers {
				fm.esigs[j] = cs.sigBytes(s)
			}
			vc := &vbft.VerifCommit{Committer: m.From, BlockProposer: m.Proposer, BlockNum: cs.Blk, CommitBlockHash: declared, CommitForEmpty: m.Empty, EndorsersSig: fm.esigs, CommitterSig: fm.sig}
			fm.asCommit = vc
			var verr error
			if pn := vf.Catch(func() { verr = vp.VerifyCommit(vc) }); pn != nil {
				verr = fmt.Errorf("panic: %v", pn)
			}
			if verr != nil {
				st.c("msg_dropped_by_message_level_verification")
				if m.Role == "honest" {
					return fs, st, "honest commit fails VerifyCommit: " + verr.Error()
				}
				continue
			}
			var aerr error
			if pn := vf.Catch(func() { aerr = vp.AddCommit(vc) }); pn != nil {
				fs = append(fs, finding{Key: "panic:newBlockCommitment", What: fmt.Sprint(pn), Step: step})
				return fs, st, ""
			}
			if aerr != nil {
				st.c("commit_refused_by_pool_as_duplicate")
			} else {
				fm.inPool = true
			}
		case "endorse":
			// the receive loop's blockEndorseMsg.Verify: signature over the declared hash under the sender's key
			k := cs.keyNo(m.From)
			if k < 0 || !verifies(k, m.Hash, fm.sig) {
				st.c("msg_dropped_by_message_level_verification")
				if m.Role == "honest" {
					return fs, st, "honest endorse message fails verification"
				}
				continue
			}
			if pn := vf.Catch(func() { vp.AddEndorse(m.From, m.Proposer, cs.Blk, declared, m.Empty, fm.sig) }); pn != nil {
				fs = append(fs, finding{Key: "panic:newBlockEndorsement", What: fmt.Sprint(pn), Step: step})
				return fs, st, ""
			}
			fm.inPool = true
		}
		fed = append(fed, fm)
		st.c("msgs_fed")

		var p uint32
		var forEmpty, done bool
		if pn := vf.Catch(func() { p, forEmpty, done = vp.CommitDone(cs.Blk, uint32(cs.C), uint32(cs.N)) }); pn != nil {
			fs = append(fs, finding{Key: "panic:commitDone", What: fmt.Sprint(pn), Step: step})
			return fs, st, ""
		}
		if !done {
			st.c("commitDone_false")
			continue
		}
		st.c("commitDone_true")
		if forEmpty {
			st.c("commitDone_true_for_empty")
		}
		// ---- oracle
		V := map[uint32]bool{}
		claimed := map[uint32]string{} // index -> role of the message that claims it
		var commits []*vbft.VerifCommit
		validSigs := map[uint32]map[string]bool{} // peer -> the different valid signatures it is present with
		severalSigs := false
		credit := func(idx uint32, sig []byte, role string) {
			k := cs.keyNo(idx)
			if k >= 0 && (verifies(k, tagH(p, false), sig) || verifies(k, tagH(p, true), sig)) {
				V[idx] = true
				if validSigs[idx] == nil {
					validSigs[idx] = map[string]bool{}
				}
				validSigs[idx][string(sig)] = true
				if len(validSigs[idx]) > 1 {
					severalSigs = true
				}
			}
		}
		for _, f := range fed {
			if f.m.Proposer != p {
				continue
			}
			credit(f.m.From, f.sig, f.m.Role)
			if f.m.Kind == "commit" {
				for j, s := range f.esigs {
					credit(j, s, f.m.Role)
				}
				if f.inPool {
					commits = append(commits, f.asCommit)
					if _, ok := claimed[f.m.From]; !ok {
						claimed[f.m.From] = f.m.Role
					}
					for j := range f.esigs {
						claimed[j] = f.m.Role
					}
				}
			} else if f.inPool {
				if _, ok := claimed[f.m.From]; !ok {
					claimed[f.m.From] = f.m.Role
				}
			}
		}
		for _, f := range fed { // commits for other proposers also sit in the list getCommitConsensus walks
			if f.m.Proposer != p && f.m.Kind == "commit" && f.inPool {
				commits = append(commits, f.asCommit)
			}
		}
		path := "via-endorse-sig-fallback"
		var gp uint32
		vf.Catch(func() { gp, _ = vbft.VerifGetCommitConsensus(commits, cs.C, cs.N) })
		if gp == p {
			path = "via-commit-msgs"
		}
		st.c("declared_" + path)
		credited := len(V)
		if !V[p] {
			credited++
		}
		if credited >= Q {
			st.c("declared_with_verifiable_quorum")
			if credited == Q {
				st.c("declared_with_exactly_quorum")
			}
			continue
		}
		st.c("declared_without_verifiable_quorum")
		if reported {
			continue
		}
		reported = true
		causes := map[string]bool{}
		for idx, role := range claimed {
			if V[idx] {
				continue
			}
			if cs.keyNo(idx) < 0 {
				causes["non-member-index"] = true
			} else if strings.HasPrefix(role, "faulty:") {
				causes[strings.TrimPrefix(role, "faulty:")] = true
			} else {
				causes["unverifiable-claim-in-honest-message"] = true
			}
		}
		var cl []string
		for c := range causes {
			cl = append(cl, c)
		}
		sort.Strings(cl)
		cause := strings.Join(cl, "+")
		_, proposerClaimed := claimed[p]
		switch {
		case cause != "":
			cause = "forged-endorsers-sig:" + cause
		case severalSigs:
			cause = "all-signatures-valid:one-peer-present-with-several-fresh-signatures"
		case proposerClaimed:
			cause = "all-signatures-valid:proposer-is-also-committer-or-endorser"
		default:
			cause = "all-signatures-valid:proposer-not-among-signers"
		}
		var vl []int
		for i := range V {
			vl = append(vl, int(i))
		}
		sort.Ints(vl)
		fs = append(fs, finding{Key: "commit-declared-without-quorum:" + cause + ":" + path,
			What: fmt.Sprintf("N=%d C=%d: commitDone declared proposer %d (forEmpty=%v) after message %d, but only %d peer(s) %v have a verifiable signature on its proposal (%d with the proposer credited) < quorum %d",
				cs.N, cs.C, p, forEmpty, step+1, len(V), vl, credited, Q),
			Step: step, Info: map[string]interface{}{"declared_proposer": p, "for_empty": forEmpty, "verifiable_signers": vl, "credited": credited, "quorum": Q, "path": path}})
	}
	return fs, st, ""
}

// ------------------------------------------------------------------ generators

type gen struct {
	rng *vf.RNG
	cs  *caseSpec
}

func (g *gen) honestCommit(i, p uint32, empty bool, endorsers []uint32) msgSpec {
	t := tagH(p, empty)
	m := msgSpec{Kind: "commit", From: i, Proposer: p, Empty: empty, Hash: t, Sig: sigSpec{Signer: i, Over: t}, Role: "honest"}
	if len(endorsers) > 0 {
		m.Endorsers = map[uint32]sigSpec{}
		for _, e := range endorsers {
			m.Endorsers[e] = sigSpec{Signer: e, Over: t}
		}
	}
	return m
}

func (g *gen) honestEndorse(i, p uint32, empty bool) msgSpec {
	t := tagH(p, empty)
	return msgSpec{Kind: "endorse", From: i, Proposer: p, Empty: empty, Hash: t, Sig: sigSpec{Signer: i, Over: t}, Role: "honest"}
}

var forgeKinds = []string{"garbage", "replicated-own-sig", "valid-over-other-hash", "swapped-signers", "empty-bytes", "truncated", "non-member-index"}

// forgedCommit: what a faulty committer f can send so that it passes the message-level check
// (its own signature over the declared hash is valid) while naming the indices in T.
func (g *gen) forgedCommit(f, p uint32, kind string, T []uint32, honest []uint32) msgSpec {
	t := tagH(p, false)
	m := msgSpec{Kind: "commit", From: f, Proposer: p, Hash: t, Sig: sigSpec{Signer: f, Over: t}, Endorsers: map[uint32]sigSpec{}, Role: "faulty:" + kind}
	for n, j := range T {
		switch kind {
		case "garbage":
			l := []int{1, 8, 64, 65, 66, 100}[g.rng.Intn(6)]
			m.Endorsers[j] = sigSpec{IsRaw: true, Raw: vf.Hex(g.rng.Bytes(l))}
		case "replicated-own-sig":
			m.Endorsers[j] = sigSpec{Signer: f, Over: t}
		case "valid-over-other-hash":
			m.Hash = "SOME-OTHER-BLOCK"
			m.Sig = sigSpec{Signer: f, Over: "SOME-OTHER-BLOCK"}
			m.Endorsers[j] = sigSpec{Signer: j, Over: "SOME-OTHER-BLOCK"}
		case "swapped-signers":
			other := f
			if len(honest) > 0 {
				other = honest[(n+1)%len(honest)]
				if other == j {
					other = f
				}
			}
			m.Endorsers[j] = sigSpec{Signer: other, Over: t}
		case "empty-bytes":
			m.Endorsers[j] = sigSpec{IsRaw: true, Raw: ""}
		case "truncated":
			m.Endorsers[j] = sigSpec{Signer: j, Over: t, Trunc: 1 + g.rng.Intn(40)}
		case "non-member-index":
			m.Endorsers[100000+uint32(n)] = sigSpec{IsRaw: true, Raw: vf.Hex(g.rng.Bytes(65))}
		}
	}
	return m
}

func without(l []uint32, drop ...uint32) []uint32 {
	var o []uint32
	for _, v := range l {
		keep := true
		for _, d := range drop {
			if v == d {
				keep = false
			}
		}
		if keep {
			o = append(o, v)
		}
	}
	return o
}

func (g *gen) pick(l []uint32, n int) []uint32 {
	if n > len(l) {
		n = len(l)
	}
	if n <= 0 {
		return nil
	}
	p := g.rng.Perm(len(l))
	o := make([]uint32, n)
	for i := 0; i < n; i++ {
		o[i] = l[p[i]]
	}
	return o
}

// honestGroup emits honest messages by the signers in A for proposer p: some commit (carrying
// honest endorser signatures), the others endorse directly or are carried inside a commit.
func (g *gen) honestGroup(A []uint32, p uint32, emptyPct int) []msgSpec {
	var out []msgSpec
	if len(A) == 0 {
		return out
	}
	nCommit := g.rng.Intn(len(A) + 1)
	if g.rng.Chance(20) {
		nCommit = len(A)
	}
	committers, endorsers := A[:nCommit], A[nCommit:]
	carried := map[uint32]bool{}
	empty := g.rng.Chance(emptyPct)
	for _, c := range committers {
		e := empty
		if emptyPct > 0 && emptyPct < 100 && g.rng.Chance(30) {
			e = !e
		}
		var carry []uint32
		if !e {
			carry = g.pick(endorsers, g.rng.Intn(len(endorsers)+1))
		}
		for _, x := range carry {
			carried[x] = true
		}
		out = append(out, g.honestCommit(c, p, e, carry))
	}
	for _, e := range endorsers {
		if !carried[e] || g.rng.Chance(50) {
			out = append(out, g.honestEndorse(e, p, g.rng.Chance(emptyPct)))
		}
	}
	return out
}

func genCase(rng *vf.RNG, i int) *caseSpec {
	g := &gen{rng: rng}
	n := []int{4, 7, 10}[rng.Intn(3)]
	maxC := (n - 1) / 3
	c := maxC
	if rng.Chance(25) {
		c = rng.Range(1, maxC)
	}
	Q := quorum(n)
	cs := &caseSpec{N: n, C: c, Blk: uint32(10 + rng.Intn(1000)), L: uint32(n * rng.Range(2, 8))}
	g.cs = cs
	cs.Indices = bftkit.Indices(rng, n, rng.Chance(30))
	cs.Stakes = bftkit.Stakes(rng, n, []int{bftkit.ShapeEqual, bftkit.ShapeRandom, bftkit.ShapeDominant, bftkit.ShapeZero}[rng.Intn(4)], uint64(cs.L)-uint64(n))
	cs.TxHash = vf.Hex(rng.Bytes(32))
	vrf := rng.Bytes(64)
	cs.Vrf = vf.Hex(vrf)
	cs.Self = cs.Indices[rng.Intn(n)]
	// the round's real proposers
	keys := make([]int, n)
	for k := range keys {
		keys[k] = k
	}
	var txh common.Uint256
	b, _ := common.HexToBytes(cs.TxHash)
	copy(txh[:], b)
	cfg, err := bftkit.Genesis(uint32(n), cs.L, uint32(c), bftkit.PeerSet(keys, cs.Indices, cs.Stakes), txh, 1)
	if err != nil {
		panic(err)
	}
	var v vconfig.VRFValue
	copy(v[:], vrf)
	props, _, _ := vbft.VerifCalcParticipantPeers(v, cfg)
	p1 := props[rng.Intn(len(props))]
	p2 := props[0]
	if p2 == p1 {
		p2 = props[1]
	}
	all := append([]uint32{}, cs.Indices...)
	nf := rng.Range(1, c)
	faulty := g.pick(without(all, p1), nf)
	cs.Faulty = faulty
	f := faulty[0]
	honest := without(all, append(append([]uint32{}, faulty...), p1)...) // honest peers other than the proposer

	scenario := i % 10
	var msgs []msgSpec
	// how many honest signers (besides the proposer, who is credited) take part
	around := func(lo, hi int) int {
		k := rng.Range(lo, hi)
		if k < 0 {
			k = 0
		}
		if k > len(honest) {
			k = len(honest)
		}
		return k
	}
	switch scenario {
	case 0: // honest only, below / at / above quorum; the proposer itself stays silent
		cs.Scenario = "honest-only"
		A := g.pick(honest, around(Q-3, Q))
		msgs = g.honestGroup(A, p1, 0)
	case 1: // honest only, the proposer also endorses or commits its own proposal (as a 2nd proposer that is also committer does)
		cs.Scenario = "honest-only:proposer-also-signs"
		A := append([]uint32{p1}, g.pick(honest, around(Q-4, Q-1))...)
		if rng.Bool() {
			A[0], A[len(A)-1] = A[len(A)-1], A[0]
		}
		msgs = g.honestGroup(A, p1, 0)
	case 2: // honest messages with empty-block commits/endorsements mixed in
		cs.Scenario = "honest-only:with-empty-commits"
		A := g.pick(honest, around(Q-3, Q))
		msgs = g.honestGroup(A, p1, []int{30, 60, 100}[rng.Intn(3)])
	case 3, 4, 5: // one faulty committer forging endorser signatures on top of an honest partial quorum
		kind := forgeKinds[rng.Intn(len(forgeKinds))]
		// honest partial quorum: even with f's own valid signature and the proposer it stays below Q
		s := around(0, Q-3)
		A := g.pick(honest, s)
		msgs = g.honestGroup(A, p1, 0)
		present := map[uint32]bool{f: true}
		for _, m := range msgs {
			present[m.From] = true
			for j := range m.Endorsers {
				present[j] = true
			}
		}
		rest := without(all, f)
		var fresh []uint32
		for _, x := range rest {
			if !present[x] {
				fresh = append(fresh, x)
			}
		}
		need := Q - 1 - len(present) // getCommitConsensus counts len(signers)+1 >= Q
		mode := rng.Intn(4)
		var T []uint32
		switch mode {
		case 0:
			cs.Scenario = "forged:" + kind + ":names-all-peers"
			T = rest
		case 1:
			cs.Scenario = "forged:" + kind + ":names-exactly-what-tips-the-count"
			T = g.pick(fresh, need)
		case 2:
			cs.Scenario = "forged:" + kind + ":names-one-less-than-needed"
			T = g.pick(fresh, need-1)
		default:
			cs.Scenario = "forged:" + kind + ":names-random-subset"
			T = g.pick(rest, rng.Range(1, len(rest)))
		}
		if kind == "non-member-index" { // the named indices are outside the configuration: only their number matters
			cnt := map[int]int{0: len(rest), 1: need, 2: need - 1, 3: rng.Range(1, len(rest))}[mode]
			if cnt < 0 {
				cnt = 0
			}
			T = make([]uint32, cnt)
		}
		msgs = append(msgs, g.forgedCommit(f, p1, kind, T, honest))
		if scenario == 5 { // a second faulty message: f also endorses with a signature over another block
			msgs = append(msgs, msgSpec{Kind: "endorse", From: f, Proposer: p1, Hash: "SOME-OTHER-BLOCK", Sig: sigSpec{Signer: f, Over: "SOME-OTHER-BLOCK"}, Role: "faulty:endorse-over-other-hash"})
			cs.Scenario += "+faulty-endorse"
		}
	case 6: // two proposers: honest peers split, f commits to both (the second is refused) and forges for one
		cs.Scenario = "two-proposers"
		h2 := without(honest, p2)
		A1 := g.pick(h2, around(0, Q-3))
		A2 := without(h2, A1...)
		A2 = g.pick(A2, rng.Intn(len(A2)+1))
		msgs = append(g.honestGroup(A1, p1, 0), g.honestGroup(append([]uint32{}, A2...), p2, 0)...)
		kind := forgeKinds[rng.Intn(len(forgeKinds))]
		msgs = append(msgs, g.forgedCommit(f, p1, kind, g.pick(without(all, f), rng.Range(1, n-1)), honest))
		msgs = append(msgs, g.forgedCommit(f, p2, kind, g.pick(without(all, f), rng.Range(1, n-1)), honest))
		cs.Scenario += ":" + kind
	case 8: // the same honest peers first endorse and later commit (what every endorser that is also committer does);
		// their commits carry few or no endorser signatures, so the signature-count fallback decides.  Order is kept.
		cs.Scenario = "endorse-then-commit-by-the-same-peers"
		A := g.pick(honest, around(1, Q-2)) // with the proposer credited: at most Q-1 distinct signers
		if rng.Chance(30) {
			A = g.pick(honest, around(Q-1, Q))
		}
		for _, x := range A {
			msgs = append(msgs, g.honestEndorse(x, p1, false))
		}
		for _, x := range A {
			var carry []uint32
			if rng.Chance(30) {
				carry = g.pick(A, rng.Intn(len(A)+1))
			}
			msgs = append(msgs, g.honestCommit(x, p1, false, carry))
			if rng.Chance(20) {
				msgs = append(msgs, g.honestCommit(x, p1, false, carry)) // and re-sent
			}
		}
		if rng.Chance(50) { // the faulty peer does the same
			msgs = append(msgs, g.honestEndorse(f, p1, false), g.honestCommit(f, p1, false, nil))
		}
		cs.Msgs = msgs
		return cs
	case 9: // honest peers endorsed proposer p1's block; the faulty peer commits ANOTHER proposal (p2's) and
		// carries, under the same endorser indices, the very signature bytes those peers sent for p1's block
		cs.Scenario = "forged:replayed-recorded-sigs:of-another-proposal"
		A := g.pick(without(honest, p2), around(Q-2, Q))
		for _, x := range A {
			msgs = append(msgs, g.honestEndorse(x, p1, false))
		}
		t2 := tagH(p2, false)
		m := msgSpec{Kind: "commit", From: f, Proposer: p2, Hash: t2, Sig: sigSpec{Signer: f, Over: t2}, Endorsers: map[uint32]sigSpec{}, Role: "faulty:replayed-recorded-sigs"}
		for _, x := range A {
			m.Endorsers[x] = sigSpec{Signer: x, Over: tagH(p1, false)}
		}
		if rng.Chance(50) {
			m.Endorsers[p1] = sigSpec{Signer: p1, Over: tagH(p1, false)} // the proposer's own signature on its block
		}
		msgs = append(msgs, m)
		if rng.Chance(40) {
			msgs = append(msgs, m)
		}
		cs.Msgs = msgs
		return cs
	default: // duplicates: messages delivered twice, f re-sends its commit unchanged and with another hash
		cs.Scenario = "duplicates"
		A := g.pick(honest, around(Q-4, Q-1))
		msgs = g.honestGroup(A, p1, 0)
		for _, m := range append([]msgSpec{}, msgs...) {
			if rng.Chance(50) {
				msgs = append(msgs, m)
			}
		}
		fc := g.honestCommit(f, p1, false, nil)
		fc.Role = "faulty:honest-looking"
		msgs = append(msgs, fc, fc)
		kind := forgeKinds[rng.Intn(len(forgeKinds))]
		if rng.Bool() {
			msgs = append(msgs, g.forgedCommit(f, p1, kind, without(all, f), honest))
		}
		// a commit whose committer signature is itself invalid: must never reach the pool
		bad := g.forgedCommit(f, p1, "garbage", without(all, f), honest)
		bad.Sig = sigSpec{IsRaw: true, Raw: vf.Hex(rng.Bytes(65))}
		bad.Role = "faulty:bad-committer-sig"
		if len(faulty) > 1 {
			bad.From = faulty[1]
		}
		msgs = append(msgs, bad)
	}
	if rng.Chance(70) {
		p := rng.Perm(len(msgs))
		sh := make([]msgSpec, len(msgs))
		for k := range p {
			sh[k] = msgs[p[k]]
		}
		msgs = sh
		cs.Scenario += "|shuffled"
	}
	cs.Msgs = msgs
	return cs
}

// ------------------------------------------------------------------ witness minimisation

func hasKey(fs []finding, key string) bool {
	for _, f := range fs {
		if f.Key == key {
			return true
		}
	}
	return false
}

func cloneCase(cs *caseSpec) *caseSpec {
	cp := *cs
	cp.Msgs = make([]msgSpec, len(cs.Msgs))
	for i, m := range cs.Msgs {
		cm := m
		if m.Endorsers != nil {
			cm.Endorsers = map[uint32]sigSpec{}
			for k, v := range m.Endorsers {
				cm.Endorsers[k] = v
			}
		}
		cp.Msgs[i] = cm
	}
	return &cp
}

// minimise greedily drops messages, then named endorser entries, while the same violation key persists.
func minimise(cs *caseSpec, key string) *caseSpec {
	cur := cloneCase(cs)
	still := func(c *caseSpec) bool { fs, _, he := evaluate(c); return he == "" && hasKey(fs, key) }
	for changed := true; changed; {
		changed = false
		for i := 0; i < len(cur.Msgs); i++ {
			t := cloneCase(cur)
			t.Msgs = append(t.Msgs[:i], t.Msgs[i+1:]...)
			if still(t) {
				cur, changed = t, true
				i--
			}
		}
		for i := range cur.Msgs {
			var ks []uint32
			for k := range cur.Msgs[i].Endorsers {
				ks = append(ks, k)
			}
			sort.Slice(ks, func(a, b int) bool { return ks[a] > ks[b] })
			for _, k := range ks {
				t := cloneCase(cur)
				delete(t.Msgs[i].Endorsers, k)
				if still(t) {
					cur, changed = t, true
				}
			}
		}
	}
	return cur
}

// ------------------------------------------------------------------ main

func main() {
	r := vf.NewRun("C31", "exploration",
		"message sets for a real BlockPool over N in {4,7,10} peers (real keys, chain config from GenesisChainConfig, participants from the round's VRF): 8 scenarios cycled (honest below/at/above quorum; proposer also signs; empty commits; one faulty committer forging EndorsersSig in 7 ways x 4 choices of named indices, optionally with a faulty endorse message; two proposers; duplicates), delivery order shuffled in 70%; commitDone read after every message; distinct by (scenario, N, C, message list)")
	rng := vf.NewRNG(vf.Seed())
	nCases := vf.N(10000, 100000)
	var mu sync.Mutex
	minimised := map[string]bool{}
	agg := map[string]int64{}
	keyCount := map[string]int{}
	type caseFindings struct {
		cs *caseSpec
		fs []finding
	}
	found := make([]*caseFindings, nCases)

	vf.Parallel(nCases, runtime.NumCPU(), func(i int) {
		cs := genCase(rng.Sub(uint64(i)), i)
		fs, st, herr := evaluate(cs)
		if herr != "" {
			r.Eval("")
			r.Inconclusive("harness: " + herr)
			return
		}
		fp := sha256.Sum256([]byte(fmt.Sprintf("%v", *cs)))
		r.Eval(fmt.Sprintf("%s/%d/%d/%x", cs.Scenario, cs.N, cs.C, fp[:8]))
		scen := strings.Split(cs.Scenario, "|")[0]
		base := strings.Split(scen, ":")[0]
		mu.Lock()
		for k, v := range st.counts {
			agg[k] += int64(v)
		}
		agg["scenario_"+base]++
		if base == "forged" {
			parts := strings.Split(strings.Split(scen, "+")[0], ":")
			agg["forge_kind_"+parts[1]]++
			agg["forge_"+parts[2]]++
			if st.counts["commitDone_true"] == 0 {
				agg["forged_case_not_declared"]++
			} else {
				agg["forged_case_declared"]++
			}
		}
		if strings.HasSuffix(cs.Scenario, "|shuffled") {
			agg["order_shuffled"]++
		} else {
			agg["order_natural"]++
		}
		if strings.HasPrefix(base, "honest-only") {
			switch {
			case st.counts["commitDone_true"] == 0:
				agg["honest_case_not_declared"]++
			case st.counts["declared_without_verifiable_quorum"] == 0:
				agg["honest_case_declared_with_quorum"]++
			}
		}
		mu.Unlock()
		if i < 4 {
			r.Sample(cs)
		}
		if len(fs) > 0 {
			found[i] = &caseFindings{cs, fs}
		}
	})
	// ---- family "restated": the same statement of one peer several times, freshly signed every time
	nRest := vf.N(2000, 20000)
	foundRest := make([]*caseFindings, nRest)
	vf.Parallel(nRest, runtime.NumCPU(), func(i int) {
		cs, distinct, copies := genRestatedCase(rng.Sub(uint64(1)<<40|uint64(i)), i)
		fs, st, herr := evaluate(cs)
		if herr != "" {
			r.Eval("")
			r.Inconclusive("harness (restated): " + herr)
			return
		}
		fp := sha256.Sum256([]byte(fmt.Sprintf("%v", *cs)))
		r.Eval(fmt.Sprintf("%s/%d/%d/%x", cs.Scenario, cs.N, cs.C, fp[:8]))
		Q := quorum(cs.N)
		mu.Lock()
		for k, v := range st.counts {
			agg["restated/"+k] += int64(v)
		}
		agg["scenario_restated"]++
		agg["restated/mode_"+restateModeOf(cs.Scenario)]++
		switch {
		case distinct >= Q:
			agg["restated/cases_with_a_real_quorum"]++
			if st.counts["commitDone_true"] > 0 {
				agg["restated/cases_with_a_real_quorum_declared"]++
			}
		case distinct-1+copies >= Q:
			agg["restated/cases_where_only_multiplicity_reaches_the_quorum"]++
			if st.counts["commitDone_true"] == 0 {
				agg["restated/cases_where_only_multiplicity_reaches_the_quorum_not_declared"]++
			}
		default:
			agg["restated/cases_below_quorum_even_with_multiplicity"]++
		}
		mu.Unlock()
		if i < 2 {
			r.Sample(cs)
		}
		if len(fs) > 0 {
			foundRest[i] = &caseFindings{cs, fs}
		}
	})
	found = append(found, foundRest...)
	// the signing primitive really is randomised: two signatures of one key over one hash differ
	if string(signCached(0, "fresh-check", 0)) != string(signCached(0, "fresh-check", 1)) {
		r.Count("restated/fresh_signatures_differ_bytewise")
	}

	// ---- node-level half: a real Server's commit declaration (node.go)
	vbft.VerifSimSetup()
	nGames := vf.N(1500, 15000)
	nodeFound := make([]*nodeFinding, nGames)
	vf.Parallel(nGames, runtime.NumCPU(), func(i int) {
		var g *nodeGame
		var f *nodeFinding
		var herr string
		if pn := vf.Catch(func() { g, f, herr = playNodeGame(rng.Sub(uint64(2)<<40|uint64(i)), i) }); pn != nil {
			r.Eval("")
			r.Count("node/games_aborted_by_panic")
			if r.Counter("node/games_aborted_by_panic") <= 3 {
				r.Sample(map[string]interface{}{"node_game": i, "panic": fmt.Sprint(pn)})
			}
			return
		}
		if herr != "" {
			r.Eval("")
			r.Inconclusive("harness (node game): " + herr)
			return
		}
		sealed := len(g.node.Seals) > 0
		r.Eval(fmt.Sprintf("node/N=%d/self=%d/events=%d/accepted=%d/sealed=%v/restated=%v", g.N, g.self, len(g.trace), len(g.accepted), sealed, g.restated))
		mu.Lock()
		for k, v := range g.stats {
			agg[k] += int64(v)
		}
		agg["node/games"]++
		agg[fmt.Sprintf("node/games_N=%d", g.N)]++
		mu.Unlock()
		if i < 2 {
			r.Sample(map[string]interface{}{"node_game": i, "N": g.N, "node": g.self, "sealed": sealed, "events_in_order": g.trace})
		}
		nodeFound[i] = f
	})
	nodeKeys := map[string]bool{}
	for _, f := range nodeFound {
		if f == nil {
			continue
		}
		keyCount[f.Key]++
		if nodeKeys[f.Key] { // one full witness per key
			continue
		}
		nodeKeys[f.Key] = true
		r.Violation(f.Key, f.What, f.Wit)
	}

	// violations are reported serially in case order; the first case of every key is minimised
	for _, cf := range found {
		if cf == nil {
			continue
		}
		cs := cf.cs
		for _, f := range cf.fs {
			first := !minimised[f.Key]
			minimised[f.Key] = true
			wit := map[string]interface{}{"case": cs, "info": f.Info, "fired_after_message": f.Step + 1}
			if first && strings.HasPrefix(f.Key, "commit-declared-without-quorum") {
				min := minimise(cs, f.Key)
				mfs, _, _ := evaluate(min)
				for _, mf := range mfs {
					if mf.Key == f.Key {
						wit = map[string]interface{}{"minimal_case": min, "info": mf.Info, "what_minimal": mf.What, "original_case": cs}
						f.What = mf.What + " [minimised witness]"
					}
				}
			}
			keyCount[f.Key]++
			r.Violation(f.Key, f.What, wit)
		}
	}
	for k, v := range agg {
		r.Add(k, v)
	}
	if len(keyCount) > 0 {
		r.Extra("violation_keys", keyCount)
	}

	for _, k := range []string{"scenario_honest-only", "scenario_forged", "scenario_two-proposers", "scenario_duplicates"} {
		r.Require(k, 100)
	}
	for _, k := range forgeKinds {
		r.Require("forge_kind_"+k, 20)
	}
	for _, k := range []string{"forge_names-all-peers", "forge_names-exactly-what-tips-the-count", "forge_names-one-less-than-needed", "forge_names-random-subset"} {
		r.Require(k, 50)
	}
	r.Require("honest_case_not_declared", 50)
	r.Require("honest_case_declared_with_quorum", 50)
	r.Require("declared_with_exactly_quorum", 50)
	r.Require("declared_via-commit-msgs", 50)
	r.Require("declared_via-endorse-sig-fallback", 20)
	r.Require("forged_case_not_declared", 20)
	r.Require("commitDone_true_for_empty", 10)
	r.Require("commit_refused_by_pool_as_duplicate", 50)
	r.Require("msg_dropped_by_message_level_verification", 50)
	r.Require("order_shuffled", 100)
	r.Require("scenario_restated", int64(nRest/2))
	for _, m := range restateModes {
		r.Require("restated/mode_"+m, int64(nRest/10))
	}
	r.Require("restated/cases_where_only_multiplicity_reaches_the_quorum", int64(nRest/10))
	r.Require("restated/cases_where_only_multiplicity_reaches_the_quorum_not_declared", 1)
	r.Require("restated/cases_with_a_real_quorum_declared", int64(nRest/40))
	r.Require("restated/commitDone_true", int64(nRest/40))
	r.Require("restated/fresh_signatures_differ_bytewise", 1)
	r.Require("node/games", int64(nGames*9/10))
	r.Require("node/declared", int64(nGames/20))
	r.Require("node/declared_with_exactly_quorum", int64(nGames/100))
	r.Require("node/not_declared_and_no_signer_quorum_existed", int64(nGames/20))
	r.Require("node/commit_timer_expired", int64(nGames/20))
	r.Require("node/commit_timer_expired_with_endorse_quorum_but_no_signer_quorum", int64(nGames/50))
	r.Require("node/peers_restating_with_fresh_signatures", int64(nGames/20))
	r.Require("node/own_commits", int64(nGames/20))
	r.Require("node/deliveries", int64(nGames*3))
	if r.Counter("node/games_aborted_by_panic")*20 > int64(nGames) {
		r.Inconclusive("more than 5% of the node games were aborted by a panic inside the hollow server")
	}
	r.Require("order_natural", 100)
	r.Assume("the proposer is credited as a signer of its own proposal even when no message carrying its signature was fed (the export has no way to add a proposal to the pool; in production the node holds the signed proposal before it seals)")
	r.Assume("a signature counts for proposer p when it verifies over p's block hash or p's empty-block hash, whichever forEmpty flag commitDone returns (lenient reading of 'for that proposal')")
	r.Assume("node-level half: a SealBlock action queued by the real handlers is the node's declaration of commit consensus; signatures are counted from every message the receive loop accepted, every statement the node broadcast and every signature its block pool held for the sealed proposer (a superset of what the pool holds when it decides), over the sealed proposer's block hash or empty-block hash; the proposer is credited")
	r.Assume("only messages that pass the message-level check are fed: VerifPool.VerifyCommit for commits (committer signature over the declared hash under the committer's key), the same rule emulated for endorse messages")
	r.Finish()
}
