// C31, node-level half: the commit declaration of a real vbft.Server.
//
// The block-pool half (main.go) reads BlockPool.commitDone after every message.  A node, however,
// declares commit consensus where its handlers decide to seal: on a commit message, on an endorse
// message, on the expiry of its commit timer, ... and every one of those sites must rest on the
// N-(N-1)/3 signer quorum.  Here ONE real Server (vbft.VerifSimNode: no goroutines, network or
// ledger; real onConsensusMsg / processMsgEvent / processTimerEvent / endorseBlock / commitBlock /
// makeSealed) plays a single height.  The monitor is every other peer and the clock: it delivers
// well-formed, correctly signed proposals, endorsements and commits of a seeded signer set (some
// peers state their endorsement several times with freshly made signatures) in a seeded order and
// lets ARMED timers expire at seeded points.
//
// Oracle: when the node queues SealBlock for (proposer p, forEmpty) the monitor computes, with
// core/signature.Verify and the peers' real keys, the set V of peers for which a message accepted
// by the node's receive loop, a statement the node itself broadcast, or an entry of the node's own
// block pool for p (verif sim export: the raw signature bytes the pool held during the round)
// carries a signature that verifies over p's block hash or p's empty-block hash; p itself is credited.  |V| >= N-(N-1)/3
// is required.
package main

import (
	"fmt"
	"sort"

	"github.com/ontio/ontology/account"
	"github.com/ontio/ontology/common"
	"github.com/ontio/ontology/consensus/vbft"
	"github.com/ontio/ontology/core/signature"
	"verifharness/lib/bftkit"
	"verifharness/lib/vf"
)

type nodeProposal struct {
	proposer    uint32
	wire        []byte
	hash, empty common.Uint256
}

type nodeMsg struct {
	from  uint32
	wire  []byte
	about string
}

type nodeGame struct {
	N, C, Q  int
	id       int
	rng      *vf.RNG
	self     uint32
	accts    map[uint32]*account.Account
	node     *vbft.VerifSimNode
	props    map[uint32]*nodeProposal
	outSeen  int
	trace    []string
	stats    map[string]int
	accepted []*vbft.VerifSimMsgInfo // statements accepted by the receive loop, and the node's own
	restated bool
}

func (g *nodeGame) tr(f string, a ...interface{}) { g.trace = append(g.trace, fmt.Sprintf(f, a...)) }

func (g *nodeGame) pick(k int) int { return g.rng.Intn(k) }

func okSig(acc *account.Account, h common.Uint256, sig []byte) bool {
	if acc == nil {
		return false
	}
	ok := false
	vf.Catch(func() { ok = signature.Verify(acc.PublicKey, h[:], sig) == nil })
	return ok
}

// signersFor: peers with a verifiable signature over one of proposer p's two block hashes among the
// accepted statements (p credited); restated: some peer is there with several different signatures.
func (g *nodeGame) signersFor(p uint32) (V map[uint32]bool, multi bool) {
	V = map[uint32]bool{p: true}
	pr := g.props[p]
	if pr == nil {
		return V, false
	}
	seen := map[uint32]map[string]bool{}
	credit := func(who uint32, sig []byte) {
		if okSig(g.accts[who], pr.hash, sig) || okSig(g.accts[who], pr.empty, sig) {
			V[who] = true
			if seen[who] == nil {
				seen[who] = map[string]bool{}
			}
			seen[who][string(sig)] = true
			if len(seen[who]) > 1 {
				multi = true
			}
		}
	}
	for _, m := range g.accepted {
		if m.Proposer != p {
			continue
		}
		credit(m.Sender, m.Sig)
		for e, s := range m.Endorsers {
			credit(e, s)
		}
	}
	return V, multi
}

// collect records the statements the node handed to its send loop
func (g *nodeGame) collect() {
	for ; g.outSeen < len(g.node.Out); g.outSeen++ {
		o := g.node.Out[g.outSeen]
		info, err := vbft.VerifSimDecode(o.Wire)
		if err != nil {
			continue
		}
		switch o.Type {
		case vbft.BlockProposalMessage:
			if g.props[info.Proposer] == nil {
				g.props[info.Proposer] = &nodeProposal{proposer: info.Proposer, wire: o.Wire, hash: info.Hash, empty: info.EmptyHash}
			}
			g.tr("node says proposal(p%d)", info.Proposer)
			g.stats["node/own_proposals"]++
		case vbft.BlockEndorseMessage:
			g.accepted = append(g.accepted, info)
			g.tr("node says endorse(for p%d empty=%v)", info.Proposer, info.ForEmpty)
			g.stats["node/own_endorsements"]++
		case vbft.BlockCommitMessage:
			g.accepted = append(g.accepted, info)
			g.tr("node says commit(for p%d empty=%v, %d endorser sigs)", info.Proposer, info.ForEmpty, len(info.Endorsers))
			g.stats["node/own_commits"]++
		}
	}
}

type nodeFinding struct {
	Key, What string
	Wit       map[string]interface{}
}

// checkSeal: the oracle, run after every event
func (g *nodeGame) checkSeal(trigger string) *nodeFinding {
	if len(g.node.Seals) == 0 {
		return nil
	}
	s := g.node.Seals[0]
	V, multi := g.signersFor(s.Proposer)
	// what the node's own block pool held for the sealed proposer during the round (a node that is not a
	// committer of the round signs a commit that only reaches its own pool): verified here like the rest
	if pr := g.props[s.Proposer]; pr != nil {
		for peer, evs := range s.Evidence {
			for _, ev := range evs {
				if okSig(g.accts[peer], pr.hash, ev.Sig) || okSig(g.accts[peer], pr.empty, ev.Sig) {
					if !V[peer] {
						g.stats["node/signers_known_from_the_nodes_pool_only"]++
					}
					V[peer] = true
				}
			}
		}
	}
	g.stats["node/declared"]++
	g.stats["node/declared_on_"+trigger]++
	if s.ForEmpty {
		g.stats["node/declared_for_empty"]++
	}
	if len(V) >= g.Q {
		g.stats["node/declared_with_verifiable_quorum"]++
		if len(V) == g.Q {
			g.stats["node/declared_with_exactly_quorum"]++
		}
		return nil
	}
	var vl []int
	for v := range V {
		vl = append(vl, int(v))
	}
	sort.Ints(vl)
	how := "distinct-signers-only"
	if multi {
		how = "one-peer-stated-several-fresh-signatures"
	}
	return &nodeFinding{
		Key: fmt.Sprintf("node:commit-declared-without-quorum:on-%s:%s", trigger, how),
		What: fmt.Sprintf("N=%d C=%d: node %d queued SealBlock for proposer %d (forEmpty=%v) on %s, but only %d peer(s) %v (the proposer credited) have a verifiable signature on its proposal among everything the node accepted or said itself < quorum %d",
			g.N, g.C, g.self, s.Proposer, s.ForEmpty, trigger, len(V), vl, g.Q),
		Wit: map[string]interface{}{"game": g.id, "seed": vf.Seed(), "N": g.N, "C": g.C, "node": g.self, "sealed_proposer": s.Proposer, "for_empty": s.ForEmpty,
			"verifiable_signers": vl, "quorum": g.Q, "events_in_order": g.trace,
			"replay": "peer index i has key bftkit.Key(i-1); previous block and participant roles are in the first trace line; every message is well-formed and signed by the peer it names"},
	}
}

// playNodeGame runs game id.
func playNodeGame(rng *vf.RNG, id int) (g *nodeGame, f *nodeFinding, herr string) {
	N := []int{4, 4, 7, 7, 10}[rng.Intn(5)]
	C := (N - 1) / 3
	g = &nodeGame{N: N, C: C, Q: quorum(N), id: id, rng: rng, accts: map[uint32]*account.Account{}, props: map[uint32]*nodeProposal{}, stats: map[string]int{}}
	keys := make([]int, N)
	idx := make([]uint32, N)
	stakes := make([]uint64, N)
	for i := 0; i < N; i++ {
		keys[i], idx[i], stakes[i] = i, uint32(i+1), 1000
		g.accts[uint32(i+1)] = bftkit.Key(i)
	}
	cfg, err := bftkit.Genesis(uint32(N), uint32(N*8), uint32(C), bftkit.PeerSet(keys, idx, stakes), common.Uint256{1}, 1)
	if err != nil {
		return g, nil, "GenesisChainConfig: " + err.Error()
	}
	g.self = uint32(1 + rng.Intn(N))
	pp := uint32(1 + rng.Intn(N))
	prevNonce := uint64(rng.Intn(1 << 30))
	prev, err := vbft.VerifSimPrevBlock(g.accts[pp], pp, 4, 1600000000, prevNonce)
	if err != nil {
		return g, nil, "VerifSimPrevBlock: " + err.Error()
	}
	const blk = 5
	prevRoot := common.Uint256{9, 9, byte(id)}
	g.node, err = vbft.NewVerifSimNode(g.self, g.accts[g.self], cfg, prev, prevRoot)
	if err != nil {
		return g, nil, "NewVerifSimNode: " + err.Error()
	}
	defer g.node.Close()
	if err := g.node.Start(); err != nil {
		return g, nil, "sim node start: " + err.Error()
	}
	g.node.Pump(g.pick)
	g.collect()
	proposers, endorsers, committers := g.node.Participants()
	g.tr("N=%d C=%d node=%d; previous block: height 4 proposer %d nonce %d; proposers %v endorsers %v committers %v", N, C, g.self, pp, prevNonce, proposers, endorsers, committers)

	// the proposals of the round: the leader's, and sometimes the 2nd proposer's
	target := proposers[0]
	other := uint32(0)
	if len(proposers) > 1 && proposers[1] != target && rng.Chance(35) {
		other = proposers[1]
		if rng.Chance(30) {
			target, other = other, target
		}
	}
	var pending []nodeMsg
	for _, p := range []uint32{target, other} {
		if p == 0 || p == g.self {
			continue
		}
		wire, h, eh, err := vbft.VerifSimProposalWire(g.accts[p], p, prev, prevRoot, 1600000000+10+p, uint64(7000+100*int(p)))
		if err != nil {
			return g, nil, "VerifSimProposalWire: " + err.Error()
		}
		g.props[p] = &nodeProposal{proposer: p, wire: wire, hash: h, empty: eh}
		pending = append(pending, nodeMsg{from: p, wire: wire, about: fmt.Sprintf("proposal(p%d)", p)})
	}
	if target == g.self || other == g.self {
		// the node's own proposal exists once its proposing timers ran
		for tries := 0; tries < 6 && g.props[g.self] == nil; tries++ {
			armed := g.node.ArmedTimers()
			if len(armed) == 0 {
				break
			}
			e := armed[0]
			g.tr("timer %d expires", e)
			_ = g.node.Fire(e)
			g.node.Pump(g.pick)
			g.collect()
		}
		if g.props[g.self] == nil {
			g.stats["node/own_proposal_never_made"]++
			if target == g.self {
				target, other = other, 0
			} else {
				other = 0
			}
			if target == 0 {
				return g, nil, ""
			}
		}
	}

	// the signer set: how many peers besides the node and the proposer ever state something
	var others []uint32
	for i := 1; i <= N; i++ {
		if uint32(i) != g.self {
			others = append(others, uint32(i))
		}
	}
	d := rng.Range(0, N-1)
	if rng.Chance(60) {
		d = rng.Range(g.Q-4, g.Q-1)
	}
	if d < 0 {
		d = 0
	}
	if d > len(others) {
		d = len(others)
	}
	perm := rng.Perm(len(others))
	var S []uint32
	for _, pi := range perm[:d] {
		S = append(S, others[pi])
	}
	nRestaters := 0
	sigsFor := map[common.Uint256]map[uint32][]byte{} // endorser signatures made so far, per hash
	var stmts []nodeMsg
	for _, s := range S {
		about := target
		if other != 0 && g.props[other] != nil && rng.Chance(12) {
			about = other
		}
		pr := g.props[about]
		forEmpty := rng.Chance(10)
		h := pr.hash
		if forEmpty {
			h = pr.empty
		}
		role := rng.Intn(3) // 0 endorse, 1 commit, 2 endorse and commit
		if role != 1 {
			times := 1
			if nRestaters < C && rng.Chance(35) { // a (faulty or re-broadcasting) peer states the same endorsement again, signed anew
				times = rng.Range(2, g.Q+1)
				nRestaters++
				g.restated = true
				g.stats["node/peers_restating_with_fresh_signatures"]++
			}
			for t := 0; t < times; t++ {
				wire, err := vbft.VerifSimEndorseWire(g.accts[s], s, about, blk, h, forEmpty, nil)
				if err != nil {
					return g, nil, "VerifSimEndorseWire: " + err.Error()
				}
				if t == 0 {
					info, _ := vbft.VerifSimDecode(wire)
					if sigsFor[h] == nil {
						sigsFor[h] = map[uint32][]byte{}
					}
					sigsFor[h][s] = info.Sig
				}
				stmts = append(stmts, nodeMsg{from: s, wire: wire, about: fmt.Sprintf("endorse(by %d for p%d empty=%v, signature no %d)", s, about, forEmpty, t+1)})
			}
		}
		if role != 0 {
			es := map[uint32][]byte{}
			var known []int
			for e := range sigsFor[h] {
				known = append(known, int(e))
			}
			sort.Ints(known) // map order must not decide which draw goes to which endorser
			for _, e := range known {
				if uint32(e) != s && rng.Chance(50) {
					es[uint32(e)] = sigsFor[h][uint32(e)]
				}
			}
			wire, err := vbft.VerifSimCommitWire(g.accts[s], s, about, blk, h, forEmpty, nil, es)
			if err != nil {
				return g, nil, "VerifSimCommitWire: " + err.Error()
			}
			var el []int
			for e := range es {
				el = append(el, int(e))
			}
			sort.Ints(el)
			stmts = append(stmts, nodeMsg{from: s, wire: wire, about: fmt.Sprintf("commit(by %d for p%d empty=%v, carrying endorser sigs of %v)", s, about, forEmpty, el)})
		}
	}
	if rng.Chance(75) { // mostly the network reorders the statements, the proposals stay ahead of them
		sp := rng.Perm(len(stmts))
		sh := make([]nodeMsg, len(stmts))
		for i, pi := range sp {
			sh[i] = stmts[pi]
		}
		stmts = sh
	}
	pending = append(pending, stmts...)
	if rng.Chance(15) && len(pending) > 1 { // ... or not even that
		j := rng.Intn(len(pending))
		pending[0], pending[j] = pending[j], pending[0]
	}

	fire := func() (string, bool) {
		armed := g.node.ArmedTimers()
		if len(armed) == 0 {
			return "", false
		}
		e := armed[rng.Intn(len(armed))]
		g.tr("timer %d expires", e)
		if e == vbft.EventCommitBlockTimeout {
			g.stats["node/commit_timer_expired"]++
			// what the pool can hold at this moment: an endorse quorum (C+1) without a signer quorum?
			for p := range g.props {
				V, _ := g.signersFor(p)
				if len(V) >= C+1 && len(V) < g.Q {
					g.stats["node/commit_timer_expired_with_endorse_quorum_but_no_signer_quorum"]++
					break
				}
			}
		}
		if err := g.node.Fire(e); err != nil {
			g.tr("  handler: %v", err)
		}
		g.stats[fmt.Sprintf("node/timer_%d_expired", e)]++
		return fmt.Sprintf("timer-%d-expiry", e), true
	}
	deliver := func() string {
		m := pending[0]
		pending = pending[1:]
		ok, why := g.node.Deliver(m.from, m.wire)
		if !ok {
			g.tr("deliver %s [dropped by receive loop: %s]", m.about, why)
			g.stats["node/rejected_by_receive_loop"]++
			return "dropped-message"
		}
		g.tr("deliver %s", m.about)
		g.stats["node/deliveries"]++
		info, err := vbft.VerifSimDecode(m.wire)
		kind := "message"
		if err == nil {
			switch info.Type {
			case vbft.BlockProposalMessage:
				kind = "proposal-message"
			case vbft.BlockEndorseMessage:
				kind = "endorse-message"
				g.accepted = append(g.accepted, info)
			case vbft.BlockCommitMessage:
				kind = "commit-message"
				g.accepted = append(g.accepted, info)
			}
		}
		return kind
	}
	extra := 0
	for step := 0; step < 200 && len(g.node.Seals) == 0; step++ {
		trigger := ""
		if len(pending) > 0 && !rng.Chance(22) {
			trigger = deliver()
		} else if t, ok := fire(); ok {
			trigger = t
			if len(pending) == 0 {
				extra++
			}
		} else if len(pending) > 0 {
			trigger = deliver()
		} else {
			break
		}
		var pn interface{}
		pn = vf.Catch(func() { g.node.Pump(g.pick) })
		if pn != nil {
			g.stats["node/games_aborted_by_panic"]++
			g.tr("panic while pumping: %v", pn)
			return g, nil, ""
		}
		g.collect()
		if f := g.checkSeal(trigger); f != nil {
			return g, f, ""
		}
		if extra >= 8 {
			break
		}
	}
	if len(g.node.Seals) == 0 {
		g.stats["node/not_declared"]++
		best := 0
		for p := range g.props {
			if V, _ := g.signersFor(p); len(V) > best {
				best = len(V)
			}
		}
		if best < g.Q {
			g.stats["node/not_declared_and_no_signer_quorum_existed"]++
		}
	}
	if g.node.Resyncs > 0 {
		g.stats["node/games_with_resync_request"]++
	}
	return g, nil, ""
}
