// C31, block-pool half, family "restated": one peer states the SAME endorsement (or commit) several
// times, every time with a freshly made signature (ECDSA signing is randomised, so every copy is a
// different, valid byte string: a faulty endorser re-signing, or a node whose re-broadcast builds its
// endorse message anew).  Distinct signers stay what they are; a pool that counts statements instead
// of peers reaches the quorum on multiplicity alone.  Other peers' commits (carrying few or no
// endorser signatures) are what makes a node evaluate commitDone; here it is read after every message.
package main

import (
	"fmt"

	"github.com/ontio/ontology/common"
	vbft "github.com/ontio/ontology/consensus/vbft"
	vconfig "github.com/ontio/ontology/consensus/vbft/config"
	"verifharness/lib/bftkit"
	"verifharness/lib/vf"
)

var restateModes = []string{"endorse-msgs", "endorse-msgs-for-empty", "inside-other-peers-commits", "own-commit-re-signed", "endorse-msgs-of-two-peers"}

// genRestatedCase: case i of the family.  info reports (distinct signers incl. the credited proposer,
// number of statements of the restating peers).
func genRestatedCase(rng *vf.RNG, i int) (cs *caseSpec, distinct int, copies int) {
	g := &gen{rng: rng}
	n := []int{4, 7, 10}[rng.Intn(3)]
	c := (n - 1) / 3
	Q := quorum(n)
	cs = &caseSpec{N: n, C: c, Blk: uint32(10 + rng.Intn(1000)), L: uint32(n * rng.Range(2, 8))}
	g.cs = cs
	cs.Indices = bftkit.Indices(rng, n, rng.Chance(30))
	cs.Stakes = bftkit.Stakes(rng, n, []int{bftkit.ShapeEqual, bftkit.ShapeRandom}[rng.Intn(2)], uint64(cs.L)-uint64(n))
	cs.TxHash = vf.Hex(rng.Bytes(32))
	vrf := rng.Bytes(64)
	cs.Vrf = vf.Hex(vrf)
	cs.Self = cs.Indices[rng.Intn(n)]
	keys := make([]int, n)
	for k := range keys {
		keys[k] = k
	}
	var txh common.Uint256
	b, _ := common.HexToBytes(cs.TxHash)
	copy(txh[:], b)
	cfg, err := bftkit.Genesis(uint32(n), cs.L, uint32(c), bftkit.PeerSet(keys, cs.Indices, cs.Stakes), txh, 1)
	if err != nil {
		panic(err)
	}
	var v vconfig.VRFValue
	copy(v[:], vrf)
	props, _, _ := vbft.VerifCalcParticipantPeers(v, cfg)
	p := props[rng.Intn(len(props))]
	all := append([]uint32{}, cs.Indices...)
	mode := restateModes[i%len(restateModes)]
	nr := 1
	if mode == "endorse-msgs-of-two-peers" && c >= 2 {
		nr = 2
	}
	restaters := g.pick(without(all, p), nr)
	cs.Faulty = restaters
	honest := without(all, append(append([]uint32{}, restaters...), p)...)
	// honest signers besides the proposer and the restaters: from far below the quorum up to just reaching it
	s := rng.Range(0, Q-1-nr)
	if rng.Chance(60) {
		s = rng.Range(Q-3-nr, Q-1-nr)
	}
	if s < 0 {
		s = 0
	}
	if s > len(honest) {
		s = len(honest)
	}
	A := g.pick(honest, s)
	distinct = 1 + nr + len(A)
	cs.Scenario = "restated:" + mode
	t := tagH(p, false)
	role := "faulty:restated-with-fresh-signatures"
	var msgs []msgSpec
	// the honest part: endorsements first, the commits of some of them (carrying little) afterwards
	nCommit := 0
	if len(A) > 0 {
		nCommit = rng.Range(1, len(A))
	}
	for _, x := range A {
		msgs = append(msgs, g.honestEndorse(x, p, false))
	}
	var restated []msgSpec
	for _, r := range restaters {
		k := rng.Range(2, Q+2)
		if mode != "inside-other-peers-commits" {
			copies += k
		}
		for j := 0; j < k; j++ {
			switch mode {
			case "endorse-msgs", "endorse-msgs-of-two-peers":
				restated = append(restated, msgSpec{Kind: "endorse", From: r, Proposer: p, Hash: t, Sig: sigSpec{Signer: r, Over: t, Fresh: j}, Role: role})
			case "endorse-msgs-for-empty":
				te := tagH(p, true)
				restated = append(restated, msgSpec{Kind: "endorse", From: r, Proposer: p, Empty: true, Hash: te, Sig: sigSpec{Signer: r, Over: te, Fresh: j}, Role: role})
			case "own-commit-re-signed":
				if j == 0 {
					restated = append(restated, msgSpec{Kind: "endorse", From: r, Proposer: p, Hash: t, Sig: sigSpec{Signer: r, Over: t}, Role: role})
				}
				restated = append(restated, msgSpec{Kind: "commit", From: r, Proposer: p, Hash: t, Sig: sigSpec{Signer: r, Over: t, Fresh: j + 1},
					Endorsers: map[uint32]sigSpec{r: {Signer: r, Over: t, Fresh: j + 100}}, Role: role})
			}
		}
	}
	msgs = append(msgs, restated...)
	if rng.Chance(60) && len(msgs) > 1 { // the restatements interleave with the honest endorsements
		pm := rng.Perm(len(msgs))
		sh := make([]msgSpec, len(msgs))
		for k := range pm {
			sh[k] = msgs[pm[k]]
		}
		msgs = sh
		cs.Scenario += "|shuffled"
	}
	for k := 0; k < nCommit; k++ {
		x := A[k]
		m := g.honestCommit(x, p, false, nil)
		if mode == "inside-other-peers-commits" {
			// every committer carries the restating peer's endorsement with ANOTHER of its signatures
			m.Endorsers = map[uint32]sigSpec{restaters[0]: {Signer: restaters[0], Over: t, Fresh: k}}
			m.Role = role
			copies++
		} else if rng.Chance(30) && len(A) > 1 {
			y := A[(k+1)%len(A)]
			m.Endorsers = map[uint32]sigSpec{y: {Signer: y, Over: t}}
		}
		msgs = append(msgs, m)
	}
	if mode == "inside-other-peers-commits" {
		// and the peer's own endorse messages, one per signature, arrive last
		last := rng.Range(1, Q)
		for j := 0; j < last; j++ {
			msgs = append(msgs, msgSpec{Kind: "endorse", From: restaters[0], Proposer: p, Hash: t, Sig: sigSpec{Signer: restaters[0], Over: t, Fresh: 50 + j}, Role: role})
			copies++
		}
	}
	cs.Msgs = msgs
	return cs, distinct, copies
}

func restateModeOf(scenario string) string {
	var m string
	fmt.Sscanf(scenario, "restated:%s", &m)
	for k := 0; k < len(m); k++ {
		if m[k] == '|' {
			return m[:k]
		}
	}
	return m
}
