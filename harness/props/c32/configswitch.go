// C32, config-switch phase: the consensus peer set changes while header sync runs ahead of
// block sync.
//
// On the VBFT ledger of the main phase (block height H-1) an honest header at height H that
// carries a NewChainConfig (some genesis members replaced by fresh keys, same N and C) and is
// signed by >= C+1 distinct genesis members is offered through AddHeaders only.  From then on
// the peer set IN FORCE for a header at H+1 (LastConfigBlockNum=H) is the set announced by that
// accepted header.  Hostile inputs that must be rejected (forged blocks/headers for H and H+1
// announcing a chain config made of outsider keys, through AddBlock and AddHeaders, before and
// after the honest header, repeated, in seeded order) are offered, and after each of them
// follow-up headers at H+1 signed by outsiders, by removed genesis members, or by fewer than C+1
// members of the new set (padded) are offered.  The oracle counts, from the wire bytes, the
// distinct members of the set decoded from the accepted header at H whose signature verifies over
// the follow-up's hash.  Every case has a control arm (same follow-up bytes, no hostile input).
package main

import (
	"fmt"
	"sort"
	"strings"
	"sync"

	"github.com/ontio/ontology-crypto/keypair"
	"github.com/ontio/ontology/account"
	"github.com/ontio/ontology/common"
	vconfig "github.com/ontio/ontology/consensus/vbft/config"
	"github.com/ontio/ontology/core/signature"
	"github.com/ontio/ontology/core/types"
	"verifharness/lib/chain"
	"verifharness/lib/vf"
)

// ---------------------------------------------------------------- keys

type csAcct struct {
	label string
	a     *account.Account
}

// csWorld: the key material of one N (read-only while cases run).
type csWorld struct {
	ps        *peerSet
	genCfg    *vconfig.ChainConfig
	old       []csAcct // genesis member at chain-config position j
	fresh     []csAcct // fresh key that may replace position j in the honest new config
	fouts     []csAcct // outsiders a forged chain config lists
	strangers []csAcct // outsiders no config ever lists
	// the stale-config-height family runs in the cases with idx % staleEvery == 0
	staleEvery int
}

func newCSWorld(ps *peerSet, genCfg *vconfig.ChainConfig) (*csWorld, error) {
	w := &csWorld{ps: ps, genCfg: genCfg}
	byID := map[string]*account.Account{}
	for _, a := range ps.peers {
		byID[idOf(a.PublicKey)] = a
	}
	for j, p := range genCfg.Peers {
		a, ok := byID[p.ID]
		if !ok {
			return nil, fmt.Errorf("genesis chain config peer %d (%s) is none of the generated peers", j, p.ID)
		}
		w.old = append(w.old, csAcct{fmt.Sprintf("old%d", j), a})
		w.fresh = append(w.fresh, csAcct{fmt.Sprintf("fresh%d", j), chain.DetAccount(fmt.Sprintf("%s/cs-fresh%d", ps.tag, j))})
		w.fouts = append(w.fouts, csAcct{fmt.Sprintf("forged%d", j), chain.DetAccount(fmt.Sprintf("%s/cs-forged%d", ps.tag, j))})
		w.strangers = append(w.strangers, csAcct{fmt.Sprintf("stranger%d", j), chain.DetAccount(fmt.Sprintf("%s/cs-stranger%d", ps.tag, j))})
	}
	return w, nil
}

// csConfig: the genesis chain config with the given keys at the peer positions.
func (w *csWorld) csConfig(view uint32, at []csAcct) *vconfig.ChainConfig {
	cfg := *w.genCfg
	cfg.View = view
	cfg.Peers = nil
	for j, p := range w.genCfg.Peers {
		cfg.Peers = append(cfg.Peers, &vconfig.PeerConfig{Index: p.Index, ID: idOf(at[j].a.PublicKey)})
	}
	cfg.PosTable = append([]uint32{}, w.genCfg.PosTable...)
	return &cfg
}

func csLabels(as []csAcct) []string {
	out := make([]string, len(as))
	for i, a := range as {
		out[i] = a.label
	}
	return out
}

func csIDs(as []csAcct) map[string]bool {
	m := map[string]bool{}
	for _, a := range as {
		m[idOf(a.a.PublicKey)] = true
	}
	return m
}

func csPick(rng *vf.RNG, from []csAcct, k int) []csAcct {
	if k > len(from) {
		k = len(from)
	}
	out := make([]csAcct, 0, k)
	for _, i := range rng.Perm(len(from))[:k] {
		out = append(out, from[i])
	}
	return out
}

// ---------------------------------------------------------------- headers

// csSig: 'v' = signature of who over the header hash (a repeated reference to the same signer is
// the same bytes), 'g' = n pseudo-random bytes.
type csSig struct {
	kind byte
	who  csAcct
	n    int
}

func csValid(as []csAcct) []csSig {
	out := make([]csSig, len(as))
	for i, a := range as {
		out[i] = csSig{kind: 'v', who: a}
	}
	return out
}

type csHdr struct {
	class  string
	height uint32
	cfg    string // "", "honest-new-config" or "forged:<kind>"
	wire   []byte
	hash   common.Uint256
	listed []string
	sigs   []string
	builtD int // distinct signers of the set in force, by construction
	// oracle, from the wire bytes
	D       int
	signers []int // positions in the set in force
}

func (h *csHdr) describe() map[string]interface{} {
	return map[string]interface{}{"class": h.class, "height": h.height, "new_chain_config": h.cfg, "bookkeepers": h.listed, "sigdata": h.sigs,
		"hash": h.hash.ToHexString(), "header_hex": vf.Hex(h.wire)}
}

// csBuild builds and signs a header on top of prev; inForce = key ids of the set in force for
// it (by construction; used only for the harness self-check against the byte-level oracle).
func csBuild(l *led, prev *types.Header, rng *vf.RNG, class string, lastCfg uint32, cfg *vconfig.ChainConfig, cfgName string, keys []csAcct, sigs []csSig, inForce map[string]bool) *csHdr {
	payload := chain.VBFTPayload(uint32(rng.Intn(len(inForce))+1), rng.Bytes(64), rng.Bytes(64), lastCfg, cfg)
	h := l.c.NextVBFTHeader(prev, prev.Timestamp+uint32(rng.Range(1, 30)), rng.U64(), payload)
	hash := h.Hash()
	out := &csHdr{class: class, height: h.Height, cfg: cfgName, hash: hash}
	for _, k := range keys {
		h.Bookkeepers = append(h.Bookkeepers, k.a.PublicKey)
		out.listed = append(out.listed, k.label)
	}
	cache := map[string][]byte{}
	bd := map[string]bool{}
	for _, s := range sigs {
		if s.kind == 'v' {
			raw, ok := cache[s.who.label]
			if !ok {
				raw = chain.SignHash(s.who.a, hash)
				cache[s.who.label] = raw
			}
			h.SigData = append(h.SigData, raw)
			out.sigs = append(out.sigs, s.who.label)
			if id := idOf(s.who.a.PublicKey); inForce[id] {
				bd[id] = true
			}
		} else {
			h.SigData = append(h.SigData, rng.Bytes(s.n))
			out.sigs = append(out.sigs, fmt.Sprintf("garbage%d", s.n))
		}
	}
	out.builtD = len(bd)
	out.wire = chain.HeaderBytes(h)
	return out
}

// csCount is the oracle: the distinct keys of set for which some signature of the header's
// SigData verifies over the header's hash; everything taken from the wire bytes.
func csCount(set []keypair.PublicKey, wire []byte) (int, []int, common.Uint256, error) {
	dec, err := chain.HeaderFromBytes(wire)
	if err != nil {
		return 0, nil, common.UINT256_EMPTY, err
	}
	dh := dec.Hash()
	seen := map[string]bool{}
	var sigList [][]byte
	for _, s := range dec.SigData {
		if !seen[string(s)] {
			seen[string(s)] = true
			sigList = append(sigList, s)
		}
	}
	var idx []int
	counted := map[string]bool{}
	for i, pk := range set {
		id := idOf(pk)
		if counted[id] {
			continue // a key listed twice in a config is one member
		}
		for _, s := range sigList {
			if signature.Verify(pk, dh[:], s) == nil {
				counted[id] = true
				idx = append(idx, i)
				break
			}
		}
	}
	return len(idx), idx, dh, nil
}

// csPeersOf decodes the peer set and C a header announces.
func csPeersOf(wire []byte) ([]keypair.PublicKey, int, error) {
	dec, err := chain.HeaderFromBytes(wire)
	if err != nil {
		return nil, 0, err
	}
	info, err := vconfig.VbftBlock(dec)
	if err != nil {
		return nil, 0, err
	}
	if info.NewChainConfig == nil {
		return nil, 0, fmt.Errorf("header carries no chain config")
	}
	var out []keypair.PublicKey
	for _, p := range info.NewChainConfig.Peers {
		pk, err := vconfig.Pubkey(p.ID)
		if err != nil {
			return nil, 0, err
		}
		out = append(out, pk)
	}
	return out, int(info.NewChainConfig.C), nil
}

// ---------------------------------------------------------------- offering

// csOffer offers a header (AddHeaders) or the empty block of a header (AddBlock), as bytes.
// accepted: the call returned nil and the ledger moved to the offered header.  anomaly: the
// call returned nil without moving, or returned an error and moved anyway.
func csOffer(l *led, path string, h *csHdr) (accepted bool, errStr, anomaly string) {
	lg := l.c.Ledger
	baseH, baseB := lg.GetCurrentHeaderHeight(), lg.GetCurrentBlockHeight()
	baseHH, baseBH := lg.GetCurrentHeaderHash(), lg.GetCurrentBlockHash()
	hd, err := chain.HeaderFromBytes(h.wire)
	if err != nil {
		return false, "", "offered header does not decode: " + err.Error()
	}
	var e error
	if path == "AddHeaders" {
		if p := vf.Catch(func() { e = lg.AddHeaders([]*types.Header{hd}) }); p != nil {
			e = fmt.Errorf("panic: %v", p)
		}
		accepted = e == nil && lg.GetCurrentHeaderHeight() == baseH+1 && lg.GetCurrentHeaderHash() == h.hash
	} else {
		blk, err := types.BlockFromRawBytes((&types.Block{Header: hd}).ToArray())
		if err != nil {
			return false, "", "block of offered header does not decode: " + err.Error()
		}
		if p := vf.Catch(func() { e = lg.AddBlock(blk, nil, common.UINT256_EMPTY) }); p != nil {
			e = fmt.Errorf("panic: %v", p)
		}
		accepted = e == nil && lg.GetCurrentBlockHeight() == baseB+1 && lg.GetCurrentBlockHash() == h.hash
	}
	if e != nil {
		errStr = e.Error()
	}
	moved := lg.GetCurrentHeaderHeight() != baseH || lg.GetCurrentBlockHeight() != baseB || lg.GetCurrentHeaderHash() != baseHH || lg.GetCurrentBlockHash() != baseBH
	switch {
	case e == nil && !accepted:
		anomaly = path + " returned nil but the ledger did not move to the offered header"
	case e != nil && moved:
		anomaly = path + " returned an error but the ledger heights/tip hashes changed"
	}
	return
}

// ---------------------------------------------------------------- one case

type csStep struct {
	pre      bool   // offered before the honest header at H
	path     string // AddBlock | AddHeaders
	atNext   bool   // forged for H+1 (else H)
	signedBy string
	class    string
	hdr      *csHdr
	repeatOf int // >=0: the same bytes as step repeatOf
}

type csEvent struct {
	kind     string // "pre-hostile", "honest", "hostile", "followup", "positive"
	idx      int    // step / follow-up index
	after    string // follow-ups: class of the hostile input(s) offered since the previous probe ("none")
	nHostile int    // hostile inputs offered so far in this arm
	accepted bool
	err      string
	anomaly  string
}

type csArm struct {
	events  []csEvent
	aborted string
}

type csOutcome struct {
	idx, N, C    int
	H            uint32
	replaced     []int
	cfgKind      string
	forgedPeers  []string
	honest       *csHdr
	honestBy     []string
	steps        []*csStep
	probes       []*csHdr // follow-ups that must be rejected
	positive     *csHdr   // follow-up signed by >= C+1 members of the new set
	control, hit *csArm
	stale        *csStaleArm // stale-config-height family (every staleEvery-th case)
	harness      string
	inconclusive string
}

var csSignedBy = []string{"outsiders", "too-few-members", "nobody", "members-listed-unsigned"}

// the 24 hostile input classes: (path, height, position) x signer class
func csHostileClasses() []csStep {
	var out []csStep
	for _, v := range []struct {
		path        string
		atNext, pre bool
	}{{"AddBlock", false, false}, {"AddBlock", false, true}, {"AddHeaders", false, true}, {"AddHeaders", false, false}, {"AddHeaders", true, false}, {"AddBlock", true, false}} {
		for _, sb := range csSignedBy {
			s := csStep{path: v.path, atNext: v.atNext, pre: v.pre, signedBy: sb, repeatOf: -1}
			s.class = csStepClass(&s)
			out = append(out, s)
		}
	}
	return out
}

func csStepGroup(s *csStep) string {
	what, at, when := "block", "H", "after-honest-H"
	if s.path == "AddHeaders" {
		what = "header"
	}
	if s.atNext {
		at = "H+1"
	}
	if s.pre {
		when = "before-honest-H"
	}
	return fmt.Sprintf("%s:forged-config-%s@%s:%s", s.path, what, at, when)
}

func csStepClass(s *csStep) string { return csStepGroup(s) + ":signed-by=" + s.signedBy }

var csProbeClasses = []string{"outsiders-of-forged-config", "stranger-outsiders", "removed-old-members", "few-new-padded-with-outsiders",
	"few-new-padded-with-removed-old", "few-new-padded-with-duplicates", "few-new-sign-rest-listed-unsigned"}
var csPositiveClasses = []string{"quorum-of-new-set", "quorum-of-fresh-keys-only"}

func runConfigSwitchCase(w *csWorld, l *led, rng *vf.RNG, idx int) *csOutcome {
	N, C := w.ps.N, w.ps.C
	o := &csOutcome{idx: idx, N: N, C: C}
	if err := l.restore(); err != nil {
		panic(fmt.Errorf("restore snapshot: %v", err))
	}
	tip := l.prev
	o.H = tip.Height + 1

	// ---- the honest new chain config: r positions get fresh keys
	var r int
	if rng.Chance(75) {
		r = rng.Range(C+1, N)
	} else {
		r = rng.Range(1, C)
	}
	o.replaced = append([]int{}, rng.Perm(N)[:r]...)
	sort.Ints(o.replaced)
	newSet := append([]csAcct{}, w.old...)
	var removed, freshIn []csAcct
	for _, j := range o.replaced {
		newSet[j] = w.fresh[j]
		removed = append(removed, w.old[j])
		freshIn = append(freshIn, w.fresh[j])
	}
	oldIDs, newIDs := csIDs(w.old), csIDs(newSet)
	honestSigners := csPick(rng, w.old, rng.Range(C+1, N))
	o.honestBy = csLabels(honestSigners)
	o.honest = csBuild(l, tip, rng.Sub(1), "honest-config-switch", o.H, w.csConfig(2, newSet), "honest-new-config", honestSigners, csValid(honestSigners), oldIDs)
	hH, err := chain.HeaderFromBytes(o.honest.wire)
	if err != nil {
		o.harness = "honest config-switch header does not decode: " + err.Error()
		return o
	}
	inForceNext, cNext, err := csPeersOf(o.honest.wire) // the peer set in force above H, from the bytes
	if err != nil {
		o.harness = "honest config-switch header: " + err.Error()
		return o
	}
	if cNext != C || len(inForceNext) != N {
		o.harness = fmt.Sprintf("honest config-switch header announces C=%d peers=%d", cNext, len(inForceNext))
		return o
	}

	// ---- the forged chain config
	forgedAt := append([]csAcct{}, w.fouts...)
	o.cfgKind = "all-outsiders"
	forgedOuts := append([]csAcct{}, w.fouts...)
	if rng.Chance(35) {
		o.cfgKind = "quorum-of-outsiders-rest-honest"
		forgedAt = append([]csAcct{}, newSet...)
		forgedOuts = nil
		for _, j := range rng.Perm(N)[:C+1] {
			forgedAt[j] = w.fouts[j]
			forgedOuts = append(forgedOuts, w.fouts[j])
		}
	}
	o.forgedPeers = csLabels(forgedAt)
	forgedCfg := w.csConfig(2, forgedAt)

	// ---- hostile inputs: 1..4 steps, the first one of class idx mod 24
	classes := csHostileClasses()
	nSteps := rng.Range(1, 4)
	for si := 0; si < nSteps; si++ {
		srng := rng.Sub(uint64(100 + si))
		if si > 0 && srng.Chance(30) { // the same bytes again
			cp := *o.steps[srng.Intn(len(o.steps))]
			o.steps = append(o.steps, &cp)
			continue
		}
		st := classes[idx%len(classes)]
		if si > 0 {
			st = classes[srng.Intn(len(classes))]
		}
		prev, inForce, gov := tip, oldIDs, w.old
		if st.atNext {
			prev, inForce, gov = hH, newIDs, newSet
		}
		var keys []csAcct
		var sigs []csSig
		switch st.signedBy {
		case "outsiders":
			keys = csPick(srng, forgedOuts, srng.Range(C+1, len(forgedOuts)))
			sigs = csValid(keys)
		case "too-few-members":
			keys = csPick(srng, gov, srng.Range(1, C))
			if srng.Bool() {
				for _, f := range csPick(srng, forgedOuts, len(forgedOuts)) {
					if len(keys) >= C+1 {
						break
					}
					keys = append(keys, f)
				}
			}
			sigs = csValid(keys)
		case "nobody":
		case "members-listed-unsigned":
			keys = csPick(srng, gov, srng.Range(C+1, N))
			if srng.Bool() {
				for range keys {
					sigs = append(sigs, csSig{kind: 'g', n: 64})
				}
			}
		}
		step := st
		height := o.H
		if st.atNext {
			height = o.H + 1
		}
		step.hdr = csBuild(l, prev, srng.Sub(7), st.class, height, forgedCfg, "forged:"+o.cfgKind, keys, sigs, inForce)
		o.steps = append(o.steps, &step)
	}
	// pre steps are offered before the honest header, the others after it, each group in generated order
	sort.SliceStable(o.steps, func(i, j int) bool { return o.steps[i].pre && !o.steps[j].pre })
	for k, s := range o.steps { // repeatOf refers to positions: recompute after sorting
		s.repeatOf = -1
		for q := 0; q < k; q++ {
			if o.steps[q].hdr == s.hdr {
				s.repeatOf = q
				break
			}
		}
	}

	// ---- follow-ups at H+1 (LastConfigBlockNum=H, no chain config)
	follow := func(k int, class string, keys []csAcct, sigs []csSig) *csHdr {
		return csBuild(l, hH, rng.Sub(uint64(200+k)), class, o.H, nil, "", keys, sigs, newIDs)
	}
	frng := rng.Sub(3)
	few := func() []csAcct { return csPick(frng, newSet, frng.Range(1, C)) }
	padTo := func(keys []csAcct, from []csAcct) []csAcct {
		want := frng.Range(C+1, N)
		for _, a := range csPick(frng, from, len(from)) {
			if len(keys) >= want {
				break
			}
			keys = append(keys, a)
		}
		return keys
	}
	{
		ks := csPick(frng, forgedOuts, frng.Range(C+1, len(forgedOuts)))
		o.probes = append(o.probes, follow(0, csProbeClasses[0], ks, csValid(ks)))
		ks = csPick(frng, w.strangers, frng.Range(C+1, N))
		o.probes = append(o.probes, follow(1, csProbeClasses[1], ks, csValid(ks)))
		lo := C + 1
		if lo > len(removed) {
			lo = len(removed)
		}
		ks = csPick(frng, removed, frng.Range(lo, len(removed)))
		o.probes = append(o.probes, follow(2, csProbeClasses[2], ks, csValid(ks)))
		ks = padTo(few(), forgedOuts)
		o.probes = append(o.probes, follow(3, csProbeClasses[3], ks, csValid(ks)))
		ks = padTo(few(), removed)
		o.probes = append(o.probes, follow(4, csProbeClasses[4], ks, csValid(ks)))
		ks = few()
		s0 := len(ks)
		for want := frng.Range(C+1, N); len(ks) < want; {
			ks = append(ks, ks[frng.Intn(s0)])
		}
		o.probes = append(o.probes, follow(5, csProbeClasses[5], ks, csValid(ks)))
		ks = few()
		sg := csValid(ks)
		var rest []csAcct
		have := csIDs(ks)
		for _, a := range newSet {
			if !have[idOf(a.a.PublicKey)] {
				rest = append(rest, a)
			}
		}
		ks = padTo(ks, rest)
		if frng.Bool() {
			for len(sg) < len(ks) {
				sg = append(sg, csSig{kind: 'g', n: 64})
			}
		}
		o.probes = append(o.probes, follow(6, csProbeClasses[6], ks, sg))
	}
	if len(freshIn) >= C+1 && frng.Bool() {
		ks := csPick(frng, freshIn, frng.Range(C+1, len(freshIn)))
		o.positive = follow(9, csPositiveClasses[1], ks, csValid(ks))
	} else {
		ks := csPick(frng, newSet, frng.Range(C+1, N))
		o.positive = follow(9, csPositiveClasses[0], ks, csValid(ks))
	}

	// ---- oracle values from the bytes, and the harness self-check against the construction
	check := func(h *csHdr, set []keypair.PublicKey) bool {
		d, who, dh, err := csCount(set, h.wire)
		if err != nil {
			o.harness = h.class + ": offered header does not decode: " + err.Error()
			return false
		}
		if dh != h.hash {
			o.harness = h.class + ": hash changed by adding signatures"
			return false
		}
		h.D, h.signers = d, who
		if d != h.builtD {
			o.harness = fmt.Sprintf("%s: oracle D=%d but the header was built with %d valid signers of the set in force", h.class, d, h.builtD)
			return false
		}
		return true
	}
	if !check(o.honest, w.ps.members) {
		return o
	}
	if o.honest.D < C+1 {
		o.harness = "honest config-switch header was built below quorum"
		return o
	}
	for _, s := range o.steps {
		set := w.ps.members
		if s.atNext {
			set = inForceNext
		}
		if !check(s.hdr, set) {
			return o
		}
		if s.hdr.D >= C+1 {
			o.harness = "hostile input " + s.class + " was built with a quorum"
			return o
		}
	}
	for _, f := range o.probes {
		if !check(f, inForceNext) {
			return o
		}
		if f.D >= C+1 {
			o.harness = "follow-up " + f.class + " was built with a quorum"
			return o
		}
	}
	if !check(o.positive, inForceNext) {
		return o
	}
	if o.positive.D < C+1 {
		o.harness = "positive control was built below quorum"
		return o
	}

	// ---- the two arms
	o.control = o.runArm(l, false, false)
	if o.inconclusive != "" || o.harness != "" {
		return o
	}
	o.hit = o.runArm(l, true, true)
	if w.staleEvery > 0 && idx%w.staleEvery == 0 {
		var retained []csAcct
		for j, a := range w.old {
			if newSet[j].label == a.label {
				retained = append(retained, a)
			}
		}
		o.stale = o.runStaleArm(l, rng.Sub(900), (idx/w.staleEvery)%len(csStaleVariants), hH, newSet, removed, retained, newIDs, inForceNext)
	}
	return o
}

// runArm: restore, [pre hostile steps], honest header at H through AddHeaders, probes,
// [each post hostile step followed by probes], positive control.
func (o *csOutcome) runArm(l *led, hostile, restoreFirst bool) *csArm {
	arm := &csArm{}
	if restoreFirst {
		if err := l.restore(); err != nil {
			panic(fmt.Errorf("restore snapshot: %v", err))
		}
	}
	var done []int // hostile steps offered so far
	honestDone := false
	offerHonest := func(record bool) bool {
		acc, es, an := csOffer(l, "AddHeaders", o.honest)
		if record {
			arm.events = append(arm.events, csEvent{kind: "honest", accepted: acc, err: es, anomaly: an, nHostile: len(done)})
		}
		lg := l.c.Ledger
		if !acc || lg.GetCurrentHeaderHeight() != o.H || lg.GetCurrentBlockHeight() != o.H-1 {
			if record && !hostile {
				o.inconclusive = fmt.Sprintf("honest config-switch header at height %d (signed by %v) was not accepted by AddHeaders: %s %s", o.H, o.honestBy, es, an)
			}
			arm.aborted = "honest config-switch header not accepted: " + es + an
			return false
		}
		honestDone = true
		return true
	}
	offerStep := func(si int, record bool) bool {
		s := o.steps[si]
		acc, es, an := csOffer(l, s.path, s.hdr)
		if record {
			kind := "hostile"
			if s.pre {
				kind = "pre-hostile"
			}
			arm.events = append(arm.events, csEvent{kind: kind, idx: si, accepted: acc, err: es, anomaly: an, nHostile: len(done)})
			done = append(done, si)
		}
		if acc || an != "" {
			arm.aborted = "hostile input " + s.class + " moved the ledger"
			return false
		}
		return true
	}
	replays := 0
	replay := func() bool { // bring the ledger back to "everything offered so far, no follow-up"
		replays++
		if replays > 4 {
			arm.aborted = "more than 4 follow-ups accepted in one arm"
			return false
		}
		if err := l.restore(); err != nil {
			panic(fmt.Errorf("restore snapshot: %v", err))
		}
		for _, si := range done {
			if o.steps[si].pre && !offerStep(si, false) {
				return false
			}
		}
		if honestDone && !offerHonest(false) {
			return false
		}
		for _, si := range done {
			if !o.steps[si].pre && !offerStep(si, false) {
				return false
			}
		}
		return true
	}
	probe := func(after string) bool {
		for fi, f := range o.probes {
			acc, es, an := csOffer(l, "AddHeaders", f)
			arm.events = append(arm.events, csEvent{kind: "followup", idx: fi, after: after, accepted: acc, err: es, anomaly: an, nHostile: len(done)})
			if (acc || an != "") && !replay() {
				return false
			}
		}
		return true
	}
	var pre []string
	if hostile {
		for si, s := range o.steps {
			if s.pre {
				if !offerStep(si, true) {
					return arm
				}
				pre = append(pre, s.class)
			}
		}
	}
	if !offerHonest(true) {
		return arm
	}
	after := "none"
	if len(pre) > 0 {
		after = csJoinClasses(pre)
	}
	if !probe(after) {
		return arm
	}
	if hostile {
		for si, s := range o.steps {
			if s.pre {
				continue
			}
			if !offerStep(si, true) {
				return arm
			}
			if !probe(s.class) {
				return arm
			}
		}
	}
	all := "none"
	if hostile {
		var cl []string
		for _, s := range o.steps {
			cl = append(cl, s.class)
		}
		all = csJoinClasses(cl)
	}
	acc, es, an := csOffer(l, "AddHeaders", o.positive)
	arm.events = append(arm.events, csEvent{kind: "positive", after: all, accepted: acc, err: es, anomaly: an, nHostile: len(done)})
	return arm
}

func csJoinClasses(cl []string) string {
	seen := map[string]bool{}
	var out []string
	for _, c := range cl {
		if !seen[c] {
			seen[c] = true
			out = append(out, c)
		}
	}
	sort.Strings(out)
	return strings.Join(out, "+")
}

// ---------------------------------------------------------------- phase driver

func runConfigSwitchPhase(ps *peerSet, genCfg *vconfig.ChainConfig, pool chan *led, workers int, rng *vf.RNG, nCases, staleEvery int) ([]*csOutcome, error) {
	w, err := newCSWorld(ps, genCfg)
	if err != nil {
		return nil, err
	}
	w.staleEvery = staleEvery
	outs := make([]*csOutcome, nCases)
	var mu sync.Mutex
	vf.Parallel(nCases, workers, func(i int) {
		l := <-pool
		o := runConfigSwitchCase(w, l, rng.Sub(uint64(i)), i)
		pool <- l
		mu.Lock()
		outs[i] = o
		mu.Unlock()
	})
	return outs, nil
}

// ---------------------------------------------------------------- verdicts

func csAccRej(a bool) string {
	if a {
		return "accepted"
	}
	return "rejected"
}

func (o *csOutcome) witness(seed uint64, arm *csArm, upto int, f *csHdr, extra map[string]interface{}) map[string]interface{} {
	var offered []map[string]interface{}
	for _, e := range arm.events[:upto+1] {
		switch e.kind {
		case "pre-hostile", "hostile":
			s := o.steps[e.idx]
			d := s.hdr.describe()
			d["offered_through"] = s.path
			d["verdict"] = csAccRej(e.accepted)
			d["error"] = e.err
			d["distinct_valid_signers_of_the_set_in_force_for_it"] = s.hdr.D
			if s.repeatOf >= 0 {
				d["same_bytes_as_step"] = s.repeatOf
			}
			offered = append(offered, d)
		case "honest":
			d := o.honest.describe()
			d["offered_through"] = "AddHeaders"
			d["verdict"] = csAccRej(e.accepted)
			offered = append(offered, d)
		}
	}
	wt := map[string]interface{}{
		"N": o.N, "C": o.C, "required": o.C + 1, "case_index": o.idx,
		"heights":                              map[string]interface{}{"block_height": o.H - 1, "H(config switch header, header index only)": o.H, "follow_up": o.H + 1},
		"ledger":                               fmt.Sprintf("chain.NewVBFT with peers chain.DetAccount(\"c32-%d-n%d/peer<i>\"), C=%d, plus 2 honest empty blocks (heights 1,2); header sync then runs ahead of block sync", seed, o.N, o.C),
		"keys":                                 fmt.Sprintf("old<j> = genesis chain-config peer at position j; fresh<j>/forged<j>/stranger<j> = chain.DetAccount(\"c32-%d-n%d/cs-fresh<j>\" | cs-forged<j> | cs-stranger<j>)", seed, o.N),
		"honest_new_config_replaces_positions": o.replaced, "honest_header_signed_by": o.honestBy,
		"forged_config_kind": o.cfgKind, "forged_config_peers": o.forgedPeers,
		"inputs_offered_in_order_before_the_follow_up": offered,
	}
	if f != nil {
		d := f.describe()
		d["offered_through"] = "AddHeaders"
		d["D_distinct_members_of_the_set_in_force_with_valid_signature"] = f.D
		d["valid_signer_positions_in_the_new_config"] = f.signers
		wt["follow_up"] = d
	}
	for k, v := range extra {
		wt[k] = v
	}
	return wt
}

type csViol struct {
	key, what string
	w         map[string]interface{}
	o         *csOutcome
	size      int
}

func configSwitchVerdicts(r *vf.Run, outs []*csOutcome) {
	var viols []csViol
	var samples []interface{}
	seed := vf.Seed()
	for _, o := range outs {
		if o == nil {
			continue
		}
		if o.harness != "" {
			r.Inconclusive(fmt.Sprintf("harness: config-switch N=%d case %d: %s", o.N, o.idx, o.harness))
			continue
		}
		if o.inconclusive != "" {
			r.Inconclusive(fmt.Sprintf("harness: config-switch N=%d case %d: %s", o.N, o.idx, o.inconclusive))
			continue
		}
		var stepFP []string
		for _, s := range o.steps {
			stepFP = append(stepFP, fmt.Sprintf("%s[%s|%s]", s.class, strings.Join(s.hdr.listed, ","), strings.Join(s.hdr.sigs, ",")))
		}
		var fuFP []string
		for _, f := range append(append([]*csHdr{}, o.probes...), o.positive) {
			fuFP = append(fuFP, fmt.Sprintf("%s[%s|%s]", f.class, strings.Join(f.listed, ","), strings.Join(f.sigs, ",")))
		}
		r.Eval(fmt.Sprintf("cs/%d/%v/%s/%s/%s/%s", o.N, o.replaced, strings.Join(o.honestBy, ","), o.cfgKind, strings.Join(stepFP, ";"), strings.Join(fuFP, ";")))
		r.Count(fmt.Sprintf("cs/N=%d", o.N))
		r.Count("cs/forged-config/" + o.cfgKind)
		switch {
		case len(o.replaced) <= o.C:
			r.Count("cs/new-config-replaces/1..C-members")
		case len(o.replaced) < o.N:
			r.Count("cs/new-config-replaces/C+1..N-1-members")
		default:
			r.Count("cs/new-config-replaces/all-members")
		}
		r.Count(fmt.Sprintf("cs/hostile-steps=%d", len(o.steps)))
		r.Add("cs/oracle_D_equals_constructed_D", int64(2+len(o.steps)+len(o.probes)))

		// control verdict per follow-up
		ctlProbe := map[int]csEvent{}
		firstAfter := map[string]string{}
		var ctlPos *csEvent
		for ai, arm := range []*csArm{o.control, o.hit} {
			if arm == nil {
				continue
			}
			armName := "control"
			if ai == 1 {
				armName = "after-hostile"
			}
			for ei := range arm.events {
				e := arm.events[ei]
				if e.anomaly != "" {
					r.Count("cs/anomaly(VIOLATION)")
					var f *csHdr
					what := e.kind
					if e.kind == "followup" {
						f = o.probes[e.idx]
						what = "follow-up:" + f.class
					} else if e.kind == "positive" {
						f = o.positive
						what = "follow-up:" + f.class
					} else if e.kind != "honest" {
						what = "hostile-input:" + o.steps[e.idx].class
					}
					viols = append(viols, csViol{o: o, size: e.nHostile, key: "config-switch:verdict-and-ledger-movement-disagree:" + what,
						what: fmt.Sprintf("N=%d C=%d config switch at height %d: %s (%s arm): %s", o.N, o.C, o.H, what, armName, e.anomaly),
						w:    o.witness(seed, arm, ei, f, map[string]interface{}{"arm": armName, "error": e.err})})
				}
				switch e.kind {
				case "honest":
					if e.accepted {
						r.Count("cs/honest-config-switch-header-accepted/" + armName)
					} else {
						r.Count("cs/honest-config-switch-header-rejected/" + armName)
						if ai == 1 { // accepted in the control arm (else the case was dropped as harness trouble)
							var cl []string
							for _, s := range o.steps[:e.nHostile] {
								cl = append(cl, s.class)
							}
							viols = append(viols, csViol{o: o, size: e.nHostile,
								key:  "config-switch:rejected-input-changed-later-verdict:honest-config-switch-header:control=accepted,after=rejected:after=" + csJoinClasses(cl),
								what: fmt.Sprintf("N=%d C=%d: the honest config-switching header at height %d (signed by %d distinct members of the genesis peer set) is accepted on the untouched ledger but rejected after hostile inputs that were all rejected: %s", o.N, o.C, o.H, o.honest.D, e.err),
								w:    o.witness(seed, arm, ei, nil, map[string]interface{}{"control_verdict": "accepted", "error_after_hostile_inputs": e.err})})
						}
					}
				case "pre-hostile", "hostile":
					s := o.steps[e.idx]
					r.Count("cs/hostile/" + s.class)
					r.Count("cs/hostile-group/" + csStepGroup(s))
					r.Count("cs/hostile-signed-by/" + s.signedBy)
					if s.repeatOf >= 0 {
						r.Count("cs/hostile-same-bytes-repeated")
					}
					if !e.accepted {
						r.Count("cs/hostile/rejected")
						break
					}
					r.Count("cs/hostile/accepted(VIOLATION)")
					viols = append(viols, csViol{o: o, size: e.nHostile,
						key:  "config-switch:header-accepted-below-quorum-of-the-peer-set-in-force:hostile-input:" + s.class,
						what: fmt.Sprintf("N=%d C=%d: %s accepted a forged height-%d header announcing a chain config of outsider keys (%s) with valid signatures of only %d distinct members of the peer set in force for it (need C+1=%d)", o.N, o.C, s.path, s.hdr.height, o.cfgKind, s.hdr.D, o.C+1),
						w:    o.witness(seed, arm, ei, nil, map[string]interface{}{"arm": armName})})
				case "followup":
					f := o.probes[e.idx]
					r.Count("cs/followup/" + f.class)
					r.Count("cs/followup/" + f.class + "/" + armName + "/" + csAccRej(e.accepted))
					if ai == 0 {
						ctlProbe[e.idx] = e
					} else {
						r.Count("cs/followup-after/" + f.class + "/after=" + csAfterGroup(o, e))
						if c, ok := ctlProbe[e.idx]; ok {
							switch {
							case c.accepted != e.accepted:
								r.Count("cs/differential/verdict-changed")
							case c.err != e.err:
								r.Count("cs/differential/same-verdict-error-text-changed(informational)")
							default:
								r.Count("cs/differential/same-verdict")
							}
							if c.accepted && !e.accepted {
								viols = append(viols, csViol{o: o, size: e.nHostile,
									key:  fmt.Sprintf("config-switch:rejected-input-changed-later-verdict:%s:control=accepted,after=rejected:after=%s", f.class, e.after),
									what: fmt.Sprintf("N=%d C=%d config switch at height %d: the same height-%d follow-up header (%s) is accepted without and rejected after rejected hostile inputs (%s)", o.N, o.C, o.H, o.H+1, f.class, e.after),
									w:    o.witness(seed, arm, ei, f, map[string]interface{}{"control_error": c.err, "error_after_hostile_inputs": e.err})})
							}
						}
					}
					if e.accepted {
						r.Count("cs/followup/accepted_with_D<C+1(VIOLATION)")
						// the hostile input after which this follow-up was accepted first in this arm is the one the key names
						ak := fmt.Sprintf("%d/%d", ai, e.idx)
						if _, ok := firstAfter[ak]; !ok {
							firstAfter[ak] = e.after
						}
						after := firstAfter[ak]
						viols = append(viols, csViol{o: o, size: e.nHostile,
							key:  fmt.Sprintf("config-switch:header-accepted-below-quorum-of-the-peer-set-in-force:%s:after=%s", f.class, after),
							what: fmt.Sprintf("N=%d C=%d: the header at height %d switched the chain config (accepted by AddHeaders, block height %d); AddHeaders then accepted a height-%d header (LastConfigBlockNum=%d) listing %v signed by %v: valid signatures of only %d distinct members of the peer set in force (need C+1=%d); accepted first after the rejected hostile input: %s", o.N, o.C, o.H, o.H-1, o.H+1, o.H, f.listed, f.sigs, f.D, o.C+1, after),
							w:    o.witness(seed, arm, ei, f, map[string]interface{}{"arm": armName, "accepted_first_after": after, "last_hostile_input_before_this_offer": e.after})})
					} else {
						r.Count("cs/followup/rejected_with_D<C+1")
					}
				case "positive":
					f := o.positive
					r.Count("cs/positive-control/" + f.class)
					r.Count("cs/positive-control/" + armName + "/" + csAccRej(e.accepted))
					if ai == 0 {
						ev := e
						ctlPos = &ev
						if !e.accepted {
							r.Inconclusive(fmt.Sprintf("harness: config-switch N=%d case %d: positive control (%s, D=%d >= C+1=%d) rejected without any hostile input: %s", o.N, o.idx, f.class, f.D, o.C+1, e.err))
						}
					} else if ctlPos != nil {
						if ctlPos.accepted == e.accepted {
							r.Count("cs/differential/same-verdict")
						} else {
							r.Count("cs/differential/verdict-changed")
						}
						if ctlPos.accepted && !e.accepted {
							viols = append(viols, csViol{o: o, size: e.nHostile,
								key:  fmt.Sprintf("config-switch:rejected-input-changed-later-verdict:%s:control=accepted,after=rejected:after=%s", f.class, e.after),
								what: fmt.Sprintf("N=%d C=%d config switch at height %d: the height-%d header signed by %d distinct members of the new peer set is accepted without, but rejected after, hostile inputs that were all rejected (%s): %s", o.N, o.C, o.H, o.H+1, f.D, e.after, e.err),
								w:    o.witness(seed, arm, ei, f, map[string]interface{}{"control_verdict": "accepted", "error_after_hostile_inputs": e.err})})
						}
					}
				}
			}
			if arm.aborted != "" {
				r.Count("cs/arm-aborted/" + armName)
			} else {
				r.Count("cs/arm-complete/" + armName)
			}
		}
		viols = append(viols, csStaleVerdicts(r, o, seed)...)
		if len(samples) < 3 && o.hit != nil {
			var st []map[string]interface{}
			for _, s := range o.steps {
				st = append(st, map[string]interface{}{"class": s.class, "bookkeepers": s.hdr.listed, "sigdata": s.hdr.sigs})
			}
			var fu []map[string]interface{}
			for _, f := range append(append([]*csHdr{}, o.probes...), o.positive) {
				fu = append(fu, map[string]interface{}{"class": f.class, "bookkeepers": f.listed, "sigdata": f.sigs, "D": f.D})
			}
			samples = append(samples, map[string]interface{}{"N": o.N, "H": o.H, "replaced_positions": o.replaced, "honest_signed_by": o.honestBy,
				"forged_config": o.forgedPeers, "hostile_steps": st, "follow_ups": fu, "events_after_hostile_arm": len(o.hit.events)})
		}
	}
	csSortViols(viols)
	for _, v := range viols {
		r.Violation(v.key, v.what, v.w)
	}
	r.Extra("config_switch_samples", samples)
}

// csAfterGroup: coarse name of what preceded a probe (for coverage counters only).
func csAfterGroup(o *csOutcome, e csEvent) string {
	if e.after == "none" {
		return "none"
	}
	if e.nHostile > 0 {
		s := o.steps[e.nHostile-1]
		if !s.pre && s.class == e.after {
			return csStepGroup(s)
		}
	}
	return "before-honest-H-inputs"
}

func configSwitchRequire(r *vf.Run, ns []int, perN, staleEvery int) {
	csStaleRequire(r, int64(len(ns))*int64((perN+staleEvery-1)/staleEvery))
	for _, N := range ns {
		r.Require(fmt.Sprintf("cs/N=%d", N), int64(perN))
	}
	nn := int64(len(ns))
	r.Require("cs/honest-config-switch-header-accepted/control", nn*int64(perN))
	r.Require("cs/honest-config-switch-header-accepted/after-hostile", nn*int64(perN))
	for _, c := range csHostileClasses() {
		r.Require("cs/hostile/"+c.class, 2*nn)
	}
	r.Require("cs/hostile/rejected", nn*int64(perN))
	r.Require("cs/hostile-same-bytes-repeated", 4)
	for _, k := range []string{"all-outsiders", "quorum-of-outsiders-rest-honest"} {
		r.Require("cs/forged-config/"+k, 8)
	}
	for _, c := range csProbeClasses {
		r.Require("cs/followup/"+c+"/control/rejected", nn*int64(perN))
		r.Require("cs/followup/"+c+"/after-hostile/rejected", nn*int64(perN))
		r.Require("cs/followup-after/"+c+"/after=AddBlock:forged-config-block@H:after-honest-H", 8)
		r.Require("cs/followup-after/"+c+"/after=AddHeaders:forged-config-header@H+1:after-honest-H", 8)
		r.Require("cs/followup-after/"+c+"/after=before-honest-H-inputs", 8)
	}
	for _, c := range csPositiveClasses {
		r.Require("cs/positive-control/"+c, 8)
	}
	r.Require("cs/positive-control/control/accepted", nn*int64(perN))
	r.Require("cs/positive-control/after-hostile/accepted", nn*int64(perN))
	r.Require("cs/differential/same-verdict", nn*int64(perN)*8)
	r.Require("cs/arm-complete/after-hostile", nn*int64(perN))
}
