// C32, config-switch phase, stale-config-height family.
//
// After the honest config-switching header at H is accepted (variant 1: header only, block
// height H-1; variant 2: its block H also committed through AddBlock; variant 3: block H
// committed and the ledger closed and reopened), headers and blocks at H+1 are offered that name
// a STALE chain-config height in their own consensus payload (LastConfigBlockNum = 0, the genesis
// set, or a height in 1..H-1) and are signed by members of the genesis set: C+1.. removed
// members, retained members below quorum topped up with removed ones, all genesis members; plus
// a header signed by a quorum of the new set that names the stale height.  The peer set in force
// at H+1 is the one established at H whatever height the header names: an accepted header needs
// C+1 distinct verifying signers from that set (counted by csCount from the bytes).
package main

import (
	"fmt"
	"sort"

	"github.com/ontio/ontology-crypto/keypair"
	"github.com/ontio/ontology/core/types"
	"verifharness/lib/vf"
)

var csStaleVariants = []string{"header-H-accepted-block-H-not-committed", "block-H-committed", "block-H-committed-ledger-reopened"}
var csStaleSigners = []string{"removed-old-members-quorum", "removed+retained-mix-retained-below-quorum", "all-genesis-members", "new-set-quorum"}

type csStaleOffer struct {
	signer, path string
	L            uint32
	hdr          *csHdr
	accepted     bool
	err, anomaly string
}

type csStaleArm struct {
	variant  string
	vi       int
	offers   []*csStaleOffer
	skipped  []string // signer classes the case's new config cannot provide
	control  *csStaleOffer
	aborted  string
	restores int
}

// runStaleArm runs the family on the worker ledger; hH = the honest header at H.
func (o *csOutcome) runStaleArm(l *led, rng *vf.RNG, variant int, hH *types.Header, newSet, removed, retained []csAcct, newIDs map[string]bool, inForceNext []keypair.PublicKey) *csStaleArm {
	arm := &csStaleArm{variant: csStaleVariants[variant], vi: variant}
	N, C := o.N, o.C
	setup := func() string {
		arm.restores++
		if err := l.restore(); err != nil {
			panic(fmt.Errorf("restore snapshot: %v", err))
		}
		if acc, es, an := csOffer(l, "AddHeaders", o.honest); !acc {
			return "honest config-switch header not accepted by AddHeaders: " + es + an
		}
		if variant >= 1 {
			if acc, es, an := csOffer(l, "AddBlock", o.honest); !acc {
				return fmt.Sprintf("the block of the honest config-switch header (height %d) was not accepted by AddBlock: %s%s", o.H, es, an)
			}
		}
		if variant == 2 {
			if err := l.c.Close(); err != nil {
				return "close: " + err.Error()
			}
			if err := l.c.OpenSame(); err != nil {
				return "reopen: " + err.Error()
			}
		}
		lg := l.c.Ledger
		wantB := o.H - 1
		if variant >= 1 {
			wantB = o.H
		}
		if lg.GetCurrentHeaderHeight() != o.H || lg.GetCurrentBlockHeight() != wantB || lg.GetCurrentHeaderHash() != o.honest.hash {
			return fmt.Sprintf("after setup header height %d block height %d (wanted %d, %d)", lg.GetCurrentHeaderHeight(), lg.GetCurrentBlockHeight(), o.H, wantB)
		}
		return ""
	}
	if why := setup(); why != "" {
		arm.aborted = why
		o.inconclusive = "stale-config-height family (" + arm.variant + "): " + why
		return arm
	}

	// ---- the headers (built on the prepared ledger: the block root of height H+1 is right when block H is committed)
	type sc struct {
		name string
		keys []csAcct
	}
	var scs []sc
	if len(removed) >= C+1 {
		scs = append(scs, sc{csStaleSigners[0], csPick(rng, removed, rng.Range(C+1, len(removed)))})
	} else {
		arm.skipped = append(arm.skipped, csStaleSigners[0])
	}
	if len(retained) >= 1 && len(removed) >= 1 {
		hi := C
		if hi > len(retained) {
			hi = len(retained)
		}
		kr := rng.Range(1, hi)
		if kr+len(removed) >= C+1 {
			ks := csPick(rng, retained, kr)
			ks = append(ks, csPick(rng, removed, rng.Range(C+1-kr, len(removed)))...)
			if rng.Bool() {
				p := rng.Perm(len(ks))
				sh := make([]csAcct, len(ks))
				for i, j := range p {
					sh[i] = ks[j]
				}
				ks = sh
			}
			scs = append(scs, sc{csStaleSigners[1], ks})
		} else {
			arm.skipped = append(arm.skipped, csStaleSigners[1])
		}
	} else {
		arm.skipped = append(arm.skipped, csStaleSigners[1])
	}
	{
		var all []csAcct
		all = append(all, retained...)
		all = append(all, removed...)
		scs = append(scs, sc{csStaleSigners[2], csPick(rng, all, len(all))})
		scs = append(scs, sc{csStaleSigners[3], csPick(rng, newSet, rng.Range(C+1, N))})
	}
	for _, zero := range []bool{false, true} { // the headers naming a height in 1..H-1 first, then those naming 0
		for k, s := range scs {
			L := uint32(0)
			if !zero {
				L = uint32(rng.Range(1, int(o.H)-1))
			}
			h := csBuild(l, hH, rng.Sub(uint64(10*k)+uint64(L)+1), "stale-config-height:"+s.name, L, nil, "", s.keys, csValid(s.keys), newIDs)
			d, who, dh, err := csCount(inForceNext, h.wire)
			if err != nil || dh != h.hash || d != h.builtD {
				o.harness = fmt.Sprintf("stale-config-height %s: oracle D=%d built %d err=%v", s.name, d, h.builtD, err)
				return arm
			}
			h.D, h.signers = d, who
			if s.name != csStaleSigners[2] && s.name != csStaleSigners[3] && d >= C+1 {
				o.harness = "stale-config-height " + s.name + " was built with a quorum of the new set"
				return arm
			}
			for _, path := range []string{"AddHeaders", "AddBlock"} {
				arm.offers = append(arm.offers, &csStaleOffer{signer: s.name, path: path, L: L, hdr: h})
			}
		}
	}
	// control: a quorum of the new set, naming H, through the path that can accept at this point
	ck := csPick(rng, newSet, rng.Range(C+1, N))
	ch := csBuild(l, hH, rng.Sub(99), "control:new-set-quorum-naming-H", o.H, nil, "", ck, csValid(ck), newIDs)
	cd, cwho, _, cerr := csCount(inForceNext, ch.wire)
	if cerr != nil || cd != ch.builtD || cd < C+1 {
		o.harness = fmt.Sprintf("stale-config-height control: oracle D=%d built %d err=%v", cd, ch.builtD, cerr)
		return arm
	}
	ch.D, ch.signers = cd, cwho
	arm.control = &csStaleOffer{signer: "control", path: "AddHeaders", L: o.H, hdr: ch}
	if variant >= 1 {
		arm.control.path = "AddBlock"
	}

	// ---- offering
	for _, of := range arm.offers {
		of.accepted, of.err, of.anomaly = csOffer(l, of.path, of.hdr)
		if of.accepted || of.anomaly != "" {
			if why := setup(); why != "" {
				arm.aborted = "replay after an accepted stale-config-height header: " + why
				return arm
			}
		}
	}
	c := arm.control
	c.accepted, c.err, c.anomaly = csOffer(l, c.path, c.hdr)
	return arm
}

func csStaleVerdicts(r *vf.Run, o *csOutcome, seed uint64) []csViol {
	arm := o.stale
	if arm == nil {
		return nil
	}
	var viols []csViol
	r.Count("cs/stale/cases")
	r.Count("cs/stale/variant/" + arm.variant)
	r.Add("cs/stale/ledger-restores", int64(arm.restores))
	for _, s := range arm.skipped {
		r.Count("cs/stale/signed-by/" + s + "/not-constructible-in-this-case")
	}
	if arm.aborted != "" {
		r.Count("cs/stale/arm-aborted")
	}
	for _, of := range arm.offers {
		lc := "names-0"
		if of.L > 0 {
			lc = "names-1..H-1"
		}
		r.Count("cs/stale/signed-by/" + of.signer)
		r.Count("cs/stale/path/" + of.path)
		r.Count("cs/stale/" + lc)
		r.Add("cs/oracle_D_equals_constructed_D", 1)
		dq := "D<C+1"
		if of.hdr.D >= o.C+1 {
			dq = "D>=C+1"
		}
		r.Count(fmt.Sprintf("cs/stale/%s/%s/%s/%s/%s/%s", arm.variant, of.signer, of.path, lc, dq, csAccRej(of.accepted)))
		wt := func() map[string]interface{} {
			hd := o.honest.describe()
			hd["signed_by"] = o.honestBy
			fd := of.hdr.describe()
			fd["LastConfigBlockNum_named_by_the_header"] = of.L
			fd["offered_through"] = of.path
			fd["D_distinct_members_of_the_set_in_force_with_valid_signature"] = of.hdr.D
			fd["valid_signer_positions_in_the_new_config"] = of.hdr.signers
			blockH := o.H - 1
			if arm.variant != csStaleVariants[0] {
				blockH = o.H
			}
			return map[string]interface{}{
				"N": o.N, "C": o.C, "required": o.C + 1, "case_index": o.idx, "ledger_state": arm.variant,
				"heights":                              map[string]interface{}{"block_height_when_offered": blockH, "header_height_when_offered": o.H, "H(config switch)": o.H, "offered_header": o.H + 1},
				"ledger":                               fmt.Sprintf("chain.NewVBFT with peers chain.DetAccount(\"c32-%d-n%d/peer<i>\"), C=%d, plus 2 honest empty blocks (heights 1,2)", seed, o.N, o.C),
				"keys":                                 fmt.Sprintf("old<j> = genesis chain-config peer at position j; fresh<j> = chain.DetAccount(\"c32-%d-n%d/cs-fresh<j>\"); the new config has fresh<j> at the replaced positions and old<j> elsewhere", seed, o.N),
				"honest_new_config_replaces_positions": o.replaced, "honest_config_switch_header_at_H": hd,
				"offered_header": fd, "error": of.err,
			}
		}
		if of.anomaly != "" {
			viols = append(viols, csViol{o: o, key: "config-switch:verdict-and-ledger-movement-disagree:stale-config-height:" + of.signer + ":" + of.path,
				what: fmt.Sprintf("N=%d C=%d (%s): %s", o.N, o.C, arm.variant, of.anomaly), w: wt()})
		}
		switch {
		case of.accepted && of.hdr.D >= o.C+1:
			r.Count("cs/stale/accepted_with_D>=C+1")
		case of.accepted:
			r.Count("cs/stale/accepted_with_D<C+1(VIOLATION)")
			viols = append(viols, csViol{o: o, size: 10*arm.vi + int(of.L),
				key:  fmt.Sprintf("config-switch:header-accepted-below-quorum-of-the-peer-set-in-force:stale-config-height:%s:%s", of.signer, of.path),
				what: fmt.Sprintf("N=%d C=%d, ledger state %q: the header at height %d switched the chain config (positions %v replaced); %s then accepted a height-%d header that names LastConfigBlockNum=%d, listing and signed by %v: valid signatures of only %d distinct members of the peer set in force (need C+1=%d)", o.N, o.C, arm.variant, o.H, o.replaced, of.path, o.H+1, of.L, of.hdr.listed, of.hdr.D, o.C+1),
				w:    wt()})
		case of.hdr.D >= o.C+1:
			r.Count("cs/stale/rejected_with_D>=C+1(informational)")
		default:
			r.Count("cs/stale/rejected_with_D<C+1")
		}
	}
	if c := arm.control; c != nil && arm.aborted == "" {
		r.Count("cs/stale/control/" + c.path + "/" + csAccRej(c.accepted))
		if !c.accepted {
			r.Inconclusive(fmt.Sprintf("harness: config-switch N=%d case %d, stale-config-height family (%s): control header at height %d (quorum of the new set, LastConfigBlockNum=%d) rejected by %s: %s %s", o.N, o.idx, arm.variant, o.H+1, o.H, c.path, c.err, c.anomaly))
		}
	}
	return viols
}

func csStaleRequire(r *vf.Run, nStale int64) {
	r.Require("cs/stale/cases", nStale)
	for _, v := range csStaleVariants {
		r.Require("cs/stale/variant/"+v, nStale/4)
	}
	for _, s := range csStaleSigners {
		r.Require("cs/stale/signed-by/"+s, nStale/4)
	}
	for _, p := range []string{"AddHeaders", "AddBlock"} {
		r.Require("cs/stale/path/"+p, nStale)
	}
	r.Require("cs/stale/names-0", nStale)
	r.Require("cs/stale/names-1..H-1", nStale)
	r.Require("cs/stale/control/AddHeaders/accepted", nStale/4)
	r.Require("cs/stale/control/AddBlock/accepted", nStale/4)
	r.Require("cs/stale/rejected_with_D<C+1", nStale)
}

// csSortViols: smallest witnesses first.
func csSortViols(viols []csViol) {
	sort.SliceStable(viols, func(i, j int) bool {
		a, b := viols[i], viols[j]
		if a.o.N != b.o.N {
			return a.o.N < b.o.N
		}
		if a.size != b.size {
			return a.size < b.size
		}
		return a.o.idx < b.o.idx
	})
}
