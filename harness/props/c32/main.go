// C32 — Synced VBFT block headers carry signatures of more than C consensus peers.
//
// Forged-header monitor on real VBFT ledgers (N in {4,7,10}, C=(N-1)/3): candidate next
// headers (right height / prev hash / timestamp / block root / VBFT consensus payload
// pointing at the genesis chain config) with generated Bookkeepers / SigData lists are
// offered, as bytes, through LedgerStore.AddHeaders and LedgerStore.AddBlock.  The
// monitor itself computes D = number of distinct genesis-config member keys for which some
// signature of SigData verifies over the header hash (core/signature.Verify).  A header
// accepted with D < C+1 contradicts the property.  The property is an "only if":
// rejecting a header with D >= C+1 is only counted.
package main

import (
	"fmt"
	"os"
	"path/filepath"
	"runtime"
	"sort"
	"strings"
	"sync"

	"github.com/ontio/ontology-crypto/keypair"
	"github.com/ontio/ontology/account"
	"github.com/ontio/ontology/common"
	vconfig "github.com/ontio/ontology/consensus/vbft/config"
	"github.com/ontio/ontology/core/signature"
	"github.com/ontio/ontology/core/types"
	"verifharness/lib/chain"
	"verifharness/lib/vf"
)

// ---------------------------------------------------------------- case description

type keyRef struct {
	Out bool // outsider (not in the chain config) or member
	I   int
}

func (k keyRef) String() string {
	if k.Out {
		return fmt.Sprintf("o%d", k.I)
	}
	return fmt.Sprintf("m%d", k.I)
}

// sigRef: 'v' = signature of Who over the header hash, 'x' = signature of Who over the
// hash of a different header (consensus data flipped), 'g' = Len pseudo-random bytes.
type sigRef struct {
	Kind  byte
	Who   keyRef
	Len   int
	Fresh int // >0: a separately produced signature (different bytes) of the same signer over the same hash
}

func (s sigRef) String() string {
	switch s.Kind {
	case 'v':
		if s.Fresh > 0 {
			return fmt.Sprintf("%s#%d", s.Who.String(), s.Fresh)
		}
		return s.Who.String()
	case 'x':
		return "otherhash:" + s.Who.String()
	}
	return fmt.Sprintf("garbage%d", s.Len)
}

type peerSet struct {
	N, C    int
	tag     string
	peers   []*account.Account  // member i
	outs    []*account.Account  // outsiders
	members []keypair.PublicKey // decoded from the genesis chain config (what the oracle uses)
}

func (ps *peerSet) acct(k keyRef) *account.Account {
	if k.Out {
		return ps.outs[k.I]
	}
	return ps.peers[k.I]
}

type shape struct {
	name string
	gen  func(rng *vf.RNG, ps *peerSet) ([]keyRef, []sigRef)
}

func members(idx []int) []keyRef {
	out := make([]keyRef, len(idx))
	for i, v := range idx {
		out[i] = keyRef{I: v}
	}
	return out
}

func pick(rng *vf.RNG, n, k int) []int { return rng.Perm(n)[:k] }

func valid(ks []keyRef) []sigRef {
	out := make([]sigRef, len(ks))
	for i, k := range ks {
		out[i] = sigRef{Kind: 'v', Who: k}
	}
	return out
}

func garbage(rng *vf.RNG) sigRef {
	lens := []int{0, 1, 32, 63, 64, 64, 64, 65, 65, 66, 97}
	return sigRef{Kind: 'g', Len: lens[rng.Intn(len(lens))]}
}

func shuffleSigs(rng *vf.RNG, s []sigRef) []sigRef {
	p := rng.Perm(len(s))
	out := make([]sigRef, len(s))
	for i, j := range p {
		out[i] = s[j]
	}
	return out
}

func shuffleKeys(rng *vf.RNG, s []keyRef) []keyRef {
	p := rng.Perm(len(s))
	out := make([]keyRef, len(s))
	for i, j := range p {
		out[i] = s[j]
	}
	return out
}

func shapes() []shape {
	return []shape{
		{"honest", func(rng *vf.RNG, ps *peerSet) ([]keyRef, []sigRef) {
			ks := members(pick(rng, ps.N, rng.Range(ps.C+1, ps.N)))
			return ks, valid(ks)
		}},
		{"honest-sigs-permuted", func(rng *vf.RNG, ps *peerSet) ([]keyRef, []sigRef) {
			ks := members(pick(rng, ps.N, rng.Range(ps.C+1, ps.N)))
			return ks, shuffleSigs(rng, valid(ks))
		}},
		{"below-quorum-all-sign", func(rng *vf.RNG, ps *peerSet) ([]keyRef, []sigRef) {
			ks := members(pick(rng, ps.N, rng.Range(1, ps.C)))
			return ks, valid(ks)
		}},
		// the S8 region: C+1.. distinct members LISTED, only 1..C of them sign
		{"quorum-listed-few-sign", func(rng *vf.RNG, ps *peerSet) ([]keyRef, []sigRef) {
			ks := members(pick(rng, ps.N, rng.Range(ps.C+1, ps.N)))
			s := rng.Range(1, ps.C)
			signers := shuffleKeys(rng, ks)[:s]
			return ks, valid(signers)
		}},
		{"quorum-listed-few-sign-padded", func(rng *vf.RNG, ps *peerSet) ([]keyRef, []sigRef) {
			ks := members(pick(rng, ps.N, rng.Range(ps.C+1, ps.N)))
			s := rng.Range(1, ps.C)
			sg := valid(ks[:s])
			for len(sg) < len(ks) {
				switch rng.Intn(3) {
				case 0:
					sg = append(sg, garbage(rng))
				case 1:
					sg = append(sg, sigRef{Kind: 'x', Who: ks[len(sg)]})
				default:
					sg = append(sg, sg[rng.Intn(s)])
				}
			}
			if rng.Chance(30) {
				sg = shuffleSigs(rng, sg)
			}
			return ks, sg
		}},
		{"quorum-listed-one-sig-repeated", func(rng *vf.RNG, ps *peerSet) ([]keyRef, []sigRef) {
			ks := members(pick(rng, ps.N, rng.Range(ps.C+1, ps.N)))
			a := ks[rng.Intn(len(ks))]
			var sg []sigRef
			for j := rng.Range(1, len(ks)); j > 0; j-- {
				sg = append(sg, sigRef{Kind: 'v', Who: a})
			}
			return ks, sg
		}},
		{"one-member-repeated", func(rng *vf.RNG, ps *peerSet) ([]keyRef, []sigRef) {
			a := keyRef{I: rng.Intn(ps.N)}
			var ks []keyRef
			for j := rng.Range(ps.C+1, ps.N+2); j > 0; j-- {
				ks = append(ks, a)
			}
			sg := valid(ks)
			if rng.Bool() { // k different signatures of the one signer instead of one signature k times
				for i := range sg {
					sg[i].Fresh = i
				}
			}
			return ks, sg
		}},
		{"quorum-listed-plus-duplicate-keys", func(rng *vf.RNG, ps *peerSet) ([]keyRef, []sigRef) {
			ks := members(pick(rng, ps.N, rng.Range(ps.C+1, ps.N)))
			nsign := 1
			if ps.C >= 2 && rng.Bool() {
				nsign = 2
			}
			signers := append([]keyRef{}, ks[:nsign]...)
			var sg []sigRef
			for _, a := range signers {
				sg = append(sg, sigRef{Kind: 'v', Who: a})
				for d := rng.Range(1, 3); d > 0; d-- {
					at := rng.Intn(len(ks) + 1)
					ks = append(ks[:at], append([]keyRef{a}, ks[at:]...)...)
					sg = append(sg, sigRef{Kind: 'v', Who: a})
				}
			}
			return ks, sg
		}},
		{"non-members-listed-quorum-signs", func(rng *vf.RNG, ps *peerSet) ([]keyRef, []sigRef) {
			ks := members(pick(rng, ps.N, rng.Range(ps.C+1, ps.N)))
			sg := valid(ks)
			for o := rng.Range(1, 2); o > 0; o-- {
				ok := keyRef{Out: true, I: o - 1}
				at := rng.Intn(len(ks) + 1)
				ks = append(ks[:at], append([]keyRef{ok}, ks[at:]...)...)
				if rng.Bool() {
					if at > len(sg) {
						at = len(sg)
					}
					sg = append(sg[:at], append([]sigRef{{Kind: 'v', Who: ok}}, sg[at:]...)...)
				}
			}
			return ks, sg
		}},
		{"non-members-sign-for-listed-members", func(rng *vf.RNG, ps *peerSet) ([]keyRef, []sigRef) {
			ks := members(pick(rng, ps.N, rng.Range(ps.C+1, ps.N)))
			var sg []sigRef
			for i := range ks {
				sg = append(sg, sigRef{Kind: 'v', Who: keyRef{Out: true, I: i % len(ps.outs)}})
			}
			return ks, sg
		}},
		{"few-members-padded-with-non-members", func(rng *vf.RNG, ps *peerSet) ([]keyRef, []sigRef) {
			ks := members(pick(rng, ps.N, rng.Range(1, ps.C)))
			want := ps.C + 1 + rng.Intn(2)
			for o := 0; len(ks) < want; o++ {
				ks = append(ks, keyRef{Out: true, I: o % len(ps.outs)})
			}
			if rng.Bool() {
				ks = shuffleKeys(rng, ks)
			}
			return ks, valid(ks)
		}},
		{"signatures-over-other-hash", func(rng *vf.RNG, ps *peerSet) ([]keyRef, []sigRef) {
			ks := members(pick(rng, ps.N, rng.Range(ps.C+1, ps.N)))
			s := rng.Range(0, ps.C)
			sg := valid(ks[:s])
			for i := s; i < len(ks); i++ {
				sg = append(sg, sigRef{Kind: 'x', Who: ks[i]})
			}
			return ks, sg
		}},
		{"garbage-signatures", func(rng *vf.RNG, ps *peerSet) ([]keyRef, []sigRef) {
			ks := members(pick(rng, ps.N, rng.Range(ps.C+1, ps.N)))
			var sg []sigRef
			for j := rng.Range(1, len(ks)+1); j > 0; j-- {
				sg = append(sg, garbage(rng))
			}
			return ks, sg
		}},
		{"empty-lists", func(rng *vf.RNG, ps *peerSet) ([]keyRef, []sigRef) {
			ks := members(pick(rng, ps.N, rng.Range(ps.C+1, ps.N)))
			switch rng.Intn(3) {
			case 0:
				return nil, nil
			case 1:
				return ks, nil
			}
			return nil, valid(ks)
		}},
		// D >= C+1 but a bad signature sits in front: the only-if direction does not forbid rejecting it
		{"valid-quorum-after-bad-first-sig", func(rng *vf.RNG, ps *peerSet) ([]keyRef, []sigRef) {
			ks := members(pick(rng, ps.N, rng.Range(ps.C+1, ps.N)))
			bad := garbage(rng)
			if rng.Bool() {
				bad = sigRef{Kind: 'x', Who: ks[0]}
			}
			return ks, append([]sigRef{bad}, valid(ks)...)
		}},
		{"random-mix", func(rng *vf.RNG, ps *peerSet) ([]keyRef, []sigRef) {
			var ks []keyRef
			for j := rng.Range(0, ps.N+3); j > 0; j-- {
				switch {
				case rng.Chance(12):
					ks = append(ks, keyRef{Out: true, I: rng.Intn(len(ps.outs))})
				case len(ks) > 0 && rng.Chance(25):
					ks = append(ks, ks[rng.Intn(len(ks))])
				default:
					ks = append(ks, keyRef{I: rng.Intn(ps.N)})
				}
			}
			var sg []sigRef
			for j := rng.Range(0, ps.N+3); j > 0; j-- {
				switch k := rng.Intn(10); {
				case k < 5 && len(ks) > 0:
					sg = append(sg, sigRef{Kind: 'v', Who: ks[rng.Intn(len(ks))]})
				case k < 6:
					sg = append(sg, sigRef{Kind: 'v', Who: keyRef{I: rng.Intn(ps.N)}})
				case k < 7 && len(sg) > 0:
					sg = append(sg, sg[rng.Intn(len(sg))])
				case k < 8:
					sg = append(sg, sigRef{Kind: 'x', Who: keyRef{I: rng.Intn(ps.N)}})
				case k < 9:
					sg = append(sg, sigRef{Kind: 'v', Who: keyRef{Out: true, I: rng.Intn(len(ps.outs))}})
				default:
					sg = append(sg, garbage(rng))
				}
			}
			return ks, sg
		}},
	}
}

// ---------------------------------------------------------------- one case

type outcome struct {
	idx             int
	N, C            int
	shape           string
	keys, sigs      []string
	hdrHex          string
	listedMembers   int  // distinct member keys in Bookkeepers
	nonMemberListed bool // some listed key is not in the chain config
	dupKeys         bool
	D               int   // distinct members with a verifying signature (oracle)
	validSigners    []int // their indices
	builtD          int   // D expected by construction (harness self-check)
	errHeaders      string
	errBlock        string
	accHeaders      bool
	accBlock        bool
	harness         string // non-empty: harness problem (not a property verdict)
}

type led struct {
	c    *chain.Chain
	snap string
	prev *types.Header
}

func (l *led) restore() error {
	if l.c.Ledger != nil {
		if err := l.c.Close(); err != nil {
			return err
		}
	}
	if err := chain.CopyDir(l.snap, l.c.Dir); err != nil {
		return err
	}
	if err := l.c.OpenSame(); err != nil {
		return err
	}
	h, err := l.c.Ledger.GetHeaderByHash(l.c.Ledger.GetCurrentBlockHash())
	if err != nil {
		return err
	}
	l.prev = h
	return nil
}

func idOf(pk keypair.PublicKey) string { return vconfig.PubkeyID(pk) }

func runCase(ps *peerSet, l *led, sh shape, rng *vf.RNG, idx int) *outcome {
	o := &outcome{idx: idx, N: ps.N, C: ps.C, shape: sh.name}
	ks, sg := sh.gen(rng, ps)
	// candidate header: as consensus/vbft builds an empty block on the current tip
	proposer := uint32(rng.Intn(ps.N) + 1)
	payload := chain.VBFTPayload(proposer, rng.Bytes(64), rng.Bytes(64), 0, nil)
	cd := rng.U64()
	h := l.c.NextVBFTHeader(l.prev, l.prev.Timestamp+uint32(rng.Range(1, 30)), cd, payload)
	hash := h.Hash()
	other := *h
	other.ConsensusData ^= 1
	oh, err := chain.HeaderFromBytes(chain.HeaderBytes(&other))
	if err != nil {
		o.harness = "re-decode of candidate header failed: " + err.Error()
		return o
	}
	otherHash := oh.Hash()
	if otherHash == hash {
		o.harness = "other-hash equals header hash"
		return o
	}
	for _, k := range ks {
		h.Bookkeepers = append(h.Bookkeepers, ps.acct(k).PublicKey)
		o.keys = append(o.keys, k.String())
	}
	cache := map[string][]byte{}
	for _, s := range sg {
		var raw []byte
		switch s.Kind {
		case 'v', 'x':
			ck := s.String()
			if b, ok := cache[ck]; ok {
				raw = b // a repeated reference is the same signature bytes (a duplicated signature)
			} else {
				if s.Kind == 'v' {
					raw = chain.SignHash(ps.acct(s.Who), hash)
				} else {
					raw = chain.SignHash(ps.acct(s.Who), otherHash)
				}
				cache[ck] = raw
			}
		default:
			raw = rng.Bytes(s.Len)
		}
		h.SigData = append(h.SigData, raw)
		o.sigs = append(o.sigs, s.String())
	}
	wire := chain.HeaderBytes(h)
	o.hdrHex = vf.Hex(wire)

	// ---- oracle input, from the wire bytes only
	dec, err := chain.HeaderFromBytes(wire)
	if err != nil {
		o.harness = "candidate header does not decode: " + err.Error()
		return o
	}
	dh := dec.Hash()
	if dh != hash {
		o.harness = "hash changed by adding signatures"
		return o
	}
	memberIdx := map[string]int{}
	for i, pk := range ps.members {
		memberIdx[idOf(pk)] = i
	}
	seenKey := map[string]bool{}
	listed := map[int]bool{}
	for _, pk := range dec.Bookkeepers {
		id := idOf(pk)
		if seenKey[id] {
			o.dupKeys = true
		}
		seenKey[id] = true
		if i, ok := memberIdx[id]; ok {
			listed[i] = true
		} else {
			o.nonMemberListed = true
		}
	}
	o.listedMembers = len(listed)
	distinctSigs := map[string]bool{}
	var sigList [][]byte
	for _, s := range dec.SigData {
		if !distinctSigs[string(s)] {
			distinctSigs[string(s)] = true
			sigList = append(sigList, s)
		}
	}
	for i, pk := range ps.members {
		for _, s := range sigList {
			if signature.Verify(pk, dh[:], s) == nil {
				o.validSigners = append(o.validSigners, i)
				break
			}
		}
	}
	o.D = len(o.validSigners)
	bd := map[int]bool{}
	for _, s := range sg {
		if s.Kind == 'v' && !s.Who.Out {
			// member index in ps.peers order -> find in config order through the key id
			bd[memberIdx[idOf(ps.peers[s.Who.I].PublicKey)]] = true
		}
	}
	o.builtD = len(bd)

	// ---- offer: sync order, headers first, then the block of the same header
	baseH := l.c.Ledger.GetCurrentHeaderHeight()
	baseB := l.c.Ledger.GetCurrentBlockHeight()
	h1, _ := chain.HeaderFromBytes(wire)
	var e1 error
	if p := vf.Catch(func() { e1 = l.c.Ledger.AddHeaders([]*types.Header{h1}) }); p != nil {
		e1 = fmt.Errorf("panic: %v", p)
	}
	if e1 != nil {
		o.errHeaders = e1.Error()
	}
	o.accHeaders = e1 == nil && l.c.Ledger.GetCurrentHeaderHeight() == baseH+1 && l.c.Ledger.GetCurrentHeaderHash() == hash
	if e1 == nil && !o.accHeaders {
		o.harness = "AddHeaders returned nil but the header index did not move to the candidate"
	}
	h2, _ := chain.HeaderFromBytes(wire)
	blk := &types.Block{Header: h2}
	blk2, err := types.BlockFromRawBytes(blk.ToArray())
	if err != nil {
		o.harness = "block of candidate header does not decode: " + err.Error()
	} else {
		var e2 error
		if p := vf.Catch(func() { e2 = l.c.Ledger.AddBlock(blk2, nil, common.UINT256_EMPTY) }); p != nil {
			e2 = fmt.Errorf("panic: %v", p)
		}
		if e2 != nil {
			o.errBlock = e2.Error()
		}
		o.accBlock = e2 == nil && l.c.Ledger.GetCurrentBlockHeight() == baseB+1 && l.c.Ledger.GetCurrentBlockHash() == hash
		if e2 == nil && !o.accBlock {
			o.harness = "AddBlock returned nil but the ledger did not move to the candidate"
		}
	}
	if o.accHeaders || o.accBlock || l.c.Ledger.GetCurrentHeaderHeight() != baseH || l.c.Ledger.GetCurrentBlockHeight() != baseB {
		if err := l.restore(); err != nil {
			panic(fmt.Errorf("restore snapshot: %v", err))
		}
		if l.c.Ledger.GetCurrentHeaderHeight() != baseH || l.c.Ledger.GetCurrentBlockHeight() != baseB {
			panic("snapshot restore did not bring the ledger back")
		}
	}
	return o
}

// ---------------------------------------------------------------- main

func classD(d, c int) string {
	switch {
	case d == 0:
		return "0"
	case d == 1:
		return "1"
	case d <= c:
		return "2..C"
	}
	return ">=C+1"
}

func main() {
	r := vf.NewRun("C32", "exploration",
		"VBFT ledgers with N in {4,7,10} generated peers (C=(N-1)/3), 2 honest blocks, then candidate next headers (valid height/prev/timestamp/block root/VbftBlockInfo payload) whose Bookkeepers/SigData come from 16 list shapes (honest, permuted, below quorum, quorum listed but 1..C signing, padded, one signature repeated, one member repeated, duplicate keys, non-members listed/signing, other-hash, garbage, empty, bad first signature, random mix); each offered as bytes to AddHeaders and AddBlock on a ledger restored from the snapshot after every acceptance; distinct by (N, shape, key list, signature list).  Config-switch phase (N in {4,7}, and 10 in thorough): on the same ledger (block height 2) an honest height-3 header carrying a NewChainConfig (1..N genesis members replaced by fresh keys, same N and C; signed by C+1..N genesis members) is accepted through AddHeaders only; per case 1..4 hostile inputs from 24 classes (forged block/header for height 3 or 4 announcing a chain config of outsider keys x AddBlock/AddHeaders x before/after the honest header x signed by outsiders / too few members / nobody / members listed but unsigned; first class = case index mod 24, the others seeded, 30% exact repeats) are offered and, after the honest header and after every later hostile input, 7 height-4 follow-up headers (LastConfigBlockNum=3) that must be rejected (signed by the forged config's outsiders, by stranger outsiders, by removed genesis members, by 1..C new members padded with outsiders / removed members / duplicates / unsigned listed members), then one positive control signed by C+1.. members of the new set; every case also runs a control arm (same follow-up bytes, no hostile input) on a ledger restored from the snapshot; distinct by (N, replaced positions, signers, forged config kind, hostile step lists, follow-up lists).  Stale-config-height family (every 4th config-switch case in quick, every 8th in thorough; ledger state rotating over: header 3 accepted only / block 3 also committed through AddBlock / committed and ledger reopened): height-4 headers naming LastConfigBlockNum=0 or 1..2, signed by C+1.. removed genesis members, by retained members below quorum topped up with removed ones, by all genesis members, by a quorum of the new set, each through AddHeaders and AddBlock, then a control header naming 3")
	scratch := vf.Scratch("c32")
	rng := vf.NewRNG(vf.Seed())
	shs := shapes()
	total := vf.N(2000, 40000)  // headers; each is offered on two paths (4 000 / 80 000 offers)
	workers := runtime.NumCPU() // reopening a ledger is allocation heavy; more than ~6 workers only adds contention
	if workers > 6 {
		workers = 6
	}
	if workers < 2 {
		workers = 2
	}
	var all []*outcome
	var csAll []*csOutcome
	var csNs []int
	csPerN := vf.N(96, 1200)   // config-switch cases per N (a multiple of the 24 hostile input classes)
	csStaleEvery := vf.N(4, 8) // every k-th of them also runs the stale-config-height family
	mInfo := map[string]interface{}{}
	for ni, N := range []int{4, 7, 10} {
		C := (N - 1) / 3
		ps := &peerSet{N: N, C: C, tag: fmt.Sprintf("c32-%d-n%d", vf.Seed(), N)}
		for i := 0; i < N; i++ {
			ps.peers = append(ps.peers, chain.DetAccount(fmt.Sprintf("%s/peer%d", ps.tag, i)))
		}
		for i := 0; i < 3; i++ {
			ps.outs = append(ps.outs, chain.DetAccount(fmt.Sprintf("%s/outsider%d", ps.tag, i)))
		}
		snap := filepath.Join(scratch, fmt.Sprintf("n%d-snap", N))
		base, err := chain.NewVBFT(snap, ps.peers, C)
		if err != nil {
			panic(err)
		}
		cfg, err := base.VBFTGenesisConfig()
		if err != nil {
			panic(err)
		}
		if int(cfg.C) != C || len(cfg.Peers) != N {
			panic(fmt.Sprintf("genesis chain config has C=%d peers=%d, wanted C=%d N=%d", cfg.C, len(cfg.Peers), C, N))
		}
		for _, p := range cfg.Peers {
			pk, err := vconfig.Pubkey(p.ID)
			if err != nil {
				panic(err)
			}
			ps.members = append(ps.members, pk)
		}
		mInfo[fmt.Sprintf("N=%d", N)] = map[string]int{"C+1": C + 1, "code_sig_count_m=n-6n/7": N - 6*N/7}
		// two honest blocks through the sync path (headers, then block)
		for b := 0; b < 2; b++ {
			prev, err := base.Ledger.GetHeaderByHash(base.Ledger.GetCurrentBlockHash())
			if err != nil {
				panic(err)
			}
			h := base.NextVBFTHeader(prev, 0, uint64(1000+b), chain.VBFTPayload(uint32(b+1), make([]byte, 64), make([]byte, 64), 0, nil))
			hash := h.Hash()
			signers := ps.peers[:C+1]
			if b == 1 {
				signers = ps.peers
			}
			for _, a := range signers {
				h.Bookkeepers = append(h.Bookkeepers, a.PublicKey)
				h.SigData = append(h.SigData, chain.SignHash(a, hash))
			}
			hh, _ := chain.HeaderFromBytes(chain.HeaderBytes(h))
			if err := base.Ledger.AddHeaders([]*types.Header{hh}); err != nil {
				r.Inconclusive(fmt.Sprintf("harness: honest header %d rejected by AddHeaders on N=%d: %v", b+1, N, err))
				os.RemoveAll(scratch)
				r.Finish()
			}
			if err := base.Ledger.AddBlock(&types.Block{Header: hh}, nil, common.UINT256_EMPTY); err != nil || base.Ledger.GetCurrentBlockHeight() != uint32(b+1) {
				r.Inconclusive(fmt.Sprintf("harness: honest block %d rejected by AddBlock on N=%d: %v", b+1, N, err))
				os.RemoveAll(scratch)
				r.Finish()
			}
			r.Count("setup_honest_block_accepted")
		}
		if err := base.Close(); err != nil {
			panic(err)
		}
		pool := make(chan *led, workers)
		var leds []*led
		for w := 0; w < workers; w++ {
			l := &led{c: base.CloneAt(filepath.Join(scratch, fmt.Sprintf("n%d-w%d", N, w))), snap: snap}
			if err := l.restore(); err != nil {
				panic(err)
			}
			leds = append(leds, l)
			pool <- l
		}
		nCases := total / 3
		outs := make([]*outcome, nCases)
		sub := rng.Sub(uint64(ni))
		var mu sync.Mutex
		vf.Parallel(nCases, workers, func(i int) {
			l := <-pool
			o := runCase(ps, l, shs[i%len(shs)], sub.Sub(uint64(i)), i)
			pool <- l
			mu.Lock()
			outs[i] = o
			mu.Unlock()
		})
		// config-switch phase on the same worker ledgers (its own RNG stream: the cases above are unchanged)
		if N != 10 || vf.Thorough() {
			csOuts, err := runConfigSwitchPhase(ps, cfg, pool, workers, rng.Sub(uint64(1000+ni)), csPerN, csStaleEvery)
			if err != nil {
				r.Inconclusive(fmt.Sprintf("harness: config-switch phase N=%d: %v", N, err))
			}
			csAll = append(csAll, csOuts...)
			csNs = append(csNs, N)
		}
		for _, l := range leds {
			l.c.Close()
		}
		all = append(all, outs...)
		os.RemoveAll(scratch)
		os.MkdirAll(scratch, 0o755)
	}
	r.Extra("thresholds", mInfo)

	// ---- verdicts (sequential, in case order: deterministic)
	type viol struct {
		key, what string
		o         *outcome
		path      string
	}
	var viols []viol
	for _, o := range all {
		if o.harness != "" {
			r.Inconclusive(fmt.Sprintf("harness: N=%d case %d (%s): %s", o.N, o.idx, o.shape, o.harness))
			continue
		}
		fp := fmt.Sprintf("%d/%s/%s/%s", o.N, o.shape, strings.Join(o.keys, ","), strings.Join(o.sigs, ","))
		if len(o.keys) == 0 && len(o.sigs) == 0 {
			fp = ""
		}
		r.Eval(fp)
		r.Count("shape/" + o.shape)
		r.Count(fmt.Sprintf("N=%d", o.N))
		if o.builtD != o.D {
			r.Inconclusive(fmt.Sprintf("harness: N=%d case %d (%s): oracle D=%d but the list was built with %d valid member signers", o.N, o.idx, o.shape, o.D, o.builtD))
		} else {
			r.Count("oracle_D_equals_constructed_D")
		}
		if o.accHeaders != o.accBlock {
			r.Count("paths_disagree")
		}
		for _, p := range []struct {
			name string
			acc  bool
			err  string
		}{{"AddHeaders", o.accHeaders, o.errHeaders}, {"AddBlock", o.accBlock, o.errBlock}} {
			oc := "rejected"
			if p.acc {
				oc = "accepted"
			}
			r.Count("shape/" + o.shape + "/" + oc)
			r.Count(p.name + "/" + oc)
			switch {
			case p.acc && o.D >= o.C+1:
				r.Count("accepted_with_D>=C+1")
			case p.acc:
				r.Count("accepted_with_D<C+1(VIOLATION)")
				lc := "listed>=C+1"
				if o.listedMembers < o.C+1 {
					lc = "listed<C+1"
				}
				key := fmt.Sprintf("header-accepted-with-too-few-valid-signers:%s,valid=%s", lc, classD(o.D, o.C))
				if o.nonMemberListed {
					key += ",non-member-listed"
				}
				if o.dupKeys {
					key += ",duplicate-keys"
				}
				viols = append(viols, viol{key: key, path: p.name, o: o,
					what: fmt.Sprintf("%s accepted a height-3 header on the N=%d C=%d ledger with %d distinct member keys listed but valid signatures of only %d distinct members (need C+1=%d); shape %s", p.name, o.N, o.C, o.listedMembers, o.D, o.C+1, o.shape)})
			case o.D >= o.C+1 && !o.nonMemberListed && len(o.keys) >= o.N-6*o.N/7:
				r.Count("rejected_with_D>=C+1(over-strict,informational)")
			case o.D >= o.C+1:
				r.Count("rejected_with_D>=C+1_non-member-listed")
			default:
				r.Count("rejected_with_D<C+1")
			}
		}
	}
	// smallest witnesses first, so that the replay written per key is the minimal one seen
	sort.SliceStable(viols, func(i, j int) bool {
		a, b := viols[i].o, viols[j].o
		if a.N != b.N {
			return a.N < b.N
		}
		if len(a.keys)+len(a.sigs) != len(b.keys)+len(b.sigs) {
			return len(a.keys)+len(a.sigs) < len(b.keys)+len(b.sigs)
		}
		return a.idx < b.idx
	})
	for _, v := range viols {
		o := v.o
		r.Violation(v.key, v.what, map[string]interface{}{
			"N": o.N, "C": o.C, "path": v.path, "shape": o.shape, "case_index": o.idx,
			"ledger":                           fmt.Sprintf("chain.NewVBFT with peers chain.DetAccount(\"c32-%d-n%d/peer<i>\"), i<N (outsiders …/outsider<i>), C=%d, plus 2 honest empty blocks (heights 1,2); candidate at height 3", vf.Seed(), o.N, o.C),
			"bookkeepers(m=member,o=outsider)": o.keys, "sigdata": o.sigs,
			"distinct_member_keys_listed":             o.listedMembers,
			"D_distinct_members_with_valid_signature": o.D, "valid_signer_config_indices": o.validSigners, "required": o.C + 1,
			"code_checks_first_m_signatures": o.N - 6*o.N/7,
			"AddHeaders_error":               o.errHeaders, "AddBlock_error": o.errBlock,
			"header_hex": o.hdrHex,
		})
	}
	configSwitchVerdicts(r, csAll)
	for _, i := range []int{0, 3, 5, 7, 15} {
		if i < len(all) && all[i] != nil {
			o := all[i]
			r.Sample(map[string]interface{}{"N": o.N, "shape": o.shape, "bookkeepers": o.keys, "sigdata": o.sigs, "listed_members": o.listedMembers,
				"D": o.D, "AddHeaders_accepted": o.accHeaders, "AddBlock_accepted": o.accBlock, "AddHeaders_error": o.errHeaders, "header_hex_prefix": o.hdrHex[:200]})
		}
	}
	for _, s := range shs {
		r.Require("shape/"+s.name, 9)
	}
	for _, N := range []int{4, 7, 10} {
		r.Require(fmt.Sprintf("N=%d", N), 100)
	}
	r.Require("setup_honest_block_accepted", 6)
	r.Require("shape/honest/accepted", 6)
	r.Require("shape/honest-sigs-permuted/accepted", 6)
	r.Require("shape/below-quorum-all-sign/rejected", 6)
	r.Require("shape/one-member-repeated/rejected", 6)
	r.Require("shape/garbage-signatures/rejected", 6)
	r.Require("shape/signatures-over-other-hash", 6)
	r.Require("accepted_with_D>=C+1", 20)
	r.Require("rejected_with_D<C+1", 20)
	r.Require("oracle_D_equals_constructed_D", int64(total/3*3))
	configSwitchRequire(r, csNs, csPerN, csStaleEvery)
	r.Extra("exhaustive", false)
	r.Assume("config-switch phase: the peer set in force for a height-4 header with LastConfigBlockNum=3 is the set announced by the height-3 header that AddHeaders accepted (decoded by the monitor from that header's bytes; header index at 3, block height still 2); C is taken from the same config; follow-ups of the hostile-input arms name LastConfigBlockNum=3; in the stale-config-height family the set in force at height 4 is still the set announced at height 3 whatever height the offered header names; forged chain configs keep N, C and the peer indices and differ in the peer keys only")
	r.Assume("main phase: membership = the peer keys of the genesis chain config (no config change block in that workload); D counts a member as signer when ANY signature of SigData verifies for its key over the header hash, listed or not (the most lenient reading, so every reported acceptance has fewer than C+1 valid signers under every reading)")
	r.Assume("headers reach the ledger as bytes; blocks offered to AddBlock are empty (state root argument unchecked), block root taken from the ledger itself")
	os.RemoveAll(scratch)
	r.Finish()
}
