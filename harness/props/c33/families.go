// Three systematic families on top of the forged-header shapes of main.go.  They run on the same
// solo ledger through the same syncGenesisHeader / syncBlockHeader invoke transactions and are
// judged by the same oracle (D distinct peers OF THE PEER SET IN FORCE with a verifying
// signature; accepted with 3*D < 2*n contradicts the property):
//
//	quorum-sweep       side chains with every peer-set size n = 1..13 (all residues mod 3); headers
//	                   with exactly q-1, q and q+1 distinct valid signers (q = least k with 3k >= 2n)
//	                   in four list layouts.
//	duplicate-layouts  distinct bookkeepers [K0..Km-1] (m >= q) and a signature list that is a
//	                   function f: position -> signer; for n <= 4 EVERY f (all placements of
//	                   duplicated signatures relative to the signer's own index), for larger n
//	                   sampled with copies placed at / ahead of / behind the signer's own index.
//	config-change      side chains whose peer set changes at key heights 1000, 2000, (3000); the
//	                   configuration-change headers are delivered in EVERY order (all permutations
//	                   of 2 and of 3 changes); before the first and after each delivery, every
//	                   height interval is probed with headers signed by two thirds of each peer set
//	                   known so far.  The peer set in force for a header of height h is the set
//	                   stored under the greatest key height below h among those the contract had
//	                   stored when the header was delivered (read back from committed state).
package main

import (
	"encoding/json"
	"fmt"
	"sort"
	"strings"

	"github.com/ontio/ontology-crypto/keypair"
	"github.com/ontio/ontology/common"
	vconfig "github.com/ontio/ontology/consensus/vbft/config"
	"github.com/ontio/ontology/core/types"
	"github.com/ontio/ontology/smartcontract/event"
	cccom "github.com/ontio/ontology/smartcontract/service/native/cross_chain/common"
	"github.com/ontio/ontology/smartcontract/service/native/cross_chain/header_sync"
	nutils "github.com/ontio/ontology/smartcontract/service/native/utils"
	"verifharness/lib/chain"
	"verifharness/lib/vf"
)

const (
	famE = "quorum-sweep"
	famD = "duplicate-layouts"
	famC = "config-change"
)

// famChain is one side chain of the families: sc.peers is the universe of accounts that are a
// consensus peer of the chain in some epoch; steps are the header cases in delivery order.
type famChain struct {
	sc        *sideChain
	genesis   *types.Transaction
	gwire     []byte
	steps     []*kase
	next      uint32  // next unused header height (quorum-sweep / duplicate-layouts)
	epochs    [][]int // config-change: universe indexes of the peer set of every epoch
	epochOf   map[uint32]int
	signEpoch map[*kase]int
}

func chainCfg(sc *sideChain, members []int) *vconfig.ChainConfig {
	n := len(members)
	cfg := &vconfig.ChainConfig{Version: 1, View: 1, N: uint32(n), C: uint32((n - 1) / 3)}
	for i, u := range members {
		cfg.Peers = append(cfg.Peers, &vconfig.PeerConfig{Index: uint32(i + 1), ID: idOf(sc.peers[u].PublicKey)})
	}
	return cfg
}

func newFamChain(w *chain.World, tag string, id uint64, universe int, genesisSet []int) *famChain {
	n := len(genesisSet)
	sc := &sideChain{id: id, n: n, q: (2*n + 2) / 3, tag: tag}
	for i := 0; i < universe; i++ {
		sc.peers = append(sc.peers, chain.DetAccount(fmt.Sprintf("%s/peer%d", tag, i)))
	}
	for i := 0; i < 2; i++ {
		sc.outs = append(sc.outs, chain.DetAccount(fmt.Sprintf("%s/outsider%d", tag, i)))
	}
	gp, _ := json.Marshal(&vconfig.VbftBlockInfo{Proposer: ^uint32(0), LastConfigBlockNum: ^uint32(0), NewChainConfig: chainCfg(sc, genesisSet)})
	gh := &cccom.Header{Version: 0, ChainID: id, Height: 0, Timestamp: 1600000000, ConsensusData: 2083236893, ConsensusPayload: gp}
	fc := &famChain{sc: sc, gwire: headerBytes(gh), next: 1, epochOf: map[uint32]int{}, signEpoch: map[*kase]int{}}
	mt, err := w.TB.Native(0, 20000000, nutils.HeaderSyncContractAddress, header_sync.SYNC_GENESIS_HEADER, []interface{}{syncGenesisHeaderArgs{GenesisHeader: fc.gwire}})
	if err != nil {
		panic(err)
	}
	if err := chain.Sign(mt, w.BK); err != nil {
		panic(err)
	}
	fc.genesis = chain.Immutable(mt)
	return fc
}

func (fc *famChain) add(w *chain.World, rng *vf.RNG, family, name, class string, height uint32, ks []keyRef, sg []sigRef, cfg *vconfig.ChainConfig) *kase {
	k := buildHeaderCase(fc.sc, name, ks, sg, cfg, rng, len(fc.steps), height, w)
	k.family, k.class = family, class
	fc.steps = append(fc.steps, k)
	return k
}

func (fc *famChain) height() uint32 { h := fc.next; fc.next++; return h }

// readPeerSet reads the peer set the contract stored for chain id under key height kh from
// committed state (nil: none stored), in sorted peer-id order.
func readPeerSet(c *chain.Chain, id uint64, kh uint32) ([]keypair.PublicKey, error) {
	v, err := getItem(c, storageKey(header_sync.CONSENSUS_PEER, id, u32(kh)))
	if err != nil || v == nil {
		return nil, err
	}
	cp := &header_sync.ConsensusPeers{}
	if err := cp.Deserialization(common.NewZeroCopySource(v)); err != nil {
		return nil, err
	}
	var ids []string
	for id := range cp.PeerMap {
		ids = append(ids, id)
	}
	sort.Strings(ids)
	out := []keypair.PublicKey{}
	for _, id := range ids {
		pk, err := vconfig.Pubkey(id)
		if err != nil {
			return nil, err
		}
		out = append(out, pk)
	}
	return out, nil
}

// ---------------------------------------------------------------- quorum-sweep

var sweepSizes = []int{1, 2, 3, 4, 5, 6, 7, 8, 9, 10, 11, 12, 13}

func genQuorumSweep(w *chain.World, rng *vf.RNG, fc *famChain, reps int) {
	n, q := fc.sc.n, fc.sc.q
	for rep := 0; rep < reps; rep++ {
		for _, d := range []int{q - 1, q, q + 1} {
			if d < 0 || d > n {
				continue
			}
			class := fmt.Sprintf("n%%3=%d/distinct-signers=q%+d", n%3, d-q)
			for layout := 0; layout < 4; layout++ {
				sub := rng.Sub(uint64(rep)*64 + uint64(d-q+1)*8 + uint64(layout))
				perm := sub.Perm(n)
				signers := peersOf(perm[:d])
				var ks []keyRef
				var sg []sigRef
				name := ""
				switch layout {
				case 0:
					name, ks, sg = "exactly-the-signers-listed", signers, valid(signers)
				case 1:
					if d < 2 {
						continue
					}
					name, ks, sg = "exactly-the-signers-listed-sigs-permuted", signers, shuffleSigs(sub, valid(signers))
				case 2:
					if d == n {
						continue
					}
					name, ks, sg = "all-peers-listed-some-sign", peersOf(perm), valid(signers)
				default:
					if d == n || d == 0 {
						continue
					}
					name, ks, sg = "all-peers-listed-some-sign-padded-with-copies", peersOf(perm), valid(signers)
					for len(sg) < n {
						sg = append(sg, sg[sub.Intn(d)])
					}
				}
				fc.add(w, sub, famE, famE+"/"+name, class, fc.height(), ks, sg, nil)
			}
		}
	}
}

// ---------------------------------------------------------------- duplicate-layouts

// layoutClass describes where the copies of duplicated signatures sit relative to the signer's
// own index in the bookkeeper list (f[i] = list index of the signer of signature i).
func layoutClass(f []int, m int) string {
	cnt := map[int]int{}
	for _, s := range f {
		cnt[s]++
	}
	dup, ahead, behind, never := false, false, false, false
	for s, c := range cnt {
		if c < 2 {
			continue
		}
		dup = true
		own := s < len(f) && f[s] == s
		if !own {
			never = true
			continue
		}
		for j, t := range f {
			if t == s && j < s {
				ahead = true
			}
			if t == s && j > s {
				behind = true
			}
		}
	}
	if !dup {
		return "no-duplicate"
	}
	var p []string
	if ahead {
		p = append(p, "copy-ahead-of-own-index+own-index")
	}
	if behind {
		p = append(p, "own-index+copy-behind")
	}
	if never {
		p = append(p, "copies-never-at-own-index")
	}
	return strings.Join(p, ",")
}

func dupCase(w *chain.World, rng *vf.RNG, fc *famChain, name string, listed []int, f []int, fresh bool) {
	ks := peersOf(listed)
	sg := make([]sigRef, len(f))
	for i, s := range f {
		sg[i] = sigRef{Kind: 'v', Who: ks[s]}
		if fresh {
			sg[i].Fresh = i
		}
	}
	d := map[int]bool{}
	for _, s := range f {
		d[s] = true
	}
	rel := "distinct-signers<q"
	if len(d) >= fc.sc.q {
		rel = "distinct-signers>=q"
	}
	fc.add(w, rng, famD, famD+"/"+name, rel+"/"+layoutClass(f, len(listed)), fc.height(), ks, sg, nil)
}

func genDuplicatesExhaustive(w *chain.World, rng *vf.RNG, fc *famChain) {
	n, q := fc.sc.n, fc.sc.q
	for m := q; m <= n; m++ {
		if m < 2 {
			continue
		}
		listed := rng.Sub(uint64(m)).Perm(n)[:m]
		total := 1
		for i := 0; i < m; i++ {
			total *= m
		}
		for code := 0; code < total; code++ {
			f := make([]int, m)
			for i, c := 0, code; i < m; i, c = i+1, c/m {
				f[i] = c % m
			}
			dupCase(w, rng.Sub(uint64(m)<<32|uint64(code)), fc, "every-signature-placement", listed, f, false)
		}
	}
}

func genDuplicatesSampled(w *chain.World, rng *vf.RNG, fc *famChain, cases int) {
	n, q := fc.sc.n, fc.sc.q
	for i := 0; i < cases; i++ {
		sub := rng.Sub(uint64(i))
		m := sub.Range(q, n)
		listed := sub.Perm(n)[:m]
		d := sub.Range(1, q-1)
		if sub.Chance(15) {
			d = sub.Range(q, m)
		}
		signers := sub.Perm(m)[:d] // list positions of the peers that sign
		in := map[int]bool{}
		for _, s := range signers {
			in[s] = true
		}
		f := make([]int, m+sub.Intn(2)*sub.Intn(3))
		for j := range f {
			if j < m && in[j] && sub.Chance(60) {
				f[j] = j
			} else {
				f[j] = signers[sub.Intn(d)]
			}
		}
		dupCase(w, sub, fc, "sampled-signature-placement", listed, f, sub.Bool())
	}
}

// ---------------------------------------------------------------- config-change

const keyStep = 1000

func permutations(k int) [][]int {
	if k == 0 {
		return [][]int{{}}
	}
	var out [][]int
	for _, p := range permutations(k - 1) {
		for at := 0; at <= len(p); at++ {
			q := append(append(append([]int{}, p[:at]...), k), p[at:]...)
			out = append(out, q)
		}
	}
	return out
}

// newConfigChain lays out the epochs of one scenario: epoch e (e >= 1) starts with the
// configuration-change header of height e*keyStep; consecutive peer sets are disjoint or share
// fewer than a third of the new set.
func newConfigChain(w *chain.World, rng *vf.RNG, tag string, id uint64, changes int, overlap bool) *famChain {
	var epochs [][]int
	universe := 0
	for e := 0; e <= changes; e++ {
		size := rng.Range(3, 7)
		var set []int
		if overlap && e > 0 {
			prev := epochs[e-1]
			share := (size - 1) / 3
			if share > len(prev) {
				share = len(prev)
			}
			for _, j := range rng.Perm(len(prev))[:share] {
				set = append(set, prev[j])
			}
		}
		for len(set) < size {
			set = append(set, universe)
			universe++
		}
		epochs = append(epochs, set)
	}
	fc := newFamChain(w, tag, id, universe, epochs[0])
	fc.epochs = epochs
	for e := range epochs {
		fc.epochOf[uint32(e*keyStep)] = e
	}
	return fc
}

// quorumOf: keys and signatures of two thirds (rounded up) of the given peer set, in list order.
func quorumOf(rng *vf.RNG, set []int) ([]keyRef, []sigRef) {
	q := (2*len(set) + 2) / 3
	var idx []int
	for _, j := range rng.Perm(len(set))[:q] {
		idx = append(idx, set[j])
	}
	ks := peersOf(idx)
	return ks, valid(ks)
}

func genConfigChange(w *chain.World, rng *vf.RNG, fc *famChain, order []int) {
	changes := len(fc.epochs) - 1
	used := make([]uint32, changes+1) // probe heights used per interval
	delivered := []int{0}             // epochs whose peer set the contract should know by now
	probes := func(phase int) {
		for iv := 0; iv <= changes; iv++ {
			for _, e := range delivered {
				used[iv]++
				h := uint32(iv*keyStep) + used[iv]
				sub := rng.Sub(uint64(phase)<<32 | uint64(iv)<<16 | uint64(e))
				ks, sg := quorumOf(sub, fc.epochs[e])
				k := fc.add(w, sub, famC, famC+"/probe-signed-by-two-thirds-of-a-known-peer-set", "", h, ks, sg, nil)
				k.noBuiltD = true
				fc.signEpoch[k] = e
			}
		}
	}
	probes(0)
	for step, e := range order {
		// the change header is signed by two thirds of the set that is in force for its height
		// given what has been delivered before it
		by := 0
		for _, d := range delivered {
			if d < e && d > by {
				by = d
			}
		}
		sub := rng.Sub(uint64(1000 + step))
		ks, sg := quorumOf(sub, fc.epochs[by])
		k := fc.add(w, sub, famC, famC+"/configuration-change-header", "", uint32(e*keyStep), ks, sg, chainCfg(fc.sc, fc.epochs[e]))
		k.noBuiltD = true
		k.announces = fc.epochs[e]
		fc.signEpoch[k] = by
		delivered = append(delivered, e)
		probes(step + 1)
	}
}

// ---------------------------------------------------------------- run

func u(idx []int) string {
	var p []string
	for _, i := range idx {
		p = append(p, fmt.Sprintf("p%d", i))
	}
	return "{" + strings.Join(p, ",") + "}"
}

// runFamilies generates, commits, observes and judges the family cases; the caller gives the
// verdicts (same oracle clause as for the shapes of main.go).
func runFamilies(r *vf.Run, c *chain.Chain, w *chain.World, rng *vf.RNG, tag string, blockNo *int) []*kase {
	var chains []*famChain
	// quorum-sweep and duplicate-layouts share one side chain per peer-set size
	for _, n := range sweepSizes {
		all := make([]int, n)
		for i := range all {
			all[i] = i
		}
		fc := newFamChain(w, fmt.Sprintf("%s/sweep/n%d", tag, n), uint64(200000+n), n, all)
		sub := rng.Sub(uint64(0xE000 + n))
		genQuorumSweep(w, sub.Sub(1), fc, vf.N(1, 12))
		if n <= 4 {
			genDuplicatesExhaustive(w, sub.Sub(2), fc)
		}
		if n >= 4 {
			genDuplicatesSampled(w, sub.Sub(3), fc, vf.N(25, 400))
		}
		chains = append(chains, fc)
	}
	// config-change: every delivery order of 2 and of 3 changes
	scen := 0
	for rep := 0; rep < vf.N(1, 10); rep++ {
		for changes := 2; changes <= 3; changes++ {
			for _, order := range permutations(changes) {
				sub := rng.Sub(uint64(0xC000 + scen))
				fc := newConfigChain(w, sub.Sub(1), fmt.Sprintf("%s/cfg/s%d", tag, scen), uint64(300000+scen), changes, scen%2 == 1)
				genConfigChange(w, sub.Sub(2), fc, order)
				chains = append(chains, fc)
				scen++
			}
		}
	}

	// ---- commit: all genesis headers, then every chain's steps in order
	var txs []*types.Transaction
	for _, fc := range chains {
		txs = append(txs, fc.genesis)
	}
	for _, fc := range chains {
		for _, k := range fc.steps {
			if k.harness == "" {
				txs = append(txs, k.tx)
			}
		}
	}
	for len(txs) > 0 {
		nb := 60
		if nb > len(txs) {
			nb = len(txs)
		}
		*blockNo++
		commit(c, txs[:nb], *blockNo%2 == 0)
		txs = txs[nb:]
	}

	// ---- observe; per chain replay the steps in order to find the peer set in force for each
	var out []*kase
	for _, fc := range chains {
		sc := fc.sc
		set0, err := readPeerSet(c, sc.id, 0)
		if err != nil || set0 == nil || txState(c, fc.genesis) != int(event.CONTRACT_STATE_SUCCESS) || len(set0) != sc.n {
			r.Inconclusive(fmt.Sprintf("harness: syncGenesisHeader by the operator did not store the %d-peer set of chain %d (state %d, err %v)", sc.n, sc.id, txState(c, fc.genesis), err))
			continue
		}
		sc.stored = set0
		r.Count("family_side_chain_genesis_synced")
		known := map[uint32][]keypair.PublicKey{0: set0}
		history := []string{fmt.Sprintf("syncGenesisHeader %s", vf.Hex(fc.gwire))}
		ascending := true
		for _, k := range fc.steps {
			if k.harness != "" {
				continue
			}
			observe(c, k)
			var kh uint32
			for h := range known {
				if h < k.height && h >= kh {
					kh = h
				}
			}
			k.set, k.keyHeight = known[kh], kh
			if k.family != famC {
				continue
			}
			k.history = append([]string{}, history...)
			se := fc.signEpoch[k]
			rel := "signed-by-the-set-in-force"
			switch {
			case uint32(se*keyStep) < kh:
				rel = "signed-by-a-retired-set"
			case uint32(se*keyStep) > kh:
				rel = "signed-by-a-later-set"
			}
			if k.announces == nil {
				k.class = rel
				if !ascending {
					k.class += "/after-newest-first-delivery"
				}
				continue
			}
			var top uint32
			for h := range known {
				if h > top {
					top = h
				}
			}
			k.class = "delivered-in-ascending-order"
			if k.height < top {
				k.class = "delivered-below-a-known-key-height"
			}
			history = append(history, fmt.Sprintf("syncBlockHeader height %d announcing %s signed by two thirds of %s accepted=%v %s", k.height, u(k.announces), u(fc.epochs[se]), k.accepted, vf.Hex(k.wire)))
			if !k.accepted || k.harness != "" {
				continue
			}
			set, err := readPeerSet(c, sc.id, k.height)
			if err != nil || set == nil {
				k.harness = fmt.Sprintf("configuration-change header accepted but no peer set is stored under its height (err %v)", err)
				continue
			}
			want := map[string]bool{}
			for _, i := range k.announces {
				want[idOf(sc.peers[i].PublicKey)] = true
			}
			for _, pk := range set {
				if !want[idOf(pk)] {
					k.harness = "stored peer set differs from the announced one"
				}
			}
			if len(set) != len(want) {
				k.harness = "stored peer set differs from the announced one"
			}
			if k.height < top {
				ascending = false
			}
			known[k.height] = set
		}
		out = append(out, fc.steps...)
	}
	vf.Parallel(len(out), 6, func(i int) {
		if out[i].harness == "" {
			out[i].judge()
		}
	})
	return out
}

func outcome(k *kase) string {
	if k.accepted {
		return "accepted"
	}
	return "rejected"
}

// countFamily: coverage counters of the family cases (called once per judged case).
func countFamily(r *vf.Run, k *kase) {
	r.Count("family/" + k.family)
	switch k.family {
	case famE:
		r.Count(fmt.Sprintf("%s/n=%d", famE, k.n()))
		r.Count(fmt.Sprintf("%s/%s/%s", famE, k.class, outcome(k)))
		if k.D != k.builtD {
			return
		}
		switch k.D - k.q() {
		case -1:
			r.Count(fmt.Sprintf("%s/n=%d/q-1", famE, k.n()))
		case 0:
			r.Count(fmt.Sprintf("%s/n=%d/q/%s", famE, k.n(), outcome(k)))
		case 1:
			r.Count(fmt.Sprintf("%s/n=%d/q+1", famE, k.n()))
		}
	case famD:
		if parts := strings.SplitN(k.class, "/", 2); len(parts) == 2 {
			for _, feature := range strings.Split(parts[1], ",") {
				r.Count(fmt.Sprintf("%s/%s/%s/%s", famD, parts[0], feature, outcome(k)))
			}
		}
		if strings.Contains(k.shape, "every-") {
			r.Count(fmt.Sprintf("%s/every-placement/n=%d,listed=%d", famD, k.n(), k.listedLen))
		} else {
			r.Count(fmt.Sprintf("%s/sampled/n=%d", famD, k.n()))
		}
	case famC:
		kind := "probe"
		if k.announces != nil {
			kind = "change-header"
		}
		r.Count(fmt.Sprintf("%s/%s/%s/%s", famC, kind, k.class, outcome(k)))
		if k.keyHeight != 0 {
			r.Count(famC + "/judged-against-a-later-peer-set")
		}
	}
}

func requireFamilies(r *vf.Run) {
	r.Require("family_side_chain_genesis_synced", int64(len(sweepSizes)+8))
	for _, n := range sweepSizes {
		q := (2*n + 2) / 3
		r.Require(fmt.Sprintf("%s/n=%d", famE, n), 3)
		r.Require(fmt.Sprintf("%s/n=%d/q/accepted", famE, n), 1)
		if q-1 >= 1 {
			r.Require(fmt.Sprintf("%s/n=%d/q-1", famE, n), 1)
		}
		if q+1 <= n {
			r.Require(fmt.Sprintf("%s/n=%d/q+1", famE, n), 1)
		}
		if n >= 4 {
			r.Require(fmt.Sprintf("%s/sampled/n=%d", famD, n), 10)
		}
	}
	for res := 0; res < 3; res++ {
		r.Require(fmt.Sprintf("%s/n%%3=%d/distinct-signers=q-1/rejected", famE, res), 8)
		r.Require(fmt.Sprintf("%s/n%%3=%d/distinct-signers=q+0/accepted", famE, res), 8)
		r.Require(fmt.Sprintf("%s/n%%3=%d/distinct-signers=q+1/accepted", famE, res), 6)
	}
	r.Require(famD+"/every-placement/n=2,listed=2", 4)
	r.Require(famD+"/every-placement/n=3,listed=2", 4)
	r.Require(famD+"/every-placement/n=3,listed=3", 27)
	r.Require(famD+"/every-placement/n=4,listed=3", 27)
	r.Require(famD+"/every-placement/n=4,listed=4", 256)
	r.Require(famD+"/distinct-signers<q/copy-ahead-of-own-index+own-index/rejected", 20)
	r.Require(famD+"/distinct-signers<q/own-index+copy-behind/rejected", 20)
	r.Require(famD+"/distinct-signers<q/copies-never-at-own-index/rejected", 20)
	r.Require(famD+"/distinct-signers>=q/no-duplicate/accepted", 20)
	r.Require(famC+"/change-header/delivered-in-ascending-order/accepted", 8)
	r.Require(famC+"/change-header/delivered-below-a-known-key-height/accepted", 6)
	r.Require(famC+"/probe/signed-by-the-set-in-force/accepted", 40)
	r.Require(famC+"/probe/signed-by-a-retired-set/rejected", 20)
	r.Require(famC+"/probe/signed-by-a-later-set/rejected", 20)
	r.Require(famC+"/probe/signed-by-the-set-in-force/after-newest-first-delivery/accepted", 20)
	r.Require(famC+"/probe/signed-by-a-retired-set/after-newest-first-delivery/rejected", 20)
	r.Require(famC+"/judged-against-a-later-peer-set", 40)
}
