// C33 — Cross-chain headers need signatures of two thirds of distinct peers.
//
// Forged-header monitor on the header-sync native contract, driven by real invoke
// transactions on a solo ledger: syncGenesisHeader (signed by the param-contract operator,
// which on a solo chain is the bookkeeper) stores the peer set of a generated side chain
// (n in {4,7,10}); then every case is one syncBlockHeader transaction carrying one forged
// cross_chain/common.Header at its own height.  Acceptance is read from committed state
// (header index entry of that chain/height) and cross-checked with the transaction's
// ExecuteNotify state.  The monitor itself computes D = number of DISTINCT peers stored by
// the contract for which some signature of SigData verifies over the header hash.
// Accepted with 3*D < 2*n contradicts the property.
package main

import (
	"bytes"
	"encoding/json"
	"fmt"
	"os"
	"path/filepath"
	"sort"
	"strings"

	"github.com/ontio/ontology-crypto/keypair"
	"github.com/ontio/ontology/account"
	"github.com/ontio/ontology/common"
	vconfig "github.com/ontio/ontology/consensus/vbft/config"
	"github.com/ontio/ontology/core/signature"
	scom "github.com/ontio/ontology/core/store/common"
	"github.com/ontio/ontology/core/types"
	"github.com/ontio/ontology/smartcontract/event"
	cccom "github.com/ontio/ontology/smartcontract/service/native/cross_chain/common"
	"github.com/ontio/ontology/smartcontract/service/native/cross_chain/header_sync"
	nutils "github.com/ontio/ontology/smartcontract/service/native/utils"
	"verifharness/lib/chain"
	"verifharness/lib/vf"
)

// ---------------------------------------------------------------- case description

type keyRef struct {
	Out bool // outsider (not a stored peer) or peer
	I   int
}

func (k keyRef) String() string {
	if k.Out {
		return fmt.Sprintf("o%d", k.I)
	}
	return fmt.Sprintf("p%d", k.I)
}

// sigRef: 'v' = signature of Who over the header hash (Fresh>0: separately produced bytes),
// 'x' = signature of Who over the hash of a different header, 'g' = Len pseudo-random bytes.
type sigRef struct {
	Kind  byte
	Who   keyRef
	Len   int
	Fresh int
}

func (s sigRef) String() string {
	switch s.Kind {
	case 'v':
		if s.Fresh > 0 {
			return fmt.Sprintf("%s#%d", s.Who.String(), s.Fresh)
		}
		return s.Who.String()
	case 'x':
		return "otherhash:" + s.Who.String()
	}
	return fmt.Sprintf("garbage%d", s.Len)
}

type sideChain struct {
	id    uint64
	n, q  int // q = least k with 3k >= 2n
	tag   string
	peers []*account.Account
	outs  []*account.Account
	// what the contract stored (read back from committed state): the oracle's peer set
	stored []keypair.PublicKey
}

func (sc *sideChain) acct(k keyRef) *account.Account {
	if k.Out {
		return sc.outs[k.I]
	}
	return sc.peers[k.I]
}

type shape struct {
	name string
	gen  func(rng *vf.RNG, sc *sideChain) ([]keyRef, []sigRef)
}

func peersOf(idx []int) []keyRef {
	out := make([]keyRef, len(idx))
	for i, v := range idx {
		out[i] = keyRef{I: v}
	}
	return out
}
func pick(rng *vf.RNG, n, k int) []int { return rng.Perm(n)[:k] }
func valid(ks []keyRef) []sigRef {
	out := make([]sigRef, len(ks))
	for i, k := range ks {
		out[i] = sigRef{Kind: 'v', Who: k}
	}
	return out
}
func garbage(rng *vf.RNG) sigRef {
	lens := []int{0, 1, 32, 63, 64, 64, 64, 65, 65, 66, 97}
	return sigRef{Kind: 'g', Len: lens[rng.Intn(len(lens))]}
}
func shuffleSigs(rng *vf.RNG, s []sigRef) []sigRef {
	out := make([]sigRef, len(s))
	for i, j := range rng.Perm(len(s)) {
		out[i] = s[j]
	}
	return out
}

// padWithDuplicates lists d distinct signing peers and pads the list with copies of them up
// to length k; every position carries "its" key's signature (same bytes, or fresh ones).
func padWithDuplicates(rng *vf.RNG, sc *sideChain, d, k int, shuffled, fresh bool) ([]keyRef, []sigRef) {
	ks := peersOf(pick(rng, sc.n, d))
	for len(ks) < k {
		ks = append(ks, ks[rng.Intn(d)])
	}
	if shuffled {
		out := make([]keyRef, len(ks))
		for i, j := range rng.Perm(len(ks)) {
			out[i] = ks[j]
		}
		ks = out
	}
	sg := valid(ks)
	if fresh {
		for i := range sg {
			sg[i].Fresh = i
		}
	}
	return ks, sg
}

func shapes() []shape {
	return []shape{
		{"honest", func(rng *vf.RNG, sc *sideChain) ([]keyRef, []sigRef) {
			ks := peersOf(pick(rng, sc.n, rng.Range(sc.q, sc.n)))
			return ks, valid(ks)
		}},
		{"honest-sigs-permuted", func(rng *vf.RNG, sc *sideChain) ([]keyRef, []sigRef) {
			ks := peersOf(pick(rng, sc.n, rng.Range(sc.q, sc.n)))
			return ks, shuffleSigs(rng, valid(ks))
		}},
		{"honest-plus-surplus-signatures", func(rng *vf.RNG, sc *sideChain) ([]keyRef, []sigRef) {
			ks := peersOf(pick(rng, sc.n, rng.Range(sc.q, sc.n)))
			sg := valid(ks)
			for j := rng.Range(1, 3); j > 0; j-- {
				sg = append(sg, garbage(rng))
			}
			return ks, sg
		}},
		{"below-two-thirds-all-sign", func(rng *vf.RNG, sc *sideChain) ([]keyRef, []sigRef) {
			ks := peersOf(pick(rng, sc.n, rng.Range(1, sc.q-1)))
			return ks, valid(ks)
		}},
		// the named hostile case: [A]×k with [sigA]×k, k >= 2n/3
		{"one-peer-repeated", func(rng *vf.RNG, sc *sideChain) ([]keyRef, []sigRef) {
			return padWithDuplicates(rng, sc, 1, rng.Range(sc.q, sc.n+2), false, rng.Bool())
		}},
		{"two-peers-padded-with-duplicates", func(rng *vf.RNG, sc *sideChain) ([]keyRef, []sigRef) {
			return padWithDuplicates(rng, sc, 2, rng.Range(sc.q, sc.n+2), rng.Bool(), rng.Bool())
		}},
		{"few-peers-padded-with-duplicates", func(rng *vf.RNG, sc *sideChain) ([]keyRef, []sigRef) {
			return padWithDuplicates(rng, sc, rng.Range(1, sc.q-1), rng.Range(sc.q, sc.n+2), rng.Bool(), rng.Bool())
		}},
		{"two-thirds-distinct-plus-duplicates", func(rng *vf.RNG, sc *sideChain) ([]keyRef, []sigRef) {
			d := rng.Range(sc.q, sc.n)
			return padWithDuplicates(rng, sc, d, d+rng.Range(1, 3), rng.Bool(), rng.Bool())
		}},
		{"two-thirds-listed-few-sign", func(rng *vf.RNG, sc *sideChain) ([]keyRef, []sigRef) {
			ks := peersOf(pick(rng, sc.n, rng.Range(sc.q, sc.n)))
			return ks, valid(ks[:rng.Range(1, sc.q-1)])
		}},
		{"two-thirds-listed-one-sig-repeated", func(rng *vf.RNG, sc *sideChain) ([]keyRef, []sigRef) {
			ks := peersOf(pick(rng, sc.n, rng.Range(sc.q, sc.n)))
			a := ks[rng.Intn(len(ks))]
			var sg []sigRef
			for range ks {
				sg = append(sg, sigRef{Kind: 'v', Who: a})
			}
			return ks, sg
		}},
		{"two-thirds-listed-few-sign-padded", func(rng *vf.RNG, sc *sideChain) ([]keyRef, []sigRef) {
			ks := peersOf(pick(rng, sc.n, rng.Range(sc.q, sc.n)))
			s := rng.Range(1, sc.q-1)
			sg := valid(ks[:s])
			for len(sg) < len(ks) {
				switch rng.Intn(3) {
				case 0:
					sg = append(sg, garbage(rng))
				case 1:
					sg = append(sg, sigRef{Kind: 'x', Who: ks[len(sg)]})
				default:
					sg = append(sg, sg[rng.Intn(s)])
				}
			}
			if rng.Chance(30) {
				sg = shuffleSigs(rng, sg)
			}
			return ks, sg
		}},
		{"non-peers-listed", func(rng *vf.RNG, sc *sideChain) ([]keyRef, []sigRef) {
			ks := peersOf(pick(rng, sc.n, rng.Range(sc.q, sc.n)))
			for o := rng.Range(1, 2); o > 0; o-- {
				at := rng.Intn(len(ks) + 1)
				ks = append(ks[:at], append([]keyRef{{Out: true, I: o - 1}}, ks[at:]...)...)
			}
			return ks, valid(ks)
		}},
		{"few-peers-padded-with-non-peers", func(rng *vf.RNG, sc *sideChain) ([]keyRef, []sigRef) {
			ks := peersOf(pick(rng, sc.n, rng.Range(1, sc.q-1)))
			for o := 0; len(ks) < sc.q; o++ {
				ks = append(ks, keyRef{Out: true, I: o % len(sc.outs)})
			}
			return ks, valid(ks)
		}},
		{"non-peers-sign-for-listed-peers", func(rng *vf.RNG, sc *sideChain) ([]keyRef, []sigRef) {
			ks := peersOf(pick(rng, sc.n, rng.Range(sc.q, sc.n)))
			var sg []sigRef
			for i := range ks {
				sg = append(sg, sigRef{Kind: 'v', Who: keyRef{Out: true, I: i % len(sc.outs)}, Fresh: i / len(sc.outs)})
			}
			return ks, sg
		}},
		{"signatures-over-other-hash", func(rng *vf.RNG, sc *sideChain) ([]keyRef, []sigRef) {
			ks := peersOf(pick(rng, sc.n, rng.Range(sc.q, sc.n)))
			s := rng.Range(0, sc.q-1)
			sg := valid(ks[:s])
			for i := s; i < len(ks); i++ {
				sg = append(sg, sigRef{Kind: 'x', Who: ks[i]})
			}
			return ks, sg
		}},
		{"garbage-signatures", func(rng *vf.RNG, sc *sideChain) ([]keyRef, []sigRef) {
			ks := peersOf(pick(rng, sc.n, rng.Range(sc.q, sc.n)))
			var sg []sigRef
			for range ks {
				sg = append(sg, garbage(rng))
			}
			return ks, sg
		}},
		{"empty-lists", func(rng *vf.RNG, sc *sideChain) ([]keyRef, []sigRef) {
			ks := peersOf(pick(rng, sc.n, rng.Range(sc.q, sc.n)))
			switch rng.Intn(3) {
			case 0:
				return nil, nil
			case 1:
				return ks, nil
			}
			return nil, valid(ks)
		}},
		{"random-mix", func(rng *vf.RNG, sc *sideChain) ([]keyRef, []sigRef) {
			var ks []keyRef
			for j := rng.Range(0, sc.n+3); j > 0; j-- {
				switch {
				case rng.Chance(4):
					ks = append(ks, keyRef{Out: true, I: rng.Intn(len(sc.outs))})
				case len(ks) > 0 && rng.Chance(10):
					ks = append(ks, ks[rng.Intn(len(ks))])
				default:
					ks = append(ks, keyRef{I: rng.Intn(sc.n)})
				}
			}
			var sg []sigRef
			for i := range ks { // mostly position-aligned signatures, some disturbed
				switch k := rng.Intn(40); {
				case k < 37:
					sg = append(sg, sigRef{Kind: 'v', Who: ks[i]})
				case k < 38:
					sg = append(sg, sigRef{Kind: 'x', Who: ks[i]})
				case k < 39:
					sg = append(sg, garbage(rng))
				}
			}
			if rng.Chance(30) {
				sg = shuffleSigs(rng, sg)
			}
			return ks, sg
		}},
	}
}

// ---------------------------------------------------------------- case / outcome

type kase struct {
	idx        int
	sc         *sideChain
	shape      string
	height     uint32
	keys, sigs []string
	wire       []byte
	hash       common.Uint256
	builtD     int
	tx         *types.Transaction

	listedLen, listedDistinctPeers int
	nonPeerListed, dupKeys         bool
	D                              int
	validSigners                   []int
	accepted                       bool
	notifyState                    int
	harness                        string

	// families.go: the peer set in force for this header when it was delivered (nil: the
	// genesis set sc.stored), the key height it was stored under, and what led up to the case
	set       []keypair.PublicKey
	keyHeight uint32
	family    string
	class     string
	announces []int // universe indexes of the peer set a configuration-change header announces
	history   []string
	noBuiltD  bool
}

// peerSet is the oracle's peer set for the case.
func (k *kase) peerSet() []keypair.PublicKey {
	if k.set != nil {
		return k.set
	}
	return k.sc.stored
}
func (k *kase) n() int { return len(k.peerSet()) }
func (k *kase) q() int { return (2*k.n() + 2) / 3 }

func idOf(pk keypair.PublicKey) string { return vconfig.PubkeyID(pk) }

func storageKey(prefix string, chainID uint64, rest ...[]byte) []byte {
	cb, err := nutils.GetUint64Bytes(chainID)
	if err != nil {
		panic(err)
	}
	k := append([]byte(prefix), cb...)
	for _, r := range rest {
		k = append(k, r...)
	}
	return k
}

func u32(v uint32) []byte {
	b, err := nutils.GetUint32Bytes(v)
	if err != nil {
		panic(err)
	}
	return b
}

func headerBytes(h *cccom.Header) []byte {
	sink := common.NewZeroCopySink(nil)
	h.Serialization(sink)
	return sink.Bytes()
}

type syncBlockHeaderArgs struct {
	Address common.Address
	Headers [][]byte
}
type syncGenesisHeaderArgs struct {
	GenesisHeader []byte
}

func buildCase(sc *sideChain, sh shape, rng *vf.RNG, idx int, height uint32, w *chain.World) *kase {
	ks, sg := sh.gen(rng, sc)
	return buildHeaderCase(sc, sh.name, ks, sg, nil, rng, idx, height, w)
}

// buildHeaderCase makes one syncBlockHeader transaction carrying one header of chain sc at the
// given height with the given bookkeeper and signature lists; newCfg != nil makes it a
// configuration-change header announcing a new peer set.
func buildHeaderCase(sc *sideChain, name string, ks []keyRef, sg []sigRef, newCfg *vconfig.ChainConfig, rng *vf.RNG, idx int, height uint32, w *chain.World) *kase {
	k := &kase{idx: idx, sc: sc, shape: name, height: height}
	payload, _ := json.Marshal(&vconfig.VbftBlockInfo{Proposer: uint32(rng.Intn(sc.n) + 1), VrfValue: rng.Bytes(64), VrfProof: rng.Bytes(64), LastConfigBlockNum: 0, NewChainConfig: newCfg})
	h := &cccom.Header{Version: 0, ChainID: sc.id, Timestamp: 1600000000 + height, Height: height, ConsensusData: rng.U64(), ConsensusPayload: payload}
	copy(h.PrevBlockHash[:], rng.Bytes(32))
	copy(h.TransactionsRoot[:], rng.Bytes(32))
	copy(h.CrossStateRoot[:], rng.Bytes(32))
	copy(h.BlockRoot[:], rng.Bytes(32))
	other := *h
	other.ConsensusData ^= 1
	oh, err := cccom.HeaderFromRawBytes(headerBytes(&other))
	if err != nil {
		k.harness = "other header does not decode: " + err.Error()
		return k
	}
	hash := h.Hash()
	otherHash := oh.Hash()
	for _, r := range ks {
		h.Bookkeepers = append(h.Bookkeepers, sc.acct(r).PublicKey)
		k.keys = append(k.keys, r.String())
	}
	cache := map[string][]byte{}
	bd := map[int]bool{}
	for _, s := range sg {
		var raw []byte
		switch s.Kind {
		case 'v', 'x':
			ck := s.String()
			if b, ok := cache[ck]; ok {
				raw = b
			} else {
				if s.Kind == 'v' {
					raw = chain.SignHash(sc.acct(s.Who), hash)
				} else {
					raw = chain.SignHash(sc.acct(s.Who), otherHash)
				}
				cache[ck] = raw
			}
			if s.Kind == 'v' && !s.Who.Out {
				bd[s.Who.I] = true
			}
		default:
			raw = rng.Bytes(s.Len)
		}
		h.SigData = append(h.SigData, raw)
		k.sigs = append(k.sigs, s.String())
	}
	k.builtD = len(bd)
	k.wire = headerBytes(h)
	k.hash = hash
	sender := w.Accts[rng.Intn(len(w.Accts))]
	mt, err := w.TB.Native(0, 20000000, nutils.HeaderSyncContractAddress, header_sync.SYNC_BLOCK_HEADER,
		[]interface{}{syncBlockHeaderArgs{Address: sender.Address, Headers: [][]byte{k.wire}}})
	if err != nil {
		k.harness = "build tx: " + err.Error()
		return k
	}
	if err := chain.Sign(mt, sender); err != nil {
		k.harness = "sign tx: " + err.Error()
		return k
	}
	k.tx = chain.Immutable(mt)
	return k
}

// oracle: from the wire bytes and the peer set the contract stored
func (k *kase) judge() {
	dec, err := cccom.HeaderFromRawBytes(k.wire)
	if err != nil {
		k.harness = "candidate header does not decode: " + err.Error()
		return
	}
	dh := dec.Hash()
	if dh != k.hash {
		k.harness = "hash differs after wire round trip"
		return
	}
	idx := map[string]int{}
	set := k.peerSet()
	for i, pk := range set {
		idx[idOf(pk)] = i
	}
	seen := map[string]bool{}
	listed := map[int]bool{}
	for _, pk := range dec.Bookkeepers {
		id := idOf(pk)
		if seen[id] {
			k.dupKeys = true
		}
		seen[id] = true
		if i, ok := idx[id]; ok {
			listed[i] = true
		} else {
			k.nonPeerListed = true
		}
	}
	k.listedLen = len(dec.Bookkeepers)
	k.listedDistinctPeers = len(listed)
	distinct := map[string]bool{}
	var sigs [][]byte
	for _, s := range dec.SigData {
		if !distinct[string(s)] {
			distinct[string(s)] = true
			sigs = append(sigs, s)
		}
	}
	for i, pk := range set {
		for _, s := range sigs {
			if signature.Verify(pk, dh[:], s) == nil {
				k.validSigners = append(k.validSigners, i)
				break
			}
		}
	}
	k.D = len(k.validSigners)
}

// ---------------------------------------------------------------- main

func classD(d, q int) string {
	switch {
	case d <= 2:
		return fmt.Sprint(d)
	case d < q:
		return "3..<2n/3"
	}
	return ">=2n/3"
}

func commit(c *chain.Chain, txs []*types.Transaction, viaSync bool) {
	b, err := c.MakeBlock(txs, 0)
	if err != nil {
		panic(err)
	}
	if viaSync {
		res, err := c.Ledger.ExecuteBlock(b)
		if err != nil {
			panic(fmt.Errorf("ExecuteBlock: %v", err))
		}
		if err := c.CommitSync(b, res.MerkleRoot); err != nil {
			panic(fmt.Errorf("AddBlock: %v", err))
		}
		return
	}
	if _, err := c.CommitExec(b); err != nil {
		panic(err)
	}
}

// getItem reads committed contract storage of the header-sync contract; a missing key is (nil, nil).
func getItem(c *chain.Chain, key []byte) ([]byte, error) {
	v, err := c.Ledger.GetStorageItem(nutils.HeaderSyncContractAddress, key)
	if err == scom.ErrNotFound {
		return nil, nil
	}
	return v, err
}

func txState(c *chain.Chain, tx *types.Transaction) int {
	n, err := c.Ledger.GetEventNotifyByTx(tx.Hash())
	if err != nil || n == nil {
		return -1
	}
	return int(n.State)
}

// observe reads the outcome of a committed case: acceptance from the committed header index of
// the chain/height (cross-checked with the stored header bytes and the transaction's state).
func observe(c *chain.Chain, k *kase) {
	sc := k.sc
	k.notifyState = txState(c, k.tx)
	idxKey := storageKey(header_sync.HEADER_INDEX, sc.id, u32(k.height))
	v, err := getItem(c, idxKey)
	if err != nil {
		k.harness = "GetStorageItem: " + err.Error()
		return
	}
	k.accepted = v != nil && bytes.Equal(v, k.hash.ToArray())
	if v != nil && !k.accepted {
		k.harness = "header index holds a different hash"
	}
	if k.accepted {
		hv, _ := getItem(c, storageKey(header_sync.BLOCK_HEADER, sc.id, k.hash.ToArray()))
		if !bytes.Equal(hv, k.wire) {
			k.harness = "header index set but stored header bytes differ"
		}
	}
	if k.accepted != (k.notifyState == int(event.CONTRACT_STATE_SUCCESS)) {
		k.harness = fmt.Sprintf("committed state says accepted=%v but the transaction's notify state is %d", k.accepted, k.notifyState)
	}
}

func main() {
	r := vf.NewRun("C33", "exploration",
		"solo ledger; per side chain (n in {4,7,10,40} generated peers, several chains per n) a syncGenesisHeader tx signed by the operator, then one syncBlockHeader invoke tx per case carrying one forged header at its own height with Bookkeepers/SigData from 18 list shapes (honest, permuted, surplus sigs, below 2/3, one peer repeated k>=2n/3 times with repeated or fresh signatures, A,B + duplicates, few + duplicates, 2/3 distinct + duplicates, listed but few signing, one signature repeated, padded, non-peers listed/padding/signing, other hash, garbage, empty, random mix); plus three systematic families (families.go): quorum-sweep = side chains of every size n=1..13 with exactly q-1, q, q+1 distinct valid signers in 4 list layouts; duplicate-layouts = distinct bookkeepers with a signature list given by a function position->signer, every function for n<=4 and sampled ones (copies at/ahead of/behind the signer's own index) for n=4..13; config-change = side chains with 2 or 3 peer-set changes whose change headers are delivered in every order, every height interval probed before and after each delivery with headers signed by two thirds of each known peer set, the oracle's peer set being the one stored under the greatest key height below the header's height at delivery time; acceptance read from the committed header index; distinct by (family, chain, n, shape, key list, signature list)")
	scratch := vf.Scratch("c33")
	defer os.RemoveAll(scratch)
	rng := vf.NewRNG(vf.Seed())
	tag := fmt.Sprintf("c33-%d", vf.Seed())
	w := chain.NewWorld(tag, 3)
	c, err := chain.NewSolo(filepath.Join(scratch, "solo"), w.BK)
	if err != nil {
		panic(err)
	}
	defer c.Close()
	commit(c, w.FundingTxs(), false)

	shs := shapes()
	total := vf.N(1500, 40000)
	perChain := 250
	batch := 50
	var all []*kase
	blockNo := 0
	chainNo := 0
	for ni, n := range []int{4, 7, 10, 40} {
		nCases := total / 4
		for seg := 0; seg*perChain < nCases; seg++ {
			chainNo++
			sc := &sideChain{id: uint64(1000*n + seg), n: n, q: (2*n + 2) / 3, tag: fmt.Sprintf("%s/n%d/chain%d", tag, n, seg)}
			for i := 0; i < n; i++ {
				sc.peers = append(sc.peers, chain.DetAccount(fmt.Sprintf("%s/peer%d", sc.tag, i)))
			}
			for i := 0; i < 3; i++ {
				sc.outs = append(sc.outs, chain.DetAccount(fmt.Sprintf("%s/outsider%d", sc.tag, i)))
			}
			// ---- side-chain genesis header with the chain config
			cfg := &vconfig.ChainConfig{Version: 1, View: 1, N: uint32(n), C: uint32((n - 1) / 3)}
			for i, a := range sc.peers {
				cfg.Peers = append(cfg.Peers, &vconfig.PeerConfig{Index: uint32(i + 1), ID: idOf(a.PublicKey)})
			}
			gp, _ := json.Marshal(&vconfig.VbftBlockInfo{Proposer: ^uint32(0), LastConfigBlockNum: ^uint32(0), NewChainConfig: cfg})
			gh := &cccom.Header{Version: 0, ChainID: sc.id, Height: 0, Timestamp: 1600000000, ConsensusData: 2083236893, ConsensusPayload: gp}
			gwire := headerBytes(gh)
			// a non-operator cannot install a peer set
			mt, err := w.TB.Native(0, 20000000, nutils.HeaderSyncContractAddress, header_sync.SYNC_GENESIS_HEADER, []interface{}{syncGenesisHeaderArgs{GenesisHeader: gwire}})
			if err != nil {
				panic(err)
			}
			if err := chain.Sign(mt, w.Accts[0]); err != nil {
				panic(err)
			}
			bad := chain.Immutable(mt)
			mt, err = w.TB.Native(0, 20000000, nutils.HeaderSyncContractAddress, header_sync.SYNC_GENESIS_HEADER, []interface{}{syncGenesisHeaderArgs{GenesisHeader: gwire}})
			if err != nil {
				panic(err)
			}
			if err := chain.Sign(mt, w.BK); err != nil {
				panic(err)
			}
			good := chain.Immutable(mt)
			commit(c, []*types.Transaction{bad}, false)
			peersKey := storageKey(header_sync.CONSENSUS_PEER, sc.id, u32(0))
			if v, _ := getItem(c, peersKey); v != nil || txState(c, bad) == int(event.CONTRACT_STATE_SUCCESS) {
				r.Violation("genesis-header-accepted-from-non-operator", "syncGenesisHeader signed by an ordinary account stored a peer set", map[string]interface{}{"chainID": sc.id})
			} else {
				r.Count("genesis_from_non_operator_rejected")
			}
			commit(c, []*types.Transaction{good}, false)
			v, err := getItem(c, peersKey)
			if err != nil || v == nil || txState(c, good) != int(event.CONTRACT_STATE_SUCCESS) {
				r.Inconclusive(fmt.Sprintf("harness: syncGenesisHeader by the operator did not store the peer set of chain %d (state %d, err %v)", sc.id, txState(c, good), err))
				os.RemoveAll(scratch)
				r.Finish()
			}
			cp := &header_sync.ConsensusPeers{}
			if err := cp.Deserialization(common.NewZeroCopySource(v)); err != nil {
				panic(err)
			}
			var ids []string
			for id := range cp.PeerMap {
				ids = append(ids, id)
			}
			sort.Strings(ids)
			for _, id := range ids {
				pk, err := vconfig.Pubkey(id)
				if err != nil {
					panic(err)
				}
				sc.stored = append(sc.stored, pk)
			}
			if len(sc.stored) != n {
				r.Inconclusive(fmt.Sprintf("harness: contract stored %d peers for an n=%d chain", len(sc.stored), n))
			}
			r.Count("side_chain_genesis_synced")

			// ---- forged headers
			lo, hi := seg*perChain, (seg+1)*perChain
			if hi > nCases {
				hi = nCases
			}
			sub := rng.Sub(uint64(ni)*1000003 + uint64(seg))
			for b0 := lo; b0 < hi; b0 += batch {
				b1 := b0 + batch
				if b1 > hi {
					b1 = hi
				}
				ks := make([]*kase, b1-b0)
				for i := b0; i < b1; i++ { // sequential: the tx builder's nonces are part of the case
					ks[i-b0] = buildCase(sc, shs[i%len(shs)], sub.Sub(uint64(i)), i, uint32(i-lo+1), w)
				}
				var txs []*types.Transaction
				for _, k := range ks {
					if k.harness == "" {
						txs = append(txs, k.tx)
					}
				}
				blockNo++
				commit(c, txs, blockNo%2 == 0)
				vf.Parallel(len(ks), 6, func(i int) {
					if ks[i].harness == "" {
						ks[i].judge()
					}
				})
				for _, k := range ks {
					if k.harness != "" {
						continue
					}
					observe(c, k)
				}
				all = append(all, ks...)
			}
		}
	}
	fam := runFamilies(r, c, w, rng.Sub(0xFA3117), tag, &blockNo)
	all = append(all, fam...)
	r.Extra("family_cases", len(fam))
	r.Extra("side_chains", chainNo)
	r.Extra("ledger_blocks", c.Ledger.GetCurrentBlockHeight())

	// ---- verdicts
	type viol struct {
		key, what string
		k         *kase
	}
	var viols []viol
	for _, k := range all {
		if k.harness != "" {
			r.Inconclusive(fmt.Sprintf("harness: n=%d chain %d case %d (%s): %s", k.sc.n, k.sc.id, k.idx, k.shape, k.harness))
			continue
		}
		fp := fmt.Sprintf("%d/%s/%s/%s", k.sc.n, k.shape, strings.Join(k.keys, ","), strings.Join(k.sigs, ","))
		if k.family != "" {
			fp = fmt.Sprintf("%s/%d/%s/%s", k.family, k.sc.id, k.class, fp)
		}
		if len(k.keys) == 0 && len(k.sigs) == 0 {
			fp = ""
		}
		r.Eval(fp)
		r.Count("shape/" + k.shape)
		if k.family == "" {
			r.Count(fmt.Sprintf("n=%d", k.sc.n))
		} else {
			countFamily(r, k)
		}
		if k.noBuiltD {
			// the signer lists of these cases are chosen before the peer set in force is known
		} else if k.builtD != k.D {
			r.Inconclusive(fmt.Sprintf("harness: n=%d case %d (%s): oracle D=%d, list built with %d valid peer signers", k.sc.n, k.idx, k.shape, k.D, k.builtD))
		} else {
			r.Count("oracle_D_equals_constructed_D")
		}
		n, q := k.n(), k.q()
		enough := k.D*3 >= n*2
		switch {
		case k.accepted && enough:
			r.Count("shape/" + k.shape + "/accepted")
			r.Count("accepted_with_3D>=2n")
		case k.accepted:
			r.Count("shape/" + k.shape + "/accepted")
			r.Count("accepted_with_3D<2n(VIOLATION)")
			key := fmt.Sprintf("cross-chain-header-accepted-below-two-thirds-distinct-signers:listed-len>=2n/3,distinct-valid=%s", classD(k.D, q))
			if k.listedLen*3 < n*2 {
				key = fmt.Sprintf("cross-chain-header-accepted-below-two-thirds-distinct-signers:listed-len<2n/3,distinct-valid=%s", classD(k.D, q))
			}
			if k.dupKeys {
				key += ",duplicate-keys"
			}
			if k.nonPeerListed {
				key += ",non-peer-listed"
			}
			if k.keyHeight != 0 {
				key += ",peer-set-of-later-key-height"
			}
			viols = append(viols, viol{key: key, k: k,
				what: fmt.Sprintf("syncBlockHeader stored a header for side chain %d (n=%d stored peers) whose %d listed keys contain only %d distinct peers and whose signatures verify for only %d distinct peers (3*%d < 2*%d); shape %s", k.sc.id, n, k.listedLen, k.listedDistinctPeers, k.D, k.D, n, k.shape)})
		case enough && !k.nonPeerListed:
			r.Count("shape/" + k.shape + "/rejected")
			r.Count("rejected_with_3D>=2n(over-strict,informational)")
		case enough:
			r.Count("shape/" + k.shape + "/rejected")
			r.Count("rejected_with_3D>=2n_non-peer-listed")
		default:
			r.Count("shape/" + k.shape + "/rejected")
			r.Count("rejected_with_3D<2n")
		}
	}
	sort.SliceStable(viols, func(i, j int) bool {
		a, b := viols[i].k, viols[j].k
		if a.sc.n != b.sc.n {
			return a.sc.n < b.sc.n
		}
		if len(a.keys)+len(a.sigs) != len(b.keys)+len(b.sigs) {
			return len(a.keys)+len(a.sigs) < len(b.keys)+len(b.sigs)
		}
		fa, fb := strings.Count(strings.Join(a.sigs, ","), "#"), strings.Count(strings.Join(b.sigs, ","), "#")
		if fa != fb {
			return fa < fb // prefer the same signature bytes repeated over separately produced signatures
		}
		return a.idx < b.idx
	})
	for _, v := range viols {
		k := v.k
		var stored, inForce []string
		for _, pk := range k.sc.stored {
			stored = append(stored, idOf(pk))
		}
		for _, pk := range k.peerSet() {
			inForce = append(inForce, idOf(pk))
		}
		r.Violation(v.key, v.what, map[string]interface{}{
			"n": k.n(), "required_distinct_signers": k.q(), "chainID": k.sc.id, "height": k.height, "shape": k.shape, "case_index": k.idx,
			"peers":                 fmt.Sprintf("chain.DetAccount(\"%s/peer<i>\"), i<n; outsiders …/outsider<i>", k.sc.tag),
			"stored_peer_ids":       stored,
			"peer_set_in_force_ids": inForce, "peer_set_in_force_key_height": k.keyHeight,
			"family": k.family, "class": k.class, "steps_before_this_header(same chain, in order)": k.history,
			"bookkeepers(p=peer,o=outsider)":                   k.keys,
			"sigdata(#j=another signature of the same signer)": k.sigs,
			"listed_len": k.listedLen, "listed_distinct_peers": k.listedDistinctPeers,
			"D_distinct_peers_with_valid_signature": k.D, "valid_signer_indices(sorted stored ids)": k.validSigners,
			"tx_notify_state": k.notifyState, "tx_hash": func() string { h := k.tx.Hash(); return h.ToHexString() }(),
			"header_hex": vf.Hex(k.wire),
		})
	}
	for _, i := range []int{0, 4, 5, 8, 16} {
		if i < len(all) && all[i].harness == "" {
			k := all[i]
			r.Sample(map[string]interface{}{"n": k.sc.n, "shape": k.shape, "bookkeepers": k.keys, "sigdata": k.sigs, "D": k.D, "accepted": k.accepted, "notify_state": k.notifyState, "header_hex_prefix": vf.HexTrunc(k.wire, 100)})
		}
	}
	for _, s := range shs {
		r.Require("shape/"+s.name, 9)
	}
	for _, n := range []int{4, 7, 10, 40} {
		r.Require(fmt.Sprintf("n=%d", n), 100)
	}
	requireFamilies(r)
	r.Require("side_chain_genesis_synced", 3)
	r.Require("genesis_from_non_operator_rejected", 3)
	r.Require("shape/honest/accepted", 9)
	r.Require("shape/honest-sigs-permuted/accepted", 9)
	r.Require("shape/below-two-thirds-all-sign/rejected", 9)
	r.Require("shape/non-peers-listed/rejected", 9)
	r.Require("shape/garbage-signatures/rejected", 9)
	r.Require("shape/two-thirds-listed-few-sign/rejected", 9)
	r.Require("accepted_with_3D>=2n", 20)
	r.Require("rejected_with_3D<2n", 20)
	r.Require("oracle_D_equals_constructed_D", int64(total/3*3))
	r.Extra("exhaustive", false)
	r.Assume("peer set = what syncGenesisHeader stored (read back from committed state); the forged headers of the list shapes, quorum-sweep and duplicate-layouts carry no new chain config, so the genesis peer set governs every height; in the config-change family the peer set in force for height h is the one the contract stored (read back) under the greatest key height < h among the change headers accepted before the case was delivered; D counts a stored peer when ANY signature of SigData verifies for its key over the header hash")
	r.Assume("syncGenesisHeader needs the witness of the param-contract operator; on a solo ledger genesis makes the single bookkeeper that operator")
	c.Close()
	os.RemoveAll(scratch)
	r.Finish()
}
