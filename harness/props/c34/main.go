// C34 — Honest VBFT nodes never seal different blocks at the same height.
// Cluster run with fault injection + offline agreement checker.  The hub (this process)
// sits on every link between real vbft.Server nodes (one OS process each), delays, drops,
// duplicates and reorders their signed consensus payloads from a seeded schedule,
// partitions the network, and plays Byzantine peers as "twins": two real node processes
// running with the SAME faulty key and separate ledgers, each shown to a different part of
// the honest nodes, so every equivocating message is well-formed and correctly signed.
package main

import (
	"bufio"
	"crypto/sha256"
	"encoding/hex"
	"encoding/json"
	"fmt"
	"net"
	"os"
	"os/exec"
	"path/filepath"
	"sort"
	"sync"
	"sync/atomic"
	"time"

	"github.com/ontio/ontology/common"
	"github.com/ontio/ontology/consensus/vbft"
	"github.com/ontio/ontology/p2pserver/message/types"
	"verifharness/lib/vf"
)

type nconn struct {
	idx    uint32 // peer index (1-based)
	inst   string
	conn   net.Conn
	rd     *bufio.Reader
	mu     sync.Mutex
	faulty bool
}

type seal struct {
	Height uint32 `json:"height"`
	Hash   string `json:"hash"`
	Prop   uint32 `json:"proposer"`
	NBk    int    `json:"nbookkeepers"`
}

type schedule struct {
	Name        string
	DropPct     int // honest links
	MaxDelayMs  int
	DupPct      int
	Partition   bool // periodically split the honest nodes
	Faulty      []int
	Twins       bool // faulty peers run as equivocating twins (else: a single instance whose messages are selectively withheld)
	RegroupEach int  // messages between re-drawing the twins' audiences / partitions
	Aligned     bool // split brain: the honest nodes are cut in two sides and each twin face lives in one side
}

// faceMsg remembers what each face of a twin peer said per (message type, block number).
type faceKey struct {
	peer uint32
	typ  int
	blk  uint32
}

type cluster struct {
	said     map[faceKey]map[string]string // -> face -> digest of the statement (endorsed / committed / proposed block hash)
	cc       clusterCfg
	sch      schedule
	rng      *vf.RNG
	mu       sync.Mutex
	conns    []*nconn
	seals    map[string][]seal // node key -> seals in report order
	seq      uint64
	groupA   map[uint32]bool // honest peers that see twin a
	groupB   map[uint32]bool
	part     map[uint32]int // partition id of honest peers (when Partition)
	stats    map[string]int64
	stopped  atomic.Bool
	faultsOn atomic.Bool // toggled by the phase scheduler during the hostile part of the run
	hostile  atomic.Bool // faults start once the cluster is up (>=2 honest nodes reported height>=2)
}

func (cl *cluster) count(k string) {
	cl.mu.Lock()
	cl.stats[k]++
	cl.mu.Unlock()
}

func (cl *cluster) isFaulty(idx uint32) bool {
	for _, f := range cl.sch.Faulty {
		if uint32(f+1) == idx {
			return true
		}
	}
	return false
}

func (cl *cluster) regroup() {
	cl.groupA, cl.groupB, cl.part = map[uint32]bool{}, map[uint32]bool{}, map[uint32]int{}
	if cl.sch.Aligned {
		// every honest node is on exactly one side; side 0 hears face a, side 1 hears face b.  Both sides
		// are non-empty, so one side (with its face) may hold a quorum while the other must not decide.
		var honest []uint32
		for i := 1; i <= cl.cc.N; i++ {
			if !cl.isFaulty(uint32(i)) {
				honest = append(honest, uint32(i))
			}
		}
		cut := 1 + cl.rng.Intn(len(honest)-1)
		perm := cl.rng.Perm(len(honest))
		for j, pi := range perm {
			h := honest[pi]
			if j < cut {
				cl.groupA[h], cl.part[h] = true, 0
			} else {
				cl.groupB[h], cl.part[h] = true, 1
			}
		}
		cl.stats["split_brain_regroups"]++
		return
	}
	for i := 1; i <= cl.cc.N; i++ {
		if cl.isFaulty(uint32(i)) {
			continue
		}
		switch cl.rng.Intn(4) {
		case 0:
			cl.groupA[uint32(i)] = true
		case 1:
			cl.groupB[uint32(i)] = true
		default: // some honest nodes see both faces
			cl.groupA[uint32(i)] = true
			cl.groupB[uint32(i)] = true
		}
		cl.part[uint32(i)] = cl.rng.Intn(2)
	}
	if cl.rng.Chance(25) { // partitions are intermittent
		for k := range cl.part {
			cl.part[k] = 0
		}
	}
}

// inspect decodes a consensus payload far enough to know what its sender states about which block
// (used only for coverage evidence: did the twins really equivocate?).
func (cl *cluster) inspect(from *nconn, payload []byte) {
	if !from.faulty || from.inst == "" {
		return
	}
	cp := new(types.ConsensusPayload)
	if err := cp.Deserialization(common.NewZeroCopySource(payload)); err != nil {
		return
	}
	var w vbft.ConsensusMsgPayload
	if json.Unmarshal(cp.Data, &w) != nil {
		return
	}
	var m map[string]interface{}
	var digest string
	var blk uint32
	switch w.Type {
	case vbft.BlockEndorseMessage, vbft.BlockCommitMessage:
		if json.Unmarshal(w.Payload, &m) != nil {
			return
		}
		if v, ok := m["block_num"].(float64); ok {
			blk = uint32(v)
		}
		digest = fmt.Sprint(m["endorsed_block_hash"], m["commit_block_hash"], m["endorsed_proposer"], m["block_proposer"], m["endorse_for_empty"], m["commit_for_empty"])
	case vbft.BlockProposalMessage:
		m, err := vbft.DeserializeVbftMsg(cp.Data)
		if err != nil {
			return
		}
		blk = m.GetBlockNum()
		h := sha256.Sum256(w.Payload)
		digest = hex.EncodeToString(h[:8])
	default:
		return
	}
	k := faceKey{from.idx, int(w.Type), blk}
	cl.mu.Lock()
	if cl.said[k] == nil {
		cl.said[k] = map[string]string{}
	}
	if _, ok := cl.said[k][from.inst]; !ok {
		cl.said[k][from.inst] = digest
		{
			other := "a"
			if from.inst == "a" {
				other = "b"
			}
			if od, ok := cl.said[k][other]; ok {
				cl.stats["both_faces_spoke_for_same_height_and_type"]++
				if od != digest {
					cl.stats["byzantine_equivocations"]++
				}
			}
		}
	}
	cl.stats[fmt.Sprintf("faulty_msgs_type%d", w.Type)]++
	cl.mu.Unlock()
}

// route decides the fate of one (message, destination) pair.
func (cl *cluster) route(from *nconn, destIdx uint32, payload []byte) {
	if cl.stopped.Load() {
		return
	}
	cl.mu.Lock()
	cl.seq++
	seq := cl.seq
	if cl.sch.RegroupEach > 0 && seq%uint64(cl.sch.RegroupEach) == 0 {
		cl.regroup()
	}
	r := cl.rng.Sub(seq)
	var dests []*nconn
	for _, c := range cl.conns {
		if c.idx != destIdx || c == from {
			continue
		}
		// twins: each face of a faulty peer talks to its own audience only (in force from the start, so
		// that both faces follow the chain and equivocate in the same rounds)
		// (split-brain schedules: only during fault windows; in between both faces talk to and hear everybody,
		// which keeps them on the chain and lets every node see their conflicting statements)
		facesApart := !cl.sch.Aligned || cl.faultsOn.Load()
		if facesApart && from.faulty && from.inst != "" && !c.faulty {
			if (from.inst == "a" && !cl.groupA[c.idx]) || (from.inst == "b" && !cl.groupB[c.idx]) {
				cl.stats["twin_face_hidden"]++
				continue
			}
		}
		if facesApart && c.faulty && c.inst != "" && !from.faulty {
			if (c.inst == "a" && !cl.groupA[from.idx]) || (c.inst == "b" && !cl.groupB[from.idx]) {
				continue
			}
		}
		// a single faulty instance withholds messages selectively
		if cl.faultsOn.Load() && from.faulty && from.inst == "" && r.Chance(35) {
			cl.stats["faulty_withheld"]++
			continue
		}
		if cl.faultsOn.Load() && cl.sch.Partition && !from.faulty && !c.faulty && cl.part[from.idx] != cl.part[c.idx] {
			cl.stats["partition_drop"]++
			continue
		}
		dests = append(dests, c)
	}
	drop := cl.faultsOn.Load() && r.Chance(cl.sch.DropPct)
	delay := 0
	if cl.sch.MaxDelayMs > 0 && cl.faultsOn.Load() {
		delay = r.Intn(cl.sch.MaxDelayMs + 1)
		if r.Chance(70) {
			delay /= 8 // most messages are fast, a tail is slow => reordering
		}
	}
	dup := cl.faultsOn.Load() && r.Chance(cl.sch.DupPct)
	cl.stats["routed"]++
	if drop {
		cl.stats["dropped"]++
	}
	if dup {
		cl.stats["duplicated"]++
	}
	cl.mu.Unlock()
	if drop {
		return
	}
	for _, d := range dests {
		d := d
		send := func() {
			if !cl.stopped.Load() {
				writeFrame(d.conn, &d.mu, 'M', from.idx, payload)
			}
		}
		if delay == 0 {
			send()
		} else {
			time.AfterFunc(time.Duration(delay)*time.Millisecond, send)
		}
		if dup {
			time.AfterFunc(time.Duration(delay+r.Intn(200))*time.Millisecond, send)
		}
	}
}

func (cl *cluster) serve(c *nconn) {
	rd := c.rd
	key := fmt.Sprintf("%d%s", c.idx, c.inst)
	for {
		kind, to, payload, err := readFrame(rd)
		if err != nil {
			return
		}
		if kind == 'B' || kind == 'S' {
			cl.inspect(c, payload)
		}
		switch kind {
		case 'B':
			for j := 1; j <= cl.cc.N; j++ {
				if uint32(j) != c.idx {
					cl.route(c, uint32(j), payload)
				}
			}
		case 'S':
			cl.route(c, to, payload)
		case 'H':
			var s seal
			if json.Unmarshal(payload, &s) == nil {
				cl.mu.Lock()
				cl.seals[key] = append(cl.seals[key], s)
				if !c.faulty && s.Height >= 2 {
					up := 0
					for k, ss := range cl.seals {
						if len(k) > 0 && k[len(k)-1] != 'a' && k[len(k)-1] != 'b' && len(ss) >= 2 {
							up++
						}
					}
					if up >= 2 && !cl.hostile.Load() {
						cl.hostile.Store(true)
						cl.stats["hostile_from_seq"] = int64(cl.seq)
					}
				}
				cl.mu.Unlock()
			}
		}
	}
}

// runCluster runs one schedule and returns the per-node seal histories.
// runCluster reports false when the cluster never came up (nodes did not connect or did not seal two
// blocks in the warm-up: seen on an overloaded machine) and attempt is not the last one: nothing of
// that attempt is counted and the caller runs the schedule again.  On the last attempt the run is
// inconclusive.
func runCluster(r *vf.Run, id, attempt int, sch schedule, N, C int, blockMs uint32, wall time.Duration, scratch string) bool {
	const lastAttempt = 2
	abort := false
	tag := fmt.Sprintf("c34-%d-%d-%d", vf.Seed(), id, attempt)
	dir := filepath.Join(scratch, tag)
	os.MkdirAll(dir, 0o755)
	cc := clusterCfg{Tag: tag, N: N, C: C, BlockMs: blockMs, HashMs: blockMs, SockPath: filepath.Join(dir, "hub.sock")}
	cl := &cluster{cc: cc, sch: sch, rng: vf.NewRNG(vf.Seed()).Sub(uint64(id) + 31337), seals: map[string][]seal{}, stats: map[string]int64{}, said: map[faceKey]map[string]string{}}
	cl.regroup()
	ln, err := net.Listen("unix", cc.SockPath)
	if err != nil {
		panic(err)
	}
	defer ln.Close()
	ccJSON, _ := json.Marshal(cc)
	self, _ := os.Executable()
	var procs []*exec.Cmd
	spawn := func(idx int, inst string) {
		nd := filepath.Join(dir, fmt.Sprintf("node%d%s", idx, inst))
		cmd := exec.Command(self)
		cmd.Env = append(os.Environ(), "VERIF_C34_NODE=1", "VERIF_C34_CLUSTER="+string(ccJSON), fmt.Sprintf("VERIF_C34_INDEX=%d", idx), "VERIF_C34_INSTANCE="+inst, "VERIF_C34_DIR="+nd)
		if os.Getenv("VERIF_C34_KEEPLOG") != "" {
			os.MkdirAll(nd+".log", 0o755)
			cmd.Env = append(cmd.Env, "VERIF_C34_LOG="+nd+".log")
		}
		errf, _ := os.Create(nd + ".stderr")
		cmd.Stderr = errf
		cmd.Stdout = errf
		if err := cmd.Start(); err != nil {
			panic(err)
		}
		procs = append(procs, cmd)
	}
	want := 0
	for i := 0; i < N; i++ {
		if cl.isFaulty(uint32(i+1)) && sch.Twins {
			spawn(i, "a")
			spawn(i, "b")
			want += 2
		} else {
			spawn(i, "")
			want++
		}
	}
	// accept all nodes
	acceptDone := make(chan struct{})
	go func() {
		for k := 0; k < want; k++ {
			c, err := ln.Accept()
			if err != nil {
				return
			}
			rd := bufio.NewReaderSize(c, 1<<20)
			kind, idx, payload, err := readFrame(rd)
			if err != nil || kind != 'I' {
				c.Close()
				k--
				continue
			}
			nc := &nconn{idx: idx, inst: string(payload), conn: c, rd: rd, faulty: cl.isFaulty(idx)}
			cl.mu.Lock()
			cl.conns = append(cl.conns, nc)
			cl.mu.Unlock()
		}
		close(acceptDone)
	}()
	t0 := time.Now()
	select {
	case <-acceptDone:
	case <-time.After(240 * time.Second):
		if attempt < lastAttempt {
			abort = true
		} else {
			r.Inconclusive(fmt.Sprintf("cluster %d: nodes did not all connect", id))
		}
	}
	cl.mu.Lock()
	cl.stats["connect_ms"] = time.Since(t0).Milliseconds()
	cl.mu.Unlock()
	cl.mu.Lock()
	conns := append([]*nconn{}, cl.conns...)
	cl.mu.Unlock()
	for _, c := range conns {
		go cl.serve(c)
	}
	// warm-up until the cluster is up (bounded), then the hostile phase lasts `wall`
	for i := 0; i < 1200*(attempt+1) && !cl.hostile.Load() && !abort; i++ {
		time.Sleep(100 * time.Millisecond)
	}
	// VBFT servers turn "Synced" (and only then act as leader) 10 s after they were sync-ready: give
	// the cluster that time, otherwise every height whose leader is honest waits for the 2nd proposer
	if !abort {
		time.Sleep(12 * time.Second)
	}
	if !cl.hostile.Load() {
		if attempt < lastAttempt {
			abort = true
		} else {
			r.Inconclusive(fmt.Sprintf("cluster %d (%s): never sealed 2 blocks during warm-up", id, sch.Name))
		}
	}
	if abort {
		wall = 0
	}
	// hostile part: fault windows alternate with calm windows (intermittent faults let the cluster
	// make progress under the new conditions); audiences / partitions are re-drawn at every window.
	// Wall clock paces the RUN only; the verdict below is on recorded histories.
	end := time.Now().Add(wall)
	wr := cl.rng.Sub(777)
	for time.Now().Before(end) {
		cl.mu.Lock()
		cl.regroup()
		cl.stats["fault_windows"]++
		cl.mu.Unlock()
		cl.faultsOn.Store(true)
		time.Sleep(time.Duration(2500+wr.Intn(4000)) * time.Millisecond)
		cl.faultsOn.Store(false)
		time.Sleep(time.Duration(1500+wr.Intn(2000)) * time.Millisecond)
	}
	cl.stopped.Store(true)
	for _, c := range conns {
		writeFrame(c.conn, &c.mu, 'Q', 0, nil)
	}
	doneC := make(chan struct{})
	go func() {
		for _, p := range procs {
			p.Wait()
		}
		close(doneC)
	}()
	select {
	case <-doneC:
	case <-time.After(20 * time.Second):
		for _, p := range procs {
			p.Process.Kill()
		}
	}
	if abort {
		r.Count("clusters_that_never_came_up_and_were_run_again")
		os.RemoveAll(dir)
		return false
	}
	// ---------------- offline agreement checker over the honest nodes' histories
	cl.mu.Lock()
	defer cl.mu.Unlock()
	// prefer each node's final ledger dump, fall back to the live reports
	chains := map[string]map[uint32]string{}
	for i := 0; i < N; i++ {
		if cl.isFaulty(uint32(i + 1)) {
			continue
		}
		key := fmt.Sprintf("%d", i+1)
		m := map[uint32]string{}
		for _, s := range cl.seals[key] {
			if old, ok := m[s.Height]; ok && old != s.Hash {
				r.Violation("node-reports-two-blocks-at-one-height", fmt.Sprintf("node %s height %d: %s then %s", key, s.Height, old, s.Hash), map[string]interface{}{"schedule": sch, "cluster": id})
			}
			m[s.Height] = s.Hash
		}
		if b, err := os.ReadFile(filepath.Join(dir, fmt.Sprintf("node%d", i)) + ".chain.json"); err == nil {
			var dump map[uint32]string
			if json.Unmarshal(b, &dump) == nil {
				for h, hs := range dump {
					if old, ok := m[h]; ok && old != hs {
						r.Violation("ledger-dump-differs-from-live-report", fmt.Sprintf("node %s height %d", key, h), map[string]interface{}{"schedule": sch, "cluster": id})
					}
					m[h] = hs
				}
			}
		}
		chains[key] = m
	}
	maxH, minH := uint32(0), uint32(1<<31)
	for _, m := range chains {
		top := uint32(0)
		for h := range m {
			if h > top {
				top = h
			}
		}
		if top > maxH {
			maxH = top
		}
		if top < minH {
			minH = top
		}
	}
	agreeHeights := 0
	for h := uint32(1); h <= maxH; h++ {
		var hashes []string
		byHash := map[string][]string{}
		for k, m := range chains {
			if hs, ok := m[h]; ok {
				byHash[hs] = append(byHash[hs], k)
			}
		}
		for hs := range byHash {
			hashes = append(hashes, hs)
		}
		if len(hashes) > 1 {
			sort.Strings(hashes)
			r.Violation("honest-nodes-sealed-different-blocks:"+sch.Name, fmt.Sprintf("height %d: %v", h, byHash), map[string]interface{}{"schedule": sch, "cluster": id, "N": N, "C": C, "height": h, "blocks": byHash, "stats": cl.stats})
		} else if len(hashes) == 1 && len(byHash[hashes[0]]) >= 2 {
			agreeHeights++
		}
	}
	r.Add("heights_compared_between_>=2_honest_nodes", int64(agreeHeights))
	r.Add("messages_routed", cl.stats["routed"])
	r.Add("messages_dropped", cl.stats["dropped"]+cl.stats["partition_drop"])
	r.Add("messages_duplicated", cl.stats["duplicated"])
	r.Add("twin_face_hidden", cl.stats["twin_face_hidden"])
	r.Add("byzantine_equivocations(same peer, same height, different proposal/endorse/commit statements)", cl.stats["byzantine_equivocations"])
	r.Add("twin_faces_both_spoke_for_same_height_and_type", cl.stats["both_faces_spoke_for_same_height_and_type"])
	r.Add("faulty_withheld", cl.stats["faulty_withheld"])
	r.Count("clusters_run/" + sch.Name)
	fp := ""
	if agreeHeights > 0 {
		fp = fmt.Sprintf("%d/%s/%d-%d", id, sch.Name, minH, maxH)
	}
	r.Eval(fp)
	r.Sample(map[string]interface{}{"cluster": id, "schedule": sch, "N": N, "C": C, "honest_min_height": minH, "honest_max_height": maxH, "heights_agreeing": agreeHeights, "stats": cl.stats})
	if os.Getenv("VERIF_C34_KEEPLOG") == "" {
		os.RemoveAll(dir)
	}
	return true
}

func main() {
	if os.Getenv("VERIF_C34_NODE") != "" {
		nodeMain()
		return
	}
	r := vf.NewRun("C34", "exploration",
		"(1) in-process single-height games: every honest node is a real vbft.Server without goroutines/network/ledger whose real message, timer and action handlers are pumped one event at a time; a seeded scheduler is the asynchronous network (order, delay, duplication), decides which armed timer expires, and plays <=C faulty peers that send well-formed signed proposals (also several different ones), endorsements and commits about any known block to any subset (strategies: random, split-brain camps, mostly quiet); verdict = all SealBlock decisions of honest nodes in a game name one block. (2) clusters of real vbft.Server processes (N=4,C=1 and N=7,C=2) connected through a hub that applies a seeded schedule: random delays (reordering), loss, duplication, intermittent partitions of the honest nodes, and <=C Byzantine peers run either as equivocating twins (two processes with the same key, each face shown to a different audience) or as a withholding peer; every honest node's sealed (height, block hash) history is read through its ledger; verdict = agreement at every height. A run is non-trivial when >=2 honest nodes sealed >=1 common height; distinct by (cluster, schedule, height range)")
	scratch := vf.Scratch("c34")
	if os.Getenv("VERIF_C34_KEEPLOG") != "" {
		fmt.Fprintln(os.Stderr, "c34: keeping", scratch)
	} else {
		defer os.RemoveAll(scratch)
	}
	if only := os.Getenv("VERIF_C34_ONLY"); only == "" || only == "sim" {
		runSim(r, vf.NewRNG(vf.Seed()).Sub(4242))
		if only == "sim" {
			r.Finish()
		}
	}
	blockMs := uint32(600)
	wall := 40 * time.Second
	type job struct {
		sch  schedule
		N, C int
	}
	var jobs []job
	base := []schedule{
		{Name: "calm", MaxDelayMs: 20},
		{Name: "reorder+loss", DropPct: 8, MaxDelayMs: 700, DupPct: 10},
		{Name: "partition", DropPct: 3, MaxDelayMs: 300, Partition: true, RegroupEach: 150},
		{Name: "twins", MaxDelayMs: 100, Twins: true, Faulty: []int{0}, RegroupEach: 150},
		{Name: "twins+loss+partition", DropPct: 5, MaxDelayMs: 400, DupPct: 5, Twins: true, Faulty: []int{1}, Partition: true, RegroupEach: 150},
		{Name: "withholding-peer", DropPct: 5, MaxDelayMs: 400, Faulty: []int{2}},
		{Name: "twins-split-brain", MaxDelayMs: 60, Twins: true, Faulty: []int{3}, Partition: true, Aligned: true},
	}
	for _, s := range base {
		jobs = append(jobs, job{s, 4, 1})
	}
	if vf.Thorough() {
		wall = 90 * time.Second
		for rep := 0; rep < 3; rep++ {
			for _, s := range base {
				s2 := s
				if len(s2.Faulty) > 0 {
					s2.Faulty = []int{(s.Faulty[0] + rep + 1) % 4}
				}
				jobs = append(jobs, job{s2, 4, 1})
			}
		}
		for _, s := range base {
			s7 := s
			if len(s7.Faulty) > 0 {
				s7.Faulty = []int{s.Faulty[0], (s.Faulty[0] + 3) % 7}
			}
			s7.Name += "/N7"
			jobs = append(jobs, job{s7, 7, 2})
		}
	}
	if only := os.Getenv("VERIF_C34_ONLY"); only != "" {
		var js []job
		for _, j := range jobs {
			if j.sch.Name == only {
				js = append(js, j)
			}
		}
		jobs = js
	}
	par := 4
	again := make([]bool, len(jobs))
	vf.Parallel(len(jobs), par, func(i int) {
		again[i] = !runCluster(r, i, 0, jobs[i].sch, jobs[i].N, jobs[i].C, blockMs, wall, scratch)
	})
	// schedules whose cluster never came up are run again one at a time (less load), twice at most
	for i := range jobs {
		for attempt := 1; again[i] && attempt <= 2; attempt++ {
			again[i] = !runCluster(r, i, attempt, jobs[i].sch, jobs[i].N, jobs[i].C, blockMs, wall, scratch)
		}
	}
	r.Require("heights_compared_between_>=2_honest_nodes", 12)
	r.Require("clusters_run/calm", 1)
	r.Require("clusters_run/twins", 1)
	r.Require("clusters_run/reorder+loss", 1)
	r.Require("twin_face_hidden", 10)
	r.Require("twin_faces_both_spoke_for_same_height_and_type", 1)
	r.Require("messages_dropped", 20)
	r.Assume("VBFT timers are wall-clock, so a schedule is not bit-reproducible; the verdict is computed offline from recorded seal histories only")
	r.Assume("safety only: progress is not asserted; tens of schedules out of an astronomically large space")
	r.Assume("Byzantine behaviour = equivocation by twins, selective withholding, replays/duplicates; forged-content messages are C31's subject")
	if os.Getenv("VERIF_C34_KEEPLOG") == "" {
		os.RemoveAll(scratch)
	}
	r.Finish()
}
