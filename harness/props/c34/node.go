package main

// One VBFT node per OS process: its own ledger directory, the real tx pool server and the
// real vbft.Server built with the exported production constructor NewVbftServer + Start.
// The only mock is the p2p.P2P transport, whose Broadcast/SendTo hand the signed
// ConsensusPayload to the hub (the monitor process) over a Unix socket.

import (
	"bufio"
	"encoding/binary"
	"encoding/hex"
	"encoding/json"
	"fmt"
	"io"
	"net"
	"os"
	"strconv"
	"sync"
	"time"

	"github.com/ontio/ontology-crypto/keypair"
	"github.com/ontio/ontology/account"
	"github.com/ontio/ontology/common"
	"github.com/ontio/ontology/common/config"
	"github.com/ontio/ontology/common/log"
	"github.com/ontio/ontology/consensus/vbft"
	"github.com/ontio/ontology/core/genesis"
	"github.com/ontio/ontology/core/ledger"
	"github.com/ontio/ontology/events"
	p2pcom "github.com/ontio/ontology/p2pserver/common"
	"github.com/ontio/ontology/p2pserver/message/types"
	"github.com/ontio/ontology/p2pserver/peer"
	"github.com/ontio/ontology/txnpool"
	"verifharness/lib/chain"
)

// ---------------------------------------------------------------- shared cluster config

type clusterCfg struct {
	Tag       string
	N, C      int
	BlockMs   uint32
	HashMs    uint32
	SockPath  string
	MaxHeight uint32
}

func peerAccount(tag string, idx int) *account.Account {
	return chain.DetAccount(fmt.Sprintf("%s/peer%d", tag, idx))
}

func setupVBFTConfig(cc *clusterCfg) {
	var peers []*config.VBFTPeerStakeInfo
	for i := 0; i < cc.N; i++ {
		a := peerAccount(cc.Tag, i)
		peers = append(peers, &config.VBFTPeerStakeInfo{Index: uint32(i + 1), PeerPubkey: hex.EncodeToString(keypair.SerializePublicKey(a.PublicKey)),
			Address: a.Address.ToBase58(), InitPos: uint64(10000 + 1000*i)})
	}
	config.DefConfig.Genesis.ConsensusType = config.CONSENSUS_TYPE_VBFT
	config.DefConfig.Genesis.VBFT = &config.VBFTConfig{
		N: uint32(cc.N), C: uint32(cc.C), K: uint32(cc.N), L: uint32(16 * cc.N),
		BlockMsgDelay: cc.BlockMs, HashMsgDelay: cc.HashMs, PeerHandshakeTimeout: 10, MaxBlockChangeView: 1000000,
		AdminOntID: "did:ont:AdjfcJgwru2FD8kotCPvLDXYzRjqFjc9Tb", MinInitStake: 10000,
		VrfValue: "1c9810aa9822e511d5804a9c4db9dd08497c31087b0daafa34d768a3253441fa20515e2f30f81741102af0ca3cefc4818fef16adb825fbaa8cad78647f3afb590e",
		VrfProof: "c57741f934042cb8d8b087b44b161db56fc3ffd4ffb675d36cd09f83935be853d8729f3f5298d12d6fd28d45dde515a4b9d7f67682d182ba5118abf451ff1988",
		Peers:    peers,
	}
	config.DefConfig.P2PNode.NetworkId = 7340
	config.DefConfig.P2PNode.EVMChainId = config.GetEip155ChainID(7340)
	config.DefConfig.Consensus.EnableConsensus = true
	config.DefConfig.Common.EnableEventLog = true
}

// ---------------------------------------------------------------- wire frames (node <-> hub)

// frame: kind(1) peer(4) len(4) payload
//
//	node->hub: 'B' broadcast (peer ignored), 'S' send to peer index, 'H' sealed height report (json)
//	hub->node: 'M' consensus payload from peer index, 'Q' quit
func writeFrame(w io.Writer, mu *sync.Mutex, kind byte, peerIdx uint32, payload []byte) error {
	hdr := make([]byte, 9)
	hdr[0] = kind
	binary.LittleEndian.PutUint32(hdr[1:], peerIdx)
	binary.LittleEndian.PutUint32(hdr[5:], uint32(len(payload)))
	mu.Lock()
	defer mu.Unlock()
	if _, err := w.Write(hdr); err != nil {
		return err
	}
	_, err := w.Write(payload)
	return err
}

func readFrame(r *bufio.Reader) (kind byte, peerIdx uint32, payload []byte, err error) {
	hdr := make([]byte, 9)
	if _, err = io.ReadFull(r, hdr); err != nil {
		return
	}
	kind = hdr[0]
	peerIdx = binary.LittleEndian.Uint32(hdr[1:])
	n := binary.LittleEndian.Uint32(hdr[5:])
	payload = make([]byte, n)
	_, err = io.ReadFull(r, payload)
	return
}

// ---------------------------------------------------------------- p2p mock

type hubP2P struct {
	conn net.Conn
	mu   sync.Mutex
	self p2pcom.PeerId
}

func pid(idx uint32) p2pcom.PeerId { return p2pcom.PseudoPeerIdFromUint64(uint64(idx) + 1000) }

func (p *hubP2P) payloadOf(msg types.Message) []byte {
	c, ok := msg.(*types.Consensus)
	if !ok {
		return nil
	}
	return c.Cons.ToArray()
}
func (p *hubP2P) Connect(addr string) {}
func (p *hubP2P) GetHostInfo() *peer.PeerInfo {
	return peer.NewPeerInfo(p.self, 0, 0, true, 0, 0, 0, "verif", "")
}
func (p *hubP2P) GetID() p2pcom.PeerId                        { return p.self }
func (p *hubP2P) GetNeighbors() []*peer.Peer                  { return nil }
func (p *hubP2P) GetNeighborAddrs() []p2pcom.PeerAddr         { return nil }
func (p *hubP2P) GetConnectionCnt() uint32                    { return 0 }
func (p *hubP2P) GetMaxPeerBlockHeight() uint64               { return 0 }
func (p *hubP2P) GetPeer(id p2pcom.PeerId) *peer.Peer         { return nil }
func (p *hubP2P) SetHeight(uint64)                            {}
func (p *hubP2P) Send(pr *peer.Peer, msg types.Message) error { return nil }
func (p *hubP2P) GetOutConnRecordLen() uint                   { return 0 }
func (p *hubP2P) IsOwnAddress(addr string) bool               { return false }
func (p *hubP2P) Broadcast(msg types.Message) {
	if b := p.payloadOf(msg); b != nil {
		writeFrame(p.conn, &p.mu, 'B', 0, b)
	}
}
func (p *hubP2P) SendTo(id p2pcom.PeerId, msg types.Message) {
	if b := p.payloadOf(msg); b != nil {
		writeFrame(p.conn, &p.mu, 'S', uint32(id.ToUint64()-1000), b)
	}
}

// ---------------------------------------------------------------- node main

func nodeMain() {
	var cc clusterCfg
	if err := json.Unmarshal([]byte(os.Getenv("VERIF_C34_CLUSTER")), &cc); err != nil {
		panic(err)
	}
	idx, _ := strconv.Atoi(os.Getenv("VERIF_C34_INDEX")) // 0-based; peer index = idx+1
	inst := os.Getenv("VERIF_C34_INSTANCE")              // "" or "a"/"b" for the twins of a faulty peer
	dir := os.Getenv("VERIF_C34_DIR")
	if lf := os.Getenv("VERIF_C34_LOG"); lf != "" {
		log.InitLog(log.InfoLog, lf+"/")
	}
	setupVBFTConfig(&cc)
	acc := peerAccount(cc.Tag, idx)
	events.Init()
	bks, err := config.DefConfig.GetBookkeepers()
	if err != nil {
		panic(err)
	}
	gb, err := genesis.BuildGenesisBlock(bks, config.DefConfig.Genesis)
	if err != nil {
		panic(err)
	}
	ledger.DefLedger, err = ledger.InitLedger(dir, 0, bks, gb)
	if err != nil {
		panic(err)
	}
	pool, err := txnpool.StartTxnPoolServer(true, true)
	if err != nil {
		panic(err)
	}
	conn, err := net.Dial("unix", cc.SockPath)
	if err != nil {
		panic(err)
	}
	p2p := &hubP2P{conn: conn, self: pid(uint32(idx + 1))}
	// hello frame: who am I
	writeFrame(conn, &p2p.mu, 'I', uint32(idx+1), []byte(inst))
	srv, err := vbft.NewVbftServer(acc, pool.GetPID(), p2p)
	if err != nil {
		fmt.Fprintln(os.Stderr, "NewVbftServer:", err)
		os.Exit(4)
	}
	if err := srv.Start(); err != nil {
		fmt.Fprintln(os.Stderr, "Start:", err)
		os.Exit(4)
	}
	// report sealed blocks as seen through the ledger API (outside the consensus implementation)
	done := make(chan struct{})
	go func() {
		last := uint32(0)
		for {
			select {
			case <-done:
				return
			case <-time.After(40 * time.Millisecond):
			}
			h := ledger.DefLedger.GetCurrentBlockHeight()
			for last < h {
				last++
				bh := ledger.DefLedger.GetBlockHash(last)
				hd, _ := ledger.DefLedger.GetHeaderByHash(bh)
				rep := map[string]interface{}{"height": last, "hash": bh.ToHexString()}
				if hd != nil {
					if info, err := vbftInfo(hd.ConsensusPayload); err == nil {
						rep["proposer"] = info
					}
					rep["nbookkeepers"] = len(hd.Bookkeepers)
				}
				b, _ := json.Marshal(rep)
				writeFrame(conn, &p2p.mu, 'H', uint32(idx+1), b)
			}
		}
	}()
	rd := bufio.NewReaderSize(conn, 1<<20)
	for {
		kind, from, payload, err := readFrame(rd)
		if err != nil || kind == 'Q' {
			break
		}
		if kind != 'M' {
			continue
		}
		cp := new(types.ConsensusPayload)
		if err := cp.Deserialization(common.NewZeroCopySource(payload)); err != nil {
			continue
		}
		// what the production p2p consensus handler does before handing the payload over
		if err := cp.Verify(); err != nil {
			continue
		}
		cp.PeerId = pid(from)
		srv.NewConsensusPayload(cp)
	}
	close(done)
	// final dump of this node's chain from its ledger
	out := map[uint32]string{}
	top := ledger.DefLedger.GetCurrentBlockHeight()
	for h := uint32(1); h <= top; h++ {
		out[h] = ledger.DefLedger.GetBlockHash(h).ToHexString()
	}
	b, _ := json.Marshal(out)
	os.WriteFile(dir+".chain.json", b, 0o644)
	os.Exit(0)
}

func vbftInfo(payload []byte) (uint32, error) {
	var info struct {
		Proposer uint32 `json:"leader"`
	}
	if err := json.Unmarshal(payload, &info); err != nil {
		return 0, err
	}
	return info.Proposer, nil
}
