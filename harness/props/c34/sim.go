// C34, in-process half: single-height games over the real VBFT handlers.
//
// Every honest node of a game is a real vbft.Server without goroutines, network and ledger
// (vbft.VerifSimNode, build tag verif): its real onConsensusMsg / processMsgEvent /
// processTimerEvent / endorseBlock / commitBlock / makeSealed code is pumped one event at a time.
// The monitor is the asynchronous network and the adversary: a seeded scheduler decides which wire
// message reaches which node next, which ARMED timer expires, and what the <= C faulty peers say
// (well-formed, correctly signed proposals — also several different ones —, endorsements and
// commits about any known block, to any subset of the nodes).  Verdict: all SealBlock decisions of
// honest nodes of a game name the same block.
package main

import (
	"fmt"
	"sort"
	"strings"

	"github.com/ontio/ontology/account"
	"github.com/ontio/ontology/common"
	"github.com/ontio/ontology/consensus/vbft"
	vconfig "github.com/ontio/ontology/consensus/vbft/config"
	"github.com/ontio/ontology/core/signature"
	"verifharness/lib/bftkit"
	"verifharness/lib/vf"
)

type flight struct {
	from, to uint32
	wire     []byte
	typ      vbft.MsgType
	about    string // short description for traces
	cross    bool   // crosses the two camps of a split strategy
}

type knownProposal struct {
	proposer    uint32
	wire        []byte
	hash, empty common.Uint256
	byz         bool
	camp        int // split strategy: the camp this proposal is advertised to (0 = all)
}

type game struct {
	N, C     int
	id       int
	rng      *vf.RNG
	accts    map[uint32]*account.Account
	byz      map[uint32]bool
	honest   []uint32
	nodes    map[uint32]*vbft.VerifSimNode
	cfg      *vconfig.ChainConfig
	prev     *vbft.Block
	prevRoot common.Uint256
	blk      uint32
	pool     []flight
	props    []*knownProposal
	sigs     map[common.Uint256]map[uint32][]byte // observed endorser signatures per block hash
	camp     map[uint32]int                       // split strategy: honest node -> camp 1/2 (empty: no camps)
	strategy string
	trace    []string
	stats    map[string]int
	outSeen  map[uint32]int
	heard    map[uint32][]stmt                             // per honest node: endorse/commit statements delivered to it or made by it
	said     map[common.Uint256]map[uint32]map[string]bool // block hash -> honest node -> kinds of statement it broadcast (endorse, endorse-empty, commit, commit-empty)
}

// stmt: peer `who` vouches for block `hash`, named as (proposer, forEmpty)
type stmt struct {
	who, proposer uint32
	hash          common.Uint256
	forEmpty      bool
}

func stmtsOf(info *vbft.VerifSimMsgInfo) []stmt {
	switch info.Type {
	case vbft.BlockEndorseMessage:
		return []stmt{{info.Sender, info.Proposer, info.Hash, info.ForEmpty}}
	case vbft.BlockCommitMessage:
		out := []stmt{{info.Sender, info.Proposer, info.Hash, info.ForEmpty}}
		for e := range info.Endorsers {
			out = append(out, stmt{e, info.Proposer, info.Hash, info.ForEmpty})
		}
		return out
	}
	return nil
}

func (g *game) tr(f string, a ...interface{}) {
	if len(g.trace) < 4000 {
		g.trace = append(g.trace, fmt.Sprintf(f, a...))
	}
}

func short(h common.Uint256) string { return h.ToHexString()[:8] }

func newGame(id int, rng *vf.RNG, N int) (*game, error) {
	C := (N - 1) / 3
	g := &game{N: N, C: C, id: id, rng: rng, accts: map[uint32]*account.Account{}, byz: map[uint32]bool{}, nodes: map[uint32]*vbft.VerifSimNode{},
		sigs: map[common.Uint256]map[uint32][]byte{}, camp: map[uint32]int{}, stats: map[string]int{}, outSeen: map[uint32]int{},
		heard: map[uint32][]stmt{}, said: map[common.Uint256]map[uint32]map[string]bool{}}
	keys := make([]int, N)
	idx := make([]uint32, N)
	stakes := make([]uint64, N)
	for i := 0; i < N; i++ {
		keys[i], idx[i], stakes[i] = i, uint32(i+1), 1000
		g.accts[uint32(i+1)] = bftkit.Key(i)
	}
	cfg, err := bftkit.Genesis(uint32(N), uint32(N*8), uint32(C), bftkit.PeerSet(keys, idx, stakes), common.Uint256{1}, 1)
	if err != nil {
		return nil, err
	}
	g.cfg = cfg
	nb := rng.Intn(C + 1) // 0..C faulty peers
	if rng.Chance(70) {
		nb = C
	}
	for len(g.byz) < nb {
		g.byz[uint32(1+rng.Intn(N))] = true
	}
	for i := 1; i <= N; i++ {
		if !g.byz[uint32(i)] {
			g.honest = append(g.honest, uint32(i))
		}
	}
	// previous block: proposer and nonce vary, so the role layout of the game varies
	pp := uint32(1 + rng.Intn(N))
	g.prev, err = vbft.VerifSimPrevBlock(g.accts[pp], pp, 4, 1600000000, uint64(rng.Intn(1<<30)))
	if err != nil {
		return nil, err
	}
	g.blk = 5
	g.prevRoot = common.Uint256{9, 9, byte(id)}
	for _, h := range g.honest {
		n, err := vbft.NewVerifSimNode(h, g.accts[h], cfg, g.prev, g.prevRoot)
		if err != nil {
			return nil, err
		}
		g.nodes[h] = n
	}
	g.strategy = []string{"random", "random", "split", "split", "split", "quiet-byz"}[rng.Intn(6)]
	if len(g.byz) == 0 {
		g.strategy = "no-byz"
	}
	if g.strategy == "split" {
		perm := rng.Perm(len(g.honest))
		cut := 1 + rng.Intn(len(g.honest)-1)
		for j, pi := range perm {
			if j < cut {
				g.camp[g.honest[pi]] = 1
			} else {
				g.camp[g.honest[pi]] = 2
			}
		}
	}
	return g, nil
}

func (g *game) close() {
	for _, n := range g.nodes {
		n.Close()
	}
}

func (g *game) pick(k int) int { return g.rng.Intn(k) }

// collect moves what a node handed to its send loop into the network
func (g *game) collect(from uint32) {
	n := g.nodes[from]
	for ; g.outSeen[from] < len(n.Out); g.outSeen[from]++ {
		o := n.Out[g.outSeen[from]]
		info, err := vbft.VerifSimDecode(o.Wire)
		if err != nil {
			g.tr("  !! node %d emitted an undecodable message: %v", from, err)
			continue
		}
		about := fmt.Sprintf("type%d", o.Type)
		switch o.Type {
		case vbft.BlockProposalMessage:
			about = fmt.Sprintf("proposal(p%d %s)", info.Proposer, short(info.Hash))
			g.learnProposal(o.Wire, info, false)
		case vbft.BlockEndorseMessage:
			about = fmt.Sprintf("endorse(by %d for p%d %s empty=%v)", info.Sender, info.Proposer, short(info.Hash), info.ForEmpty)
			g.learnSig(info.Hash, info.Sender, info.Sig)
		case vbft.BlockCommitMessage:
			about = fmt.Sprintf("commit(by %d for p%d %s empty=%v, %d endorser sigs)", info.Sender, info.Proposer, short(info.Hash), info.ForEmpty, len(info.Endorsers))
			for e, s := range info.Endorsers {
				g.learnSig(info.Hash, e, s)
			}
		case vbft.ProposalFetchMessage:
			about = fmt.Sprintf("fetch-proposal(p%d)", info.Proposer)
		case vbft.PeerHeartbeatMessage, vbft.BlockSubmitMessage:
			continue
		}
		g.stats["honest_msgs_"+strings.SplitN(about, "(", 2)[0]]++
		if o.Type == vbft.BlockEndorseMessage || o.Type == vbft.BlockCommitMessage {
			g.heard[from] = append(g.heard[from], stmtsOf(info)...)
			if g.said[info.Hash] == nil {
				g.said[info.Hash] = map[uint32]map[string]bool{}
			}
			if g.said[info.Hash][from] == nil {
				g.said[info.Hash][from] = map[string]bool{}
			}
			kind := map[vbft.MsgType]string{vbft.BlockEndorseMessage: "endorse", vbft.BlockCommitMessage: "commit"}[o.Type]
			if info.ForEmpty {
				kind += "-empty"
			}
			g.said[info.Hash][from][kind] = true
		}
		for _, to := range g.honest {
			if to == from || (o.To != ^uint32(0) && o.To != to) {
				continue
			}
			g.pool = append(g.pool, flight{from: from, to: to, wire: o.Wire, typ: o.Type, about: about,
				cross: len(g.camp) > 0 && g.camp[from] != g.camp[to]})
		}
	}
}

func (g *game) learnProposal(wire []byte, info *vbft.VerifSimMsgInfo, byz bool) *knownProposal {
	for _, p := range g.props {
		if p.hash == info.Hash {
			return p
		}
	}
	p := &knownProposal{proposer: info.Proposer, wire: wire, hash: info.Hash, empty: info.EmptyHash, byz: byz}
	g.props = append(g.props, p)
	return p
}

func (g *game) learnSig(h common.Uint256, who uint32, sig []byte) {
	if g.sigs[h] == nil {
		g.sigs[h] = map[uint32][]byte{}
	}
	g.sigs[h][who] = sig
}

func (g *game) unsealed() []uint32 {
	var out []uint32
	for _, h := range g.honest {
		if len(g.nodes[h].Seals) == 0 {
			out = append(out, h)
		}
	}
	return out
}

// audience: the honest nodes a faulty peer sends a statement about proposal p to
func (g *game) audience(p *knownProposal) []uint32 {
	var out []uint32
	for _, h := range g.honest {
		switch {
		case len(g.camp) > 0 && p != nil && p.camp != 0:
			if g.camp[h] == p.camp {
				out = append(out, h)
			}
		default:
			if g.rng.Chance(60) {
				out = append(out, h)
			}
		}
	}
	return out
}

func (g *game) byzList() []uint32 {
	var out []uint32
	for b := range g.byz {
		out = append(out, b)
	}
	sort.Slice(out, func(i, j int) bool { return out[i] < out[j] })
	return out
}

func (g *game) byzAct() {
	bl := g.byzList()
	if len(bl) == 0 {
		return
	}
	b := bl[g.rng.Intn(len(bl))]
	acc := g.accts[b]
	send := func(wire []byte, typ vbft.MsgType, about string, aud []uint32) {
		for _, to := range aud {
			g.pool = append(g.pool, flight{from: b, to: to, wire: wire, typ: typ, about: about})
		}
		g.tr("byz %d says %s to %v", b, about, aud)
	}
	nOwn := 0
	for _, p := range g.props {
		if p.proposer == b {
			nOwn++
		}
	}
	c := g.rng.Intn(100)
	switch {
	case c < 20 && nOwn < 3:
		wire, h, eh, err := vbft.VerifSimProposalWire(acc, b, g.prev, g.prevRoot, g.prev.Block.Header.Timestamp+10+uint32(nOwn), uint64(7000+100*int(b)+nOwn*2))
		if err != nil {
			panic(err)
		}
		p := g.learnProposal(wire, &vbft.VerifSimMsgInfo{Proposer: b, Hash: h, EmptyHash: eh}, true)
		if len(g.camp) > 0 {
			p.camp = 1 + nOwn%2
		}
		g.stats["byz_proposals"]++
		if nOwn > 0 {
			g.stats["byz_equivocating_proposals"]++
		}
		send(wire, vbft.BlockProposalMessage, fmt.Sprintf("proposal(p%d %s)", b, short(h)), g.audience(p))
	case len(g.props) == 0:
		return
	case c < 60:
		p := g.props[g.rng.Intn(len(g.props))]
		if len(g.camp) > 0 && p.camp == 0 {
			p.camp = 1 + g.rng.Intn(2)
		}
		forEmpty := g.rng.Chance(15)
		h := p.hash
		if forEmpty {
			h = p.empty
		}
		wire, err := vbft.VerifSimEndorseWire(acc, b, p.proposer, g.blk, h, forEmpty, nil)
		if err != nil {
			panic(err)
		}
		info, _ := vbft.VerifSimDecode(wire)
		g.learnSig(h, b, info.Sig)
		g.stats["byz_endorsements"]++
		send(wire, vbft.BlockEndorseMessage, fmt.Sprintf("endorse(by %d for p%d %s empty=%v)", b, p.proposer, short(h), forEmpty), g.audience(p))
	default:
		p := g.props[g.rng.Intn(len(g.props))]
		if len(g.camp) > 0 && p.camp == 0 {
			p.camp = 1 + g.rng.Intn(2)
		}
		forEmpty := g.rng.Chance(15)
		h := p.hash
		if forEmpty {
			h = p.empty
		}
		es := map[uint32][]byte{}
		for e, s := range g.sigs[h] {
			if g.rng.Chance(70) {
				es[e] = s
			}
		}
		if g.rng.Chance(35) {
			// name further peers as endorsers with signatures they made over ANOTHER block of this round
			// (or with junk): well-formed, the committer's own signature is valid
			for _, other := range g.props {
				if other.hash == h {
					continue
				}
				for e, sg := range g.sigs[other.hash] {
					if _, have := es[e]; !have && g.rng.Chance(60) {
						es[e] = sg
						g.stats["byz_commit_names_endorser_with_sig_over_other_block"]++
					}
				}
			}
			if g.rng.Chance(20) {
				for _, hn := range g.honest {
					if _, have := es[hn]; !have {
						es[hn] = g.rng.Bytes(65)
					}
				}
			}
		}
		wire, err := vbft.VerifSimCommitWire(acc, b, p.proposer, g.blk, h, forEmpty, nil, es)
		if err != nil {
			panic(err)
		}
		g.stats["byz_commits"]++
		send(wire, vbft.BlockCommitMessage, fmt.Sprintf("commit(by %d for p%d %s empty=%v, %d endorser sigs)", b, p.proposer, short(h), forEmpty, len(es)), g.audience(p))
	}
}

func (g *game) deliver() bool {
	if len(g.pool) == 0 {
		return false
	}
	// split strategy: messages between the camps are slow
	var cand []int
	for i, f := range g.pool {
		if f.cross && !g.rng.Chance(4) {
			continue
		}
		cand = append(cand, i)
	}
	if len(cand) == 0 {
		return false
	}
	i := cand[g.rng.Intn(len(cand))]
	f := g.pool[i]
	if !g.rng.Chance(5) { // 5%: the network duplicates the message (it stays in flight)
		g.pool = append(g.pool[:i], g.pool[i+1:]...)
	} else {
		g.stats["duplicated_deliveries"]++
	}
	n := g.nodes[f.to]
	if n == nil || len(n.Seals) > 0 {
		return true
	}
	ok, why := n.Deliver(f.from, f.wire)
	g.tr("deliver %d -> %d: %s%s", f.from, f.to, f.about, map[bool]string{true: "", false: " [dropped by receive loop: " + why + "]"}[ok])
	if !ok {
		g.stats["rejected_by_receive_loop"]++
	} else if info, err := vbft.VerifSimDecode(f.wire); err == nil {
		g.heard[f.to] = append(g.heard[f.to], stmtsOf(info)...)
	}
	g.stats["deliveries"]++
	n.Pump(g.pick)
	g.collect(f.to)
	g.noteSeal(f.to)
	return true
}

func (g *game) noteSeal(h uint32) {
	n := g.nodes[h]
	if len(n.Seals) > 0 && g.stats[fmt.Sprintf("sealed_%d", h)] == 0 {
		g.stats[fmt.Sprintf("sealed_%d", h)] = 1
		s := n.Seals[0]
		g.tr("node %d SEALS p%d %s empty=%v (header signers %d)", h, s.Proposer, short(s.Hash), s.ForEmpty, s.HeaderSigners)
	}
}

func (g *game) fireTimer() bool {
	un := g.unsealed()
	for tries := 0; tries < 4 && len(un) > 0; tries++ {
		h := un[g.rng.Intn(len(un))]
		n := g.nodes[h]
		armed := n.ArmedTimers()
		if len(armed) == 0 {
			continue
		}
		e := armed[g.rng.Intn(len(armed))]
		g.tr("timer %d expires at node %d", e, h)
		if err := n.Fire(e); err != nil {
			g.tr("  handler: %v", err)
		}
		g.stats[fmt.Sprintf("timer_fired_%d", e)]++
		n.Pump(g.pick)
		g.collect(h)
		g.noteSeal(h)
		return true
	}
	return false
}

// burst: several inputs reach one node back to back (an expiring timer and messages), and the node's
// message loop and action/timer loops then run CONCURRENTLY, as they do in the running server.
func (g *game) burst() bool {
	un := g.unsealed()
	if len(un) == 0 {
		return false
	}
	// prefer a node that has an armed timer and a message in flight
	h := un[g.rng.Intn(len(un))]
	for _, c := range un {
		if len(g.nodes[c].ArmedTimers()) == 0 {
			continue
		}
		for _, f := range g.pool {
			if f.to == c && f.typ == vbft.BlockProposalMessage {
				h = c
			}
		}
	}
	n := g.nodes[h]
	did := 0
	order := g.rng.Perm(2)
	for _, what := range order {
		switch what {
		case 0:
			if armed := n.ArmedTimers(); len(armed) > 0 {
				e := armed[g.rng.Intn(len(armed))]
				g.tr("burst: timer %d expires at node %d", e, h)
				if err := n.Fire(e); err != nil {
					g.tr("  handler: %v", err)
				}
				did++
			}
		case 1:
			k := 0
			for i := 0; i < len(g.pool) && k < 3; i++ {
				f := g.pool[i]
				if f.to != h || (f.cross && !g.rng.Chance(10)) {
					continue
				}
				g.pool = append(g.pool[:i], g.pool[i+1:]...)
				i--
				ok, why := n.Deliver(f.from, f.wire)
				g.tr("burst: deliver %d -> %d: %s%s", f.from, f.to, f.about, map[bool]string{true: "", false: " [dropped: " + why + "]"}[ok])
				if ok {
					if info, err := vbft.VerifSimDecode(f.wire); err == nil {
						g.heard[f.to] = append(g.heard[f.to], stmtsOf(info)...)
					}
				}
				k++
				did++
			}
		}
	}
	if did == 0 {
		return false
	}
	n.PumpConcurrent()
	g.stats["concurrent_bursts"]++
	g.collect(h)
	g.noteSeal(h)
	return true
}

func (g *game) run(maxSteps int) {
	vbftProposers := ""
	for _, h := range g.honest {
		n := g.nodes[h]
		if err := n.Start(); err != nil {
			panic(fmt.Errorf("sim node start: %v", err))
		}
		n.Pump(g.pick)
		g.collect(h)
		if vbftProposers == "" {
			p, e, c := n.Participants()
			vbftProposers = fmt.Sprintf("proposers %v endorsers %v committers %v", p, e, c)
		}
	}
	g.tr("game %d N=%d C=%d byz=%v strategy=%s camps=%v %s", g.id, g.N, g.C, g.byzList(), g.strategy, g.camp, vbftProposers)
	byzPct := map[string]int{"random": 25, "split": 30, "quiet-byz": 8, "no-byz": 0}[g.strategy]
	idle := 0
	for step := 0; step < maxSteps && len(g.unsealed()) > 0 && idle < 30; step++ {
		c := g.rng.Intn(100)
		progressed := false
		switch {
		case c < byzPct:
			g.byzAct()
			progressed = true
		case c < byzPct+12:
			progressed = g.fireTimer()
		case c < byzPct+22:
			progressed = g.burst()
		default:
			progressed = g.deliver()
			if !progressed {
				progressed = g.fireTimer()
			}
		}
		if progressed {
			idle = 0
		} else {
			idle++
		}
	}
}

// verdict compares the honest nodes' seal decisions
func (g *game) verdict(r *vf.Run) {
	type sealer struct {
		node uint32
		s    vbft.VerifSimSeal
	}
	var all []sealer
	for _, h := range g.honest {
		for _, s := range g.nodes[h].Seals {
			all = append(all, sealer{h, s})
		}
	}
	r.Add("sim/honest_seals", int64(len(all)))
	if len(all) >= 2 {
		r.Count("sim/games_with_>=2_honest_seals")
	}
	if len(all) == len(g.honest) {
		r.Count("sim/games_all_honest_sealed")
	}
	for i := 1; i < len(all); i++ {
		a, b := all[0], all[i]
		if a.s.Hash == b.s.Hash {
			continue
		}
		cause, detail := g.classify(a.node, a.s, b.node, b.s)
		key := fmt.Sprintf("sim:honest-nodes-sealed-different-blocks:cause=%s:N=%d:faulty=%d", cause, g.N, len(g.byz))
		r.Violation(key, fmt.Sprintf("node %d sealed p%d %s (empty=%v, %d header signers), node %d sealed p%d %s (empty=%v, %d header signers); %s",
			a.node, a.s.Proposer, short(a.s.Hash), a.s.ForEmpty, a.s.HeaderSigners, b.node, b.s.Proposer, short(b.s.Hash), b.s.ForEmpty, b.s.HeaderSigners, detail),
			map[string]interface{}{"game": g.id, "N": g.N, "C": g.C, "faulty": g.byzList(), "strategy": g.strategy, "trace": g.trace})
		break
	}
}

// classify explains a divergence from what the two sealing nodes had heard.
//
//	byHash(n, X)  = peers with an endorse/commit statement naming X's hash known to n, plus X's proposer
//	byIndex(n, X) = peers with a statement naming X's (proposer, empty) pair with ANY hash, plus the proposer
//
// The code counts by (proposer, empty); a sound quorum needs 2C+1 peers in byHash.
func (g *game) classify(na uint32, sa vbft.VerifSimSeal, nb uint32, sb vbft.VerifSimSeal) (string, string) {
	quorum := g.N - (g.N-1)/3
	sets := func(s vbft.VerifSimSeal) (byHash, byIndex map[uint32]bool) {
		byHash, byIndex = map[uint32]bool{s.Proposer: true}, map[uint32]bool{s.Proposer: true}
		for _, w := range s.ByIndex {
			byIndex[w] = true
		}
		for _, w := range s.ByHash {
			byHash[w] = true
		}
		return
	}
	explicit := func(s vbft.VerifSimSeal, h uint32) bool {
		for _, w := range s.ByHash {
			if w == h {
				return true
			}
		}
		return false
	}
	ha, ia := sets(sa)
	hb, ib := sets(sb)
	detail := fmt.Sprintf("signers by hash %v / %v, by (proposer,empty) %v / %v, quorum %d", keys(ha), keys(hb), keys(ia), keys(ib), quorum)
	if len(ia) < quorum || len(ib) < quorum {
		return "sealed-with-fewer-than-2C+1-distinct-signers", detail
	}
	if len(ha) < quorum || len(hb) < quorum {
		// which of the counted peers vouched for ANOTHER block (or empty block) of the same proposer, and
		// which are counted with a signature that verifies for no block of that proposer at all?
		for _, s := range []vbft.VerifSimSeal{sa, sb} {
			valid := map[uint32]bool{s.Proposer: true}
			var bogus []uint32
			for peer, evs := range s.Evidence {
				if peer == s.Proposer {
					continue
				}
				ok := false
				acc := g.accts[peer]
				for _, ev := range evs {
					for _, p := range g.props {
						if p.proposer != s.Proposer || acc == nil {
							continue
						}
						for _, h := range []common.Uint256{p.hash, p.empty} {
							if ev.CommitHash != nil && *ev.CommitHash != h {
								continue
							}
							if signature.Verify(acc.PublicKey, h[:], ev.Sig) == nil {
								ok = true
							}
						}
					}
				}
				if ok {
					valid[peer] = true
				} else {
					bogus = append(bogus, peer)
				}
			}
			if len(valid) < quorum {
				sort.Slice(bogus, func(i, j int) bool { return bogus[i] < bogus[j] })
				return "signatures-that-verify-for-no-block-of-the-proposer-were-counted",
					detail + fmt.Sprintf("; for the seal of p%d only %v hold a signature over one of its blocks, %v are counted with signatures that verify for none", s.Proposer, keys(valid), bogus)
			}
		}
		return "statements-about-another-block-of-the-same-proposer-were-counted", detail
	}
	// both seals rest on 2C+1 signers of the very block: the quorums intersect in an honest node
	explicitBoth, implicit := []uint32{}, []uint32{}
	for _, h := range g.honest {
		if !ha[h] || !hb[h] {
			continue
		}
		if explicit(sa, h) && explicit(sb, h) {
			explicitBoth = append(explicitBoth, h)
		} else {
			implicit = append(implicit, h)
		}
	}
	detail += fmt.Sprintf("; honest nodes in both quorums: by explicit endorse/commit of both blocks %v, by their proposer signature only %v", explicitBoth, implicit)
	if len(explicitBoth) == 0 && len(implicit) > 0 {
		return "proposer-signature-of-an-honest-node-counted-as-its-vote-while-it-endorsed-or-committed-another-block", detail
	}
	if len(explicitBoth) > 0 {
		// by design a node may endorse one block, endorse an empty block later and commit whatever reached the
		// endorse quorum; it must never make two statements of the same kind about different blocks
		for _, h := range explicitBoth {
			ka, kb := g.said[sa.Hash][h], g.said[sb.Hash][h]
			detail += fmt.Sprintf("; node %d broadcast %v about the first and %v about the second block", h, kindList(ka), kindList(kb))
			for k := range ka {
				if kb[k] {
					return "honest-node-made-two-statements-of-the-same-kind-about-different-blocks", detail
				}
			}
		}
		return "honest-node-endorsed-one-block-and-committed-or-empty-endorsed-another", detail
	}
	return "unexplained", detail
}

func kindList(m map[string]bool) []string {
	out := make([]string, 0, len(m))
	for k := range m {
		out = append(out, k)
	}
	sort.Strings(out)
	return out
}

func keys(m map[uint32]bool) []uint32 {
	out := make([]uint32, 0, len(m))
	for k := range m {
		out = append(out, k)
	}
	sort.Slice(out, func(i, j int) bool { return out[i] < out[j] })
	return out
}

// runSim plays the games of this run.
func runSim(r *vf.Run, rng *vf.RNG) {
	vbft.VerifSimSetup()
	games := vf.N(6000, 200000)
	type res struct {
		g *game
	}
	agg := make([]map[string]int, games)
	vf.Parallel(games, 12, func(i int) {
		sub := rng.Sub(uint64(i))
		N := 4
		if sub.Chance(25) {
			N = 7
		}
		g, err := newGame(i, sub, N)
		if err != nil {
			panic(err)
		}
		defer g.close()
		if p := vf.Catch(func() { g.run(400 + 200*(N-4)) }); p != nil {
			r.Count("sim/games_aborted_by_panic")
			r.Sample(map[string]interface{}{"sim_game": i, "panic": fmt.Sprint(p), "trace_tail": tail(g.trace, 12)})
			return
		}
		g.verdict(r)
		g.stats["games/"+g.strategy] = 1
		g.stats[fmt.Sprintf("games/N=%d", N)] = 1
		sealed := 0
		for _, h := range g.honest {
			if len(g.nodes[h].Seals) > 0 {
				sealed++
			}
		}
		r.Eval(fmt.Sprintf("sim/%s/N=%d/byz=%d/props=%d/sealed=%d", g.strategy, N, len(g.byz), len(g.props), sealed))
		agg[i] = g.stats
		if i < 2 {
			r.Sample(map[string]interface{}{"sim_game": i, "N": N, "faulty": g.byzList(), "strategy": g.strategy, "honest_sealed": sealed, "trace_head": head(g.trace, 25)})
		}
	})
	for _, st := range agg {
		for k, v := range st {
			if strings.HasPrefix(k, "sealed_") {
				continue
			}
			r.Add("sim/"+k, int64(v))
		}
	}
	r.Require("sim/games_with_>=2_honest_seals", int64(games/10))
	r.Require("sim/games/split", int64(games/20))
	r.Require("sim/games/random", int64(games/20))
	r.Require("sim/byz_equivocating_proposals", 20)
	r.Require("sim/byz_commits", 100)
	r.Require("sim/byz_endorsements", 100)
	r.Require("sim/deliveries", int64(games*10))
	r.Require("sim/concurrent_bursts", int64(games))
	r.Require("sim/byz_commit_names_endorser_with_sig_over_other_block", 50)
	if r.Counter("sim/games_aborted_by_panic")*20 > int64(games) {
		r.Inconclusive("more than 5% of the simulated games were aborted by a panic inside the hollow server")
	}
}

func head(s []string, n int) []string {
	if len(s) > n {
		return s[:n]
	}
	return s
}

func tail(s []string, n int) []string {
	if len(s) > n {
		return s[len(s)-n:]
	}
	return s
}
