// C35 — Proposed EVM transactions have consecutive nonces and no duplicates.
// History monitor over the real pipeline: txnpool/common.TXPool (fed the way the pool
// server feeds it) -> proposer selection exactly as consensus/solo.makeBlock /
// vbft.makeProposal (GetTxPool + IncrementValidator.Verify) -> real ledger commit ->
// IncrementValidator.AddBlock + CleanCompletedTransactionList.
package main

import (
	"fmt"
	"math/big"
	"os"
	"path/filepath"
	"sync"

	ethcomm "github.com/ethereum/go-ethereum/common"
	"github.com/ontio/ontology/common"
	"github.com/ontio/ontology/common/config"
	"github.com/ontio/ontology/core/ledger"
	"github.com/ontio/ontology/core/types"
	"github.com/ontio/ontology/errors"
	tc "github.com/ontio/ontology/txnpool/common"
	"github.com/ontio/ontology/validator/increment"
	"verifharness/lib/chain"
	"verifharness/lib/racelog"
	"verifharness/lib/vf"
)

type hist struct {
	r         *vf.Run
	c         *chain.Chain
	w         *chain.World
	pool      *tc.TXPool
	iv        *increment.IncrementValidator
	senders   []*chain.EthAccount
	committed map[common.Uint256]uint32
	replaced  map[common.Uint256]string
	byNonce   map[string]*types.Transaction // monitor's shadow of (sender,nonce) -> incumbent in pool (by successful AddTxList)
	log       []string
	id        string
	mu        sync.Mutex
	amu       sync.Mutex
	// asynchrony of the real node: block-complete events reach the validator/pool through an
	// actor mailbox (late), and a transaction verified at height h may enter the pool after
	// later blocks were committed
	lateBlocks []*types.Block
	inflight   []*tc.VerifiedTx
	async      *vf.RNG
}

func (h *hist) note(f string, a ...interface{}) {
	h.mu.Lock()
	h.log = append(h.log, fmt.Sprintf(f, a...))
	h.mu.Unlock()
}

func (h *hist) witness(extra map[string]interface{}) map[string]interface{} {
	h.mu.Lock()
	defer h.mu.Unlock()
	m := map[string]interface{}{"history": h.id, "steps": append([]string{}, h.log...)}
	for k, v := range extra {
		m[k] = v
	}
	return m
}

func (h *hist) ledgerNonce(a *chain.EthAccount) uint64 {
	acct, err := h.c.Ledger.GetEthAccount(a.Addr)
	if err != nil {
		return 0
	}
	return acct.Nonce
}

func key(a common.Address, n uint32) string { return fmt.Sprintf("%x/%d", a[:4], n) }

// submit mirrors the pool server's door: stateful validator (not on ledger, nonce not below
// the account nonce) and then movePendingTxToPool -> AddTxList.
func (h *hist) submit(tx *types.Transaction, reverify bool) errors.ErrCode {
	if ok, _ := h.c.Ledger.IsContainTransaction(tx.Hash()); ok {
		h.r.Count("door/already-on-ledger")
		return errors.ErrDuplicatedTx
	}
	var nonce uint64
	if tx.IsEipTx() {
		acct, err := h.c.Ledger.GetEthAccount(ethcomm.Address(tx.Payer))
		if err != nil {
			return errors.ErrNoAccount
		}
		if uint64(tx.Nonce) < acct.Nonce {
			h.r.Count("door/stale-nonce")
			return errors.ErrHigherNonceExist
		}
		nonce = acct.Nonce
	}
	entry := &tc.VerifiedTx{Tx: tx, VerifiedHeight: h.c.Ledger.GetCurrentBlockHeight(), Nonce: nonce}
	if !reverify && h.async != nil && h.asyncChance(20) {
		h.mu.Lock()
		h.inflight = append(h.inflight, entry)
		h.mu.Unlock()
		h.r.Count("submission_in_flight_across_steps")
		h.note("verified (height %d) but not yet in pool: %s nonce=%d", entry.VerifiedHeight, tx.Payer.ToHexString()[:8], tx.Nonce)
		return errors.ErrNoError
	}
	return h.insert(entry)
}

// insert is movePendingTxToPool -> AddTxList.
func (h *hist) insert(entry *tc.VerifiedTx) errors.ErrCode {
	tx := entry.Tx
	h.mu.Lock()
	old := h.byNonce[key(tx.Payer, tx.Nonce)]
	h.mu.Unlock()
	code := h.pool.AddTxList(entry)
	if tx.IsEipTx() {
		h.note("submit %s nonce=%d price=%d verifiedHeight=%d -> %s", tx.Payer.ToHexString()[:8], tx.Nonce, tx.GasPrice, entry.VerifiedHeight, code.Error())
	}
	if code == errors.ErrNoError && tx.IsEipTx() {
		if old != nil && old.Hash() != tx.Hash() {
			h.r.Count("replacement_accepted")
			if tx.GasPrice <= old.GasPrice {
				h.r.Violation("replacement-without-higher-gas-price", fmt.Sprintf("sender %s nonce %d: price %d replaced incumbent price %d", tx.Payer.ToHexString(), tx.Nonce, tx.GasPrice, old.GasPrice), h.witness(nil))
			}
			h.mu.Lock()
			h.replaced[old.Hash()] = fmt.Sprintf("nonce %d price %d by price %d", tx.Nonce, old.GasPrice, tx.GasPrice)
			h.mu.Unlock()
		}
		h.mu.Lock()
		h.byNonce[key(tx.Payer, tx.Nonce)] = tx
		h.mu.Unlock()
	} else if tx.IsEipTx() && old != nil && code == errors.ErrSameNonceExist {
		h.r.Count("replacement_refused")
	}
	return code
}

// asyncChance draws from the history's asynchrony stream; submissions may run on several goroutines
// (thorough tier), so the stream is guarded.
func (h *hist) asyncChance(pct int) bool {
	h.amu.Lock()
	defer h.amu.Unlock()
	return h.async.Chance(pct)
}

// forgetCompleted mirrors what the pool does when a block completes: every pooled entry of a sender
// up to the committed nonce is dropped, so a later arrival with such a nonce replaces nothing.
func (h *hist) forgetCompleted(txs []*types.Transaction) {
	h.mu.Lock()
	defer h.mu.Unlock()
	for _, t := range txs {
		if !t.IsEipTx() {
			continue
		}
		for k, old := range h.byNonce {
			if old.Payer == t.Payer && old.Nonce <= t.Nonce {
				delete(h.byNonce, k)
			}
		}
	}
}

// deliver hands late block-complete events and in-flight verified transactions over.
func (h *hist) deliver(all bool) {
	for len(h.lateBlocks) > 0 && (all || h.asyncChance(50)) {
		b := h.lateBlocks[0]
		h.lateBlocks = h.lateBlocks[1:]
		h.iv.AddBlock(b)
		h.pool.CleanCompletedTransactionList(b.Transactions, b.Header.Height)
		h.forgetCompleted(b.Transactions)
		h.note("block-complete event for height %d delivered", b.Header.Height)
	}
	h.mu.Lock()
	fl := h.inflight
	h.inflight = nil
	h.mu.Unlock()
	for _, e := range fl {
		if all || h.asyncChance(60) {
			h.insert(e)
		} else {
			h.mu.Lock()
			h.inflight = append(h.inflight, e)
			h.mu.Unlock()
		}
	}
}

// propose is consensus/solo.makeBlock's selection.
func (h *hist) propose() []*types.Transaction {
	height := h.c.Ledger.GetCurrentBlockHeight()
	validHeight := height
	start, end := h.iv.BlockRange()
	if height+1 == end {
		validHeight = start
	} else {
		h.iv.Clean()
		if end != 0 {
			h.r.Count("validator_resynchronised(Clean)")
		}
	}
	entries, expired := h.pool.GetTxPool(true, validHeight)
	for _, t := range expired {
		h.r.Count("expired_from_pool")
		h.mu.Lock()
		if h.byNonce[key(t.Payer, t.Nonce)] == t {
			delete(h.byNonce, key(t.Payer, t.Nonce))
		}
		h.mu.Unlock()
		h.note("expired nonce=%d of %s", t.Nonce, t.Payer.ToHexString()[:8])
	}
	// the server re-verifies expired transactions (reVerifyStateful) and moves them back
	for _, t := range expired {
		h.submit(t, true)
	}
	var txs []*types.Transaction
	nonceCtx := make(map[common.Address]uint64)
	for _, e := range entries {
		if err := h.iv.Verify(e.Tx, validHeight, nonceCtx); err == nil {
			txs = append(txs, e.Tx)
		} else {
			h.r.Count("filtered_by_increment_validator")
		}
	}
	return txs
}

func (h *hist) proposeAndCommit() bool {
	before := map[common.Address]uint64{}
	for _, s := range h.senders {
		before[s.OntAddr()] = h.ledgerNonce(s)
	}
	txs := h.propose()
	// ---- oracle on the proposed block
	seen := map[common.Uint256]bool{}
	next := map[common.Address]uint64{}
	for a, n := range before {
		next[a] = n
	}
	nEvm := 0
	desc := ""
	for _, t := range txs {
		hs := t.Hash()
		if seen[hs] {
			h.r.Violation("duplicate-hash-in-proposed-block", hs.ToHexString(), h.witness(nil))
		}
		seen[hs] = true
		if ht, ok := h.committed[hs]; ok {
			h.r.Violation("already-committed-tx-proposed-again", fmt.Sprintf("%s committed at %d", hs.ToHexString(), ht), h.witness(nil))
		}
		h.mu.Lock()
		why, wasReplaced := h.replaced[hs]
		h.mu.Unlock()
		if wasReplaced {
			h.r.Violation("replaced-tx-proposed", why, h.witness(nil))
		}
		if t.IsEipTx() {
			nEvm++
			desc += fmt.Sprintf("%s:%d ", t.Payer.ToHexString()[:6], t.Nonce)
			if uint64(t.Nonce) != next[t.Payer] {
				cls := "gap"
				if uint64(t.Nonce) < next[t.Payer] {
					cls = "below-or-repeated"
				} else if next[t.Payer] == before[t.Payer] {
					cls = "run-does-not-start-at-account-nonce"
				}
				h.r.Violation("evm-nonces-not-consecutive:"+cls, fmt.Sprintf("sender %s: proposed nonce %d, expected %d (account nonce before block %d)", t.Payer.ToHexString(), t.Nonce, next[t.Payer], before[t.Payer]), h.witness(map[string]interface{}{"proposed": desc}))
			}
			next[t.Payer] = uint64(t.Nonce) + 1
		}
	}
	h.note("propose height=%d: %d txs, evm: %s", h.c.Ledger.GetCurrentBlockHeight()+1, len(txs), desc)
	b, err := h.c.MakeBlock(txs, 0)
	if err != nil {
		panic(err)
	}
	if _, err := h.c.CommitExec(b); err != nil {
		h.r.Violation("proposed-block-rejected-by-ledger", err.Error(), h.witness(map[string]interface{}{"proposed": desc}))
		return false
	}
	for _, t := range txs {
		h.committed[t.Hash()] = b.Header.Height
		if t.IsEipTx() {
			h.mu.Lock()
			delete(h.byNonce, key(t.Payer, t.Nonce))
			h.mu.Unlock()
		}
	}
	// what the node does on TOPIC_SAVE_BLOCK_COMPLETE (possibly late: it travels through actor mailboxes)
	if h.async != nil && h.asyncChance(35) {
		h.lateBlocks = append(h.lateBlocks, b)
		h.r.Count("block_complete_event_delayed")
	} else {
		h.deliver(true)
		h.iv.AddBlock(b)
		h.pool.CleanCompletedTransactionList(b.Transactions, b.Header.Height)
		h.forgetCompleted(b.Transactions)
	}
	h.mu.Lock()
	for k, t := range h.byNonce { // Forward() drops everything below the committed nonces
		for _, s := range h.senders {
			if t.Payer == s.OntAddr() && uint64(t.Nonce) < h.ledgerNonce(s) {
				delete(h.byNonce, k)
			}
		}
	}
	h.mu.Unlock()
	fp := ""
	if nEvm > 0 {
		fp = fmt.Sprintf("%s/%d/%s", h.id, b.Header.Height, desc)
		h.r.Count("blocks_with_evm_txs")
		if nEvm >= 3 {
			h.r.Count("blocks_with_runs>=3")
		}
	}
	h.r.Eval(fp)
	return true
}

func main() {
	r := vf.NewRun("C35", "exploration",
		"histories over 4 funded EVM senders: submissions with nonce in {account nonce, next-in-pool, +gap, stale}, replacements at -2%,-1%,0,+1%,+2%,+10% of the incumbent price, native txs and duplicates mixed in, MaxTxInBlock 3..unbounded, increment-validator window 3 or 20 so verification heights expire, proposals+commits interleaved; oracle per proposed block (no duplicate hash, none already committed, per sender consecutive nonces from the account nonce, ledger accepts the block) and per accepted replacement (strictly higher gas price; replaced tx never proposed). distinct by (history, height, proposed EVM (sender,nonce) list)")
	scratch := vf.Scratch("c35")
	defer os.RemoveAll(scratch)
	rng := vf.NewRNG(vf.Seed())
	tag := fmt.Sprintf("c35-%d", vf.Seed())
	w := chain.NewWorld(tag, 3)
	for i := 2; i < 4; i++ {
		w.Eth = append(w.Eth, chain.DetEthAccount(fmt.Sprintf("%s/eth%d", tag, i)))
	}
	c, err := chain.NewSolo(filepath.Join(scratch, "l"), w.BK)
	if err != nil {
		panic(err)
	}
	defer c.Close()
	ledger.DefLedger = c.Ledger
	ftx := w.FundingTxs()
	for _, e := range w.Eth[2:] {
		t, _ := w.TB.TransferTx("ong", w.BK, e.OntAddr(), 5000000000000000, 0, 20000)
		ftx = append(ftx, t)
	}
	b1, _ := c.MakeBlock(ftx, 0)
	if _, err := c.CommitExec(b1); err != nil {
		panic(err)
	}
	committed := map[common.Uint256]uint32{}
	nH := vf.N(60, 1500)
	for hi := 0; hi < nH; hi++ {
		sub := rng.Sub(uint64(hi))
		window := 20
		if sub.Chance(60) {
			window = 3
		}
		config.DefConfig.Consensus.MaxTxInBlock = []uint{3, 5, 60000}[sub.Intn(3)]
		h := &hist{r: r, c: c, w: w, pool: tc.NewTxPool(), iv: increment.NewIncrementValidator(window), senders: w.Eth,
			committed: committed, replaced: map[common.Uint256]string{}, byNonce: map[string]*types.Transaction{}, id: fmt.Sprintf("h%d", hi)}
		if hi%2 == 1 {
			h.async = sub.Sub(424242)
		}
		h.note("window=%d maxTxInBlock=%d async=%v", window, config.DefConfig.Consensus.MaxTxInBlock, h.async != nil)
		steps := 30 + sub.Intn(25)
		concurrent := vf.Thorough() && hi%5 == 0
		for st := 0; st < steps; st++ {
			ss := sub.Sub(uint64(st))
			if h.async != nil {
				h.deliver(false)
			}
			switch k := ss.Intn(10); {
			case k < 6: // EVM submissions (a burst)
				burst := 1 + ss.Intn(4)
				var wg sync.WaitGroup
				for bi := 0; bi < burst; bi++ {
					s := h.senders[ss.Intn(len(h.senders))]
					ln := h.ledgerNonce(s)
					pn := h.pool.NextNonce(s.OntAddr())
					if pn < ln {
						pn = ln
					}
					var nonce uint64
					cls := ""
					switch ss.Intn(8) {
					case 0, 1, 2:
						nonce, cls = pn, "next"
					case 3:
						nonce, cls = ln, "account-nonce(maybe replace)"
					case 4:
						nonce, cls = pn+1+uint64(ss.Intn(3)), "gap"
					case 5:
						if ln > 0 {
							nonce, cls = ln-1, "stale"
						} else {
							nonce, cls = pn, "next"
						}
					default:
						if pn > ln {
							nonce, cls = ln+uint64(ss.Intn(int(pn-ln))), "replace-in-run"
						} else {
							nonce, cls = pn, "next"
						}
					}
					price := uint64(2500)
					h.mu.Lock()
					inc := h.byNonce[key(s.OntAddr(), uint32(nonce))]
					h.mu.Unlock()
					if inc != nil {
						price = inc.GasPrice * uint64([]int{98, 99, 100, 101, 102, 110}[ss.Intn(6)]) / 100
					} else {
						price = 2500 + uint64(ss.Intn(5))*100
					}
					dst := h.senders[(ss.Intn(len(h.senders)))].Addr
					tx, err := chain.EvmTx(s, nonce, &dst, big.NewInt(int64(ss.Intn(1000)+1)), 30000, price, ss.Bytes(ss.Intn(3)))
					if err != nil {
						panic(err)
					}
					r.Count("submit/" + cls)
					if h.async != nil && ss.Chance(30) {
						// a competing transaction for the same (sender, nonce) whose verification is still in flight
						twin, err := chain.EvmTx(s, nonce, &dst, big.NewInt(int64(ss.Intn(1000)+2000)), 30000, price*103/100+1, nil)
						if err == nil && h.ledgerNonce(s) <= nonce {
							acctNonce := h.ledgerNonce(s)
							h.mu.Lock()
							h.inflight = append(h.inflight, &tc.VerifiedTx{Tx: twin, VerifiedHeight: h.c.Ledger.GetCurrentBlockHeight(), Nonce: acctNonce})
							h.mu.Unlock()
							r.Count("competing_twin_in_flight")
						}
					}
					if concurrent {
						wg.Add(1)
						go func() { defer wg.Done(); h.submit(tx, false) }()
					} else {
						h.submit(tx, false)
					}
				}
				wg.Wait()
			case k < 7: // native traffic and an exact duplicate submission
				t, _ := w.TB.TransferTx("ong", w.Accts[0], w.Accts[1].Address, 1, 2500, 20000)
				h.submit(t, true) // (true: inserted at once, not held in flight, so the second submission really is a duplicate)
				if code := h.submit(t, true); code == errors.ErrNoError {
					r.Violation("duplicate-submission-accepted", t.Hash().ToHexString(), h.witness(nil))
				}
			default:
				if !h.proposeAndCommit() {
					st = steps
				}
				r.Count("proposals")
			}
		}
		// drain: a few more proposals so that queued runs get proposed
		for i := 0; i < 3; i++ {
			if h.async != nil {
				h.deliver(true)
			}
			h.proposeAndCommit()
		}
		if hi < 2 {
			r.Sample(map[string]interface{}{"history": h.id, "steps": h.log})
		}
	}
	r.Require("blocks_with_evm_txs", 50)
	r.Require("blocks_with_runs>=3", 5)
	r.Require("replacement_accepted", 5)
	r.Require("replacement_refused", 5)
	r.Require("expired_from_pool", 5)
	r.Require("filtered_by_increment_validator", 5)
	r.Require("submit/gap", 10)
	r.Require("door/stale-nonce", 5)
	r.Require("block_complete_event_delayed", 5)
	r.Require("submission_in_flight_across_steps", 5)
	r.Require("validator_resynchronised(Clean)", 3)
	if racelog.Enabled {
		racelog.Apply(r, "txnpool/common/", "validator/increment/")
	}
	r.Assume("the pool is fed as txnpool/proc.TXPoolServer feeds it (stateful door checks mirrored by the harness: hash not on ledger, nonce not below account nonce; expired entries re-verified and re-added); the actor/worker plumbing of the server itself is not driven")
	os.RemoveAll(scratch)
	r.Finish()
}
