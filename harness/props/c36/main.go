// C36 — Peer connection limits hold under concurrent connection attempts.
//
// Race-amplified invariant monitor.  A real connect_controller.ConnectController (driven
// directly by harness goroutines that mirror netserver.startNetAccept, or embedded in a
// real netserver.NetServer) runs over the repo's in-memory p2pserver/mock network.  The
// REMOTE side of every handshake is played by the harness with the repo's own
// handshake.HandshakeClient/HandshakeServer over a net.Conn wrapper ("gate") that holds
// the remote's handshake progress until every concurrent attempt of the phase has passed
// the controller's pre-handshake check.  Nothing sleeps inside the code under test and no
// verdict depends on wall-clock time: limits are evaluated at quiescent points (all calls
// of a phase returned) through InboundsCount()/OutboundsCount() and a harness ledger of
// successful, not yet closed connections.
package main

import (
	"fmt"
	"net"
	"os"
	"runtime"
	"sort"
	"strings"
	"sync"
	"sync/atomic"
	"time"

	"github.com/ontio/ontology/common/log"
	"github.com/ontio/ontology/p2pserver/common"
	cc "github.com/ontio/ontology/p2pserver/connect_controller"
	"github.com/ontio/ontology/p2pserver/handshake"
	"github.com/ontio/ontology/p2pserver/message/types"
	"github.com/ontio/ontology/p2pserver/mock"
	"github.com/ontio/ontology/p2pserver/net/netserver"
	p2p "github.com/ontio/ontology/p2pserver/net/protocol"
	"github.com/ontio/ontology/p2pserver/peer"
	"verifharness/lib/racelog"
	"verifharness/lib/vf"
)

// ---------------------------------------------------------------- specs (pure functions of the seed)

type remoteSpec struct {
	IP   string `json:"ip"`
	Port uint16 `json:"listen_port"`
}

type opSpec struct {
	Kind   string `json:"op"` // accept | connect | close
	Remote int    `json:"remote"`
}

type phaseSpec struct {
	Barrier bool     `json:"barrier"` // hold every remote handshake until all attempts of the phase passed the pre-check
	Ops     []opSpec `json:"ops"`
}

type roundSpec struct {
	Index   int          `json:"round"`
	Mode    string       `json:"mode"` // direct | netserver
	Family  string       `json:"family,omitempty"`
	MaxIn   uint         `json:"max_inbound"`
	PerIP   uint         `json:"max_inbound_per_ip"`
	MaxOut  uint         `json:"max_outbound"`
	Remotes []remoteSpec `json:"remotes"`
	Phases  []phaseSpec  `json:"phases"`
}

func genRound(rng *vf.RNG, idx int) *roundSpec {
	rs := &roundSpec{Index: idx, Mode: "direct", MaxIn: 3, PerIP: 2, MaxOut: 2}
	if idx%4 == 3 {
		rs.Mode = "netserver"
	}
	if rng.Chance(25) { // other small limits
		rs.MaxIn = uint(rng.Range(1, 5))
		rs.PerIP = uint(rng.Range(1, 3))
		rs.MaxOut = uint(rng.Range(1, 4))
	}
	// number of remotes: small rounds are frequent (minimal witnesses), up to 64
	var g int
	switch rng.Intn(4) {
	case 0:
		g = rng.Range(2, 6)
	case 1:
		g = rng.Range(6, 16)
	default:
		g = rng.Range(8, 64)
	}
	// ip plan
	nips := g
	switch rng.Intn(4) {
	case 0:
		nips = 1
	case 1:
		nips = rng.Range(1, 3)
	case 2:
		nips = rng.Range(1, g)
	}
	for i := 0; i < g; i++ {
		ipn := i
		if nips < g {
			ipn = rng.Intn(nips)
		}
		rs.Remotes = append(rs.Remotes, remoteSpec{IP: fmt.Sprintf("10.%d.%d.%d", 1+ipn/60000, (ipn/250)%250, 1+ipn%250), Port: uint16(20000 + i)})
	}
	// phases
	nph := rng.Range(1, 4)
	shape := rng.Intn(6)
	if shape == 5 {
		// sequential fill: limit+1 single attempts of one kind from distinct IPs; the last one must be
		// refused by the pre-check on any implementation (covers the *_rejected_limit branches)
		kind, lim := "accept", int(rs.MaxIn)
		if rng.Bool() {
			kind, lim = "connect", int(rs.MaxOut)
		}
		for i := range rs.Remotes {
			rs.Remotes[i].IP = fmt.Sprintf("10.9.%d.%d", i/250, 1+i%250)
		}
		for p := 0; p <= lim && p < g; p++ {
			rs.Phases = append(rs.Phases, phaseSpec{Ops: []opSpec{{Kind: kind, Remote: p}}})
		}
		return rs
	}
	for p := 0; p < nph; p++ {
		ph := phaseSpec{Barrier: rng.Chance(75)}
		used := map[int]bool{}
		n := rng.Range(2, g)
		if p == 0 && shape == 0 {
			n = g // one big wave
		}
		if shape == 1 && p < nph-1 {
			n = 1 // sequential prefix, then a wave
			ph.Barrier = false
		}
		for k := 0; k < n; k++ {
			rm := rng.Intn(g)
			if used[rm] {
				continue
			}
			used[rm] = true
			kind := "accept"
			x := rng.Intn(100)
			switch {
			case shape == 2: // outbound-heavy round
				if x < 75 {
					kind = "connect"
				}
			case x < 20:
				kind = "connect"
			}
			if p > 0 && rng.Chance(30) {
				kind = "close"
			}
			ph.Ops = append(ph.Ops, opSpec{Kind: kind, Remote: rm})
		}
		rs.Phases = append(rs.Phases, ph)
	}
	return rs
}

// genHotIPRound: several OTHER IPs hold established inbound connections (phase 0, one or two per
// IP), then more than MaxConnInBoundPerIP handshakes from one further IP run concurrently behind
// the barrier (all pass the pre-handshake check before any is recorded); the total inbound limit
// leaves room for all of them, so only the per-IP limit can refuse.  Optionally the wave is
// repeated after some closes.
func genHotIPRound(rng *vf.RNG, idx int) *roundSpec {
	rs := &roundSpec{Index: idx, Mode: "direct", Family: "hot-ip", MaxOut: 2}
	if idx%3 == 2 {
		rs.Mode = "netserver"
	}
	rs.PerIP = uint(rng.Range(1, 3))
	others := rng.Range(2, 12)
	ph0 := phaseSpec{}
	for i := 0; i < others; i++ {
		n := 1
		if rs.PerIP > 1 && rng.Chance(20) {
			n = 2
		}
		for k := 0; k < n; k++ {
			ph0.Ops = append(ph0.Ops, opSpec{Kind: "accept", Remote: len(rs.Remotes)})
			rs.Remotes = append(rs.Remotes, remoteSpec{IP: fmt.Sprintf("10.7.%d.%d", i/200, 1+i%200), Port: uint16(20000 + len(rs.Remotes))})
		}
	}
	wave := int(rs.PerIP) + rng.Range(1, 4)
	ph1 := phaseSpec{Barrier: true}
	first := len(rs.Remotes)
	for k := 0; k < wave; k++ {
		ph1.Ops = append(ph1.Ops, opSpec{Kind: "accept", Remote: len(rs.Remotes)})
		rs.Remotes = append(rs.Remotes, remoteSpec{IP: "10.8.0.1", Port: uint16(20000 + len(rs.Remotes))})
	}
	rs.MaxIn = uint(len(rs.Remotes) + rng.Range(0, 2))
	rs.Phases = []phaseSpec{ph0, ph1}
	if rng.Chance(40) { // close some (any IP), then the same wave again: remotes still live are skipped
		ph2 := phaseSpec{}
		used := map[int]bool{}
		nc := rng.Range(1, 3)
		for k := 0; k <= nc; k++ {
			rm := rng.Intn(len(rs.Remotes))
			if k == nc {
				rm = first + rng.Intn(wave)
			}
			if !used[rm] {
				used[rm] = true
				ph2.Ops = append(ph2.Ops, opSpec{Kind: "close", Remote: rm})
			}
		}
		rs.Phases = append(rs.Phases, ph2, ph1)
	}
	return rs
}

// ---------------------------------------------------------------- barrier + gate conn (remote side)

type barrier struct {
	mu   sync.Mutex
	need int
	got  int
	ch   chan struct{}
}

func newBarrier(n int) *barrier {
	b := &barrier{need: n, ch: make(chan struct{})}
	if n <= 0 {
		close(b.ch)
	}
	return b
}

type party struct {
	b    *barrier // nil: free-running
	once sync.Once
}

func (p *party) arrive() {
	if p == nil || p.b == nil {
		return
	}
	p.once.Do(func() {
		p.b.mu.Lock()
		p.b.got++
		if p.b.got == p.b.need {
			close(p.b.ch)
		}
		p.b.mu.Unlock()
	})
}

func (p *party) wait() {
	if p == nil || p.b == nil {
		return
	}
	<-p.b.ch
}

const (
	roleClient = iota // remote runs HandshakeClient (the controller accepted the connection)
	roleServer        // remote runs HandshakeServer (the controller dialed)
)

// gateConn is the remote's end of the pipe.  Client role: once the first Write (version)
// has been consumed by the controller's HandshakeServer, the controller is known to be past
// beforeHandshakeCheck: arrive; the second Write waits for the barrier.  Server role: once
// the first Read returns (the controller's version), arrive; the first Write waits.
type gateConn struct {
	net.Conn
	p      *party
	role   int
	writes int
	reads  int
}

func (g *gateConn) Write(b []byte) (int, error) {
	g.writes++
	if (g.role == roleClient && g.writes == 2) || (g.role == roleServer && g.writes == 1) {
		g.p.arrive()
		g.p.wait()
	}
	n, err := g.Conn.Write(b)
	if g.role == roleClient && g.writes == 1 {
		g.p.arrive()
	}
	if err != nil {
		g.p.arrive()
	}
	return n, err
}

func (g *gateConn) Read(b []byte) (int, error) {
	n, err := g.Conn.Read(b)
	g.reads++
	if (g.role == roleServer && g.reads == 1) || err != nil {
		g.p.arrive()
	}
	return n, err
}

// closeNotifyConn reports the Close of the controller-side end of a pipe (the harness owns
// the transport; in netserver mode this is how it learns that a connection was dropped).
type closeNotifyConn struct {
	net.Conn
	once    sync.Once
	onClose func()
}

func (c *closeNotifyConn) Close() error {
	err := c.Conn.Close()
	c.once.Do(c.onClose)
	return err
}

type notifyListener struct {
	net.Listener
	wrap func(net.Conn) net.Conn
}

func (l *notifyListener) Accept() (net.Conn, error) {
	c, err := l.Listener.Accept()
	if err != nil {
		return nil, err
	}
	return l.wrap(c), nil
}

type hookDialer struct {
	inner  cc.Dialer
	onDial func(addr string, c net.Conn) net.Conn
}

func (d *hookDialer) Dial(addr string) (net.Conn, error) {
	c, err := d.inner.Dial(addr)
	if err != nil {
		return nil, err
	}
	return d.onDial(addr, c), nil
}

// ---------------------------------------------------------------- logger + protocol stubs

type quietLogger struct {
	mu     sync.Mutex
	fatals []string
}

func (l *quietLogger) Debug(a ...interface{})                 {}
func (l *quietLogger) Info(a ...interface{})                  {}
func (l *quietLogger) Warn(a ...interface{})                  {}
func (l *quietLogger) Error(a ...interface{})                 {}
func (l *quietLogger) Debugf(format string, a ...interface{}) {}
func (l *quietLogger) Infof(format string, a ...interface{})  {}
func (l *quietLogger) Warnf(format string, a ...interface{})  {}
func (l *quietLogger) Errorf(format string, a ...interface{}) {}
func (l *quietLogger) Fatal(a ...interface{}) {
	l.mu.Lock()
	l.fatals = append(l.fatals, fmt.Sprint(a...))
	l.mu.Unlock()
}
func (l *quietLogger) Fatalf(format string, a ...interface{}) {
	l.mu.Lock()
	l.fatals = append(l.fatals, format+" | "+fmt.Sprintf(format, a...))
	l.mu.Unlock()
}

type stubProto struct {
	onConnected func(info *peer.PeerInfo)
}

func (s *stubProto) HandlePeerMessage(ctx *p2p.Context, msg types.Message) {}
func (s *stubProto) HandleSystemMessage(n p2p.P2P, msg p2p.SystemMessage) {
	if m, ok := msg.(p2p.PeerConnected); ok {
		s.onConnected(m.Info)
	}
}

// ---------------------------------------------------------------- round execution

type remote struct {
	idx        int
	spec       remoteSpec
	key        *common.PeerKeyId
	info       *peer.PeerInfo
	dialer     cc.Dialer
	srcAddr    string // address the controller sees for connections dialed by this remote
	listener   net.Listener
	listenAddr string

	// ledger (guarded by round.mu)
	live      bool
	dir       string   // "in" | "out"
	wrapped   net.Conn // controller's wrapped conn (direct mode)
	remoteEnd net.Conn // the remote's end of the pipe
	cur       *opState
}

type opState struct {
	spec    opSpec
	party   *party
	wg      sync.WaitGroup // every goroutine of this op
	srvDone chan struct{}  // netserver mode, accept: PeerConnected or controller-side conn closed
	srvOnce sync.Once
	ok      bool
	errStr  string
	dialed  bool
}

type round struct {
	spec    *roundSpec
	mu      sync.Mutex
	remotes []*remote
	byAddr  map[string]*remote // srcAddr and listenAddr -> remote
	nw      mock.Network
	ctrl    *cc.ConnectController
	ns      *netserver.NetServer
	logger  *quietLogger
	srvKey  *common.PeerKeyId
	srvAddr string
	srvL    net.Listener
	stats   map[string]int64
}

type obs struct {
	Phase     int            `json:"phase"`
	In        uint           `json:"InboundsCount"`
	Out       uint           `json:"OutboundsCount"`
	LiveIn    int            `json:"ledger_live_inbound"`
	LiveOut   int            `json:"ledger_live_outbound"`
	PerIP     map[string]int `json:"ledger_live_inbound_per_ip"`
	MaxSeenIn uint           `json:"sampled_max_inbound"`
	MaxSeenOu uint           `json:"sampled_max_outbound"`
	Accepts   int            `json:"concurrent_accept_attempts"`
	Connects  int            `json:"concurrent_connect_attempts"`
	Closes    int            `json:"concurrent_closes"`
	Barrier   bool           `json:"barrier"`
	AccOK     int            `json:"accepts_succeeded_in_phase"`
	ConOK     int            `json:"connects_succeeded_in_phase"`
}

type finding struct {
	key, what string
	spec      *roundSpec
	o         obs
	size      int // for choosing the minimal witness
}

var keyPool []*common.PeerKeyId

func newInfo(id common.PeerId, port uint16) *peer.PeerInfo {
	return peer.NewPeerInfo(id, common.PROTOCOL_VERSION, common.SERVICE_NODE, true, 0, port, 0, common.MIN_VERSION_FOR_DHT, "")
}

var errWatchdog = fmt.Errorf("watchdog")

func waitTimeout(f func(), what string) error {
	done := make(chan struct{})
	go func() { f(); close(done) }()
	select {
	case <-done:
		return nil
	case <-time.After(180 * time.Second): // never a verdict: only turns the run inconclusive
		return fmt.Errorf("%w: %s did not finish within 180s", errWatchdog, what)
	}
}

func setupRound(rs *roundSpec) (*round, error) {
	rd := &round{spec: rs, byAddr: map[string]*remote{}, stats: map[string]int64{}, logger: &quietLogger{}}
	rd.nw = mock.NewNetwork()
	rd.srvKey = keyPool[0]
	rd.srvAddr = "10.0.0.1:20338"
	srvInfo := newInfo(rd.srvKey.Id, 20338)
	probeID := common.PseudoPeerIdFromUint64(0xdead0001)
	probeAddr := "10.0.0.2:1"
	probeL := rd.nw.NewListenerWithAddr(probeID, probeAddr)
	used := map[string]bool{rd.srvAddr: true, probeAddr: true}
	for i, sp := range rs.Remotes {
		rm := &remote{idx: i, spec: sp, key: keyPool[1+i]}
		rm.info = newInfo(rm.key.Id, sp.Port)
		rm.listenAddr = fmt.Sprintf("%s:%d", sp.IP, sp.Port)
		used[rm.listenAddr] = true
		rd.remotes = append(rd.remotes, rm)
	}
	for _, rm := range rd.remotes {
		rd.nw.AllowConnect(rm.key.Id, rd.srvKey.Id)
		rd.nw.AllowConnect(rm.key.Id, probeID)
		// the mock dialer picks a random source port: probe it and insist on a unique ip:port
		// (two live TCP connections never share the remote ip:port)
		for try := 0; ; try++ {
			d := rd.nw.NewDialerWithHost(rm.key.Id, rm.spec.IP)
			c, err := d.Dial(probeAddr)
			if err != nil {
				return nil, fmt.Errorf("probe dial: %v", err)
			}
			sc, err := probeL.Accept()
			if err != nil {
				return nil, fmt.Errorf("probe accept: %v", err)
			}
			addr := c.LocalAddr().String()
			c.Close()
			sc.Close()
			if !used[addr] {
				used[addr] = true
				rm.dialer, rm.srcAddr = d, addr
				break
			}
			if try > 100 {
				return nil, fmt.Errorf("no unique source address")
			}
		}
		rm.listener = rd.nw.NewListenerWithAddr(rm.key.Id, rm.listenAddr)
		rd.byAddr[rm.srcAddr] = rm
		rd.byAddr[rm.listenAddr] = rm
	}
	inner := rd.nw.NewDialerWithHost(rd.srvKey.Id, "10.0.0.1")
	dialer := &hookDialer{inner: inner, onDial: rd.onControllerDial}
	opt := cc.NewConnCtrlOption().MaxInBound(rs.MaxIn).MaxInBoundPerIp(rs.PerIP).MaxOutBound(rs.MaxOut).WithDialer(dialer)
	mockL := rd.nw.NewListenerWithAddr(rd.srvKey.Id, rd.srvAddr)
	rd.srvL = &notifyListener{Listener: mockL, wrap: rd.wrapAccepted}
	if rs.Mode == "netserver" {
		proto := &stubProto{onConnected: rd.onPeerConnected}
		rd.ns = netserver.NewCustomNetServer(rd.srvKey, srvInfo, proto, rd.srvL, opt, rd.logger)
		rd.ctrl = rd.ns.ConnectController()
		if err := rd.ns.Start(); err != nil {
			return nil, err
		}
	} else {
		rd.ctrl = cc.NewConnectController(srvInfo, rd.srvKey, opt, rd.logger)
		go rd.acceptLoop()
	}
	return rd, nil
}

// acceptLoop mirrors netserver.startNetAccept: one goroutine per accepted connection.
func (rd *round) acceptLoop() {
	for {
		conn, err := rd.srvL.Accept()
		if err != nil {
			return
		}
		go rd.handleAccepted(conn)
	}
}

func (rd *round) opFor(addr string) (*remote, *opState) {
	rd.mu.Lock()
	defer rd.mu.Unlock()
	rm := rd.byAddr[addr]
	if rm == nil {
		return nil, nil
	}
	return rm, rm.cur
}

func (rd *round) handleAccepted(conn net.Conn) {
	rm, op := rd.opFor(conn.RemoteAddr().String())
	if op == nil {
		conn.Close()
		return
	}
	defer op.wg.Done() // Add(1) was done by the remote before dialing
	var wc net.Conn
	var err error
	if p := vf.Catch(func() { _, wc, err = rd.ctrl.AcceptConnect(conn) }); p != nil {
		err = fmt.Errorf("PANIC: %v", p)
	}
	op.party.arrive()
	rd.mu.Lock()
	if err != nil {
		op.errStr = err.Error()
	} else {
		op.ok = true
		rm.live, rm.dir, rm.wrapped = true, "in", wc
	}
	rd.mu.Unlock()
	if err != nil {
		_ = conn.Close() // as startNetAccept does
	}
}

// wrapAccepted wraps the controller-side end of an inbound pipe.
func (rd *round) wrapAccepted(c net.Conn) net.Conn {
	addr := c.RemoteAddr().String()
	return &closeNotifyConn{Conn: c, onClose: func() { rd.onCtrlConnClosed(addr) }}
}

func (rd *round) onCtrlConnClosed(addr string) {
	rd.mu.Lock()
	rm := rd.byAddr[addr]
	var op *opState
	if rm != nil {
		op = rm.cur
		if rd.spec.Mode == "netserver" {
			rm.live = false // the netserver dropped it (rejected accept, or a close completed: removePeer ran before the transport Close)
		}
	}
	rd.mu.Unlock()
	if op != nil && op.srvDone != nil {
		op.srvOnce.Do(func() { close(op.srvDone) })
	}
}

func (rd *round) onPeerConnected(info *peer.PeerInfo) {
	rd.mu.Lock()
	var hit *remote
	for _, rm := range rd.remotes {
		if rm.key.Id == info.Id {
			hit = rm
		}
	}
	var op *opState
	if hit != nil {
		op = hit.cur
		if op != nil {
			op.ok = true
			hit.live = true
			if op.spec.Kind == "accept" {
				hit.dir = "in"
			} else {
				hit.dir = "out"
			}
		}
	}
	rd.mu.Unlock()
	if op != nil && op.srvDone != nil {
		op.srvOnce.Do(func() { close(op.srvDone) })
	}
}

// onControllerDial runs inside ConnectController.Connect right after the dial: the remote
// accepts on its listener and plays HandshakeServer behind the gate.
func (rd *round) onControllerDial(addr string, c net.Conn) net.Conn {
	rm, op := rd.opFor(addr)
	if op == nil {
		return c
	}
	rd.mu.Lock()
	op.dialed = true
	rd.mu.Unlock()
	op.wg.Add(1)
	go func() {
		defer op.wg.Done()
		sc, err := rm.listener.Accept()
		if err != nil {
			op.party.arrive()
			return
		}
		g := &gateConn{Conn: sc, p: op.party, role: roleServer}
		_, err = handshake.HandshakeServer(rm.info, rm.key, g)
		op.party.arrive()
		if err != nil {
			sc.Close()
			return
		}
		rd.mu.Lock()
		rm.remoteEnd = sc
		rd.mu.Unlock()
	}()
	return &closeNotifyConn{Conn: c, onClose: func() { rd.onCtrlConnClosed(addr) }}
}

func (rd *round) startAccept(rm *remote, op *opState) {
	op.wg.Add(1) // remote goroutine
	go func() {
		defer op.wg.Done()
		op.wg.Add(1) // controller-side handler (direct: handleAccepted; netserver: waiter below)
		c, err := rm.dialer.Dial(rd.srvAddr)
		if err != nil {
			op.wg.Done()
			op.party.arrive()
			rd.mu.Lock()
			op.errStr = "dial: " + err.Error()
			rd.mu.Unlock()
			return
		}
		if rd.spec.Mode == "netserver" {
			go func() { // completion of the netserver's handleClientConnection: PeerConnected, or the connection dropped
				defer op.wg.Done()
				<-op.srvDone
				op.party.arrive()
			}()
		}
		g := &gateConn{Conn: c, p: op.party, role: roleClient}
		_, herr := handshake.HandshakeClient(rm.info, rm.key, g)
		op.party.arrive()
		if herr != nil {
			c.Close()
			return
		}
		rd.mu.Lock()
		rm.remoteEnd = c
		rd.mu.Unlock()
	}()
}

func (rd *round) startConnect(rm *remote, op *opState) {
	op.wg.Add(1)
	go func() {
		defer op.wg.Done()
		if rd.spec.Mode == "netserver" {
			if p := vf.Catch(func() { rd.ns.Connect(rm.listenAddr) }); p != nil {
				rd.mu.Lock()
				op.errStr = fmt.Sprintf("PANIC: %v", p)
				rd.mu.Unlock()
			}
			op.party.arrive()
			return // success is signalled through PeerConnected (synchronous inside connect)
		}
		var wc net.Conn
		var err error
		if p := vf.Catch(func() { _, wc, err = rd.ctrl.Connect(rm.listenAddr) }); p != nil {
			err = fmt.Errorf("PANIC: %v", p)
		}
		op.party.arrive()
		rd.mu.Lock()
		if err != nil {
			op.errStr = err.Error()
		} else {
			op.ok = true
			rm.live, rm.dir, rm.wrapped = true, "out", wc
		}
		rd.mu.Unlock()
	}()
}

func (rd *round) startClose(rm *remote, op *opState, variant int) {
	op.wg.Add(1)
	go func() {
		defer op.wg.Done()
		rd.mu.Lock()
		wc, re := rm.wrapped, rm.remoteEnd
		rd.mu.Unlock()
		if rd.spec.Mode == "netserver" {
			if variant == 0 {
				// server-initiated: synchronous down to removePeer
				if p := rd.ns.GetPeer(rm.key.Id); p != nil {
					p.Close()
				}
				rd.stat("netserver_server_close")
			} else {
				// remote-initiated: the netserver's Rx loop notices EOF and closes; wait for the transport Close
				if re != nil {
					re.Close()
				}
				<-op.srvDone
				rd.stat("netserver_remote_close")
			}
		} else if wc != nil {
			_ = wc.Close() // connect_controller.Conn.Close -> removePeer
		}
		if re != nil {
			re.Close()
		}
		rd.mu.Lock()
		rm.live, rm.wrapped, rm.remoteEnd = false, nil, nil
		op.ok = true
		rd.mu.Unlock()
	}()
}

func (rd *round) stat(k string) { rd.mu.Lock(); rd.stats[k]++; rd.mu.Unlock() }

// runPhase starts all ops of the phase concurrently, waits for quiescence, evaluates the oracle.
func (rd *round) runPhase(pi int, rng *vf.RNG) ([]finding, error) {
	ph := rd.spec.Phases[pi]
	// which ops actually run (depends only on the ledger at the quiescent phase start)
	type planned struct {
		rm *remote
		op *opState
	}
	var plan []planned
	nAtt := 0
	rd.mu.Lock()
	for _, o := range ph.Ops {
		rm := rd.remotes[o.Remote]
		switch o.Kind {
		case "close":
			if !rm.live {
				continue
			}
		default:
			if rm.live {
				continue
			}
			nAtt++
		}
		plan = append(plan, planned{rm, &opState{spec: o}})
	}
	var b *barrier
	if ph.Barrier {
		b = newBarrier(nAtt)
	}
	// workload shape: a barrier wave of more than MaxConnInBoundPerIP accepts from one IP while >=2 OTHER IPs
	// hold established inbound connections and the total inbound limit has room for the whole wave
	{
		liveIPs, liveIn, waveIP := map[string]bool{}, 0, map[string]int{}
		for _, rm := range rd.remotes {
			if rm.live && rm.dir == "in" {
				liveIPs[rm.spec.IP] = true
				liveIn++
			}
		}
		for _, p := range plan {
			if p.op.spec.Kind == "accept" {
				waveIP[p.rm.spec.IP]++
			}
		}
		for ip, n := range waveIP {
			others := len(liveIPs)
			if liveIPs[ip] {
				others--
			}
			if ph.Barrier && uint(n) > rd.spec.PerIP && others >= 2 && uint(liveIn+nAtt) <= rd.spec.MaxIn {
				rd.stats["wave_over_per_ip_limit_beside_other_ips"]++
				break
			}
		}
	}
	o := obs{Phase: pi, Barrier: ph.Barrier, PerIP: map[string]int{}}
	for _, p := range plan {
		p.op.party = &party{b: b}
		if p.op.spec.Kind == "close" {
			p.op.party = &party{}
			o.Closes++
		} else if p.op.spec.Kind == "accept" {
			o.Accepts++
		} else {
			o.Connects++
		}
		if rd.spec.Mode == "netserver" && (p.op.spec.Kind == "accept" || p.op.spec.Kind == "close") {
			p.op.srvDone = make(chan struct{})
		}
		p.rm.cur = p.op
	}
	rd.mu.Unlock()

	// sampler: the controller's own accessors, while the phase runs
	stop := make(chan struct{})
	var maxIn, maxOut, samples uint64
	var sg sync.WaitGroup
	sg.Add(1)
	go func() {
		defer sg.Done()
		for {
			select {
			case <-stop:
				return
			default:
			}
			in, out := uint64(rd.ctrl.InboundsCount()), uint64(rd.ctrl.OutboundsCount())
			if in > atomic.LoadUint64(&maxIn) {
				atomic.StoreUint64(&maxIn, in)
			}
			if out > atomic.LoadUint64(&maxOut) {
				atomic.StoreUint64(&maxOut, out)
			}
			atomic.AddUint64(&samples, 1)
			runtime.Gosched()
			time.Sleep(20 * time.Microsecond) // harness-side pacing only; no verdict depends on it
		}
	}()
	order := rng.Perm(len(plan))
	for _, k := range order {
		p := plan[k]
		switch p.op.spec.Kind {
		case "accept":
			rd.startAccept(p.rm, p.op)
		case "connect":
			rd.startConnect(p.rm, p.op)
		default:
			rd.startClose(p.rm, p.op, rng.Intn(2))
		}
	}
	err := waitTimeout(func() {
		for _, p := range plan {
			p.op.wg.Wait()
		}
	}, fmt.Sprintf("round %d phase %d", rd.spec.Index, pi))
	close(stop)
	sg.Wait()
	if err != nil {
		return nil, err
	}

	// ---- quiescent point
	rd.mu.Lock()
	defer rd.mu.Unlock()
	for _, rm := range rd.remotes {
		rm.cur = nil
		if rm.live && rm.dir == "in" {
			o.LiveIn++
			o.PerIP[rm.spec.IP]++
		}
		if rm.live && rm.dir == "out" {
			o.LiveOut++
		}
	}
	for _, p := range plan {
		k := p.op.spec.Kind
		if k != "close" && !p.rm.live && p.rm.remoteEnd != nil { // handshake completed remotely but the controller dropped the connection
			p.rm.remoteEnd.Close()
			p.rm.remoteEnd = nil
		}
		switch {
		case k == "close":
			rd.stats["close_done"]++
			if nAtt > 0 {
				rd.stats["close_concurrent_with_attempts"]++
			}
		case p.op.ok:
			rd.stats[k+"_ok"]++
			if k == "accept" {
				o.AccOK++
			} else {
				o.ConOK++
			}
		case strings.Contains(p.op.errStr, "PANIC"):
			rd.stats["panic"]++
		case strings.Contains(p.op.errStr, "reach max limit"):
			rd.stats[k+"_rejected_limit"]++
		case strings.Contains(p.op.errStr, "already in connection records"):
			rd.stats[k+"_rejected_known_addr"]++
		case rd.spec.Mode == "netserver":
			rd.stats[k+"_rejected_netserver"]++
		default:
			rd.stats[k+"_rejected_other"]++
			if len(rd.stats) < 400 {
				rd.stats["err:"+k+":"+trunc(p.op.errStr, 60)]++
			}
		}
	}
	o.In, o.Out = rd.ctrl.InboundsCount(), rd.ctrl.OutboundsCount()
	o.MaxSeenIn, o.MaxSeenOu = uint(atomic.LoadUint64(&maxIn)), uint(atomic.LoadUint64(&maxOut))
	rd.stats["quiescent_checks"]++
	rd.stats["sampler_samples"] += int64(atomic.LoadUint64(&samples))
	if ph.Barrier && nAtt > 1 {
		rd.stats["phase_barrier"]++
	} else if nAtt > 1 {
		rd.stats["phase_free"]++
	}
	if uint(o.Accepts) > rd.spec.MaxIn {
		rd.stats["wave_accepts_over_inbound_limit"]++
	}
	if uint(o.Connects) > rd.spec.MaxOut {
		rd.stats["wave_connects_over_outbound_limit"]++
	}
	shape := "sequential"
	if nAtt > 1 {
		shape = "concurrent"
	}
	var fs []finding
	add := func(key, what string) {
		// witness = the round cut after the violating phase; prefer (for the reported witness) the design's
		// default limits, a barrier phase (deterministic interleaving), few concurrent attempts, few remotes
		cut := *rd.spec
		cut.Phases = append([]phaseSpec{}, rd.spec.Phases[:pi+1]...)
		size := nAtt*1000 + len(rd.spec.Remotes)*10 + pi
		if !(rd.spec.MaxIn == 3 && rd.spec.PerIP == 2 && rd.spec.MaxOut == 2) {
			size += 1_000_000
		}
		if !ph.Barrier {
			size += 100_000
		}
		fs = append(fs, finding{key: key + ":" + shape, what: what, spec: &cut, o: o, size: size})
	}
	if o.In > rd.spec.MaxIn {
		add("limit:inbound", fmt.Sprintf("InboundsCount()=%d > MaxConnInBound=%d at a quiescent point after %d concurrent AcceptConnect calls (%d succeeded)", o.In, rd.spec.MaxIn, o.Accepts, o.AccOK))
	}
	if o.Out > rd.spec.MaxOut {
		add("limit:outbound", fmt.Sprintf("OutboundsCount()=%d > MaxConnOutBound=%d at a quiescent point after %d concurrent Connect calls (%d succeeded)", o.Out, rd.spec.MaxOut, o.Connects, o.ConOK))
	}
	ips := make([]string, 0, len(o.PerIP))
	for ip := range o.PerIP {
		ips = append(ips, ip)
	}
	sort.Strings(ips)
	for _, ip := range ips {
		if uint(o.PerIP[ip]) > rd.spec.PerIP {
			add("limit:per-ip", fmt.Sprintf("%d live accepted connections from %s > MaxConnInBoundPerIP=%d", o.PerIP[ip], ip, rd.spec.PerIP))
			break
		}
	}
	if int(o.In) != o.LiveIn {
		add("conservation:inbound", fmt.Sprintf("InboundsCount()=%d but %d accepted connections are live (successful AcceptConnect, not closed)", o.In, o.LiveIn))
	}
	if int(o.Out) != o.LiveOut {
		add("conservation:outbound", fmt.Sprintf("OutboundsCount()=%d but %d dialed connections are live", o.Out, o.LiveOut))
	}
	if len(fs) == 0 { // transient excess seen only by the sampler (closes brought it down again)
		if o.MaxSeenIn > rd.spec.MaxIn {
			add("limit:inbound:transient", fmt.Sprintf("InboundsCount() was sampled at %d > %d while the phase ran", o.MaxSeenIn, rd.spec.MaxIn))
		}
		if o.MaxSeenOu > rd.spec.MaxOut {
			add("limit:outbound:transient", fmt.Sprintf("OutboundsCount() was sampled at %d > %d while the phase ran", o.MaxSeenOu, rd.spec.MaxOut))
		}
	}
	if rd.stats["panic"] > 0 {
		add("panic:connect-controller", "AcceptConnect/Connect panicked")
	}
	rd.logger.mu.Lock()
	if len(rd.logger.fatals) > 0 {
		add("fatal-log:"+trunc(strings.SplitN(rd.logger.fatals[0], " | ", 2)[0], 40), "the controller logged a fatal inconsistency: "+rd.logger.fatals[0])
		rd.logger.fatals = nil
	}
	rd.logger.mu.Unlock()
	return fs, nil
}

func trunc(s string, n int) string {
	if len(s) > n {
		return s[:n]
	}
	return s
}

func (rd *round) teardown() {
	// close everything that is still open (quiescent, so no dial is in flight)
	rd.mu.Lock()
	rms := append([]*remote{}, rd.remotes...)
	rd.mu.Unlock()
	if rd.ns != nil {
		_ = vf.Catch(func() { rd.ns.Stop() })
	} else {
		rd.srvL.Close()
	}
	for _, rm := range rms {
		if rm.wrapped != nil {
			_ = vf.Catch(func() { rm.wrapped.Close() })
		}
		if rm.remoteEnd != nil {
			rm.remoteEnd.Close()
		}
	}
}

func runRound(rs *roundSpec, rng *vf.RNG) ([]finding, map[string]int64, error) {
	rd, err := setupRound(rs)
	if err != nil {
		return nil, nil, err
	}
	var all []finding
	for pi := range rs.Phases {
		fs, err := rd.runPhase(pi, rng)
		if err != nil {
			return all, rd.stats, err
		}
		all = append(all, fs...)
		if len(fs) > 0 {
			break // the round's state is already beyond the limits: later phases add nothing
		}
	}
	if rd.ctrl.InboundsCount() > 0 || rd.ctrl.OutboundsCount() > 0 {
		rd.stats["rounds_ending_with_live_connections"]++
	}
	rd.teardown()
	return all, rd.stats, nil
}

func main() {
	r := vf.NewRun("C36", "exploration",
		"seeded rounds: a fresh ConnectController (limits in/per-ip/out = 3/2/2, or small random limits in 25% of rounds) over a fresh mock network with 2–64 remotes on 1..n IPs; 1–4 phases of concurrent accept/connect/close ops; in barrier phases the remote end of each handshake is held until every attempt of the phase passed the pre-handshake check; 3 of 4 rounds drive the controller directly (goroutine per accepted conn, as startNetAccept), 1 of 4 through a real NetServer; a round is non-trivial when a phase has >=2 concurrent attempts; distinct by the round spec; plus hot-ip rounds (2–12 other IPs hold established inbound connections, then a barrier wave of more than per-ip-limit accepts from one further IP, total limit not binding) and outbound re-dial scenarios (outbound limit 2–4; an address is dialed again while an earlier Connect to it is held inside its handshake and after it is established, closes in between, then the slots are filled with fresh addresses; established connections counted as the remote sides see them at quiescent points)")
	log.InitLog(log.MaxLevelLog) // the p2p packages log through the global logger: silence it
	common.Difficulty = 1
	handshake.HANDSHAKE_DURATION = time.Hour // handshake deadlines must never fire: no wall-clock dependence
	rng := vf.NewRNG(vf.Seed())
	nRounds := vf.N(200, 5000)
	for len(keyPool) < 65 {
		keyPool = append(keyPool, common.RandPeerKeyId())
	}

	best := map[string]finding{}
	hits := map[string]int{}
	var firstViolatingRound = -1
	nHot := vf.N(45, 900)
	stuck := false
	for i := 0; i < nRounds+nHot; i++ {
		var rs *roundSpec
		if i < nRounds {
			rs = genRound(rng.Sub(uint64(i)), i)
		} else {
			rs = genHotIPRound(rng.Sub(uint64(2_000_000+i)), i)
		}
		fs, stats, err := runRound(rs, rng.Sub(uint64(1_000_000+i)))
		if err != nil {
			r.Inconclusive(err.Error())
			if strings.Contains(err.Error(), "watchdog") {
				// goroutines of the stuck phase cannot be reclaimed: stop here
				fmt.Fprintln(os.Stderr, "C36: "+err.Error())
				stuck = true
				break
			}
			continue
		}
		fp := ""
		conc := false
		sh := fmt.Sprintf("%s/%d.%d.%d/r%d", rs.Mode, rs.MaxIn, rs.PerIP, rs.MaxOut, len(rs.Remotes))
		ipset := map[string]bool{}
		for _, rm := range rs.Remotes {
			ipset[rm.IP] = true
		}
		sh += fmt.Sprintf("/ip%d", len(ipset))
		for _, ph := range rs.Phases {
			a, c, x := 0, 0, 0
			for _, o := range ph.Ops {
				switch o.Kind {
				case "accept":
					a++
				case "connect":
					c++
				default:
					x++
				}
			}
			if a+c >= 2 {
				conc = true
			}
			sh += fmt.Sprintf("/%v:%da%dc%dx", ph.Barrier, a, c, x)
		}
		if conc {
			fp = sh
		}
		r.Eval(fp)
		r.Count("rounds_" + rs.Mode)
		if rs.Family != "" {
			r.Count("rounds_family_" + rs.Family)
		}
		for k, n := range stats {
			r.Add(k, n)
		}
		if i < 3 || i == nRounds {
			r.Sample(rs)
		}
		if len(fs) > 0 {
			r.Count("rounds_violating")
			if firstViolatingRound < 0 {
				firstViolatingRound = i
			}
		}
		for _, f := range fs {
			hits[f.key]++
			if b, ok := best[f.key]; !ok || f.size < b.size {
				best[f.key] = f
			}
		}
	}
	keys := make([]string, 0, len(best))
	for k := range best {
		keys = append(keys, k)
	}
	sort.Strings(keys)
	for _, k := range keys {
		f := best[k]
		r.Violation(k, f.what, map[string]interface{}{"round": f.spec, "observed_at_quiescence": f.o, "rounds_with_this_key": hits[k],
			"note": "smallest violating round for this key; remote source ports come from the mock network's crypto/rand and do not influence the verdict"})
	}
	r.Extra("violating_rounds_by_key", hits)
	if !stuck {
		runOutboundFamily(r, rng)
	}

	racelog.Apply(r, "p2pserver/connect_controller/")
	if !racelog.Enabled {
		r.Inconclusive("binary built without -race: the race-detector clause was not exercised")
	}
	for _, c := range []string{"rounds_direct", "rounds_netserver", "phase_barrier", "phase_free", "accept_ok", "connect_ok", "close_done",
		"close_concurrent_with_attempts", "wave_accepts_over_inbound_limit", "wave_connects_over_outbound_limit", "quiescent_checks",
		"sampler_samples", "netserver_server_close", "netserver_remote_close", "accept_rejected_limit", "connect_rejected_limit",
		"rounds_family_hot-ip", "wave_over_per_ip_limit_beside_other_ips"} {
		r.Require(c, 1)
	}
	r.Assume("every remote uses a distinct peer id, a distinct source ip:port and a distinct advertised listen port (as real TCP peers do); same-IP remotes differ only in ports")
	r.Assume("per-IP occupancy is taken from the harness ledger of successful, not yet closed AcceptConnect calls; it is tied to the controller by the conservation clause InboundsCount()==ledger")
	r.Assume("quiescent point = every AcceptConnect/Connect/Close issued in the phase has returned (netserver mode: PeerConnected delivered or the transport connection closed by the server)")
	r.Finish()
}
