// C36, outbound re-dial family.
//
// A fresh ConnectController with a small outbound limit dials a small pool of addresses
// WITH REPETITION: the same address is dialed again while an earlier Connect to it is still
// inside its handshake (the remote holds back its half), and again after an earlier
// connection to it has been established; established connections are closed in between; at
// the end the remaining slots are filled with fresh addresses.  The oracle counts the
// ESTABLISHED outbound connections as the remote sides see them (the remote's
// HandshakeServer returned successfully and the controller's end of the transport has not
// been closed) at quiescent points (no Connect call pending) against MaxConnOutBound.
//
// Interleavings are forced through the transport, never through time: a "held" dial step is
// settled when the Connect call has returned or the remote has read the controller's version
// message (the controller is then inside HandshakeClient, past the pre-handshake check, the
// connecting mark and the dial); the remote answers only at the next release step.
package main

import (
	"fmt"
	"net"
	"strings"
	"sync"
	"time"

	"github.com/ontio/ontology/p2pserver/common"
	cc "github.com/ontio/ontology/p2pserver/connect_controller"
	"github.com/ontio/ontology/p2pserver/handshake"
	"github.com/ontio/ontology/p2pserver/mock"
	"github.com/ontio/ontology/p2pserver/peer"
	"verifharness/lib/vf"
)

type obStep struct {
	Op   string `json:"op"`             // dial | release | close
	Addr int    `json:"addr"`           // index of the dialed / closed address
	Hold bool   `json:"hold,omitempty"` // dial: the remote holds back its half of the handshake until the next release
}

type obSpec struct {
	Index  int      `json:"scenario"`
	Shape  string   `json:"shape"`
	MaxOut uint     `json:"max_outbound"`
	Addrs  int      `json:"addresses"`
	Steps  []obStep `json:"steps"`
}

// genOutbound: addresses 0..pool-1 are dialed repeatedly; the tail fills the outbound slots
// with MaxOut fresh addresses, one after another.
func genOutbound(rng *vf.RNG, idx int) *obSpec {
	sp := &obSpec{Index: idx, MaxOut: uint(rng.Range(2, 4))}
	pool := rng.Range(1, 3)
	switch idx % 4 {
	case 0: // an established address is dialed again
		sp.Shape = "redial-established"
		sp.Steps = append(sp.Steps, obStep{Op: "dial", Addr: 0}, obStep{Op: "dial", Addr: 0, Hold: rng.Bool()}, obStep{Op: "release"})
	case 1: // an address is dialed again while the first dial is inside its handshake
		sp.Shape = "redial-during-handshake"
		n := rng.Range(2, 3)
		for k := 0; k < n; k++ {
			sp.Steps = append(sp.Steps, obStep{Op: "dial", Addr: 0, Hold: true})
		}
		sp.Steps = append(sp.Steps, obStep{Op: "release"})
	case 2: // twin attempts, the upper layer closes one connection to the address, the address is dialed again
		sp.Shape = "close-redial"
		hold := rng.Bool()
		sp.Steps = append(sp.Steps, obStep{Op: "dial", Addr: 0, Hold: hold}, obStep{Op: "dial", Addr: 0, Hold: hold}, obStep{Op: "release"},
			obStep{Op: "close", Addr: 0}, obStep{Op: "dial", Addr: 0, Hold: rng.Bool()}, obStep{Op: "release"})
	default:
		sp.Shape = "mixed"
		n := rng.Range(3, 9)
		for k := 0; k < n; k++ {
			x := rng.Intn(100)
			switch {
			case x < 55:
				sp.Steps = append(sp.Steps, obStep{Op: "dial", Addr: rng.Intn(pool), Hold: true})
			case x < 70:
				sp.Steps = append(sp.Steps, obStep{Op: "dial", Addr: rng.Intn(pool)})
			case x < 85:
				sp.Steps = append(sp.Steps, obStep{Op: "release"})
			default:
				sp.Steps = append(sp.Steps, obStep{Op: "close", Addr: rng.Intn(pool)})
			}
		}
		sp.Steps = append(sp.Steps, obStep{Op: "release"})
	}
	if sp.Shape != "mixed" {
		pool = 1
	}
	for k := 0; k < int(sp.MaxOut); k++ {
		sp.Steps = append(sp.Steps, obStep{Op: "dial", Addr: pool + k})
	}
	sp.Addrs = pool + int(sp.MaxOut)
	return sp
}

type obAttempt struct {
	Step       int    `json:"step"`
	Addr       int    `json:"addr"`
	Hold       bool   `json:"hold"`
	Err        string `json:"connect_error,omitempty"`
	OK         bool   `json:"connect_succeeded"`
	Dialed     bool   `json:"dialed"`
	RemoteDone bool   `json:"remote_handshake_completed"`
	CtrlClosed bool   `json:"controller_end_closed"`
	Closed     bool   `json:"closed_by_upper_layer"`

	gate      chan struct{} // closed: the remote may answer
	gateOnce  sync.Once
	reached   chan struct{} // closed: the remote read the controller's version message
	reachOnce sync.Once
	result    chan struct{} // closed: Connect returned
	remote    sync.WaitGroup
	wrapped   net.Conn
	remoteEnd net.Conn
}

// holdConn is the remote's end of an outbound pipe: the first completed Read signals that the
// controller is inside its handshake, the first Write waits for the release.
type holdConn struct {
	net.Conn
	a      *obAttempt
	writes int
}

func (h *holdConn) Read(b []byte) (int, error) {
	n, err := h.Conn.Read(b)
	h.a.reachOnce.Do(func() { close(h.a.reached) })
	return n, err
}

func (h *holdConn) Write(b []byte) (int, error) {
	h.writes++
	if h.writes == 1 {
		<-h.a.gate
	}
	return h.Conn.Write(b)
}

type obWorld struct {
	spec      *obSpec
	mu        sync.Mutex
	ctrl      *cc.ConnectController
	logger    *quietLogger
	addrs     []string
	infos     []*peer.PeerInfo
	keys      []*common.PeerKeyId
	listeners []net.Listener
	byAddr    map[string]int
	cur       *obAttempt // the attempt whose Connect call is being started (dial steps are serialized)
	attempts  []*obAttempt
	stats     map[string]int64
}

func (w *obWorld) onDial(addr string, c net.Conn) net.Conn {
	w.mu.Lock()
	a := w.cur
	i, known := w.byAddr[addr]
	w.mu.Unlock()
	if a == nil || !known {
		return c
	}
	sc, err := w.listeners[i].Accept()
	if err != nil {
		return c
	}
	w.mu.Lock()
	a.Dialed = true
	w.mu.Unlock()
	a.remote.Add(1)
	go func() {
		defer a.remote.Done()
		_, err := handshake.HandshakeServer(w.infos[i], w.keys[i], &holdConn{Conn: sc, a: a})
		a.reachOnce.Do(func() { close(a.reached) })
		if err != nil {
			sc.Close()
			return
		}
		w.mu.Lock()
		a.RemoteDone, a.remoteEnd = true, sc
		w.mu.Unlock()
	}()
	return &closeNotifyConn{Conn: c, onClose: func() {
		w.mu.Lock()
		a.CtrlClosed = true
		w.mu.Unlock()
	}}
}

func obWait(ch ...<-chan struct{}) error {
	t := time.NewTimer(180 * time.Second) // never a verdict: only turns the run inconclusive
	defer t.Stop()
	var second <-chan struct{}
	if len(ch) > 1 {
		second = ch[1]
	}
	select {
	case <-ch[0]:
	case <-second:
	case <-t.C:
		return fmt.Errorf("%w: outbound family step did not settle within 180s", errWatchdog)
	}
	return nil
}

// established: what the remote sides see.  Only meaningful when no Connect call is pending.
func (w *obWorld) established() (remoteView, callerView int, twins bool) {
	perAddr := map[int]int{}
	for _, a := range w.attempts {
		if a.RemoteDone && !a.CtrlClosed && !a.Closed {
			remoteView++
			perAddr[a.Addr]++
			if perAddr[a.Addr] > 1 {
				twins = true
			}
		}
		if a.OK && !a.Closed {
			callerView++
		}
	}
	return
}

type obFinding struct {
	key, what string
	witness   map[string]interface{}
	size      int
}

func runOutbound(sp *obSpec) (*obFinding, map[string]int64, error) {
	w := &obWorld{spec: sp, byAddr: map[string]int{}, stats: map[string]int64{}, logger: &quietLogger{}}
	nw := mock.NewNetwork()
	srvKey := keyPool[0]
	for i := 0; i < sp.Addrs; i++ {
		key := keyPool[1+i]
		port := uint16(21000 + i)
		addr := fmt.Sprintf("10.20.0.%d:%d", 1+i, port)
		nw.AllowConnect(key.Id, srvKey.Id)
		w.keys = append(w.keys, key)
		w.infos = append(w.infos, newInfo(key.Id, port))
		w.addrs = append(w.addrs, addr)
		w.listeners = append(w.listeners, nw.NewListenerWithAddr(key.Id, addr))
		w.byAddr[addr] = i
	}
	dialer := &hookDialer{inner: nw.NewDialerWithHost(srvKey.Id, "10.0.0.1"), onDial: w.onDial}
	opt := cc.NewConnCtrlOption().MaxInBound(8).MaxInBoundPerIp(2).MaxOutBound(sp.MaxOut).WithDialer(dialer)
	w.ctrl = cc.NewConnectController(newInfo(srvKey.Id, 20338), srvKey, opt, w.logger)
	defer w.teardown()

	var pending []*obAttempt
	var fnd *obFinding
	release := func() error {
		for _, a := range pending {
			a.gateOnce.Do(func() { close(a.gate) })
		}
		for _, a := range pending {
			if err := obWait(a.result); err != nil {
				return err
			}
			if err := waitTimeout(a.remote.Wait, "outbound family remote handshake"); err != nil {
				return err
			}
		}
		pending = nil
		return nil
	}
	check := func(si int) {
		w.mu.Lock()
		defer w.mu.Unlock()
		w.stats["ob_quiescent_checks"]++
		est, caller, twins := w.established()
		cnt := w.ctrl.OutboundsCount()
		if est >= int(sp.MaxOut) {
			w.stats["ob_outbound_slots_full"]++
		}
		if fnd != nil {
			return
		}
		n := est
		if caller > n {
			n = caller
		}
		if n <= int(sp.MaxOut) && cnt <= sp.MaxOut {
			return
		}
		shape := "distinct-addresses"
		if twins {
			shape = "same-address-twice"
		}
		cut := *sp
		cut.Steps = append([]obStep{}, sp.Steps[:si+1]...)
		hist := make([]obAttempt, 0, len(w.attempts))
		for _, a := range w.attempts {
			hist = append(hist, obAttempt{Step: a.Step, Addr: a.Addr, Hold: a.Hold, Err: a.Err, OK: a.OK, Dialed: a.Dialed,
				RemoteDone: a.RemoteDone, CtrlClosed: a.CtrlClosed, Closed: a.Closed})
		}
		fnd = &obFinding{key: "limit:outbound:established:" + shape,
			what: fmt.Sprintf("%d established outbound connections as the remote sides see them (%d successful Connect calls not yet closed, OutboundsCount()=%d) > MaxConnOutBound=%d at a quiescent point",
				est, caller, cnt, sp.MaxOut),
			witness: map[string]interface{}{"scenario": &cut, "addresses": w.addrs, "attempts": hist, "established_remote_view": est,
				"established_caller_view": caller, "OutboundsCount": cnt},
			size: len(cut.Steps)*10 + int(sp.MaxOut)}
	}

	for si, st := range sp.Steps {
		switch st.Op {
		case "dial":
			a := &obAttempt{Step: si, Addr: st.Addr, Hold: st.Hold, gate: make(chan struct{}), reached: make(chan struct{}), result: make(chan struct{})}
			if !st.Hold {
				close(a.gate)
				a.gateOnce.Do(func() {})
			}
			w.mu.Lock()
			for _, b := range w.attempts {
				if b.Addr != st.Addr {
					continue
				}
				select {
				case <-b.result:
					if b.OK && !b.Closed {
						w.stats["ob_dial_of_established_address"]++
					}
				default:
					w.stats["ob_dial_of_address_inside_handshake"]++
				}
			}
			w.attempts = append(w.attempts, a)
			w.cur = a
			w.mu.Unlock()
			go func() {
				var wc net.Conn
				var err error
				if p := vf.Catch(func() { _, wc, err = w.ctrl.Connect(w.addrs[st.Addr]) }); p != nil {
					err = fmt.Errorf("PANIC: %v", p)
				}
				w.mu.Lock()
				if err != nil {
					a.Err = err.Error()
				} else {
					a.OK, a.wrapped = true, wc
				}
				w.mu.Unlock()
				close(a.result)
			}()
			pending = append(pending, a)
			if st.Hold {
				if err := obWait(a.result, a.reached); err != nil {
					return fnd, w.stats, err
				}
				select {
				case <-a.result:
				default:
					w.stats["ob_dial_held_inside_handshake"]++
				}
			} else {
				// a free-running dial: it returns on its own (its remote answers at once)
				if err := obWait(a.result); err != nil {
					return fnd, w.stats, err
				}
				if err := waitTimeout(a.remote.Wait, "outbound family remote handshake"); err != nil {
					return fnd, w.stats, err
				}
				pending = pending[:len(pending)-1]
			}
			w.mu.Lock()
			w.cur = nil
			select {
			case <-a.result:
				switch {
				case a.OK:
					w.stats["ob_connect_ok"]++
				case strings.Contains(a.Err, "PANIC"):
					w.stats["ob_panic"]++
				case strings.Contains(a.Err, "already in connection records"):
					w.stats["ob_refused_known_address"]++
				case strings.Contains(a.Err, "connecting list"):
					w.stats["ob_refused_connecting"]++
				case strings.Contains(a.Err, "reach max limit"):
					w.stats["ob_refused_limit"]++
				default:
					w.stats["ob_refused_other"]++
				}
			default:
			}
			w.mu.Unlock()
			if len(pending) == 0 {
				check(si)
			}
		case "release":
			n := len(pending)
			if err := release(); err != nil {
				return fnd, w.stats, err
			}
			if n > 0 {
				w.stats["ob_release_of_held_handshakes"]++
			}
			check(si)
		case "close":
			w.mu.Lock()
			var hit *obAttempt
			for _, a := range w.attempts {
				if a.Addr == st.Addr && a.OK && !a.Closed {
					hit = a
					break
				}
			}
			if hit != nil {
				hit.Closed = true
				w.stats["ob_close"]++
				if len(pending) > 0 {
					w.stats["ob_close_while_handshakes_pending"]++
				}
			}
			w.mu.Unlock()
			if hit != nil {
				_ = vf.Catch(func() { hit.wrapped.Close() }) // connect_controller.Conn.Close -> removePeer
				if hit.remoteEnd != nil {
					hit.remoteEnd.Close()
				}
			}
			if len(pending) == 0 {
				check(si)
			}
		}
	}
	if err := release(); err != nil {
		return fnd, w.stats, err
	}
	w.mu.Lock()
	for _, a := range w.attempts {
		if a.Hold && a.OK {
			w.stats["ob_connect_ok_after_hold"]++
		}
	}
	if w.stats["ob_panic"] > 0 && fnd == nil {
		fnd = &obFinding{key: "panic:connect-controller:outbound-redial", what: "Connect panicked", witness: map[string]interface{}{"scenario": sp}, size: len(sp.Steps) * 10}
	}
	w.mu.Unlock()
	return fnd, w.stats, nil
}

func (w *obWorld) teardown() {
	w.mu.Lock()
	as := append([]*obAttempt{}, w.attempts...)
	w.mu.Unlock()
	for _, a := range as {
		a.gateOnce.Do(func() { close(a.gate) })
	}
	for _, a := range as {
		select {
		case <-a.result:
		default:
			continue // stuck call (watchdog): nothing to reclaim
		}
		if a.wrapped != nil && !a.Closed {
			_ = vf.Catch(func() { a.wrapped.Close() })
		}
		if a.remoteEnd != nil {
			a.remoteEnd.Close()
		}
	}
}

// runOutboundFamily runs the scenarios and reports through r; returns false when a watchdog fired.
func runOutboundFamily(r *vf.Run, rng *vf.RNG) bool {
	n := vf.N(80, 1600)
	best := map[string]*obFinding{}
	hits := map[string]int{}
	for i := 0; i < n; i++ {
		sp := genOutbound(rng.Sub(uint64(3_000_000+i)), i)
		f, stats, err := runOutbound(sp)
		for k, v := range stats {
			r.Add(k, v)
		}
		if err != nil {
			r.Inconclusive(err.Error())
			return false
		}
		fp := fmt.Sprintf("outbound/%s/%d", sp.Shape, sp.MaxOut)
		for _, st := range sp.Steps {
			fp += fmt.Sprintf("/%s%d%v", st.Op[:1], st.Addr, st.Hold)
		}
		r.Eval(fp)
		r.Count("ob_scenarios_" + sp.Shape)
		if i < 3 {
			r.Sample(sp)
		}
		if f != nil {
			r.Count("ob_scenarios_violating")
			hits[f.key]++
			if b, ok := best[f.key]; !ok || f.size < b.size {
				best[f.key] = f
			}
		}
	}
	for _, k := range sortedKeys(best) {
		f := best[k]
		f.witness["scenarios_with_this_key"] = hits[k]
		r.Violation(k, f.what, f.witness)
	}
	for _, c := range []string{"ob_scenarios_redial-established", "ob_scenarios_redial-during-handshake", "ob_scenarios_close-redial", "ob_scenarios_mixed", "ob_quiescent_checks",
		"ob_connect_ok", "ob_connect_ok_after_hold", "ob_dial_of_established_address", "ob_dial_of_address_inside_handshake", "ob_dial_held_inside_handshake",
		"ob_release_of_held_handshakes", "ob_refused_known_address", "ob_refused_connecting", "ob_refused_limit", "ob_close", "ob_outbound_slots_full"} {
		r.Require(c, 1)
	}
	return true
}

func sortedKeys(m map[string]*obFinding) []string {
	ks := make([]string, 0, len(m))
	for k := range m {
		ks = append(ks, k)
	}
	for i := 1; i < len(ks); i++ {
		for j := i; j > 0 && ks[j] < ks[j-1]; j-- {
			ks[j], ks[j-1] = ks[j-1], ks[j]
		}
	}
	return ks
}
