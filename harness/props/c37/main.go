// C37 — DHT routing table stays structurally valid.
//
// Runtime monitor over the real kbucket.RouteTable: seeded histories of Update / Remove
// (plus NearestPeers / Find / Size / ListPeers queries) with random and adversarially
// close peer ids.  After EVERY Update/Remove the structural invariant of the property is
// evaluated on rt.Buckets, against a model set that follows the API's own results, and
// the PeerAdded/PeerRemoved callbacks are compared with the model changes.  A concurrent
// variant (4 writers, 2 readers, race detector on) checks the same invariant at
// quiescence plus the linearised callback log.
package main

import (
	"bytes"
	"fmt"
	"hash/fnv"
	"sort"
	"sync"
	"sync/atomic"
	"time"

	ocommon "github.com/ontio/ontology/common"
	"github.com/ontio/ontology/p2pserver/common"
	"github.com/ontio/ontology/p2pserver/dht/kbucket"
	"verifharness/lib/racelog"
	"verifharness/lib/vf"
)

// ---------------------------------------------------------------- ids

type raw = [20]byte

func mkID(b raw) common.PeerId {
	var id common.PeerId
	if err := id.Deserialization(ocommon.NewZeroCopySource(b[:])); err != nil {
		panic(err)
	}
	return id
}

func xor(a, b raw) (d raw) {
	for i := range a {
		d[i] = a[i] ^ b[i]
	}
	return
}

// own common-prefix-length (does not use the repo's CommonPrefixLen)
func cpl(a, b raw) int {
	for i := 0; i < 20; i++ {
		x := a[i] ^ b[i]
		if x != 0 {
			n := 0
			for x&0x80 == 0 {
				x <<= 1
				n++
			}
			return i*8 + n
		}
	}
	return 160
}

func getBit(b raw, i int) byte { return (b[i/8] >> (7 - uint(i%8))) & 1 }
func setBit(b *raw, i int, v byte) {
	if v == 1 {
		b[i/8] |= 1 << (7 - uint(i%8))
	} else {
		b[i/8] &^= 1 << (7 - uint(i%8))
	}
}

// withCPL returns an id sharing exactly c leading bits with local (c==160: local itself).
// tail: 0 random, 1 zeros, 2 same as local (differs in one bit only), 3 ones.
func withCPL(local raw, c int, tail int, rng *vf.RNG) raw {
	if c >= 160 {
		return local
	}
	var out raw
	rnd := rng.Bytes(20)
	for i := 0; i < 160; i++ {
		switch {
		case i < c:
			setBit(&out, i, getBit(local, i))
		case i == c:
			setBit(&out, i, 1-getBit(local, i))
		default:
			switch tail {
			case 0:
				setBit(&out, i, (rnd[i/8]>>(7-uint(i%8)))&1)
			case 1:
				setBit(&out, i, 0)
			case 2:
				setBit(&out, i, getBit(local, i))
			default:
				setBit(&out, i, 1)
			}
		}
	}
	return out
}

// ---------------------------------------------------------------- histories

const (
	opUpdate = "U"
	opRemove = "R"
	opNear   = "N"
	opFind   = "F"
)

type op struct {
	Op  string `json:"op"`
	ID  string `json:"id"`          // hex of the 20 raw id bytes (peer or target)
	K   int    `json:"k,omitempty"` // NearestPeers count
	raw raw
}

type history struct {
	Local      string `json:"local"`
	BucketSize int    `json:"bucketsize"`
	Shape      string `json:"shape"`
	Ops        []op   `json:"ops"`
	local      raw
}

func genHistory(rng *vf.RNG, idx int) *history {
	h := &history{}
	switch rng.Intn(6) {
	case 0:
		h.local = raw{}
	case 1:
		for i := range h.local {
			h.local[i] = 0xff
		}
	default:
		copy(h.local[:], rng.Bytes(20))
	}
	h.Local = vf.Hex(h.local[:])
	h.BucketSize = []int{1, 2, 20, 1, 2, 3, 8}[idx%7]
	shapes := []string{"uniform", "close", "deep", "mixed", "mixed"}
	h.Shape = shapes[rng.Intn(len(shapes))]
	// pool of ids the history draws from (so that updates of existing ids, removals of
	// present ids and full buckets are frequent)
	psize := rng.Range(h.BucketSize*2+2, h.BucketSize*12+40)
	if psize > 400 {
		psize = 400
	}
	pool := make([]raw, 0, psize+4)
	gen := func() raw {
		shape := h.Shape
		if shape == "mixed" {
			shape = []string{"uniform", "close", "deep"}[rng.Intn(3)]
		}
		switch shape {
		case "uniform":
			var b raw
			copy(b[:], rng.Bytes(20))
			return b
		case "close":
			// geometric-ish emphasis on small buckets indices but reaching 159
			c := rng.Intn(160)
			if rng.Chance(60) {
				c = rng.Intn(24)
			}
			return withCPL(h.local, c, rng.Intn(4), rng)
		default: // deep: long shared prefixes, forces long unfolding chains
			c := 100 + rng.Intn(60)
			if rng.Chance(30) {
				c = 150 + rng.Intn(10)
			}
			return withCPL(h.local, c, rng.Intn(4), rng)
		}
	}
	for len(pool) < psize {
		pool = append(pool, gen())
	}
	if rng.Chance(50) {
		pool = append(pool, h.local) // id == local (cpl 160)
	}
	if rng.Chance(50) {
		pool = append(pool, withCPL(h.local, 159, 2, rng)) // differs in the last bit only
	}
	if rng.Chance(30) {
		pool = append(pool, withCPL(h.local, 158, 2, rng), withCPL(h.local, 158, 3, rng))
	}
	nops := rng.Range(50, 2000)
	if rng.Chance(60) {
		nops = rng.Range(50, 400)
	}
	if h.Shape != "uniform" && nops > 700 {
		// deep tables (100+ buckets) make the per-mutation invariant check expensive under -race
		nops = 400 + nops%300
	}
	removePct := []int{5, 20, 45}[rng.Intn(3)]
	pick := func() raw { return pool[rng.Intn(len(pool))] }
	for n := 0; n < nops; n++ {
		x := rng.Intn(100)
		var o op
		switch {
		case x < removePct:
			o = op{Op: opRemove, raw: pick()}
		case x < removePct+8:
			o = op{Op: opNear, K: []int{0, 1, 2, 3, 5, 20, 50, 1000}[rng.Intn(8)]}
			switch rng.Intn(4) {
			case 0:
				o.raw = pick()
			case 1:
				o.raw = h.local
			case 2:
				o.raw = withCPL(h.local, rng.Intn(160), 0, rng)
			default:
				copy(o.raw[:], rng.Bytes(20))
			}
		case x < removePct+14:
			o = op{Op: opFind, raw: pick()}
			if rng.Chance(15) {
				copy(o.raw[:], rng.Bytes(20))
			}
		default:
			o = op{Op: opUpdate, raw: pick()}
		}
		o.ID = vf.Hex(o.raw[:])
		h.Ops = append(h.Ops, o)
	}
	return h
}

// ---------------------------------------------------------------- oracle

type viol struct {
	key, what string
	at        int // index of the op after which the clause failed
}

type stats map[string]int64

// snapshot of the table read through rt.Buckets[i].Peers() (single-threaded / quiescent use only)
func snapshot(rt *kbucket.RouteTable) [][]common.PeerIDAddressPair {
	out := make([][]common.PeerIDAddressPair, len(rt.Buckets))
	for i, b := range rt.Buckets {
		out[i] = b.Peers()
	}
	return out
}

// checkStructure evaluates the structural clauses of the property on a snapshot.
func checkStructure(rt *kbucket.RouteTable, snap [][]common.PeerIDAddressPair, local raw, bs int,
	rawOf map[common.PeerId]raw, model map[common.PeerId]bool, st stats) *viol {
	seen := map[common.PeerId]int{}
	total := 0
	last := len(snap) - 1
	if last < 0 {
		return &viol{key: "structure:no-buckets", what: "routing table has no bucket"}
	}
	for i, b := range snap {
		if len(b) > bs {
			return &viol{key: fmt.Sprintf("bucket-overflow:%s", lastOr(i == last)), what: fmt.Sprintf("bucket %d holds %d peers > bucketsize %d", i, len(b), bs)}
		}
		for _, p := range b {
			total++
			if prev, dup := seen[p.ID]; dup {
				return &viol{key: "duplicate-peer", what: fmt.Sprintf("peer %s occurs in bucket %d and bucket %d", p.ID.ToHexString(), prev, i)}
			}
			seen[p.ID] = i
			rb, known := rawOf[p.ID]
			if !known {
				return &viol{key: "phantom-peer", what: fmt.Sprintf("table holds peer %s that was never passed to Update", p.ID.ToHexString())}
			}
			c := cpl(rb, local)
			if i < last && c != i {
				return &viol{key: "misplaced:dedicated-bucket", what: fmt.Sprintf("peer with cpl %d sits in dedicated bucket %d (last=%d)", c, i, last)}
			}
			if i == last {
				if c < last {
					return &viol{key: "misplaced:last-bucket", what: fmt.Sprintf("peer with cpl %d sits in last bucket %d", c, last)}
				}
				if c > last {
					st["last_bucket_holds_higher_cpl"]++
				}
			}
			if model != nil && !model[p.ID] {
				return &viol{key: "model:peer-not-in-model", what: fmt.Sprintf("table holds peer %s (bucket %d) which the model does not contain (never added with nil error, or removed)", p.ID.ToHexString(), i)}
			}
		}
	}
	var size int
	if p := vf.Catch(func() { size = rt.Size() }); p != nil {
		return &viol{key: "panic:Size", what: fmt.Sprint(p)}
	}
	if size != total {
		return &viol{key: "size:sum-of-buckets", what: fmt.Sprintf("Size()=%d but buckets hold %d peers", size, total)}
	}
	if model != nil && size != len(model) {
		return &viol{key: "model:size", what: fmt.Sprintf("Size()=%d but the model holds %d peers (peers accepted by Update and not removed)", size, len(model))}
	}
	return nil
}

func lastOr(last bool) string {
	if last {
		return "last"
	}
	return "dedicated"
}

// checkNearest evaluates the NearestPeers clause: <= k, distinct, members, sorted by XOR distance.
func checkNearest(res []common.PeerIDAddressPair, target raw, k int, rawOf map[common.PeerId]raw,
	member func(common.PeerId) bool) *viol {
	if len(res) > k {
		return &viol{key: "nearest:too-many", what: fmt.Sprintf("NearestPeers(k=%d) returned %d peers", k, len(res))}
	}
	seen := map[common.PeerId]bool{}
	var prev raw
	for i, p := range res {
		if seen[p.ID] {
			return &viol{key: "nearest:duplicate", what: fmt.Sprintf("NearestPeers returned %s twice", p.ID.ToHexString())}
		}
		seen[p.ID] = true
		rb, known := rawOf[p.ID]
		if !known {
			return &viol{key: "nearest:unknown-peer", what: "NearestPeers returned an id never passed to Update"}
		}
		if member != nil && !member(p.ID) {
			return &viol{key: "nearest:not-in-table", what: fmt.Sprintf("NearestPeers returned %s which is not in the table", p.ID.ToHexString())}
		}
		d := xor(rb, target)
		if i > 0 && bytes.Compare(prev[:], d[:]) > 0 {
			return &viol{key: "nearest:unsorted", what: fmt.Sprintf("result %d is closer to the target than result %d", i, i-1)}
		}
		prev = d
	}
	return nil
}

// runHistory executes h on a fresh table; returns the first violated clause (nil = held).
func runHistory(h *history, st stats) *viol {
	local := mkID(h.local)
	rt := kbucket.NewRoutingTable(h.BucketSize, local)
	rawOf := map[common.PeerId]raw{}
	model := map[common.PeerId]bool{}
	var added, removed []common.PeerId
	rt.PeerAdded = func(id common.PeerId) { added = append(added, id) }
	rt.PeerRemoved = func(id common.PeerId) { removed = append(removed, id) }
	member := func(id common.PeerId) bool { return model[id] }
	maxBuckets := 1

	for n, o := range h.Ops {
		id := mkID(o.raw)
		switch o.Op {
		case opUpdate:
			rawOf[id] = o.raw
			c := cpl(o.raw, h.local)
			nb := len(rt.Buckets)
			bidx := c
			if bidx >= nb {
				bidx = nb - 1
			}
			wasLast := bidx == nb-1
			wasFull := rt.Buckets[bidx].Len() >= h.BucketSize
			existed := model[id]
			added, removed = added[:0], removed[:0]
			var err error
			// a peer that is seen again often comes back with ANOTHER address (new port, new IP): same id
			addr := "addr-" + o.ID[:8]
			if existed && n%2 == 1 {
				addr = fmt.Sprintf("addr-%s-moved-%d", o.ID[:8], n)
				st["update_existing_with_new_address"]++
			}
			if p := vf.Catch(func() { err = rt.Update(id, addr) }); p != nil {
				return &viol{key: "panic:Update", what: fmt.Sprint(p), at: n}
			}
			grew := len(rt.Buckets) - nb
			if grew > 0 {
				st["unfold"]++
				if grew > 1 {
					st["unfold_multi"]++
				}
			}
			if grew < 0 {
				return &viol{key: "structure:buckets-shrank", what: "bucket list got shorter", at: n}
			}
			switch {
			case err == nil && existed:
				st["update_existing"]++
				if len(added) != 0 || len(removed) != 0 {
					return &viol{key: "callback:on-refresh", what: fmt.Sprintf("Update of a peer already in the table fired %d PeerAdded / %d PeerRemoved", len(added), len(removed)), at: n}
				}
			case err == nil && !existed:
				st["update_new_added"]++
				if c == 160 {
					st["id_eq_local_added"]++
				}
				if c == 159 {
					st["cpl159_added"]++
				}
				if wasFull && wasLast {
					st["added_after_unfold"]++
				}
				model[id] = true
				if len(added) != 1 || added[0] != id || len(removed) != 0 {
					return &viol{key: "callback:on-add", what: fmt.Sprintf("accepted new peer but callbacks were PeerAdded×%d PeerRemoved×%d", len(added), len(removed)), at: n}
				}
			default: // err != nil: nothing may change in the membership
				if existed {
					st["update_existing_rejected"]++
				}
				if wasFull && wasLast {
					st["update_rejected_after_unfold"]++
				} else if wasFull {
					st["update_rejected_dedicated_full"]++
				} else {
					st["update_rejected_other"]++
				}
				if len(added) != 0 || len(removed) != 0 {
					return &viol{key: "callback:on-reject", what: fmt.Sprintf("rejected Update (%v) fired PeerAdded×%d PeerRemoved×%d", err, len(added), len(removed)), at: n}
				}
			}
		case opRemove:
			existed := model[id]
			added, removed = added[:0], removed[:0]
			if p := vf.Catch(func() { rt.Remove(id) }); p != nil {
				return &viol{key: "panic:Remove", what: fmt.Sprint(p), at: n}
			}
			if existed {
				st["remove_present"]++
				delete(model, id)
				if len(removed) != 1 || removed[0] != id || len(added) != 0 {
					return &viol{key: "callback:on-remove", what: fmt.Sprintf("removed a present peer but callbacks were PeerRemoved×%d PeerAdded×%d", len(removed), len(added)), at: n}
				}
			} else {
				st["remove_absent"]++
				if len(removed) != 0 || len(added) != 0 {
					return &viol{key: "callback:on-remove-absent", what: "Remove of an absent peer fired a callback", at: n}
				}
			}
		case opNear:
			var res []common.PeerIDAddressPair
			if p := vf.Catch(func() { res = rt.NearestPeers(id, o.K) }); p != nil {
				return &viol{key: "panic:NearestPeers", what: fmt.Sprint(p), at: n}
			}
			st["nearest_checked"]++
			if v := checkNearest(res, o.raw, o.K, rawOf, member); v != nil {
				v.at = n
				return v
			}
			if o.K > 0 && o.K < len(model) {
				st["nearest_truncated"]++
			}
			if len(res) > 1 {
				st["nearest_multi_result"]++
				bk := map[int]bool{}
				for _, p := range res {
					b := cpl(rawOf[p.ID], h.local)
					if b >= len(rt.Buckets) {
						b = len(rt.Buckets) - 1
					}
					bk[b] = true
				}
				if len(bk) > 1 {
					st["nearest_spans_buckets"]++
				}
			}
			want := o.K
			if len(model) < want {
				want = len(model)
			}
			if len(res) < want {
				st["info_nearest_fewer_than_min_k_size"]++ // not demanded by the statement
			}
			continue // queries do not change the structure: no re-check needed
		case opFind:
			var got common.PeerIDAddressPair
			var ok bool
			if p := vf.Catch(func() { got, ok = rt.Find(id) }); p != nil {
				return &viol{key: "panic:Find", what: fmt.Sprint(p), at: n}
			}
			if ok != model[id] {
				return &viol{key: fmt.Sprintf("find:disagrees:member=%v", model[id]), what: fmt.Sprintf("Find(%s) reported %v but membership is %v", o.ID, ok, model[id]), at: n}
			}
			if ok {
				st["find_hit"]++
				if got.ID != id {
					return &viol{key: "find:wrong-peer", what: "Find returned another peer", at: n}
				}
			} else {
				st["find_miss"]++
			}
			continue
		}
		// structural invariant after every Update / Remove
		snap := snapshot(rt)
		if v := checkStructure(rt, snap, h.local, h.BucketSize, rawOf, model, st); v != nil {
			v.at = n
			return v
		}
		if len(rt.Buckets) > maxBuckets {
			maxBuckets = len(rt.Buckets)
		}
		// cheap query clause after every mutation: the just-touched id
		if _, ok := rt.Find(id); ok != model[id] {
			return &viol{key: fmt.Sprintf("find:disagrees:member=%v", model[id]), what: fmt.Sprintf("Find(%s) reported %v right after %s but membership is %v", o.ID, ok, o.Op, model[id]), at: n}
		}
	}
	// end of history: ListPeers equals the concatenation of the buckets
	snap := snapshot(rt)
	var flat []common.PeerId
	for _, b := range snap {
		for _, p := range b {
			flat = append(flat, p.ID)
		}
	}
	lp := rt.ListPeers()
	if len(lp) != len(flat) {
		return &viol{key: "listpeers:length", what: fmt.Sprintf("ListPeers returned %d peers, buckets hold %d", len(lp), len(flat)), at: len(h.Ops) - 1}
	}
	for i := range lp {
		if lp[i].ID != flat[i] {
			return &viol{key: "listpeers:content", what: "ListPeers differs from the bucket contents", at: len(h.Ops) - 1}
		}
	}
	// every member is found, NearestPeers(all) returns the whole table sorted
	for id := range model {
		if _, ok := rt.Find(id); !ok {
			return &viol{key: "find:disagrees:member=true", what: "member not found at end of history", at: len(h.Ops) - 1}
		}
	}
	res := rt.NearestPeers(local, len(model)+5)
	if v := checkNearest(res, h.local, len(model)+5, rawOf, member); v != nil {
		v.at = len(h.Ops) - 1
		return v
	}
	st["nearest_checked"]++
	st["final_size"] = int64(len(model))
	st["final_buckets"] = int64(len(rt.Buckets))
	if maxBuckets >= 100 {
		st["buckets_ge_100"]++
	}
	return nil
}

// minimise shrinks a failing history (prefix cut + chunk removal) while the same key fails.
func minimise(h *history, v *viol) (*history, *viol) {
	cur := &history{Local: h.Local, BucketSize: h.BucketSize, Shape: h.Shape, local: h.local, Ops: append([]op{}, h.Ops[:v.at+1]...)}
	best := v
	budget := 400
	for chunk := len(cur.Ops) / 2; chunk >= 1 && budget > 0; {
		shrunk := false
		for start := 0; start+chunk <= len(cur.Ops) && budget > 0; {
			budget--
			cand := &history{Local: cur.Local, BucketSize: cur.BucketSize, Shape: cur.Shape, local: cur.local}
			cand.Ops = append(append([]op{}, cur.Ops[:start]...), cur.Ops[start+chunk:]...)
			if nv := runHistory(cand, stats{}); nv != nil && nv.key == v.key {
				cand.Ops = cand.Ops[:nv.at+1]
				cur, best, shrunk = cand, nv, true
			} else {
				start += chunk
			}
		}
		if !shrunk || chunk == 1 {
			chunk /= 2
		}
	}
	return cur, best
}

// ---------------------------------------------------------------- concurrent variant

type cbEvent struct {
	add bool
	id  common.PeerId
}

type concCfg struct {
	Local      string   `json:"local"`
	BucketSize int      `json:"bucketsize"`
	Disjoint   bool     `json:"disjoint_ownership"`
	Pool       []string `json:"pool"`
	OpsPerW    int      `json:"ops_per_writer"`
	Seed       uint64   `json:"sub_seed"`
}

// runConcurrent: 4 writers + 2 readers on one table.  Verdicts are taken (a) by the
// readers through the table's own locked accessors on properties that hold for any
// linearisation (distinct, sorted, <= k, known ids), (b) at quiescence: structural
// invariant, callback log replay, per-owner models when ownership is disjoint.
var hung atomic.Bool

func runConcurrent(r *vf.Run, rng *vf.RNG, idx int) {
	if hung.Load() {
		return
	}
	var local raw
	copy(local[:], rng.Bytes(20))
	bs := []int{1, 2, 20, 3}[idx%4]
	disjoint := idx%2 == 0
	psize := rng.Range(bs*4+8, bs*10+60)
	pool := make([]raw, 0, psize)
	uniq := map[raw]bool{}
	for len(pool) < psize {
		var b raw
		switch rng.Intn(3) {
		case 0:
			copy(b[:], rng.Bytes(20))
		case 1:
			b = withCPL(local, rng.Intn(30), rng.Intn(4), rng)
		default:
			b = withCPL(local, 100+rng.Intn(61), rng.Intn(4), rng)
		}
		if !uniq[b] {
			uniq[b] = true
			pool = append(pool, b)
		}
	}
	cfg := concCfg{Local: vf.Hex(local[:]), BucketSize: bs, Disjoint: disjoint, OpsPerW: rng.Range(200, 1200), Seed: rng.U64()}
	for _, p := range pool {
		cfg.Pool = append(cfg.Pool, vf.Hex(p[:]))
	}
	rawOf := map[common.PeerId]raw{}
	ids := make([]common.PeerId, len(pool))
	for i, p := range pool {
		ids[i] = mkID(p)
		rawOf[ids[i]] = p
	}
	rt := kbucket.NewRoutingTable(bs, mkID(local))
	var cbMu sync.Mutex
	var events []cbEvent
	cbTouch := new(int) // deliberately unsynchronised: callbacks are specified to run under the table lock; if they ever run concurrently the race detector reports it with kbucket frames on the stack
	rt.PeerAdded = func(id common.PeerId) {
		*cbTouch++
		cbMu.Lock()
		events = append(events, cbEvent{true, id})
		cbMu.Unlock()
	}
	rt.PeerRemoved = func(id common.PeerId) {
		*cbTouch++
		cbMu.Lock()
		events = append(events, cbEvent{false, id})
		cbMu.Unlock()
	}
	const W, R = 4, 2
	type wres struct {
		model map[common.PeerId]bool
	}
	wr := make([]wres, W)
	// first violation seen by any goroutine; a caught panic may leave the table's lock held
	// (NearestPeers unlocks without defer), so the history is then abandoned instead of joined
	var vmu sync.Mutex
	var firstV *viol
	abandon := make(chan struct{})
	setViol := func(v *viol) {
		vmu.Lock()
		if firstV == nil {
			firstV = v
			close(abandon)
		}
		vmu.Unlock()
	}
	var wg sync.WaitGroup
	stop := make(chan struct{})
	for w := 0; w < W; w++ {
		wg.Add(1)
		go func(w int) {
			defer wg.Done()
			sub := vf.NewRNG(cfg.Seed).Sub(uint64(w))
			model := map[common.PeerId]bool{}
			for n := 0; n < cfg.OpsPerW; n++ {
				k := sub.Intn(len(ids))
				if disjoint {
					k = k - k%W + w // ids with index ≡ w (mod W) belong to writer w
					if k >= len(ids) {
						k = w
					}
				}
				id := ids[k]
				if sub.Chance(30) {
					if p := vf.Catch(func() { rt.Remove(id) }); p != nil {
						setViol(&viol{key: "panic:Remove:concurrent", what: fmt.Sprint(p)})
						return
					}
					delete(model, id)
				} else {
					var err error
					if p := vf.Catch(func() { err = rt.Update(id, "a") }); p != nil {
						setViol(&viol{key: "panic:Update:concurrent", what: fmt.Sprint(p)})
						return
					}
					if err == nil {
						model[id] = true
					} else if disjoint && model[id] {
						setViol(&viol{key: "concurrent:refresh-rejected", what: "Update of a peer this writer owns and holds in the table was rejected"})
						return
					}
				}
			}
			wr[w].model = model
		}(w)
	}
	var rg sync.WaitGroup
	for q := 0; q < R; q++ {
		rg.Add(1)
		go func(q int) {
			defer rg.Done()
			sub := vf.NewRNG(cfg.Seed).Sub(uint64(100 + q))
			for n := 0; ; n++ {
				select {
				case <-stop:
					return
				default:
				}
				tgt := pool[sub.Intn(len(pool))]
				if sub.Chance(30) {
					copy(tgt[:], sub.Bytes(20))
				}
				k := []int{1, 3, 20, 500}[sub.Intn(4)]
				var v *viol
				if p := vf.Catch(func() {
					switch n % 4 {
					case 0, 1:
						v = checkNearest(rt.NearestPeers(mkID(tgt), k), tgt, k, rawOf, nil)
					case 2:
						seen := map[common.PeerId]bool{}
						for _, p := range rt.ListPeers() {
							if seen[p.ID] {
								v = &viol{key: "duplicate-peer:concurrent", what: "ListPeers (under the table lock) lists a peer twice"}
							}
							seen[p.ID] = true
						}
					default:
						if s := rt.Size(); s < 0 || s > len(pool) {
							v = &viol{key: "size:out-of-range:concurrent", what: fmt.Sprintf("Size()=%d with %d distinct ids ever offered", s, len(pool))}
						}
						rt.Find(mkID(tgt))
					}
				}); p != nil {
					v = &viol{key: "panic:reader:concurrent", what: fmt.Sprint(p)}
				}
				if v != nil {
					setViol(v)
					return
				}
			}
		}(q)
	}
	joined := make(chan struct{})
	var stopOnce sync.Once
	go func() {
		wg.Wait()
		stopOnce.Do(func() { close(stop) })
		rg.Wait()
		close(joined)
	}()
	abandoned := false
	select {
	case <-joined:
	case <-abandon:
		stopOnce.Do(func() { close(stop) })
		abandoned = true // goroutines of this history may stay blocked on a lock the panicking call never released
	case <-time.After(10 * time.Minute): // never a verdict by itself
		r.Inconclusive(fmt.Sprintf("concurrent history %d did not terminate within 10 min (bucketsize %d, seed %x): livelock in the table or starvation; remaining concurrent histories skipped", idx, bs, cfg.Seed))
		hung.Store(true)
		return
	}

	// ---- quiescent point
	report := func(v *viol) {
		r.Violation(v.key+":concurrent-history", v.what, map[string]interface{}{"config": cfg, "note": "4 writers (ops drawn from vf.NewRNG(sub_seed).Sub(w)), 2 readers; replay needs the same scheduler luck, the config pins everything else"})
	}
	fp := fmt.Sprintf("conc/bs%d/p%d/o%d/d%v/%x", bs, len(pool), cfg.OpsPerW, disjoint, cfg.Seed)
	r.Eval(fp)
	r.Count("concurrent_histories")
	vmu.Lock()
	fv := firstV
	vmu.Unlock()
	if fv != nil {
		report(fv)
		return
	}
	if abandoned {
		return
	}
	// callback log replay: the callbacks run under the table's write lock, so their order is a linearisation
	set := map[common.PeerId]bool{}
	for i, e := range events {
		if e.add {
			if set[e.id] {
				report(&viol{key: "callback:added-twice", what: fmt.Sprintf("event %d: PeerAdded for a peer already added and not removed", i)})
				return
			}
			set[e.id] = true
		} else {
			if !set[e.id] {
				report(&viol{key: "callback:removed-absent", what: fmt.Sprintf("event %d: PeerRemoved for a peer that is not in the table", i)})
				return
			}
			delete(set, e.id)
		}
	}
	st := stats{}
	snap := snapshot(rt)
	if v := checkStructure(rt, snap, local, bs, rawOf, set, st); v != nil {
		report(v)
		return
	}
	if disjoint {
		union := map[common.PeerId]bool{}
		for _, x := range wr {
			for id := range x.model {
				union[id] = true
			}
		}
		if v := checkStructure(rt, snap, local, bs, rawOf, union, st); v != nil {
			v.key = "owner-" + v.key
			report(v)
			return
		}
		r.Count("concurrent_disjoint_checked")
	}
	if len(rt.Buckets) > 1 {
		r.Count("concurrent_unfolded")
	}
	r.Add("concurrent_callback_events", int64(len(events)))
}

// ---------------------------------------------------------------- main

func main() {
	r := vf.NewRun("C37", "exploration",
		"seeded histories of 50–2000 Update/Remove/NearestPeers/Find ops on a fresh kbucket.RouteTable (bucket sizes 1,2,3,8,20; local id zero/ones/random; peer ids drawn from a per-history pool of uniform, close (cpl 0..159) and deep (cpl 100..159) ids incl. id==local and the last-bit neighbour); the invariant is evaluated after every mutation; a history is non-trivial when the table unfolded at least once; distinct by hash of (bucketsize, local, ops); plus concurrent histories (4 writers, 2 readers) checked at quiescence under the race detector")
	rng := vf.NewRNG(vf.Seed())
	nSeq := vf.N(300, 6000)
	nConc := vf.N(20, 300)

	t0 := time.Now() // evidence only, never a verdict
	var mu sync.Mutex
	total := stats{}
	type found struct {
		h *history
		v *viol
	}
	first := map[string]found{}
	vf.Parallel(nSeq, 8, func(i int) {
		h := genHistory(rng.Sub(uint64(i)), i)
		st := stats{}
		v := runHistory(h, st)
		hs := fnv.New64a()
		hs.Write(h.local[:])
		for _, o := range h.Ops {
			hs.Write([]byte(o.Op))
			hs.Write(o.raw[:])
		}
		fp := ""
		if st["unfold"] > 0 {
			fp = fmt.Sprintf("bs%d/%s/%d/%x", h.BucketSize, h.Shape, len(h.Ops), hs.Sum64())
		}
		r.Eval(fp)
		mu.Lock()
		defer mu.Unlock()
		for k, n := range st {
			if k == "final_size" || k == "final_buckets" {
				continue
			}
			total[k] += n
		}
		if i < 3 {
			r.Sample(map[string]interface{}{"local": h.Local, "bucketsize": h.BucketSize, "shape": h.Shape, "n_ops": len(h.Ops), "first_ops": h.Ops[:8],
				"final_size": st["final_size"], "final_buckets": st["final_buckets"]})
		}
		if v != nil {
			if _, ok := first[v.key]; !ok {
				first[v.key] = found{h, v}
			}
			total["violating_histories"]++
		}
	})
	for k, n := range total {
		r.Add(k, n)
	}
	keys := make([]string, 0, len(first))
	for k := range first {
		keys = append(keys, k)
	}
	sort.Strings(keys)
	for _, k := range keys {
		f := first[k]
		mh, mv := minimise(f.h, f.v)
		r.Violation(mv.key+":bs="+fmt.Sprint(mh.BucketSize), mv.what, map[string]interface{}{
			"history": mh, "failed_after_op_index": mv.at, "original_ops": len(f.h.Ops), "minimised_ops": len(mh.Ops)})
	}

	r.Extra("wall_sequential_s", time.Since(t0).Seconds())
	// concurrent variant: one table at a time (each already uses 6 goroutines)
	vf.Parallel(nConc, 2, func(i int) { runConcurrent(r, rng.Sub(uint64(1_000_000+i)), i) })

	// race detector reports (kbucket frames => violation)
	racelog.Apply(r, "p2pserver/dht/kbucket/")
	if !racelog.Enabled {
		r.Inconclusive("binary built without -race: the race-detector clause of the concurrent variant was not exercised")
	}

	for _, c := range []string{"update_new_added", "update_existing", "update_rejected_after_unfold", "update_rejected_dedicated_full",
		"added_after_unfold", "unfold", "unfold_multi", "remove_present", "remove_absent", "id_eq_local_added", "cpl159_added",
		"last_bucket_holds_higher_cpl", "nearest_checked", "nearest_truncated", "nearest_spans_buckets", "find_hit", "find_miss",
		"buckets_ge_100", "concurrent_histories", "concurrent_disjoint_checked", "concurrent_unfolded"} {
		r.Require(c, 1)
	}
	r.Assume("NearestPeers is only required to return <=k distinct members sorted by XOR distance (the statement does not demand the k globally nearest, nor min(k,size) results; the latter is counted as info_nearest_fewer_than_min_k_size)")
	r.Assume("k >= 0 in NearestPeers; bucket size >= 1")
	r.Assume("the model follows the API: a peer is a member after a nil-error Update until Remove; the address of an already present peer is not compared")
	r.Finish()
}
