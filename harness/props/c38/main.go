// C38 — Wallet persists its accounts and only opens them with the current password.
//
// Model-based runtime monitor over the real account.ClientImpl: seeded histories of
// NewAccount / ImportAccount / DeleteAccount / SetDefaultAccount / SetLabel /
// ChangePassword / ChangeSigScheme on a wallet file; after every op the live client is
// compared with the model (no decryption; a label no account carries must resolve to
// nothing, in the live and in the reloaded client), after every k-th op and at the end a FRESH
// client is opened on the saved file and compared with the model and with the live
// client, every account (intermediate reloads: one seeded account) is decrypted with its
// current password (key must equal the model's key) and must refuse other passwords
// (former passwords of the account, passwords of other accounts, random ones).  Failed ops
// must leave the file unchanged.
//
// Fault injection on the save path (no hooks): WalletData.Save writes "<wallet>~" and renames
// it over "<wallet>" (or, when "<wallet>" does not exist yet, writes "<wallet>" directly).
// With seeded probability an op runs while that path is obstructed — a directory at
// "<wallet>~" (open fails), a symlink "<wallet>~" -> /dev/full (write fails with ENOSPC), or,
// before the first save, a directory at "<wallet>" (rename fails) — so its save returns an
// error.  An op that returned an error under the obstruction must leave the live wallet as
// it was (listing, labels, default, ciphertext; the touched account opens with its current
// password and not with the password of the failed change), and the same must hold for a
// fresh client opened on the file after the next successful save.
package main

import (
	"bytes"
	"encoding/hex"
	"fmt"
	"os"
	"path/filepath"
	"sort"
	"strings"
	"sync"

	"github.com/ontio/ontology-crypto/keypair"
	s "github.com/ontio/ontology-crypto/signature"
	"github.com/ontio/ontology/account"
	"github.com/ontio/ontology/core/signature"
	"verifharness/lib/vf"
)

// ---------------------------------------------------------------- model

type mAcc struct {
	Addr      string   `json:"address"`
	Label     string   `json:"label"`
	KeyType   string   `json:"key_type"`
	Curve     string   `json:"curve"`
	SigSch    string   `json:"sig_scheme"`
	PubKey    string   `json:"pubkey"`
	IsDefault bool     `json:"is_default"`
	Pwd       string   `json:"pwd_hex"`
	Former    []string `json:"former_pwds_hex"`
	priv      []byte   // keypair.SerializePrivateKey
	pub       keypair.PublicKey
}

type opRec struct {
	N      int    `json:"n"`
	Op     string `json:"op"`
	Args   string `json:"args"`
	Result string `json:"result"`
	Fault  string `json:"save_obstructed_by,omitempty"`
}

type viol struct {
	key, what string
}

type keySpec struct {
	name    string
	kt      keypair.KeyType
	curve   byte
	alg     string // as stored in the wallet
	curveNm string
	schemes []s.SignatureScheme // compatible schemes
}

var ecdsaSchemes = []s.SignatureScheme{s.SHA224withECDSA, s.SHA256withECDSA, s.SHA384withECDSA, s.SHA512withECDSA,
	s.SHA3_224withECDSA, s.SHA3_256withECDSA, s.SHA3_384withECDSA, s.SHA3_512withECDSA, s.RIPEMD160withECDSA}

var keySpecs = []keySpec{
	{"ecdsa-p256", keypair.PK_ECDSA, keypair.P256, "ECDSA", "P-256", ecdsaSchemes},
	{"ecdsa-p256", keypair.PK_ECDSA, keypair.P256, "ECDSA", "P-256", ecdsaSchemes},
	{"ecdsa-p224", keypair.PK_ECDSA, keypair.P224, "ECDSA", "P-224", ecdsaSchemes},
	{"ecdsa-p384", keypair.PK_ECDSA, keypair.P384, "ECDSA", "P-384", ecdsaSchemes},
	{"ecdsa-p521", keypair.PK_ECDSA, keypair.P521, "ECDSA", "P-521", ecdsaSchemes},
	{"sm2", keypair.PK_SM2, keypair.SM2P256V1, "SM2", "sm2p256v1", []s.SignatureScheme{s.SM3withSM2}},
	{"ed25519", keypair.PK_EDDSA, keypair.ED25519, "Ed25519", "", []s.SignatureScheme{s.SHA512withEDDSA}},
}

func compatible(alg string, sc s.SignatureScheme) bool {
	for _, k := range keySpecs {
		if k.alg == alg {
			for _, c := range k.schemes {
				if c == sc {
					return true
				}
			}
		}
	}
	return false
}

var allSchemes = append(append([]s.SignatureScheme{}, ecdsaSchemes...), s.SM3withSM2, s.SHA512withEDDSA)

// donors: accounts living in other wallets, imported through their metadata
type donor struct {
	meta *account.AccountMetadata
	pwd  []byte
	priv []byte
	pub  keypair.PublicKey
}

func genPwd(rng *vf.RNG) []byte {
	n := rng.Range(1, 12)
	b := make([]byte, n)
	for i := range b {
		switch rng.Intn(10) {
		case 0:
			b[i] = byte(rng.Intn(256)) // arbitrary byte
		default:
			b[i] = byte(33 + rng.Intn(94))
		}
	}
	return b
}

// small alphabet => duplicates, "x_1" collisions with the import rename rule, and the empty label
var labelBase = []string{"", "a", "b", "c", "a_1", "b_1", "main", "main_1", "账户", "a b"}

func genLabel(rng *vf.RNG) string {
	return labelBase[rng.Intn(len(labelBase))]
}

type hist struct {
	idx    int
	dir    string
	path   string
	rng    *vf.RNG
	r      *vf.Run
	cli    *account.ClientImpl
	model  []*mAcc
	log    []opRec
	pwds   map[string]bool // every password ever used in this history (hex)
	donors []*donor
	full   bool // thorough: complete wrong-password set
	count  func(string)

	// save-path fault injection
	frng    *vf.RNG // separate stream: the op stream of a history does not depend on the fault decisions
	fault   string  // obstruction in force during the current op ("" = none)
	snap    *snap   // live wallet right before the obstructed op
	pending []pend  // ops that failed under an obstruction since the last successful save
}

func (h *hist) find(addr string) int {
	for i, a := range h.model {
		if a.Addr == addr {
			return i
		}
	}
	return -1
}

func (h *hist) labelTaken(l string) bool {
	if l == "" {
		return false
	}
	for _, a := range h.model {
		if a.Label == l {
			return true
		}
	}
	return false
}

func metaEq(a, b *account.AccountMetadata) bool {
	if a == nil || b == nil {
		return a == b
	}
	return a.IsDefault == b.IsDefault && a.Label == b.Label && a.KeyType == b.KeyType && a.Curve == b.Curve &&
		a.Address == b.Address && a.PubKey == b.PubKey && a.SigSch == b.SigSch && bytes.Equal(a.Salt, b.Salt) &&
		bytes.Equal(a.Key, b.Key) && a.EncAlg == b.EncAlg && a.Hash == b.Hash
}

// compareMeta checks a client's listing against the model (no decryption).
func (h *hist) compareMeta(c *account.ClientImpl, who string) *viol {
	if n := c.GetAccountNum(); n != len(h.model) {
		return &viol{who + ":account-count", fmt.Sprintf("%s client lists %d accounts, model has %d", who, n, len(h.model))}
	}
	if c.GetAccountMetadataByIndex(len(h.model)+1) != nil {
		return &viol{who + ":extra-account", fmt.Sprintf("%s client has an account at index %d beyond the model", who, len(h.model)+1)}
	}
	ndef := 0
	for i, a := range h.model {
		m := c.GetAccountMetadataByIndex(i + 1)
		if m == nil {
			return &viol{who + ":missing-account", fmt.Sprintf("%s client has no account at index %d", who, i+1)}
		}
		switch {
		case m.Address != a.Addr:
			return &viol{who + ":order", fmt.Sprintf("index %d holds %s, model %s", i+1, m.Address, a.Addr)}
		case m.Label != a.Label:
			return &viol{who + ":label", fmt.Sprintf("account %s label %q, model %q", a.Addr, m.Label, a.Label)}
		case m.KeyType != a.KeyType || m.Curve != a.Curve:
			return &viol{who + ":key-type", fmt.Sprintf("account %s key type %s/%s, model %s/%s", a.Addr, m.KeyType, m.Curve, a.KeyType, a.Curve)}
		case m.SigSch != a.SigSch:
			return &viol{who + ":sig-scheme", fmt.Sprintf("account %s scheme %s, model %s", a.Addr, m.SigSch, a.SigSch)}
		case m.PubKey != a.PubKey:
			return &viol{who + ":pubkey", fmt.Sprintf("account %s public key differs from the model", a.Addr)}
		case m.IsDefault != a.IsDefault:
			return &viol{who + ":default-flag", fmt.Sprintf("account %s isDefault=%v, model %v", a.Addr, m.IsDefault, a.IsDefault)}
		}
		if a.IsDefault {
			ndef++
		}
		// lookups agree with the listing
		if ma := c.GetAccountMetadataByAddress(a.Addr); !metaEq(ma, m) {
			return &viol{who + ":lookup-by-address", fmt.Sprintf("GetAccountMetadataByAddress(%s) disagrees with index %d", a.Addr, i+1)}
		}
		if a.Label != "" {
			ml := c.GetAccountMetadataByLabel(a.Label)
			if ml == nil || ml.Address != a.Addr {
				return &viol{who + ":lookup-by-label", fmt.Sprintf("GetAccountMetadataByLabel(%q) does not return account %s", a.Label, a.Addr)}
			}
		}
	}
	// a label that no account carries resolves to nothing (the generator's labels and their import renames)
	for _, l := range labelBase {
		for _, x := range []string{l, l + "_1"} {
			if x == "" || h.labelTaken(x) {
				continue
			}
			if m := c.GetAccountMetadataByLabel(x); m != nil {
				return &viol{who + ":lookup-by-label-stale", fmt.Sprintf("GetAccountMetadataByLabel(%q) returns account %s (label %q) although no account of the wallet carries that label", x, m.Address, m.Label)}
			}
		}
	}
	d := c.GetDefaultAccountMetadata()
	if len(h.model) > 0 {
		if d != nil && h.find(d.Address) < 0 {
			return &viol{who + ":default-dangling", fmt.Sprintf("the default account %s is not among the wallet's accounts", d.Address)}
		}
		if ndef != 1 {
			return &viol{who + ":default-count", fmt.Sprintf("%d accounts carry the default flag in a non-empty wallet", ndef)}
		}
		if d == nil || !d.IsDefault || !h.model[h.find(d.Address)].IsDefault {
			return &viol{who + ":default-dangling", "GetDefaultAccountMetadata does not return the account flagged as default"}
		}
	} else if d != nil {
		return &viol{who + ":default-dangling", "empty wallet reports a default account"}
	}
	return nil
}

// open decrypts account i of client c with pwd using one of the four getters.
func (h *hist) open(c *account.ClientImpl, i int, pwd []byte, via int) (*account.Account, error, string) {
	a := h.model[i]
	switch {
	case via%4 == 1 && a.Label != "":
		acc, err := c.GetAccountByLabel(a.Label, pwd)
		return acc, err, "by-label"
	case via%4 == 2:
		acc, err := c.GetAccountByIndex(i+1, pwd)
		return acc, err, "by-index"
	case via%4 == 3 && a.IsDefault:
		acc, err := c.GetDefaultAccount(pwd)
		return acc, err, "default"
	}
	acc, err := c.GetAccountByAddress(a.Addr, pwd)
	return acc, err, "by-address"
}

// reloadCheck opens a fresh client on the saved file and evaluates the property.
func (h *hist) reloadCheck(final bool) (*account.ClientImpl, *viol) {
	fresh, err := account.NewClientImpl(h.path)
	if err != nil {
		if len(h.model) == 0 && !fileExists(h.path) {
			return nil, nil
		}
		return nil, &viol{"reload:open-failed", fmt.Sprintf("account.Open on the saved wallet failed: %v", err)}
	}
	h.count("reload_checked")
	if v := h.compareMeta(fresh, "reloaded"); v != nil {
		return fresh, v
	}
	// live client and reloaded client list the same metadata (incl. ciphertext and salt)
	for i := range h.model {
		if !metaEq(fresh.GetAccountMetadataByIndex(i+1), h.cli.GetAccountMetadataByIndex(i+1)) {
			return fresh, &viol{"reloaded:differs-from-live", fmt.Sprintf("account at index %d: metadata of the reloaded client differs from the live client", i+1)}
		}
	}
	only := -1
	if !final { // intermediate reloads decrypt one (seeded) account only: scrypt is the whole cost of this monitor
		only = h.rng.Intn(len(h.model))
	}
	for i, a := range h.model {
		if only >= 0 && i != only {
			continue
		}
		pwd, _ := hex.DecodeString(a.Pwd)
		acc, err, via := h.open(fresh, i, pwd, h.rng.Intn(4))
		if err != nil || acc == nil {
			return fresh, &viol{"decrypt:current-password-rejected:" + via, fmt.Sprintf("account %s does not open with its current password: %v", a.Addr, err)}
		}
		h.count("decrypt_current_ok")
		h.count("decrypt_via_" + via)
		if !bytes.Equal(keypair.SerializePrivateKey(acc.PrivateKey), a.priv) {
			return fresh, &viol{"decrypt:different-key", fmt.Sprintf("account %s decrypts to a different private key", a.Addr)}
		}
		if !bytes.Equal(keypair.SerializePublicKey(acc.PublicKey), keypair.SerializePublicKey(a.pub)) || acc.Address.ToBase58() != a.Addr {
			return fresh, &viol{"decrypt:different-pubkey", fmt.Sprintf("account %s decrypts to a different public key / address", a.Addr)}
		}
		if acc.SigScheme.Name() != a.SigSch {
			return fresh, &viol{"decrypt:sig-scheme", fmt.Sprintf("account %s opened with scheme %s, model %s", a.Addr, acc.SigScheme.Name(), a.SigSch)}
		}
		// sign/verify probe against the model's public key
		msg := []byte("verif-c38-probe")
		if sig, err := signature.Sign(acc, msg); err != nil {
			h.count("info_probe_sign_error")
		} else if err := signature.Verify(a.pub, msg, sig); err != nil {
			return fresh, &viol{"decrypt:probe-verify-failed", fmt.Sprintf("signature made with the decrypted key of %s does not verify under the model's public key (%s): %v", a.Addr, a.SigSch, err)}
		} else {
			h.count("probe_sign_verify_ok")
		}
		// wrong passwords
		wrong := map[string]string{}
		for _, f := range a.Former {
			if f != a.Pwd {
				wrong[f] = "former"
			}
		}
		others := make([]string, 0, len(h.pwds))
		for p := range h.pwds {
			if p != a.Pwd && wrong[p] == "" {
				others = append(others, p)
			}
		}
		sort.Strings(others)
		nOther, nRand := 0, 0
		switch {
		case h.full && final:
			nOther, nRand = len(others), 3
		case final:
			nOther, nRand = 1, 1
		default:
			nOther = 1
		}
		for k := 0; k < nOther && len(others) > 0; k++ {
			wrong[others[(i+k)%len(others)]] = "other"
		}
		for k := 0; k < nRand; k++ {
			p := hex.EncodeToString(append(genPwd(h.rng), 'R'))
			if p != a.Pwd {
				wrong[p] = "random"
			}
		}
		wk := make([]string, 0, len(wrong))
		for p := range wrong {
			wk = append(wk, p)
		}
		sort.Strings(wk)
		for n, p := range wk {
			pw, _ := hex.DecodeString(p)
			acc, err, via := h.open(fresh, i, pw, n)
			if err == nil && acc != nil {
				return fresh, &viol{"decrypt:wrong-password-accepted:" + wrong[p], fmt.Sprintf("account %s (current password %s) opens with %s password %s via %s", a.Addr, a.Pwd, wrong[p], p, via)}
			}
			h.count("decrypt_" + wrong[p] + "_password_rejected")
		}
	}
	return fresh, nil
}

func fileExists(p string) bool { _, err := os.Stat(p); return err == nil }

func readFile(p string) []byte { b, _ := os.ReadFile(p); return b }

// ---------------------------------------------------------------- save-path fault injection

const (
	faultTmpDir  = "tmp-is-directory"   // "<wallet>~" is a directory: WriteFile cannot open it
	faultTmpFull = "tmp-on-full-device" // "<wallet>~" is a symlink to /dev/full: the write fails with ENOSPC
	faultPathDir = "path-is-directory"  // no wallet file yet and "<wallet>" is a directory: the rename fails
)

var devFullOK bool // set by probeObstructions

// obstructAt makes every WalletData.Save(path) fail until clearObstruction; returns the mode ("" = could not obstruct).
func obstructAt(path string, preferFull bool) string {
	tmp := path + "~"
	if !fileExists(path) {
		if os.Mkdir(path, 0o755) != nil {
			return ""
		}
		return faultPathDir
	}
	if preferFull && devFullOK && os.Symlink("/dev/full", tmp) == nil {
		return faultTmpFull
	}
	if os.Mkdir(tmp, 0o755) != nil {
		return ""
	}
	return faultTmpDir
}

func clearObstruction(path, mode string) {
	switch mode {
	case faultPathDir:
		os.Remove(path)
		os.Remove(path + "~") // Save wrote the temporary file before its rename failed
	case faultTmpDir, faultTmpFull:
		os.Remove(path + "~")
	}
}

// probeObstructions verifies on a scratch wallet that each obstruction really makes
// WalletData.Save return an error (leaving the file untouched) and that saving works again
// once it is removed.  Returns "" or the reason why saves cannot be made to fail.
func probeObstructions(dir string) string {
	os.MkdirAll(dir, 0o755)
	defer os.RemoveAll(dir)
	try := func(name string, exists, full bool) string {
		p := filepath.Join(dir, name)
		w := account.NewWalletData()
		if exists {
			if err := w.Save(p); err != nil {
				return "plain save failed: " + err.Error()
			}
		}
		before := readFile(p)
		w.Extra = "x"
		mode := obstructAt(p, full)
		if mode == "" {
			return "obstruction could not be created"
		}
		err := w.Save(p)
		clearObstruction(p, mode)
		if err == nil {
			return mode + ": Save succeeded under the obstruction"
		}
		if exists && !bytes.Equal(before, readFile(p)) {
			return mode + ": the failed Save changed the wallet file"
		}
		if fileExists(p + "~") {
			return mode + ": obstruction not removed"
		}
		if err := w.Save(p); err != nil {
			return mode + ": Save still fails after the obstruction is removed: " + err.Error()
		}
		return ""
	}
	if why := try("dir.dat", true, false); why != "" {
		return why
	}
	if why := try("new.dat", false, false); why != "" {
		return why
	}
	devFullOK = true
	if why := try("full.dat", true, true); why != "" || !fileExists("/dev/full") {
		devFullOK = false // optional mode: fall back to the directory obstruction
	}
	return ""
}

// snap is what the live wallet shows without decryption.
type snap struct {
	num        int
	metas      []*account.AccountMetadata
	def        string
	scrypt     keypair.ScryptParam
	probeLabel string // label the obstructed op tries to introduce …
	probeAddr  string // … and the account it resolves to ("" = none)
}

func (h *hist) snapshot(probeLabel string) *snap {
	c := h.cli
	sn := &snap{num: c.GetAccountNum(), probeLabel: probeLabel}
	for i := 1; i <= 64; i++ {
		m := c.GetAccountMetadataByIndex(i)
		if m == nil {
			break
		}
		m.Key = append([]byte{}, m.Key...) // the metadata aliases the live record's slices
		m.Salt = append([]byte{}, m.Salt...)
		sn.metas = append(sn.metas, m)
	}
	if d := c.GetDefaultAccountMetadata(); d != nil {
		sn.def = d.Address
	}
	if p := c.GetWalletData().Scrypt; p != nil {
		sn.scrypt = *p
	}
	if m := c.GetAccountMetadataByLabel(probeLabel); m != nil {
		sn.probeAddr = m.Address
	}
	return sn
}

// diffSnap names the first difference outside the key ciphertext and lists the indices whose
// ciphertext differs (whether that matters is decided by decryption).
func diffSnap(a, b *snap) (what string, cipher []int) {
	switch {
	case a.num != b.num:
		return "account-count", nil
	case len(a.metas) != len(b.metas):
		return "account-list", nil
	case a.def != b.def:
		return "default-account", nil
	case a.scrypt != b.scrypt:
		return "scrypt-parameters", nil
	case a.probeAddr != b.probeAddr:
		return "label-index", nil
	}
	for i, x := range a.metas {
		y := b.metas[i]
		switch {
		case x.Address != y.Address:
			return "order", nil
		case x.Label != y.Label:
			return "label", nil
		case x.IsDefault != y.IsDefault:
			return "default-flag", nil
		case x.SigSch != y.SigSch:
			return "sig-scheme", nil
		case x.KeyType != y.KeyType || x.Curve != y.Curve:
			return "key-type", nil
		case x.PubKey != y.PubKey:
			return "pubkey", nil
		}
		if !bytes.Equal(x.Key, y.Key) || !bytes.Equal(x.Salt, y.Salt) || x.EncAlg != y.EncAlg || x.Hash != y.Hash {
			cipher = append(cipher, i)
		}
	}
	return "", cipher
}

// pend is an op that returned an error while saves were obstructed; judged again on a fresh
// client after the next successful save.
type pend struct {
	op     string
	addr   string // touched account ("" for NewAccount)
	newPwd []byte // ChangePassword: the password of the failed change
}

// guarded runs one wallet call, with probability pct% while the wallet's save path is obstructed.
func (h *hist) guarded(pct int, probeLabel string, f func() error) error {
	h.fault = ""
	if h.frng.Chance(pct) {
		h.snap = h.snapshot(probeLabel)
		h.fault = obstructAt(h.path, h.frng.Bool())
		if h.fault == "" {
			h.count("info_obstruction_not_created")
		}
	}
	defer clearObstruction(h.path, h.fault)
	return f()
}

// opensOnlyWithCurrent: account i of client c opens with the model's current password (to the
// model's key) and, when given, refuses newPwd.  Returns the failed clause or "".
func (h *hist) opensOnlyWithCurrent(c *account.ClientImpl, i int, newPwd []byte, tag string) (string, string) {
	a := h.model[i]
	pwd, _ := hex.DecodeString(a.Pwd)
	acc, err := c.GetAccountByAddress(a.Addr, pwd)
	if err != nil || acc == nil {
		return "old-password-rejected", fmt.Sprintf("account %s no longer opens with its current password %s: %v", a.Addr, a.Pwd, err)
	}
	if !bytes.Equal(keypair.SerializePrivateKey(acc.PrivateKey), a.priv) {
		return "different-key", fmt.Sprintf("account %s decrypts to a different private key", a.Addr)
	}
	h.count("failed_save_" + tag + "_current_password_opens")
	if newPwd != nil && hex.EncodeToString(newPwd) != a.Pwd {
		if acc, err := c.GetAccountByAddress(a.Addr, newPwd); err == nil && acc != nil {
			return "new-password-accepted", fmt.Sprintf("account %s (current password %s) opens with %x, the password of the change that was reported as failed", a.Addr, a.Pwd, newPwd)
		}
		h.count("failed_save_" + tag + "_new_password_rejected")
	}
	return "", ""
}

// afterFault judges an op that ran under an obstructed save.
func (h *hist) afterFault(op, short string, opErr error, target string, newPwd []byte) *viol {
	h.count("faulted_op_" + short)
	h.count("fault_mode_" + h.fault)
	what, cipher := diffSnap(h.snap, h.snapshot(h.snap.probeLabel))
	if opErr == nil {
		// nothing can have been saved: the op may only report success if it had nothing to save
		if what != "" || len(cipher) > 0 {
			if what == "" {
				what = "ciphertext"
			}
			return &viol{"failed-save:unsaved-change-reported-ok:" + op + ":" + what, fmt.Sprintf("%s returned nil while no save could succeed (%s), yet the live wallet changed (%s): the file cannot hold what the live wallet holds", op, h.fault, what)}
		}
		h.count("faulted_op_" + short + "_nothing_to_save")
		return nil
	}
	h.count("faulted_op_" + short + "_error")
	if what != "" {
		return &viol{"failed-save:live-wallet-changed:" + op + ":" + what, fmt.Sprintf("%s returned an error (%v) while saves were obstructed (%s) but the live wallet differs from before the call: %s", op, opErr, h.fault, what)}
	}
	changed := map[int]bool{}
	for _, i := range cipher {
		changed[i] = true
	}
	for i, a := range h.model {
		touched := op == "ChangePassword" && a.Addr == target
		if !(h.full || changed[i] || touched) {
			continue
		}
		var np []byte
		if touched {
			np = newPwd
		}
		if w, msg := h.opensOnlyWithCurrent(h.cli, i, np, "live"); w != "" {
			return &viol{"failed-save:live-wallet-changed:" + op + ":" + w, fmt.Sprintf("%s returned an error (%v) while saves were obstructed (%s) but in the live wallet %s", op, opErr, h.fault, msg)}
		}
		if changed[i] {
			h.count("info_failed_save_ciphertext_replaced_same_password")
		}
	}
	h.count("failed_save_live_unchanged")
	h.pending = append(h.pending, pend{op: op, addr: target, newPwd: newPwd})
	return nil
}

// pendingCheck: a save has succeeded since the failed ones; a fresh client on the file must
// show the model (which the failed ops did not change).
func (h *hist) pendingCheck() *viol {
	p := h.pending
	h.pending = nil
	key := "failed-save:reloaded-wallet-changed:" + p[0].op + ":"
	fresh, err := account.NewClientImpl(h.path)
	if err != nil {
		return &viol{key + "open-failed", fmt.Sprintf("the wallet saved after a failed %s does not open: %v", p[0].op, err)}
	}
	h.count("failed_save_reload_checked")
	if v := h.compareMeta(fresh, "reloaded"); v != nil {
		return &viol{key + strings.TrimPrefix(v.key, "reloaded:"), fmt.Sprintf("first successful save after %s failed under an obstructed save: %s", p[0].op, v.what)}
	}
	done := map[string]bool{}
	for _, e := range p {
		i := h.find(e.addr)
		if i < 0 {
			continue
		}
		key := "failed-save:reloaded-wallet-changed:" + e.op + ":"
		if !metaEq(fresh.GetAccountMetadataByIndex(i+1), h.cli.GetAccountMetadataByIndex(i+1)) {
			return &viol{key + "differs-from-live", fmt.Sprintf("account %s touched by the failed %s: metadata of the reloaded client differs from the live client", e.addr, e.op)}
		}
		id := e.addr + "/" + hex.EncodeToString(e.newPwd)
		if !(h.full || e.op == "ChangePassword") || done[id] {
			continue
		}
		done[id] = true
		if w, msg := h.opensOnlyWithCurrent(fresh, i, e.newPwd, "reloaded"); w != "" {
			return &viol{key + w, fmt.Sprintf("%s returned an error while saves were obstructed; after the next successful save and a reload %s", e.op, msg)}
		}
	}
	return nil
}

// step performs one seeded op; returns a violation or nil.
func (h *hist) step(n int) *viol {
	rng := h.rng
	before := readFile(h.path)
	rec := opRec{N: n}
	var opErr error
	mustFailUnchanged := false
	h.fault = ""
	short, target := "", "" // counter name of the op kind; address of the account the op touches
	var newPwd []byte       // ChangePassword: the password the op tries to set
	pickAcc := func() int { return rng.Intn(len(h.model)) }
	kind := rng.Intn(100)
	if len(h.model) == 0 {
		kind = kind % 30 // only creation/import make sense
	}
	if len(h.model) >= 4 && kind < 30 {
		kind = 30 + kind // keep "a few accounts"
	}
	switch {
	case kind < 20: // ---------------------------------------------- NewAccount
		ks := keySpecs[rng.Intn(len(keySpecs))]
		label := genLabel(rng)
		pwd := genPwd(rng)
		sc := ks.schemes[rng.Intn(len(ks.schemes))]
		bad := rng.Chance(12)
		if bad {
			sc = allSchemes[rng.Intn(len(allSchemes))]
		}
		rec.Op = "NewAccount"
		rec.Args = fmt.Sprintf("label=%q key=%s scheme=%s pwd=%x", label, ks.name, sc.Name(), pwd)
		h.pwds[hex.EncodeToString(pwd)] = true
		short = "new"
		var acc *account.Account
		err := h.guarded(18, label, func() (e error) { acc, e = h.cli.NewAccount(label, ks.kt, ks.curve, sc, pwd); return })
		opErr = err
		dup := h.labelTaken(label)
		okScheme := compatible(ks.alg, sc)
		switch {
		case err == nil:
			if dup {
				return &viol{"newaccount:duplicate-label-accepted", fmt.Sprintf("NewAccount with label %q already used by another account succeeded", label)}
			}
			if !okScheme {
				h.count("info_newaccount_incompatible_scheme_accepted")
			}
			h.count("op_new_ok")
			h.count("key_" + ks.name)
			h.model = append(h.model, &mAcc{Addr: acc.Address.ToBase58(), Label: label, KeyType: ks.alg, Curve: ks.curveNm, SigSch: sc.Name(),
				PubKey: hex.EncodeToString(keypair.SerializePublicKey(acc.PublicKey)), IsDefault: len(h.model) == 0,
				Pwd: hex.EncodeToString(pwd), priv: keypair.SerializePrivateKey(acc.PrivateKey), pub: acc.PublicKey})
		case dup:
			h.count("op_new_duplicate_label_rejected")
		case !okScheme:
			h.count("op_new_bad_scheme_rejected")
		case h.fault != "":
			h.count("faulted_op_new_save_failed")
		default:
			return &viol{"newaccount:rejected", fmt.Sprintf("NewAccount(%s) failed: %v", rec.Args, err)}
		}
	case kind < 30: // ---------------------------------------------- ImportAccount
		var cands []*donor
		for _, d := range h.donors {
			if h.find(d.meta.Address) < 0 {
				cands = append(cands, d)
			}
		}
		if len(cands) == 0 {
			return nil
		}
		d := cands[rng.Intn(len(cands))]
		meta := *d.meta
		meta.Label = genLabel(rng)
		meta.IsDefault = rng.Bool() // must be ignored by the import
		rec.Op = "ImportAccount"
		rec.Args = fmt.Sprintf("addr=%s label=%q pwd=%x", meta.Address, meta.Label, d.pwd)
		h.pwds[hex.EncodeToString(d.pwd)] = true
		want := meta.Label
		if h.labelTaken(want) {
			want += "_1"
		}
		short, target = "import", meta.Address
		err := h.guarded(35, want, func() error { return h.cli.ImportAccount(&meta) })
		opErr = err
		switch {
		case err == nil:
			if h.labelTaken(want) {
				return &viol{"import:duplicate-label-accepted", fmt.Sprintf("import produced label %q which another account already carries", want)}
			}
			h.count("op_import_ok")
			if want != meta.Label {
				h.count("op_import_renamed")
			}
			h.model = append(h.model, &mAcc{Addr: meta.Address, Label: want, KeyType: meta.KeyType, Curve: meta.Curve, SigSch: meta.SigSch,
				PubKey: meta.PubKey, IsDefault: len(h.model) == 0, Pwd: hex.EncodeToString(d.pwd), priv: d.priv, pub: d.pub})
		case h.labelTaken(want):
			h.count("op_import_label_and_rename_taken_rejected")
		case h.fault != "":
			h.count("faulted_op_import_save_failed")
		default:
			return &viol{"import:rejected", fmt.Sprintf("ImportAccount(%s) failed: %v", rec.Args, err)}
		}
	case kind < 42: // ---------------------------------------------- DeleteAccount
		i := pickAcc()
		a := h.model[i]
		pwd, _ := hex.DecodeString(a.Pwd)
		wrongPwd := rng.Chance(30)
		if wrongPwd {
			pwd = append(genPwd(rng), 'W')
			h.pwds[hex.EncodeToString(pwd)] = true
		}
		rec.Op = "DeleteAccount"
		rec.Args = fmt.Sprintf("addr=%s pwd=%x (wrong=%v, default=%v)", a.Addr, pwd, wrongPwd, a.IsDefault)
		short, target = "delete", a.Addr
		var acc *account.Account
		pct := 8 // the fault decisions concentrate on calls that get as far as the save
		if !wrongPwd && !a.IsDefault {
			pct = 50
		}
		err := h.guarded(pct, "", func() (e error) { acc, e = h.cli.DeleteAccount(a.Addr, pwd); return })
		opErr = err
		switch {
		case err == nil && acc != nil:
			if wrongPwd {
				return &viol{"delete:wrong-password-accepted", fmt.Sprintf("DeleteAccount(%s) opened the key with a password that is not the current one", a.Addr)}
			}
			if a.IsDefault {
				h.count("info_delete_default_accepted")
			}
			h.count("op_delete_ok")
			h.model = append(h.model[:i:i], h.model[i+1:]...)
			if a.IsDefault && len(h.model) > 0 { // deleting the default must not leave the wallet without a default: checked by compareMeta
				h.count("delete_default")
			}
		case err == nil && acc == nil:
			return &viol{"delete:not-found", fmt.Sprintf("DeleteAccount(%s) reports the account does not exist but the model holds it", a.Addr)}
		case a.IsDefault:
			h.count("op_delete_default_rejected")
		case wrongPwd:
			h.count("op_delete_wrong_pwd_rejected")
		case h.fault != "":
			h.count("faulted_op_delete_save_failed")
		default:
			return &viol{"delete:current-password-rejected", fmt.Sprintf("DeleteAccount(%s) with the current password failed: %v", a.Addr, err)}
		}
	case kind < 54: // ---------------------------------------------- SetDefaultAccount
		rec.Op = "SetDefaultAccount"
		short = "setdefault"
		if rng.Chance(15) {
			addr := "AUnknownAddressxxxxxxxxxxxxxxxxxxx"
			rec.Args = "addr=" + addr
			opErr = h.cli.SetDefaultAccount(addr)
			if opErr == nil {
				return &viol{"setdefault:unknown-accepted", "SetDefaultAccount of an address not in the wallet succeeded"}
			}
			h.count("op_setdefault_unknown_rejected")
			break
		}
		i := pickAcc()
		a := h.model[i]
		rec.Args = "addr=" + a.Addr
		target = a.Addr
		pct := 8
		if !a.IsDefault {
			pct = 40
		}
		opErr = h.guarded(pct, "", func() error { return h.cli.SetDefaultAccount(a.Addr) })
		if opErr != nil && h.fault != "" && !a.IsDefault {
			h.count("faulted_op_setdefault_save_failed")
			break
		}
		if opErr != nil {
			return &viol{"setdefault:rejected", fmt.Sprintf("SetDefaultAccount(%s) failed: %v", a.Addr, opErr)}
		}
		if a.IsDefault {
			h.count("op_setdefault_same")
		} else {
			h.count("op_setdefault_ok")
		}
		for _, x := range h.model {
			x.IsDefault = false
		}
		a.IsDefault = true
	case kind < 68: // ---------------------------------------------- SetLabel
		i := pickAcc()
		a := h.model[i]
		label := genLabel(rng)
		if rng.Chance(25) && len(h.model) > 1 { // aim at a label in use
			label = h.model[(i+1)%len(h.model)].Label
		}
		rec.Op = "SetLabel"
		rec.Args = fmt.Sprintf("addr=%s label=%q", a.Addr, label)
		takenByOther := false
		for j, x := range h.model {
			if j != i && label != "" && x.Label == label {
				takenByOther = true
			}
		}
		short, target = "setlabel", a.Addr
		pct := 8
		if !takenByOther && label != a.Label {
			pct = 22
		}
		opErr = h.guarded(pct, label, func() error { return h.cli.SetLabel(a.Addr, label) })
		switch {
		case opErr == nil:
			if takenByOther {
				return &viol{"setlabel:duplicate-accepted", fmt.Sprintf("SetLabel(%s,%q) succeeded although another account carries that label", a.Addr, label)}
			}
			if label == a.Label {
				h.count("op_setlabel_same")
			} else {
				h.count("op_setlabel_ok")
			}
			if label == "" {
				h.count("op_setlabel_empty")
			}
			a.Label = label
		case takenByOther:
			h.count("op_setlabel_duplicate_rejected")
		case label == a.Label:
			h.count("op_setlabel_same_rejected")
		case h.fault != "" && strings.HasPrefix(opErr.Error(), "save error"):
			h.count("faulted_op_setlabel_save_failed")
		case label == "":
			h.count("info_setlabel_empty_rejected") // the live client remembers one empty label as "in use"; no state change, so not a violation of the statement
		default:
			return &viol{"setlabel:rejected", fmt.Sprintf("SetLabel(%s,%q) failed: %v", a.Addr, label, opErr)}
		}
	case kind < 88: // ---------------------------------------------- ChangePassword
		i := pickAcc()
		a := h.model[i]
		old, _ := hex.DecodeString(a.Pwd)
		wrongOld := rng.Chance(30)
		if wrongOld {
			switch rng.Intn(3) {
			case 0: // a former password of this account, if any
				if len(a.Former) > 0 {
					old, _ = hex.DecodeString(a.Former[rng.Intn(len(a.Former))])
				} else {
					old = append(genPwd(rng), 'W')
				}
			case 1: // another account's password
				o := h.model[(i+1)%len(h.model)]
				old, _ = hex.DecodeString(o.Pwd)
			default:
				old = append(genPwd(rng), 'W')
			}
			if hex.EncodeToString(old) == a.Pwd {
				wrongOld = false
			}
		}
		nw := genPwd(rng)
		if rng.Chance(10) {
			nw = append([]byte{}, old...) // same as old: documented no-op
		}
		if rng.Chance(10) && len(a.Former) > 0 {
			nw, _ = hex.DecodeString(a.Former[0]) // back to a former password
		}
		h.pwds[hex.EncodeToString(old)] = true
		h.pwds[hex.EncodeToString(nw)] = true
		rec.Op = "ChangePassword"
		rec.Args = fmt.Sprintf("addr=%s old=%x new=%x (wrongOld=%v)", a.Addr, old, nw, wrongOld)
		short, target, newPwd = "changepwd", a.Addr, nw
		pct := 8
		if !wrongOld && !bytes.Equal(old, nw) {
			pct = 25
		}
		opErr = h.guarded(pct, "", func() error { return h.cli.ChangePassword(a.Addr, old, nw) })
		same := bytes.Equal(old, nw)
		switch {
		case same:
			if opErr != nil {
				h.count("op_changepwd_same_rejected")
			} else {
				h.count("op_changepwd_same_noop")
			}
		case opErr == nil && wrongOld:
			return &viol{"changepwd:wrong-old-accepted", fmt.Sprintf("ChangePassword(%s) accepted an old password that is not the current one", a.Addr)}
		case opErr == nil:
			h.count("op_changepwd_ok")
			a.Former = append(a.Former, a.Pwd)
			a.Pwd = hex.EncodeToString(nw)
			// a former password that is now current again is no longer "wrong"
		case wrongOld:
			h.count("op_changepwd_wrong_old_rejected")
		case h.fault != "":
			h.count("faulted_op_changepwd_save_failed")
		default:
			return &viol{"changepwd:current-password-rejected", fmt.Sprintf("ChangePassword(%s) with the current password failed: %v", a.Addr, opErr)}
		}
	default: // ------------------------------------------------------- ChangeSigScheme
		i := pickAcc()
		a := h.model[i]
		sc := allSchemes[rng.Intn(len(allSchemes))]
		if rng.Chance(50) {
			for _, k := range keySpecs {
				if k.alg == a.KeyType {
					sc = k.schemes[rng.Intn(len(k.schemes))]
				}
			}
		}
		rec.Op = "ChangeSigScheme"
		rec.Args = fmt.Sprintf("addr=%s scheme=%s (key %s)", a.Addr, sc.Name(), a.KeyType)
		short, target = "changesig", a.Addr
		ok := compatible(a.KeyType, sc)
		pct := 8
		if ok {
			pct = 22
		}
		opErr = h.guarded(pct, "", func() error { return h.cli.ChangeSigScheme(a.Addr, sc) })
		switch {
		case opErr == nil:
			if !ok {
				return &viol{"changesig:incompatible-accepted", fmt.Sprintf("ChangeSigScheme(%s,%s) accepted a scheme incompatible with key type %s", a.Addr, sc.Name(), a.KeyType)}
			}
			h.count("op_changesig_ok")
			a.SigSch = sc.Name()
		case !ok:
			h.count("op_changesig_incompatible_rejected")
		case h.fault != "":
			h.count("faulted_op_changesig_save_failed")
		default:
			return &viol{"changesig:rejected", fmt.Sprintf("ChangeSigScheme(%s,%s) failed: %v", a.Addr, sc.Name(), opErr)}
		}
	}
	if rec.Op == "" {
		return nil
	}
	if opErr != nil {
		rec.Result = "error: " + opErr.Error()
		mustFailUnchanged = true
	} else {
		rec.Result = "ok"
	}
	rec.Fault = h.fault
	h.log = append(h.log, rec)
	after := readFile(h.path)
	if mustFailUnchanged {
		if !bytes.Equal(before, after) {
			return &viol{"failed-op:file-changed:" + rec.Op, fmt.Sprintf("%s returned an error but the wallet file changed", rec.Op)}
		}
		h.count("failed_op_file_unchanged")
	}
	// an op that ran while saves were obstructed: a reported failure leaves the live wallet as it was
	if h.fault != "" {
		if v := h.afterFault(rec.Op, short, opErr, target, newPwd); v != nil {
			return v
		}
	}
	// live client vs model after every op (no decryption involved)
	if v := h.compareMeta(h.cli, "live"); v != nil {
		return v
	}
	// the first successful save after failed ones: what the file now holds is still the model
	if len(h.pending) > 0 && opErr == nil && !bytes.Equal(before, after) {
		return h.pendingCheck()
	}
	return nil
}

// flushPending forces a save that changes nothing (ChangeSigScheme to the scheme the account
// already has) so that ops which failed under an obstruction are judged on the saved file too.
func (h *hist) flushPending(n int) *viol {
	if len(h.pending) == 0 {
		return nil
	}
	if len(h.model) == 0 {
		h.pending = nil
		h.count("info_failed_save_on_wallet_left_empty")
		return nil
	}
	a := h.model[h.frng.Intn(len(h.model))]
	sc, err := s.GetScheme(a.SigSch)
	if err != nil {
		h.pending = nil
		return nil
	}
	err = h.cli.ChangeSigScheme(a.Addr, sc)
	rec := opRec{N: n, Op: "ChangeSigScheme", Args: fmt.Sprintf("addr=%s scheme=%s (unchanged scheme: forces a save)", a.Addr, a.SigSch), Result: "ok"}
	if err != nil {
		rec.Result = "error: " + err.Error()
	}
	h.log = append(h.log, rec)
	if err != nil {
		return &viol{"changesig:rejected", fmt.Sprintf("ChangeSigScheme(%s,%s) to the account's own scheme failed: %v", a.Addr, a.SigSch, err)}
	}
	h.count("failed_save_flushed_at_end")
	return h.pendingCheck()
}

func runHistory(r *vf.Run, idx int, rng *vf.RNG, base string, donors []*donor, full bool, count func(string)) {
	h := &hist{idx: idx, rng: rng, frng: rng.Sub(0xFA17), r: r, donors: donors, full: full, pwds: map[string]bool{}, count: count}
	h.dir = filepath.Join(base, fmt.Sprintf("h%d", idx))
	os.MkdirAll(h.dir, 0o755)
	h.path = filepath.Join(h.dir, "wallet.dat")
	cli, err := account.NewClientImpl(h.path)
	if err != nil {
		r.Violation("open:new-wallet", err.Error(), nil)
		return
	}
	h.cli = cli
	nops := rng.Range(9, 15)
	k := rng.Range(4, 6)
	erng := rng.Sub(0xE0) // export decisions: a stream of their own, the op and fault streams do not depend on them
	exportAfter := -1
	if erng.Chance(15) {
		exportAfter = erng.Intn(nops)
	}
	var v *viol
	var where string
	for n := 0; n < nops && v == nil; n++ {
		if p := vf.Catch(func() { v = h.step(n) }); p != nil {
			v = &viol{"panic:op", fmt.Sprint(p)}
		}
		where = fmt.Sprintf("after op %d", n)
		if v == nil && n == exportAfter {
			// "account export" of the wallet to another file; the history goes on with the original client
			if p := vf.Catch(func() { v = h.exportFlow(erng, "", filepath.Join(h.dir, "export.dat"), n) }); p != nil {
				v = &viol{"panic:export", fmt.Sprint(p)}
			}
			where = fmt.Sprintf("export after op %d", n)
			count("history_with_export")
		}
		if v == nil && (n+1)%k == 0 && n+1 < nops && len(h.model) > 0 {
			var fresh *account.ClientImpl
			if p := vf.Catch(func() { fresh, v = h.reloadCheck(false) }); p != nil {
				v = &viol{"panic:reload", fmt.Sprint(p)}
			}
			where = fmt.Sprintf("reload after op %d", n)
			if v == nil && fresh != nil && rng.Bool() {
				h.cli = fresh // realistic: every CLI command works on a freshly opened wallet
				h.log = append(h.log, opRec{N: n, Op: "(continue on reloaded client)"})
				count("continue_on_reloaded_client")
			}
		}
	}
	if v == nil {
		if p := vf.Catch(func() { v = h.flushPending(nops) }); p != nil {
			v = &viol{"panic:op", fmt.Sprint(p)}
		}
		where = "forced save after the last op"
	}
	if v == nil {
		if p := vf.Catch(func() { _, v = h.reloadCheck(true) }); p != nil {
			v = &viol{"panic:reload", fmt.Sprint(p)}
		}
		where = "final reload"
	}
	// fingerprint: the op kinds with results and the final shape
	fp := ""
	if len(h.log) >= 4 {
		fp = fmt.Sprintf("h%d/", idx)
		for _, o := range h.log {
			c := 'k'
			if o.Result != "ok" {
				c = 'e'
			}
			if o.Fault != "" {
				c = 'f' // ran while saves were obstructed
			}
			if len(o.Op) > 8 {
				fp += o.Op[:1] + o.Op[6:8] + string(c)
			} else {
				fp += o.Op[:1] + string(c)
			}
		}
		fp += fmt.Sprintf("/%d", len(h.model))
	}
	r.Eval(fp)
	if idx < 3 {
		r.Sample(map[string]interface{}{"history": idx, "ops": h.log, "final_accounts": h.model})
	}
	if v != nil {
		r.Violation(v.key, v.what, map[string]interface{}{"history_index": idx, "where": where, "ops": h.log, "model": h.model,
			"note": "keys are generated by the wallet (crypto/rand); the verdict does not depend on key bytes, replay the op list on a fresh wallet"})
	}
}

func main() {
	r := vf.NewRun("C38", "exploration",
		"seeded histories of 9–15 wallet operations (NewAccount over 6 key types, ImportAccount of donor accounts from other wallets, DeleteAccount, SetDefaultAccount, SetLabel from a 10-label alphabet incl. empty and x_1 names, ChangePassword with right/former/other/random old password, ChangeSigScheme compatible/incompatible) on at most 4 accounts, through account.ClientImpl on a real wallet file with the wallet's own scrypt parameters; 8–50% of the calls (per op kind, higher for calls whose arguments get as far as the save; separate seeded stream) run while the save path is obstructed (directory at <wallet>~, symlink <wallet>~ -> /dev/full, directory at <wallet> before the first save) so that the save inside the op fails and its rollback runs; live-vs-model check after every op, live-vs-before check after every op under an obstructed save, reload check every 4–6 ops, after the first successful save that follows a failed one, and at the end; distinct by (history, op kinds with outcomes incl. obstructed, final account count); 15% of the histories export the wallet once (GetWalletData, Clone, ToLowSecurity / ToDefaultSecurity, Save to another file, as 'account export [--low-security]') at a seeded point and go on with the original client; plus directed sweeps on copies of a 4-account wallet (default account at each position): every mutating op at every account position with valid arguments under an obstructed save, in seeded order, with one export flow, a forced save after each op or at the end, reload at the end")
	rng := vf.NewRNG(vf.Seed())
	base := vf.Scratch("c38")
	defer os.RemoveAll(base)
	nHist := vf.N(40, 320)
	workers := 12
	if why := probeObstructions(filepath.Join(base, "probe")); why != "" {
		r.Inconclusive("wallet saves cannot be made to fail from the harness: " + why)
		os.RemoveAll(base)
		r.Finish()
	}
	if devFullOK {
		r.Count("obstruction_modes_verified_3")
	} else {
		r.Count("obstruction_modes_verified_2_no_dev_full")
	}

	var mu sync.Mutex
	counts := map[string]int64{}
	count := func(k string) { mu.Lock(); counts[k]++; mu.Unlock() }

	// donor accounts (each in its own wallet file), created once, imported by many histories
	nDon := 6
	donors := make([]*donor, nDon)
	vf.Parallel(nDon, workers, func(i int) {
		sub := rng.Sub(uint64(9_000_000 + i))
		p := filepath.Join(base, fmt.Sprintf("donor%d.dat", i))
		c, err := account.NewClientImpl(p)
		if err != nil {
			return
		}
		ks := keySpecs[i%len(keySpecs)]
		pwd := append(genPwd(sub), byte('0'+i))
		acc, err := c.NewAccount(fmt.Sprintf("donor%d", i), ks.kt, ks.curve, ks.schemes[sub.Intn(len(ks.schemes))], pwd)
		if err != nil {
			return
		}
		c2, err := account.NewClientImpl(p) // metadata as another wallet would export it
		if err != nil {
			return
		}
		donors[i] = &donor{meta: c2.GetAccountMetadataByIndex(1), pwd: pwd, priv: keypair.SerializePrivateKey(acc.PrivateKey), pub: acc.PublicKey}
	})
	for i, d := range donors {
		if d == nil || d.meta == nil {
			r.Inconclusive(fmt.Sprintf("donor wallet %d could not be created", i))
			r.Finish()
		}
	}

	// directed families (sweep.go): every mutating op at every account position under a failing save; export flows
	nSweep := vf.N(8, 32)
	sb, err := makeSweepBase(base, rng.Sub(8_000_000), donors)
	if err != nil {
		r.Inconclusive("base wallet of the failed-save sweeps could not be created: " + err.Error())
		os.RemoveAll(base)
		r.Finish()
	}
	vf.Parallel(nHist+nSweep, workers, func(i int) {
		if i < nSweep { // the sweeps are the longest cases: started first
			runSweep(r, i, rng.Sub(uint64(7_000_000+i)), base, sb, donors, false, count)
			return
		}
		runHistory(r, i-nSweep, rng.Sub(uint64(i-nSweep)), base, donors, vf.Thorough(), count)
	})
	for k, n := range counts {
		r.Add(k, n)
	}
	for _, c := range []string{"op_new_ok", "op_new_duplicate_label_rejected", "op_new_bad_scheme_rejected", "op_import_ok", "op_import_renamed",
		"op_delete_ok", "op_delete_default_rejected", "op_delete_wrong_pwd_rejected", "op_setdefault_ok", "op_setdefault_unknown_rejected",
		"op_setlabel_ok", "op_setlabel_duplicate_rejected", "op_changepwd_ok", "op_changepwd_wrong_old_rejected", "op_changepwd_same_noop",
		"op_changesig_ok", "op_changesig_incompatible_rejected", "reload_checked", "decrypt_current_ok", "decrypt_former_password_rejected",
		"decrypt_other_password_rejected", "decrypt_random_password_rejected", "decrypt_via_by-address", "decrypt_via_by-label",
		"decrypt_via_by-index", "decrypt_via_default", "probe_sign_verify_ok", "continue_on_reloaded_client", "failed_op_file_unchanged"} {
		r.Require(c, 1)
	}
	// save-path fault injection: every op kind ran into a failing save, and the checks behind it ran
	var saveFailed int64
	for _, k := range []string{"new", "import", "delete", "setdefault", "setlabel", "changepwd", "changesig"} {
		r.Require("faulted_op_"+k, 2)
		r.Require("faulted_op_"+k+"_error", 1)
		r.Require("faulted_op_"+k+"_save_failed", 1)
		saveFailed += counts["faulted_op_"+k+"_save_failed"]
	}
	r.Add("faulted_op_save_failed_total", saveFailed)
	r.Require("faulted_op_save_failed_total", int64(vf.N(25, 200)))
	for _, c := range []string{"fault_mode_" + faultTmpDir, "fault_mode_" + faultPathDir, "failed_save_live_unchanged", "failed_save_reload_checked",
		"failed_save_live_current_password_opens", "failed_save_live_new_password_rejected",
		"failed_save_reloaded_current_password_opens", "failed_save_reloaded_new_password_rejected"} {
		r.Require(c, 1)
	}
	if devFullOK {
		r.Require("fault_mode_"+faultTmpFull, 1)
	}
	// directed families
	for _, k := range []string{"new", "import", "delete", "setdefault", "setlabel", "changepwd", "changesig"} {
		if k == "changepwd" {
			r.Require("sweep_"+k+"_save_failed", int64(nSweep/2))
			continue
		}
		r.Require("sweep_"+k+"_save_failed", int64(nSweep))
	}
	for _, k := range []string{"delete", "setdefault", "setlabel", "changesig"} {
		for _, p := range []string{"first", "middle", "last"} {
			r.Require("sweep_"+k+"_at_position_"+p, 2)
		}
	}
	for _, c := range []string{"sweep_completed", "export_" + expLow, "export_" + expLowDefault, "export_" + expPlain, "export_" + expWrongPwd,
		"export_bad_password_rejected", "export_live_unchanged", "exported_wallet_checked", "failed_save_exported_current_password_opens",
		"exported_wrong_password_rejected"} {
		r.Require(c, 1)
	}
	r.Require("export_live_unchanged", int64(nSweep))
	r.Assume("passwords are non-empty (NewAccount rejects an empty password and the CLI never passes one)")
	r.Assume("ImportAccount is only issued for an address that is not in the wallet (cmd/account_cmd.go checks GetAccountMetadataByAddress first); the wallet itself does not reject a duplicate address")
	r.Assume("whether an op is accepted follows the API's own result, except where the statement decides it: a key may only be opened (ChangePassword, DeleteAccount, GetAccount*) with the current password, duplicate non-empty labels and scheme/key-type mismatches in ChangeSigScheme must be refused")
	r.Assume("a save fails the way the harness can make it fail without hooks: the temporary file <wallet>~ cannot be opened (a directory is in its place) or written (ENOSPC from /dev/full), or the rename onto <wallet> fails (a directory is in its place, first save only); a failure of the rename over an existing wallet file is not produced")
	if !vf.Thorough() {
		r.Assume("quick tier, op that failed under an obstructed save: accounts whose ciphertext, salt and scrypt parameters are byte-identical to before the call are taken to open with the same passwords as before; decrypted are the account of a failed ChangePassword (current password must open, password of the failed change must not) and any account whose ciphertext changed; thorough decrypts every account")
		r.Assume("quick tier: per account the refused-password set is {former passwords of the account, one other password of the history, one random}; thorough uses every other password of the history and 3 random ones")
	}
	os.RemoveAll(base)
	r.Finish()
}
