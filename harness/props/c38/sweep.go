// C38, directed families on a shared four-account wallet (sweep.go).
//
//   - failed-save sweep: a copy of the base wallet (seeded default account and labels) is opened
//     and EVERY mutating operation is issued once per account position (DeleteAccount, SetLabel,
//     SetDefaultAccount, ChangeSigScheme at each position; ChangePassword at one seeded position in every second sweep;
//     one NewAccount; one ImportAccount), in seeded order, each with valid arguments while the
//     save path is obstructed, so that the only thing that can fail is the save inside the
//     operation.  Oracle (the one of the random histories: afterFault / pendingCheck): the
//     operation that reported an error leaves the live wallet as before the call, and a fresh
//     client on the file after the next successful save shows the unchanged model.
//   - export flow: what "account export [--low-security]" does in cmd/account_cmd.go —
//     GetWalletData, Clone, ToLowSecurity / ToDefaultSecurity, Save(target) — while the original
//     client keeps being used, saved and reloaded.  Oracle: the live wallet is as before the export
//     (an account whose ciphertext changed must still open with its current password), the
//     exported file lists the model's accounts and a seeded account of it opens with its current
//     password to the model's key and refuses another password; the histories / the sweep then go
//     on with the original client and judge it after save and reload as always.
package main

import (
	"bytes"
	"encoding/hex"
	"fmt"
	"os"
	"path/filepath"

	"github.com/ontio/ontology-crypto/keypair"
	s "github.com/ontio/ontology-crypto/signature"
	"github.com/ontio/ontology/account"
	"verifharness/lib/vf"
)

const sweepAccounts = 4

// sweepBase is the shared wallet file the sweeps start from, with its model.
type sweepBase struct {
	path  string
	model []*mAcc
}

func cloneModel(m []*mAcc) []*mAcc {
	out := make([]*mAcc, len(m))
	for i, a := range m {
		c := *a
		c.Former = append([]string{}, a.Former...)
		out[i] = &c
	}
	return out
}

// makeSweepBase creates the base wallet: three generated accounts of different key types and one
// imported donor; account 0 is the default.
func makeSweepBase(base string, rng *vf.RNG, donors []*donor) (*sweepBase, error) {
	sb := &sweepBase{path: filepath.Join(base, "sweepbase.dat")}
	c, err := account.NewClientImpl(sb.path)
	if err != nil {
		return nil, err
	}
	specs := []keySpec{keySpecs[0], keySpecs[5], keySpecs[6]}
	for i, ks := range specs {
		pwd := append(genPwd(rng), byte('a'+i))
		sc := ks.schemes[rng.Intn(len(ks.schemes))]
		label := fmt.Sprintf("base%d", i)
		acc, err := c.NewAccount(label, ks.kt, ks.curve, sc, pwd)
		if err != nil {
			return nil, err
		}
		sb.model = append(sb.model, &mAcc{Addr: acc.Address.ToBase58(), Label: label, KeyType: ks.alg, Curve: ks.curveNm, SigSch: sc.Name(),
			PubKey: hex.EncodeToString(keypair.SerializePublicKey(acc.PublicKey)), IsDefault: i == 0,
			Pwd: hex.EncodeToString(pwd), priv: keypair.SerializePrivateKey(acc.PrivateKey), pub: acc.PublicKey})
	}
	d := donors[2] // ecdsa-p224
	meta := *d.meta
	meta.Label = "base3"
	meta.IsDefault = false
	if err := c.ImportAccount(&meta); err != nil {
		return nil, err
	}
	sb.model = append(sb.model, &mAcc{Addr: meta.Address, Label: meta.Label, KeyType: meta.KeyType, Curve: meta.Curve, SigSch: meta.SigSch,
		PubKey: meta.PubKey, Pwd: hex.EncodeToString(d.pwd), priv: d.priv, pub: d.pub})
	return sb, nil
}

// ---------------------------------------------------------------- export flow

const (
	expLow        = "low-security"         // Clone + ToLowSecurity + Save(target): account export --low-security
	expLowDefault = "low-then-default"     // Clone + ToLowSecurity + ToDefaultSecurity + Save(target)
	expPlain      = "plain"                // Save(target) of the wallet data itself: account export
	expWrongPwd   = "low-security-bad-pwd" // Clone + ToLowSecurity with one password that is not the account's: must fail
)

// exportFlow runs one export of the live wallet to target and judges the live wallet and the exported file.
// variant "" = seeded choice.
func (h *hist) exportFlow(rng *vf.RNG, variant, target string, n int) *viol {
	if len(h.model) == 0 {
		return nil
	}
	if variant == "" {
		variant = expLow
		switch x := rng.Intn(10); {
		case x < 5:
		case x < 7:
			variant = expLowDefault
		case x < 8:
			variant = expPlain
		default:
			variant = expWrongPwd
		}
	}
	rec := opRec{N: n, Op: "(export)", Args: fmt.Sprintf("variant=%s target=%s", variant, filepath.Base(target)), Result: "ok"}
	sn := h.snapshot("")
	fileBefore := readFile(h.path)
	pwds := make([][]byte, len(h.model))
	for i, a := range h.model {
		pwds[i], _ = hex.DecodeString(a.Pwd)
	}
	bad := -1
	if variant == expWrongPwd {
		bad = rng.Intn(len(h.model))
		pwds[bad] = append(genPwd(rng), 'X')
		rec.Args += fmt.Sprintf(" bad_password_for_account=%d", bad+1)
	}
	wd := h.cli.GetWalletData()
	var err error
	switch variant {
	case expLow, expWrongPwd:
		wd = wd.Clone()
		err = wd.ToLowSecurity(pwds)
	case expLowDefault:
		wd = wd.Clone()
		if err = wd.ToLowSecurity(pwds); err == nil {
			// a panic inside the re-encryption of the copy is not a statement about the wallet: recorded, and the
			// copy (and the live wallet) are judged as they are left
			if p := vf.Catch(func() { err = wd.ToDefaultSecurity(pwds) }); p != nil {
				h.count("info_ToDefaultSecurity_panicked")
				rec.Args += fmt.Sprintf(" (ToDefaultSecurity panicked: %v)", p)
			} else if err == nil {
				h.count("export_back_to_default_security_ok")
			}
		}
	}
	saved := false
	if err == nil {
		err = wd.Save(target)
		saved = err == nil
	}
	if err != nil {
		rec.Result = "error: " + err.Error()
	}
	h.log = append(h.log, rec)
	h.count("export_" + variant)
	switch {
	case variant == expWrongPwd && err == nil:
		return &viol{"export:wrong-password-accepted", fmt.Sprintf("ToLowSecurity re-encrypted account %d with a password that is not its current one", bad+1)}
	case variant == expWrongPwd:
		h.count("export_bad_password_rejected")
	case err != nil:
		return &viol{"export:rejected:" + variant, fmt.Sprintf("export (%s) with the current passwords failed: %v", variant, err)}
	}
	// the original wallet is not touched by an export
	if !bytes.Equal(fileBefore, readFile(h.path)) {
		return &viol{"export:wallet-file-changed:" + variant, "the export wrote to the original wallet file"}
	}
	what, cipher := diffSnap(sn, h.snapshot(""))
	if what != "" {
		return &viol{"export:live-wallet-changed:" + variant + ":" + what, fmt.Sprintf("after an export (%s) to another file the live wallet differs from before: %s", variant, what)}
	}
	for _, i := range cipher {
		if w, msg := h.opensOnlyWithCurrent(h.cli, i, nil, "export_live"); w != "" {
			return &viol{"export:live-wallet-changed:" + variant + ":" + w, fmt.Sprintf("after an export (%s) to another file, in the live wallet %s", variant, msg)}
		}
		h.count("info_export_live_ciphertext_replaced_same_password")
	}
	h.count("export_live_unchanged")
	if !saved {
		return nil
	}
	// the exported file is a wallet holding the same accounts
	defer os.Remove(target)
	exp, err := account.NewClientImpl(target)
	if err != nil {
		return &viol{"export:open-failed:" + variant, fmt.Sprintf("the exported wallet does not open: %v", err)}
	}
	if v := h.compareMeta(exp, "exported"); v != nil {
		return &viol{"export:" + variant + ":" + v.key, v.what}
	}
	i := rng.Intn(len(h.model))
	if w, msg := h.opensOnlyWithCurrent(exp, i, nil, "exported"); w != "" {
		return &viol{"export:exported-wallet:" + variant + ":" + w, fmt.Sprintf("in the exported wallet (%s) %s", variant, msg)}
	}
	a := h.model[i]
	wrong := append(genPwd(rng), 'R')
	if o := h.model[(i+1)%len(h.model)]; o.Pwd != a.Pwd && rng.Bool() {
		wrong, _ = hex.DecodeString(o.Pwd)
	}
	if acc, err := exp.GetAccountByAddress(a.Addr, wrong); err == nil && acc != nil {
		return &viol{"export:exported-wallet:" + variant + ":wrong-password-accepted", fmt.Sprintf("in the exported wallet (%s) account %s (current password %s) opens with %x", variant, a.Addr, a.Pwd, wrong)}
	}
	h.count("exported_wrong_password_rejected")
	h.count("exported_wallet_checked")
	return nil
}

// ---------------------------------------------------------------- failed-save sweep

// export variant of sweep i (the default account of sweep i is at position i%4)
var sweepVariants = []string{expLow, expWrongPwd, expLowDefault, expPlain, expLow, expLow, expWrongPwd, expLow}

type sweepOp struct {
	kind string // delete, setlabel, setdefault, changesig, changepwd, new, import
	pos  int
}

// faulted runs f (an op with valid arguments) under an obstructed save and judges it.
func (h *hist) faulted(n int, op, short, args, target, probeLabel string, newPwd []byte, preferFull bool, f func() error) *viol {
	before := readFile(h.path)
	h.snap = h.snapshot(probeLabel)
	h.fault = obstructAt(h.path, preferFull)
	if h.fault == "" {
		h.count("info_obstruction_not_created")
		return nil
	}
	opErr := f()
	clearObstruction(h.path, h.fault)
	rec := opRec{N: n, Op: op, Args: args, Result: "ok", Fault: h.fault}
	if opErr != nil {
		rec.Result = "error: " + opErr.Error()
	}
	h.log = append(h.log, rec)
	if !bytes.Equal(before, readFile(h.path)) {
		return &viol{"failed-op:file-changed:" + op, fmt.Sprintf("%s ran while saves were obstructed (%s) but the wallet file changed", op, h.fault)}
	}
	if opErr == nil {
		h.count("info_sweep_" + short + "_reported_ok") // judged by afterFault: nothing may have changed
	} else {
		h.count("sweep_" + short + "_save_failed")
		h.count(fmt.Sprintf("sweep_%s_at_position_%s", short, posName(h, target)))
	}
	if v := h.afterFault(op, short, opErr, target, newPwd); v != nil {
		return v
	}
	return h.compareMeta(h.cli, "live")
}

func posName(h *hist, addr string) string {
	i := h.find(addr)
	switch {
	case i < 0:
		return "none"
	case i == len(h.model)-1:
		return "last"
	case i == 0:
		return "first"
	}
	return "middle"
}

func runSweep(r *vf.Run, idx int, rng *vf.RNG, base string, sb *sweepBase, donors []*donor, full bool, count func(string)) {
	h := &hist{idx: 1000 + idx, rng: rng, frng: rng.Sub(0xFA17), r: r, donors: donors, full: full, pwds: map[string]bool{}, count: count}
	h.dir = filepath.Join(base, fmt.Sprintf("s%d", idx))
	os.MkdirAll(h.dir, 0o755)
	h.path = filepath.Join(h.dir, "wallet.dat")
	if err := os.WriteFile(h.path, readFile(sb.path), 0o644); err != nil {
		r.Inconclusive("sweep wallet could not be copied: " + err.Error())
		return
	}
	cli, err := account.NewClientImpl(h.path)
	if err != nil {
		r.Violation("open:sweep-wallet", err.Error(), nil)
		return
	}
	h.cli = cli
	h.model = cloneModel(sb.model)
	for _, a := range h.model {
		h.pwds[a.Pwd] = true
	}
	def := idx % sweepAccounts // every position is the default account in some sweep
	flushEach := rng.Bool()
	exportAt := rng.Intn(3) // 0: before the sweep, 1: in the middle, 2: after it
	var ops []sweepOp
	for p := 0; p < sweepAccounts; p++ {
		for _, k := range []string{"delete", "setlabel", "setdefault", "changesig"} {
			if p == def && (k == "delete" || k == "setdefault") {
				continue // refused / nothing to save
			}
			ops = append(ops, sweepOp{k, p})
		}
	}
	ops = append(ops, sweepOp{"new", -1}, sweepOp{"import", -1})
	if idx%2 == 0 { // the costliest op to judge (four decryptions); the random histories fault it often
		ops = append(ops, sweepOp{"changepwd", rng.Intn(sweepAccounts)})
	}
	perm := rng.Perm(len(ops))

	var v *viol
	where := ""
	step := func(w string, f func() *viol) {
		if v != nil {
			return
		}
		where = w
		if p := vf.Catch(func() { v = f() }); p != nil {
			v = &viol{"panic:op", fmt.Sprint(p)}
		}
	}
	n := 0
	// set-up (unobstructed): move the default flag
	step("set-up", func() *viol {
		if def == 0 {
			return nil
		}
		a := h.model[def]
		err := h.cli.SetDefaultAccount(a.Addr)
		h.log = append(h.log, opRec{N: n, Op: "SetDefaultAccount", Args: "addr=" + a.Addr, Result: fmt.Sprint(err)})
		if err != nil {
			return &viol{"setdefault:rejected", fmt.Sprintf("SetDefaultAccount(%s) failed: %v", a.Addr, err)}
		}
		for _, x := range h.model {
			x.IsDefault = false
		}
		a.IsDefault = true
		return h.compareMeta(h.cli, "live")
	})
	variant := sweepVariants[idx%len(sweepVariants)]
	export := func() *viol { return h.exportFlow(rng.Sub(0xE0), variant, filepath.Join(h.dir, "export.dat"), n) }
	for k, pi := range perm {
		if (exportAt == 0 && k == 0) || (exportAt == 1 && k == len(perm)/2) {
			n++
			step("export", export)
		}
		o := ops[pi]
		n++
		preferFull := h.frng.Bool()
		step(fmt.Sprintf("sweep op %d (%s at position %d)", n, o.kind, o.pos+1), func() *viol {
			var a *mAcc
			if o.pos >= 0 {
				a = h.model[o.pos]
			}
			switch o.kind {
			case "delete":
				pwd, _ := hex.DecodeString(a.Pwd)
				return h.faulted(n, "DeleteAccount", "delete", fmt.Sprintf("addr=%s (position %d of %d) pwd=%x", a.Addr, o.pos+1, len(h.model), pwd), a.Addr, "", nil, preferFull,
					func() error { _, e := h.cli.DeleteAccount(a.Addr, pwd); return e })
			case "setlabel":
				label := fmt.Sprintf("sweep-%d", n)
				return h.faulted(n, "SetLabel", "setlabel", fmt.Sprintf("addr=%s label=%q", a.Addr, label), a.Addr, label, nil, preferFull,
					func() error { return h.cli.SetLabel(a.Addr, label) })
			case "setdefault":
				return h.faulted(n, "SetDefaultAccount", "setdefault", "addr="+a.Addr, a.Addr, "", nil, preferFull,
					func() error { return h.cli.SetDefaultAccount(a.Addr) })
			case "changesig":
				var sc s.SignatureScheme
				for _, ks := range keySpecs {
					if ks.alg == a.KeyType {
						sc = ks.schemes[rng.Intn(len(ks.schemes))]
					}
				}
				return h.faulted(n, "ChangeSigScheme", "changesig", fmt.Sprintf("addr=%s scheme=%s", a.Addr, sc.Name()), a.Addr, "", nil, preferFull,
					func() error { return h.cli.ChangeSigScheme(a.Addr, sc) })
			case "changepwd":
				old, _ := hex.DecodeString(a.Pwd)
				nw := append(genPwd(rng), 'N')
				h.pwds[hex.EncodeToString(nw)] = true
				return h.faulted(n, "ChangePassword", "changepwd", fmt.Sprintf("addr=%s old=%x new=%x", a.Addr, old, nw), a.Addr, "", nw, preferFull,
					func() error { return h.cli.ChangePassword(a.Addr, old, nw) })
			case "new":
				ks := keySpecs[rng.Intn(len(keySpecs))]
				pwd := genPwd(rng)
				label := fmt.Sprintf("sweep-new-%d", n)
				return h.faulted(n, "NewAccount", "new", fmt.Sprintf("label=%q key=%s pwd=%x", label, ks.name, pwd), "", label, nil, preferFull,
					func() error { _, e := h.cli.NewAccount(label, ks.kt, ks.curve, ks.schemes[0], pwd); return e })
			default: // import
				var d *donor
				for _, x := range h.donors {
					if h.find(x.meta.Address) < 0 {
						d = x
					}
				}
				meta := *d.meta
				meta.Label = fmt.Sprintf("sweep-imp-%d", n)
				return h.faulted(n, "ImportAccount", "import", fmt.Sprintf("addr=%s label=%q", meta.Address, meta.Label), meta.Address, meta.Label, nil, preferFull,
					func() error { return h.cli.ImportAccount(&meta) })
			}
		})
		if flushEach {
			n++
			step(fmt.Sprintf("forced save after sweep op %d", n-1), func() *viol { return h.flushPending(n) })
		}
	}
	if exportAt == 2 {
		n++
		step("export", export)
	}
	n++
	step("forced save after the sweep", func() *viol { return h.flushPending(n) })
	// final: a fresh client on the file shows the model, byte-identical ciphertext to the live client, and one
	// seeded account is opened (intermediate-style reload check; the sweep never changed a key or a password)
	step("final reload", func() *viol { _, v := h.reloadCheck(vf.Thorough()); return v })
	if v == nil {
		count("sweep_completed")
	}
	mode := "end"
	if flushEach {
		mode = "each"
	}
	fp := fmt.Sprintf("sweep%d/def%d/flush-%s/export-%s@%d/", idx, def, mode, variant, exportAt)
	for _, pi := range perm {
		fp += fmt.Sprintf("%.4s%d,", ops[pi].kind, ops[pi].pos+1)
	}
	r.Eval(fp)
	if idx == 0 {
		r.Sample(map[string]interface{}{"sweep": idx, "ops": h.log, "accounts": h.model})
	}
	if v != nil {
		r.Violation(v.key, v.what, map[string]interface{}{"sweep_index": idx, "where": where, "ops": h.log, "model": h.model,
			"note": "base wallet: three generated accounts (ecdsa-p256, sm2, ed25519) and one imported (ecdsa-p224), labels base0..base3; the ops are replayed in order on it; keys are generated by the wallet (crypto/rand), the verdict does not depend on key bytes"})
	}
}
