package main

// Concurrent stage: at every height several blocks for that SAME height are offered at the same instant from several
// goroutines released by a barrier — the very same block several times (a block delivered by two peers), two different
// valid blocks, a valid block among invalid ones — through AddBlock, mixed with ExecuteBlock+SubmitBlock and (where
// exactly one header is valid) AddHeaders.  Whatever the interleaving: a block offered for height h+1 once the ledger
// is at h+1 is a block with the WRONG HEIGHT and must leave the ledger alone.  Oracle after the goroutines have joined:
//   * the height advanced by exactly one and the block of the new height is ONE of the valid candidates, the same one
//     in every query family (hash by height, current block/header hash, block and header by height and by hash,
//     transactions by hash); candidates that lost are not stored;
//   * a reference ledger that is fed, sequentially, only the winning block of every height has the same fingerprint
//     (state dump incl. merkle trees, every state root, block merkle root probe, header height) and builds the same
//     next honest block;
//   * the next round (an honest block among the candidates) extends the chain.
// Which valid candidate wins, and what the individual calls return, is scheduling-dependent and NOT judged.

import (
	"bytes"
	"fmt"
	"sort"
	"sync"

	"github.com/ontio/ontology-crypto/keypair"
	"github.com/ontio/ontology/account"
	"github.com/ontio/ontology/common"
	"github.com/ontio/ontology/core/types"
	"verifharness/lib/chain"
	"verifharness/lib/vf"
)

type candidate struct {
	label string
	valid bool
	raw   []byte
	hash  common.Uint256
	root  common.Uint256 // state merkle root argument for AddBlock
	txs   []common.Uint256
}

type offer struct {
	cand int
	path string // AddBlock | Execute+Submit | AddHeaders
}

var concShapes = []string{
	"same-empty-block-twice", "same-empty-block-k-times", "two-valid-empty-blocks", "two-valid-empty-blocks-each-twice",
	"same-tx-block-twice", "two-valid-tx-blocks-same-txs", "two-valid-tx-blocks-other-txs",
	"valid-empty+mutants", "valid-tx+mutants", "same-block-mixed-paths",
}

func simpleTxs(w *chain.World, rng *vf.RNG, n int) []*types.Transaction {
	var txs []*types.Transaction
	for i := 0; i < n; i++ {
		from := w.Accts[rng.Intn(len(w.Accts))]
		to := w.Accts[rng.Intn(len(w.Accts))]
		switch rng.Intn(3) {
		case 0:
			t, err := w.TB.TransferTx("ont", from, to.Address, uint64(rng.Intn(40)), 0, 20000)
			if err != nil {
				panic(err)
			}
			txs = append(txs, t)
		case 1:
			t, err := w.TB.TransferTx("ong", from, to.Address, uint64(rng.Intn(100000)), 0, 20000)
			if err != nil {
				panic(err)
			}
			txs = append(txs, t)
		default:
			m := w.TB.Invoke(0, 30000, chain.KVInvoke(w.KV, []byte(fmt.Sprintf("k%d", rng.Intn(4))), rng.Bytes(rng.Intn(10)), rng.Chance(75)))
			if err := chain.Sign(m, from); err != nil {
				panic(err)
			}
			txs = append(txs, chain.Immutable(m))
		}
	}
	return txs
}

func runConcurrent(r *vf.Run, rng *vf.RNG, dir string, nbk int, ki int, rounds int) {
	tag := fmt.Sprintf("c39c-%d-%d", vf.Seed(), ki)
	kind := fmt.Sprintf("%dbk", nbk)
	w := chain.NewWorld(tag, 5)
	multi := nbk > 1
	open := func(d string) *chain.Chain {
		var c *chain.Chain
		var err error
		if multi {
			var bks []*account.Account
			for i := 0; i < nbk; i++ {
				bks = append(bks, chain.DetAccount(fmt.Sprintf("%s/bk%d", tag, i)))
			}
			c, err = chain.NewMulti(d, bks)
		} else {
			c, err = chain.NewSolo(d, w.BK)
		}
		if err != nil {
			panic(err)
		}
		return c
	}
	c := open(dir + "-tested")
	defer c.Close()
	ref := open(dir + "-reference")
	defer ref.Close()
	outside := chain.DetAccount(tag + "/outsider")

	// block 1 (funding on the solo chain), sequentially on both
	var first []*types.Transaction
	if !multi {
		first = w.FundingTxs()
	}
	B1, err := c.MakeBlock(first, 0)
	if err != nil {
		panic(err)
	}
	for _, l := range []*chain.Chain{c, ref} {
		if _, err := l.CommitExec(clone(B1)); err != nil {
			panic(fmt.Errorf("block 1 rejected: %v", err))
		}
	}

	for round := 0; round < rounds; round++ {
		rr := rng.Sub(uint64(round))
		cur := c.Ledger.GetCurrentBlockHeight()
		shape := concShapes[rr.Intn(len(concShapes))]
		if round < len(concShapes) {
			shape = concShapes[round]
		}
		if rr.Chance(40) && round >= len(concShapes) {
			shape = concShapes[rr.Intn(4)] // the empty-block shapes are the ones with the fewest checks behind them
		}
		cands, offers := buildRound(rr, c, w, shape, outside, multi)
		if cands == nil {
			return
		}
		// barrier: every goroutine has decoded its own copy of its block and is parked on `start`
		results := make([]string, len(offers))
		var ready, done sync.WaitGroup
		start := make(chan struct{})
		for i := range offers {
			ready.Add(1)
			done.Add(1)
			go func(i int) {
				defer done.Done()
				o := offers[i]
				cd := cands[o.cand]
				blk, derr := types.BlockFromRawBytes(append([]byte{}, cd.raw...))
				ready.Done()
				<-start
				if derr != nil {
					results[i] = "decode: " + derr.Error()
					return
				}
				var err error
				if p := vf.Catch(func() {
					switch o.path {
					case "AddBlock":
						err = c.Ledger.AddBlock(blk, nil, cd.root)
					case "Execute+Submit":
						res, e1 := c.Ledger.ExecuteBlock(blk)
						if e1 != nil {
							err = e1
						} else {
							err = c.Ledger.SubmitBlock(blk, nil, res)
						}
					case "AddHeaders":
						err = c.Ledger.AddHeaders([]*types.Header{blk.Header})
					}
				}); p != nil {
					results[i] = fmt.Sprintf("PANIC: %v", p)
					return
				}
				if err != nil {
					results[i] = "error: " + err.Error()
				} else {
					results[i] = "nil"
				}
			}(i)
		}
		ready.Wait()
		close(start)
		done.Wait()

		r.Count("concurrent_round")
		r.Count("concurrent_round/" + shape)
		r.Add("concurrent_offers", int64(len(offers)))
		for _, o := range offers {
			r.Count("concurrent_offers/" + o.path)
		}
		r.Eval(fmt.Sprintf("conc/%s#%d/%d/%s/%d", kind, ki, cur+1, shape, len(offers)))

		wit := func() map[string]interface{} {
			var cs, ofs []map[string]interface{}
			for _, cd := range cands {
				cs = append(cs, map[string]interface{}{"label": cd.label, "valid": cd.valid, "hash": cd.hash.ToHexString(), "state_root_arg": cd.root.ToHexString(), "block_hex": vf.HexTrunc(cd.raw, 2048)})
			}
			for i, o := range offers {
				ofs = append(ofs, map[string]interface{}{"candidate": o.cand, "path": o.path, "returned": results[i]})
			}
			return map[string]interface{}{"chain": kind, "height": cur + 1, "round": round, "shape": shape, "candidates": cs, "concurrent_offers": ofs,
				"replay": "all offers are released by one barrier; the outcome depends on the interleaving (re-run the same seed/tier: the case list is identical)"}
		}
		for i := range results {
			if len(results[i]) > 5 && results[i][:5] == "PANIC" {
				r.Violation("concurrent:panic:"+offers[i].path, results[i], wit())
				return
			}
		}

		// ---- verdict 1: exactly one step, to one of the valid candidates, in every query family
		L := c.Ledger
		if h := L.GetCurrentBlockHeight(); h != cur+1 {
			r.Violation("concurrent:height-not-advanced-by-one:"+shape, fmt.Sprintf("height %d -> %d", cur, h), wit())
			return
		}
		wh := L.GetBlockHash(cur + 1)
		win := -1
		for i, cd := range cands {
			if cd.valid && cd.hash == wh {
				win = i
				break
			}
		}
		if win < 0 {
			r.Violation("concurrent:block-of-new-height-is-no-valid-candidate:"+shape, "GetBlockHash(h+1)="+wh.ToHexString(), wit())
			return
		}
		wc := cands[win]
		if bad := queryFamilies(c, cur+1, wc, cands); bad != "" {
			r.Violation("concurrent:queries-disagree:"+shape, bad, wit())
			return
		}
		r.Count("concurrent_winner/" + wc.label)

		// ---- verdict 2: equal to the reference ledger that saw only the winner
		rb, derr := types.BlockFromRawBytes(append([]byte{}, wc.raw...))
		if derr != nil {
			panic(derr)
		}
		if err := ref.Ledger.AddBlock(rb, nil, wc.root); err != nil || ref.Ledger.GetCurrentBlockHeight() != cur+1 {
			r.Violation("concurrent:winner-rejected-by-fresh-ledger:"+shape, fmt.Sprintf("err=%v", err), wit())
			return
		}
		if d := ref.Fingerprint().Diff(c.Fingerprint()); d != "" {
			_, _, da := ref.DumpState()
			_, _, db := c.DumpState()
			x := wit()
			x["state_diff(reference->tested)"] = chain.DiffDumps(da, db, 6)
			r.Violation("concurrent:ledger-differs-from-reference:"+shape, "reference vs tested: "+d, x)
			return
		}
		if bad := queryFamilies(ref, cur+1, wc, cands); bad != "" {
			panic("reference ledger inconsistent: " + bad)
		}
		// the next honest block is the same on both
		nb1, e1 := c.MakeBlock(nil, 0)
		nb2, e2 := ref.MakeBlock(nil, 0)
		if e1 != nil || e2 != nil {
			panic(fmt.Sprint(e1, e2))
		}
		if nb1.Hash() != nb2.Hash() {
			r.Violation("concurrent:next-honest-block-differs-from-reference:"+shape, fmt.Sprintf("block root %s vs %s", nb1.Header.BlockRoot.ToHexString(), nb2.Header.BlockRoot.ToHexString()), wit())
			return
		}
		r.Count("concurrent_round_equal_to_reference")
		if round > 0 {
			r.Count("concurrent_chain_extended_after_round")
		}
		if round < 3 {
			r.Sample(map[string]interface{}{"stage": "concurrent", "chain": kind, "height": cur + 1, "shape": shape, "offers": len(offers), "candidates": len(cands), "winner": wc.label})
		}
	}
	// a final honest block with transactions, sequentially, on both
	txs := simpleTxs(w, rng.Sub(999999), 4)
	fb, err := c.MakeBlock(txs, 0)
	if err != nil {
		panic(err)
	}
	_, e1 := c.CommitExec(clone(fb))
	_, e2 := ref.CommitExec(clone(fb))
	if e1 != nil || e2 != nil {
		r.Violation("concurrent:final-honest-block-rejected", fmt.Sprintf("tested: %v, reference: %v", e1, e2), map[string]interface{}{"chain": kind, "height": fb.Header.Height})
		return
	}
	if d := ref.Fingerprint().Diff(c.Fingerprint()); d != "" {
		r.Violation("concurrent:ledger-differs-from-reference:final", d, map[string]interface{}{"chain": kind, "height": fb.Header.Height})
		return
	}
	r.Count("concurrent_final_honest_block")
}

// canonical re-encodes a block with its bookkeeper keys in sorted order: header verification sorts the key list of the
// block object it is given in place (types.AddressFromBookkeepers), so a stored block may list the same keys in
// another order than the bytes that were offered; the header hash does not cover that list.
func canonical(raw []byte) []byte {
	b, err := types.BlockFromRawBytes(append([]byte{}, raw...))
	if err != nil {
		return append([]byte("undecodable:"), raw...)
	}
	ks := b.Header.Bookkeepers
	sort.SliceStable(ks, func(i, j int) bool {
		return bytes.Compare(keypair.SerializePublicKey(ks[i]), keypair.SerializePublicKey(ks[j])) < 0
	})
	return serialize(b)
}

// queryFamilies checks that every query about height h answers with the winner, and that losers are not stored.
func queryFamilies(c *chain.Chain, h uint32, wc *candidate, cands []*candidate) string {
	L := c.Ledger
	if x := L.GetBlockHash(h); x != wc.hash {
		return "GetBlockHash(h) " + x.ToHexString()
	}
	if x := L.GetCurrentBlockHash(); x != wc.hash {
		return "GetCurrentBlockHash " + x.ToHexString()
	}
	if x := L.GetCurrentHeaderHash(); x != wc.hash {
		return "GetCurrentHeaderHash " + x.ToHexString()
	}
	if x := L.GetCurrentHeaderHeight(); x != h {
		return fmt.Sprintf("GetCurrentHeaderHeight %d", x)
	}
	if x := L.GetBlockHash(h + 1); x != common.UINT256_EMPTY {
		return "GetBlockHash(h+1) " + x.ToHexString()
	}
	if b, err := L.GetBlockByHeight(h); err != nil || b == nil || !bytes.Equal(canonical(serialize(b)), canonical(wc.raw)) {
		return fmt.Sprintf("GetBlockByHeight(h) is not the winner's bytes (err=%v)", err)
	}
	if b, err := L.GetBlockByHash(wc.hash); err != nil || b == nil || !bytes.Equal(canonical(serialize(b)), canonical(wc.raw)) {
		return fmt.Sprintf("GetBlockByHash(winner) is not the winner's bytes (err=%v)", err)
	}
	if hd, err := L.GetHeaderByHeight(h); err != nil || hd == nil || hd.Hash() != wc.hash {
		return fmt.Sprintf("GetHeaderByHeight(h) (err=%v)", err)
	}
	if hd, err := L.GetHeaderByHash(wc.hash); err != nil || hd == nil || hd.Hash() != wc.hash || hd.Height != h {
		return fmt.Sprintf("GetHeaderByHash(winner) (err=%v)", err)
	}
	if ok, err := L.IsContainBlock(wc.hash); err != nil || !ok {
		return fmt.Sprintf("IsContainBlock(winner)=%v err=%v", ok, err)
	}
	inWinner := map[common.Uint256]bool{}
	for _, t := range wc.txs {
		inWinner[t] = true
		tx, th, err := L.GetTransaction(t)
		if err != nil || tx == nil || th != h || tx.Hash() != t {
			return fmt.Sprintf("GetTransaction(%s) of the winner: height %d err=%v", t.ToHexString(), th, err)
		}
		if ok, err := L.IsContainTransaction(t); err != nil || !ok {
			return "IsContainTransaction(tx of the winner) false"
		}
	}
	for _, cd := range cands {
		if cd.hash != wc.hash {
			if ok, _ := L.IsContainBlock(cd.hash); ok {
				return "IsContainBlock(" + cd.label + ") true for a block that is not the block of its height"
			}
			if b, err := L.GetBlockByHash(cd.hash); err == nil && b != nil {
				return "GetBlockByHash(" + cd.label + ") returns a block that is not the block of its height"
			}
		}
		for _, t := range cd.txs {
			if !inWinner[t] {
				if ok, _ := L.IsContainTransaction(t); ok {
					return "IsContainTransaction true for a transaction that is only in " + cd.label
				}
			}
		}
	}
	return ""
}

// buildRound builds the candidates of one round (every valid one verified by a side-effect-free ExecuteBlock, which
// also yields its state root) and the list of concurrent offers.
func buildRound(rng *vf.RNG, c *chain.Chain, w *chain.World, shape string, outside *account.Account, multi bool) ([]*candidate, []offer) {
	cur := c.Ledger.GetCurrentBlockHeight()
	prev, _ := c.Ledger.GetHeaderByHeight(cur)
	older := c.Ledger.GetBlockHash(0)
	if cur > 0 {
		older = c.Ledger.GetBlockHash(cur - 1)
	}
	mk := func(label string, txs []*types.Transaction, ts uint32, consensusData uint64) *candidate {
		b, err := c.MakeBlock(txs, ts)
		if err != nil {
			panic(err)
		}
		if consensusData != 0 {
			b.Header.ConsensusData = consensusData
			if err := c.Seal(b); err != nil {
				panic(err)
			}
		}
		raw := serialize(b)
		dec, err := types.BlockFromRawBytes(append([]byte{}, raw...))
		if err != nil {
			panic(err)
		}
		res, err := c.Ledger.ExecuteBlock(dec)
		if err != nil {
			panic(fmt.Errorf("candidate %s is not valid: %v", label, err))
		}
		return &candidate{label: label, valid: true, raw: raw, hash: b.Hash(), root: res.MerkleRoot, txs: txHashes(txs)}
	}
	mutantOf := func(base *candidate, name string) *candidate {
		var m *mutant
		for _, x := range mutants(multi) {
			if x.name == name {
				x := x
				m = &x
			}
		}
		if m == nil {
			panic("no mutant " + name)
		}
		extra, _ := w.TB.TransferTx("ont", w.Accts[2], w.Accts[3].Address, 3, 0, 20000)
		x := &mctx{c: c, rng: rng.Sub(77), prev: prev, older: older, outside: outside, extraTx: extra}
		mb, err := types.BlockFromRawBytes(append([]byte{}, base.raw...))
		if err != nil {
			panic(err)
		}
		if m.apply != nil && !m.apply(mb, x) {
			return nil
		}
		if m.reseal {
			if err := c.Seal(mb); err != nil {
				panic(err)
			}
		}
		if m.signers != nil {
			if err := c.SealWith(mb, m.signers(x)); err != nil {
				panic(err)
			}
		}
		raw := serialize(mb)
		if m.wire != nil {
			raw = m.wire(raw, mb)
		}
		cd := &candidate{label: "mutant:" + name, valid: false, raw: raw, hash: mb.Hash(), root: base.root, txs: txHashes(mb.Transactions)}
		if m.wrongRoot {
			cd.root = flip(base.root, x.rng)
		}
		return cd
	}
	ts := chain.TimeAt(cur + 1)
	nTx := 1 + rng.Intn(4)
	var cands []*candidate
	var offers []offer
	add := func(cd *candidate, path string, times int) {
		idx := -1
		for i, x := range cands {
			if x == cd {
				idx = i
			}
		}
		if idx < 0 {
			cands = append(cands, cd)
			idx = len(cands) - 1
		}
		for i := 0; i < times; i++ {
			offers = append(offers, offer{cand: idx, path: path})
		}
	}
	emptyMutants := []string{"blockroot-bitflip", "timestamp=prev", "prevhash-older-block", "sig-garbled", "sig-over-other-hash", "height+1",
		"forge/empty-txlist-random-txroot", "forge/txroot-random-rebuilt", "forge/txlist-single-tx-txroot-random-rebuilt"}
	txMutants := append([]string{"wrong-state-root-arg", "txlist-drop-last", "txlist-append-extra", "forge/txs-stripped-header-kept",
		"forge/wire-txcount-zero-txs-trailing", "forge/dup-last-roots-rebuilt", "forge/txroot-zero-with-txs-rebuilt", "signed-by-non-bookkeeper"}, emptyMutants[:6]...)
	switch shape {
	case "same-empty-block-twice":
		add(mk("A(empty)", nil, 0, 0), "AddBlock", 2)
	case "same-empty-block-k-times":
		add(mk("A(empty)", nil, 0, 0), "AddBlock", 3+rng.Intn(vf.N(2, 4)))
	case "two-valid-empty-blocks":
		add(mk("A(empty)", nil, 0, 0), "AddBlock", 1)
		if rng.Bool() {
			add(mk("B(empty,other-timestamp)", nil, ts+1+uint32(rng.Intn(8)), 0), "AddBlock", 1)
		} else {
			add(mk("B(empty,other-consensus-data)", nil, 0, 1+rng.U64()>>1), "AddBlock", 1)
		}
	case "two-valid-empty-blocks-each-twice":
		add(mk("A(empty)", nil, 0, 0), "AddBlock", 2)
		add(mk("B(empty,other-timestamp)", nil, ts+1+uint32(rng.Intn(8)), 0), "AddBlock", 2)
	case "same-tx-block-twice":
		add(mk("A(txs)", simpleTxs(w, rng, nTx), 0, 0), "AddBlock", 2+rng.Intn(2))
	case "two-valid-tx-blocks-same-txs":
		txs := simpleTxs(w, rng, nTx)
		add(mk("A(txs)", txs, 0, 0), "AddBlock", 1)
		add(mk("B(same-txs,other-timestamp)", txs, ts+1+uint32(rng.Intn(8)), 0), "AddBlock", 1)
	case "two-valid-tx-blocks-other-txs":
		txs := simpleTxs(w, rng, nTx+1)
		add(mk("A(txs)", txs, 0, 0), "AddBlock", 1)
		switch rng.Intn(3) {
		case 0:
			add(mk("B(one-tx-fewer)", txs[:len(txs)-1], 0, 0), "AddBlock", 1)
		case 1:
			rev := make([]*types.Transaction, len(txs))
			for i, t := range txs {
				rev[len(txs)-1-i] = t
			}
			add(mk("B(txs-reversed)", rev, 0, 0), "AddBlock", 1)
		default:
			add(mk("B(empty)", nil, 0, 0), "AddBlock", 1)
		}
	case "valid-empty+mutants", "valid-tx+mutants":
		var a *candidate
		names := emptyMutants
		if shape == "valid-tx+mutants" {
			a = mk("A(txs)", simpleTxs(w, rng, nTx+1), 0, 0)
			names = txMutants
		} else {
			a = mk("A(empty)", nil, 0, 0)
		}
		add(a, "AddBlock", 1+rng.Intn(2))
		perm := rng.Perm(len(names))
		n := 2 + rng.Intn(3)
		for _, pi := range perm {
			if n == 0 {
				break
			}
			if m := mutantOf(a, names[pi]); m != nil {
				path := "AddBlock"
				if rng.Chance(25) {
					path = "Execute+Submit"
				}
				add(m, path, 1)
				n--
			}
		}
		if rng.Chance(30) {
			add(a, "AddHeaders", 1)
		}
	case "same-block-mixed-paths":
		var a *candidate
		if rng.Bool() {
			a = mk("A(empty)", nil, 0, 0)
		} else {
			a = mk("A(txs)", simpleTxs(w, rng, nTx), 0, 0)
		}
		add(a, "AddBlock", 1+rng.Intn(2))
		add(a, "Execute+Submit", 1)
		if rng.Chance(60) {
			add(a, "AddHeaders", 1)
		}
	default:
		panic("shape " + shape)
	}
	// the goroutines are started in a seeded order
	perm := rng.Perm(len(offers))
	sh := make([]offer, len(offers))
	for i, p := range perm {
		sh[i] = offers[p]
	}
	return cands, sh
}
