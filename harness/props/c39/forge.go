package main

// "Consistent forgeries": a field of a valid next block is mutated and then every field downstream of it that the
// PROPOSER controls is rebuilt the way a proposer builds it — the block root through the ledger's own helper
// (GetBlockRootWithNewTxRoots over the header's transaction root), the signatures by the real bookkeepers.  What is
// left wrong is exactly one relation that only the receiving side can check: the transaction root of the header is
// not the merkle root of the transactions the block carries (or the list repeats a transaction).  Such a block passes
// header verification, the block-root check and (with no transactions) the state-root check, so the comparison of
// the transaction root with the transaction list is the only thing between it and the ledger.
//
// Oracle (tryMutants): a block whose TransactionsRoot differs from the merkle root of its own transaction list is
// never accepted — neither decoded from raw block bytes, nor out of the p2p block message, through AddBlock or
// ExecuteBlock+SubmitBlock, before or after its header became known by header sync — and leaves the ledger unchanged.

import (
	"encoding/binary"

	"github.com/ontio/ontology/common"
	"github.com/ontio/ontology/core/types"
)

func txHashes(txs []*types.Transaction) []common.Uint256 {
	hs := make([]common.Uint256, 0, len(txs))
	for _, t := range txs {
		hs = append(hs, t.Hash())
	}
	return hs
}

// merkleOf is the transaction root of a list (ComputeMerkleRoot overwrites its argument: always a fresh slice).
func merkleOf(txs []*types.Transaction) common.Uint256 {
	return common.ComputeMerkleRoot(txHashes(txs))
}

func txRootInconsistent(b *types.Block) bool {
	return b.Header.TransactionsRoot != merkleOf(b.Transactions)
}

// rebuildBlockRoot derives the block root from the header's (possibly forged) transaction root exactly like
// consensus/solo.makeBlock and chain.MakeBlock do; the caller re-signs (mutant.reseal).
func rebuildBlockRoot(b *types.Block, x *mctx) {
	b.Header.BlockRoot = x.c.Ledger.GetBlockRootWithNewTxRoots(b.Header.Height, []common.Uint256{b.Header.TransactionsRoot})
}

func nonZeroHash(x *mctx) common.Uint256 {
	var h common.Uint256
	copy(h[:], x.rng.Bytes(32))
	h[x.rng.Intn(32)] |= 1
	return h
}

// headerLen is the length of the encoded header = offset of the transaction count in the encoded block.
func headerLen(b *types.Block) int {
	sink := common.NewZeroCopySink(nil)
	b.Header.Serialization(sink)
	return len(sink.Bytes())
}

func forgeries() []mutant {
	return []mutant{
		// ---- the boundary: NO transactions, transaction root not the root of the empty list
		{name: "forge/empty-txlist-random-txroot", forge: true, reseal: true, apply: func(b *types.Block, x *mctx) bool {
			b.Transactions = nil
			b.Header.TransactionsRoot = nonZeroHash(x)
			rebuildBlockRoot(b, x)
			return true
		}},
		{name: "forge/empty-txlist-txroot=one-tx-hash", forge: true, reseal: true, apply: func(b *types.Block, x *mctx) bool {
			b.Transactions = nil
			b.Header.TransactionsRoot = x.extraTx.Hash()
			rebuildBlockRoot(b, x)
			return true
		}},
		{name: "forge/empty-txlist-txroot=one-bit", forge: true, reseal: true, apply: func(b *types.Block, x *mctx) bool {
			b.Transactions = nil
			b.Header.TransactionsRoot = common.Uint256{}
			b.Header.TransactionsRoot[x.rng.Intn(32)] = byte(1 << uint(x.rng.Intn(8)))
			rebuildBlockRoot(b, x)
			return true
		}},
		// the valid header (hash, block root, signatures all untouched) over a body stripped of its transactions
		{name: "forge/txs-stripped-header-kept", forge: true, sameHeader: true, apply: func(b *types.Block, x *mctx) bool {
			if len(b.Transactions) == 0 {
				return false
			}
			b.Transactions = nil
			return true
		}},
		// the same on the wire only: transaction count patched to zero, the transactions still trail the block
		{name: "forge/wire-txcount-zero-txs-trailing", forge: true, sameHeader: true,
			apply: func(b *types.Block, x *mctx) bool { return len(b.Transactions) > 0 },
			wire: func(raw []byte, b *types.Block) []byte {
				out := append([]byte{}, raw...)
				binary.LittleEndian.PutUint32(out[headerLen(b):], 0)
				return out
			}},
		// ---- transactions present, transaction root forged, everything downstream rebuilt
		{name: "forge/txroot-bitflip-rebuilt", forge: true, reseal: true, apply: func(b *types.Block, x *mctx) bool {
			b.Header.TransactionsRoot = flip(b.Header.TransactionsRoot, x.rng)
			rebuildBlockRoot(b, x)
			return true
		}},
		{name: "forge/txroot-random-rebuilt", forge: true, reseal: true, apply: func(b *types.Block, x *mctx) bool {
			b.Header.TransactionsRoot = nonZeroHash(x)
			rebuildBlockRoot(b, x)
			return true
		}},
		{name: "forge/txroot-zero-with-txs-rebuilt", forge: true, reseal: true, apply: func(b *types.Block, x *mctx) bool {
			if len(b.Transactions) == 0 {
				return false
			}
			b.Header.TransactionsRoot = common.Uint256{}
			rebuildBlockRoot(b, x)
			return true
		}},
		{name: "forge/txroot-of-longer-list-rebuilt", forge: true, reseal: true, apply: func(b *types.Block, x *mctx) bool {
			// commits to one transaction more than it carries
			b.Header.TransactionsRoot = merkleOf(append(append([]*types.Transaction{}, b.Transactions...), x.extraTx))
			rebuildBlockRoot(b, x)
			return true
		}},
		{name: "forge/txroot-of-shorter-list-rebuilt", forge: true, reseal: true, apply: func(b *types.Block, x *mctx) bool {
			// commits to one transaction fewer than it carries (to none when it carries one)
			if len(b.Transactions) == 0 {
				return false
			}
			b.Header.TransactionsRoot = merkleOf(b.Transactions[:len(b.Transactions)-1])
			rebuildBlockRoot(b, x)
			return true
		}},
		{name: "forge/txlist-single-tx-txroot-random-rebuilt", forge: true, reseal: true, apply: func(b *types.Block, x *mctx) bool {
			b.Transactions = []*types.Transaction{x.extraTx}
			b.Header.TransactionsRoot = nonZeroHash(x)
			rebuildBlockRoot(b, x)
			return true
		}},
		// ---- duplicated transactions; roots rebuilt over the list WITH the duplicate: root, block root and signatures are
		// all consistent, the list itself is what is wrong
		{name: "forge/dup-last-roots-rebuilt", forge: true, reseal: true, apply: func(b *types.Block, x *mctx) bool {
			if len(b.Transactions) == 0 {
				return false
			}
			b.Transactions = append(b.Transactions, b.Transactions[len(b.Transactions)-1])
			b.Header.TransactionsRoot = merkleOf(b.Transactions)
			rebuildBlockRoot(b, x)
			return true
		}},
		{name: "forge/dup-first-in-the-middle-roots-rebuilt", forge: true, reseal: true, apply: func(b *types.Block, x *mctx) bool {
			if len(b.Transactions) < 2 {
				return false
			}
			l := []*types.Transaction{b.Transactions[0], b.Transactions[0]}
			b.Transactions = append(l, b.Transactions[1:]...)
			b.Header.TransactionsRoot = merkleOf(b.Transactions)
			rebuildBlockRoot(b, x)
			return true
		}},
		// an odd list and the same list with its last element repeated have the SAME merkle root (the odd tail is hashed
		// with itself): a fully valid odd block, then the duplicate appended without touching the header
		{name: "forge/dup-odd-tail-same-root", forge: true, reseal: true, apply: func(b *types.Block, x *mctx) bool {
			l := append([]*types.Transaction{}, b.Transactions...)
			if len(l)%2 == 0 {
				l = append(l, x.extraTx)
			}
			if len(l) < 3 {
				return false
			}
			b.Header.TransactionsRoot = merkleOf(l)
			b.Transactions = append(l, l[len(l)-1])
			if merkleOf(b.Transactions) != b.Header.TransactionsRoot {
				panic("odd-tail duplication changed the merkle root: the monitor's assumption about ComputeMerkleRoot is wrong")
			}
			rebuildBlockRoot(b, x)
			return true
		}},
	}
}
