// C39 — Invalid blocks are rejected without changing the ledger.
// Mutation monitor: single-field mutants of valid next blocks are offered through both
// commit paths; every mutant must be refused and the full ledger fingerprint must be
// identical afterwards; the valid block must still be accepted with the reference result.
package main

import (
	"fmt"
	"os"
	"path/filepath"
	"runtime"
	"strings"

	"github.com/ontio/ontology/account"
	"github.com/ontio/ontology/common"
	"github.com/ontio/ontology/core/types"
	mt "github.com/ontio/ontology/p2pserver/message/types"
	"verifharness/lib/chain"
	"verifharness/lib/vf"
)

type mutant struct {
	name   string
	reseal bool // re-sign after the mutation so that only the mutated field is wrong
	apply  func(b *types.Block, ctx *mctx) bool
	// wrongRoot: offer the unmodified block but with a wrong state-root argument (AddBlock path)
	wrongRoot bool
	// signers != nil: seal with exactly these signers (signature-count mutants)
	signers func(ctx *mctx) []*account.Account
	// idempotent: documented "height <= current returns nil" case
	idempotent bool
	// sameHeader: the mutant keeps the valid block's header bytes (hence its hash and signatures): also offered
	// after the valid header became known through header sync
	sameHeader bool
	// forge: a "consistent forgery" (forge.go): every field the proposer controls downstream of the mutated one
	// was rebuilt (block root through the ledger's own helper, signatures by the bookkeepers)
	forge bool
	// wire: byte surgery on the encoded block (wire-only shapes that no block object serialises to)
	wire func(raw []byte, b *types.Block) []byte
}

type mctx struct {
	c       *chain.Chain
	rng     *vf.RNG
	prev    *types.Header
	older   common.Uint256 // hash of an older block
	outside *account.Account
	extraTx *types.Transaction
}

func clone(b *types.Block) *types.Block {
	nb, err := types.BlockFromRawBytes(b.ToArray())
	if err != nil {
		panic(err)
	}
	return nb
}

func flip(h common.Uint256, rng *vf.RNG) common.Uint256 {
	h[rng.Intn(32)] ^= byte(1 << uint(rng.Intn(8)))
	return h
}

func mutants(multi bool) []mutant {
	ms := []mutant{
		{name: "height+1", reseal: true, apply: func(b *types.Block, x *mctx) bool { b.Header.Height++; return true }},
		{name: "height+2", reseal: true, apply: func(b *types.Block, x *mctx) bool { b.Header.Height += 2; return true }},
		{name: "height-1(current)", reseal: true, idempotent: true, apply: func(b *types.Block, x *mctx) bool { b.Header.Height--; return true }},
		{name: "prevhash-random", reseal: true, apply: func(b *types.Block, x *mctx) bool {
			copy(b.Header.PrevBlockHash[:], x.rng.Bytes(32))
			return true
		}},
		{name: "prevhash-bitflip", reseal: true, apply: func(b *types.Block, x *mctx) bool {
			b.Header.PrevBlockHash = flip(b.Header.PrevBlockHash, x.rng)
			return true
		}},
		{name: "prevhash-older-block", reseal: true, apply: func(b *types.Block, x *mctx) bool {
			if x.older == b.Header.PrevBlockHash {
				return false
			}
			b.Header.PrevBlockHash = x.older
			return true
		}},
		{name: "timestamp=prev", reseal: true, apply: func(b *types.Block, x *mctx) bool { b.Header.Timestamp = x.prev.Timestamp; return true }},
		{name: "timestamp=prev-1", reseal: true, apply: func(b *types.Block, x *mctx) bool { b.Header.Timestamp = x.prev.Timestamp - 1; return true }},
		{name: "timestamp=0", reseal: true, apply: func(b *types.Block, x *mctx) bool { b.Header.Timestamp = 0; return true }},
		{name: "blockroot-bitflip", reseal: true, apply: func(b *types.Block, x *mctx) bool {
			b.Header.BlockRoot = flip(b.Header.BlockRoot, x.rng)
			return true
		}},
		{name: "blockroot-zero", reseal: true, apply: func(b *types.Block, x *mctx) bool { b.Header.BlockRoot = common.Uint256{}; return true }},
		{name: "txroot-bitflip", reseal: true, apply: func(b *types.Block, x *mctx) bool {
			b.Header.TransactionsRoot = flip(b.Header.TransactionsRoot, x.rng)
			return true
		}},
		{name: "txlist-drop-last", reseal: false, sameHeader: true, apply: func(b *types.Block, x *mctx) bool {
			if len(b.Transactions) == 0 {
				return false
			}
			b.Transactions = b.Transactions[:len(b.Transactions)-1]
			return true
		}},
		{name: "txlist-append-extra", reseal: false, sameHeader: true, apply: func(b *types.Block, x *mctx) bool {
			b.Transactions = append(b.Transactions, x.extraTx)
			return true
		}},
		{name: "txlist-duplicate-last", reseal: false, sameHeader: true, apply: func(b *types.Block, x *mctx) bool {
			if len(b.Transactions) == 0 {
				return false
			}
			b.Transactions = append(b.Transactions, b.Transactions[len(b.Transactions)-1])
			return true
		}},
		{name: "txlist-swap", reseal: false, sameHeader: true, apply: func(b *types.Block, x *mctx) bool {
			if len(b.Transactions) < 2 || b.Transactions[0].Hash() == b.Transactions[1].Hash() {
				return false
			}
			b.Transactions[0], b.Transactions[1] = b.Transactions[1], b.Transactions[0]
			return true
		}},
		{name: "txlist-changed-root-fixed-blockroot-stale", reseal: true, apply: func(b *types.Block, x *mctx) bool {
			// tx list altered AND tx root recomputed, but the block root still commits to the old tx root
			b.Transactions = append(b.Transactions, x.extraTx)
			var hs []common.Uint256
			for _, t := range b.Transactions {
				hs = append(hs, t.Hash())
			}
			b.Header.TransactionsRoot = common.ComputeMerkleRoot(hs)
			return true
		}},
		{name: "sig-removed", signers: func(x *mctx) []*account.Account { return nil }},
		{name: "sig-garbled", apply: func(b *types.Block, x *mctx) bool {
			s := append([]byte{}, b.Header.SigData[0]...)
			s[len(s)/2] ^= 0x40
			b.Header.SigData[0] = s
			return true
		}},
		{name: "sig-over-other-hash", apply: func(b *types.Block, x *mctx) bool {
			// valid signatures, but of a different header (consensus data changed after signing)
			b.Header.ConsensusData ^= 1
			return true
		}},
		{name: "signed-by-non-bookkeeper", apply: func(b *types.Block, x *mctx) bool {
			oc := *x.c
			oc.BKs = []*account.Account{x.outside}
			if err := oc.SealWith(b, oc.BKs); err != nil {
				panic(err)
			}
			return true
		}},
		{name: "wrong-state-root-arg", wrongRoot: true},
	}
	ms = append(ms, forgeries()...)
	if multi {
		ms = append(ms,
			mutant{name: "sigs-below-threshold", signers: func(x *mctx) []*account.Account {
				n := len(x.c.BKs)
				return x.c.BKs[:n-(n-1)/3-1]
			}},
			mutant{name: "sigs-threshold-but-one-duplicated", apply: func(b *types.Block, x *mctx) bool {
				n := len(x.c.BKs)
				m := n - (n-1)/3
				if err := x.c.SealWith(b, x.c.BKs[:m-1]); err != nil {
					panic(err)
				}
				b.Header.SigData = append(b.Header.SigData, b.Header.SigData[0])
				return true
			}},
			mutant{name: "sigs-threshold-one-by-outsider", apply: func(b *types.Block, x *mctx) bool {
				n := len(x.c.BKs)
				m := n - (n-1)/3
				signers := append(append([]*account.Account{}, x.c.BKs[:m-1]...), x.outside)
				if err := x.c.SealWith(b, signers); err != nil {
					panic(err)
				}
				return true
			}},
		)
	}
	return ms
}

// offerPaths: how a block reaches the ledger.  Every path starts from BYTES and goes through the decoder the node
// uses for that path (types.BlockFromRawBytes for sync/consensus payloads, the p2p block message for block sync).
var offerPaths = []string{"AddBlock", "Execute+Submit", "p2p-msg"}

type view struct {
	fp       chain.Fingerprint
	nextHash common.Uint256
	curHash  common.Uint256
}

func observe(c *chain.Chain) view {
	return view{fp: c.Fingerprint(), nextHash: c.Ledger.GetBlockHash(c.Ledger.GetCurrentBlockHeight() + 1), curHash: c.Ledger.GetCurrentBlockHash()}
}

func main() {
	r := vf.NewRun("C39", "exploration",
		"solo and 4/7-bookkeeper chains; at sampled heights a valid next block B is built and each single-field mutant (height, prev hash, timestamp, block root, tx root, tx list, signatures, state-root argument) and each consistent forgery (tx root / tx list mutated, block root and signatures rebuilt; empty list with non-zero root; duplicates) is offered as bytes->decode->AddBlock, ->ExecuteBlock+SubmitBlock and p2p block message->AddBlock, before and after header sync; a case = (chain kind, height, mutant, path); non-trivial = mutant applicable; distinct by that tuple. Concurrent stage: per height k>=2 blocks for that height (same block k times / different valid blocks / valid among mutants) offered from k goroutines released by a barrier; a case = (chain kind, height, shape, k)")
	scratch := vf.Scratch("c39")
	defer os.RemoveAll(scratch)
	rng := vf.NewRNG(vf.Seed())
	kinds := []int{1, 4}
	if vf.Thorough() {
		kinds = []int{1, 4, 7, 1, 4}
	}
	for ki, nbk := range kinds {
		runChain(r, rng.Sub(uint64(ki)), filepath.Join(scratch, fmt.Sprintf("chain%d", ki)), nbk, ki)
	}
	// concurrent stage (concurrent.go): k blocks for the same height released by a barrier
	// (on a machine with few CPUs the goroutines get more OS threads than CPUs, so that the kernel interleaves them too)
	procs := runtime.GOMAXPROCS(0)
	if procs < 4 {
		runtime.GOMAXPROCS(4)
	}
	concKinds := []int{1, 1, 4}
	if vf.Thorough() {
		concKinds = []int{1, 1, 1, 1, 1, 1, 4, 4, 7}
	}
	for i, nbk := range concKinds {
		rounds := vf.N(300, 600)
		if nbk > 1 {
			rounds = vf.N(150, 400)
		}
		runConcurrent(r, rng.Sub(uint64(1000+i)), filepath.Join(scratch, fmt.Sprintf("conc%d", i)), nbk, 100+i, rounds)
	}
	runtime.GOMAXPROCS(procs)
	probeUndecodedObject(r, filepath.Join(scratch, "probe"))
	for _, m := range mutants(true) {
		r.Require("mutant/"+m.name, 2)
		if m.sameHeader {
			r.Require("mutant_after_header_sync/"+m.name, 2)
		}
	}
	for _, p := range offerPaths {
		r.Require("forgery_offered/"+p, 20)
		r.Require("offered_with_inconsistent_txroot/"+p, 20)
	}
	r.Require("offered_empty_txlist_nonzero_txroot", 20)
	r.Require("inconsistent_txroot_rejected", 60)
	r.Require("rejected_at_p2p_msg_decode", 5)
	r.Require("rejected_by_p2p-msg", 20)
	for _, s := range concShapes {
		r.Require("concurrent_round/"+s, 15)
	}
	r.Require("concurrent_offers", 1500)
	r.Require("concurrent_offers/AddBlock", 1200)
	r.Require("concurrent_offers/Execute+Submit", 10)
	r.Require("concurrent_offers/AddHeaders", 5)
	r.Require("concurrent_round_equal_to_reference", 700)
	r.Require("concurrent_chain_extended_after_round", 700)
	r.Require("concurrent_final_honest_block", 3)
	r.Require("rejected_at_decode", 5)
	r.Require("mutant_after_header_sync/sig-removed", 2)
	r.Require("mutant_after_header_sync/sig-garbled", 2)
	r.Require("rejected_by_AddBlock", 20)
	r.Require("rejected_by_Execute+Submit", 20)
	r.Require("valid_block_accepted_after_mutants", 5)
	r.Require("idempotent_old_height", 2)
	r.Assume("concurrent stage: which of several valid blocks for one height wins, and what each of the concurrent calls returns, depends on the scheduler and is not judged; the verdict (one step, one valid winner in every query family, equality with a reference ledger fed the winners only) does not")
	r.Assume("blocks reach the ledger as bytes (decoded with BlockFromRawBytes) as they do from the network; mutants that change a signed field are re-signed by the bookkeepers so that exactly one check can reject them")
	os.RemoveAll(scratch)
	r.Finish()
}

func runChain(r *vf.Run, rng *vf.RNG, dir string, nbk int, ki int) {
	tag := fmt.Sprintf("c39-%d-%d", vf.Seed(), ki)
	w := chain.NewWorld(tag, 5)
	var c *chain.Chain
	var err error
	multi := nbk > 1
	if multi {
		var bks []*account.Account
		for i := 0; i < nbk; i++ {
			bks = append(bks, chain.DetAccount(fmt.Sprintf("%s/bk%d", tag, i)))
		}
		c, err = chain.NewMulti(dir, bks)
	} else {
		c, err = chain.NewSolo(dir, w.BK)
	}
	if err != nil {
		panic(err)
	}
	defer c.Close()
	L := vf.N(9, 24)
	outside := chain.DetAccount(tag + "/outsider")
	for h := 1; h <= L; h++ {
		var txs []*types.Transaction
		if !multi { // on the multi-bookkeeper chain the tokens sit in a multisig account: blocks carry (failing) transfers only
			if h == 1 {
				txs = w.FundingTxs()
			} else {
				txs, _ = w.RandomTxs(rng.Sub(uint64(h)), 6)
			}
		} else if h > 1 {
			txs, _ = w.RandomTxs(rng.Sub(uint64(h)), 3)
			// EVM txs need funded accounts; drop them on this chain
			var keep []*types.Transaction
			for _, t := range txs {
				if t.TxType != types.EIP155 {
					keep = append(keep, t)
				}
			}
			txs = keep
		}
		if h > 1 && len(txs) < 2 {
			t1, _ := w.TB.TransferTx("ont", w.Accts[0], w.Accts[1].Address, 1, 0, 20000)
			t2, _ := w.TB.TransferTx("ong", w.Accts[1], w.Accts[2].Address, 1, 0, 20000)
			txs = append(txs, t1, t2)
		}
		B, err := c.MakeBlock(txs, 0)
		if err != nil {
			panic(err)
		}
		ref, err := c.Ledger.ExecuteBlock(B)
		if err != nil {
			panic(fmt.Errorf("reference block invalid: %v", err))
		}
		if h >= 2 && (h%2 == 0 || vf.Thorough()) {
			tryMutants(r, rng.Sub(uint64(h)+500), c, B, ref.MerkleRoot, outside, w, multi, fmt.Sprintf("%dbk", nbk), false)
			// header-first sync: the valid header becomes known (a legitimate step), then blocks with that very
			// header hash but other signature lists are offered (the block hash does not cover the signatures)
			if err := c.Ledger.AddHeaders([]*types.Header{clone(B).Header}); err != nil {
				r.Violation("valid-header-rejected", err.Error(), map[string]interface{}{"height": h, "chain": nbk})
			} else {
				tryMutants(r, rng.Sub(uint64(h)+900), c, B, ref.MerkleRoot, outside, w, multi, fmt.Sprintf("%dbk", nbk), true)
			}
		}
		// the valid block must (still) be accepted with the reference result
		res2, err := c.Ledger.ExecuteBlock(B)
		if err != nil || res2.Hash != ref.Hash || res2.MerkleRoot != ref.MerkleRoot {
			r.Violation("valid-block-executes-differently-after-mutants", fmt.Sprintf("err=%v", err), map[string]interface{}{"height": h, "chain": nbk})
			return
		}
		if h%2 == 0 {
			err = c.CommitSync(B, ref.MerkleRoot)
		} else {
			err = c.Ledger.SubmitBlock(B, nil, res2)
		}
		if err != nil || c.Ledger.GetCurrentBlockHeight() != uint32(h) {
			r.Violation("valid-block-rejected-after-mutants", fmt.Sprintf("err=%v", err), map[string]interface{}{"height": h, "chain": nbk})
			return
		}
		r.Count("valid_block_accepted_after_mutants")
	}
}

func tryMutants(r *vf.Run, rng *vf.RNG, c *chain.Chain, B *types.Block, root common.Uint256, outside *account.Account, w *chain.World, multi bool, kind string, headerSynced bool) {
	cur := c.Ledger.GetCurrentBlockHeight()
	prev, _ := c.Ledger.GetHeaderByHeight(cur)
	older := c.Ledger.GetBlockHash(cur - 1)
	extra, _ := w.TB.TransferTx("ont", w.Accts[2], w.Accts[3].Address, 3, 0, 20000)
	before := observe(c)
	for mi, m := range mutants(multi) {
		if headerSynced && !(strings.HasPrefix(m.name, "sig") || m.sameHeader) {
			continue // after the header was synced only mutants with the SAME header hash are of interest: signature lists and bodies
		}
		for _, path := range offerPaths {
			x := &mctx{c: c, rng: rng.Sub(uint64(mi)), prev: prev, older: older, outside: outside, extraTx: extra}
			mb := clone(B)
			if m.apply != nil {
				if !m.apply(mb, x) {
					continue
				}
			}
			if m.reseal {
				if err := c.Seal(mb); err != nil {
					panic(err)
				}
			}
			if m.signers != nil {
				if err := c.SealWith(mb, m.signers(x)); err != nil {
					panic(err)
				}
			}
			if m.wrongRoot && (path == "Execute+Submit" || len(B.Transactions) == 0) {
				continue // the state-root argument only exists on the AddBlock paths and is not checked for empty blocks
			}
			// blocks travel as bytes
			raw := serialize(mb)
			if m.wire != nil {
				raw = m.wire(raw, mb)
			}
			id := map[string]interface{}{"chain": kind, "height": cur + 1, "mutant": m.name, "path": path, "block_hex": vf.HexTrunc(raw, 4096)}
			if headerSynced {
				id["after_header_sync"] = true
				r.Count("mutant_after_header_sync/" + m.name)
				path2 := path + "/after-header-sync"
				r.Eval(fmt.Sprintf("%s/%d/%s/%s", kind, cur+1, m.name, path2))
			} else {
				r.Count("mutant/" + m.name)
				r.Eval(fmt.Sprintf("%s/%d/%s/%s", kind, cur+1, m.name, path))
			}
			badTxRoot := m.wire == nil && txRootInconsistent(mb)
			if m.wire != nil {
				badTxRoot = true // the wire shapes all carry a transaction root that is not the root of the encoded list
			}
			if badTxRoot {
				r.Count("offered_with_inconsistent_txroot")
				r.Count("offered_with_inconsistent_txroot/" + path)
				if len(mb.Transactions) == 0 || m.wire != nil {
					r.Count("offered_empty_txlist_nonzero_txroot")
				}
				id["txroot_inconsistent_with_txlist"] = true
			}
			if m.forge {
				r.Count("forgery_offered/" + path)
			}
			rt := root
			if m.wrongRoot {
				rt = flip(root, x.rng)
			}
			var offered *types.Block
			var err error
			stage := ""
			switch path {
			case "AddBlock", "Execute+Submit":
				var derr error
				offered, derr = types.BlockFromRawBytes(raw)
				if derr != nil {
					err = derr
					stage = "decode"
					r.Count("rejected_at_decode")
				} else if path == "AddBlock" {
					err = c.Ledger.AddBlock(offered, nil, rt)
					stage = "AddBlock"
				} else {
					er, e1 := c.Ledger.ExecuteBlock(offered)
					if e1 != nil {
						err = e1
						stage = "ExecuteBlock"
					} else {
						err = c.Ledger.SubmitBlock(offered, nil, er)
						stage = "SubmitBlock"
					}
				}
			case "p2p-msg":
				// the block-sync message of the p2p layer: block bytes, state merkle root, "has cross chain msg" flag;
				// what the receiving side does with it: decode the message, hand its three parts to AddBlock
				payload := append(append(append([]byte{}, raw...), rt[:]...), 0)
				var in mt.Block
				if derr := in.Deserialization(common.NewZeroCopySource(payload)); derr != nil {
					err = derr
					stage = "decode"
					r.Count("rejected_at_decode")
					r.Count("rejected_at_p2p_msg_decode")
				} else {
					offered = in.Blk
					err = c.Ledger.AddBlock(in.Blk, in.CCMsg, in.MerkleRoot)
					stage = "AddBlock"
				}
			}
			if badTxRoot && stage != "decode" {
				r.Count("inconsistent_txroot_passed_decoder") // informative: then the ledger's own checks are the last line
			}
			after := observe(c)
			changed := before.fp.Diff(after.fp)
			if changed == "" && (before.nextHash != after.nextHash || before.curHash != after.curHash) {
				changed = "block hash index"
			}
			if m.idempotent {
				// documented: a block at height <= current is ignored (nil); it must change nothing
				r.Count("idempotent_old_height")
				if changed != "" {
					r.Violation("old-height-block-changed-ledger:"+path, changed, id)
					return
				}
				continue
			}
			if err == nil {
				what := "no error returned (stage " + stage + "), ledger change: " + changed
				if badTxRoot {
					what = "a block whose TransactionsRoot is not the merkle root of its own transaction list was accepted: " + what
				}
				r.Violation("invalid-block-accepted:"+m.name+":"+path, what, id)
				return // the chain has moved; stop this height
			}
			if stage != "decode" {
				r.Count("rejected_by_" + path)
			}
			if badTxRoot {
				r.Count("inconsistent_txroot_rejected")
			}
			if changed != "" {
				r.Violation("rejected-block-changed-ledger:"+m.name+":"+path, fmt.Sprintf("error %q returned but %s changed", err.Error(), changed), id)
				return
			}
			if ok, _ := c.Ledger.IsContainBlock(offered_hash(offered, mb)); ok {
				r.Violation("rejected-block-stored:"+m.name+":"+path, "IsContainBlock(mutant) is true", id)
			}
		}
	}
	r.Sample(map[string]interface{}{"chain": kind, "height": cur + 1, "txs": len(B.Transactions), "mutants_tried": len(mutants(multi))})
}

func offered_hash(o, m *types.Block) common.Uint256 {
	if o != nil {
		return o.Hash()
	}
	return m.Hash()
}

// serialize re-encodes a block object without going through cached raw bytes.
func serialize(b *types.Block) []byte {
	sink := common.NewZeroCopySink(nil)
	b.Serialization(sink)
	return sink.Bytes()
}

// probeUndecodedObject records (it is NOT a verdict) what the ledger does with a forged block OBJECT that never went
// through a decoder.  The comparison of the transaction root with the transaction list lives in Block.Deserialization
// only, and every block that reaches a node from outside is decoded, so the verdicts above always decode.
func probeUndecodedObject(r *vf.Run, dir string) {
	w := chain.NewWorld(fmt.Sprintf("c39p-%d", vf.Seed()), 5)
	c, err := chain.NewSolo(dir, w.BK)
	if err != nil {
		panic(err)
	}
	defer c.Close()
	b1, _ := c.MakeBlock(w.FundingTxs(), 0)
	if _, err := c.CommitExec(b1); err != nil {
		panic(err)
	}
	b, _ := c.MakeBlock(nil, 0)
	b.Header.TransactionsRoot = common.Uint256{0xde, 0xad}
	b.Header.BlockRoot = c.Ledger.GetBlockRootWithNewTxRoots(b.Header.Height, []common.Uint256{b.Header.TransactionsRoot})
	if err := c.Seal(b); err != nil {
		panic(err)
	}
	_, derr := types.BlockFromRawBytes(serialize(b))
	err = c.Ledger.AddBlock(b, nil, common.UINT256_EMPTY)
	out := "rejected"
	if err == nil && c.Ledger.GetCurrentBlockHeight() == 2 {
		out = "accepted"
	}
	r.Count("info/undecoded_forged_object_" + out + "_by_AddBlock")
	r.Extra("undecoded_object_probe", map[string]interface{}{
		"what":             "empty block object, TransactionsRoot dead00.., block root and signature rebuilt, handed to AddBlock WITHOUT decoding (informative, not a verdict)",
		"decoder_says":     fmt.Sprint(derr),
		"AddBlock_says":    fmt.Sprint(err),
		"ledger_outcome":   out,
		"height_afterward": c.Ledger.GetCurrentBlockHeight(),
	})
}
