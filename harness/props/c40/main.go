// C40 — Chain queries agree with each other for every stored block.
// Cross-query consistency monitor over generated chains, across restarts and (thorough,
// -race) with concurrent readers during commits.
package main

import (
	"bytes"
	"fmt"
	"os"
	"path/filepath"
	"sync"
	"sync/atomic"

	"github.com/ontio/ontology/common"
	"github.com/ontio/ontology/core/store/ledgerstore"
	"github.com/ontio/ontology/core/types"
	"verifharness/lib/chain"
	"verifharness/lib/racelog"
	"verifharness/lib/vf"
)

type committed struct {
	hash    common.Uint256
	raw     []byte
	hdrRaw  []byte
	txHash  []common.Uint256
	txRaw   [][]byte
	viaSync bool
}

var (
	rivalAt   = map[uint32]common.Uint256{} // height -> hash of a competing header announced before the commit
	crashDirs [][2]string
	crashAt   uint32
	r         *vf.Run
	known     []committed // index = height
	mu        sync.RWMutex
)

func checkHeight(c *chain.Chain, h uint32, stage string) {
	mu.RLock()
	k := known[h]
	mu.RUnlock()
	id := map[string]interface{}{"height": h, "stage": stage, "hash": k.hash.ToHexString()}
	l := c.Ledger
	fail := func(q, what string) {
		r.Violation("query-disagrees:"+q+":"+stage, what, id)
	}
	if got := l.GetBlockHash(h); got != k.hash {
		fail("GetBlockHash", fmt.Sprintf("got %s", got.ToHexString()))
	}
	if b, err := l.GetBlockByHeight(h); err != nil || b == nil {
		fail("GetBlockByHeight", fmt.Sprintf("err=%v nil=%v", err, b == nil))
	} else if !bytes.Equal(b.ToArray(), k.raw) {
		fail("GetBlockByHeight", "block bytes differ from committed block")
	}
	if b, err := l.GetBlockByHash(k.hash); err != nil || b == nil {
		fail("GetBlockByHash", fmt.Sprintf("err=%v", err))
	} else if !bytes.Equal(b.ToArray(), k.raw) {
		fail("GetBlockByHash", "block bytes differ from committed block")
	}
	if hd, err := l.GetHeaderByHash(k.hash); err != nil || hd == nil {
		fail("GetHeaderByHash", fmt.Sprintf("err=%v", err))
	} else if !bytes.Equal(hd.ToArray(), k.hdrRaw) {
		fail("GetHeaderByHash", "header bytes differ")
	}
	if hd, err := l.GetHeaderByHeight(h); err != nil || hd == nil {
		fail("GetHeaderByHeight", fmt.Sprintf("err=%v", err))
	} else if !bytes.Equal(hd.ToArray(), k.hdrRaw) {
		fail("GetHeaderByHeight", "header bytes differ")
	}
	if rh, err := l.GetRawHeaderByHash(k.hash); err != nil || rh == nil {
		fail("GetRawHeaderByHash", fmt.Sprintf("err=%v", err))
	} else {
		if rh.Height != h {
			fail("GetRawHeaderByHash", fmt.Sprintf("height %d", rh.Height))
		}
		if !bytes.Equal(rh.Payload, k.hdrRaw) {
			fail("GetRawHeaderByHash", "payload differs from header bytes")
		}
	}
	if rv, ok := rivalAt[h]; ok {
		if b, err := l.GetBlockByHash(rv); err == nil && b != nil {
			fail("GetBlockByHash(rival)", "a block that was never committed is returned")
		}
		if ok, _ := l.IsContainBlock(rv); ok {
			fail("IsContainBlock(rival)", "a block that was never committed is reported as contained")
		}
		r.Count("rival_checked/" + stage)
	}
	if ok, err := l.IsContainBlock(k.hash); err != nil || !ok {
		fail("IsContainBlock", fmt.Sprintf("ok=%v err=%v", ok, err))
	}
	for i, th := range k.txHash {
		tx, th2, err := l.GetTransaction(th)
		if err != nil || tx == nil {
			fail("GetTransaction", fmt.Sprintf("tx %d err=%v", i, err))
			continue
		}
		if th2 != h {
			fail("GetTransaction", fmt.Sprintf("tx %d recorded height %d", i, th2))
		}
		if !bytes.Equal(tx.ToArray(), k.txRaw[i]) {
			fail("GetTransaction", fmt.Sprintf("tx %d bytes differ", i))
		}
		if ok, err := l.IsContainTransaction(th); err != nil || !ok {
			fail("IsContainTransaction", fmt.Sprintf("tx %d ok=%v err=%v", i, ok, err))
		}
		r.Count("tx_checked")
	}
	r.Count("height_checked/" + stage)
	if len(k.txHash) > 0 {
		r.Eval(fmt.Sprintf("%s/%d/%d", stage, h, len(k.txHash)))
	} else {
		r.Eval("")
	}
}

func checkUnknown(c *chain.Chain, rng *vf.RNG, top uint32) {
	l := c.Ledger
	var rh common.Uint256
	copy(rh[:], rng.Bytes(32))
	id := map[string]interface{}{"hash": rh.ToHexString(), "top": top}
	if b, err := l.GetBlockByHash(rh); err == nil && b != nil {
		r.Violation("unknown-hash-returns-block", "GetBlockByHash(random)", id)
	}
	if hd, err := l.GetHeaderByHash(rh); err == nil && hd != nil {
		r.Violation("unknown-hash-returns-header", "GetHeaderByHash(random)", id)
	}
	if tx, _, err := l.GetTransaction(rh); err == nil && tx != nil {
		r.Violation("unknown-hash-returns-tx", "GetTransaction(random)", id)
	}
	if ok, _ := l.IsContainBlock(rh); ok {
		r.Violation("unknown-hash-contained", "IsContainBlock(random)", id)
	}
	if ok, _ := l.IsContainTransaction(rh); ok {
		r.Violation("unknown-hash-contained", "IsContainTransaction(random)", id)
	}
	for _, d := range []uint32{1, 2, 1000} {
		if got := l.GetBlockHash(top + d); got != common.UINT256_EMPTY {
			r.Violation("future-height-has-hash", fmt.Sprintf("GetBlockHash(%d)=%s", top+d, got.ToHexString()), id)
		}
		if b, err := l.GetBlockByHeight(top + d); err == nil && b != nil {
			r.Violation("future-height-has-block", fmt.Sprintf("GetBlockByHeight(%d)", top+d), id)
		}
	}
	r.Count("unknown_checked")
}

func record(b *types.Block, viaSync bool) {
	k := committed{hash: b.Hash(), raw: b.ToArray(), hdrRaw: b.Header.ToArray(), viaSync: viaSync}
	for _, t := range b.Transactions {
		k.txHash = append(k.txHash, t.Hash())
		k.txRaw = append(k.txRaw, t.ToArray())
	}
	mu.Lock()
	known = append(known, k)
	mu.Unlock()
}

func sampleHeights(rng *vf.RNG, top uint32, all bool) []uint32 {
	if all || top < 40 {
		hs := make([]uint32, 0, top+1)
		for h := uint32(0); h <= top; h++ {
			hs = append(hs, h)
		}
		return hs
	}
	set := map[uint32]bool{0: true, 1: true, top: true, top - 1: true}
	for i := 0; i < 12; i++ {
		set[uint32(rng.Intn(int(top)+1))] = true
	}
	if top >= 2000 { // both sides of the header-index cache window
		for _, d := range []uint32{1998, 1999, 2000, 2001, 2002} {
			if top >= d {
				set[top-d] = true
			}
		}
	}
	hs := make([]uint32, 0, len(set))
	for h := range set {
		hs = append(hs, h)
	}
	return hs
}

func main() {
	r = vf.NewRun("C40", "exploration",
		"seeded solo chains (0-8 txs per block of mixed kinds, plus BIG blocks of 63..~300 transfers / storage puts or 3 txs with 56..140 storage puts, each committed under crash-point snapshots; both commit paths, headers-first sync on some blocks; quick adds a second chain of mostly empty blocks that is longer than the 2000-entry header index window and is restarted); after commits, after clean restarts and after a crash-style restart every query family is compared with the committed block bytes for all heights (short chains) or a window + random + header-index-cache-edge heights (long chains); non-trivial = block with >=1 tx; distinct by (stage, height, txcount)")
	scratch := vf.Scratch("c40")
	defer os.RemoveAll(scratch)
	rng := vf.NewRNG(vf.Seed())
	w := chain.NewWorld(fmt.Sprintf("c40-%d", vf.Seed()), 5)
	dir := filepath.Join(scratch, "ledger")
	c, err := chain.NewSolo(dir, w.BK)
	if err != nil {
		panic(err)
	}
	record(c.Genesis, false)
	L := vf.N(70, 2150)
	restartAt := map[int]bool{L / 3: true, 2 * L / 3: true, L: true}
	crashSnapAt := map[int]bool{}
	for k := 0; k < vf.N(8, 24); k++ {
		crashSnapAt[2+rng.Intn(L-2)] = true
	}
	// big blocks (63..~300 transactions / storage writes), each committed under crash-point snapshots
	bigAt := map[int]bigSpec{}
	{
		specs := bigSpecs(rng.Sub(0xb16))
		perm := rng.Sub(0xb17).Perm(L - 4)
		for k, sp := range specs {
			bigAt[3+perm[k]] = sp
			crashSnapAt[3+perm[k]] = true
		}
	}
	var top uint32
	var topA atomic.Uint32
	stop := make(chan struct{})
	var wg sync.WaitGroup
	if vf.Thorough() {
		// concurrent readers during commits (race detector is on in this tier)
		for g := 0; g < 3; g++ {
			wg.Add(1)
			go func(g int) {
				defer wg.Done()
				rr := vf.NewRNG(vf.Seed() + uint64(g) + 99)
				for {
					select {
					case <-stop:
						return
					default:
					}
					t := topA.Load()
					h := uint32(rr.Intn(int(t) + 1))
					mu.RLock()
					cc := c
					k := known[h]
					if cc == nil || cc.Ledger == nil {
						mu.RUnlock()
						continue
					}
					// queries run under the read lock so the ledger cannot be closed under them
					got := cc.Ledger.GetBlockHash(h)
					b, err := cc.Ledger.GetBlockByHash(k.hash)
					mu.RUnlock()
					if got != k.hash {
						r.Violation("query-disagrees:GetBlockHash:concurrent", fmt.Sprintf("h=%d got %s", h, got.ToHexString()), map[string]interface{}{"height": h})
					}
					if err != nil || b == nil || b.Hash() != k.hash {
						r.Violation("query-disagrees:GetBlockByHash:concurrent", fmt.Sprintf("h=%d err=%v", h, err), map[string]interface{}{"height": h})
					}
					r.Count("concurrent_reads")
				}
			}(g)
		}
	}
	for i := 1; i <= L; i++ {
		var txs []*types.Transaction
		big, isBig := bigAt[i]
		switch {
		case i == 1:
			txs = w.FundingTxs()
		case isBig:
			txs = bigTxs(w, rng.Sub(uint64(i)+0xb18), big, uint32(i))
		case L > 500 && !rng.Chance(4): // long chains: mostly empty blocks
		default:
			txs, _ = w.RandomTxs(rng.Sub(uint64(i)), 8)
		}
		b, err := c.MakeBlock(txs, 0)
		if err != nil {
			panic(err)
		}
		viaSync := rng.Chance(50)
		if withRival := rng.Chance(25); withRival && !isBig {
			// header sync ran ahead with a COMPETING, equally valid block of this height (other timestamp, no
			// transactions); the block that is committed afterwards is b, and every query must report b
			rival, err := c.MakeBlock(nil, b.Header.Timestamp+1+uint32(rng.Intn(5)))
			if err != nil {
				panic(err)
			}
			if rival.Hash() != b.Hash() {
				if err := c.Ledger.AddHeaders([]*types.Header{rival.Header}); err != nil {
					r.Violation("valid-header-rejected", err.Error(), map[string]interface{}{"height": i, "rival": true})
				} else {
					r.Count("rival_header_announced_before_commit")
					rivalAt[uint32(i)] = rival.Hash()
				}
			}
			viaSync = rng.Chance(50)
			crashSnapAt[i] = false
		} else if viaSync {
			if rng.Chance(50) {
				// header-first sync: the header is known before the block arrives
				if err := c.Ledger.AddHeaders([]*types.Header{b.Header}); err != nil {
					r.Violation("valid-header-rejected", err.Error(), map[string]interface{}{"height": i})
				} else {
					r.Count("header_first")
					if hd, err := c.Ledger.GetHeaderByHash(b.Hash()); err != nil || hd == nil || !bytes.Equal(hd.ToArray(), b.Header.ToArray()) {
						r.Violation("query-disagrees:GetHeaderByHash:header-only", fmt.Sprintf("err=%v", err), map[string]interface{}{"height": i})
					}
				}
			}
		}
		if crashSnapAt[i] {
			crashDirs, crashAt = nil, uint32(i)
			ledgerstore.VerifCrashPoint = func(name string, height uint32) {
				if height != crashAt || len(name) < 7 || name[:7] != "submit:" {
					return
				}
				d := filepath.Join(scratch, fmt.Sprintf("cp-%d-%d", height, len(crashDirs)))
				if err := chain.CopyDir(dir, d); err != nil {
					panic(err)
				}
				crashDirs = append(crashDirs, [2]string{name, d})
			}
		}
		stateWrites := 0
		if viaSync {
			res, err := c.Ledger.ExecuteBlock(b)
			if err != nil {
				panic(err)
			}
			stateWrites = res.WriteSet.Len()
			if err := c.CommitSync(b, res.MerkleRoot); err != nil {
				panic(err)
			}
		} else {
			res, err := c.CommitExec(b)
			if err != nil {
				panic(err)
			}
			stateWrites = res.WriteSet.Len()
		}
		ledgerstore.VerifCrashPoint = nil
		record(b, viaSync)
		if crashSnapAt[i] {
			// a process that died at any point of the commit sequence of block i restarts into height i-1 or i,
			// and every query family then agrees with the committed chain up to that height
			for _, cd := range crashDirs {
				if isBig {
					countBig(r, big, len(txs), stateWrites)
				}
				cc, err := chain.NewSolo(cd[1], w.BK)
				if err != nil {
					r.Violation("crash-point-reopen-fails:"+cd[0], err.Error(), map[string]interface{}{"height": i, "point": cd[0], "txs": len(txs), "state_writes": stateWrites})
					os.RemoveAll(cd[1])
					continue
				}
				rec := cc.Ledger.GetCurrentBlockHeight()
				if rec != uint32(i) && rec != uint32(i-1) {
					r.Violation("crash-point-restart-height:"+cd[0], fmt.Sprintf("restarted at height %d while block %d was being committed", rec, i), map[string]interface{}{"height": i, "point": cd[0]})
				} else {
					for _, h := range sampleHeights(rng.Sub(uint64(i)+4444), rec, L <= 500) {
						checkHeight(cc, h, "after-crash-point-restart")
					}
					r.Count(fmt.Sprintf("crash_point_restart/%s/recovered_to_%s", cd[0], map[bool]string{true: "new", false: "old"}[rec == uint32(i)]))
				}
				if p := vf.Catch(func() { cc.Close() }); p != nil {
					r.Violation("crash-point-close-panics:"+cd[0], fmt.Sprint(p), map[string]interface{}{"height": i, "point": cd[0], "txs": len(txs), "state_writes": stateWrites})
				}
				os.RemoveAll(cd[1])
			}
		}
		top = uint32(i)
		topA.Store(top)
		if L <= 500 || i%50 == 0 || i > L-3 {
			for _, h := range sampleHeights(rng.Sub(uint64(i)+7777), top, L <= 500 && i%10 == 0) {
				checkHeight(c, h, "live")
			}
			checkUnknown(c, rng.Sub(uint64(i)+9999), top)
		}
		if restartAt[i] {
			mu.Lock()
			old := c
			c = nil
			mu.Unlock()
			// crash-style copy (taken while open) is checked too
			crashDir := filepath.Join(scratch, fmt.Sprintf("crash-%d", i))
			if err := chain.CopyDir(dir, crashDir); err != nil {
				panic(err)
			}
			if err := old.Close(); err != nil {
				r.Violation("close-fails", err.Error(), nil)
			}
			cc, err := chain.NewSolo(crashDir, w.BK)
			if err != nil {
				r.Violation("crash-copy-reopen-fails", err.Error(), map[string]interface{}{"height": i})
			} else {
				for _, h := range sampleHeights(rng.Sub(uint64(i)+5555), top, L <= 500) {
					checkHeight(cc, h, "after-crash-restart")
				}
				cc.Close()
			}
			os.RemoveAll(crashDir)
			nc, err := chain.NewSolo(dir, w.BK)
			if err != nil {
				r.Violation("reopen-fails", err.Error(), map[string]interface{}{"height": i})
				break
			}
			mu.Lock()
			c = nc
			mu.Unlock()
			r.Count("restarts")
			for _, h := range sampleHeights(rng.Sub(uint64(i)+3333), top, L <= 500) {
				checkHeight(c, h, "after-restart")
			}
			checkUnknown(c, rng.Sub(uint64(i)+1111), top)
		}
	}
	close(stop)
	wg.Wait()
	if c != nil {
		c.Close()
	}
	r.Sample(map[string]interface{}{"chain_length": L, "example_block_tx_counts": func() []int {
		var o []int
		for h := 1; h < len(known) && h < 25; h++ {
			o = append(o, len(known[h].txHash))
		}
		return o
	}()})
	r.Require("height_checked/live", 50)
	r.Require("height_checked/after-restart", 20)
	r.Require("height_checked/after-crash-restart", 20)
	r.Require("tx_checked", 100)
	r.Require("header_first", 5)
	r.Require("unknown_checked", 5)
	r.Require("restarts", 3)
	r.Require("rival_header_announced_before_commit", 5)
	r.Require("rival_checked/live", 5)
	r.Require("rival_checked/after-restart", 3)
	r.Require("height_checked/after-crash-point-restart", 20)
	r.Require("big_block_crash_points_checked/tx>64", 12)
	r.Require("big_block_crash_points_checked/tx>128", 6)
	r.Require("big_block_crash_points_checked/tx>256", 6)
	r.Require("big_block_crash_points_checked/state_writes>64", 6)
	r.Require("big_block_crash_points_checked/state_writes>128", 6)
	r.Require("big_block_crash_points_checked/few_txs_state_writes>128", 6)
	if !vf.Thorough() {
		// the thorough chain itself is longer than the header index window
		longChain(scratch, rng.Sub(0x10c))
		r.Require("height_checked/long-after-restart", 20)
		r.Require("long_chain_heights_below_window_checked_after_restart", 10)
	}
	if vf.Thorough() {
		for _, n := range []int{63, 64, 65, 127, 128, 129} {
			r.Require(fmt.Sprintf("big_block_crash_points_checked/transfers/tx=%d", n), 6)
			r.Require(fmt.Sprintf("big_block_crash_points_checked/kvputs/tx=%d", n), 6)
		}
		r.Require("concurrent_reads", 1000)
		racelogCheck()
	}
	r.Assume("blocks are produced by the harness exactly like consensus/solo.makeBlock; pruning disabled")
	os.RemoveAll(scratch)
	r.Finish()
}

// longChain is the quick-tier companion of the thorough 2150-block chain: a chain of mostly empty blocks that
// is longer than the header index window (ledgerstore.HEADER_INDEX_MAX_SIZE), restarted beyond the window;
// by-height queries inside and below the window must still agree with the committed blocks.
func longChain(scratch string, rng *vf.RNG) {
	mu.Lock()
	known = nil
	mu.Unlock()
	rivalAt = map[uint32]common.Uint256{}
	w := chain.NewWorld(fmt.Sprintf("c40-long-%d", vf.Seed()), 5)
	dir := filepath.Join(scratch, "long")
	c, err := chain.NewSolo(dir, w.BK)
	if err != nil {
		panic(err)
	}
	record(c.Genesis, false)
	L := int(ledgerstore.HEADER_INDEX_MAX_SIZE) + rng.Range(2, 60)
	commit := func(i int) {
		var txs []*types.Transaction
		switch {
		case i == 1:
			txs = w.FundingTxs()
		case rng.Chance(3):
			txs, _ = w.RandomTxs(rng.Sub(uint64(i)), 4)
		}
		b, err := c.MakeBlock(txs, 0)
		if err != nil {
			panic(err)
		}
		if i%2 == 0 {
			res, err := c.Ledger.ExecuteBlock(b)
			if err != nil {
				panic(err)
			}
			if err := c.CommitSync(b, res.MerkleRoot); err != nil {
				panic(err)
			}
		} else if _, err := c.CommitExec(b); err != nil {
			panic(err)
		}
		record(b, i%2 == 0)
	}
	check := func(top uint32, stage string) {
		hs := sampleHeights(rng.Sub(uint64(top)+uint64(len(stage))), top, false)
		for h := uint32(37); h < top; h += 97 {
			hs = append(hs, h)
		}
		for _, h := range hs {
			checkHeight(c, h, stage)
			if h+ledgerstore.HEADER_INDEX_MAX_SIZE <= top && stage != "long-live" {
				r.Count("long_chain_heights_below_window_checked_after_restart")
			}
		}
		checkUnknown(c, rng.Sub(uint64(top)+77), top)
	}
	for i := 1; i <= L; i++ {
		commit(i)
	}
	check(uint32(L), "long-live")
	if err := c.Close(); err != nil {
		r.Violation("close-fails", err.Error(), nil)
	}
	if c, err = chain.NewSolo(dir, w.BK); err != nil {
		r.Violation("reopen-fails", err.Error(), map[string]interface{}{"height": L, "chain": "long"})
		return
	}
	check(uint32(L), "long-after-restart")
	for i := L + 1; i <= L+3; i++ {
		commit(i)
	}
	check(uint32(L+3), "long-after-restart-and-more-blocks")
	c.Close()
	r.Sample(map[string]interface{}{"long_chain_length": L + 3, "restarted_at": L})
}

func racelogCheck() {
	racelog.Apply(r, "core/store/ledgerstore/")
}
