// C41 — Role-based contract authorization grants exactly the assigned functions.
//
// Model-based exploration of the auth contract on a solo ledger.  Identities are real ONT
// IDs (registered, extended and revoked through the ontid contract, lib/iddrv); every
// admin init/transfer, role assignment, delegation, withdrawal and key operation is a real
// signed invoke transaction in its own block with a generated timestamp.  After every
// state-changing step `verifyToken` is pre-executed against the committed state for every
// (contract, caller, function) with the caller's right key and for a sample of key-control
// variants, and its answer must equal the model's answer in both directions.  Every second
// history also plays one scripted multi-step scenario (scenario.go) inside its random walk,
// every fourth one the phantom-assignment scenario S5 (state changes that are only pre-executed
// or belong to a failed transaction).
package main

import (
	"fmt"
	"os"
	"runtime"
	"sort"
	"sync"

	"github.com/ontio/ontology/common"
	"github.com/ontio/ontology/core/types"
	cutils "github.com/ontio/ontology/core/utils"
	"github.com/ontio/ontology/smartcontract/service/native/auth"
	nutils "github.com/ontio/ontology/smartcontract/service/native/utils"
	"verifharness/lib/chain"
	"verifharness/lib/iddrv"
	"verifharness/lib/txgen"
	"verifharness/lib/vf"
)

const nIDs = 4

var roles = []string{"r0", "r1", "r2"}
var fns = []string{"f0", "f1", "f2", "f3", "g-never-assigned"}

type deleg struct {
	Root   string
	Level  uint64
	Expiry uint32
}

// cmodel is the reference model of one contract's authorization state.
type cmodel struct {
	Name      string
	Addr      common.Address
	Deployed  bool
	InitCode  []byte
	AdminInit string
	Admin     string
	Funcs     map[string]map[string]bool     // role -> functions
	Direct    map[string]map[string]bool     // identity -> role (assigned by the admin)
	Deleg     map[string]map[string][]*deleg // delegate -> role -> every accepted delegation that was not withdrawn (one per delegator at most)
	Withdrawn map[string]map[string]bool     // delegate -> role: a delegation was withdrawn since the last one was created
	Extended  map[string]bool                // role whose function set grew after a delegation of it existed

	// mirror of what the contract actually stored (used only to predict the contract's
	// reported outcome of an operation and to label a disagreement; never for the verdict)
	CodeDirect map[string]map[string]bool
	CodeDeleg  map[string]map[string]*deleg // delegate -> role: the single entry the contract keeps (last reported-success delegate, dropped by a reported-success withdraw of its root)
	Skipped    map[string]map[string]bool   // assignment the contract skipped although it reported success
	RefusedWd  map[string]map[string]bool   // delegate -> role: the contract refused the delegator's withdraw of a live delegation (label only)
}

func newC(name string) *cmodel {
	return &cmodel{Name: name, Funcs: map[string]map[string]bool{}, Direct: map[string]map[string]bool{}, Deleg: map[string]map[string][]*deleg{},
		Withdrawn: map[string]map[string]bool{}, Extended: map[string]bool{}, CodeDirect: map[string]map[string]bool{}, CodeDeleg: map[string]map[string]*deleg{}, Skipped: map[string]map[string]bool{}, RefusedWd: map[string]map[string]bool{}}
}

// best is the delegation of role to id that lasts longest (nil: none on record).
func (c *cmodel) best(id, role string) *deleg {
	var b *deleg
	for _, d := range c.Deleg[id][role] {
		if b == nil || d.Expiry > b.Expiry {
			b = d
		}
	}
	return b
}

// by is the recorded delegation of role to id made by root (nil: none).
func (c *cmodel) by(id, role, root string) *deleg {
	for _, d := range c.Deleg[id][role] {
		if d.Root == root {
			return d
		}
	}
	return nil
}

// addDeleg records an accepted delegation.  A delegator has one delegation of a role to an
// identity: a renewal that lasts at least as long replaces the earlier one (a shorter one is
// kept beside it, the identity holds the role while any of them is unexpired).
func (c *cmodel) addDeleg(to, role string, n *deleg) {
	if c.Deleg[to] == nil {
		c.Deleg[to] = map[string][]*deleg{}
	}
	var keep []*deleg
	for _, d := range c.Deleg[to][role] {
		if d.Root != n.Root || d.Expiry > n.Expiry {
			keep = append(keep, d)
		}
	}
	c.Deleg[to][role] = append(keep, n)
}

// dropDeleg removes every delegation of role to id made by root.
func (c *cmodel) dropDeleg(to, role, root string) {
	var keep []*deleg
	for _, d := range c.Deleg[to][role] {
		if d.Root != root {
			keep = append(keep, d)
		}
	}
	if len(keep) == 0 {
		delete(c.Deleg[to], role)
	} else {
		c.Deleg[to][role] = keep
	}
}

func set2(m map[string]map[string]bool, a, b string, v bool) {
	if m[a] == nil {
		m[a] = map[string]bool{}
	}
	if v {
		m[a][b] = true
	} else {
		delete(m[a], b)
	}
}

type hist struct {
	idx    int
	rng    *vf.RNG
	ids    []string
	pool   []*txgen.Key
	next   int
	m      *iddrv.Model
	env    *iddrv.Env
	cs     []*cmodel
	log    []map[string]interface{}
	r      *vf.Run
	dead   bool
	broken bool // a block commit failed or panicked: do not reuse the ledger

	pnonce uint32        // nonce source of gasTx (scenario.go)
	queue  []func() bool // scripted scenario steps still to play (scenario.go)
	focus  []focusRef    // (contract, caller) pairs probed on every function while a scenario plays
}

type focusRef struct {
	c      *cmodel
	caller string
}

func (h *hist) isFocus(c *cmodel, caller string) bool {
	for _, f := range h.focus {
		if f.c == c && f.caller == caller {
			return true
		}
	}
	return false
}

func (h *hist) fresh() *txgen.Key {
	if h.next < len(h.pool) {
		h.next++
		return h.pool[h.next-1]
	}
	return h.pool[h.rng.Intn(len(h.pool))]
}

type keyPick struct {
	idx uint64
	key *txgen.Key
}

func (h *hist) liveKeys(id string) (out []keyPick) {
	s := h.m.St(id)
	if s.State != iddrv.Valid {
		return nil
	}
	for i, k := range s.Keys {
		if !k.Revoked && k.Key != nil {
			out = append(out, keyPick{uint64(i + 1), k.Key})
		}
	}
	return
}

func (h *hist) liveAuthKeys(id string) (out []keyPick) {
	s := h.m.St(id)
	if s.State != iddrv.Valid {
		return nil
	}
	for i, k := range s.Keys {
		if !k.Revoked && k.Auth && k.Key != nil {
			out = append(out, keyPick{uint64(i + 1), k.Key})
		}
	}
	return
}

func (h *hist) revokedKeys(id string) (out []keyPick) {
	s := h.m.St(id)
	src := s
	if s.State == iddrv.Revoked && s.Ghost != nil {
		src = s.Ghost
	}
	for i, k := range src.Keys {
		if (k.Revoked || s.State == iddrv.Revoked) && k.Key != nil {
			out = append(out, keyPick{uint64(i + 1), k.Key})
		}
	}
	return
}

func (h *hist) otherKey(id string) *txgen.Key {
	var cands []*txgen.Key
	for _, o := range h.ids {
		if o != id {
			for _, kp := range h.liveKeys(o) {
				cands = append(cands, kp.key)
			}
		}
	}
	if len(cands) > 0 && h.rng.Chance(75) {
		return cands[h.rng.Intn(len(cands))]
	}
	return h.fresh()
}

// control chooses (keyNo, signer set) for identity id according to a key-control class.
func (h *hist) control(id, class string) (uint64, []*txgen.Key, string) {
	lk := h.liveKeys(id)
	if len(lk) == 0 {
		// identity revoked, unregistered or without any live key
		if rk := h.revokedKeys(id); len(rk) > 0 {
			kp := rk[h.rng.Intn(len(rk))]
			return kp.idx, []*txgen.Key{kp.key}, "no-live-key/" + class
		}
		return 1, []*txgen.Key{h.otherKey(id)}, "no-live-key/" + class
	}
	right := lk[h.rng.Intn(len(lk))]
	switch class {
	case "right":
		return right.idx, []*txgen.Key{right.key}, class
	case "right+extra":
		return right.idx, []*txgen.Key{h.otherKey(id), right.key}, class
	case "no-signature":
		return right.idx, []*txgen.Key{h.otherKey(id)}, class
	case "wrong-keyNo":
		if len(lk) >= 2 {
			for _, o := range lk {
				if o.idx != right.idx {
					return o.idx, []*txgen.Key{right.key}, class
				}
			}
		}
		n := uint64(len(h.m.St(id).Keys))
		if h.rng.Chance(30) {
			return 0, []*txgen.Key{right.key}, class + "/zero"
		}
		return n + 1, []*txgen.Key{right.key}, class + "/out-of-range"
	case "revoked-key":
		if rk := h.revokedKeys(id); len(rk) > 0 {
			kp := rk[h.rng.Intn(len(rk))]
			return kp.idx, []*txgen.Key{kp.key}, class
		}
		return right.idx, []*txgen.Key{h.otherKey(id)}, "no-signature"
	case "empty":
		return right.idx, nil, class
	}
	return right.idx, []*txgen.Key{right.key}, "right"
}

var ctlClasses = []string{"right", "right", "right", "right", "right", "right", "right", "right", "right", "right+extra", "no-signature", "wrong-keyNo", "revoked-key", "empty"}

func (h *hist) ctlClass() string { return ctlClasses[h.rng.Intn(len(ctlClasses))] }

// ---------------------------------------------------------------- model answer

func sortedKeys(m map[string]map[string]bool) []string {
	out := make([]string, 0, len(m))
	for k := range m {
		out = append(out, k)
	}
	sort.Strings(out)
	return out
}

// answer is the statement: the identity proved control of its key and holds, directly or
// through an unexpired (now <= expiry) delegation, a role to which fn is assigned.
func (h *hist) answer(c *cmodel, caller, fn string, keyNo uint64, signers []*txgen.Key, now uint32) (bool, string) {
	if !h.m.KeyControl(caller, keyNo, signers) {
		return false, "no-key-control"
	}
	return roleAnswer(c, caller, fn, now)
}

// the most telling reason of a negative answer is reported
var whyRank = map[string]int{"no-role": 0, "role-without-fn": 1, "withdrawn-delegation": 2, "withdrawn-delegation:the-contract-refused-the-withdraw": 2, "expired-delegation": 3, "expired-delegation@time==expiry+1": 4}

// roleAnswer is the role half of the statement (key control assumed): a role with fn that the
// identity holds directly, or through any delegation that is unexpired (now <= expiry) and was
// not withdrawn by its delegator.
func roleAnswer(c *cmodel, caller, fn string, now uint32) (bool, string) {
	why := "no-role"
	up := func(w string) {
		if whyRank[w] > whyRank[why] {
			why = w
		}
	}
	for _, role := range sortedKeys(c.Funcs) {
		holds := c.Funcs[role][fn]
		if c.Direct[caller][role] {
			if holds {
				w := "direct-role"
				if c.Skipped[caller][role] {
					w += ":assigned-while-holding-a-delegation-of-it"
				}
				return true, w
			}
			up("role-without-fn")
		}
		if d := c.best(caller, role); d != nil {
			switch {
			case !holds:
				up("role-without-fn")
			case now <= d.Expiry:
				w := "delegated-role"
				if now == d.Expiry {
					w += "@time==expiry"
				}
				if c.Extended[role] {
					w += ":fn-set-extended-later"
				}
				return true, w
			case now == d.Expiry+1:
				up("expired-delegation@time==expiry+1")
			case c.Withdrawn[caller][role]:
				up(wdLabel(c, caller, role)) // another delegator's expired delegation is still on record
			default:
				up("expired-delegation")
			}
		} else if holds && c.Withdrawn[caller][role] {
			up(wdLabel(c, caller, role))
		}
	}
	return false, why
}

func wdLabel(c *cmodel, caller, role string) string {
	if c.RefusedWd[caller][role] {
		return "withdrawn-delegation:the-contract-refused-the-withdraw"
	}
	return "withdrawn-delegation"
}

// what the contract's own bookkeeping says about "has role" (its getAuthToken uses now < expiry)
func (c *cmodel) codeHas(id, role string, now uint32) (bool, uint64) {
	if c.CodeDirect[id][role] {
		return true, 2
	}
	if d := c.CodeDeleg[id][role]; d != nil && now < d.Expiry {
		return true, d.Level
	}
	return false, 0
}

// ---------------------------------------------------------------- transactions

func authCode(method string, param interface{}) []byte {
	code, err := cutils.BuildNativeInvokeCode(nutils.AuthContractAddress, 0, method, []interface{}{param})
	if err != nil {
		panic(err)
	}
	return code
}

func labels(ks []*txgen.Key) []string {
	out := []string{}
	for _, k := range ks {
		out = append(out, iddrv.KeyLabel(k))
	}
	return out
}

// reported tells whether a committed auth transaction reported success: State==1 and the
// method's notify event carries `true` (initContractAdmin: the event exists).
func reported(res iddrv.TxResult, method string) bool {
	if res.State != 1 {
		return false
	}
	for _, n := range res.Notify {
		if n.ContractAddress != nutils.AuthContractAddress {
			continue
		}
		st, ok := n.States.([]interface{})
		if !ok || len(st) == 0 {
			continue
		}
		if name, _ := st[0].(string); name != method {
			continue
		}
		if method == "initContractAdmin" {
			return true
		}
		if b, ok := st[len(st)-1].(bool); ok {
			return b
		}
	}
	return false
}

func (h *hist) nextTs() uint32 { return h.env.LastTs + uint32(h.rng.Range(1, 3)) }

func (h *hist) commit1(code []byte, signers []*txgen.Key, ts uint32) (iddrv.TxResult, bool) {
	tx, err := h.env.Tx(code, signers)
	if err != nil {
		h.r.Inconclusive(fmt.Sprintf("history %d: tx build: %v", h.idx, err))
		h.dead = true
		return iddrv.TxResult{}, false
	}
	var res []iddrv.TxResult
	var cerr error
	if p := vf.Catch(func() { res, cerr = h.env.Commit([]*types.Transaction{tx}, ts) }); p != nil {
		h.r.Violation("panic-in-block-execution", fmt.Sprint(p), h.witness(nil))
		h.dead, h.broken = true, true
		return iddrv.TxResult{}, false
	}
	if cerr != nil {
		h.r.Inconclusive(fmt.Sprintf("history %d: commit: %v", h.idx, cerr))
		h.dead, h.broken = true, true
		return iddrv.TxResult{}, false
	}
	return res[0], true
}

func (h *hist) witness(extra map[string]interface{}) map[string]interface{} {
	w := map[string]interface{}{"history": h.idx, "seed": vf.Seed(), "ids": h.ids, "steps": h.log}
	cs := []map[string]interface{}{}
	for _, c := range h.cs {
		cs = append(cs, map[string]interface{}{"name": c.Name, "address": c.Addr.ToHexString(), "deployed": c.Deployed, "admin": c.Admin})
	}
	w["contracts"] = cs
	for k, v := range extra {
		w[k] = v
	}
	return w
}

var (
	mmMu       sync.Mutex
	mismatches = map[string]int{}
	mmSample   = map[string]interface{}{}
)

func (h *hist) outcome(step map[string]interface{}, method, class string, rep, predicted, legit bool) {
	step["reported_success"] = rep
	step["model_legitimate"] = legit
	step["predicted"] = predicted
	h.log = append(h.log, step)
	h.r.Count("op/" + method)
	h.r.Count(fmt.Sprintf("op/%s/%s/%v", method, class, rep))
	if rep {
		h.r.Count("op-accepted/" + method)
	} else {
		h.r.Count("op-rejected/" + method)
	}
	if rep != predicted {
		h.r.Count("op-outcome-mismatch")
		key := fmt.Sprintf("%s:%s:reported=%v:predicted=%v", method, class, rep, predicted)
		mmMu.Lock()
		mismatches[key]++
		if _, ok := mmSample[key]; !ok && len(mmSample) < 20 {
			mmSample[key] = h.witness(nil)
		}
		mmMu.Unlock()
	}
	if rep && !legit {
		h.r.Count("op-reported-success-but-not-legitimate") // the model does not apply it; verifyToken probes decide
	}
}

// ---------------------------------------------------------------- steps

func (h *hist) stepInit(c *cmodel) {
	signer := []*txgen.Key{h.otherKey("")}
	code := c.InitCode
	if c.Deployed {
		code = chain.NewAsm().AppCall(c.Addr).Bytes()
	}
	res, ok := h.commit1(code, signer, h.nextTs())
	if !ok {
		return
	}
	rep := reported(res, "initContractAdmin")
	legit := c.Admin == ""
	if rep && legit {
		c.Admin = c.AdminInit
	}
	h.outcome(map[string]interface{}{"op": "initContractAdmin", "contract": c.Name, "admin": c.AdminInit, "tx_signers": labels(signer), "time": h.env.LastTs},
		"initContractAdmin", "anyone", rep, legit, legit)
}

func (h *hist) stepTransfer(c *cmodel) {
	newAdmin := h.ids[h.rng.Intn(len(h.ids))]
	class := h.ctlClass()
	admin := c.Admin
	keyNo, signers, class := h.control(admin, class)
	res, ok := h.commit1(authCode("transfer", &auth.TransferParam{ContractAddr: c.Addr, NewAdminOntID: []byte(newAdmin), KeyNo: keyNo}), signers, h.nextTs())
	if !ok {
		return
	}
	rep := reported(res, "transfer")
	legit := admin != "" && h.m.KeyControl(admin, keyNo, signers)
	if rep && legit {
		c.Admin = newAdmin
	}
	h.outcome(map[string]interface{}{"op": "transfer", "contract": c.Name, "new_admin": newAdmin, "keyNo": keyNo, "class": class, "tx_signers": labels(signers), "time": h.env.LastTs},
		"transfer", class, rep, legit, legit)
}

// adminParam picks the AdminOntID argument: the real admin, or (class non-admin) somebody else
// who then signs with his own key.
func (h *hist) adminParam(c *cmodel) (string, uint64, []*txgen.Key, string) {
	if h.rng.Chance(12) {
		var others []string
		for _, o := range h.ids {
			if o != c.Admin && len(h.liveKeys(o)) > 0 {
				others = append(others, o)
			}
		}
		if len(others) > 0 {
			o := others[h.rng.Intn(len(others))]
			k, s, _ := h.control(o, "right")
			return o, k, s, "non-admin"
		}
	}
	k, s, class := h.control(c.Admin, h.ctlClass())
	return c.Admin, k, s, class
}

func (h *hist) stepAssignFuncs(c *cmodel) {
	role := roles[h.rng.Intn(len(roles))]
	n := h.rng.Range(1, 2)
	var fl []string
	for i := 0; i < n; i++ {
		fl = append(fl, fns[h.rng.Intn(len(fns)-1)])
	}
	ap, keyNo, signers, class := h.adminParam(c)
	h.doAssignFuncs(c, role, fl, ap, keyNo, signers, class)
}

func (h *hist) doAssignFuncs(c *cmodel, role string, fl []string, ap string, keyNo uint64, signers []*txgen.Key, class string) bool {
	res, ok := h.commit1(authCode("assignFuncsToRole", &auth.FuncsToRoleParam{ContractAddr: c.Addr, AdminOntID: []byte(ap), Role: []byte(role), FuncNames: fl, KeyNo: keyNo}), signers, h.nextTs())
	if !ok {
		return false
	}
	rep := reported(res, "assignFuncsToRole")
	legit := c.Admin != "" && ap == c.Admin && h.m.KeyControl(ap, keyNo, signers)
	if rep && legit {
		for _, f := range fl {
			if !c.Funcs[role][f] {
				for _, dm := range c.Deleg {
					if len(dm[role]) > 0 {
						c.Extended[role] = true
					}
				}
			}
			set2(c.Funcs, role, f, true)
		}
	}
	h.outcome(map[string]interface{}{"op": "assignFuncsToRole", "contract": c.Name, "admin_param": ap, "role": role, "funcs": fl, "keyNo": keyNo, "class": class, "tx_signers": labels(signers), "time": h.env.LastTs},
		"assignFuncsToRole", class, rep, legit, legit)
	return rep
}

func (h *hist) stepAssignIDs(c *cmodel) {
	role := roles[h.rng.Intn(len(roles))]
	n := h.rng.Range(1, 2)
	var ps []string
	for i := 0; i < n; i++ {
		ps = append(ps, h.ids[h.rng.Intn(len(h.ids))])
	}
	// often: assign a role to an identity that currently holds it only by delegation
	if h.rng.Chance(50) {
		for _, to := range h.ids {
			for _, rl := range roles {
				if d := c.best(to, rl); d != nil && !c.Direct[to][rl] && d.Expiry > h.env.LastTs+3 {
					role, ps = rl, []string{to}
					h.r.Count("shape/assign-role-to-its-current-delegate")
				}
			}
		}
	}
	ap, keyNo, signers, class := h.adminParam(c)
	h.doAssignIDs(c, role, ps, ap, keyNo, signers, class)
}

func (h *hist) doAssignIDs(c *cmodel, role string, ps []string, ap string, keyNo uint64, signers []*txgen.Key, class string) bool {
	var pb [][]byte
	for _, p := range ps {
		pb = append(pb, []byte(p))
	}
	ts := h.nextTs()
	res, ok := h.commit1(authCode("assignOntIDsToRole", &auth.OntIDsToRoleParam{ContractAddr: c.Addr, AdminOntID: []byte(ap), Role: []byte(role), Persons: pb, KeyNo: keyNo}), signers, ts)
	if !ok {
		return false
	}
	rep := reported(res, "assignOntIDsToRole")
	legit := c.Admin != "" && ap == c.Admin && h.m.KeyControl(ap, keyNo, signers)
	if rep && legit {
		for _, p := range ps {
			// mirror of the contract's bookkeeping: an identity that already owns some direct
			// token and currently "has" the role through a delegation is silently skipped
			has, _ := c.codeHas(p, role, ts)
			if len(c.CodeDirect[p]) > 0 && has && !c.CodeDirect[p][role] {
				set2(c.Skipped, p, role, true)
				h.r.Count("assignment-skipped-by-contract-while-delegated")
			} else {
				set2(c.CodeDirect, p, role, true)
			}
			set2(c.Direct, p, role, true) // the admin assigned the role and the contract reported success
		}
	}
	h.outcome(map[string]interface{}{"op": "assignOntIDsToRole", "contract": c.Name, "admin_param": ap, "role": role, "persons": ps, "keyNo": keyNo, "class": class, "tx_signers": labels(signers), "time": h.env.LastTs},
		"assignOntIDsToRole", class, rep, legit, legit)
	return rep
}

func (h *hist) holders(c *cmodel, role string, direct bool) []string {
	var out []string
	for _, id := range h.ids {
		if direct && c.Direct[id][role] {
			out = append(out, id)
		}
		if !direct && !c.Direct[id][role] && len(c.Deleg[id][role]) > 0 {
			out = append(out, id)
		}
	}
	return out
}

func (h *hist) stepDelegate(c *cmodel) {
	role := roles[h.rng.Intn(len(roles))]
	// prefer a role somebody holds directly
	for try := 0; try < 3 && len(h.holders(c, role, true)) == 0; try++ {
		role = roles[h.rng.Intn(len(roles))]
	}
	shape := "right"
	switch p := h.rng.Intn(100); {
	case p < 52:
	case p < 60:
		shape = "from-holds-only-by-delegation"
	case p < 66:
		shape = "from-holds-nothing"
	case p < 73:
		shape = "level-2"
	case p < 77:
		shape = "level-0"
	case p < 81:
		shape = "level-3"
	case p < 88:
		shape = "to-already-holds"
	case p < 91:
		shape = "period-0"
	case p < 95:
		shape = "period-1"
	case p < 97:
		shape = "period-overflow"
	default:
		shape = "period-2^32"
	}
	from := h.ids[h.rng.Intn(len(h.ids))]
	if hs := h.holders(c, role, true); len(hs) > 0 {
		from = hs[h.rng.Intn(len(hs))]
		for try := 0; try < 3 && len(h.liveKeys(from)) == 0; try++ {
			from = hs[h.rng.Intn(len(hs))]
		}
	}
	level, period := uint64(1), uint64(h.rng.Range(2, 30))
	switch shape {
	case "from-holds-only-by-delegation":
		if hs := h.holders(c, role, false); len(hs) > 0 {
			from = hs[h.rng.Intn(len(hs))]
		} else {
			shape = "right"
		}
	case "from-holds-nothing":
		var no []string
		for _, id := range h.ids {
			if !c.Direct[id][role] && len(c.Deleg[id][role]) == 0 {
				no = append(no, id)
			}
		}
		if len(no) > 0 {
			from = no[h.rng.Intn(len(no))]
		}
	case "level-2":
		level = 2
	case "level-0":
		level = 0
	case "level-3":
		level = uint64(h.rng.Range(3, 127))
	case "period-0":
		period = 0
	case "period-1":
		period = 1
	case "period-overflow":
		period = 0xffffffff
	case "period-2^32":
		period = 1 << 32
	}
	// to: somebody without the role (or with it, for to-already-holds)
	var cands []string
	for _, id := range h.ids {
		has := c.Direct[id][role] || len(c.Deleg[id][role]) > 0
		if id != from && has == (shape == "to-already-holds") {
			cands = append(cands, id)
		}
	}
	to := h.ids[h.rng.Intn(len(h.ids))]
	if len(cands) > 0 {
		to = cands[h.rng.Intn(len(cands))]
		if h.rng.Chance(50) { // prefer a delegate that already holds some other role directly
			for _, i := range h.rng.Perm(len(cands)) {
				if len(c.Direct[cands[i]]) > 0 {
					to = cands[i]
					break
				}
			}
		}
	}
	h.doDelegate(c, from, to, role, period, level, h.ctlClass(), shape, h.nextTs())
}

// doDelegate commits one delegate transaction at block time ts and follows it in the model.
func (h *hist) doDelegate(c *cmodel, from, to, role string, period, level uint64, class, shape string, ts uint32) bool {
	keyNo, signers, class := h.control(from, class)
	res, ok := h.commit1(authCode("delegate", &auth.DelegateParam{ContractAddr: c.Addr, From: []byte(from), To: []byte(to), Role: []byte(role), Period: period, Level: level, KeyNo: keyNo}), signers, ts)
	if !ok {
		return false
	}
	rep := reported(res, "delegate")
	fits := period <= 0xffffffff && uint64(ts)+period <= 0xffffffff
	legit := h.m.KeyControl(from, keyNo, signers) && c.Direct[from][role] && level == 1 && fits
	fromHas, fromLevel := c.codeHas(from, role, ts)
	toHas, _ := c.codeHas(to, role, ts)
	predicted := h.m.KeyControl(from, keyNo, signers) && fits && fromHas && !toHas && fromLevel == 2 && level == 1
	if rep {
		if c.CodeDeleg[to] == nil {
			c.CodeDeleg[to] = map[string]*deleg{}
		}
		c.CodeDeleg[to][role] = &deleg{Root: from, Level: level, Expiry: ts + uint32(period)}
	}
	if rep && legit {
		c.addDeleg(to, role, &deleg{Root: from, Level: level, Expiry: ts + uint32(period)})
		set2(c.Withdrawn, to, role, false)
		set2(c.RefusedWd, to, role, false)
		c.Extended[role] = false
		h.r.Count("delegation-created")
	}
	h.outcome(map[string]interface{}{"op": "delegate", "contract": c.Name, "from": from, "to": to, "role": role, "period": period, "level": level, "keyNo": keyNo,
		"shape": shape, "class": class, "tx_signers": labels(signers), "time": h.env.LastTs, "expiry": uint64(ts) + period},
		"delegate", shape+"/"+class, rep, predicted, legit)
	return rep
}

func (h *hist) stepWithdraw(c *cmodel) {
	type dref struct{ to, role string }
	var ds []dref
	for _, to := range h.ids {
		for _, role := range roles {
			if len(c.Deleg[to][role]) > 0 {
				ds = append(ds, dref{to, role})
			}
		}
	}
	shape := "root"
	var initiator, delegate, role string
	if len(ds) == 0 {
		shape = "no-delegation"
		initiator, delegate, role = h.ids[h.rng.Intn(len(h.ids))], h.ids[h.rng.Intn(len(h.ids))], roles[h.rng.Intn(len(roles))]
	} else {
		d := ds[h.rng.Intn(len(ds))]
		delegate, role = d.to, d.role
		root := c.best(delegate, role).Root
		initiator = root
		if h.rng.Chance(25) {
			shape = "non-root"
			var others []string
			for _, id := range h.ids {
				if id != initiator {
					others = append(others, id)
				}
			}
			// prefer another direct holder of the role (passes the contract's has-role test)
			for _, id := range others {
				if c.Direct[id][role] {
					initiator = id
				}
			}
			if initiator == root {
				initiator = others[h.rng.Intn(len(others))]
			}
			if c.by(delegate, role, initiator) != nil {
				shape = "root-of-an-older-delegation"
			}
		}
	}
	h.doWithdraw(c, initiator, delegate, role, h.ctlClass(), shape, h.nextTs())
}

// doWithdraw commits one withdraw transaction at block time ts and follows it in the model: a
// delegator that proved its key withdraws its own delegation(s) of the role to the delegate.
func (h *hist) doWithdraw(c *cmodel, initiator, delegate, role, class, shape string, ts uint32) bool {
	keyNo, signers, class := h.control(initiator, class)
	res, ok := h.commit1(authCode("withdraw", &auth.WithdrawParam{ContractAddr: c.Addr, Initiator: []byte(initiator), Delegate: []byte(delegate), Role: []byte(role), KeyNo: keyNo}), signers, ts)
	if !ok {
		return false
	}
	rep := reported(res, "withdraw")
	legit := h.m.KeyControl(initiator, keyNo, signers) && c.by(delegate, role, initiator) != nil
	iniHas, _ := c.codeHas(initiator, role, ts)
	cd := c.CodeDeleg[delegate][role]
	predicted := h.m.KeyControl(initiator, keyNo, signers) && iniHas && cd != nil && cd.Root == initiator
	if rep && cd != nil && cd.Root == initiator {
		delete(c.CodeDeleg[delegate], role)
	}
	// A delegator that proved its key and withdraws its own delegation has withdrawn it: from
	// here on the delegate does not hold the role through it, whatever the contract reported
	// (a refusal would leave a withdrawn delegation in force; the probes show whether it does).
	if legit {
		if d := c.by(delegate, role, initiator); !rep && ts <= d.Expiry {
			set2(c.RefusedWd, delegate, role, true)
			h.r.Count("withdraw-of-live-delegation-by-its-delegator-refused")
		}
		c.dropDeleg(delegate, role, initiator)
		set2(c.Withdrawn, delegate, role, true)
		if rep {
			h.r.Count("delegation-withdrawn")
		}
	}
	h.outcome(map[string]interface{}{"op": "withdraw", "contract": c.Name, "initiator": initiator, "delegate": delegate, "role": role, "keyNo": keyNo,
		"shape": shape, "class": class, "tx_signers": labels(signers), "time": h.env.LastTs},
		"withdraw", shape+"/"+class, rep, predicted, legit)
	return rep
}

// stepKey changes an identity's keys through the ontid contract (right signer).
func (h *hist) stepKey() {
	id := h.ids[h.rng.Intn(len(h.ids))]
	la := h.liveAuthKeys(id)
	if len(la) == 0 {
		return
	}
	signer := la[h.rng.Intn(len(la))]
	op := &iddrv.Op{ID: id, Index: uint32(signer.idx), Signers: []*txgen.Key{signer.key}, Class: "right"}
	lk := h.liveKeys(id)
	switch p := h.rng.Intn(100); {
	case p < 35 || (len(lk) < 2 && p < 90):
		k := h.fresh()
		op.Method, op.Pub, op.PubKey = "addNewAuthKey", k.PubBytes(), k
	case p < 55:
		k := h.fresh()
		op.Method, op.Pub, op.PubKey = "addKeyByIndex", k.PubBytes(), k // a key without authentication right
	case p < 97:
		v := lk[h.rng.Intn(len(lk))]
		op.Method, op.Pub, op.PubKey = "removeKeyByIndex", v.key.PubBytes(), v.key
	default:
		op.Method = "revokeID"
	}
	tx, err := h.env.Tx(op.Code(), op.Signers)
	if err != nil {
		h.dead = true
		return
	}
	op.Witness = tx.GetSignatureAddresses()
	exp, _ := h.m.Expect(op)
	res, cerr := h.env.Commit([]*types.Transaction{tx}, h.nextTs())
	if cerr != nil {
		h.r.Inconclusive(fmt.Sprintf("history %d: commit: %v", h.idx, cerr))
		h.dead, h.broken = true, true
		return
	}
	ok := res[0].State == 1
	if ok {
		h.m.Apply(op)
	}
	step := op.Describe()
	step["op"] = "ontid." + op.Method
	step["time"] = h.env.LastTs
	h.outcome(step, "ontid."+op.Method, "right", ok, exp, true)
}

// stepTime commits a block whose timestamp puts the next pre-execution exactly on an expiry
// boundary of some delegation (time == expiry, then time == expiry+1) when one is ahead;
// the block carries verifyToken transactions judged at the block's own time.
func (h *hist) stepTime() {
	last := h.env.LastTs
	best := uint32(0)
	for _, c := range h.cs {
		for _, dm := range c.Deleg {
			for _, dl := range dm {
				for _, d := range dl {
					for _, t := range []uint32{d.Expiry - 1, d.Expiry} { // pre-exec time = ts+1
						if t > last && (best == 0 || t < best) {
							best = t
						}
					}
				}
			}
		}
	}
	ts := last + uint32(h.rng.Range(1, 6))
	kind := "drift"
	if best != 0 && h.rng.Chance(85) {
		ts, kind = best, "to-boundary"
	}
	h.doTime(ts, kind)
}

// doTime commits a block at time ts that carries verifyToken transactions.
func (h *hist) doTime(ts uint32, kind string) {
	// in-block probes: delegates whose expiry is near, else random tuples
	type probe struct {
		c      *cmodel
		caller string
		fn     string
		keyNo  uint64
		sg     []*txgen.Key
	}
	var ps []probe
	for _, c := range h.cs {
		for _, to := range h.ids {
			for _, role := range roles {
				d := c.best(to, role)
				if d == nil || len(ps) >= 3 || (ts != d.Expiry && ts != d.Expiry+1 && ts+1 != d.Expiry) {
					continue
				}
				for _, f := range fns {
					if c.Funcs[role][f] {
						k, s, _ := h.control(to, "right")
						ps = append(ps, probe{c, to, f, k, s})
						break
					}
				}
			}
		}
	}
	if len(ps) == 0 {
		c := h.cs[h.rng.Intn(len(h.cs))]
		id := h.ids[h.rng.Intn(len(h.ids))]
		k, s, _ := h.control(id, "right")
		ps = append(ps, probe{c, id, fns[h.rng.Intn(len(fns))], k, s})
	}
	var txs []*types.Transaction
	for _, p := range ps {
		tx, err := h.env.Tx(authCode("verifyToken", &auth.VerifyTokenParam{ContractAddr: p.c.Addr, Caller: []byte(p.caller), Fn: p.fn, KeyNo: p.keyNo}), p.sg)
		if err != nil {
			h.dead = true
			return
		}
		txs = append(txs, tx)
	}
	res, err := h.env.Commit(txs, ts)
	if err != nil {
		h.r.Inconclusive(fmt.Sprintf("history %d: commit: %v", h.idx, err))
		h.dead, h.broken = true, true
		return
	}
	h.log = append(h.log, map[string]interface{}{"op": "time-step", "kind": kind, "time": ts, "in_block_probes": len(ps)})
	h.r.Count("op/time-step/" + kind)
	for i, p := range ps {
		got := reported(res[i], "verifyToken")
		want, why := h.answer(p.c, p.caller, p.fn, p.keyNo, p.sg, ts)
		h.judge(p.c, p.caller, p.fn, p.keyNo, p.sg, "right", ts, got, want, why, "in-block")
		if h.dead {
			return
		}
	}
}

// ---------------------------------------------------------------- probes

func (h *hist) judge(c *cmodel, caller, fn string, keyNo uint64, sg []*txgen.Key, variant string, now uint32, got, want bool, why, mode string) {
	h.r.Eval(fmt.Sprintf("%s|%s|%v|%s|%s", why, variant, want, mode, c.Name))
	h.r.Count("probe/" + mode)
	h.r.Count(fmt.Sprintf("answer/%v/%s", want, why))
	if variant != "right" {
		h.r.Count("variant/" + variant)
	}
	if got == want {
		return
	}
	key := fmt.Sprintf("verifyToken-differs:model=%v:contract=%v:%s:%s", want, got, why, variant)
	h.r.Violation(key, fmt.Sprintf("verifyToken(%s, caller, %s, keyNo=%d) at time %d returned %v, the model says %v (%s)", c.Name, fn, keyNo, now, got, want, why),
		h.witness(map[string]interface{}{"probe": map[string]interface{}{"contract": c.Name, "contract_address": c.Addr.ToHexString(), "caller": caller, "fn": fn,
			"keyNo": keyNo, "tx_signers": labels(sg), "time": now, "mode": mode, "variant": variant, "contract_says": got, "model_says": want, "model_reason": why}}))
	h.dead = true
}

func (h *hist) probeOne(c *cmodel, caller, fn string, keyNo uint64, sg []*txgen.Key, variant string) {
	tx, err := h.env.ProbeTx(authCode("verifyToken", &auth.VerifyTokenParam{ContractAddr: c.Addr, Caller: []byte(caller), Fn: fn, KeyNo: keyNo}), sg)
	if err != nil {
		h.dead = true
		return
	}
	var pr iddrv.PreResult
	if p := vf.Catch(func() { pr = h.env.Pre(tx) }); p != nil {
		h.r.Violation("panic-in-verifyToken", fmt.Sprint(p), h.witness(nil))
		h.dead = true
		return
	}
	now := h.env.PreTime()
	want, why := h.answer(c, caller, fn, keyNo, sg, now)
	h.judge(c, caller, fn, keyNo, sg, variant, now, pr.True(), want, why, "pre-exec")
}

var variants = []string{"right+extra", "no-signature", "wrong-keyNo", "revoked-key", "empty"}

func (h *hist) probeAll() {
	type pair struct {
		c      *cmodel
		caller string
		fn     string
	}
	var positives []pair
	now := h.env.PreTime()
	for _, c := range h.cs {
		for _, caller := range h.ids {
			for _, fn := range fns {
				// every tuple whose role half is (or recently was) positive is probed; the
				// plain negatives ("no role at all") are sampled
				ok, why := roleAnswer(c, caller, fn, now)
				if !ok && (why == "no-role" || why == "role-without-fn") && !h.isFocus(c, caller) && !h.rng.Chance(12) {
					continue
				}
				keyNo, sg, _ := h.control(caller, "right")
				h.probeOne(c, caller, fn, keyNo, sg, "right")
				if h.dead {
					return
				}
				if ok {
					positives = append(positives, pair{c, caller, fn})
				}
			}
		}
	}
	// key-control variants, preferably where the role half of the answer is positive
	for i := 0; i < 5; i++ {
		var p pair
		if len(positives) > 0 && h.rng.Chance(85) {
			p = positives[h.rng.Intn(len(positives))]
		} else {
			p = pair{h.cs[h.rng.Intn(len(h.cs))], h.ids[h.rng.Intn(len(h.ids))], fns[h.rng.Intn(len(fns))]}
		}
		v := variants[i%len(variants)]
		keyNo, sg, realised := h.control(p.caller, v)
		h.probeOne(p.c, p.caller, p.fn, keyNo, sg, realised)
		if h.dead {
			return
		}
	}
	// an identity that was never registered
	if h.rng.Chance(10) {
		c := h.cs[h.rng.Intn(len(h.cs))]
		h.probeOne(c, iddrv.DetID("c41/unregistered"), fns[0], 1, []*txgen.Key{h.fresh()}, "unregistered-caller")
	}
}

// ---------------------------------------------------------------- history

// stepRandom plays one step of the random walk.
func (h *hist) stepRandom() {
	c := h.cs[h.rng.Intn(len(h.cs))]
	p := h.rng.Intn(100)
	switch {
	case c.Admin == "" && p < 85:
		h.stepInit(c)
	case c.Admin == "":
		// operations on a contract without admin must all fail
		switch h.rng.Intn(4) {
		case 0:
			h.stepAssignFuncs(c)
		case 1:
			h.stepAssignIDs(c)
		case 2:
			h.stepDelegate(c)
		default:
			h.stepTransfer(c)
		}
	case p < 2:
		h.stepInit(c)
	case p < 6:
		h.stepTransfer(c)
	case p < 20:
		h.stepAssignFuncs(c)
	case p < 36:
		h.stepAssignIDs(c)
	case p < 62:
		h.stepDelegate(c)
	case p < 72:
		h.stepWithdraw(c)
	case p < 93:
		h.stepTime()
	default:
		h.stepKey()
	}
}

func runHistory(r *vf.Run, pool *iddrv.Pool, idx int, rng *vf.RNG, nSteps int) {
	env, err := pool.Get()
	if err != nil {
		r.Inconclusive(fmt.Sprintf("history %d: cannot open ledger: %v", idx, err))
		return
	}
	var h *hist
	defer func() { pool.Put(env, h == nil || h.broken) }()
	h = &hist{idx: idx, rng: rng, m: iddrv.NewModel(), env: env, r: r}
	for i := 0; i < nIDs; i++ {
		h.ids = append(h.ids, iddrv.DetID(fmt.Sprintf("c41/%d/%d/%d", vf.Seed(), idx, i)))
	}
	h.pool = txgen.PickSetLight(rng.Sub(1), 48)
	// Ethereum-type keys cannot witness an ontid call (their transaction witness address is not
	// the key's address); keep them out of this monitor's identities
	var keys []*txgen.Key
	for _, k := range h.pool {
		if k.Kind != txgen.EthSecp256k1 {
			keys = append(keys, k)
		}
	}
	h.pool = keys

	// contracts: A = the init script's own address (direct call), B = a deployed NeoVM
	// contract whose code calls auth.initContractAdmin
	a := newC("A(script)")
	a.AdminInit = h.ids[rng.Intn(nIDs)]
	a.InitCode = authCode("initContractAdmin", &auth.InitContractAdminParam{AdminOntID: []byte(a.AdminInit)})
	a.Addr = common.AddressFromVmCode(a.InitCode)
	b := newC("B(deployed)")
	b.Deployed = true
	b.AdminInit = h.ids[rng.Intn(nIDs)]
	b.InitCode = append(authCode("initContractAdmin", &auth.InitContractAdminParam{AdminOntID: []byte(b.AdminInit)}), 0x61) // NOP: distinct code
	b.Addr = common.AddressFromVmCode(b.InitCode)
	h.cs = []*cmodel{a, b}

	// block 1: register the identities, deploy B
	var txs []*types.Transaction
	var regs []*iddrv.Op
	for _, id := range h.ids {
		k := h.fresh()
		op := &iddrv.Op{Method: "regIDWithPublicKey", ID: id, Pub: k.PubBytes(), PubKey: k, Signers: []*txgen.Key{k}, Class: "right"}
		tx, err := env.Tx(op.Code(), op.Signers)
		if err != nil {
			r.Inconclusive(fmt.Sprintf("history %d: %v", idx, err))
			return
		}
		txs = append(txs, tx)
		regs = append(regs, op)
	}
	dtx, err := env.DeployTx(b.InitCode, "authproxy", []*txgen.Key{h.fresh()})
	if err != nil {
		r.Inconclusive(fmt.Sprintf("history %d: deploy: %v", idx, err))
		return
	}
	txs = append(txs, dtx)
	res, err := env.Commit(txs, 0)
	if err != nil {
		r.Inconclusive(fmt.Sprintf("history %d: setup block: %v", idx, err))
		h.broken = true
		return
	}
	for i, x := range res {
		if x.State != 1 {
			r.Inconclusive(fmt.Sprintf("history %d: setup tx %d failed", idx, i))
			return
		}
		if i < len(regs) {
			h.m.Apply(regs[i])
		}
	}
	h.log = append(h.log, map[string]interface{}{"op": "setup", "registered": h.ids, "deployed": b.Addr.ToHexString(), "time": env.LastTs})
	// a second key for some identities
	for i := 0; i < 2; i++ {
		h.stepKey()
		if h.dead {
			return
		}
	}
	h.probeAll()

	// one scripted scenario (scenario.go) is played at a seeded point of the walk of every second
	// history; its steps do not count as steps of the walk
	scenAt := h.rng.Range(0, nSteps*2/3)
	if idx%2 != 0 && idx%4 != 1 {
		scenAt = -1 // every second history plays one of S1..S4, every fourth plays S5
	}
	for n := 0; n < nSteps && !h.dead; {
		if len(h.queue) > 0 {
			f := h.queue[0]
			h.queue = h.queue[1:]
			if f() && !h.dead {
				h.r.Count("scenario-steps")
				h.probeAll()
			}
			continue
		}
		if n == scenAt {
			scenAt = -1
			if idx%2 == 0 {
				h.enqueueScenario(idx / 2)
			} else {
				h.enqueueS5(idx / 4)
			}
			continue
		}
		h.stepRandom()
		n++
		if h.dead {
			return
		}
		h.probeAll()
	}
	if !h.dead {
		r.Count("histories-completed")
		if idx < 2 {
			r.Sample(map[string]interface{}{"history": idx, "steps": h.log})
		}
	}
}

func main() {
	r := vf.NewRun("C41", "exploration",
		"seeded histories of ~30 state-changing steps over 4 registered ONT IDs and 2 contracts (one addressed by its init script, one deployed NeoVM proxy): initContractAdmin, transfer, assignFuncsToRole, assignOntIDsToRole, delegate (shapes: right, delegate-of-delegate, level 0/2/3+, to-already-holds, period 0/1/overflow/2^32), withdraw (root / non-root / none), ontid key add/revoke/ID revoke, time steps landing the clock exactly on expiry and expiry+1; signer classes right / extra / no-signature / wrong keyNo / revoked key / empty; after every step verifyToken is pre-executed for all (contract, caller, fn) with the caller's key plus 5 key-control variants, boundary blocks also carry verifyToken transactions; every second history also plays, at a seeded point of its walk, one scripted multi-step scenario generated against the state it meets (S1: a second delegator takes over a delegate whose first delegation expired, then withdrawals by the new, the former and a non-delegator, re-delegation; S2: two delegators on one delegate while the first is live / at the expiry second / after a withdrawal; S3: renewal by the same delegator while live / at expiry / after expiry / after withdrawal; S4: delegate-of-delegate chains with the middle live, withdrawn or expired, then a proper delegation that the chain members cannot withdraw; family and main variant are stratified over the history index); every fourth history plays S5 instead, phantom state changes: with a direct holder, a live delegate and an outsider of a role, assignFuncsToRole of a function nobody has (alone, or followed by verifyToken in the same invoke script) is only pre-executed / mined in a transaction that faults (THROW) or runs out of gas after the calls / mined faulting and followed in the same block by verifyToken transactions, each followed by pre-executed and mined verifyToken probes, then the real assignment; likewise phantom assignOntIDsToRole, delegate (outsider stays out) and withdraw (delegate stays in)); a case = one verifyToken evaluation, distinct by (model reason, variant, answer, mode, contract)")
	scratch := vf.Scratch("c41")
	defer os.RemoveAll(scratch)
	nHist := vf.N(300, 3000)
	workers := runtime.NumCPU()
	if workers > 16 {
		workers = 16
	}
	rng := vf.NewRNG(vf.Seed())
	pool := iddrv.NewPool(scratch, 25)
	vf.Parallel(nHist, workers, func(i int) {
		hr := rng.Sub(uint64(i))
		runHistory(r, pool, i, hr, hr.Sub(99).Range(26, 34))
	})

	for _, m := range []string{"initContractAdmin", "transfer", "assignFuncsToRole", "assignOntIDsToRole", "delegate", "withdraw"} {
		r.Require("op-accepted/"+m, 5)
		r.Require("op-rejected/"+m, 5)
	}
	for _, a := range []string{"answer/true/direct-role", "answer/true/delegated-role", "answer/true/delegated-role@time==expiry", "answer/false/expired-delegation@time==expiry+1",
		"answer/false/expired-delegation", "answer/false/withdrawn-delegation", "answer/false/no-key-control", "answer/false/no-role", "answer/false/role-without-fn",
		"variant/no-signature", "variant/wrong-keyNo", "variant/revoked-key", "variant/empty", "probe/in-block", "probe/pre-exec", "delegation-created", "delegation-withdrawn"} {
		r.Require(a, 5)
	}
	r.Require("answer/true/delegated-role:fn-set-extended-later", 3)
	r.Require("shape/assign-role-to-its-current-delegate", 3)
	// scripted scenarios (scenario.go): every family, every main variant and the decisive moments
	// of each must have been played (the counts are those of the unchanged contract's behaviour)
	for k, min := range map[string]int64{
		"S1/completed": 20, "S2/completed": 10, "S3/completed": 10, "S4/completed": 10,
		"S1/cast:a-is-admin": 5, "S1/cast:a-is-not-admin": 5, "S1/cast:x-is-fresh": 5, "S1/cast:x-is-a-member": 5,
		"S1/end=b": 3, "S1/end=b,a": 3, "S1/end=a": 3, "S1/end=a,b": 3, "S1/end=o,b": 3, "S1/end=o": 3, "S1/end=b,redelegate-b,b": 3, "S1/end=b,redelegate-a,b,a": 3, "S1/end=none": 3,
		"S1/second-delegation:while-first-live=false": 5, "S1/second-delegation@time==expiry=true": 5, "S1/second-delegation@time==expiry+1=true": 5, "S1/second-delegation@later=true": 5,
		"S1/x-holds-by-second-delegation": 20, "S1/x-denied-after-withdraw-by-delegator": 10, "S1/x-still-holds-after-withdraw-by-former-delegator": 5,
		"S1/x-still-holds-after-withdraw-by-non-delegator": 3, "S1/non-delegator:direct-holder": 1, "S1/re-delegation-by-delegator=true": 2, "S1/re-delegation-by-former-delegator=true": 2,
		"S1/run-out:delegate-holds-at-time==expiry=true": 5, "S1/run-out:delegate-holds-after-expiry=false": 20,
		"S2/variant=b-withdraws,first-runs-out": 3, "S2/variant=a-withdraws,b-delegates": 3, "S2/variant=second-at-expiry-instant": 3, "S2/variant=first-runs-out,second,first-again": 3,
		"S2/second-delegation:first-live=false": 10, "S2/second-delegation:first-at-time==expiry=true": 3, "S2/second-delegation:first-expired=true": 3, "S2/second-delegation:first-withdrawn=true": 3,
		"S2/x-holds-after-withdraw-by-first-delegator-after-expiry=true": 5, "S2/x-holds-after-withdraw-by-second-delegator=false": 3, "S2/x-holds-after-withdraw-by-refused-second-delegator=true": 3,
		"S2/run-out:delegate-holds-at-time==expiry=true": 5,
		"S3/variant=renew-while-live,run-out":            3, "S3/variant=renew-while-live,withdraw": 3, "S3/variant=renew-at-expiry-instant": 3, "S3/variant=renew-after-expiry": 3, "S3/variant=withdraw,renew": 3,
		"S3/renew-while-live=false": 5, "S3/renew-at-time==expiry=true": 3, "S3/renew-after-expiry=true": 3, "S3/renew-after-withdraw=true": 3, "S3/x-holds-after-withdraw=false": 8,
		"S3/run-out:delegate-holds-at-time==expiry=true": 3,
		"S4/variant=middle-live":                         5, "S4/variant=middle-withdrawn": 5, "S4/variant=middle-expires": 5,
		"S4/chain:middle-live=false": 10, "S4/chain:middle-withdrawn=false": 5, "S4/chain:middle-at-time==expiry=false": 5, "S4/chain:middle-expired=false": 5,
		"S4/chain:level-0=false": 3, "S4/chain:level-1=false": 5, "S4/chain:level-2=false": 3, "S4/y-holds-nothing-after-chain-attempt": 20,
		"S4/y-holds-by-proper-delegation": 10, "S4/y-holds-after-withdraw-by-middle=true": 3, "S4/y-holds-after-withdraw-by-delegator=false": 3,
		// S5: every phantom (what it calls, how it is kept out of the ledger), each of them also as the first one played
		"S5/completed": 20, "S5/real-assignment-after-phantoms=true": 20, "S5/holder-and-delegate-have-F-after-real-assignment": 20,
		"S5/funcs-phantom:assign-funcs:pre-exec": 20, "S5/funcs-phantom:assign-funcs+verify:pre-exec": 20, "S5/funcs-phantom:assign-funcs+verify:mined-throw": 20,
		"S5/funcs-phantom:assign-funcs+verify:mined-out-of-gas": 20, "S5/funcs-phantom:assign-funcs+verify:mined-throw-then-other-txs": 20,
		"S5/funcs-phantom-played-first:assign-funcs:pre-exec": 4, "S5/funcs-phantom-played-first:assign-funcs+verify:pre-exec": 4, "S5/funcs-phantom-played-first:assign-funcs+verify:mined-throw": 4,
		"S5/funcs-phantom-played-first:assign-funcs+verify:mined-out-of-gas": 4, "S5/funcs-phantom-played-first:assign-funcs+verify:mined-throw-then-other-txs": 4,
		"S5/funcs-phantom:verifyToken-inside-the-transaction=true": 20, "S5/mined-probe=false": 200, "S5/mined-probe=true": 100,
		"S5/ids-phantom:assign-ids+verify:pre-exec": 5, "S5/ids-phantom:assign-ids+verify:mined-throw": 5, "S5/ids-phantom:assign-ids+verify:mined-out-of-gas": 5,
		"S5/ids-phantom:delegate+verify:pre-exec": 5, "S5/ids-phantom:delegate+verify:mined-throw": 5, "S5/ids-phantom:delegate+verify:mined-out-of-gas": 5,
		"S5/ids-phantom:withdraw+verify:pre-exec": 5, "S5/ids-phantom:withdraw+verify:mined-throw": 5, "S5/ids-phantom:withdraw+verify:mined-out-of-gas": 5,
		"S5/ids-phantom:assign-ids+verify:verifyToken-inside-the-transaction=true": 5, "S5/ids-phantom:delegate+verify:verifyToken-inside-the-transaction=true": 5,
		"S5/ids-phantom:withdraw+verify:verifyToken-inside-the-transaction=false": 5,
		"S5/outsider-holds-nothing-after-assign-ids+verify":                       15, "S5/outsider-holds-nothing-after-delegate+verify": 15, "S5/delegate-still-holds-after-withdraw+verify": 15,
	} {
		r.Require("scenario/"+k, min)
	}
	mmMu.Lock()
	r.Extra("op_outcome_mismatches", mismatches)
	if len(mmSample) > 0 {
		keys := make([]string, 0, len(mmSample))
		for k := range mmSample {
			keys = append(keys, k)
		}
		sort.Strings(keys)
		if len(keys) > 4 {
			keys = keys[:4]
		}
		s := map[string]interface{}{}
		for _, k := range keys {
			s[k] = mmSample[k]
		}
		r.Extra("op_outcome_mismatch_samples", s)
	}
	mmMu.Unlock()
	r.Extra("boundary_convention", "statement: valid while now <= expiry; the contract's verifyToken agrees (skips a token only when expireTime < now); its getAuthToken (used by delegate/withdraw/assign) uses now < expireTime")
	r.Assume("\"proved control of its key\" = ontid.verifySignature: identity valid, key keyNo exists and is not revoked, its address is in the transaction's witness set (authentication right not required)")
	r.Assume("delegations of one role to one identity by different delegators are independent: the identity holds the role while any of them is unexpired and was not withdrawn; a withdraw is the initiator withdrawing its own delegation(s) and touches nobody else's (the unchanged contract keeps one entry per delegate and role and refuses a second delegation while one is live, so two are on record together only when the second was accepted at the very second the first ends)")
	r.Assume("which authorised operations the contract chooses to refuse (e.g. delegating to somebody who already holds the role) is not judged: the model follows the contract's reported outcome for assignments and delegations that are legitimate by the statement, ignores reported successes that are not, and the verifyToken probes decide; the one exception is a withdraw by the delegator itself (key proved): it ends the delegation in the model whatever the contract reports, because a refusal there leaves the delegate authorised through a delegation its delegator withdrew (never refused by the unchanged contract: counter withdraw-of-live-delegation-by-its-delegator-refused)")
	pool.Close()
	os.RemoveAll(scratch)
	r.Finish()
}
